(* Proofs/LinkWrsGlue: C11 x C01, completeness of the additional section of a REFERRAL (the glue).
   C01_referral_glue gives the additional section of a referral exactly, as a fold of [glue_step] over
   the NS targets; here: after the fold every target has, for each family, an address in the message
   whenever the declared records hold one of positive weight - so the REALISED additional section holds
   EXACTLY ONE record per NS target and family that has a declared visible non-wildcard address of
   positive weight, and none otherwise (max 1 per family and target: min(1, number with positive weight)). *)
From DnsV Require Import Base.Bytes Model.Store Model.LookupV1 Model.Serve.
From DnsV Require Import Spec.Answer Spec.Rows Spec.AnswerExtra.
From DnsV Require Import Proofs.Compile Proofs.ZoneCut Proofs.Referral Proofs.AnswerItems Proofs.Glue Proofs.AuthSections Proofs.FileLevel.
From DnsV Require Import Proofs.V2Store Proofs.V2Corollaries.
From DnsV Require Model.Wrs Proofs.Wrs.
From DnsV Require Import Model.ComposeMore Proofs.LinkWrsServe.
From Coq Require Import Lia Permutation ZifyN ZifyNat ZifyBool.
Open Scope N_scope.

(* does the name t have a declared visible non-wildcard address of family ty with positive weight *)
Definition has_pos_addr (L : bytes) (recs : list record) (t : bytes) (ty : N) : bool :=
  existsb posw (addr_records L recs t ty).

Lemma existsb_filter_len : forall {X} (p : X -> bool) l, existsb p l = negb (nlen (filter p l) =? 0).
Proof.
  intros X p l. induction l as [|a l IH]; [reflexivity|]. cbn [existsb filter]. destruct (p a); cbn [orb].
  - unfold nlen. cbn [length]. symmetry. apply negb_true_iff. apply N.eqb_neq. lia.
  - exact IH.
Qed.

Lemma npick_c : forall max (rs : list record), npick max (map cand_of rs) = N.min max (nlen (filter posw rs)).
Proof. intros. unfold npick, npos, nlen. f_equal. f_equal. exact (count_cands rs). Qed.

Lemma item_is_refl : forall t ty qc cs k, item_is t ty (IPick t ty qc cs k) = true.
Proof. intros. cbn [item_is]. rewrite N.eqb_refl, bytes_eqb_refl. reflexivity. Qed.

Section Glue.
Variable recs : list record.
Variable L : bytes.
Hypothesis W : wf_recs recs.
Hypothesis HL : length L = 2%nat.

(* the candidates glue_step collects for a wanted family, and when one is served *)
Lemma glue_cands_npick : forall t ty,
  npick 1 (map cand_of (filter (fun r => negb (r_wild r) && (r_type r =? ty) && true) (at_keys recs L (lower_bytes t)))) =
  if has_pos_addr L recs t ty then 1 else 0.
Proof.
  intros t ty. rewrite npick_c. unfold has_pos_addr. rewrite existsb_filter_len.
  pose proof (cands_perm recs L W HL t ty) as P.
  unfold nlen. rewrite (Proofs.Wrs.filter_length_perm posw _ _ P).
  destruct (N.of_nat (length (filter posw (addr_records L recs t ty))) =? 0) eqn:E; cbn [negb]; lia.
Qed.

(* what is in the message stays in the message *)
Lemma glue_step_keeps : forall qc m t t' ty',
  has_record m t' ty' = true -> has_record (glue_step recs L qc m t) t' ty' = true.
Proof.
  intros qc m t t' ty' H. unfold glue_step.
  destruct (negb (has_record m t 1) || negb (has_record m t 28)); [|exact H].
  destruct m as [an ns ex]. cbn [m_an m_ns m_ex]. rewrite has_record_ex_app, H. reflexivity.
Qed.

Lemma fold_glue_keeps : forall qc ts m t' ty',
  has_record m t' ty' = true -> has_record (fold_left (glue_step recs L qc) ts m) t' ty' = true.
Proof.
  induction ts as [|t ts IH]; intros m t' ty' H; cbn [fold_left]; [exact H|].
  apply IH. apply glue_step_keeps. exact H.
Qed.

(* after its step a target has an address of every family it has a positive-weight address of *)
Lemma glue_step_adds : forall qc m t ty, ty = 1 \/ ty = 28 ->
  has_pos_addr L recs t ty = true -> has_record (glue_step recs L qc m t) t ty = true.
Proof.
  intros qc m t ty Hty Hp.
  destruct (has_record m t ty) eqn:Hm; [apply glue_step_keeps; exact Hm|].
  unfold glue_step. destruct m as [an ns ex]. cbn [m_an m_ns m_ex].
  assert (Ew : negb (has_record (mkMsg an ns ex) t 1) || negb (has_record (mkMsg an ns ex) t 28) = true).
  { destruct Hty; subst ty; rewrite Hm; cbn [negb orb]; [reflexivity|apply orb_true_r]. }
  rewrite Ew. unfold add_apply. cbn [w4 w6 wrs_empty app].
  rewrite has_record_ex_app, Hm, existsb_app. cbn [orb].
  destruct Hty; subst ty; rewrite Hm; cbn [negb].
  - apply orb_true_iff. right. unfold wrs_items at 1. rewrite glue_cands_npick, Hp. cbn [N.eqb existsb].
    rewrite item_is_refl. reflexivity.
  - apply orb_true_iff. left. unfold wrs_items at 1. rewrite glue_cands_npick, Hp. cbn [N.eqb existsb].
    rewrite item_is_refl. reflexivity.
Qed.

Lemma fold_glue_adds : forall qc ts m t ty, ty = 1 \/ ty = 28 -> In t ts ->
  has_pos_addr L recs t ty = true -> has_record (fold_left (glue_step recs L qc) ts m) t ty = true.
Proof.
  induction ts as [|t0 ts IH]; intros m t ty Hty Hin Hp; [contradiction|]. cbn [fold_left].
  destruct Hin as [->|Hin]; [|exact (IH _ t ty Hty Hin Hp)].
  apply fold_glue_keeps. apply glue_step_adds; assumption.
Qed.
End Glue.

Lemma fold_glue_shape : forall recs L qc ts an ns ex,
  exists ex', fold_left (glue_step recs L qc) ts (mkMsg an ns ex) = mkMsg an ns ex'.
Proof.
  intros recs L qc ts. induction ts as [|t ts IH]; intros an ns ex; cbn [fold_left]; [exists ex; reflexivity|].
  unfold glue_step at 2. cbn [m_an m_ns m_ex].
  destruct (negb (has_record (mkMsg an ns ex) t 1) || negb (has_record (mkMsg an ns ex) t 28)); apply IH.
Qed.

(* ------------------------------------------------------------------ the realised glue *)
Lemma kcount_in : forall t ty l, In (t, ty) (map rr_key l) -> (1 <= kcount t ty l)%nat.
Proof.
  intros t ty l H. apply in_map_iff in H as (r & Er & Hr). unfold kcount.
  induction l as [|a l IH]; [contradiction|]. cbn [filter].
  destruct Hr as [->|Hr].
  - apply keyb_spec in Er. rewrite Er. cbn [length]. lia.
  - destruct (bytes_eqb (rr_owner a) t && (rr_type a =? ty)); cbn [length]; specialize (IH Hr); lia.
Qed.

Section Exact.
Variable K : Type.
Variable klt : K -> K -> bool.
Variable kpos : K -> bool.
Hypothesis klt_irrefl : forall a, klt a a = false.
Hypothesis klt_trans : forall a b c, klt a b = true -> klt b c = true -> klt a c = true.
Hypothesis kzero_below : forall z a, kpos z = false -> kpos a = true -> klt z a = true.
Variable keyof : N -> N -> K.
Hypothesis keyof_pos : forall u w, u <= Model.Wrs.maxU32 -> kpos (keyof u w) = Model.Wrs.dk_pos (u, w).

(* core: a response whose answer section is empty, whose authority section is NS records and whose additional
   section is the glue fold over their targets *)
Lemma glue_exact_core : forall recs L, wf_recs recs -> length L = 2%nat ->
  forall qc zn (nsl : list record) (x : response) (dr : draws) max,
  rs_an x = [] -> rs_ns x = map (ns_item zn qc) nsl ->
  rs_ex x = m_ex (fold_left (glue_step recs L qc) (map r_rdata nsl) (mkMsg [] (map (ns_item zn qc) nsl) [])) ->
  extras_sound recs L qc (rs_an x) (rs_ns x) (rs_ex x) ->
  (forall s i j, 0 < dr s i j < Model.Wrs.maxU32) ->
  forall r ty, In r nsl -> ty = 1 \/ ty = 28 ->
  kcount (r_rdata r) ty (c_ex (realise K klt kpos keyof dr max x)) =
    if has_pos_addr L recs (r_rdata r) ty then 1%nat else 0%nat.
Proof.
  intros recs L W HL qc zn nsl x dr max Han Hns Hex Hs Hd r ty Hr Hty.
  destruct (realise_extras K klt kpos klt_irrefl klt_trans kzero_below keyof keyof_pos recs L qc _ _ _ (dr sec_ex) (Hd sec_ex) Hs)
    as (chosen & E & Ek & F).
  destruct (extras_keys recs L qc _ _ _ Hs) as (ND & _).
  assert (Ekeys : map rr_key (c_ex (realise K klt kpos keyof dr max x)) = map item_key (rs_ex x)).
  { cbn [realise c_ex]. rewrite E, <- Ek, map_map. apply map_ext. intros ((a, b), c). reflexivity. }
  destruct (has_pos_addr L recs (r_rdata r) ty) eqn:Hp.
  - (* present: exactly one *)
    assert (Hh : has_record (fold_left (glue_step recs L qc) (map r_rdata nsl) (mkMsg [] (map (ns_item zn qc) nsl) []))
                   (r_rdata r) ty = true).
    { apply (fold_glue_adds recs L W HL); [exact Hty|apply in_map; exact Hr|exact Hp]. }
    destruct (fold_glue_shape recs L qc (map r_rdata nsl) [] (map (ns_item zn qc) nsl) []) as (ex' & Efold).
    rewrite Efold in Hh, Hex. cbn [m_ex] in Hex. unfold has_record in Hh. cbn [m_an m_ns m_ex existsb orb] in Hh.
    assert (Hnsf : existsb (item_is (r_rdata r) ty) (map (ns_item zn qc) nsl) = false).
    { clear - Hty. induction nsl as [|a l IH]; [reflexivity|]. cbn [map existsb ns_item item_is rr_type].
      destruct Hty; subst ty; cbn [N.eqb Pos.eqb andb orb]; exact IH. }
    rewrite Hnsf in Hh. cbn [orb] in Hh. apply existsb_exists in Hh as (i & Hi & Hk). apply item_is_key in Hk.
    assert (Hin : In (r_rdata r, ty) (map rr_key (c_ex (realise K klt kpos keyof dr max x)))).
    { rewrite Ekeys, Hex, <- Hk. apply in_map. exact Hi. }
    pose proof (kcount_in _ _ _ Hin) as H1.
    pose proof (kcount_nodup (r_rdata r) ty (c_ex (realise K klt kpos keyof dr max x))) as H2.
    rewrite Ekeys in H2. specialize (H2 ND). lia.
  - (* absent: none - every realised record comes from a positive-weight declared address *)
    apply kcount_zero. intros r' Hr' Er'.
    cbn [realise c_ex] in Hr'. rewrite E in Hr'. apply in_map_iff in Hr' as (c & Ec & Hc).
    rewrite Forall_forall in F. destruct (F c Hc) as (_ & F2 & F3 & _).
    assert (Et : fst (fst c) = r_rdata r /\ snd (fst c) = ty).
    { rewrite <- Ec in Er'. unfold rr_key, ex_rr in Er'. cbn [rr_owner rr_type] in Er'. inversion Er'. split; reflexivity. }
    destruct Et as (Et1 & Et2). rewrite Et1, Et2 in F2.
    assert (X : has_pos_addr L recs (r_rdata r) ty = true).
    { unfold has_pos_addr. apply existsb_exists. exists (snd c). split; [exact F2|]. unfold posw. apply N.ltb_lt. exact F3. }
    rewrite Hp in X. discriminate.
Qed.
End Exact.

(* ================================================================== composition with C01_referral_glue *)
Section Composed.
Variable K : Type.
Variable klt : K -> K -> bool.
Variable kpos : K -> bool.
Hypothesis klt_irrefl : forall a, klt a a = false.
Hypothesis klt_trans : forall a b c, klt a b = true -> klt b c = true -> klt a c = true.
Hypothesis kzero_below : forall z a, kpos z = false -> kpos a = true -> klt z a = true.
Variable keyof : N -> N -> K.
Hypothesis keyof_pos : forall u w, u <= Model.Wrs.maxU32 -> kpos (keyof u w) = Model.Wrs.dk_pos (u, w).

(* the glue of a referral, realised: EXACTLY one address record per NS record's target and family that has a
   declared visible non-wildcard address of positive weight, none otherwise; label-by-label reader *)
Theorem referral_glue_exact_v1 : forall b recs L, wf_recs recs -> Forall wf_ns_rdata recs ->
  length L = 2%nat -> b <> RDB2 -> wf_view L recs = true -> forall q n z ecs max x (dr : draws),
  wf_name n -> nlen (pack n) <= 255 -> lower_bytes (q_name q) = pack n ->
  (q_edns q = None \/ q_edns q = Some 0) -> q_type q <> 43 ->
  zone_cut L recs n = Some z -> authoritative L recs z = false ->
  serve b (store_v1 recs) q (LocOk L) ecs max = OReply x ->
  (forall s i j, 0 < dr s i j < Model.Wrs.maxU32) ->
  forall r ty, In r (of_type 2 (own_records L recs z)) -> ty = 1 \/ ty = 28 ->
  kcount (r_rdata r) ty (c_ex (realise K klt kpos keyof dr max x)) =
    if has_pos_addr L recs (r_rdata r) ty then 1%nat else 0%nat.
Proof.
  intros b recs L W WN HL Hb V q n z ecs max x dr Hn Hl Hq He Hds Hz Ha Hs Hd r ty Hr Hty.
  destruct (referral_v1 b recs L W WN HL Hb V q n z ecs max x Hn Hl Hq He Hds Hz Ha Hs) as (_ & _ & Ran & Rns & P).
  pose proof (referral_glue_v1 b recs L W WN HL Hb V q n z ecs max x Hn Hl Hq He Hds Hz Ha Hs) as Rex.
  destruct (referral_sections_v1 b recs L W HL Hb V q n z ecs max x Hn Hl Hq He Hds Hz Ha Hs) as (_ & Es).
  apply (glue_exact_core K klt kpos klt_irrefl klt_trans kzero_below keyof keyof_pos recs L W HL
           (q_class q) (pack z) (ns_of_cut recs L z) x dr max Ran Rns Rex Es Hd r ty); [|exact Hty].
  unfold ns_of_cut. apply (Permutation_in r (Permutation_sym P)). exact Hr.
Qed.

(* closest-key reader over the v2-keyed store (through C02_v2_equals_v1) *)
Theorem referral_glue_exact_v2 : forall recs L, wf_recs recs -> Forall wf_ns_rdata recs ->
  length L = 2%nat -> wf_view L recs = true -> forall q n z ecs max x (dr : draws),
  wf_name n -> nlen (pack n) <= 255 -> lower_bytes (q_name q) = pack n ->
  (q_edns q = None \/ q_edns q = Some 0) -> q_type q <> 43 ->
  zone_cut L recs n = Some z -> authoritative L recs z = false ->
  serve RDB2 (store_v2 recs) q (LocOk L) ecs max = OReply x ->
  (forall s i j, 0 < dr s i j < Model.Wrs.maxU32) ->
  forall r ty, In r (of_type 2 (own_records L recs z)) -> ty = 1 \/ ty = 28 ->
  kcount (r_rdata r) ty (c_ex (realise K klt kpos keyof dr max x)) =
    if has_pos_addr L recs (r_rdata r) ty then 1%nat else 0%nat.
Proof.
  intros recs L W WN HL V q n z ecs max x dr Hn Hl Hq He Hds Hz Ha Hs.
  rewrite (v2_equals_v1 recs L W HL V q n ecs max Hn Hl Hq) in Hs.
  exact (referral_glue_exact_v1 RDB1 recs L W WN HL ltac:(discriminate) V q n z ecs max x dr Hn Hl Hq He Hds Hz Ha Hs).
Qed.
End Composed.

Lemma has_pos_addr_spec : forall L recs t ty,
  has_pos_addr L recs t ty = true <-> exists r, In r (addr_records L recs t ty) /\ 0 < r_weight r.
Proof.
  intros. unfold has_pos_addr. rewrite existsb_exists. split; intros (r & Hr & Hw); exists r; (split; [exact Hr|]);
    unfold posw in *; [apply N.ltb_lt; exact Hw|apply N.ltb_lt; exact Hw].
Qed.
