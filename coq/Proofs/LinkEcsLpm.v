(* C10 x C03: the hypothesis of the C10 scope theorems (GetLocationByMap is
   longest-prefix match over the declared subnets) discharged by the C03 driver
   theorems.
     CDB      gl = cdb_get_location sep db  with  cdb_db f = Some db  (both prefix-set
              modes), nets = nets_of f; no hypothesis about the driver is left, only
              C03's guards on the data file (wf_kinds, wf_addrs, wf_subnets of every map).
     RocksDB  gl = rdb_get_location db, nets = any assignment map -> subnets, under
              the database-contents hypothesis of C03_rdb_driver_is_lpm, named
              [rdb_holds_points] here (Proofs/LinkRdbDb.v derives it from the compiled
              store). *)
From DnsV Require Import Base.Bytes Base.Ip Spec.Lpm Model.Rearranger Model.Location Model.Ecs.
From DnsV Require Import Proofs.Lpm Proofs.Location Proofs.Rearranger Proofs.RdbLocate Proofs.Ecs.
Open Scope N_scope.

(* the literal copies made by the C10 slice are the C03 definitions *)
Lemma c03_client_plen_eq : forall a bits ones plen, c03_client_plen a bits ones plen <-> client_plen a bits ones plen.
Proof. intros. unfold c03_client_plen, client_plen. tauto. Qed.

Lemma c03_lpm_result_eq : forall r, c03_lpm_result r = lpm_result r.
Proof. intros [[l k]|]; reflexivity. Qed.

(* ---------------------------------------------------------------- CDB *)

(* the guard of C03 on a data file: map kinds M / 8, addresses below 2^128, and the
   subnets of every map well-formed (for a map without subnets that is trivial) *)
Definition wf_file (f : dfile) : Prop :=
  wf_kinds f = true /\ wf_addrs f = true /\ forall m, wf_subnets (nets_of f m).

Lemma cdb_gl_is_lpm : forall sep f db, wf_file f -> cdb_db f = Some db ->
  forall m c, wf_client c -> exists r, cdb_get_location sep db m c = Ok r /\
    hit_of r = lpm (nets_of f m) (cfam c) (search_addr true c) (eff_plen c).
Proof.
  intros sep f db [Hk [Ha Hw]] Hdb.
  apply (c03_shape_suffices (nets_of f) (cdb_get_location sep db)).
  intros m a bits ones plen Halt Hc. rewrite c03_lpm_result_eq.
  apply cdb_is_lpm; auto.
Qed.

Theorem scope_truthful_cdb : forall sep f db fm8 fmM,
  wf_kinds f = true -> wf_addrs f = true -> (forall m, wf_subnets (nets_of f m)) -> cdb_db f = Some db ->
  forall ev q r e mo8 moM rip,
  fm8 = Ok mo8 -> fmM = Ok moM -> q_rip q = Some rip -> rip < two128 ->
  badvers q = false -> no_backend_error ev ->
  query_ecs q = Some e -> wf_ecs e ->
  serve fm8 fmM (cdb_get_location sep db) ev q = Reply r ->
  exists e', reply_ecs r = Some e' /\
    e_scope e' = expected_scope (nets_of f) (map_of mo8) e /\
    (e_fam e = 1 -> e_scope e' <= 32) /\ (e_fam e = 2 -> e_scope e' <= 128).
Proof.
  intros sep f db fm8 fmM Hk Ha Hw Hdb.
  exact (scope_truthful (nets_of f) true fm8 fmM (cdb_get_location sep db)
           (cdb_gl_is_lpm sep f db (conj Hk (conj Ha Hw)) Hdb)).
Qed.

Theorem fallback_to_resolver_cdb : forall sep f db fm8 fmM,
  wf_kinds f = true -> wf_addrs f = true -> (forall m, wf_subnets (nets_of f m)) -> cdb_db f = Some db ->
  forall ev q r mo8 moM rip,
  fm8 = Ok mo8 -> fmM = Ok moM -> q_rip q = Some rip -> rip < two128 ->
  badvers q = false -> no_backend_error ev ->
  (forall e, query_ecs q = Some e -> wf_ecs e) ->
  serve fm8 fmM (cdb_get_location sep db) ev q = Reply r ->
  r_loc r = match query_ecs q with
            | Some e => if id_eqb (ecs_decides (nets_of f) (map_of mo8) e) (0, 0)
                        then resolver_decides (nets_of f) (map_of moM) rip
                        else ecs_decides (nets_of f) (map_of mo8) e
            | None => resolver_decides (nets_of f) (map_of moM) rip
            end.
Proof.
  intros sep f db fm8 fmM Hk Ha Hw Hdb.
  exact (fallback_to_resolver (nets_of f) true fm8 fmM (cdb_get_location sep db)
           (cdb_gl_is_lpm sep f db (conj Hk (conj Ha Hw)) Hdb)).
Qed.

Theorem always_replies_cdb : forall sep f db fm8 fmM,
  wf_kinds f = true -> wf_addrs f = true -> (forall m, wf_subnets (nets_of f m)) -> cdb_db f = Some db ->
  forall ev q mo8 moM rip,
  fm8 = Ok mo8 -> fmM = Ok moM -> q_rip q = Some rip -> rip < two128 ->
  (forall e, query_ecs q = Some e -> wf_ecs e) ->
  exists r, serve fm8 fmM (cdb_get_location sep db) ev q = Reply r.
Proof.
  intros sep f db fm8 fmM Hk Ha Hw Hdb.
  exact (always_replies (nets_of f) true fm8 fmM (cdb_get_location sep db)
           (cdb_gl_is_lpm sep f db (conj Hk (conj Ha Hw)) Hdb)).
Qed.

(* ---------------------------------------------------------------- RocksDB *)

(* the database-contents hypothesis of C03_rdb_driver_is_lpm, for every map: the
   range-point records of map m in [db] are exactly those of the points Rearrange
   returns for the subnets [nets m] *)
Definition rdb_holds_points (sort : list point -> list point) (nets : mapid -> list subnet) (db : list kv) : Prop :=
  forall m, exists pts, rearrange sort (nets m) = Ok pts /\
    (forall p, In p pts -> In (rp_key m p, mv1 (rp_value p)) db) /\
    (forall k v, In (k, v) db -> is_prefix (rp_marker ++ mapid_bytes m) k = true ->
       exists p, In p pts /\ k = rp_key m p /\ v = mv1 (rp_value p)).

(* the definition, spelled out *)
Lemma rdb_holds_points_unfold : forall sort nets db,
  rdb_holds_points sort nets db <->
  forall m, exists pts, rearrange sort (nets m) = Ok pts /\
    (forall p, In p pts -> In (rp_key m p, mv1 (rp_value p)) db) /\
    (forall k v, In (k, v) db -> is_prefix (rp_marker ++ mapid_bytes m) k = true ->
       exists p, In p pts /\ k = rp_key m p /\ v = mv1 (rp_value p)).
Proof. intros. apply iff_refl. Qed.

Lemma rdb_gl_is_lpm : forall sort nets db, sort_spec sort -> (forall m, wf_subnets (nets m)) ->
  rdb_holds_points sort nets db ->
  forall m c, wf_client c -> exists r, rdb_get_location db m c = Ok r /\
    hit_of r = lpm (nets m) (cfam c) (search_addr true c) (eff_plen c).
Proof.
  intros sort nets db Hs Hw Hdb.
  apply (c03_shape_suffices nets (rdb_get_location db)).
  intros m a bits ones plen Halt Hc. rewrite c03_lpm_result_eq.
  destruct (Hdb m) as [pts [Hp [Hhas Honly]]].
  apply (rdb_driver_is_lpm sort Hs (nets m) (Hw m) pts Hp db m Hhas Honly); auto.
Qed.

Theorem scope_truthful_rdb : forall sort nets db fm8 fmM,
  sort_spec sort -> (forall m, wf_subnets (nets m)) -> rdb_holds_points sort nets db ->
  forall ev q r e mo8 moM rip,
  fm8 = Ok mo8 -> fmM = Ok moM -> q_rip q = Some rip -> rip < two128 ->
  badvers q = false -> no_backend_error ev ->
  query_ecs q = Some e -> wf_ecs e ->
  serve fm8 fmM (rdb_get_location db) ev q = Reply r ->
  exists e', reply_ecs r = Some e' /\
    e_scope e' = expected_scope nets (map_of mo8) e /\
    (e_fam e = 1 -> e_scope e' <= 32) /\ (e_fam e = 2 -> e_scope e' <= 128).
Proof.
  intros sort nets db fm8 fmM Hs Hw Hdb.
  exact (scope_truthful nets true fm8 fmM (rdb_get_location db) (rdb_gl_is_lpm sort nets db Hs Hw Hdb)).
Qed.

Theorem fallback_to_resolver_rdb : forall sort nets db fm8 fmM,
  sort_spec sort -> (forall m, wf_subnets (nets m)) -> rdb_holds_points sort nets db ->
  forall ev q r mo8 moM rip,
  fm8 = Ok mo8 -> fmM = Ok moM -> q_rip q = Some rip -> rip < two128 ->
  badvers q = false -> no_backend_error ev ->
  (forall e, query_ecs q = Some e -> wf_ecs e) ->
  serve fm8 fmM (rdb_get_location db) ev q = Reply r ->
  r_loc r = match query_ecs q with
            | Some e => if id_eqb (ecs_decides nets (map_of mo8) e) (0, 0)
                        then resolver_decides nets (map_of moM) rip
                        else ecs_decides nets (map_of mo8) e
            | None => resolver_decides nets (map_of moM) rip
            end.
Proof.
  intros sort nets db fm8 fmM Hs Hw Hdb.
  exact (fallback_to_resolver nets true fm8 fmM (rdb_get_location db) (rdb_gl_is_lpm sort nets db Hs Hw Hdb)).
Qed.

Theorem always_replies_rdb : forall sort nets db fm8 fmM,
  sort_spec sort -> (forall m, wf_subnets (nets m)) -> rdb_holds_points sort nets db ->
  forall ev q mo8 moM rip,
  fm8 = Ok mo8 -> fmM = Ok moM -> q_rip q = Some rip -> rip < two128 ->
  (forall e, query_ecs q = Some e -> wf_ecs e) ->
  exists r, serve fm8 fmM (rdb_get_location db) ev q = Reply r.
Proof.
  intros sort nets db fm8 fmM Hs Hw Hdb.
  exact (always_replies nets true fm8 fmM (rdb_get_location db) (rdb_gl_is_lpm sort nets db Hs Hw Hdb)).
Qed.
