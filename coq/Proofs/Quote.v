From DnsV Require Import Model.Quote.
Open Scope N_scope.

Lemma unhex_hexdigit : forall n, n < 16 -> unhex (hexdigit n) = Some n.
Proof.
  intros n H. unfold hexdigit, unhex.
  destruct (N.ltb_spec n 10).
  - replace ((48 <=? 48 + n) && (48 + n <=? 57)) with true.
    + f_equal. lia.
    + symmetry. apply andb_true_intro. split; apply N.leb_le; lia.
  - replace ((48 <=? 87 + n) && (87 + n <=? 57)) with false.
    + replace ((97 <=? 87 + n) && (87 + n <=? 102)) with true.
      * f_equal. lia.
      * symmetry. apply andb_true_intro. split; apply N.leb_le; lia.
    + symmetry. apply andb_false_iff. right. apply N.leb_gt. lia.
Qed.
