(* Proofs/Quote: Bunquote inverts Bquote, and Bquote never emits a separator (C17). *)
From DnsV Require Import Model.Quote Proofs.Utf8.
From Coq Require Import ZifyN ZifyNat ZifyBool.
Ltac Zify.zify_post_hook ::= Z.div_mod_to_equations.
Open Scope N_scope.

(* ---------- hex digits ---------- *)
Lemma unhex_hexdigit : forall n, n < 16 -> unhex (hexdigit n) = Some n.
Proof.
  intros n H. unfold hexdigit, unhex.
  destruct (N.ltb_spec n 10).
  - replace ((48 <=? 48 + n) && (48 + n <=? 57)) with true.
    + f_equal. lia.
    + symmetry. apply andb_true_intro. split; apply N.leb_le; lia.
  - replace ((48 <=? 87 + n) && (87 + n <=? 57)) with false.
    + replace ((97 <=? 87 + n) && (87 + n <=? 102)) with true.
      * f_equal. lia.
      * symmetry. apply andb_true_intro. split; apply N.leb_le; lia.
    + symmetry. apply andb_false_iff. right. apply N.leb_gt. lia.
Qed.

(* bytes that are neither a separator, nor a newline, nor backslash, nor double quote *)
Definition good (x : N) : Prop := x <> 92 /\ x <> 34 /\ x <> 44 /\ x <> 58 /\ x <> 10.

Lemma hexdigit_good : forall n, n < 16 -> good (hexdigit n).
Proof. intros n H. unfold good, hexdigit. destruct (N.ltb_spec n 10); lia. Qed.

Lemma mod16_lt : forall a, a mod 16 < 16.
Proof. intros. apply N.mod_lt. lia. Qed.

Lemma unhex_n_digit : forall n d t v, d < 16 ->
  unhex_n (S n) (hexdigit d :: t) v = unhex_n n t (v * 16 + d).
Proof. intros. cbn [unhex_n]. rewrite unhex_hexdigit by assumption. reflexivity. Qed.

Lemma unhex_hex2 : forall b X, b < 256 -> unhex_n 2 (hex2 b ++ X) 0 = Some (b, X).
Proof.
  intros b X H. unfold hex2. cbn [app].
  rewrite !unhex_n_digit by apply mod16_lt. cbn [unhex_n]. f_equal. f_equal. lia.
Qed.

Lemma unhex_hex4_gen : forall r X v, unhex_n 4 (hex4 r ++ X) v = Some (v * 65536 + r mod 65536, X).
Proof.
  intros r X v. unfold hex4. cbn [app].
  rewrite !unhex_n_digit by apply mod16_lt. cbn [unhex_n]. f_equal. f_equal.
  replace (r / 256) with (r / 16 / 16) by (rewrite N.div_div by lia; reflexivity).
  replace (r / 4096) with (r / 16 / 16 / 16) by (rewrite !N.div_div by lia; reflexivity).
  lia.
Qed.

Lemma unhex_hex8 : forall r X, r < 4294967296 -> unhex_n 8 (hex8 r ++ X) 0 = Some (r, X).
Proof.
  intros r X H. unfold hex8. cbn [app].
  rewrite !unhex_n_digit by apply mod16_lt.
  rewrite unhex_hex4_gen. f_equal. f_equal.
  replace (r / 1048576) with (r / 65536 / 16) by (rewrite N.div_div by lia; reflexivity).
  replace (r / 16777216) with (r / 65536 / 16 / 16) by (rewrite !N.div_div by lia; reflexivity).
  replace (r / 268435456) with (r / 65536 / 16 / 16 / 16) by (rewrite !N.div_div by lia; reflexivity).
  lia.
Qed.

Lemma hex2_good : forall b, Forall good (hex2 b).
Proof. intros. unfold hex2. repeat constructor; apply hexdigit_good, mod16_lt. Qed.
Lemma hex4_good : forall b, Forall good (hex4 b).
Proof. intros. unfold hex4. repeat constructor; apply hexdigit_good, mod16_lt. Qed.
Lemma hex8_good : forall b, Forall good (hex8 b).
Proof. intros. unfold hex8. apply Forall_app. split; [|apply hex4_good].
  repeat constructor; apply hexdigit_good, mod16_lt. Qed.

(* ---------- the three rewriting passes of Bquote ---------- *)
Definition R44 : bytes := [92; 48; 53; 52].
Definition R58 : bytes := [92; 48; 55; 50].
Definition rw1 (x : N) : bytes := if x =? 44 then R44 else if x =? 58 then R58 else [x].
Definition rw (s : bytes) : bytes := flat_map rw1 s.
Notation U := unescape_dquote.

Lemma contains_app : forall c a b, contains c (a ++ b) = contains c a || contains c b.
Proof. induction a; intros; cbn [app contains]; [reflexivity|]. rewrite IHa. apply orb_assoc. Qed.

Lemma contains_false_Forall : forall c s, contains c s = false <-> Forall (fun x => x <> c) s.
Proof.
  induction s; cbn [contains]; split; intros H.
  - constructor.
  - reflexivity.
  - apply orb_false_iff in H. destruct H as [H1 H2]. constructor; [apply N.eqb_neq; exact H1|apply IHs; exact H2].
  - inversion H; subst. apply orb_false_iff. split; [apply N.eqb_neq; assumption|apply IHs; assumption].
Qed.

Lemma replace1_none : forall c rep s, contains c s = false -> replace1 c rep s = s.
Proof.
  induction s; cbn [contains replace1]; intros H; [reflexivity|].
  apply orb_false_iff in H. destruct H as [H1 H2]. rewrite H1. cbn [app]. f_equal. auto.
Qed.

Lemma replace1_if : forall c rep s, (if contains c s then replace1 c rep s else s) = replace1 c rep s.
Proof. intros. destruct (contains c s) eqn:E; [reflexivity|]. symmetry. apply replace1_none. exact E. Qed.

Lemma replace1_app : forall c rep a b, replace1 c rep (a ++ b) = replace1 c rep a ++ replace1 c rep b.
Proof. induction a; intros; cbn [app replace1]; [reflexivity|]. rewrite IHa. apply app_assoc. Qed.

Lemma rw_app : forall a b, rw (a ++ b) = rw a ++ rw b.
Proof. intros. unfold rw. apply flat_map_app. Qed.

Lemma replace_rw : forall s, replace1 58 R58 (replace1 44 R44 s) = rw s.
Proof.
  induction s; [reflexivity|]. cbn [replace1]. rewrite replace1_app, IHs.
  unfold rw. cbn [flat_map]. f_equal. unfold rw1.
  destruct (N.eqb_spec a 44).
  - reflexivity.
  - cbn [replace1 app]. destruct (a =? 58); reflexivity.
Qed.

Lemma rw_id : forall s, Forall good s -> rw s = s.
Proof.
  induction 1; [reflexivity|]. unfold rw in *. cbn [flat_map]. rewrite IHForall.
  unfold rw1. destruct H as (_ & _ & H1 & H2 & _).
  apply N.eqb_neq in H1, H2. rewrite H1, H2. reflexivity.
Qed.

Lemma U_cons : forall x R, x <> 92 \/ hd 0 R <> 34 -> U (x :: R) = x :: U R.
Proof.
  intros x R H. destruct R as [|y R]; [reflexivity|].
  cbn [unescape_dquote]. cbn [hd] in H.
  destruct ((x =? 92) && (y =? 34)) eqn:E; [lia|reflexivity].
Qed.

Lemma U_esc : forall R, U (92 :: 34 :: R) = 34 :: U R.
Proof. reflexivity. Qed.

Lemma U_app_no92 : forall l R, Forall (fun x => x <> 92) l -> U (l ++ R) = l ++ U R.
Proof.
  induction 1; [reflexivity|]. cbn [app]. rewrite U_cons by (left; assumption). f_equal. assumption.
Qed.

Lemma good_no92 : forall l, Forall good l -> Forall (fun x => x <> 92) l.
Proof. intros l H. eapply Forall_impl; [|exact H]. intros a Ha. apply Ha. Qed.

Lemma bquote_eq : forall oracle b,
  bquote oracle b = U (rw (quote_body oracle (length b) b)).
Proof.
  intros. unfold bquote, go_quote. rewrite !replace1_if.
  set (q := quote_body oracle (length b) b).
  change (34 :: q ++ [34]) with ([34] ++ q ++ [34]).
  rewrite !replace1_app. fold R44 R58. rewrite !replace_rw.
  change (rw [34]) with [34].
  cbn [app].
  replace (Nat.ltb (length (34 :: rw q ++ [34])) 2) with false.
  - unfold strip_ends. cbn [tl]. rewrite removelast_last. reflexivity.
  - symmetry. apply Nat.ltb_ge. cbn [length]. rewrite app_length. cbn [length]. lia.
Qed.

(* ---------- tokens ---------- *)
(* what Bunquote appends for one UnquoteChar result *)
Definition emit (c : N) (mb : bool) : bytes :=
  if (c <? 128) || negb mb then [c mod 256] else encode_rune c.

(* UnquoteChar consumes exactly the token t and what Bunquote appends is orig *)
Definition unq_ok (t orig : bytes) : Prop :=
  forall X, exists c mb, unquote_char (t ++ X) = Ok (c, mb, X) /\ emit c mb = orig.

Definition nosep (x : N) : Prop := x <> 44 /\ x <> 58 /\ x <> 10.

(* t : a token emitted by strconv.Quote for the source bytes orig;
   t' : what is left of it after the three rewriting passes of Bquote *)
Definition tok_ok (t orig : bytes) : Prop :=
  exists t',
    (forall Y, hd 0 Y <> 34 -> U (rw t ++ Y) = t' ++ U Y) /\
    unq_ok t' orig /\
    (forall Y, hd 0 (rw t ++ Y) <> 34) /\
    t' <> [] /\
    Forall nosep t' /\
    (contains 92 t' = false -> t' = orig).

Lemma good_nosep : forall l, Forall good l -> Forall nosep l.
Proof. intros l H. eapply Forall_impl; [|exact H]. unfold good, nosep. intros a Ha. tauto. Qed.

Lemma tok_ok_raw : forall t, Forall good t -> t <> [] -> unq_ok t t -> tok_ok t t.
Proof.
  intros t G Ne Q. exists t. rewrite (rw_id t G).
  split; [intros Y _; apply U_app_no92, good_no92, G|].
  split; [exact Q|].
  split. { intros Y. destruct t as [|x t]; [congruence|]. inversion G; subst. cbn [app hd]. apply H1. }
  split; [exact Ne|]. split; [apply good_nosep, G|]. reflexivity.
Qed.

Lemma tok_ok_esc : forall e l orig, good e -> Forall good l -> unq_ok (92 :: e :: l) orig ->
  tok_ok (92 :: e :: l) orig.
Proof.
  intros e l orig Ge Gl Q. exists (92 :: e :: l).
  assert (R : rw (92 :: e :: l) = 92 :: e :: l).
  { change (92 :: e :: l) with ([92] ++ e :: l). rewrite rw_app. rewrite (rw_id (e :: l)) by (constructor; assumption). reflexivity. }
  rewrite R.
  split.
  { intros Y _. cbn [app]. rewrite U_cons by (right; cbn [hd]; apply Ge).
    f_equal. change (e :: l ++ Y) with ((e :: l) ++ Y). apply U_app_no92, good_no92. constructor; assumption. }
  split; [exact Q|].
  split. { intros Y. cbn [app hd]. lia. }
  split; [discriminate|].
  split. { constructor; [unfold nosep; lia|]. apply good_nosep. constructor; assumption. }
  cbn [contains]. rewrite N.eqb_refl. discriminate.
Qed.

Lemma emit_byte : forall c, c < 256 -> emit c false = [c].
Proof. intros. unfold emit. cbn [negb]. rewrite orb_true_r. rewrite N.mod_small by assumption. reflexivity. Qed.

Lemma tok_simple : forall e c, good e -> (forall X, unquote_char (92 :: e :: X) = Ok (c, false, X)) -> c < 256 ->
  tok_ok [92; e] [c].
Proof.
  intros e c G Q Hc. apply tok_ok_esc; [exact G|constructor|].
  intros X. exists c, false. split; [apply Q|apply emit_byte, Hc].
Qed.

Lemma tok_dquote : tok_ok [92; 34] [34].
Proof.
  exists [34]. split; [intros Y _; reflexivity|].
  split. { intros X. exists 34, false. split; reflexivity. }
  split. { intros Y. cbn. lia. }
  split; [discriminate|]. split; [repeat constructor; lia|]. reflexivity.
Qed.

Lemma tok_backslash : tok_ok [92; 92] [92].
Proof.
  exists [92; 92].
  split. { intros Y HY. change (rw [92; 92] ++ Y) with (92 :: 92 :: Y).
    rewrite U_cons by (right; cbn [hd]; lia). rewrite U_cons by (right; exact HY). reflexivity. }
  split. { intros X. exists 92, false. split; reflexivity. }
  split. { intros Y. cbn. lia. }
  split; [discriminate|]. split; [repeat constructor; lia|]. cbn. discriminate.
Qed.

Lemma tok_octal : forall c a b, good a -> good b -> a <> 34 ->
  rw [c] = [92; 48; a; b] ->
  (forall X, unquote_char (92 :: 48 :: a :: b :: X) = Ok (c, false, X)) -> c < 256 ->
  nosep a -> nosep b ->
  tok_ok [c] [c].
Proof.
  intros c a b Ga Gb _ R Q Hc Na Nb. exists [92; 48; a; b]. rewrite R.
  split. { intros Y _. cbn [app]. rewrite U_cons by (right; cbn [hd]; lia).
    f_equal. change (48 :: a :: b :: Y) with ([48; a; b] ++ Y). apply U_app_no92.
    repeat constructor; try lia; [apply Ga|apply Gb]. }
  split. { intros X. exists c, false. split; [apply Q|apply emit_byte, Hc]. }
  split. { intros Y. cbn [app hd]. lia. }
  split; [discriminate|].
  split. { repeat constructor; try lia; [apply Na|apply Na|apply Na|apply Nb|apply Nb|apply Nb]. }
  cbn [contains]. rewrite N.eqb_refl. discriminate.
Qed.

Lemma tok_comma : tok_ok [44] [44].
Proof.
  apply (tok_octal 44 53 52); try (unfold good, nosep; lia); try reflexivity.
Qed.

Lemma tok_colon : tok_ok [58] [58].
Proof.
  apply (tok_octal 58 55 50); try (unfold good, nosep; lia); try reflexivity.
Qed.

Lemma unquote_char_x : forall u, unquote_char (92 :: 120 :: u) =
  match unhex_n 2 u 0 with Some (v, u') => Ok (v, false, u') | None => Err 1 end.
Proof. reflexivity. Qed.

Lemma unquote_char_u : forall u, unquote_char (92 :: 117 :: u) =
  match unhex_n 4 u 0 with
  | Some (v, u') => if valid_rune v then Ok (v, true, u') else Err 1
  | None => Err 1 end.
Proof. reflexivity. Qed.

Lemma unquote_char_U : forall u, unquote_char (92 :: 85 :: u) =
  match unhex_n 8 u 0 with
  | Some (v, u') => if valid_rune v then Ok (v, true, u') else Err 1
  | None => Err 1 end.
Proof. reflexivity. Qed.

Lemma tok_hexbyte : forall b, b < 256 -> tok_ok (92 :: 120 :: hex2 b) [b].
Proof.
  intros b Hb. apply tok_ok_esc; [unfold good; lia|apply hex2_good|].
  intros X. exists b, false. cbn [app]. rewrite unquote_char_x, unhex_hex2 by assumption.
  split; [reflexivity|apply emit_byte, Hb].
Qed.

Lemma unq_ok_ascii : forall r, r < 128 -> r <> 92 -> unq_ok [r] [r].
Proof.
  intros r Hr N92 X. exists r, false. cbn [app]. unfold unquote_char.
  destruct (128 <=? r) eqn:E1; [lia|]. destruct (r =? 92) eqn:E2; [lia|]. cbn [negb].
  split; [reflexivity|apply emit_byte; lia].
Qed.

Lemma escaped_ascii : forall oracle r, r < 128 -> tok_ok (escaped_rune oracle r) [r].
Proof.
  intros oracle r Hr. unfold escaped_rune.
  destruct (N.eqb_spec r 34) as [->|N34]; [apply tok_dquote|].
  destruct (N.eqb_spec r 92) as [->|N92]; [apply tok_backslash|].
  cbn [orb]. unfold is_print. destruct (N.ltb_spec r 128); [|lia].
  destruct ((32 <=? r) && (r <=? 126)) eqn:P.
  { unfold encode_rune. destruct (N.ltb_spec r 128); [|lia].
    destruct (N.eq_dec r 44) as [->|N44]; [apply tok_comma|].
    destruct (N.eq_dec r 58) as [->|N58]; [apply tok_colon|].
    apply tok_ok_raw.
    - repeat constructor; lia.
    - discriminate.
    - apply unq_ok_ascii; assumption. }
  destruct (N.eqb_spec r 7) as [->|N7]; [apply tok_simple; [unfold good; lia|reflexivity|lia]|].
  destruct (N.eqb_spec r 8) as [->|N8]; [apply tok_simple; [unfold good; lia|reflexivity|lia]|].
  destruct (N.eqb_spec r 12) as [->|N12]; [apply tok_simple; [unfold good; lia|reflexivity|lia]|].
  destruct (N.eqb_spec r 10) as [->|N10]; [apply tok_simple; [unfold good; lia|reflexivity|lia]|].
  destruct (N.eqb_spec r 13) as [->|N13]; [apply tok_simple; [unfold good; lia|reflexivity|lia]|].
  destruct (N.eqb_spec r 9) as [->|N9]; [apply tok_simple; [unfold good; lia|reflexivity|lia]|].
  destruct (N.eqb_spec r 11) as [->|N11]; [apply tok_simple; [unfold good; lia|reflexivity|lia]|].
  destruct ((r <? 32) || (r =? 127)) eqn:C; [|lia].
  apply tok_hexbyte. lia.
Qed.

Lemma unquote_char_multi : forall r X, 128 <= r -> valid_rune r = true ->
  unquote_char (encode_rune r ++ X) = Ok (r, true, X).
Proof.
  intros r X H H0. destruct (encode_rune_bytes r H H0) as [F L].
  pose proof (decode_encode r X H H0) as D.
  assert (S : skipn (length (encode_rune r)) (encode_rune r ++ X) = X).
  { rewrite skipn_app, skipn_all, Nat.sub_diag. reflexivity. }
  destruct (encode_rune r) as [|c l] eqn:E; [cbn in L; lia|].
  inversion F; subst. cbn [app] in *. unfold unquote_char.
  destruct (128 <=? c) eqn:E1; [|lia]. rewrite D. cbv beta iota. rewrite S. reflexivity.
Qed.

Lemma emit_multi : forall r, 128 <= r -> emit r true = encode_rune r.
Proof. intros. unfold emit. destruct (N.ltb_spec r 128); [lia|]. reflexivity. Qed.

Lemma unhex_hex4 : forall r X, r < 65536 -> unhex_n 4 (hex4 r ++ X) 0 = Some (r, X).
Proof. intros. rewrite unhex_hex4_gen. rewrite N.mod_small by assumption. reflexivity. Qed.

Lemma escaped_multi : forall oracle r, 128 <= r -> valid_rune r = true ->
  tok_ok (escaped_rune oracle r) (encode_rune r).
Proof.
  intros oracle r Hr Hv. unfold escaped_rune.
  destruct (N.eqb_spec r 34); [lia|]. destruct (N.eqb_spec r 92); [lia|]. cbn [orb].
  destruct (is_print oracle r).
  { destruct (encode_rune_bytes r Hr Hv) as [F L]. apply tok_ok_raw.
    - eapply Forall_impl; [|exact F]. unfold good. intros a Ha. lia.
    - intros E. rewrite E in L. cbn in L. lia.
    - intros X. exists r, true. split; [apply unquote_char_multi; assumption|apply emit_multi; assumption]. }
  repeat (match goal with |- context [if ?a =? ?b then _ else _] => destruct (N.eqb_spec a b); [lia|] end).
  destruct ((r <? 32) || (r =? 127)) eqn:E; [lia|].
  rewrite Hv. cbn [negb].
  destruct (N.ltb_spec r 65536).
  - apply tok_ok_esc; [unfold good; lia|apply hex4_good|].
    intros X. exists r, true. cbn [app]. rewrite unquote_char_u, unhex_hex4 by assumption. rewrite Hv.
    split; [reflexivity|apply emit_multi; assumption].
  - apply tok_ok_esc; [unfold good; lia|apply hex8_good|].
    intros X. exists r, true. cbn [app]. rewrite unquote_char_U, unhex_hex8 by (unfold valid_rune in Hv; lia). rewrite Hv.
    split; [reflexivity|apply emit_multi; assumption].
Qed.

(* ---------- one iteration of the loop of strconv.Quote ---------- *)
Lemma quote_body_step : forall oracle f b0 t, wf_bytes (b0 :: t) ->
  exists tok orig s',
    quote_body oracle (S f) (b0 :: t) = tok ++ quote_body oracle f s' /\
    b0 :: t = orig ++ s' /\ tok_ok tok orig /\ orig <> [].
Proof.
  intros oracle f b0 t W. inversion W as [|? ? Hb Wt]; subst.
  cbn [quote_body].
  destruct (N.ltb_spec b0 128).
  - cbv beta iota.
    destruct (N.eqb_spec b0 rune_error) as [E|_]; [unfold rune_error in E; lia|].
    rewrite andb_false_r.
    exists (escaped_rune oracle b0), [b0], t.
    split; [reflexivity|]. split; [reflexivity|]. split; [apply escaped_ascii; assumption|discriminate].
  - destruct (decode_rune (b0 :: t)) as [r w] eqn:D. apply decode_rune_spec in D; [|lia].
    destruct D as [[-> ->]|(Hw & Hr & Hv & Hl & Hs)].
    + cbv beta iota. cbn [Nat.eqb andb]. rewrite N.eqb_refl.
      exists (92 :: 120 :: hex2 b0), [b0], t.
      split; [reflexivity|]. split; [reflexivity|]. split; [apply tok_hexbyte; assumption|discriminate].
    + cbv beta iota. destruct (Nat.eqb_spec w 1); [lia|]. cbn [andb].
      exists (escaped_rune oracle r), (encode_rune r), (skipn w (b0 :: t)).
      split; [reflexivity|]. split; [exact Hs|]. split; [apply escaped_multi; assumption|].
      intros E. rewrite E in Hl. cbn in Hl. lia.
Qed.

Lemma unquote_loop_step : forall f t X c mb, t <> [] -> unquote_char (t ++ X) = Ok (c, mb, X) ->
  unquote_loop (S f) (t ++ X) =
  match unquote_loop f X with Err e => Err e | Ok rest => Ok (emit c mb ++ rest) end.
Proof.
  intros f t X c mb Ne H. destruct (t ++ X) as [|y l] eqn:E.
  - apply app_eq_nil in E. destruct E. contradiction.
  - cbn [unquote_loop]. rewrite H. reflexivity.
Qed.

Lemma unquote_loop_nil : forall f, unquote_loop f [] = Ok [].
Proof. destruct f; reflexivity. Qed.

(* the output of Bquote for the source s, with fuel for the loop of strconv.Quote *)
Definition out (oracle : N -> bool) (fuel : nat) (s : bytes) : bytes :=
  U (rw (quote_body oracle fuel s)).

Lemma quote_main : forall oracle fuel s, wf_bytes s -> (length s <= fuel)%nat ->
  hd 0 (rw (quote_body oracle fuel s)) <> 34 /\
  (forall f', (length (out oracle fuel s) <= f')%nat -> unquote_loop f' (out oracle fuel s) = Ok s) /\
  Forall nosep (out oracle fuel s) /\
  (contains 92 (out oracle fuel s) = false -> out oracle fuel s = s).
Proof.
  intros oracle. unfold out.
  assert (Base : forall fuel,
    hd 0 (rw (quote_body oracle fuel [])) <> 34 /\
    (forall f', (length (U (rw (quote_body oracle fuel []))) <= f')%nat ->
                unquote_loop f' (U (rw (quote_body oracle fuel []))) = Ok []) /\
    Forall nosep (U (rw (quote_body oracle fuel []))) /\
    (contains 92 (U (rw (quote_body oracle fuel []))) = false -> U (rw (quote_body oracle fuel [])) = [])).
  { intros fuel. replace (quote_body oracle fuel []) with (@nil N) by (destruct fuel; reflexivity).
    cbn [rw flat_map unescape_dquote hd].
    split; [lia|]. split; [intros; apply unquote_loop_nil|]. split; [constructor|reflexivity]. }
  induction fuel; intros s W L.
  - destruct s; [|cbn in L; lia]. apply Base.
  - destruct s as [|b0 t]; [apply Base|].
    destruct (quote_body_step oracle fuel b0 t W) as (tok & orig & s' & E & Es & T & Ne).
    rewrite E, rw_app. destruct T as (t' & T1 & T2 & T3 & T4 & T5 & T6).
    assert (Ws : wf_bytes s').
    { unfold wf_bytes in *. rewrite Es in W. apply Forall_app in W. apply W. }
    assert (Ls : (length s' <= fuel)%nat).
    { assert (1 <= length orig)%nat by (destruct orig; [congruence|cbn; lia]).
      rewrite Es in L. rewrite app_length in L. lia. }
    destruct (IHfuel s' Ws Ls) as (I1 & I2 & I3 & I4).
    rewrite T1 by exact I1.
    split; [apply T3|]. split.
    { intros f' Lf. rewrite app_length in Lf.
      assert (1 <= length t')%nat by (destruct t'; [congruence|cbn; lia]).
      destruct f'; [lia|].
      destruct (T2 (U (rw (quote_body oracle fuel s')))) as (c & mb & Uq & Em).
      rewrite (unquote_loop_step _ _ _ _ _ T4 Uq). rewrite I2 by lia. rewrite Em, Es. reflexivity. }
    split; [apply Forall_app; split; assumption|].
    intros C. rewrite contains_app in C. apply orb_false_iff in C. destruct C as [C1 C2].
    rewrite (T6 C1), (I4 C2). symmetry. exact Es.
Qed.

(* ---------- C17 ---------- *)
Theorem bquote_roundtrip : forall oracle b, wf_bytes b -> bunquote (bquote oracle b) = Ok b.
Proof.
  intros oracle b W. rewrite bquote_eq.
  destruct (quote_main oracle (length b) b W (le_n _)) as (_ & I2 & _ & I4). unfold out in *.
  set (o := U (rw (quote_body oracle (length b) b))) in *.
  unfold bunquote. destruct o as [|x o'] eqn:E.
  - f_equal. apply I4. reflexivity.
  - rewrite <- E in *. destruct (contains 92 o) eqn:C; cbn [negb].
    + apply I2. apply le_n.
    + f_equal. apply I4. reflexivity.
Qed.

Lemma nosep_contains : forall l, Forall nosep l ->
  contains 44 l = false /\ contains 58 l = false /\ contains 10 l = false.
Proof.
  intros l H. repeat split; apply contains_false_Forall; (eapply Forall_impl; [|exact H]);
    unfold nosep; intros a Ha; tauto.
Qed.

Theorem bquote_no_separator : forall oracle b, wf_bytes b ->
  contains 44 (bquote oracle b) = false /\ contains 58 (bquote oracle b) = false /\
  contains 10 (bquote oracle b) = false.
Proof.
  intros oracle b W. rewrite bquote_eq.
  destruct (quote_main oracle (length b) b W (le_n _)) as (_ & _ & I3 & _).
  apply nosep_contains. exact I3.
Qed.

(* ---------- fields ---------- *)
(* bytes.Join fs [sep] *)
Fixpoint join_sep (sep : N) (l : list bytes) : bytes :=
  match l with
  | [] => []
  | x :: t => match t with [] => x | _ :: _ => x ++ sep :: join_sep sep t end
  end.

Lemma split_on_nosep : forall c x rest cur, contains c x = false ->
  split_on c (x ++ rest) cur = split_on c rest (rev x ++ cur).
Proof.
  induction x; intros rest cur H; [reflexivity|].
  cbn [contains] in H. apply orb_false_iff in H. destruct H as [H1 H2].
  cbn [app split_on rev]. rewrite H1. rewrite IHx by assumption. rewrite <- app_assoc. reflexivity.
Qed.

Lemma split_join : forall c l, l <> [] -> Forall (fun x => contains c x = false) l ->
  split_on c (join_sep c l) [] = l.
Proof.
  induction l as [|x t IH]; intros Ne F; [congruence|].
  inversion F as [|? ? Fx Ft]; subst. cbn [join_sep]. destruct t as [|y t'].
  - rewrite <- (app_nil_r x) at 1. rewrite split_on_nosep by assumption.
    cbn [split_on]. rewrite app_nil_r, rev_involutive. reflexivity.
  - rewrite split_on_nosep by assumption. cbn [split_on]. rewrite N.eqb_refl.
    rewrite app_nil_r, rev_involutive. f_equal. apply IH; [discriminate|assumption].
Qed.

Lemma first_sep_skip : forall x rest, contains 44 x = false -> contains 58 x = false ->
  first_sep (x ++ rest) = first_sep rest.
Proof.
  induction x; intros rest H1 H2; [reflexivity|].
  cbn [contains] in H1, H2. apply orb_false_iff in H1, H2. destruct H1 as [A1 B1], H2 as [A2 B2].
  cbn [app first_sep]. rewrite A1, A2. cbn [orb]. apply IHx; assumption.
Qed.

Theorem fields_roundtrip : forall oracle sep fs, sep = 44 \/ sep = 58 -> fs <> [] ->
  Forall wf_bytes fs ->
  let line := join_sep sep (map (bquote oracle) fs) in
  split_on sep line [] = map (bquote oracle) fs /\
  map bunquote (split_on sep line []) = map Ok fs /\
  ((2 <= length fs)%nat -> first_sep line = Some sep).
Proof.
  intros oracle sep fs Hsep Ne W line. subst line.
  assert (S : split_on sep (join_sep sep (map (bquote oracle) fs)) [] = map (bquote oracle) fs).
  { apply split_join.
    - destruct fs; [congruence|discriminate].
    - apply Forall_map. eapply Forall_impl; [|exact W]. intros b Wb.
      destruct (bquote_no_separator oracle b Wb) as (A & B & _). destruct Hsep; subst; assumption. }
  split; [exact S|]. split.
  - rewrite S, map_map. apply map_ext_Forall. eapply Forall_impl; [|exact W].
    intros b Wb. apply bquote_roundtrip. exact Wb.
  - intros L. destruct fs as [|a [|b t]]; cbn [length] in L; try lia.
    inversion W as [|? ? Wa _]; subst.
    destruct (bquote_no_separator oracle a Wa) as (A & B & _).
    cbn [map join_sep]. rewrite first_sep_skip by assumption.
    cbn [first_sep]. destruct Hsep; subst; reflexivity.
Qed.

(* a concrete instance covering every kind of token (statement repeated in Properties/C17.v) *)
Lemma quote_example :
  let oracle := fun r => r =? 233 in
  let b := [97; 44; 58; 34; 92; 10; 0; 127; 195; 169; 239; 191; 189; 240; 159; 152; 128; 255; 192; 226; 130] in
  wf_bytes b /\
  bquote oracle b =
    [97; 92;48;53;52; 92;48;55;50; 34; 92;92; 92;110; 92;120;48;48; 92;120;55;102; 195;169;
     92;117;102;102;102;100; 92;85;48;48;48;49;102;54;48;48; 92;120;102;102; 92;120;99;48;
     92;120;101;50; 92;120;56;50] /\
  bunquote (bquote oracle b) = Ok b /\
  split_on 44 (join_sep 44 (map (bquote oracle) [b; []; [44; 44]])) [] =
    [bquote oracle b; []; [92;48;53;52; 92;48;53;52]].
Proof.
  cbv zeta. split; [repeat constructor; reflexivity|]. vm_compute. repeat split.
Qed.
