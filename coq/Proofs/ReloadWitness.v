(* Proofs/ReloadWitness: concrete schedules (evaluated by vm_compute) that refute the
   clauses of C05 / C12 which the code does not satisfy (findings F5, F6, F23, F24), and
   instances showing that the hypotheses of the proved theorems are satisfiable. *)
From DnsV Require Import Base.Bytes Model.Reload Proofs.Reload Proofs.ReloadBase Proofs.ReloadFlags
  Proofs.ReloadVis Proofs.ReloadMono Proofs.ReloadPath Proofs.ReloadNoop Proofs.ReloadSingle Proofs.ReloadStale
  Proofs.ReloadMain.
Open Scope N_scope.

Definition nof (_ _ : N) : bool := false.
Ltac vmc := solve [vm_compute; reflexivity].
Ltac vsplit := repeat match goal with |- _ /\ _ => split; [vmc|] end; try vmc.
Definition rep {A} (n : nat) (x : A) : list A := repeat x n.

Definition f1 := mkFile 1 true true.
Definition f2 := mkFile 2 true true.
Definition f3nokey := mkFile 3 true false.

(* ---------------------------------------------------------------- F5 *)
(* RocksDB, cache off; one query, the primary of the served path is updated, one partial reload.
   The query runs up to answered (RLock, pin, RUnlock, locate, cache check, auth, answer = 7 actions),
   then the update and the whole reload (7 actions), then the rest of the query *)
Definition cfg_f5 := mkC true false false false false [mkQS 1 0 true false] [Partial] [mkES 0 f2].
Definition sched_f5 := rep 7 (TQ 0) ++ [TE 0] ++ rep 7 (TR 0) ++ rep 3 (TQ 0).
Notation st_f5_final := (run nof nof cfg_f5 (init cfg_f5 [(0, f1)] 0) sched_f5).

Lemma f5_witness :
  exists q, qat st_f5_final 0 q /\ q_pc q = QDone /\
            q_resp q = Some [mkG 1 0; mkG 1 0; mkG 1 0; mkG 2 1] /\ st_f5 st_f5_final = true /\
            (forall i r, rat st_f5_final i r -> r_pc r = RDone None).
Proof.
  eexists; split; [vmc|]. vsplit.
  intros [|i] r H; vm_compute in H; [inversion H; reflexivity|destruct i; discriminate].
Qed.

Theorem single_generation_refuted :
  exists cfg d p0 sched j q l,
    qat (run nof nof cfg (init cfg d p0) sched) j q /\ q_resp q = Some l /\ ~ single_s l.
Proof.
  exists cfg_f5, [(0, f1)], 0, sched_f5, 0%nat.
  destruct f5_witness as (q&Q&_&R&_). exists q, [mkG 1 0; mkG 1 0; mkG 1 0; mkG 2 1].
  split; [exact Q|]. split; [exact R|]. intros S.
  specialize (S (mkG 1 0) (mkG 2 1)). cbn in S. assert (1 = 2) by (apply S; auto). discriminate.
Qed.

(* ---------------------------------------------------------------- F6 *)
(* cdb, cache on; query 0 computes on generation 1 and is parked before its cache insert
   (8 actions); a full reload to path 1 completes (7 actions, purge included); query 0 inserts
   and writes; query 1 (same key) starts afterwards and is served the stale entry *)
Definition cfg_f6 := mkC false true false false false [mkQS 1 7 true false; mkQS 2 7 true false] [Full 1] [].
Definition sched_f6 := rep 8 (TQ 0) ++ rep 7 (TR 0) ++ rep 2 (TQ 0) ++ rep 6 (TQ 1).
Notation st_f6_final := (run nof nof cfg_f6 (init cfg_f6 [(0, f1); (1, f2)] 0) sched_f6).

Lemma f6_witness :
  exists r q, rat st_f6_final 0 r /\ qat st_f6_final 1 q /\
    r_pc r = RDone None /\ r_epoch r = 1 /\ q_pc q = QDone /\ r_unlock_at r < q_acq_at q /\
    q_cached q = true /\ q_resp q = Some [mkG 1 0; mkG 1 0; mkG 1 0; mkG 1 0] /\ st_f6 st_f6_final = true.
Proof. do 2 eexists; split; [vmc|]; split; [vmc|]. vsplit. Qed.

Theorem no_stale_refuted :
  exists cfg d p0 sched i j r q l g,
    let st := run nof nof cfg (init cfg d p0) sched in
    rat st i r /\ qat st j q /\ r_pc r = RDone None /\ q_pc q <> QStart /\ r_unlock_at r < q_acq_at q /\
    q_resp q = Some l /\ In g l /\ g_epoch g < r_epoch r.
Proof.
  exists cfg_f6, [(0, f1); (1, f2)], 0, sched_f6, 0%nat, 1%nat.
  destruct f6_witness as (r&q&R&Q&D&E&P&L&_&RS&_).
  exists r, q, [mkG 1 0; mkG 1 0; mkG 1 0; mkG 1 0], (mkG 1 0).
  cbn zeta. split; [exact R|]. split; [exact Q|]. split; [exact D|].
  split; [rewrite P; discriminate|]. split; [exact L|]. split; [exact RS|]. split; [left; reflexivity|].
  rewrite E; reflexivity.
Qed.

(* ---------------------------------------------------------------- F23 *)
(* RocksDB with a validation key; the primary is updated to a generation without the key;
   the partial reload catches up (view changes), fails validation and returns the error *)
Definition cfg_f23 := mkC true false false true false [] [Partial] [mkES 0 f3nokey].
Definition st_f23_a := run nof nof cfg_f23 (init cfg_f23 [(0, f1)] 0) [TE 0; TR 0].
Definition st_f23_b := step_or_skip nof nof cfg_f23 st_f23_a (TR 0).
Definition st_f23_final := run nof nof cfg_f23 st_f23_b [TR 0; TR 0].

Theorem failed_reload_is_noop_refuted_nokey :
  exists r, rat st_f23_final 0 r /\ r_pc r = RDone (Some FNoKey) /\ r_inplace r = true /\
            stamp_of st_f23_a (st_served st_f23_a) = 1 /\ stamp_of st_f23_b (st_served st_f23_b) = 3 /\
            stamp_of st_f23_final (st_served st_f23_final) = 3 /\ ~ view_eq st_f23_a st_f23_b.
Proof.
  eexists; split; [vmc|]. vsplit.
  intros (_&_&_&_&V). specialize (V 0%nat). vm_compute in V. assert (L : (0 < 1)%nat) by auto.
  specialize (V L). discriminate.
Qed.

(* ---------------------------------------------------------------- F24 *)
(* RocksDB, ReloadTimeout expires: Reload returns ErrReloadTimeout, the goroutine catches up later *)
Definition cfg_f24 := mkC true false false false true [] [Partial] [mkES 0 f2].
Definition st_f24_a := run nof nof cfg_f24 (init cfg_f24 [(0, f1)] 0) [TE 0; TR 0; TR 0; TR 0].
Definition st_f24_b := step_or_skip nof nof cfg_f24 st_f24_a (TL 0).

Theorem failed_reload_is_noop_refuted_timeout :
  exists r, rat st_f24_a 0 r /\ r_pc r = RDone (Some FTimeout) /\ r_late r = true /\
            stamp_of st_f24_a (st_served st_f24_a) = 1 /\ stamp_of st_f24_b (st_served st_f24_b) = 2 /\
            st_f24_b <> st_f24_a.
Proof.
  eexists; split; [vmc|]. vsplit.
  intros E. assert (X : stamp_of st_f24_b 0 = stamp_of st_f24_a 0) by (rewrite E; reflexivity).
  vm_compute in X. discriminate.
Qed.

(* ---------------------------------------------------------------- satisfiable hypotheses *)
(* cdb: a full reload to path 1 completes, then a query runs: it reads generation 2 at epoch 1 only;
   then a failing reload (missing path 9) and a partial reload follow *)
Definition cfg_ex := mkC false true false true false [mkQS 1 0 true false; mkQS 1 0 true false] [Full 1; Full 9; Partial] [mkES 1 (mkFile 5 true true)].
Definition sched_ex := rep 7 (TR 0) ++ rep 10 (TQ 0) ++ rep 3 (TR 1) ++ [TE 0] ++ rep 7 (TR 2) ++ rep 10 (TQ 1).
Definition st_ex := run nof nof cfg_ex (init cfg_ex [(0, f1); (1, f2)] 0) sched_ex.

Example example_run :
  exists r0 r1 r2 q0 q1,
    rat st_ex 0 r0 /\ rat st_ex 1 r1 /\ rat st_ex 2 r2 /\ qat st_ex 0 q0 /\ qat st_ex 1 q1 /\
    r_pc r0 = RDone None /\ r_epoch r0 = 1 /\ r_unlock_at r0 < q_acq_at q0 /\
    q_resp q0 = Some [mkG 2 1; mkG 2 1; mkG 2 1; mkG 2 1] /\
    r_pc r1 = RDone (Some FMissing) /\ r_inplace r1 = false /\
    r_pc r2 = RDone None /\ r_newpath r2 = 1 /\ r_seen_last r2 = 1 /\ r_epoch r2 = 2 /\
    q_done_at q0 < q_acq_at q1 /\ q_cached q1 = false /\
    q_resp q1 = Some [mkG 5 2; mkG 5 2; mkG 5 2; mkG 5 2] /\
    st_f5 st_ex = false /\ st_f6 st_ex = false /\ no_late st_ex /\ st_path st_ex = 1 /\ st_last_full st_ex = 1.
Proof.
  do 5 eexists. vsplit.
  split; [|split; vmc].
  intros [|[|[|i]]] r H; vm_compute in H; [inversion H; reflexivity ..|destruct i; discriminate].
Qed.
