(* C03 x C07 / C15: the database-contents hypothesis of C03_rdb_driver_is_lpm
   ([rdb_holds_points], Proofs/LinkEcsLpm.v: the range-point records of every map are
   exactly those of the points Rearrange returns) follows from C07's conclusion
   (under every key the compiled store holds the values the codec's records hold,
   as a multiset) for files whose subnet sets are well-formed.

   C07 is parametric in the codec (conv, accum, feature); what is needed of the codec
   here is stated as hypotheses of the theorems, in the terms of the Go code:
     - Accum.MarshalMap = SubnetRanger.MarshalMap (for every map with subnets, one
       Rrangepoint record per point of Rearrange, the maps in any order:
       [rp_accum sort nets ids] up to permutation) plus records [extra] that are not
       range points (the prefix sets unless NoPrefixSets);
     - no other record of the file (ConvertLn of a line, the features record) has a
       key that starts with the range-point marker \000\000\000!.
   The values of C07's records are unframed (the store frames them: appendValues);
   C03's databases hold framed values (mv1).  A RocksDB store (key -> stored bytes,
   Model/Batch.v) is related to C03's database (list of records, read by SeekForPrev)
   by [lists_store]: the list enumerates the store (what an iterator sees).

   The step that makes this work is the squash property (Proofs/SquashKeys.v): within
   one map Rearrange never emits two points with the same (address, mask byte), so
   the multi-value grouping of the compilers (values of one key concatenated) leaves
   exactly one chunk - the location - under every range-point key. *)
From DnsV Require Import Base.Bytes Base.Ip Spec.Lpm Model.Rearranger Model.Location Model.Ecs.
From DnsV Require Import Model.Compile Spec.MapOfLists.
From DnsV Require Import Proofs.MultiValue Proofs.MapOfLists Proofs.Batch Proofs.CompilePipe.
From DnsV Require Import Proofs.Lpm Proofs.Location Proofs.BytesOrder Proofs.Rearranger Proofs.RdbLocate Proofs.SquashKeys.
From DnsV Require Import Proofs.Ecs Proofs.LinkEcsLpm.
From Coq Require Import Lia Permutation.
Open Scope N_scope.

(* ---------------------------------------------------------------- vocabulary *)

(* Rrangepoint.MarshalMap for the points of one map: key and unframed value *)
Definition rp_recs (m : mapid) (pts : list point) : list (bytes * bytes) :=
  map (fun p => (rp_key m p, rp_value p)) pts.

(* SubnetRanger.MarshalMap over the maps [ids] that have a Rearranger;
   Err = Rearrange panicked for one of them *)
Fixpoint rp_accum (sort : list point -> list point) (nets : mapid -> list subnet) (ids : list mapid)
  : result (list (bytes * bytes)) :=
  match ids with
  | [] => Ok []
  | m :: ids' =>
      rbind (rearrange sort (nets m)) (fun pts =>
      rbind (rp_accum sort nets ids') (fun r => Ok (rp_recs m pts ++ r)))
  end.

Definition is_rp_key (k : bytes) : bool := is_prefix rp_marker k.

(* the list enumerates the store: what a RocksDB iterator hands out *)
Definition lists_store (dbl : list (bytes * bytes)) (s : store) : Prop :=
  forall k v, In (k, v) dbl <-> s k = Some v.

(* ---------------------------------------------------------------- small facts *)

Lemma encode_one : forall v, encode [v] = mv1 v.
Proof. intro v. cbn [encode]. rewrite app_nil_r. reflexivity. Qed.

Lemma vals_of_In : forall k v l, In v (vals_of k l) <-> In (k, v) l.
Proof.
  intros k v l. unfold vals_of. rewrite in_map_iff. split.
  - intros [[k' v'] [E H]]. apply filter_In in H. destruct H as [H1 H2]. cbn in *.
    apply Proofs.MultiValue.bytes_eqb_eq in H2. subst. exact H1.
  - intro H. exists (k, v). split; [reflexivity|]. apply filter_In. split; [exact H|].
    cbn. apply Proofs.MultiValue.bytes_eqb_refl.
Qed.

Lemma vals_of_nil_iff : forall k l, vals_of k l = [] <-> forall v, ~ In (k, v) l.
Proof.
  intros k l. split.
  - intros E v H. apply vals_of_In in H. rewrite E in H. destruct H.
  - intro H. destruct (vals_of k l) as [|v r] eqn:E; [reflexivity|].
    exfalso. apply (H v). apply vals_of_In. rewrite E. left. reflexivity.
Qed.

(* a key that occurs once has one value *)
Lemma vals_of_unique : forall l k v, NoDup (map fst l) -> In (k, v) l -> vals_of k l = [v].
Proof.
  induction l as [|[k0 v0] r IH]; intros k v ND Hin; [destruct Hin|].
  cbn [map fst] in ND. inversion ND as [|? ? N1 N2]; subst.
  rewrite vals_of_cons. destruct Hin as [E|Hin].
  - inversion E; subst. rewrite Proofs.MultiValue.bytes_eqb_refl. f_equal.
    apply vals_of_nil_iff. intros v' H. apply N1. change k with (fst (k, v')). apply in_map. exact H.
  - assert (NE : k0 <> k).
    { intro E. subst k0. apply N1. change k with (fst (k, v)). apply in_map. exact Hin. }
    apply Proofs.MultiValue.bytes_eqb_neq in NE. rewrite NE. apply IH; auto.
Qed.

Lemma is_prefix_app_l : forall a b k, is_prefix (a ++ b) k = true -> is_prefix a k = true.
Proof.
  induction a as [|x a IH]; intros b k H; [reflexivity|].
  destruct k as [|y k]; [discriminate H|]. cbn [app is_prefix] in *.
  apply Bool.andb_true_iff in H. destruct H as [H1 H2]. rewrite H1. cbn [andb]. exact (IH b k H2).
Qed.

Lemma mapid_eq_dec : forall x y : mapid, {x = y} + {x <> y}.
Proof. decide equality; apply N.eq_dec. Qed.

Lemma rp_key_is_rp : forall m p, is_rp_key (rp_key m p) = true.
Proof. intros m p. unfold is_rp_key, rp_key. apply is_prefix_app. Qed.

(* the marker and map prefix of a range-point key determine the map *)
Lemma rp_prefix_map : forall m m' p, is_prefix (rp_marker ++ mapid_bytes m) (rp_key m' p) = true -> m = m'.
Proof.
  intros [m1 m2] [m1' m2'] p H. unfold rp_key, rp_marker, mapid_bytes in H. cbn [fst snd app is_prefix] in H.
  repeat (apply Bool.andb_true_iff in H; destruct H as [? H]).
  repeat match goal with X : (_ =? _) = true |- _ => apply N.eqb_eq in X end. subst. reflexivity.
Qed.

Lemma rp_prefix_self : forall m p, is_prefix (rp_marker ++ mapid_bytes m) (rp_key m p) = true.
Proof. intros m p. unfold rp_key. rewrite app_assoc. apply is_prefix_app. Qed.

(* ---------------------------------------------------------------- the accumulator's records *)

Section Accum.
  Variable sort : list point -> list point.
  Hypothesis Hsort : sort_spec sort.
  Variable nets : mapid -> list subnet.
  Hypothesis Hwf : forall m, wf_subnets (nets m).

  (* Rearrange never panics on well-formed subnets *)
  Lemma rearrange_total : forall m, exists pts, rearrange sort (nets m) = Ok pts.
  Proof.
    intro m. assert (H0 : 0 < two128) by reflexivity. assert (H1 : 0 <= 128) by lia.
    destruct (rearrange_is_lpm sort (nets m) 0 0 Hsort (Hwf m) H0 H1 masked_0_0) as [pts [E _]]. eauto.
  Qed.

  Lemma rp_accum_total : forall ids, exists acc, rp_accum sort nets ids = Ok acc.
  Proof.
    induction ids as [|m ids [acc IH]]; [eexists; reflexivity|].
    destruct (rearrange_total m) as [pts E]. cbn [rp_accum]. rewrite E, IH. cbn [rbind]. eauto.
  Qed.

  (* every record is the record of a point of a map in the list *)
  Lemma rp_accum_keys : forall ids acc k v, rp_accum sort nets ids = Ok acc -> In (k, v) acc ->
    exists m pts p, In m ids /\ rearrange sort (nets m) = Ok pts /\ In p pts /\ k = rp_key m p /\ v = rp_value p.
  Proof.
    induction ids as [|m ids IH]; intros acc k v E Hin.
    - cbn in E. inversion E. subst. destruct Hin.
    - cbn [rp_accum] in E. destruct (rearrange sort (nets m)) as [pts|e] eqn:Er; [|discriminate E].
      cbn [rbind] in E. destruct (rp_accum sort nets ids) as [r|e] eqn:Ea; [|discriminate E].
      cbn [rbind] in E. inversion E. subst acc. apply in_app_or in Hin. destruct Hin as [Hin|Hin].
      + unfold rp_recs in Hin. apply in_map_iff in Hin. destruct Hin as [p [Ep Hp]]. inversion Ep; subst.
        exists m, pts, p. repeat split; auto. left. reflexivity.
      + destruct (IH r k v eq_refl Hin) as [m' [pts' [p [H1 [H2 [H3 [H4 H5]]]]]]].
        exists m', pts', p. repeat split; auto. right. exact H1.
  Qed.

  (* the records of one map have pairwise different keys *)
  Lemma rp_recs_keys_nodup : forall m pts, rearrange sort (nets m) = Ok pts -> NoDup (map fst (rp_recs m pts)).
  Proof.
    intros m pts E. unfold rp_recs. rewrite map_map. cbn [fst].
    exact (rearrange_rp_keys_nodup sort (nets m) pts m Hsort (Hwf m) E).
  Qed.

  Lemma rp_recs_other_map : forall m m' pts p' v, rearrange sort (nets m) = Ok pts -> m <> m' ->
    (exists pts', rearrange sort (nets m') = Ok pts' /\ In p' pts') -> ~ In (rp_key m' p', v) (rp_recs m pts).
  Proof.
    intros m m' pts p' v E NE [pts' [E' Hp']] C. unfold rp_recs in C. apply in_map_iff in C.
    destruct C as [p [Ep Hp]]. assert (Ek : rp_key m p = rp_key m' p') by (exact (f_equal fst Ep)).
    destruct (rp_key_inj m m' p p' (rearrange_ip_lt sort _ pts p Hsort (Hwf m) E Hp)
                (rearrange_ip_lt sort _ pts' p' Hsort (Hwf m') E' Hp') Ek) as [X _]. contradiction.
  Qed.

  (* under the key of a point the records hold exactly one value: its location *)
  Lemma rp_accum_vals : forall ids acc, NoDup ids -> rp_accum sort nets ids = Ok acc ->
    forall m pts p, In m ids -> rearrange sort (nets m) = Ok pts -> In p pts ->
    vals_of (rp_key m p) acc = [rp_value p].
  Proof.
    induction ids as [|m0 ids IH]; intros acc ND E m pts p Hm Er Hp; [destruct Hm|].
    inversion ND as [|? ? N1 N2]; subst.
    cbn [rp_accum] in E. destruct (rearrange sort (nets m0)) as [pts0|e] eqn:Er0; [|discriminate E].
    cbn [rbind] in E. destruct (rp_accum sort nets ids) as [r|e] eqn:Ea; [|discriminate E].
    cbn [rbind] in E. inversion E. subst acc. rewrite vals_of_app.
    destruct Hm as [->|Hm].
    - (* the map at hand: one record in its own block, none in the blocks of the other maps *)
      rewrite Er in Er0. inversion Er0. subst pts0.
      rewrite (vals_of_unique (rp_recs m pts) (rp_key m p) (rp_value p) (rp_recs_keys_nodup m pts Er)).
      + assert (Z : vals_of (rp_key m p) r = []); [|rewrite Z; reflexivity].
        apply vals_of_nil_iff. intros v C.
        destruct (rp_accum_keys ids r _ _ Ea C) as [m' [pts' [p' [H1 [H2 [H3 [H4 _]]]]]]].
        destruct (rp_key_inj m m' p p' (rearrange_ip_lt sort _ pts p Hsort (Hwf m) Er Hp)
                    (rearrange_ip_lt sort _ pts' p' Hsort (Hwf m') H2 H3) H4) as [X _].
        subst m'. contradiction.
      + unfold rp_recs. apply in_map_iff. exists p. auto.
    - assert (NE : m0 <> m) by (intro; subst; contradiction).
      assert (Z : vals_of (rp_key m p) (rp_recs m0 pts0) = []).
      { apply vals_of_nil_iff. intros v. apply (rp_recs_other_map m0 m pts0 p v Er0 NE). eauto. }
      rewrite Z. cbn [app]. exact (IH r N2 eq_refl m pts p Hm Er Hp).
  Qed.
End Accum.

(* ---------------------------------------------------------------- from the records to the database *)

(* [dbl] holds the records [R] grouped by key, the values of one key framed and
   concatenated in some order: what every RocksDB compiler produces (multi-value) *)
Definition grouped (R dbl : list (bytes * bytes)) : Prop :=
  (forall k v, In (k, v) dbl -> exists vs, vs <> [] /\ Permutation vs (vals_of k R) /\ v = encode vs) /\
  (forall k, vals_of k R <> [] -> exists vs, Permutation vs (vals_of k R) /\ In (k, encode vs) dbl).

Section GroupedHoldsPoints.
  Variable sort : list point -> list point.
  Hypothesis Hsort : sort_spec sort.
  Variable nets : mapid -> list subnet.
  Hypothesis Hwf : forall m, wf_subnets (nets m).
  (* the maps that have a Rearranger: those with at least one subnet line *)
  Variable ids : list mapid.
  Hypothesis ids_nodup : NoDup ids.
  Hypothesis ids_cover : forall m, ~ In m ids -> nets m = [].
  (* the records of the file: the range points and records that are not range points *)
  Variable acc rest R : list (bytes * bytes).
  Hypothesis Hacc : rp_accum sort nets ids = Ok acc.
  Hypothesis HR : Permutation R (acc ++ rest).
  Hypothesis Hrest : forall k v, In (k, v) rest -> is_rp_key k = false.
  Variable dbl : list (bytes * bytes).
  Hypothesis Hgrp : grouped R dbl.

  (* under a range-point key the records hold what the accumulator's records hold *)
  Lemma rp_vals : forall k, is_rp_key k = true -> Permutation (vals_of k R) (vals_of k acc).
  Proof.
    intros k Hk.
    eapply Permutation_trans; [apply vals_of_perm; exact HR|]. rewrite vals_of_app.
    assert (Z : vals_of k rest = []).
    { apply vals_of_nil_iff. intros v C. rewrite (Hrest k v C) in Hk. discriminate. }
    rewrite Z, app_nil_r. apply Permutation_refl.
  Qed.

  Theorem grouped_holds_points : rdb_holds_points sort nets dbl.
  Proof.
    destruct Hgrp as [G1 G2].
    intro m. destruct (rearrange_total sort Hsort nets Hwf m) as [pts Er]. exists pts. split; [exact Er|].
    split.
    - (* every point's record is there, with exactly one chunk *)
      intros p Hp.
      destruct (in_dec mapid_eq_dec m ids) as [Hm|Hm].
      + pose proof (rp_vals (rp_key m p) (rp_key_is_rp m p)) as P.
        rewrite (rp_accum_vals sort Hsort nets Hwf ids acc ids_nodup Hacc m pts p Hm Er Hp) in P.
        apply Permutation_sym, Permutation_length_1_inv in P.
        destruct (G2 (rp_key m p)) as [vs [Pv Hin]]; [rewrite P; discriminate|].
        rewrite P in Pv. apply Permutation_sym, Permutation_length_1_inv in Pv. subst vs.
        rewrite encode_one in Hin. exact Hin.
      + rewrite (ids_cover m Hm) in Er. unfold rearrange in Er. cbn in Er. inversion Er. subst pts. destruct Hp.
    - (* every record under the marker and map prefix is the record of a point *)
      intros k v Hin Hpre.
      destruct (G1 k v Hin) as [vs [NE [Pv D]]].
      assert (Hk : is_rp_key k = true) by (exact (is_prefix_app_l _ _ _ Hpre)).
      pose proof (Permutation_trans Pv (rp_vals k Hk)) as P.
      destruct (vals_of k acc) as [|v0 vr] eqn:Ev.
      { apply Permutation_sym, Permutation_nil in P. contradiction. }
      assert (Hin0 : In (k, v0) acc) by (apply vals_of_In; rewrite Ev; left; reflexivity).
      destruct (rp_accum_keys sort nets ids acc k v0 Hacc Hin0) as [m' [pts' [p [H1 [H2 [H3 [H4 H5]]]]]]].
      subst k. apply rp_prefix_map in Hpre. subst m'. rewrite Er in H2. inversion H2. subst pts'.
      rewrite (rp_accum_vals sort Hsort nets Hwf ids acc ids_nodup Hacc m pts p H1 Er H3) in Ev.
      rewrite <- Ev in P. apply Permutation_sym, Permutation_length_1_inv in P.
      exists p. split; [exact H3|]. split; [reflexivity|]. rewrite D, P. apply encode_one.
  Qed.
End GroupedHoldsPoints.

(* a store in C07's sense (store_ok, the values of every key are those of the records),
   listed, is such a grouping *)
Lemma store_grouped : forall R (s : store) dbl, store_ok s ->
  (forall k, Permutation (vals s k) (vals_of k R)) -> lists_store dbl s -> grouped R dbl.
Proof.
  intros R s dbl s_ok s_vals Hdbl.
  assert (stored_is_encode : forall k d, s k = Some d -> d = encode (vals s k) /\ vals s k <> []).
  { intros k d E. destruct (s_ok k d E) as [vs [NE [W D]]]. subst d.
    change (vals s k) with (abs s k). rewrite (abs_some s k vs W E). auto. }
  split.
  - intros k v Hin. apply Hdbl in Hin. destruct (stored_is_encode k v Hin) as [D NE].
    exists (vals s k). auto.
  - intros k NE. destruct (s k) as [d|] eqn:E.
    + destruct (stored_is_encode k d E) as [D _]. exists (vals s k). split; [apply s_vals|].
      apply Hdbl. rewrite E, D. reflexivity.
    + exfalso. pose proof (s_vals k) as P. change (vals s k) with (abs s k) in P.
      rewrite (abs_none _ _ E) in P. apply Permutation_nil in P. contradiction.
Qed.

Theorem store_holds_points : forall sort, sort_spec sort -> forall nets, (forall m, wf_subnets (nets m)) ->
  forall ids, NoDup ids -> (forall m, ~ In m ids -> nets m = []) ->
  forall acc rest R, rp_accum sort nets ids = Ok acc -> Permutation R (acc ++ rest) ->
  (forall k v, In (k, v) rest -> is_rp_key k = false) ->
  forall s : store, store_ok s -> (forall k, Permutation (vals s k) (vals_of k R)) ->
  forall dbl, lists_store dbl s -> rdb_holds_points sort nets dbl.
Proof.
  intros sort Hsort nets Hwf ids N C acc rest R Ha HR Hrest s Hok Hv dbl Hl.
  exact (grouped_holds_points sort Hsort nets Hwf ids N C acc rest R Ha HR Hrest dbl (store_grouped R s dbl Hok Hv Hl)).
Qed.

(* ---------------------------------------------------------------- in C07's terms *)

Section FromCompile.
  Variable line : Type.
  Variable conv : line -> result (list (bytes * bytes)).
  Variable accum : list line -> list (bytes * bytes).
  Variable feature : list (bytes * bytes).
  Variable sort : list point -> list point.
  Variable nets : mapid -> list subnet.
  Variable ids : list mapid.

  (* what is needed of the codec for the file f: the accumulator emits the range points
     of the maps [ids] (any order) plus records that are not range points, and nothing
     else in the file is keyed like a range point *)
  Definition rp_codec (f : list line) : Prop :=
    exists acc extra, rp_accum sort nets ids = Ok acc /\ Permutation (accum f) (acc ++ extra) /\
      forall k v, In (k, v) (flat_map (recs_of line conv) f ++ extra ++ feature) -> is_rp_key k = false.

  Hypothesis Hsort : sort_spec sort.
  Hypothesis Hwf : forall m, wf_subnets (nets m).
  Hypothesis ids_nodup : NoDup ids.
  Hypothesis ids_cover : forall m, ~ In m ids -> nets m = [].

  (* the database-contents hypothesis of C03_rdb_driver_is_lpm from C07's conclusion *)
  Theorem rdb_db_from_compile : forall f (db : store) dbl, rp_codec f ->
    store_ok db -> (forall k, Permutation (vals db k) (spec_compile line conv accum feature f k)) ->
    lists_store dbl db -> rdb_holds_points sort nets dbl.
  Proof.
    intros f db dbl [acc [extra [Ha [Pa Hno]]]] Hok Hv Hl.
    assert (HR : Permutation (records line conv accum feature f)
                   (acc ++ flat_map (recs_of line conv) f ++ extra ++ feature)).
    { unfold records.
      eapply Permutation_trans; [apply Permutation_app_head; apply Permutation_app_tail; exact Pa|].
      rewrite <- !app_assoc. apply Permutation_app_swap_app. }
    exact (store_holds_points sort Hsort nets Hwf ids ids_nodup ids_cover acc
             (flat_map (recs_of line conv) f ++ extra ++ feature) (records line conv accum feature f)
             Ha HR Hno db Hok Hv dbl Hl).
  Qed.

  (* ... hence from any RocksDB compilation of the file (builder or batches, any
     setting and schedule: C07's rdb_compilation) *)
  Theorem rdb_db_from_compilation : forall f (db : store) dbl, rp_codec f ->
    feature <> [] -> kvs_ok (records line conv accum feature f) ->
    rdb_compilation line conv accum feature f db ->
    lists_store dbl db -> rdb_holds_points sort nets dbl.
  Proof.
    intros f db dbl Hc NF W C Hl.
    destruct (rdb_compilation_lossless line conv accum feature f db NF W C) as [Hok Hv].
    exact (rdb_db_from_compile f db dbl Hc Hok Hv Hl).
  Qed.

  (* the store of a compilation can be listed: its keys are keys of the records *)
  Lemma compiled_store_listing : forall f (db : store),
    store_ok db -> (forall k, Permutation (vals db k) (spec_compile line conv accum feature f k)) ->
    exists dbl, lists_store dbl db.
  Proof.
    intros f db Hok Hv.
    exists (flat_map (fun k => match db k with Some v => [(k, v)] | None => [] end)
              (map fst (records line conv accum feature f))).
    intros k v. rewrite in_flat_map. split.
    - intros [k' [_ H]]. destruct (db k') as [d|] eqn:E; [|destruct H].
      destruct H as [H|[]]. inversion H; subst. exact E.
    - intro E. exists k. rewrite E. split; [|left; reflexivity].
      destruct (Hok k v E) as [vs [NE [W D]]]. subst v.
      pose proof (Hv k) as P. change (vals db k) with (abs db k) in P. rewrite (abs_some db k vs W E) in P.
      destruct vs as [|v0 vr]; [contradiction|].
      assert (Hin : In v0 (spec_compile line conv accum feature f k)).
      { eapply Permutation_in; [exact P|left; reflexivity]. }
      unfold spec_compile in Hin. apply vals_of_In in Hin.
      change k with (fst (k, v0)). apply in_map. exact Hin.
  Qed.

  (* C10 on a compiled RocksDB database: the ECS scope is truthful *)
  Theorem scope_truthful_rdb_compiled : forall f (db : store) dbl fm8 fmM, rp_codec f ->
    feature <> [] -> kvs_ok (records line conv accum feature f) ->
    rdb_compilation line conv accum feature f db -> lists_store dbl db ->
    forall ev q r e mo8 moM rip,
    fm8 = Ok mo8 -> fmM = Ok moM -> q_rip q = Some rip -> rip < two128 ->
    badvers q = false -> no_backend_error ev ->
    query_ecs q = Some e -> wf_ecs e ->
    serve fm8 fmM (rdb_get_location dbl) ev q = Reply r ->
    exists e', reply_ecs r = Some e' /\
      e_scope e' = expected_scope nets (map_of mo8) e /\
      (e_fam e = 1 -> e_scope e' <= 32) /\ (e_fam e = 2 -> e_scope e' <= 128).
  Proof.
    intros f db dbl fm8 fmM Hc NF W C Hl.
    exact (scope_truthful_rdb sort nets dbl fm8 fmM Hsort Hwf (rdb_db_from_compilation f db dbl Hc NF W C Hl)).
  Qed.

  Theorem fallback_to_resolver_rdb_compiled : forall f (db : store) dbl fm8 fmM, rp_codec f ->
    feature <> [] -> kvs_ok (records line conv accum feature f) ->
    rdb_compilation line conv accum feature f db -> lists_store dbl db ->
    forall ev q r mo8 moM rip,
    fm8 = Ok mo8 -> fmM = Ok moM -> q_rip q = Some rip -> rip < two128 ->
    badvers q = false -> no_backend_error ev ->
    (forall e, query_ecs q = Some e -> wf_ecs e) ->
    serve fm8 fmM (rdb_get_location dbl) ev q = Reply r ->
    r_loc r = match query_ecs q with
              | Some e => if id_eqb (ecs_decides nets (map_of mo8) e) (0, 0)
                          then resolver_decides nets (map_of moM) rip
                          else ecs_decides nets (map_of mo8) e
              | None => resolver_decides nets (map_of moM) rip
              end.
  Proof.
    intros f db dbl fm8 fmM Hc NF W C Hl.
    exact (fallback_to_resolver_rdb sort nets dbl fm8 fmM Hsort Hwf (rdb_db_from_compilation f db dbl Hc NF W C Hl)).
  Qed.
End FromCompile.

(* ---------------------------------------------------------------- the hypotheses are satisfiable *)

(* the maps of a data file that have subnet lines (the keys of SubnetRanger.arng) *)
Definition file_ids (f : dfile) : list mapid := dedup_ids (map nl_map (f_nets f)).

Lemma mem_id_iff : forall x l, mem_id x l = true <-> In x l.
Proof.
  induction l as [|y l IH]; cbn [mem_id]; [split; [discriminate|intros []]|].
  rewrite Bool.orb_true_iff, IH, id_eqb_eq.
  split; intros [H|H]; [left; symmetry; exact H|right; exact H|left; symmetry; exact H|right; exact H].
Qed.

Lemma dedup_ids_in : forall x l, In x (dedup_ids l) <-> In x l.
Proof.
  induction l as [|y l IH]; cbn [dedup_ids]; [tauto|].
  destruct (mem_id y l) eqn:E.
  - rewrite IH. split; [intro H; right; exact H|]. intros [<-|H]; [|exact H]. apply mem_id_iff. exact E.
  - cbn [In]. rewrite IH. tauto.
Qed.

Lemma dedup_ids_nodup : forall l, NoDup (dedup_ids l).
Proof.
  induction l as [|y l IH]; cbn [dedup_ids]; [constructor|].
  destruct (mem_id y l) eqn:E; [exact IH|]. constructor; [|exact IH].
  intro C. apply (proj1 (dedup_ids_in y l)) in C. apply (proj2 (mem_id_iff y l)) in C. congruence.
Qed.

Lemma file_ids_nodup : forall f, NoDup (file_ids f).
Proof. intro f. apply dedup_ids_nodup. Qed.

Lemma file_ids_cover : forall f m, ~ In m (file_ids f) -> nets_of f m = [].
Proof.
  intros f m H. unfold nets_of.
  assert (Z : filter (fun n => id_eqb (nl_map n) m) (f_nets f) = []); [|rewrite Z; reflexivity].
  destruct (filter (fun n => id_eqb (nl_map n) m) (f_nets f)) as [|n r] eqn:E; [reflexivity|]. exfalso.
  assert (Hn : In n (filter (fun n => id_eqb (nl_map n) m) (f_nets f))) by (rewrite E; left; reflexivity).
  apply filter_In in Hn. destruct Hn as [Hn Hm]. apply id_eqb_eq in Hm. apply H.
  unfold file_ids. apply dedup_ids_in. rewrite <- Hm. apply in_map. exact Hn.
Qed.

(* a codec in the sense of C07 over subnet lines only: lines emit nothing
   (NoRnetOutput), the accumulator emits the range points (NoPrefixSets), and the
   features record *)
Definition net_file (f : list netline) : dfile := mkDfile [] f.
Definition net_conv (l : netline) : result (list (bytes * bytes)) := Ok [].
Definition net_accum (sort : list point -> list point) (f : list netline) : list (bytes * bytes) :=
  match rp_accum sort (nets_of (net_file f)) (file_ids (net_file f)) with Ok a => a | Err _ => [] end.
Definition net_feature : list (bytes * bytes) := [(features_key, [1; 0; 0; 0])].

Lemma rp_value_okv : forall p, okv (rp_value p).
Proof. intro p. unfold okv, rp_value, nlen. destruct (rl_null (p_loc p)); cbn; lia. Qed.

Lemma net_codec_ok : forall sort f, sort_spec sort -> (forall m, wf_subnets (nets_of (net_file f) m)) ->
  rp_codec netline net_conv (net_accum sort) net_feature sort (nets_of (net_file f)) (file_ids (net_file f)) f /\
  net_feature <> [] /\ kvs_ok (records netline net_conv (net_accum sort) net_feature f) /\
  accepted netline net_conv f = true.
Proof.
  intros sort f Hs Hw.
  destruct (rp_accum_total sort Hs _ Hw (file_ids (net_file f))) as [acc Ea].
  assert (Z' : forall g : list netline, flat_map (recs_of netline net_conv) g = []).
  { induction g as [|l r IH]; [reflexivity|]. cbn [flat_map]. rewrite IH. reflexivity. }
  split; [|split; [discriminate|split]].
  - exists acc, []. split; [exact Ea|]. split.
    + unfold net_accum. rewrite Ea, app_nil_r. apply Permutation_refl.
    + intros k v H. rewrite Z' in H. cbn [app] in H. destruct H as [H|[]]. inversion H; subst. reflexivity.
  - unfold records. rewrite Z'. cbn [app]. unfold net_accum. rewrite Ea.
    unfold kvs_ok. apply Forall_app. split.
    + apply Forall_forall. intros [k v] H.
      destruct (rp_accum_keys sort _ _ acc k v Ea H) as [m [pts [p [_ [_ [_ [_ Ev]]]]]]]. subst v. apply rp_value_okv.
    + constructor; [|constructor]. unfold okv, nlen. cbn. lia.
  - unfold accepted. apply forallb_forall. intros l _. reflexivity.
Qed.

(* closed instance: compile the subnet lines with C07's builder or batch pipeline
   (any setting, any schedule), list the store; RocksDB's GetLocationByMap on it is
   longest-prefix match over the declared subnets - no hypothesis on the database *)
Theorem net_compilation_is_lpm : forall sort f (db : store) dbl,
  sort_spec sort -> (forall m, wf_subnets (nets_of (net_file f) m)) ->
  rdb_compilation netline net_conv (net_accum sort) net_feature f db -> lists_store dbl db ->
  forall m a bits ones plen, a < two128 -> client_plen a bits ones plen ->
  rdb_get_location dbl m (mkClient (Some a) bits ones) =
  Ok (lpm_result (lpm (nets_of (net_file f) m) (fam (clean_mask a plen)) (clean_mask a plen) plen)).
Proof.
  intros sort f db dbl Hs Hw C Hl m a bits ones plen Ha Hc.
  destruct (net_codec_ok sort f Hs Hw) as [Hc1 [NF [W _]]].
  destruct (rdb_db_from_compilation netline net_conv (net_accum sort) net_feature sort (nets_of (net_file f))
              (file_ids (net_file f)) Hs Hw (file_ids_nodup _) (file_ids_cover _) f db dbl Hc1 NF W C Hl m)
    as [pts [Ep [Hhas Honly]]].
  exact (rdb_driver_is_lpm sort Hs _ (Hw m) pts Ep dbl m Hhas Honly a bits ones plen Ha Hc).
Qed.

(* ... and such compilations exist and can be listed: the builder on the codec's own record order *)
Theorem net_compilation_exists : forall sort ksort f,
  sort_spec sort -> sort_ok ksort -> (forall m, wf_subnets (nets_of (net_file f) m)) ->
  exists db dbl, rdb_compilation netline net_conv (net_accum sort) net_feature f db /\ lists_store dbl db.
Proof.
  intros sort ksort f Hs Hk Hw.
  destruct (net_codec_ok sort f Hs Hw) as [_ [NF [W A]]].
  assert (M1 : 1 <= 1) by lia. assert (B1 : (1 <= 1)%nat) by lia.
  destruct (builder_lossless netline net_conv (net_accum sort) net_feature ksort Hk 1 1%nat f
              (records netline net_conv (net_accum sort) net_feature f) M1 B1 NF A W (Permutation_refl _))
    as [db [E [Hok Hv]]].
  destruct (compiled_store_listing netline net_conv (net_accum sort) net_feature f db Hok Hv) as [dbl Hl].
  exists db, dbl. split; [|exact Hl].
  exact (by_builder netline net_conv (net_accum sort) net_feature f db ksort 1 1%nat _ Hk M1 B1 (Permutation_refl _) E).
Qed.
