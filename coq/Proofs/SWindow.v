(* Proofs/SWindow: the sliding window reports exactly the live samples, for every
   timed history of Add / cleaner tick / Samples events. *)
From Coq Require Import Sorted Permutation.
From DnsV Require Import Base.Bytes Model.SWindow Model.Stats Spec.Window.
Open Scope Z_scope.

Definition alive (D : Z) (s : sample) : bool := negb (s_exp s <? D).
Definition le_exp (a b : sample) : Prop := s_exp a <= s_exp b.

(* all samples ever added by a history, in order *)
Fixpoint adds (L : Z) (h : list wevent) : window :=
  match h with
  | [] => []
  | WAdd t v :: h' => mkS v (t + L) :: adds L h'
  | _ :: h' => adds L h'
  end.

Definition last_time (T : Z) (h : list wevent) : Z := fold_left (fun _ e => ev_time e) h T.

(* ---------- dropExpired *)

Lemma drop_cons : forall t s w,
  drop_expired t (s :: w) = if s_exp s <? t then drop_expired t w else s :: w.
Proof.
  intros t s w. unfold drop_expired. cbn [newstart].
  destruct (s_exp s <? t); [|reflexivity].
  destruct (newstart t w); reflexivity.
Qed.

Lemma drop_nil : forall t, drop_expired t [] = [].
Proof. reflexivity. Qed.

Lemma filter_all_alive : forall t w lo,
  t <= lo -> Forall (fun s => lo <= s_exp s) w -> filter (alive t) w = w.
Proof.
  intros t w lo Hlo H. induction H as [|s w Hs _ IH]; [reflexivity|].
  cbn [filter]. unfold alive at 1.
  destruct (s_exp s <? t) eqn:E; [apply Z.ltb_lt in E; lia|].
  cbn. now rewrite IH.
Qed.

Lemma alive_mono : forall D t s, D <= t -> alive t s = true -> alive D s = true.
Proof.
  unfold alive. intros D t s H E.
  destruct (s_exp s <? t) eqn:E1; [discriminate|].
  destruct (s_exp s <? D) eqn:E2; [|reflexivity].
  apply Z.ltb_lt in E2. apply Z.ltb_ge in E1. lia.
Qed.

(* dropping at t what was already filtered at D <= t leaves the samples alive at t *)
Lemma drop_filter : forall A D t,
  StronglySorted le_exp A -> D <= t ->
  drop_expired t (filter (alive D) A) = filter (alive t) A.
Proof.
  induction A as [|s A IH]; intros D t HS HD; [reflexivity|].
  apply StronglySorted_inv in HS. destruct HS as [HS Hall].
  cbn [filter].
  destruct (alive D s) eqn:ED.
  - rewrite drop_cons.
    assert (Eat : alive t s = negb (s_exp s <? t)) by reflexivity. rewrite Eat.
    destruct (s_exp s <? t) eqn:Et; cbn [negb].
    + now apply IH.
    + apply Z.ltb_ge in Et.
      assert (Hall' : Forall (fun x => s_exp s <= s_exp x) A) by exact Hall.
      rewrite (filter_all_alive D A (s_exp s)); [|lia|exact Hall'].
      rewrite (filter_all_alive t A (s_exp s)); [reflexivity|lia|exact Hall'].
  - assert (Et : alive t s = false).
    { destruct (alive t s) eqn:E; [|reflexivity].
      rewrite (alive_mono D t s HD E) in ED. discriminate. }
    rewrite Et. now apply IH.
Qed.

(* ---------- histories *)

Lemma sorted_snoc : forall A x,
  StronglySorted le_exp A -> Forall (fun s => s_exp s <= s_exp x) A ->
  StronglySorted le_exp (A ++ [x]).
Proof.
  induction A as [|a A IH]; intros x HS HF; cbn.
  - constructor; constructor.
  - apply StronglySorted_inv in HS. destruct HS as [HS Hall].
    inversion HF; subst. constructor; [now apply IH|].
    apply Forall_app. split; [exact Hall|]. constructor; [assumption|constructor].
Qed.

Lemma Forall_le_weaken : forall (A : window) a b,
  a <= b -> Forall (fun s => s_exp s <= a) A -> Forall (fun s => s_exp s <= b) A.
Proof. intros A a b Hab H. eapply Forall_impl; [|exact H]. cbn. intros; lia. Qed.

Lemma exec_gen : forall L, 0 <= L -> forall h A D T,
  StronglySorted le_exp A -> Forall (fun s => s_exp s <= T + L) A -> D <= T -> mono_from T h ->
  exists D',
    fold_left (step L) h (filter (alive D) A) = filter (alive D') (A ++ adds L h)
    /\ StronglySorted le_exp (A ++ adds L h)
    /\ D' <= last_time T h.
Proof.
  intros L HL. induction h as [|e h IH]; intros A D T HS HB HD HM.
  - exists D. cbn. rewrite app_nil_r. auto.
  - cbn [mono_from] in HM. destruct HM as [HT HM].
    destruct e as [t v|t|t]; cbn [ev_time] in *; cbn [fold_left step adds last_time].
    + (* Add *)
      assert (Hal : alive D (mkS v (t + L)) = true).
      { unfold alive. cbn. destruct (t + L <? D) eqn:E; [apply Z.ltb_lt in E; lia|reflexivity]. }
      assert (Hst : add L t v (filter (alive D) A) = filter (alive D) (A ++ [mkS v (t + L)])).
      { unfold add. rewrite filter_app. cbn [filter]. now rewrite Hal. }
      rewrite Hst.
      destruct (IH (A ++ [mkS v (t + L)]) D t) as [D' [E1 [E2 E3]]].
      * apply sorted_snoc; [exact HS|]. cbn. apply (Forall_le_weaken A (T + L)); [lia|exact HB].
      * apply Forall_app. split.
        -- apply (Forall_le_weaken A (T + L)); [lia|exact HB].
        -- constructor; [cbn; lia|constructor].
      * lia.
      * exact HM.
      * exists D'. rewrite <- app_assoc in E1, E2. cbn in E1, E2. auto.
    + (* cleaner tick *)
      unfold tick. rewrite (drop_filter A D t HS); [|lia].
      destruct (IH A t t HS) as [D' [E1 [E2 E3]]]; [|lia|exact HM|].
      * apply (Forall_le_weaken A (T + L)); [lia|exact HB].
      * exists D'. auto.
    + (* Samples *)
      unfold samples. cbn [fst]. rewrite (drop_filter A D t HS); [|lia].
      destruct (IH A t t HS) as [D' [E1 [E2 E3]]]; [|lia|exact HM|].
      * apply (Forall_le_weaken A (T + L)); [lia|exact HB].
      * exists D'. auto.
Qed.

Lemma mono_from_app : forall h T e,
  mono_from T (h ++ [e]) -> mono_from T h /\ last_time T h <= ev_time e.
Proof.
  induction h as [|x h IH]; intros T e H; cbn in *.
  - split; [exact I|tauto].
  - destruct H as [H1 H2]. destruct (IH _ _ H2) as [H3 H4]. auto.
Qed.

Lemma mono_from_times : forall h T e,
  mono_from T (h ++ [e]) -> forall x, In x h -> T <= ev_time x <= ev_time e.
Proof.
  induction h as [|y h IH]; intros T e H x Hin; [destruct Hin|].
  cbn in H. destruct H as [H1 H2].
  destruct Hin as [->|Hin].
  - split; [exact H1|].
    destruct h as [|z h]; cbn in H2; [tauto|].
    destruct H2 as [H2 H3].
    assert (Hz := IH (ev_time x) e (conj H2 H3) z (or_introl eq_refl)). lia.
  - specialize (IH _ _ H2 x Hin). lia.
Qed.

Lemma mono_mono_from : forall h, mono h -> exists T, mono_from T h.
Proof.
  intros [|e h] H; [exists 0; exact I|].
  exists (ev_time e). cbn in *. split; [lia|exact H].
Qed.

Lemma spec_samples_filter : forall L h t,
  spec_samples L h t = map s_val (filter (alive t) (adds L h)).
Proof.
  induction h as [|e h IH]; intros t; [reflexivity|].
  destruct e as [s v|s|s]; cbn [spec_samples adds]; [|apply IH|apply IH].
  cbn [filter]. unfold alive at 1. cbn [s_exp].
  rewrite (Z.leb_antisym (s + L) t).
  destruct (s + L <? t); cbn; now rewrite IH.
Qed.

(* the state after any monotone history is the list of added samples alive at some
   instant D' no later than the last event *)
Lemma exec_state : forall L, 0 <= L -> forall h T, mono_from T h ->
  exists D', exec L h = filter (alive D') (adds L h)
             /\ StronglySorted le_exp (adds L h) /\ D' <= last_time T h.
Proof.
  intros L HL h T HM.
  destruct (exec_gen L HL h [] T T) as [D' H]; [constructor|constructor|lia|exact HM|].
  exists D'. exact H.
Qed.

Theorem window_exact : forall L h t,
  0 <= L -> mono (h ++ [WRead t]) -> read_after L h t = spec_samples L h t.
Proof.
  intros L h t HL HM.
  destruct (mono_mono_from _ HM) as [T HT].
  destruct (mono_from_app _ _ _ HT) as [Hh Hlast]. cbn [ev_time] in Hlast.
  destruct (exec_state L HL h T Hh) as [D' [E1 [E2 E3]]].
  unfold read_after, samples. cbn [snd]. rewrite E1.
  rewrite (drop_filter _ D' t E2); [|lia].
  symmetry. apply spec_samples_filter.
Qed.

(* ticks are invisible: removing them from a history changes no read *)
Lemma spec_samples_in : forall L h t v,
  In v (spec_samples L h t) -> exists s, In (WAdd s v) h /\ t <= s + L.
Proof.
  induction h as [|e h IH]; intros t v H; [destruct H|].
  destruct e as [s x|s|s]; cbn [spec_samples] in H.
  - destruct (t <=? s + L) eqn:E.
    + destruct H as [<-|H].
      * exists s. split; [left; reflexivity|now apply Z.leb_le].
      * destruct (IH _ _ H) as [s' [H1 H2]]. exists s'. split; [right|]; assumption.
    + destruct (IH _ _ H) as [s' [H1 H2]]. exists s'. split; [right|]; assumption.
  - destruct (IH _ _ H) as [s' [H1 H2]]. exists s'. split; [right|]; assumption.
  - destruct (IH _ _ H) as [s' [H1 H2]]. exists s'. split; [right|]; assumption.
Qed.

Lemma spec_samples_complete : forall L h t s v,
  In (WAdd s v) h -> t <= s + L -> In v (spec_samples L h t).
Proof.
  induction h as [|e h IH]; intros t s v Hin Ht; [destruct Hin|].
  destruct Hin as [->|Hin].
  - cbn [spec_samples]. apply Z.leb_le in Ht. rewrite Ht. left; reflexivity.
  - specialize (IH t s v Hin Ht).
    destruct e as [s' x|s'|s']; cbn [spec_samples]; try exact IH.
    destruct (t <=? s' + L); [right|]; exact IH.
Qed.

Theorem window_no_phantom : forall L h t v,
  0 <= L -> mono (h ++ [WRead t]) -> In v (read_after L h t) ->
  exists s, In (WAdd s v) h /\ s <= t <= s + L.
Proof.
  intros L h t v HL HM Hin.
  rewrite (window_exact L h t HL HM) in Hin.
  destruct (spec_samples_in _ _ _ _ Hin) as [s [H1 H2]].
  exists s. split; [exact H1|].
  destruct (mono_mono_from _ HM) as [T HT].
  assert (H3 := mono_from_times h T (WRead t) HT _ H1). cbn [ev_time] in H3. lia.
Qed.

(* a sample is reported until it expires: every added, not yet expired sample is there *)
Theorem window_reports_live : forall L h t s v,
  0 <= L -> mono (h ++ [WRead t]) -> In (WAdd s v) h -> t <= s + L -> In v (read_after L h t).
Proof.
  intros L h t s v HL HM Hin Ht. rewrite (window_exact L h t HL HM).
  eapply spec_samples_complete; eassumption.
Qed.

(* ---------- the Stats wrapper (window created by the first AddSample) *)

Lemma sexec_some : forall L h w,
  fold_left (sstep L) h (Some w) = Some (fold_left (step L) h w).
Proof.
  induction h as [|e h IH]; intros w; [reflexivity|].
  destruct e; cbn [fold_left sstep step stats_add stats_tick stats_get]; apply IH.
Qed.

Lemma sexec_exec_gen : forall L h,
  fold_left (sstep L) h None = if has_add h then Some (fold_left (step L) h []) else None.
Proof.
  induction h as [|e h IH]; [reflexivity|].
  destruct e as [t v|t|t]; cbn [fold_left sstep step stats_add stats_tick stats_get has_add existsb orb fst].
  - apply sexec_some.
  - unfold tick. rewrite drop_nil. exact IH.
  - unfold samples. rewrite drop_nil. cbn [fst]. exact IH.
Qed.

Lemma get_after_window : forall L h t,
  get_after L h t = if has_add h then Some (get_window (read_after L h t)) else None.
Proof.
  intros L h t. unfold get_after, sexec. rewrite sexec_exec_gen.
  destruct (has_add h); [|reflexivity].
  unfold stats_get, read_after, exec, samples. reflexivity.
Qed.

(* ---------- sort, min, max, sum *)

Lemma insert_perm : forall x l, Permutation (insert x l) (x :: l).
Proof.
  induction l as [|y l IH]; cbn; [reflexivity|].
  destruct (x <=? y); [reflexivity|].
  rewrite IH. apply perm_swap.
Qed.

Lemma sort_perm : forall l, Permutation (sort l) l.
Proof.
  induction l as [|x l IH]; cbn; [reflexivity|].
  rewrite insert_perm. now constructor.
Qed.

Lemma insert_sorted : forall x l, StronglySorted Z.le l -> StronglySorted Z.le (insert x l).
Proof.
  induction l as [|y l IH]; intros HS; cbn.
  - constructor; constructor.
  - apply StronglySorted_inv in HS. destruct HS as [HS Hall].
    destruct (x <=? y) eqn:E.
    + apply Z.leb_le in E. constructor.
      * constructor; assumption.
      * constructor; [exact E|]. eapply Forall_impl; [|exact Hall]. cbn. intros; lia.
    + apply Z.leb_gt in E. constructor; [now apply IH|].
      assert (HP := insert_perm x l).
      apply Forall_forall. intros z Hz.
      apply (Permutation_in _ HP) in Hz. destruct Hz as [<-|Hz]; [lia|].
      rewrite Forall_forall in Hall. now apply Hall.
Qed.

Lemma sort_sorted : forall l, StronglySorted Z.le (sort l).
Proof.
  induction l as [|x l IH]; cbn; [constructor|]. now apply insert_sorted.
Qed.

Lemma list_min_in : forall r x, In (list_min x r) (x :: r).
Proof.
  induction r as [|y r IH]; intros x; cbn; [auto|].
  destruct (Z.min_spec y (fold_right Z.min x r)) as [[_ E]|[_ E]]; rewrite E.
  - auto.
  - destruct (IH x) as [H|H]; [left; exact H|right; right; exact H].
Qed.

Lemma list_min_le : forall r x z, In z (x :: r) -> list_min x r <= z.
Proof.
  induction r as [|y r IH]; intros x z H; cbn in *.
  - destruct H as [H|[]]. lia.
  - destruct H as [H|[H|H]].
    + specialize (IH x z (or_introl H)). unfold list_min in IH. lia.
    + lia.
    + specialize (IH x z (or_intror H)). unfold list_min in IH. lia.
Qed.

Lemma list_max_in : forall r x, In (list_max x r) (x :: r).
Proof.
  induction r as [|y r IH]; intros x; cbn; [auto|].
  destruct (Z.max_spec y (fold_right Z.max x r)) as [[_ E]|[_ E]]; rewrite E.
  - destruct (IH x) as [H|H]; [left; exact H|right; right; exact H].
  - auto.
Qed.

Lemma list_max_ge : forall r x z, In z (x :: r) -> z <= list_max x r.
Proof.
  induction r as [|y r IH]; intros x z H; cbn in *.
  - destruct H as [H|[]]. lia.
  - destruct H as [H|[H|H]].
    + specialize (IH x z (or_introl H)). unfold list_max in IH. lia.
    + lia.
    + specialize (IH x z (or_intror H)). unfold list_max in IH. lia.
Qed.

Lemma sorted_last_ge : forall l d z, StronglySorted Z.le l -> In z l -> z <= last l d.
Proof.
  induction l as [|a l IH]; intros d z HS Hin; [destruct Hin|].
  apply StronglySorted_inv in HS. destruct HS as [HS Hall].
  destruct l as [|b l].
  - destruct Hin as [Hin|[]]. cbn. lia.
  - change (last (a :: b :: l) d) with (last (b :: l) d).
    destruct Hin as [Hin|Hin].
    + rewrite Forall_forall in Hall.
      assert (a <= b) by (apply Hall; left; reflexivity).
      assert (b <= last (b :: l) d) by (apply IH; [exact HS|left; reflexivity]). lia.
    + now apply IH.
Qed.

Lemma last_in : forall (l : list Z) d, l <> [] -> In (last l d) l.
Proof.
  induction l as [|a l IH]; intros d H; [congruence|].
  destruct l as [|b l]; [left; reflexivity|].
  right. apply IH. congruence.
Qed.

Lemma list_sum_perm : forall l l', Permutation l l' -> list_sum l = list_sum l'.
Proof.
  unfold list_sum. induction 1; cbn [fold_right] in *; lia.
Qed.

Lemma wrap64_mod : forall z, wrap64 z mod two64 = z mod two64.
Proof.
  intros z. unfold wrap64, two63, two64.
  rewrite Zminus_mod, Zmod_mod, <- Zminus_mod. f_equal. lia.
Qed.

Lemma wrap64_add : forall a x, wrap64 (wrap64 a + x) = wrap64 (a + x).
Proof.
  intros a x. unfold wrap64 at 1 3. f_equal.
  rewrite <- (Z.add_assoc (wrap64 a)), Zplus_mod, wrap64_mod, <- Zplus_mod. f_equal. lia.
Qed.

Lemma wrap64_fits : forall z, fits64 z -> wrap64 z = z.
Proof.
  intros z [H1 H2]. unfold wrap64, two63, two64. rewrite Z.mod_small; lia.
Qed.

Lemma sum64_gen : forall l acc,
  fold_left (fun a x => wrap64 (a + x)) l (wrap64 acc) = wrap64 (acc + list_sum l).
Proof.
  induction l as [|x l IH]; intros acc; cbn [fold_left list_sum fold_right].
  - now rewrite Z.add_0_r.
  - rewrite wrap64_add, IH. f_equal. unfold list_sum. lia.
Qed.

Lemma sum64_wrap : forall l, sum64 l = wrap64 (list_sum l).
Proof.
  intros l. unfold sum64.
  change 0 with (wrap64 0) at 1. now rewrite sum64_gen.
Qed.

Theorem get_window_spec : forall vals,
  fits64 (list_sum vals) -> export_triple (get_window vals) = spec_export vals.
Proof.
  intros vals Hfit. unfold get_window.
  assert (HP := sort_perm vals). assert (HS := sort_sorted vals).
  destruct vals as [|x r].
  - reflexivity.
  - destruct (sort (x :: r)) as [|m s] eqn:Es.
    { apply Permutation_nil in HP. discriminate. }
    unfold export_triple, spec_export. cbn [e_min e_max e_avg].
    assert (Hmin : m = list_min x r).
    { apply Z.le_antisymm.
      - apply StronglySorted_inv in HS. destruct HS as [_ Hall]. rewrite Forall_forall in Hall.
        assert (Hin : In (list_min x r) (m :: s)).
        { apply (Permutation_in _ (Permutation_sym HP)). apply list_min_in. }
        destruct Hin as [<-|Hin]; [lia|now apply Hall].
      - apply list_min_le. apply (Permutation_in _ HP). left; reflexivity. }
    assert (Hmax : last (m :: s) 0 = list_max x r).
    { apply Z.le_antisymm.
      - apply list_max_ge. apply (Permutation_in _ HP). apply last_in. congruence.
      - apply sorted_last_ge; [exact HS|].
        apply (Permutation_in _ (Permutation_sym HP)). apply list_max_in. }
    rewrite Hmax, sum64_wrap, (list_sum_perm _ _ HP), (wrap64_fits _ Hfit).
    rewrite (Permutation_length HP). now rewrite <- Hmin.
Qed.

(* nothing but added values is exported: min and max are members of the list;
   the 0,0,0 triple is produced by the no-data branch only *)
Theorem get_window_members : forall vals,
  (vals = [] -> export_triple (get_window vals) = (0, 0, 0)) /\
  (vals <> [] -> In (e_min (get_window vals)) vals /\ In (e_max (get_window vals)) vals).
Proof.
  intros vals. split.
  - intros ->. reflexivity.
  - intros Hne. unfold get_window.
    assert (HP := sort_perm vals).
    destruct (sort vals) as [|m s] eqn:Es.
    { apply Permutation_nil in HP. congruence. }
    cbn [e_min e_max]. split.
    + apply (Permutation_in _ HP). left; reflexivity.
    + apply (Permutation_in _ HP). apply last_in. congruence.
Qed.

(* the overflow caveat of the average: the faithful model differs from the true average *)
Lemma avg_overflow_witness :
  let vals := [4611686018427387904; 4611686018427387904] in
  e_avg (get_window vals) <> Z.quot (list_sum vals) 2.
Proof. vm_compute. discriminate. Qed.

(* ---------- the statements used by Properties/C19.v *)

Theorem no_phantom_value : forall L h t,
  0 <= L -> mono (h ++ [WRead t]) ->
  (forall v, In v (read_after L h t) -> exists s, In (WAdd s v) h /\ s <= t <= s + L) /\
  (read_after L h t = [] -> export_triple (get_window (read_after L h t)) = (0, 0, 0)) /\
  (read_after L h t <> [] ->
     In (e_min (get_window (read_after L h t))) (read_after L h t) /\
     In (e_max (get_window (read_after L h t))) (read_after L h t)).
Proof.
  intros L h t HL HM. split; [|exact (get_window_members (read_after L h t))].
  intros v Hv. eapply window_no_phantom; eassumption.
Qed.

Theorem minmaxavg : forall L h t,
  0 <= L -> mono (h ++ [WRead t]) -> fits64 (list_sum (spec_samples L h t)) ->
  option_map export_triple (get_after L h t) =
  if has_add h then Some (spec_export (spec_samples L h t)) else None.
Proof.
  intros L h t HL HM HF. rewrite get_after_window.
  destruct (has_add h); [|reflexivity]. cbn [option_map].
  rewrite (window_exact L h t HL HM). now rewrite get_window_spec.
Qed.

(* a history with a sample expired at a tick while another is live, then read *)
Example history_example :
  let h := [WAdd 300 7; WAdd 1600 (-3); WTick 2000] in
  mono (h ++ [WRead 2200]) /\ read_after 1000 h 2200 = [-3] /\
  option_map export_triple (get_after 1000 h 2200) = Some (-3, -3, -3).
Proof. cbn. repeat split; lia. Qed.

(* ---------- why scan and drop of a cleaner tick must be one critical section *)

(* without interference the split tick is the tick *)
Lemma split_tick_alone : forall now w, drop_n (scan now w) w = tick now w.
Proof.
  intros now w. unfold drop_n, scan, tick, drop_expired.
  destruct (newstart now w); reflexivity.
Qed.

(* with an export between scan and drop a live sample disappears: the next read no
   longer reports what the history prescribes *)
Theorem split_tick_refuted :
  exists L h t,
    0 <= L /\ mono (h ++ [WRead t]) /\
    snd (samples t (split_tick_with_export t t (exec L h))) <> spec_samples L h t.
Proof.
  exists 1000, [WAdd 0 9; WAdd 1500 5], 2000.
  split; [lia|]. split; [cbn; lia|]. vm_compute. discriminate.
Qed.
