(* C01 for the v1 reader over the compiled store: the additional section of a referral.  For every
   NS record of the authority section, in order, and each address family not yet present for that
   target, the address records stored under the lower-cased target (client's location first, then
   untagged; never wildcard rows) are offered as candidates, one of them served. *)
From DnsV Require Import Base.Bytes Model.Store Model.LookupV1 Model.LookupV2 Model.Serve Spec.Answer Spec.Rows.
From DnsV Require Import Proofs.Answer Proofs.Compile Proofs.Shape Proofs.ZoneCut Proofs.Refused Proofs.NxDomain Proofs.SoaAuth Proofs.AnswerItems Proofs.Referral.
From Coq Require Import ZifyN ZifyNat ZifyBool Permutation.
Open Scope N_scope.

(* what add_cb does with the rows of a list of records *)
Definition add_apply (want4 want6 : bool) (rs : list record) (w : wrs) : wrs :=
  mkWrs (w4 w ++ map cand_of (filter (fun r => negb (r_wild r) && (r_type r =? 1) && want4) rs))
        (w6 w ++ map cand_of (filter (fun r => negb (r_wild r) && (r_type r =? 28) && want6) rs)).

Lemma iter_add_rows : forall want4 want6 rs w, Forall wf_rec rs ->
  iter_rows (add_cb want4 want6) (map row_of rs) w = (add_apply want4 want6 rs w, Cont).
Proof.
  induction rs as [|r t IH]; intros w Wf; cbn [map iter_rows].
  - unfold add_apply. cbn [filter map]. rewrite !app_nil_r. destruct w; reflexivity.
  - inversion Wf as [|? ? Wr Wt]; subst. unfold add_cb at 1.
    destruct (extract_row_of r false Wr) as [E1 E2]. rewrite E1.
    destruct (r_wild r) eqn:EW; cbn [Bool.eqb].
    + rewrite IH by exact Wt. unfold add_apply. cbn [filter]. rewrite EW. cbn [negb andb]. reflexivity.
    + change (h_type (head_of r)) with (r_type r).
      unfold wrs_add. rewrite E2. cbn [bind].
      change (h_type (head_of r)) with (r_type r). change (h_ttl (head_of r)) with (r_ttl r).
      change (h_weight (head_of r)) with (if (r_type r =? 1) || (r_type r =? 28) then r_weight r else 0).
      destruct w as [a4 a6].
      assert (A : add_apply want4 want6 (r :: t) (mkWrs a4 a6) =
                  add_apply want4 want6 t (add_apply want4 want6 [r] (mkWrs a4 a6))).
      { unfold add_apply. cbn [filter w4 w6]. rewrite EW. cbn [negb andb].
        destruct ((r_type r =? 1) && want4), ((r_type r =? 28) && want6); cbn [map app]; rewrite <- ?app_assoc, ?app_nil_r; reflexivity. }
      rewrite A. clear A.
      assert (B : (if (r_type r =? 1) && want4 || (r_type r =? 28) && want6
                   then if r_type r =? 1 then (mkWrs (a4 ++ [(r_ttl r, (if (r_type r =? 1) || (r_type r =? 28) then r_weight r else 0), r_rdata r)]) a6, Cont)
                        else if r_type r =? 28 then (mkWrs a4 (a6 ++ [(r_ttl r, (if (r_type r =? 1) || (r_type r =? 28) then r_weight r else 0), r_rdata r)]), Cont)
                        else (mkWrs a4 a6, Cont)
                   else (mkWrs a4 a6, Cont)) = (add_apply want4 want6 [r] (mkWrs a4 a6), Cont)).
      { unfold add_apply. cbn [filter w4 w6]. rewrite EW. cbn [negb andb].
        destruct (r_type r =? 1) eqn:T1; destruct (r_type r =? 28) eqn:T28; try (exfalso; lia);
          destruct want4, want6; cbn [andb orb filter map app]; rewrite ?app_nil_r; reflexivity. }
      match goal with |- (let '(s', st) := ?X in _) = _ =>
        replace X with (add_apply want4 want6 [r] (mkWrs a4 a6), Cont) end.
      2:{ rewrite <- B. destruct ((r_type r =? 1) && want4 || (r_type r =? 28) && want6); [|reflexivity].
          destruct (r_type r =? 1); [reflexivity|]. destruct (r_type r =? 28); reflexivity. }
      apply IH. exact Wt.
Qed.

Lemma add_apply_app : forall want4 want6 a bs w,
  add_apply want4 want6 (a ++ bs) w = add_apply want4 want6 bs (add_apply want4 want6 a w).
Proof.
  intros. unfold add_apply. destruct w as [a4 a6]. cbn [w4 w6]. rewrite !filter_app, !map_app, <- !app_assoc. reflexivity.
Qed.

Section V1.
Variable b : backend.
Variable recs : list record.
Variable L : bytes.
Hypothesis W : wf_recs recs.
Let st := store_v1 recs.

(* the records stored under the two keys probed for a (packed, lower-cased) name, in reader order *)
Definition at_keys (t : bytes) : list record :=
  (if is_loc0 L then [] else filter (fun r => bytes_eqb (key_v1 r) (L ++ t)) recs) ++
  filter (fun r => bytes_eqb (key_v1 r) (loc0 ++ t)) recs.

Lemma scan_add_key : forall key want4 want6 w,
  for_each_v1 b st key (add_cb want4 want6) w =
    (add_apply want4 want6 (filter (fun r => bytes_eqb (key_v1 r) key) recs) w, false).
Proof.
  intros. unfold for_each_v1, st, store_v1. rewrite get_store_of, rows_for_v1, iter_add_rows; [reflexivity|].
  apply Forall_filter. exact W.
Qed.

Lemma lookup_addresses : forall t want4 want6,
  for_each_rr_v1 b st t L (add_cb want4 want6) wrs_empty = (add_apply want4 want6 (at_keys t) wrs_empty, false).
Proof.
  intros. unfold for_each_rr_v1, at_keys. destruct (is_loc0 L).
  - rewrite scan_add_key. reflexivity.
  - rewrite scan_add_key. cbn [app]. rewrite scan_add_key, add_apply_app. reflexivity.
Qed.

(* one NS record's contribution to the additional section *)
Definition glue_step (qc : N) (m : msg) (t : bytes) : msg :=
  let want4 := negb (has_record m t 1) in
  let want6 := negb (has_record m t 28) in
  if want4 || want6 then
    let w := add_apply want4 want6 (at_keys (lower_bytes t)) wrs_empty in
    mkMsg (m_an m) (m_ns m) (m_ex m ++ wrs_items t qc 1 28 (w6 w) ++ wrs_items t qc 1 1 (w4 w))
  else m.

Lemma additional_ns_items : forall (rs : list record) zn cls qc m,
  Forall wf_ns_rdata rs -> Forall (fun r => r_type r = 2) rs ->
  additional unit (reader_v1 b st) (map (ns_item zn cls) rs) L qc m tt =
    Val (fold_left (glue_step qc) (map r_rdata rs) m, tt).
Proof.
  induction rs as [|r t IH]; intros zn cls qc m Wn Wt; cbn [map additional fold_left]; [reflexivity|].
  inversion Wn as [|? ? Nr Nt]; subst. inversion Wt as [|? ? Tr Tt]; subst.
  unfold ns_item at 1. cbn [target_of rr_type rr_rdata]. rewrite (Nr Tr). cbn [option_map fst N.eqb Pos.eqb].
  unfold glue_step at 2.
  destruct (negb (has_record m (r_rdata r) 1) || negb (has_record m (r_rdata r) 28)); [|apply IH; assumption].
  unfold reader_v1 at 1. cbn [rd_rr]. rewrite lookup_addresses. cbn [bind]. apply IH; assumption.
Qed.
End V1.

Section Ref.
Variable b : backend.
Variable recs : list record.
Variable L : bytes.
Hypothesis W : wf_recs recs.
Hypothesis WN : Forall wf_ns_rdata recs.
Hypothesis HL : length L = 2%nat.
Hypothesis Hb : b <> RDB2.
Hypothesis V : wf_view L recs = true.

Lemma Forall_filter_in : forall {A} (P : A -> Prop) (p : A -> bool) l, (forall x, In x l -> p x = true -> P x) -> Forall P (filter p l).
Proof.
  intros A P p l H. apply Forall_forall. intros x Hx. apply filter_In in Hx as [H1 H2]. apply H; assumption.
Qed.

Definition ns_of_cut (z : name) : list record := filter is_ns (ordered_at recs L z).

Lemma ns_of_cut_in : forall z r, In r (ns_of_cut z) -> In r recs /\ r_type r = 2.
Proof.
  intros z r H. unfold ns_of_cut in H. apply filter_In in H as [H1 H2]. unfold is_ns in H2.
  apply andb_prop in H2 as [_ H2]. apply N.eqb_eq in H2. split; [|exact H2].
  unfold ordered_at in H1. apply in_app_or in H1 as [H1|H1].
  - destruct (is_loc0 L); [contradiction|]. apply filter_In in H1 as [H1 _]. exact H1.
  - apply filter_In in H1 as [H1 _]. exact H1.
Qed.

(* the additional section of a referral, as a function of the declared records *)
Theorem referral_glue_v1 : forall q n z ecs max x,
  wf_name n -> nlen (pack n) <= 255 -> lower_bytes (q_name q) = pack n ->
  (q_edns q = None \/ q_edns q = Some 0) -> q_type q <> 43 ->
  zone_cut L recs n = Some z -> authoritative L recs z = false ->
  serve b (store_v1 recs) q (LocOk L) ecs max = OReply x ->
  rs_ex x = m_ex (fold_left (glue_step recs L (q_class q)) (map r_rdata (ns_of_cut z))
                            (mkMsg [] (map (ns_item (pack z) (q_class q)) (ns_of_cut z)) [])).
Proof.
  intros q n z ecs max x Hn Hlen Hq Hv Hds Hz Ha H.
  destruct (ancestor_wf z n (proj1 (zone_cut_sound L recs n z Hz)) Hn) as [Hzw Hzl].
  assert (SV : serve b (store_v1 recs) q (LocOk L) ecs max =
              lift (rd_auth unit (reader_v1 b (store_v1 recs)) tt (pack n) L)
                (fun x => let '(ar, c1) := x in
                   if a_err ar then servfail q
                   else if negb (a_ns ar) && negb (a_auth ar) then refused_reply q ecs
                   else lift (serve_ds unit (reader_v1 b (store_v1 recs)) q L (pack n) ar c1)
                          (fun r => match r with
                                    | Some (ar', c2) => serve_answer unit (reader_v1 b (store_v1 recs)) q ecs L max (pack n) ar' c2
                                    | None => servfail q
                                    end))).
  { destruct b; [| |contradiction]; unfold serve, serve_with; rewrite Hq; destruct Hv as [E|E]; rewrite E; reflexivity. }
  rewrite SV in H. clear SV. unfold reader_v1 at 1 in H. cbn [rd_auth] in H. unfold is_authoritative_v1 in H.
  rewrite (is_auth_walk b recs L W HL n (S (length (pack n))) Hn V (Nat.lt_succ_diag_r _)), Hz, Ha in H.
  cbn [bind lift a_err a_ns a_auth negb andb] in H.
  unfold serve_ds in H. cbn [a_auth negb andb] in H.
  assert (E43 : (q_type q =? 43) = false) by (apply N.eqb_neq; exact Hds). rewrite E43 in H. cbn [lift] in H.
  unfold serve_answer in H. cbn [a_auth a_zc lift] in H.
  unfold serve_sections in H. rewrite (parse_name_pack z Hzw) in H by lia.
  cbn [andb negb] in H.
  assert (HR : has_record (mkMsg [] [] []) (pack z) 2 = false) by reflexivity. rewrite HR in H. cbn [negb] in H.
  unfold reader_v1 at 1 in H. cbn [rd_rr] in H. rewrite (get_ns_v1 b recs L W WN) in H. cbn [bind lift] in H.
  cbn [m_an m_ns additional bind] in H. fold (ns_of_cut z) in H.
  rewrite (additional_ns_items b recs L W (ns_of_cut z)) in H.
  - cbn [lift] in H. inversion H; subst x. reflexivity.
  - apply Forall_forall. intros r Hr. rewrite Forall_forall in WN. apply WN. exact (proj1 (ns_of_cut_in z r Hr)).
  - apply Forall_forall. intros r Hr. exact (proj2 (ns_of_cut_in z r Hr)).
Qed.
End Ref.
