(* Proofs about the spec of C03: block arithmetic (laminar, straddle, interval form),
   characterisation of lpm, invariance of lpm under permutation. *)
From DnsV Require Import Base.Bytes Base.Ip Spec.Lpm.
From Coq Require Import Lia ZifyN ZifyBool Permutation.
Open Scope N_scope.

(* ---------------------------------------------------------------- blocks *)

Lemma blk_size_pos : forall len, 0 < blk_size len.
Proof. intro len. unfold blk_size. apply N.neq_0_lt_0. apply N.pow_nonzero. discriminate. Qed.

Lemma blk_size_split : forall l1 l2, l1 <= l2 -> l2 <= 128 ->
  blk_size l1 = blk_size l2 * 2 ^ (l2 - l1).
Proof.
  intros l1 l2 H1 H2. unfold blk_size. rewrite <- N.pow_add_r. f_equal. lia.
Qed.

Lemma div_coarser : forall a l1 l2, l1 <= l2 -> l2 <= 128 ->
  a / blk_size l1 = (a / blk_size l2) / 2 ^ (l2 - l1).
Proof.
  intros a l1 l2 H1 H2. rewrite (blk_size_split l1 l2 H1 H2).
  rewrite N.div_div; auto.
  - pose proof (blk_size_pos l2). lia.
  - apply N.pow_nonzero. discriminate.
Qed.

(* laminar: two blocks that share an address are nested (the longer inside the shorter) *)
Lemma laminar : forall s t x, s_len s <= s_len t -> s_len t <= 128 ->
  contains s x = true -> contains t x = true ->
  forall y, contains t y = true -> contains s y = true.
Proof.
  unfold contains. intros s t x Hl Ht Hs Hx y Hy.
  apply N.eqb_eq in Hs. apply N.eqb_eq in Hx. apply N.eqb_eq in Hy. apply N.eqb_eq.
  rewrite (div_coarser y _ _ Hl Ht). rewrite Hy. rewrite <- Hx.
  rewrite <- (div_coarser x _ _ Hl Ht). exact Hs.
Qed.

Definition masked (a len : N) : Prop := a mod blk_size len = 0.

Lemma masked_coarser : forall x p l, l <= 128 -> p <= l -> masked x p -> masked x l.
Proof.
  unfold masked. intros x p l Hl Hp Hm.
  rewrite (blk_size_split p l Hp Hl) in Hm.
  pose proof (blk_size_pos l) as Hpos.
  assert (Hd : x = blk_size l * 2 ^ (l - p) * (x / (blk_size l * 2 ^ (l - p)))).
  { pose proof (N.div_mod x (blk_size l * 2 ^ (l - p))) as H.
    rewrite Hm in H. rewrite N.add_0_r in H. apply H.
    apply N.neq_mul_0. split; [lia | apply N.pow_nonzero; discriminate]. }
  rewrite Hd. rewrite <- N.mul_assoc. rewrite N.mul_comm. apply N.mod_mul. lia.
Qed.

(* straddle: a block that contains x-1 and x, x a positive multiple of 2^(128-p), is shorter than p *)
Lemma straddle : forall s x p, s_len s <= 128 -> p <= 128 -> 0 < x -> masked x p ->
  contains s (x - 1) = true -> contains s x = true -> s_len s < p.
Proof.
  intros s x p Hs Hp Hx Hm H1 H2.
  destruct (N.lt_ge_cases (s_len s) p) as [|Hge]; auto. exfalso.
  assert (Hm' : masked x (s_len s)) by (apply (masked_coarser x p); auto).
  unfold masked in Hm'. unfold contains in *.
  apply N.eqb_eq in H1. apply N.eqb_eq in H2.
  pose proof (blk_size_pos (s_len s)) as Hpos.
  set (B := blk_size (s_len s)) in *.
  assert (HB : B <> 0) by lia.
  pose proof (N.div_mod x B HB) as Dx. rewrite Hm' in Dx.
  pose proof (N.div_mod (x - 1) B HB) as Dy.
  pose proof (N.mod_lt (x - 1) B HB) as Ly.
  rewrite H1 in Dy. rewrite <- H2 in Dy.
  nia.
Qed.

(* interval form of a block whose network address has no host bits *)
Lemma contains_iff : forall s a, masked (s_addr s) (s_len s) ->
  (contains s a = true <-> s_addr s <= a /\ a < s_addr s + blk_size (s_len s)).
Proof.
  intros s a Hm. unfold masked in Hm. unfold contains.
  pose proof (blk_size_pos (s_len s)) as Hpos.
  set (B := blk_size (s_len s)) in *.
  assert (HB : B <> 0) by lia.
  pose proof (N.div_mod (s_addr s) B HB) as Da. rewrite Hm in Da.
  pose proof (N.div_mod a B HB) as Dx.
  pose proof (N.mod_lt a B HB) as Lx.
  rewrite N.eqb_eq. split.
  - intro E. rewrite E in Dx. nia.
  - intros [H1 H2].
    assert (E : a / B = s_addr s / B).
    { symmetry. apply (N.div_unique a B (s_addr s / B) (a - s_addr s)); nia. }
    exact E.
Qed.

(* the start of a block given by any of its addresses *)
Lemma contains_self : forall s, contains s (s_addr s) = true.
Proof. intro s. unfold contains. apply N.eqb_refl. Qed.

(* ---------------------------------------------------------------- lpm *)

Lemma lpm_some : forall S f a plen l k, lpm S f a plen = Some (l, k) ->
  exists s, In s S /\ eligible f a plen s = true /\ s_loc s = l /\ s_len s = k.
Proof.
  induction S as [|s S IH]; simpl; intros f a plen l k H; [discriminate|].
  destruct (eligible f a plen s) eqn:E.
  - destruct (lpm S f a plen) as [[l' k']|] eqn:R.
    + destruct (k' <? s_len s) eqn:C1.
      * inversion H; subst. exists s; auto.
      * destruct (k' =? s_len s) eqn:C2.
        -- inversion H; subst. exists s; auto.
        -- inversion H; subst. destruct (IH _ _ _ _ _ R) as [t [Ht Hr]]. exists t; auto.
    + inversion H; subst. exists s; auto.
  - destruct (IH _ _ _ _ _ H) as [t [Ht Hr]]. exists t; auto.
Qed.

Lemma lpm_max : forall S f a plen l k, lpm S f a plen = Some (l, k) ->
  forall t, In t S -> eligible f a plen t = true -> s_len t <= k.
Proof.
  induction S as [|s S IH]; simpl; intros f a plen l k H t Ht Et; [contradiction|].
  destruct (eligible f a plen s) eqn:E.
  - destruct (lpm S f a plen) as [[l' k']|] eqn:R.
    + destruct (k' <? s_len s) eqn:C1.
      * inversion H; subst. destruct Ht as [->|Ht]; [lia|].
        pose proof (IH _ _ _ _ _ R t Ht Et). lia.
      * destruct (k' =? s_len s) eqn:C2.
        -- inversion H; subst. destruct Ht as [->|Ht]; [lia|].
           pose proof (IH _ _ _ _ _ R t Ht Et). lia.
        -- inversion H; subst. destruct Ht as [->|Ht]; [lia|].
           exact (IH _ _ _ _ _ R t Ht Et).
    + inversion H; subst. destruct Ht as [->|Ht]; [lia|].
      clear IH. exfalso. revert R Ht Et. clear. induction S as [|u S IH]; simpl; intros; [contradiction|].
      destruct (eligible f a plen u) eqn:Eu.
      * destruct (lpm S f a plen) as [[? ?]|]; [destruct (n <? s_len u); [discriminate|destruct (n =? s_len u); discriminate]|discriminate].
      * destruct Ht as [->|Ht]; [congruence|]. apply IH; auto.
  - destruct Ht as [->|Ht]; [congruence|]. exact (IH _ _ _ _ _ H t Ht Et).
Qed.

Lemma lpm_none : forall S f a plen, lpm S f a plen = None ->
  forall t, In t S -> eligible f a plen t = false.
Proof.
  induction S as [|s S IH]; simpl; intros f a plen H t Ht; [contradiction|].
  destruct (eligible f a plen s) eqn:E.
  - destruct (lpm S f a plen) as [[? ?]|]; [destruct (n <? s_len s); [discriminate|destruct (n =? s_len s); discriminate]|discriminate].
  - destruct Ht as [->|Ht]; auto.
Qed.

(* lpm is characterised by its result: a longest eligible subnet, whose location
   is determined when eligible subnets of equal length carry equal locations *)
Lemma lpm_unique : forall S f a plen s,
  In s S -> eligible f a plen s = true ->
  (forall t, In t S -> eligible f a plen t = true -> s_len t <= s_len s) ->
  (forall t, In t S -> eligible f a plen t = true -> s_len t = s_len s -> s_loc t = s_loc s) ->
  lpm S f a plen = Some (s_loc s, s_len s).
Proof.
  intros S f a plen s Hin He Hmax Hloc.
  destruct (lpm S f a plen) as [[l k]|] eqn:R.
  - destruct (lpm_some _ _ _ _ _ _ R) as [t [Ht [Et [Lt Kt]]]].
    pose proof (lpm_max _ _ _ _ _ _ R s Hin He) as M1.
    pose proof (Hmax t Ht Et) as M2.
    assert (s_len t = s_len s) by lia.
    rewrite <- Lt, <- Kt. rewrite (Hloc t Ht Et H). congruence.
  - pose proof (lpm_none _ _ _ _ R s Hin). congruence.
Qed.

Lemma lpm_none_iff : forall S f a plen,
  (forall t, In t S -> eligible f a plen t = false) -> lpm S f a plen = None.
Proof.
  intros S f a plen H. destruct (lpm S f a plen) as [[l k]|] eqn:R; auto.
  destruct (lpm_some _ _ _ _ _ _ R) as [t [Ht [Et _]]]. rewrite (H t Ht) in Et. discriminate.
Qed.

(* ---------------------------------------------------------------- masking an address *)
From DnsV Require Import Model.Rearranger.

Lemma clean_mask_le : forall a l, clean_mask a l <= a.
Proof.
  intros a l. unfold clean_mask. pose proof (blk_size_pos l).
  rewrite N.mul_comm. apply N.mul_div_le. lia.
Qed.

Lemma clean_mask_masked : forall a l, masked (clean_mask a l) l.
Proof.
  intros a l. unfold masked, clean_mask. apply N.mod_mul. pose proof (blk_size_pos l). lia.
Qed.

Lemma clean_mask_div : forall a l, clean_mask a l / blk_size l = a / blk_size l.
Proof.
  intros a l. unfold clean_mask. apply N.div_mul. pose proof (blk_size_pos l). lia.
Qed.

Lemma clean_mask_id : forall a l, masked a l -> clean_mask a l = a.
Proof.
  unfold masked, clean_mask. intros a l H. pose proof (blk_size_pos l) as P.
  pose proof (N.div_mod a (blk_size l)) as D. rewrite H in D. rewrite N.mul_comm. lia.
Qed.

(* masking to k1 then to k2 <= k1 is masking to k2 *)
Lemma clean_mask_twice : forall a k1 k2, k2 <= k1 -> k1 <= 128 ->
  clean_mask (clean_mask a k1) k2 = clean_mask a k2.
Proof.
  intros a k1 k2 H1 H2. unfold clean_mask at 1 3. f_equal.
  rewrite (div_coarser (clean_mask a k1) k2 k1 H1 H2).
  rewrite clean_mask_div. symmetry. apply div_coarser; auto.
Qed.

(* a block with a clean network address contains a iff a masked to its length is that address *)
Lemma contains_clean : forall s a, masked (s_addr s) (s_len s) ->
  (contains s a = true <-> clean_mask a (s_len s) = s_addr s).
Proof.
  intros s a Hm. unfold contains. rewrite N.eqb_eq. split.
  - intro E. unfold clean_mask. rewrite E. fold (clean_mask (s_addr s) (s_len s)).
    apply clean_mask_id; auto.
  - intro E. rewrite <- E. symmetry. apply clean_mask_div.
Qed.

Lemma contains_masked_client : forall s a plen, s_len s <= plen -> plen <= 128 ->
  contains s (clean_mask a plen) = contains s a.
Proof.
  intros s a plen H1 H2. unfold contains.
  rewrite (div_coarser (clean_mask a plen) _ _ H1 H2). rewrite clean_mask_div.
  rewrite <- (div_coarser a _ _ H1 H2). reflexivity.
Qed.

(* ---------------------------------------------------------------- the v4-mapped block *)

Lemma blk_size_96 : blk_size 96 = 2 ^ 32. Proof. reflexivity. Qed.
Lemma blk_size_95 : blk_size 95 = 2 ^ 33. Proof. reflexivity. Qed.

Lemma is_v4_iff : forall a, is_v4 a = true <-> first_v4 <= a /\ a < after_v4.
Proof. intro a. unfold is_v4. rewrite Bool.andb_true_iff, N.leb_le, N.ltb_lt. tauto. Qed.

(* the v4-mapped range is the block (first_v4, 96) *)
Lemma is_v4_block : forall a, is_v4 a = true <-> a / blk_size 96 = first_v4 / blk_size 96.
Proof.
  intro a. rewrite is_v4_iff.
  pose proof (contains_iff (mkSubnet first_v4 96 (0, 0)) a) as H. unfold contains in H.
  cbn [s_addr s_len] in H. rewrite N.eqb_eq in H.
  assert (M : masked first_v4 96) by reflexivity.
  specialize (H M). rewrite H.
  assert (E : first_v4 + blk_size 96 = after_v4) by reflexivity. rewrite E. tauto.
Qed.

Lemma is_v4_clean_ge : forall a l, 96 <= l -> l <= 128 -> is_v4 (clean_mask a l) = is_v4 a.
Proof.
  intros a l H1 H2. apply Bool.eq_true_iff_eq. rewrite !is_v4_block.
  rewrite (div_coarser (clean_mask a l) 96 l H1 H2), clean_mask_div, <- (div_coarser a 96 l H1 H2). tauto.
Qed.

Lemma masked_lt96_not_v4 : forall x l, l < 96 -> masked x l -> is_v4 x = false.
Proof.
  intros x l H Hm. assert (M : masked x 95) by (apply (masked_coarser x l 95); [lia | lia | exact Hm]).
  unfold masked in M. rewrite blk_size_95 in M.
  destruct (is_v4 x) eqn:E; auto. apply is_v4_iff in E. unfold first_v4, after_v4 in E.
  pose proof (N.div_mod x (2 ^ 33)) as D. rewrite M in D.
  assert (D' : x = 2 ^ 33 * (x / 2 ^ 33)) by (rewrite D at 1; [lia | discriminate]).
  change (2 ^ 33) with 8589934592 in *. change (2 ^ 32) with 4294967296 in *. change (2 ^ 48) with 281474976710656 in *.
  lia.
Qed.

(* a masked subnet of the v4 family lies in the v4-mapped range, and only those do *)
Lemma v4_addr_len : forall s, masked (s_addr s) (s_len s) -> is_v4 (s_addr s) = true -> 96 <= s_len s.
Proof.
  intros s Hm Hv. destruct (N.lt_ge_cases (s_len s) 96) as [L|]; auto.
  rewrite (masked_lt96_not_v4 _ _ L Hm) in Hv. discriminate.
Qed.

Lemma sfam_masked : forall s, masked (s_addr s) (s_len s) ->
  sfam s = if is_v4 (s_addr s) then V4 else V6.
Proof.
  intros s Hm. unfold sfam. destruct (is_v4 (s_addr s)) eqn:E; auto.
  pose proof (v4_addr_len s Hm E) as L. apply N.leb_le in L. rewrite L. reflexivity.
Qed.
