(* Proofs about the spec of C03: block arithmetic (laminar, straddle, interval form),
   characterisation of lpm, invariance of lpm under permutation. *)
From DnsV Require Import Base.Bytes Base.Ip Spec.Lpm.
From Coq Require Import Lia ZifyN ZifyBool Permutation.
Open Scope N_scope.

(* ---------------------------------------------------------------- blocks *)

Lemma blk_size_pos : forall len, 0 < blk_size len.
Proof. intro len. unfold blk_size. apply N.neq_0_lt_0. apply N.pow_nonzero. discriminate. Qed.

Lemma blk_size_split : forall l1 l2, l1 <= l2 -> l2 <= 128 ->
  blk_size l1 = blk_size l2 * 2 ^ (l2 - l1).
Proof.
  intros l1 l2 H1 H2. unfold blk_size. rewrite <- N.pow_add_r. f_equal. lia.
Qed.

Lemma div_coarser : forall a l1 l2, l1 <= l2 -> l2 <= 128 ->
  a / blk_size l1 = (a / blk_size l2) / 2 ^ (l2 - l1).
Proof.
  intros a l1 l2 H1 H2. rewrite (blk_size_split l1 l2 H1 H2).
  rewrite N.div_div; auto.
  - pose proof (blk_size_pos l2). lia.
  - apply N.pow_nonzero. discriminate.
Qed.

(* laminar: two blocks that share an address are nested (the longer inside the shorter) *)
Lemma laminar : forall s t x, s_len s <= s_len t -> s_len t <= 128 ->
  contains s x = true -> contains t x = true ->
  forall y, contains t y = true -> contains s y = true.
Proof.
  unfold contains. intros s t x Hl Ht Hs Hx y Hy.
  apply N.eqb_eq in Hs. apply N.eqb_eq in Hx. apply N.eqb_eq in Hy. apply N.eqb_eq.
  rewrite (div_coarser y _ _ Hl Ht). rewrite Hy. rewrite <- Hx.
  rewrite <- (div_coarser x _ _ Hl Ht). exact Hs.
Qed.

Definition masked (a len : N) : Prop := a mod blk_size len = 0.

Lemma masked_coarser : forall x p l, l <= 128 -> p <= l -> masked x p -> masked x l.
Proof.
  unfold masked. intros x p l Hl Hp Hm.
  rewrite (blk_size_split p l Hp Hl) in Hm.
  pose proof (blk_size_pos l) as Hpos.
  assert (Hd : x = blk_size l * 2 ^ (l - p) * (x / (blk_size l * 2 ^ (l - p)))).
  { pose proof (N.div_mod x (blk_size l * 2 ^ (l - p))) as H.
    rewrite Hm in H. rewrite N.add_0_r in H. apply H.
    apply N.neq_mul_0. split; [lia | apply N.pow_nonzero; discriminate]. }
  rewrite Hd. rewrite <- N.mul_assoc. rewrite N.mul_comm. apply N.mod_mul. lia.
Qed.

(* straddle: a block that contains x-1 and x, x a positive multiple of 2^(128-p), is shorter than p *)
Lemma straddle : forall s x p, s_len s <= 128 -> p <= 128 -> 0 < x -> masked x p ->
  contains s (x - 1) = true -> contains s x = true -> s_len s < p.
Proof.
  intros s x p Hs Hp Hx Hm H1 H2.
  destruct (N.lt_ge_cases (s_len s) p) as [|Hge]; auto. exfalso.
  assert (Hm' : masked x (s_len s)) by (apply (masked_coarser x p); auto).
  unfold masked in Hm'. unfold contains in *.
  apply N.eqb_eq in H1. apply N.eqb_eq in H2.
  pose proof (blk_size_pos (s_len s)) as Hpos.
  set (B := blk_size (s_len s)) in *.
  assert (HB : B <> 0) by lia.
  pose proof (N.div_mod x B HB) as Dx. rewrite Hm' in Dx.
  pose proof (N.div_mod (x - 1) B HB) as Dy.
  pose proof (N.mod_lt (x - 1) B HB) as Ly.
  rewrite H1 in Dy. rewrite <- H2 in Dy.
  nia.
Qed.

(* interval form of a block whose network address has no host bits *)
Lemma contains_iff : forall s a, masked (s_addr s) (s_len s) ->
  (contains s a = true <-> s_addr s <= a /\ a < s_addr s + blk_size (s_len s)).
Proof.
  intros s a Hm. unfold masked in Hm. unfold contains.
  pose proof (blk_size_pos (s_len s)) as Hpos.
  set (B := blk_size (s_len s)) in *.
  assert (HB : B <> 0) by lia.
  pose proof (N.div_mod (s_addr s) B HB) as Da. rewrite Hm in Da.
  pose proof (N.div_mod a B HB) as Dx.
  pose proof (N.mod_lt a B HB) as Lx.
  rewrite N.eqb_eq. split.
  - intro E. rewrite E in Dx. nia.
  - intros [H1 H2].
    assert (E : a / B = s_addr s / B).
    { symmetry. apply (N.div_unique a B (s_addr s / B) (a - s_addr s)); nia. }
    exact E.
Qed.

(* the start of a block given by any of its addresses *)
Lemma contains_self : forall s, contains s (s_addr s) = true.
Proof. intro s. unfold contains. apply N.eqb_refl. Qed.

(* ---------------------------------------------------------------- lpm *)

Lemma lpm_some : forall S f a plen l k, lpm S f a plen = Some (l, k) ->
  exists s, In s S /\ eligible f a plen s = true /\ s_loc s = l /\ s_len s = k.
Proof.
  induction S as [|s S IH]; simpl; intros f a plen l k H; [discriminate|].
  destruct (eligible f a plen s) eqn:E.
  - destruct (lpm S f a plen) as [[l' k']|] eqn:R.
    + destruct (k' <? s_len s) eqn:C1.
      * inversion H; subst. exists s; auto.
      * destruct (k' =? s_len s) eqn:C2.
        -- inversion H; subst. exists s; auto.
        -- inversion H; subst. destruct (IH _ _ _ _ _ R) as [t [Ht Hr]]. exists t; auto.
    + inversion H; subst. exists s; auto.
  - destruct (IH _ _ _ _ _ H) as [t [Ht Hr]]. exists t; auto.
Qed.

Lemma lpm_max : forall S f a plen l k, lpm S f a plen = Some (l, k) ->
  forall t, In t S -> eligible f a plen t = true -> s_len t <= k.
Proof.
  induction S as [|s S IH]; simpl; intros f a plen l k H t Ht Et; [contradiction|].
  destruct (eligible f a plen s) eqn:E.
  - destruct (lpm S f a plen) as [[l' k']|] eqn:R.
    + destruct (k' <? s_len s) eqn:C1.
      * inversion H; subst. destruct Ht as [->|Ht]; [lia|].
        pose proof (IH _ _ _ _ _ R t Ht Et). lia.
      * destruct (k' =? s_len s) eqn:C2.
        -- inversion H; subst. destruct Ht as [->|Ht]; [lia|].
           pose proof (IH _ _ _ _ _ R t Ht Et). lia.
        -- inversion H; subst. destruct Ht as [->|Ht]; [lia|].
           exact (IH _ _ _ _ _ R t Ht Et).
    + inversion H; subst. destruct Ht as [->|Ht]; [lia|].
      clear IH. exfalso. revert R Ht Et. clear. induction S as [|u S IH]; simpl; intros; [contradiction|].
      destruct (eligible f a plen u) eqn:Eu.
      * destruct (lpm S f a plen) as [[? ?]|]; [destruct (n <? s_len u); [discriminate|destruct (n =? s_len u); discriminate]|discriminate].
      * destruct Ht as [->|Ht]; [congruence|]. apply IH; auto.
  - destruct Ht as [->|Ht]; [congruence|]. exact (IH _ _ _ _ _ H t Ht Et).
Qed.

Lemma lpm_none : forall S f a plen, lpm S f a plen = None ->
  forall t, In t S -> eligible f a plen t = false.
Proof.
  induction S as [|s S IH]; simpl; intros f a plen H t Ht; [contradiction|].
  destruct (eligible f a plen s) eqn:E.
  - destruct (lpm S f a plen) as [[? ?]|]; [destruct (n <? s_len s); [discriminate|destruct (n =? s_len s); discriminate]|discriminate].
  - destruct Ht as [->|Ht]; auto.
Qed.

(* lpm is characterised by its result: a longest eligible subnet, whose location
   is determined when eligible subnets of equal length carry equal locations *)
Lemma lpm_unique : forall S f a plen s,
  In s S -> eligible f a plen s = true ->
  (forall t, In t S -> eligible f a plen t = true -> s_len t <= s_len s) ->
  (forall t, In t S -> eligible f a plen t = true -> s_len t = s_len s -> s_loc t = s_loc s) ->
  lpm S f a plen = Some (s_loc s, s_len s).
Proof.
  intros S f a plen s Hin He Hmax Hloc.
  destruct (lpm S f a plen) as [[l k]|] eqn:R.
  - destruct (lpm_some _ _ _ _ _ _ R) as [t [Ht [Et [Lt Kt]]]].
    pose proof (lpm_max _ _ _ _ _ _ R s Hin He) as M1.
    pose proof (Hmax t Ht Et) as M2.
    assert (s_len t = s_len s) by lia.
    rewrite <- Lt, <- Kt. rewrite (Hloc t Ht Et H). congruence.
  - pose proof (lpm_none _ _ _ _ R s Hin). congruence.
Qed.

Lemma lpm_none_iff : forall S f a plen,
  (forall t, In t S -> eligible f a plen t = false) -> lpm S f a plen = None.
Proof.
  intros S f a plen H. destruct (lpm S f a plen) as [[l k]|] eqn:R; auto.
  destruct (lpm_some _ _ _ _ _ _ R) as [t [Ht [Et _]]]. rewrite (H t Ht) in Et. discriminate.
Qed.
