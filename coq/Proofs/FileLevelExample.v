(* FileLevelExample: the hypotheses of the file-level C01 theorems hold on a concrete data file and the
   composed statement is not vacuous.  Six lines: a zone (Z, &), a located address (+ ... ab), a
   wildcard TXT, a client subnet (%) and a map (M); the last two declare nothing and put foreign keys
   into the database.  Builder pipeline with v2 keys and the closest-key reader; CDB stream (reversed)
   with the label-by-label reader. *)
From DnsV Require Import Model.Compile Spec.MapOfLists Proofs.MultiValue Proofs.MapOfLists Proofs.Batch Proofs.CompilePipe.
From DnsV Require Import Model.Text Model.Preproc.
From DnsV Require Import Model.Store Model.LookupV1 Model.LookupV2 Model.Serve Spec.Answer Spec.Rows Spec.Declared.
From DnsV Require Import Proofs.Answer Proofs.Compile Proofs.ZoneCut Proofs.FileLevel.
From Coq Require Import Permutation ZifyN ZifyNat ZifyBool.
Open Scope N_scope.

Definition x_ip1_text : bytes := [49; 48; 46; 48; 46; 48; 46; 49].            (* 10.0.0.1 *)
Definition x_ip2_text : bytes := [49; 48; 46; 48; 46; 48; 46; 50].            (* 10.0.0.2 *)
Definition x_net_text : bytes := [49; 48; 46; 48; 46; 48; 46; 48; 47; 56].    (* 10.0.0.0/8 *)
Definition x_o : toracles :=
  mkTO (fun _ => false)
       (fun s => if bytes_eqb s x_ip1_text then Some (v4pre ++ [10; 0; 0; 1])
                 else if bytes_eqb s x_ip2_text then Some (v4pre ++ [10; 0; 0; 2]) else None)
       (fun _ => [])
       (fun s => if bytes_eqb s x_net_text then Some ([10; 0; 0; 0], 8, 32) else None)
       (fun _ _ => []) (fun _ => None) (fun _ => []).

Definition x_file : list bytes := [
  (* Zexample.com,a.ns.example.com,dns.example.com,1,7200,1800,604800,120,60 *)
  [90; 101; 120; 97; 109; 112; 108; 101; 46; 99; 111; 109; 44; 97; 46; 110; 115; 46; 101; 120; 97; 109; 112; 108; 101; 46; 99; 111; 109; 44; 100; 110; 115; 46; 101; 120; 97; 109; 112; 108; 101; 46; 99; 111; 109; 44; 49; 44; 55; 50; 48; 48; 44; 49; 56; 48; 48; 44; 54; 48; 52; 56; 48; 48; 44; 49; 50; 48; 44; 54; 48];
  (* &example.com,10.0.0.1,a.ns.example.com,3600 *)
  [38; 101; 120; 97; 109; 112; 108; 101; 46; 99; 111; 109; 44; 49; 48; 46; 48; 46; 48; 46; 49; 44; 97; 46; 110; 115; 46; 101; 120; 97; 109; 112; 108; 101; 46; 99; 111; 109; 44; 51; 54; 48; 48];
  (* +www.example.com,10.0.0.2,300,,ab *)
  [43; 119; 119; 119; 46; 101; 120; 97; 109; 112; 108; 101; 46; 99; 111; 109; 44; 49; 48; 46; 48; 46; 48; 46; 50; 44; 51; 48; 48; 44; 44; 97; 98];
  (* '*.example.com,hello,120 *)
  [39; 42; 46; 101; 120; 97; 109; 112; 108; 101; 46; 99; 111; 109; 44; 104; 101; 108; 108; 111; 44; 49; 50; 48];
  (* %ab,10.0.0.0/8,m1 *)
  [37; 97; 98; 44; 49; 48; 46; 48; 46; 48; 46; 48; 47; 56; 44; 109; 49];
  (* Mexample.com,m1 *)
  [77; 101; 120; 97; 109; 112; 108; 101; 46; 99; 111; 109; 44; 109; 49]].

(* the accumulator's records: two range points of map m1 (10.0.0.0/8 -> ab, everything else -> none) *)
Definition x_accum (_ : list bytes) : list (bytes * bytes) :=
  [([0; 0; 0; 33; 109; 49] ++ repeat 0 16 ++ [0], []);
   ([0; 0; 0; 33; 109; 49] ++ v4pre ++ [10; 0; 0; 0] ++ [104], [97; 98])].

Definition x_L : bytes := [97; 98].
Definition x_example : label := [101; 120; 97; 109; 112; 108; 101].
Definition x_com : label := [99; 111; 109].
(* TXT Foo.example.com: covered by the wildcard *)
Definition x_q1 : query := mkQ 1 [3; 70; 111; 111; 7; 101; 120; 97; 109; 112; 108; 101; 3; 99; 111; 109; 0] 16 1 None.
Definition x_n1 : name := [[102; 111; 111]; x_example; x_com].
(* A www.example.com: the record tagged with the client's location *)
Definition x_q2 : query := mkQ 2 [3; 119; 119; 119; 7; 101; 120; 97; 109; 112; 108; 101; 3; 99; 111; 109; 0] 1 1 None.
Definition x_n2 : name := [[119; 119; 119]; x_example; x_com].

Definition x_soa_rdata : bytes :=
  [1; 97; 2; 110; 115; 7; 101; 120; 97; 109; 112; 108; 101; 3; 99; 111; 109; 0;
   3; 100; 110; 115; 7; 101; 120; 97; 109; 112; 108; 101; 3; 99; 111; 109; 0;
   0; 0; 0; 1; 0; 0; 28; 32; 0; 0; 7; 8; 0; 9; 58; 128; 0; 0; 0; 120].
Definition x_recs : list Answer.record := [
  mkRec [x_example; x_com] false None 6 60 0 x_soa_rdata;
  mkRec [x_example; x_com] false None 2 3600 0 [1; 97; 2; 110; 115; 7; 101; 120; 97; 109; 112; 108; 101; 3; 99; 111; 109; 0];
  mkRec [[97]; [110; 115]; x_example; x_com] false None 1 3600 1 [10; 0; 0; 1];
  mkRec [[119; 119; 119]; x_example; x_com] false (Some [97; 98]) 1 300 1 [10; 0; 0; 2];
  mkRec [x_example; x_com] true None 16 120 0 [5; 104; 101; 108; 108; 111]].

Ltac wfname := unfold wf_name; repeat (constructor; [split; [unfold nlen; cbn; lia | split; [intros c Hc; cbn in Hc; lia | repeat constructor; lia]]|]); try constructor.

Lemma file_level_example :
  (* the guards *)
  wf_file x_o 7 x_file = true /\
  side_ok x_accum [feature_kv true] x_file /\ side_ok x_accum [feature_kv false] x_file /\
  kvs_ok (records bytes (conv_line x_o 7 false true) x_accum [feature_kv true] x_file) /\
  loc_okb x_L = true /\ wf_view x_L (declared_file x_o 7 x_file) = true /\
  wf_name x_n1 /\ lower_bytes (q_name x_q1) = pack x_n1 /\ wf_name x_n2 /\ lower_bytes (q_name x_q2) = pack x_n2 /\
  (* what the file declares, and what the spec prescribes *)
  declared_file x_o 7 x_file = x_recs /\
  spec_response x_L x_recs x_n1 16 = Answer [x_example; x_com] false [nth 4 x_recs (mkRec [] false None 0 0 0 [])] [nth 0 x_recs (mkRec [] false None 0 0 0 [])] /\
  spec_response x_L x_recs x_n2 1 = Answer [x_example; x_com] false [nth 3 x_recs (mkRec [] false None 0 0 0 [])] [nth 0 x_recs (mkRec [] false None 0 0 0 [])] /\
  (* RocksDB, v2 keys, builder (2 buckets), its dump, the closest-key reader *)
  (exists db st,
     compile_builder bytes (conv_line x_o 7 false true) kv_isort 1 2 x_file
       (records bytes (conv_line x_o 7 false true) x_accum [feature_kv true] x_file) = Ok db /\
     rdb_dump db st /\ (length st = 9)%nat /\
     serve RDB2 st x_q1 (LocOk x_L) None 1 =
       OReply (mkResp 1 (Some (q_name x_q1, 16, 1)) 0 true
                 [IRR (mkRR (q_name x_q1) 16 1 120 [5; 104; 101; 108; 108; 111])] [] [] None) /\
     serve RDB2 st x_q2 (LocOk x_L) None 1 =
       OReply (mkResp 2 (Some (q_name x_q2, 1, 1)) 0 true
                 [IPick (q_name x_q2) 1 1 [(300, 1, [10; 0; 0; 2])] 1] [] [] None) /\
     forall q n ecs max x, wf_name n -> nlen (pack n) <= 255 -> lower_bytes (q_name q) = pack n ->
       (q_edns q = None \/ q_edns q = Some 0) -> serve RDB2 st q (LocOk x_L) ecs max = OReply x ->
       response_refines x_L x_recs n q ecs max x) /\
  (* CDB: the stream reversed, read by the label-by-label reader *)
  (let stream := rev (records bytes (conv_line x_o 7 false false) x_accum [feature_kv false] x_file) in
   compile_cdb bytes (conv_line x_o 7 false false) x_file stream = Ok stream /\
   serve CDB (store_of stream) x_q1 (LocOk x_L) None 1 =
     OReply (mkResp 1 (Some (q_name x_q1, 16, 1)) 0 true
               [IRR (mkRR (q_name x_q1) 16 1 120 [5; 104; 101; 108; 108; 111])] [] [] None) /\
   forall q n ecs max x, wf_name n -> nlen (pack n) <= 255 -> lower_bytes (q_name q) = pack n ->
     (q_edns q = None \/ q_edns q = Some 0) -> serve CDB (store_of stream) q (LocOk x_L) ecs max = OReply x ->
     response_refines x_L x_recs n q ecs max x).
Proof.
  assert (WF : wf_file x_o 7 x_file = true) by (vm_compute; reflexivity).
  assert (S2 : side_ok x_accum [feature_kv true] x_file) by (unfold side_ok; repeat constructor).
  assert (S1 : side_ok x_accum [feature_kv false] x_file) by (unfold side_ok; repeat constructor).
  assert (KV : kvs_ok (records bytes (conv_line x_o 7 false true) x_accum [feature_kv true] x_file)).
  { unfold kvs_ok. apply Forall_forall. intros p Hp.
    assert (A : forallb (fun p : bytes * bytes => nlen (snd p) <? 4294967296)
                  (records bytes (conv_line x_o 7 false true) x_accum [feature_kv true] x_file) = true) by (vm_compute; reflexivity).
    rewrite forallb_forall in A. specialize (A p Hp). unfold okv. lia. }
  assert (NF2 : [feature_kv true] <> []) by discriminate.
  assert (ED : declared_file x_o 7 x_file = x_recs) by (vm_compute; reflexivity).
  assert (V : wf_view x_L (declared_file x_o 7 x_file) = true) by (vm_compute; reflexivity).
  split; [exact WF|]. split; [exact S2|]. split; [exact S1|]. split; [exact KV|].
  split; [reflexivity|]. split; [exact V|].
  split; [wfname|]. split; [vm_compute; reflexivity|]. split; [wfname|]. split; [vm_compute; reflexivity|].
  split; [exact ED|]. split; [vm_compute; reflexivity|]. split; [vm_compute; reflexivity|]. split.
  - eexists. eexists. split; [vm_compute; reflexivity|].
    match goal with |- rdb_dump ?db _ /\ _ =>
      assert (C : rdb_compilation bytes (conv_line x_o 7 false true) x_accum [feature_kv true] x_file db)
    end.
    { eapply (by_builder _ _ _ _ _ _ kv_isort 1 2); [apply sort_ok_isort | lia | lia | apply Permutation_refl | vm_compute; reflexivity]. }
    split; [apply (rdb_dump_exists bytes _ _ _ _ _ NF2 KV C)|].
    split; [vm_compute; reflexivity|]. split; [vm_compute; reflexivity|]. split; [vm_compute; reflexivity|].
    intros q n ecs max x Hn Hl Hq He Hs. rewrite <- ED.
    eapply (file_level_rdb_v2 x_o 7 false x_accum [feature_kv true] x_file WF S2 _ _ x_L NF2 KV C
              (rdb_dump_exists bytes _ _ _ _ _ NF2 KV C) eq_refl V); eassumption.
  - cbv zeta. split; [vm_compute; reflexivity|]. split; [vm_compute; reflexivity|].
    intros q n ecs max x Hn Hl Hq He Hs. rewrite <- ED.
    eapply (file_level_cdb x_o 7 false x_accum [feature_kv false] x_file WF S1
              (rev (records bytes (conv_line x_o 7 false false) x_accum [feature_kv false] x_file)) _
              _ x_L (Permutation_sym (Permutation_rev _)) ltac:(vm_compute; reflexivity) (store_of_rows _) eq_refl V); eassumption.
Qed.
