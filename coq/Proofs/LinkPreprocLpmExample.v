(* Non-vacuity of Proofs/LinkPreprocLpm.v: the two-map file x_B of Proofs/LinkPreprocDiffExample.v
     %ab,,m1 / Zexample.com,... / %cd,,m2 / +www.example.com,<11.0.0.0>,300
   (toy address syntax of Proofs/Text.o_toy, for which all library premises are proved; "%lo,,map" is
   0.0.0.0/0) passes every guard of preprocessed_rdb_is_lpm, and on every RocksDB compilation (v2 keys)
   of its PREPROCESSED text the IPv4 client 10.0.0.1 gets location ab in map m1 and location cd in
   map m2, matched length 96 - each map answers from its own subnet line. *)
From DnsV Require Import Base.Bytes Base.Ip Spec.Lpm Model.Rearranger Model.Location.
From DnsV Require Import Model.Compile Proofs.Batch Proofs.CompilePipe.
From DnsV Require Import Model.Text Model.Preproc.
From DnsV Require Model.Accum Proofs.FileLevel Proofs.Preproc Proofs.AccumLink Proofs.Text.
From DnsV Require Import Proofs.Location Proofs.Rearranger Proofs.LinkRdbDb.
From DnsV Require Import Proofs.LinkDiffText Proofs.LinkPreprocRearranger Proofs.LinkPreprocDiff Proofs.LinkPreprocDiffExample.
From DnsV Require Import Proofs.LinkPreprocLpm.
From Coq Require Import Permutation Lia.
Open Scope N_scope.

Definition x_client : N := first_v4 + 10 * 2 ^ 24 + 1.     (* 10.0.0.1 *)

Lemma x_guards_B :
  Proofs.FileLevel.wf_file x_o 7 x_B = true /\ Proofs.AccumLink.no_rp_lines x_o 7 x_B = true /\
  Model.Accum.ranger_ids (Proofs.FileLevel.parsed x_o 7 x_B) = [(109, 49); (109, 50)].
Proof. repeat split; vm_compute; reflexivity. Qed.

Theorem preprocessed_lpm_example :
  exists body points,
    preprocess x_o x_R 0 x_B = Ok (body ++ map (marshal x_o) points) /\
    forall pts, Permutation pts points ->
      forall (db : store) dbl,
        rdb_compilation bytes x_conv x_acc x_feat (scan (body ++ map (marshal x_o) pts)) db ->
        lists_store dbl db ->
        rdb_get_location dbl (109, 49) (mkClient (Some x_client) 32 32) = Ok (Some [97; 98], 96) /\
        rdb_get_location dbl (109, 50) (mkClient (Some x_client) 32 32) = Ok (Some [99; 100], 96).
Proof.
  destruct Proofs.Text.library_premises_satisfiable as (L1 & L2 & L3 & _).
  destruct link_example as (S1 & _ & _ & WB & _ & NB & _ & KB & _).
  destruct x_guards_B as (WF & NR & _).
  assert (Hser : 7 <= max32) by (vm_compute; intro H; discriminate H).
  destruct (preprocessed_rdb_is_lpm x_o L1 L2 L3 isort S1 true 7 0 Hser (or_intror eq_refl) x_B WB NB WF NR KB)
    as (body & points & _ & Pp & H).
  exists body, points. split; [exact Pp|]. intros pts Pm db dbl C Hl.
  destruct (H pts Pm db dbl C Hl) as [_ Hq].
  assert (Hc : client_plen x_client 32 32 128).
  { right. repeat split; try reflexivity; vm_compute; intro X; discriminate X. }
  assert (Ha : x_client < two128) by (vm_compute; reflexivity).
  split.
  - rewrite (Hq (109, 49) x_client 32 32 128 Ha Hc). vm_compute. reflexivity.
  - rewrite (Hq (109, 50) x_client 32 32 128 Ha Hc). vm_compute. reflexivity.
Qed.
