(* Proofs/Reload: invariants of the interleaving semantics Model/Reload.v and the
   lemmas behind the theorems of Properties/C05.v and the schedule part of C12.v. *)
From DnsV Require Import Base.Bytes Model.Reload.
From Coq Require Import Lia ZifyN ZifyNat ZifyBool.
Open Scope N_scope.

(* ------------------------------------------------------------ lists *)
Lemma length_upd {A} n (x : A) l : length (upd n x l) = length l.
Proof. revert n; induction l; destruct n; simpl; auto. Qed.

Lemma nth_error_upd {A} n m (x y : A) l :
  nth_error (upd n x l) m = Some y ->
  (n = m /\ y = x /\ (n < length l)%nat) \/ (n <> m /\ nth_error l m = Some y).
Proof.
  revert n m; induction l; intros n m H.
  - destruct n, m; simpl in H; discriminate.
  - destruct n, m; simpl in *.
    + inversion H; left; repeat split; auto; lia.
    + right; split; auto.
    + right; split; auto.
    + apply IHl in H. destruct H as [(?&?&?)|(?&?)]; [left|right]; repeat split; auto; lia.
Qed.

Lemma nth_error_upd_same {A} n (x : A) l y :
  nth_error l n = Some y -> nth_error (upd n x l) n = Some x.
Proof. revert n; induction l; destruct n; simpl; intros; try discriminate; auto. Qed.

Lemma nth_error_upd_other {A} n m (x : A) l : n <> m -> nth_error (upd n x l) m = nth_error l m.
Proof. revert n m; induction l; destruct n, m; simpl; intros; auto; try congruence. Qed.

Lemma nth_upd_other {A} n m (x d : A) l : n <> m -> nth m (upd n x l) d = nth m l d.
Proof. revert n m; induction l; destruct n, m; simpl; intros; auto; try congruence. Qed.

Lemma nth_upd_same {A} n (x d : A) l : (n < length l)%nat -> nth n (upd n x l) d = x.
Proof. revert n; induction l; destruct n; simpl; intros; auto; try lia. apply IHl; lia. Qed.

Lemma nth_upd_cases {A} n m (x d : A) l :
  nth m (upd n x l) d = nth m l d \/ (n = m /\ nth m (upd n x l) d = x).
Proof.
  revert n m; induction l; intros n m.
  - destruct n, m; simpl; auto.
  - destruct n, m; simpl; auto.
    destruct (IHl n m) as [H|(H1&H2)]; [left|right]; auto.
Qed.

Lemma nth_app_cases {A} m (x d : A) l :
  nth m (l ++ [x]) d = nth m l d \/ (m = length l /\ nth m (l ++ [x]) d = x).
Proof.
  revert m; induction l; intros m; simpl.
  - destruct m; auto. destruct m; auto.
  - destruct m; auto. destruct (IHl m) as [H|(H1&H2)]; [left|right]; auto.
Qed.

Lemma nth_app_lt {A} m (x d : A) l : (m < length l)%nat -> nth m (l ++ [x]) d = nth m l d.
Proof. intros; apply app_nth1; auto. Qed.

Lemma clookup_in c k e : clookup c k = Some e -> In (k, e) c.
Proof.
  induction c as [|(k', e') c IH]; simpl; intros H; try discriminate.
  destruct (k' =? k) eqn:E.
  - inversion H; subst. apply N.eqb_eq in E; subst; auto.
  - auto.
Qed.

Lemma in_cremove c k k' e : In (k', e) (cremove c k) -> In (k', e) c.
Proof.
  induction c as [|(k2, e2) c IH]; simpl; intros H; auto.
  destruct (k2 =? k); simpl in *; intuition.
Qed.

Lemma in_cadd c k e k' e' : In (k', e') (cadd c k e) -> (k' = k /\ e' = e) \/ In (k', e') c.
Proof.
  unfold cadd; simpl; intros [H|H].
  - inversion H; auto.
  - right; eapply in_cremove; eauto.
Qed.

Lemma prev_read_cases q d : prev_read q d = d \/ In (prev_read q d) (q_reads q).
Proof.
  unfold prev_read. induction (q_reads q) as [|x l IH]; simpl; auto.
  destruct l; [right; auto|]. destruct IH as [IH|IH]; [left|right]; auto.
Qed.

(* ------------------------------------------------------------ step inversion *)
Ltac dmatch H :=
  repeat match type of H with
  | context [match ?x with _ => _ end] => destruct x eqn:?
  | context [if ?x then _ else _] => destruct x eqn:?
  end.

Ltac inv_step H :=
  let HS := fresh "HS" in
  unfold step in H;
  match type of H with context [match ?t with TQ _ => _ | TR _ => _ | TL _ => _ | TE _ => _ end] => destruct t end;
  (match type of H with (match ?x with Some _ => _ | None => _ end) = _ => destruct x eqn:HS; [|discriminate] end);
  inversion H; subst; clear H;
  [ unfold q_step in HS | unfold r_step, r_begin in HS | unfold l_step in HS | unfold e_step in HS ];
  dmatch HS; try discriminate; inversion HS; subst; clear HS;
  repeat match goal with
  | |- context [prev_read ?q ?d] =>
      let E := fresh "PE" in let g := fresh "pg" in
      destruct (prev_read_cases q d) as [E|E]; [rewrite E in *; clear E | set (g := prev_read q d) in *; clearbody g]
  | H : context [prev_read ?q ?d] |- _ =>
      let E := fresh "PE" in let g := fresh "pg" in
      destruct (prev_read_cases q d) as [E|E]; [rewrite E in *; clear E | set (g := prev_read q d) in *; clearbody g]
  end.

Ltac split_upd :=
  repeat match goal with
  | H : nth_error (upd ?n ?x ?l) ?m = Some ?y |- _ =>
      apply nth_error_upd in H; destruct H as [(?&?&?)|(?&H)]; subst
  end.

Ltac backs_cases b :=
  match goal with
  | |- context [nth b (upd ?c ?x ?l) ?d] => destruct (nth_upd_cases c b x d l) as [->|(?&->)]
  | |- context [nth b (?l ++ [?x]) ?d] => destruct (nth_app_cases b x d l) as [->|(?&->)]
  end.

Ltac inst_q HQ := repeat match goal with Hq : nth_error (st_qs _) _ = Some _ |- _ => pose proof (HQ _ _ Hq); revert Hq end; intros.
Ltac inst_r HR := repeat match goal with Hr : nth_error (st_rs _) _ = Some _ |- _ => pose proof (HR _ _ Hr); revert Hr end; intros.
Ltac dest_and := repeat match goal with H : _ /\ _ |- _ => destruct H end.
Ltac split_in := repeat match goal with H : In _ (_ ++ _) |- _ => apply in_app_or in H; destruct H as [H|[H|[]]] end.
Ltac nat_eqs := repeat match goal with
  | H : (?a =? ?b)%nat = true |- _ => apply Nat.eqb_eq in H
  | H : (?a =? ?b)%nat = false |- _ => apply Nat.eqb_neq in H
  | H : Nat.eqb ?a ?b = true |- _ => apply Nat.eqb_eq in H
  | H : Nat.eqb ?a ?b = false |- _ => apply Nat.eqb_neq in H
  end.
Ltac pcs := repeat match goal with
  | E : q_pc ?q = _ |- _ => try rewrite E in *; revert E
  | E : r_pc ?r = _ |- _ => try rewrite E in *; revert E
  end; intros.
Ltac triv_prem := repeat match goal with
  | H : true = true -> _ |- _ => specialize (H eq_refl)
  | H : false = true -> _ |- _ => clear H
  | H : ?a = ?a -> _ |- _ => specialize (H eq_refl)
  | H : ?a <> ?b -> _ |- _ => let X := fresh in assert (X : a <> b) by discriminate; specialize (H X); clear X
  | H : ?a = ?b -> _ |- _ => let X := fresh in assert (X : a <> b) by discriminate; clear H X
  | H : forall k, ?c = RDone k -> _ |- _ => let X := fresh in assert (X : forall k, c <> RDone k) by (intro; discriminate); clear H X
  | H : forall k, RDone ?k0 = RDone k -> _ |- _ => specialize (H _ eq_refl)
  end.
Ltac solve_prem := solve [ assumption | congruence | lia | reflexivity
   | match goal with E : q_pc _ = _ |- _ => rewrite E; cbn; solve [reflexivity | congruence] end
   | match goal with E : r_pc _ = _ |- _ => rewrite E; cbn; solve [reflexivity | congruence] end ].
Ltac fwd := repeat match goal with
  | H : forall k, _ = RDone k -> _, H' : _ = RDone ?k |- _ => specialize (H _ H')
  | H : ?P -> _ |- _ =>
      match type of P with Prop => let X := fresh in assert (X : P) by solve_prem; specialize (H X); clear X end
  end.

Section P.
Variable refusedf weightedf : N -> N -> bool.
Variable cfg : config.

Notation step := (step refusedf weightedf cfg).
Notation run := (run refusedf weightedf cfg).
Notation step_or_skip := (step_or_skip refusedf weightedf cfg).

Definition epoch_of (st : state) (b : nat) : N := b_epoch (back st b).
Definition stamp_of (st : state) (b : nat) : N := b_stamp (back st b).
Definition qat st j q := nth_error (st_qs st) j = Some q.
Definition rat st i r := nth_error (st_rs st) i = Some r.

(* generic induction principle over schedules *)
Lemma run_inv (P : state -> Prop) :
  (forall st t st', P st -> step st t = Some st' -> P st') ->
  forall sched st, P st -> P (run st sched).
Proof.
  intros Hs sched; induction sched as [|t s IH]; simpl; intros st H; auto.
  apply IH. unfold Reload.step_or_skip. destruct (step st t) eqn:E; eauto.
Qed.

Lemma run_app st s1 s2 : run st (s1 ++ s2) = run (run st s1) s2.
Proof. unfold Reload.run; apply fold_left_app. Qed.

Definition pinned (pc : qpc) : bool := match pc with QStart | QRLocked => false | _ => true end.
Definition has_cand (pc : rpc) : bool := match pc with RValidate | RReloaded => true | _ => false end.

End P.
