(* Proofs/Pool: invariants of the iterator-pool / reload-lock interleaving model
   (Model/Pool.v), for every number n of workers and every schedule. *)
From Coq Require Import List Arith Bool Lia.
From DnsV Require Import Model.Pool.
Import ListNotations.

(* the invariant; mf = the catch-up may fail *)
Definition phase_inv (mf : bool) (s : st) : Prop :=
  match rl s with
  | RIdle => plock s = false /\
             ((enabled s = true /\ chan s + hp s = cap) \/
              (mf = true /\ enabled s = false /\ chan s + hp s = 0))
  | RWantD => plock s = false /\
             ((enabled s = true /\ chan s + hp s = cap) \/ (enabled s = false /\ chan s + hp s = 0))
  | RCheckD => plock s = true /\
             ((enabled s = true /\ chan s + hp s = cap) \/ (enabled s = false /\ chan s + hp s = 0))
  | RDrain k => plock s = true /\ enabled s = false /\ chan s + hp s = k /\ k <= cap
  | RCatch | RWantE => plock s = false /\ enabled s = false /\ chan s + hp s = 0
  | RCheckE => plock s = true /\ enabled s = false /\ chan s + hp s = 0
  | RFill k => plock s = true /\ enabled s = false /\ chan s + hp s + k = cap
  end.

Definition Inv (mf : bool) (n : nat) (s : st) : Prop :=
  idle s + acq s + ready s + wait s + hp s + he s = n /\
  cp s = dp s + chan s + hp s /\
  ce s = fe s + he s /\
  (rmu s = true -> acq s = 0) /\
  phase_inv mf s.

Lemma inv_init : forall mf n, Inv mf n (init n).
Proof.
  intros mf n. unfold Inv, phase_inv, init, cap; simpl.
  split; [lia|]. split; [lia|]. split; [lia|]. split; [intros; discriminate|].
  split; [reflexivity|]. left; split; [reflexivity | lia].
Qed.

Ltac break_step H :=
  repeat match type of H with
  | (match ?x with _ => _ end) = Some _ => let E := fresh "E" in destruct x eqn:E; try discriminate H
  | (if ?x then _ else _) = Some _ => let E := fresh "E" in destruct x eqn:E; try discriminate H
  end.

Lemma inv_step : forall mf n l s s', Inv mf n s -> step mf l s = Some s' -> Inv mf n s'.
Proof.
  intros mf n l s s' HI HS.
  destruct s as [i a r w p e mu pc en ch pl c1 d1 c2 f2].
  unfold Inv, phase_inv in *; simpl in *.
  destruct HI as (Hn & Hp & He & Hmu & Hph).
  destruct l; simpl in HS; break_step HS; inversion HS; subst; clear HS; simpl;
    try rewrite Nat.ltb_lt in *; unfold cap in *;
    try (destruct pc); simpl in *;
    intuition (try lia; try congruence).
Qed.

Lemma inv_run : forall mf n ls s s', Inv mf n s -> run mf ls s = Some s' -> Inv mf n s'.
Proof.
  induction ls as [|l t IH]; intros s s' HI HR; simpl in HR.
  - inversion HR; subst; assumption.
  - destruct (step mf l s) eqn:E; [|discriminate]. eapply IH; [eapply inv_step; eassumption | assumption].
Qed.

Lemma inv_reachable : forall mf n s, reachable mf n s -> Inv mf n s.
Proof. intros mf n s [ls H]. eapply inv_run; [apply inv_init | exact H]. Qed.

(* ---- conservation ------------------------------------------------------------------ *)

(* For every n, every schedule, whether or not the catch-up can fail:
   - the number of workers is constant;
   - pooled iterators: created = destroyed + in the channel + held by workers (each pooled
     iterator handed out by get is either back in the pool, still held, or was destroyed by
     disable - counted once), never more than cap alive;
   - ephemeral iterators: created = freed + held;
   - once disable() has drained the pool and until enable() refills it, no worker holds a
     pooled iterator and the channel is empty: no pooled iterator is used across the
     catch-up, even though get() reads [enabled] without the lock (a worker that saw the stale
     [enabled = true] blocks on the empty channel instead);
   - when nothing is in progress every ephemeral iterator has been freed and exactly the
     pool's own iterators are alive (cap of them, or none after a failed catch-up). *)
Theorem pool_conservation : forall mf n s, reachable mf n s ->
  idle s + acq s + ready s + wait s + hp s + he s = n /\
  cp s = dp s + chan s + hp s /\
  ce s = fe s + he s /\
  chan s + hp s <= cap /\
  (drained s -> hp s = 0 /\ chan s = 0) /\
  (final s -> ce s = fe s /\ chan s <= cap /\
              ((enabled s = true /\ cp s = dp s + cap) \/ (mf = true /\ enabled s = false /\ cp s = dp s))).
Proof.
  intros mf n s HR. apply inv_reachable in HR.
  destruct HR as (Hn & Hp & He & Hmu & Hph).
  unfold phase_inv in Hph. unfold drained, final.
  repeat split; try assumption.
  - destruct (rl s); unfold cap in *; intuition lia.
  - destruct (rl s) as [| | |k| | | |k]; try contradiction; try (intuition lia).
    destruct k; [intuition lia | contradiction].
  - destruct (rl s) as [| | |k| | | |k]; try contradiction; try (intuition lia).
    destruct k; [intuition lia | contradiction].
  - intuition lia.
  - destruct H as (_ & _ & _ & Hhp & _ & Hrl & _). rewrite Hrl in Hph. unfold cap in *. intuition lia.
  - destruct H as (_ & _ & _ & Hhp & _ & Hrl & _). rewrite Hrl in Hph. unfold cap in *.
    destruct Hph as (_ & [[Hen Hc] | (Hm & Hen & Hc)]); [left | right]; intuition lia.
Qed.

(* ---- deadlock freedom --------------------------------------------------------------- *)

(* without catch-up failures the reloader only rests with the pool enabled *)
Lemma idle_enabled : forall n s, Inv false n s -> rl s = RIdle -> enabled s = true /\ chan s + hp s = cap.
Proof.
  intros n s (_ & _ & _ & _ & Hph) Hrl. unfold phase_inv in Hph. rewrite Hrl in Hph.
  destruct Hph as (_ & [H | (H & _)]); [assumption | discriminate].
Qed.

(* Every reachable state either has nothing in progress, or some operation that is in
   progress can take a step (so no set of started operations waits for each other).
   PARTIAL: assumes rdb.db.CatchWithPrimary returns nil (may_fail = false; with an error
   return the statement is false, see below); one helper goroutine at a time; the fairness of
   sync.RWMutex (a waiting writer blocks new readers) is not modelled - it does not remove
   enabled steps of operations in progress. *)
Theorem no_deadlock_partial : forall n s, reachable false n s ->
  final s \/ exists l, progress_label l = true /\ step false l s <> None.
Proof.
  intros n s HR. apply inv_reachable in HR.
  pose proof HR as (Hn & Hp & He & Hmu & Hph).
  destruct s as [i a r w p e mu pc en ch pl c1 d1 c2 f2]; simpl in *.
  unfold phase_inv in Hph; simpl in Hph.
  destruct a as [|a].
  2:{ right. exists WAcquired. split; [reflexivity | simpl; discriminate]. }
  destruct r as [|r].
  2:{ right. exists WReadEnabled. split; [reflexivity | simpl; destruct en; discriminate]. }
  destruct e as [|e].
  2:{ right. exists WPutEphDone. split; [reflexivity | simpl; discriminate]. }
  destruct p as [|p].
  2:{ right. exists WPutPooledDone. split; [reflexivity|]. simpl.
      assert (Hlt : ch <? cap = true).
      { apply Nat.ltb_lt. unfold cap in *. destruct pc; intuition lia. }
      rewrite Hlt. discriminate. }
  destruct mu.
  { right. exists MuRelease. split; [reflexivity | simpl; discriminate]. }
  destruct pc as [| | |k| | | |k].
  - (* RIdle *)
    destruct w as [|w].
    + left. unfold final; simpl. repeat split; reflexivity.
    + right. exists WRecv. split; [reflexivity|]. simpl.
      destruct (idle_enabled _ _ HR eq_refl) as [_ Hc]. simpl in Hc. unfold cap in Hc.
      destruct ch; [lia | discriminate].
  - right. exists RLockD. split; [reflexivity|]. simpl. destruct Hph as [Hpl _]. rewrite Hpl. discriminate.
  - right. exists RCheckDL. split; [reflexivity|]. simpl. destruct en; discriminate.
  - destruct k as [|k].
    + right. exists RDrainDone. split; [reflexivity | simpl; discriminate].
    + right. exists RDrainL. split; [reflexivity|]. simpl.
      destruct ch; [intuition lia | discriminate].
  - right. exists RCatchOk. split; [reflexivity | simpl; discriminate].
  - right. exists RLockE. split; [reflexivity|]. simpl. destruct Hph as [Hpl _]. rewrite Hpl. discriminate.
  - right. exists RCheckEL. split; [reflexivity|]. simpl. destruct en; discriminate.
  - destruct k as [|k].
    + right. exists RFillDone. split; [reflexivity | simpl; discriminate].
    + right. exists RFillL. split; [reflexivity|]. simpl.
      assert (Hlt : ch <? cap = true) by (apply Nat.ltb_lt; unfold cap in *; intuition lia).
      rewrite Hlt. discriminate.
Qed.

(* With an error return of CatchWithPrimary (rdb.go:270-273 returns before enable()) the
   statement is FALSE already for one worker: the worker reads enabled = true (unlocked, in
   get), the reloader then disables and drains the pool, the catch-up fails, the pool stays
   disabled and empty, and the worker blocks on <-pool.iterators with nothing in progress that
   could wake it (only a later successful reload refills the channel).  A consequence of
   get() testing [enabled] and receiving from the channel non-atomically (finding F11). *)
Definition stuck_trace : list label :=
  [WStart; WAcquired; WReadEnabled; MuAcquire; RLockD; RCheckDL] ++
  repeat RDrainL 15 ++ [RDrainDone; RCatchFail; MuRelease].

Definition stuck_state : st := mk 0 0 0 1 0 0 false RIdle false 0 false 15 15 0 0.

Theorem no_deadlock_refuted_if_catchup_fails :
  exists s, reachable true 1 s /\ ~ final s /\ wait s = 1 /\ enabled s = false /\ chan s = 0 /\
            forall l, progress_label l = true -> step true l s = None.
Proof.
  exists stuck_state. split; [|split; [|split; [|split; [|split]]]].
  - exists stuck_trace. vm_compute. reflexivity.
  - unfold final, stuck_state; simpl. intros (_ & _ & H & _). discriminate.
  - reflexivity.
  - reflexivity.
  - reflexivity.
  - intros l Hl. destruct l; try discriminate Hl; reflexivity.
Qed.

(* ---- a non-trivial run: two workers, one successful catch-up in the middle --------------- *)
Definition example_trace : list label :=
  [WStart; WStart; WAcquired; WAcquired; WReadEnabled; WRecv; (* worker A holds a pooled iterator *)
   MuAcquire; RLockD; RCheckDL] ++ repeat RDrainL 14 ++      (* disable drains 14, waits for A *)
  [WReadEnabled;                                             (* worker B sees enabled = false: ephemeral *)
   WPutPooledAgain; RDrainL; RDrainDone;                     (* A returns it; drain completes *)
   WPutEphDone; RCatchOk; RLockE; RCheckEL] ++ repeat RFillL 15 ++
  [RFillDone; MuRelease; WReadEnabled; WRecv; WPutPooledDone].

Example pool_example :
  exists s, run false example_trace (init 2) = Some s /\ final s /\
            cp s = 30 /\ dp s = 15 /\ ce s = 1 /\ fe s = 1 /\ chan s = 15 /\ idle s = 2.
Proof. eexists. split; [vm_compute; reflexivity|]. unfold final; simpl. repeat split; reflexivity. Qed.
