(* TextBase: lemmas about the field-level helpers of Model/Text.v (decimal numbers,
   the tokenizer, location / map-id text).  Used by Proofs/Text.v. *)
From DnsV Require Import Model.Text Proofs.Quote.
From Coq Require Import ZifyN ZifyNat ZifyBool.
Ltac Zify.zify_post_hook ::= Z.div_mod_to_equations.
Open Scope N_scope.

(* ------------------------------------------------------------------ decimal *)
Definition digitc (c : N) : Prop := 48 <= c <= 57.

Lemma is_digit_true : forall c, digitc c -> is_digit c = true.
Proof. intros c H. unfold is_digit, digitc in *. lia. Qed.

Lemma dec_digits_val : forall fuel n acc, n < 2 ^ N.of_nat fuel ->
  dec_val (dec_digits fuel n acc) 0 = dec_val acc n.
Proof.
  induction fuel; intros n acc H.
  - cbn [N.of_nat] in H. change (2 ^ 0) with 1 in H. assert (n = 0) by lia. subst. reflexivity.
  - cbn [dec_digits]. rewrite Nat2N.inj_succ, N.pow_succ_r' in H.
    destruct (N.ltb_spec n 10).
    + cbn [dec_val]. rewrite is_digit_true by (unfold digitc; lia).
      f_equal. lia.
    + rewrite IHfuel by lia. cbn [dec_val]. rewrite is_digit_true by (unfold digitc; lia).
      f_equal. lia.
Qed.

Lemma dec_digits_digits : forall fuel n acc, Forall digitc acc -> Forall digitc (dec_digits fuel n acc).
Proof.
  induction fuel; intros n acc H; [exact H|]. cbn [dec_digits].
  assert (D : digitc (48 + n mod 10)) by (unfold digitc; lia).
  destruct (n <? 10); [constructor; assumption|]. apply IHfuel. constructor; assumption.
Qed.

Lemma dec_digits_nonempty : forall fuel n acc, acc <> [] -> dec_digits fuel n acc <> [].
Proof.
  induction fuel; intros n acc H; [exact H|]. cbn [dec_digits].
  destruct (n <? 10); [discriminate|]. apply IHfuel. discriminate.
Qed.

Lemma print_dec_nonempty : forall n, print_dec n <> [].
Proof.
  intros n. unfold print_dec. cbn [dec_digits]. destruct (n <? 10); [discriminate|].
  apply dec_digits_nonempty. discriminate.
Qed.

Lemma print_dec_digits : forall n, Forall digitc (print_dec n).
Proof. intros. apply dec_digits_digits. constructor. Qed.

Lemma print_dec_val : forall n, dec_val (print_dec n) 0 = Some n.
Proof.
  intros n. unfold print_dec. rewrite dec_digits_val; [reflexivity|].
  rewrite Nat2N.inj_succ, N2Nat.id, N.pow_succ_r'. pose proof (N.size_gt n). lia.
Qed.

Lemma parse_print_dec : forall max n, n <= max -> parse_uint max (print_dec n) = Some n.
Proof.
  intros max n H. unfold parse_uint. pose proof (print_dec_nonempty n) as Ne.
  destruct (print_dec n) eqn:E; [congruence|]. rewrite <- E, print_dec_val.
  destruct (N.leb_spec n max); [reflexivity|lia].
Qed.

Lemma getuint_print : forall max n d, n <= max -> getuint max (print_dec n) d = n.
Proof. intros. unfold getuint. rewrite parse_print_dec by assumption. reflexivity. Qed.

Lemma getuint_nil : forall max d, getuint max [] d = d.
Proof. reflexivity. Qed.

Lemma digits_contains : forall c l, Forall digitc l -> ~ digitc c -> contains c l = false.
Proof.
  intros c l H Hc. apply contains_false_Forall. eapply Forall_impl; [|exact H].
  intros a Ha E. subst. contradiction.
Qed.

Lemma print_dec_nosep : forall n, contains 44 (print_dec n) = false /\ contains 58 (print_dec n) = false.
Proof.
  intros. split.
  - apply digits_contains; [apply print_dec_digits|unfold digitc; lia].
  - apply digits_contains; [apply print_dec_digits|unfold digitc; lia].
Qed.

(* ------------------------------------------------------------------ the tokenizer *)
Lemma joinb_join_sep : forall c l, joinb c l = join_sep c l.
Proof.
  induction l as [|x t IH]; [reflexivity|]. destruct t as [|y t']; [reflexivity|].
  change (joinb c (x :: y :: t')) with (x ++ c :: joinb c (y :: t')).
  change (join_sep c (x :: y :: t')) with (x ++ c :: join_sep c (y :: t')). rewrite IH. reflexivity.
Qed.

Lemma splitn_nosep : forall n c x rest cur, contains c x = false ->
  splitn n c (x ++ rest) cur = splitn n c rest (rev x ++ cur).
Proof.
  induction x; intros rest cur H; [reflexivity|].
  cbn [contains] in H. apply orb_false_iff in H. destruct H as [H1 H2].
  cbn [app splitn rev]. rewrite H1. cbn [andb]. rewrite IHx by assumption. rewrite <- app_assoc. reflexivity.
Qed.

Lemma splitn_join : forall c l n, l <> [] -> (length l <= n)%nat -> Forall (fun x => contains c x = false) l ->
  splitn n c (joinb c l) [] = l.
Proof.
  induction l as [|x t IH]; intros n Ne L F; [congruence|].
  inversion F as [|? ? Fx Ft]; subst. cbn [joinb]. destruct t as [|y t'].
  - rewrite <- (app_nil_r x) at 1. rewrite splitn_nosep by assumption.
    cbn [splitn]. rewrite app_nil_r, rev_involutive. reflexivity.
  - rewrite splitn_nosep by assumption. cbn [splitn]. rewrite N.eqb_refl.
    cbn [length] in L. destruct n as [|[|n']]; try lia.
    cbn [andb Nat.ltb Nat.leb pred]. rewrite app_nil_r, rev_involutive. f_equal.
    apply IH; [discriminate|cbn [length]; lia|assumption].
Qed.

Definition nocomma (x : bytes) : Prop := contains 44 x = false.
Definition nocolon (x : bytes) : Prop := contains 58 x = false.

(* the fields of a line in normal form are the fields it was printed from *)
Lemma fields_line_of : forall t f0 f1 rest,
  nocomma f0 -> nocolon f0 -> Forall nocomma (f1 :: rest) -> (length rest <= 13)%nat ->
  fields (line_of t (f0 :: f1 :: rest)) = f0 :: f1 :: rest.
Proof.
  intros t f0 f1 rest C0 K0 F L. unfold fields, line_of. cbn [tl].
  assert (S : first_sep (joinb SEPC (f0 :: f1 :: rest)) = Some 44).
  { cbn [joinb]. rewrite first_sep_skip by assumption. reflexivity. }
  rewrite S. apply splitn_join; [discriminate|cbn [length]; lia|].
  constructor; assumption.
Qed.

Lemma nocomma_nil : nocomma []. Proof. reflexivity. Qed.
Lemma nocolon_nil : nocolon []. Proof. reflexivity. Qed.
Lemma nocomma_dec : forall n, nocomma (print_dec n). Proof. intros. apply print_dec_nosep. Qed.
Lemma nocolon_dec : forall n, nocolon (print_dec n). Proof. intros. apply print_dec_nosep. Qed.

Lemma nocomma_app : forall a b, nocomma a -> nocomma b -> nocomma (a ++ b).
Proof. unfold nocomma. intros. rewrite contains_app, H, H0. reflexivity. Qed.
Lemma nocolon_app : forall a b, nocolon a -> nocolon b -> nocolon (a ++ b).
Proof. unfold nocolon. intros. rewrite contains_app, H, H0. reflexivity. Qed.

(* ------------------------------------------------------------------ \ooo text *)
Lemma octal_digit : forall x, x < 8 -> octal (48 + x) = Some x.
Proof.
  intros x H. unfold octal. destruct ((48 <=? 48 + x) && (48 + x <=? 55)) eqn:E; [|lia].
  f_equal. lia.
Qed.

Lemma unquote_char_oct3 : forall a X, a < 256 -> unquote_char (oct3 a ++ X) = Ok (a, false, X).
Proof.
  intros a X H. unfold oct3. cbn [app].
  set (d0 := (a / 64) mod 8). set (d1 := (a / 8) mod 8). set (d2 := a mod 8).
  assert (H0 : d0 < 4) by (unfold d0; lia).
  assert (H1 : d1 < 8) by (unfold d1; lia).
  assert (H2 : d2 < 8) by (unfold d2; lia).
  assert (V : (d0 * 8 + d1) * 8 + d2 = a) by (unfold d0, d1, d2; lia).
  unfold unquote_char.
  destruct (128 <=? 92) eqn:E; [discriminate E|]. clear E.
  change (negb (92 =? 92)) with false. cbv iota.
  repeat match goal with
  | |- context [if (48 + d0 =? ?k) then _ else _] => destruct (N.eqb_spec (48 + d0) k); [lia|]
  end.
  rewrite (octal_digit d0) by lia. rewrite (octal_digit d1), (octal_digit d2) by assumption.
  rewrite V. destruct (255 <? a) eqn:E; [lia|]. reflexivity.
Qed.

Lemma oct3_good_tail : forall a, a < 256 -> exists x y z, oct3 a = [92; x; y; z] /\ digitc x /\ digitc y /\ digitc z.
Proof.
  intros a H. unfold oct3. do 3 eexists. split; [reflexivity|]. unfold digitc. repeat split; lia.
Qed.

Lemma loctext_nosep : forall lo, wf_bytes lo -> nocomma (loctext lo) /\ nocolon (loctext lo).
Proof.
  unfold nocomma, nocolon, loctext. induction 1; [split; reflexivity|]. destruct IHForall as [I1 I2].
  cbn [flat_map]. rewrite !contains_app, I1, I2.
  destruct (oct3_good_tail x H) as (a & b & c & E & Da & Db & Dc). rewrite E. unfold digitc in *.
  cbn [contains]. split; rewrite !orb_false_r; repeat (apply orb_false_iff; split); lia.
Qed.

Lemma bunquote_bs : forall s, contains 92 s = true -> bunquote s = unquote_loop (length s) s.
Proof. intros s H. destruct s; [discriminate H|]. unfold bunquote. rewrite H. reflexivity. Qed.

Lemma bunquote_loctext2 : forall a b, a < 256 -> b < 256 -> bunquote (loctext [a; b]) = Ok [a; b].
Proof.
  intros a b Ha Hb. unfold loctext. cbn [flat_map]. rewrite app_nil_r.
  rewrite bunquote_bs by reflexivity.
  replace (length (oct3 a ++ oct3 b)) with 8%nat by reflexivity.
  rewrite (unquote_loop_step 7 (oct3 a) (oct3 b) a false); [|discriminate|apply unquote_char_oct3; assumption].
  rewrite <- (app_nil_r (oct3 b)).
  rewrite (unquote_loop_step 6 (oct3 b) [] b false); [|discriminate|apply unquote_char_oct3; assumption].
  rewrite unquote_loop_nil, !emit_byte by assumption. reflexivity.
Qed.

Definition wf_loc (lo : bytes) : Prop := wf_bytes lo /\ (length lo = 0%nat \/ length lo = 2%nat).
Definition wf_lmap (m : bytes) : Prop := wf_bytes m /\ length m = 2%nat.

Lemma getloc_loctext : forall lo, wf_loc lo -> getloc (loctext lo) = Ok lo.
Proof.
  intros lo [W [L|L]].
  - destruct lo; [reflexivity|discriminate L].
  - destruct lo as [|a [|b [|c t]]]; try discriminate L.
    inversion W as [|? ? Ha W']; subst. inversion W' as [|? ? Hb _]; subst.
    unfold getloc. rewrite bunquote_loctext2 by assumption. reflexivity.
Qed.

Lemma getloc_nil : getloc [] = Ok [].
Proof. reflexivity. Qed.

Lemma getlmap_loctext : forall m, wf_lmap m -> getlmap (loctext m) = m.
Proof.
  intros m [W L]. destruct m as [|a [|b [|c t]]]; try discriminate L.
  inversion W as [|? ? Ha W']; subst. inversion W' as [|? ? Hb _]; subst.
  unfold getlmap, unq. rewrite bunquote_loctext2 by assumption. reflexivity.
Qed.

Lemma wf_locb_spec : forall lo, wf_locb lo = true -> wf_loc lo.
Proof.
  intros lo H. unfold wf_locb in H. apply andb_true_iff in H. destruct H as [H1 H2].
  split.
  - unfold wf_bytesb in H1. rewrite forallb_forall in H1. apply Forall_forall. intros x Hx.
    apply H1 in Hx. unfold is_byte in Hx. lia.
  - apply orb_true_iff in H2. destruct H2 as [H2|H2]; apply Nat.eqb_eq in H2; [left|right]; assumption.
Qed.

Lemma wf_bytesb_spec : forall l, wf_bytesb l = true -> wf_bytes l.
Proof.
  intros l H. unfold wf_bytesb in H. rewrite forallb_forall in H. apply Forall_forall. intros x Hx.
  apply H in Hx. unfold is_byte in Hx. lia.
Qed.

Lemma wf_lmapb_spec : forall m, wf_lmapb m = true -> wf_lmap m.
Proof.
  intros m H. unfold wf_lmapb in H. apply andb_true_iff in H. destruct H as [H1 H2].
  split; [apply wf_bytesb_spec; assumption|apply Nat.eqb_eq; assumption].
Qed.
