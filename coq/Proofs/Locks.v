(* Proofs/Locks: the lockset obligations over the generated table Gen/Access.v.
   The table is finite; every statement is decided by vm_compute over the table and lifted
   with forallb_forall - the table (as regenerated from the Go sources by gotab at this run) is
   the stated bound. *)
From Coq Require Import List String NArith Bool.
From DnsV Require Import Model.AccessTypes Gen.Access Model.Locks.
Import ListNotations.
Open Scope string_scope.

(* generic lifting lemmas over an arbitrary table (so that the kernel never unfolds the
   generated table outside vm_compute) *)
Lemma roles_total_elim : forall fs t, roles_total fs t = true ->
  (forall f, In f fs -> has_role f = true) /\
  (forall a, In a t -> a_global a = false -> has_role (a_func a) = true).
Proof.
  intros fs t H. unfold roles_total in H. apply andb_true_iff in H. destruct H as [H1 H2].
  rewrite forallb_forall in H1, H2. split; [assumption|].
  intros a Ha Hg. specialize (H2 a Ha). rewrite Hg in H2. exact H2.
Qed.

Lemma calls_elim : forall cs, forallb call_ok cs = true -> forall c, In c cs -> call_ok c = true.
Proof. intros cs H. rewrite forallb_forall in H. exact H. Qed.

Lemma pair_ok_elim : forall a b, pair_ok a b = true -> conflicting a b = true -> concurrent_roles a b = true ->
  common_lock a b = true \/ ordered_by_channel a b = true \/ listed_exception a b = true.
Proof.
  intros a b H Hc Hr. unfold pair_ok in H. rewrite Hc, Hr in H.
  destruct (common_lock a b); [left; reflexivity|].
  destruct (ordered_by_channel a b); [right; left; reflexivity|].
  right; right; exact H.
Qed.

Lemma table_ok_elim : forall t, table_ok t = true -> forall a b, In a t -> In b t ->
  finding_class a b = false -> conflicting a b = true -> concurrent_roles a b = true ->
  common_lock a b = true \/ ordered_by_channel a b = true \/ listed_exception a b = true.
Proof.
  intros t H a b Ha Hb Hf Hc Hr. unfold table_ok in H.
  rewrite forallb_forall in H. specialize (H a Ha). rewrite forallb_forall in H. specialize (H b Hb).
  destruct (pair_ok a b) eqn:E.
  - apply pair_ok_elim; assumption.
  - rewrite Hf in H. discriminate.
Qed.

(* ---- every function has a role -------------------------------------------------------- *)
Lemma roles_total_ok :
  (forall f, In f functions -> has_role f = true) /\
  (forall a, In a accesses -> a_global a = false -> has_role (a_func a) = true).
Proof. apply roles_total_elim. vm_compute. reflexivity. Qed.

(* ---- callers of "caller must hold" methods hold the lock ---------------------------- *)
Lemma callers_hold_locks : forall c, In c calls -> call_ok c = true.
Proof. apply calls_elim. vm_compute. reflexivity. Qed.

(* ---- lockset outside the known findings ----------------------------------------------- *)
Theorem lockset_outside_finding : forall a b, In a accesses -> In b accesses ->
  finding_class a b = false -> conflicting a b = true -> concurrent_roles a b = true ->
  common_lock a b = true \/ ordered_by_channel a b = true \/ listed_exception a b = true.
Proof. apply table_ok_elim. vm_compute. reflexivity. Qed.

(* ---- refutations: the unchanged tree has unsynchronised conflicting pairs --------------- *)
Definition is_bad (a b : access) : bool :=
  conflicting a b && concurrent_roles a b && negb (common_lock a b) &&
  negb (ordered_by_channel a b) && negb (listed_exception a b).

Definition is_reader (owner field reader : string) (a : access) : bool :=
  if String.eqb (a_owner a) owner then
    if String.eqb (a_field a) field then
      if String.eqb (a_func a) reader then negb (is_write a) else false
    else false
  else false.
Definition is_writer (owner field : string) (b : access) : bool :=
  if is_write b then
    if String.eqb (a_owner b) owner then String.eqb (a_field b) field else false
  else false.

Definition witness_for (t : list access) (owner field reader : string) : option (access * access) :=
  find (fun p => is_bad (fst p) (snd p))
       (list_prod (filter (is_reader owner field reader) t) (filter (is_writer owner field) t)).

Lemma witness_sound : forall t owner field reader,
  witness_for t owner field reader <> None ->
  exists a b, In a t /\ In b t /\
    a_owner a = owner /\ a_field a = field /\ a_func a = reader /\ a_kind a = Read /\ a_kind b = Write /\
    conflicting a b = true /\ concurrent_roles a b = true /\
    common_lock a b = false /\ ordered_by_channel a b = false /\ listed_exception a b = false.
Proof.
  intros t owner field reader H. unfold witness_for in H.
  destruct (find _ _) as [[a b]|] eqn:E; [|congruence].
  apply find_some in E. destruct E as [Hin Hp]. simpl in Hp.
  apply in_prod_iff in Hin. destruct Hin as [Ha Hb].
  apply filter_In in Ha. destruct Ha as [Ha Ra]. apply filter_In in Hb. destruct Hb as [Hb Wb].
  unfold is_reader in Ra. unfold is_writer in Wb.
  destruct (String.eqb (a_owner a) owner) eqn:Ho; [|discriminate].
  destruct (String.eqb (a_field a) field) eqn:Hf; [|discriminate].
  destruct (String.eqb (a_func a) reader) eqn:Hr; [|discriminate].
  destruct (is_write b) eqn:Hk2; [|discriminate].
  apply String.eqb_eq in Ho, Hf, Hr. rewrite negb_true_iff in Ra.
  unfold is_bad in Hp. repeat rewrite andb_true_iff in Hp.
  destruct Hp as [[[[Hc Hcr] Hl] Hch] Hex].
  rewrite negb_true_iff in Hl, Hch, Hex.
  exists a, b. repeat split; try assumption.
  - unfold is_write in Ra. destruct (a_kind a); [reflexivity | discriminate].
  - unfold is_write in Hk2. destruct (a_kind b); [discriminate | reflexivity].
Qed.

(* F11: get() reads pool.enabled without pool.l while disable()/enable() write it *)
Theorem lockset_refuted_pool_enabled :
  exists a b, In a accesses /\ In b accesses /\
    a_owner a = "rdb.IteratorPool" /\ a_field a = "enabled" /\ a_func a = "rdb.IteratorPool.get" /\
    a_kind a = Read /\ a_kind b = Write /\
    conflicting a b = true /\ concurrent_roles a b = true /\
    common_lock a b = false /\ ordered_by_channel a b = false /\ listed_exception a b = false.
Proof. apply witness_sound. vm_compute. discriminate. Qed.

(* F29: the watcher goroutine reads dbConfig.Path without reloadMu while Reload writes it *)
Theorem lockset_refuted_dbconfig_path :
  exists a b, In a accesses /\ In b accesses /\
    a_owner a = "dnsserver.FBDNSDB" /\ a_field a = "dbConfig.Path" /\
    a_func a = "dnsserver.FBDNSDB.watchDBAndReload" /\
    a_kind a = Read /\ a_kind b = Write /\
    conflicting a b = true /\ concurrent_roles a b = true /\
    common_lock a b = false /\ ordered_by_channel a b = false /\ listed_exception a b = false.
Proof. apply witness_sound. vm_compute. discriminate. Qed.

(* ---- tie of Model/Pool.v to the code: the lock structure the model assumes -------------- *)
Definition in_func (f : string) (a : access) : bool := String.eqb (a_func a) f.
Definition holds_excl (l : string) (a : access) : bool :=
  existsb (fun h => String.eqb (fst h) l && is_excl (snd h)) (a_locks a).
Definition has_event (f ch : string) (op : chop) : bool :=
  existsb (fun e => String.eqb (e_func e) f && String.eqb (e_chan e) ch && chop_eqb (e_op e) op) chan_events.
Definition no_event (f : string) : bool :=
  negb (existsb (fun e => String.eqb (e_func e) f) chan_events).

(* accesses to package-level variables (a_global) are not part of the lock structure *)
Definition pool_model_tie : bool :=
  (* get and put take no lock; get reads enabled, receives from the channel; put sends *)
  forallb (fun a => a_global a || negb (in_func "rdb.IteratorPool.get" a || in_func "rdb.IteratorPool.put" a) ||
                    match a_locks a with [] => true | _ => false end) accesses &&
  existsb (fun a => in_func "rdb.IteratorPool.get" a && String.eqb (a_field a) "enabled" && negb (is_write a)) accesses &&
  has_event "rdb.IteratorPool.get" "rdb.IteratorPool.iterators" ChRecv &&
  has_event "rdb.IteratorPool.put" "rdb.IteratorPool.iterators" ChSend &&
  (* disable and enable run entirely under pool.l, write enabled, drain / fill the channel *)
  forallb (fun a => a_global a || negb (in_func "rdb.IteratorPool.disable" a || in_func "rdb.IteratorPool.enable" a) ||
                    holds_excl "rdb.IteratorPool.l" a) accesses &&
  existsb (fun a => in_func "rdb.IteratorPool.disable" a && String.eqb (a_field a) "enabled" && is_write a) accesses &&
  existsb (fun a => in_func "rdb.IteratorPool.enable" a && String.eqb (a_field a) "enabled" && is_write a) accesses &&
  has_event "rdb.IteratorPool.disable" "rdb.IteratorPool.iterators" ChRecv &&
  has_event "rdb.IteratorPool.enable" "rdb.IteratorPool.iterators" ChSend &&
  (* CatchWithPrimary itself takes no lock and touches the pool only through disable / enable *)
  forallb (fun a => a_global a || negb (in_func "rdb.RDB.CatchWithPrimary" a) ||
                    (match a_locks a with [] => true | _ => false end && negb (is_write a))) accesses &&
  no_event "rdb.RDB.CatchWithPrimary" &&
  (* the reload lock: Reload writes under reloadMu exclusively, AcquireReader reads under RLock *)
  forallb (fun a => a_global a || negb (in_func "dnsserver.FBDNSDB.Reload" a) || holds_excl "dnsserver.FBDNSDB.reloadMu" a) accesses &&
  forallb (fun a => a_global a || negb (in_func "dnsserver.FBDNSDB.AcquireReader" a) ||
                    existsb (fun h => String.eqb (fst h) "dnsserver.FBDNSDB.reloadMu") (a_locks a)) accesses.

Lemma pool_model_tie_ok : pool_model_tie = true.
Proof. vm_compute. reflexivity. Qed.
