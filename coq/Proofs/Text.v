(* Proofs/Text: the line-level theorems of C09, assembled from Proofs/TextRecords.v. *)
From DnsV Require Import Model.Text Proofs.Quote Proofs.TextBase Proofs.TextNames Proofs.TextRecords.
From DnsV Require Base.Text Model.Svcb Spec.SvcbWire Proofs.SvcbLib Proofs.Svcb.
From Coq Require Import ZifyN ZifyNat ZifyBool.
Open Scope N_scope.

(* the guard of the round trip: the line parses to a well-formed record (Model/Text.v wf_recordb) *)
Definition wf_line (o : toracles) (serial : N) (l : bytes) : Prop := wf_lineb o serial l = true.

(* the library behaviour behind B/H parameter lists: the premises of C18_text_roundtrip_outside_finding
   (Properties/C18.v) for the oracles of o.  net.ParseIP yields 16 bytes; base64 Decode yields bytes;
   a printed 4-byte address parses to its v4-in-v6 form; a printed 16-byte address outside
   ::ffff:0:0/96 holds a ':'; printed addresses hold no ';', '|' or double quote; base64 Decode
   inverts Encode, whose text holds no ';' or double quote *)
Definition svcb_library (o : toracles) : Prop :=
  (forall s a, o_parse_ip o s = Some a -> length a = 16%nat /\ wf_bytes a) /\
  (forall s x, o_b64_dec o s = Some x -> wf_bytes x) /\
  (forall a, length a = 4%nat -> wf_bytes a ->
     o_parse_ip o (o_print_ip o a) = Some (Base.Text.v4_prefix ++ a)) /\
  (forall a, length a = 16%nat -> wf_bytes a -> Base.Text.ip_to4 a = None ->
     Base.Text.has_byte 58 (o_print_ip o a) = true) /\
  (forall a, (length a = 4%nat \/ length a = 16%nat) -> wf_bytes a ->
     Base.Text.has_byte 59 (o_print_ip o a) = false /\ Base.Text.has_byte 124 (o_print_ip o a) = false
     /\ Base.Text.has_byte 34 (o_print_ip o a) = false) /\
  (forall x, wf_bytes x ->
     o_b64_dec o (o_b64_enc o x) = Some x /\ Base.Text.has_byte 59 (o_b64_enc o x) = false
     /\ Base.Text.has_byte 34 (o_b64_enc o x) = false).

Section Roundtrip.
Variable o : toracles.
Variable serial : N.
Variable Hip_rt : forall a, wf_bytes a -> length a = 16%nat -> o_parse_ip o (o_print_ip o a) = Some a.
Variable Hip_nil : o_parse_ip o [] = None.
Variable Hip_nosep : forall a, contains 44 (o_print_ip o a) = false.
(* B/H parameter lists (the premises of C18_text_roundtrip_outside_finding, see Proofs/TextRecords.v) *)
Variable Hs_parse : forall s a, o_parse_ip o s = Some a -> length a = 16%nat /\ wf_bytes a.
Variable Hs_b64 : forall s x, o_b64_dec o s = Some x -> wf_bytes x.
Variable Hs_p4 : forall a, length a = 4%nat -> wf_bytes a ->
  o_parse_ip o (o_print_ip o a) = Some (Base.Text.v4_prefix ++ a).
Variable Hs_p6 : forall a, length a = 16%nat -> wf_bytes a -> Base.Text.ip_to4 a = None ->
  Base.Text.has_byte 58 (o_print_ip o a) = true.
Variable Hs_pc : forall a, (length a = 4%nat \/ length a = 16%nat) -> wf_bytes a ->
  Base.Text.has_byte 59 (o_print_ip o a) = false /\ Base.Text.has_byte 124 (o_print_ip o a) = false
  /\ Base.Text.has_byte 34 (o_print_ip o a) = false.
Variable Hs_be : forall x, wf_bytes x ->
  o_b64_dec o (o_b64_enc o x) = Some x /\ Base.Text.has_byte 59 (o_b64_enc o x) = false
  /\ Base.Text.has_byte 34 (o_b64_enc o x) = false.

Lemma parse_marshal_norm : forall r,
  wf_recordb o r = true -> svcb_accepted o r -> finding_class o serial r = false ->
  parse_line o serial (marshal o r) = Ok (norm serial r).
Proof using o serial Hip_rt Hip_nil Hip_nosep Hs_parse Hs_b64 Hs_p4 Hs_p6 Hs_pc Hs_be.
  intros r W A F. unfold finding_class in F. apply orb_false_iff in F. destruct F as [F F8].
  apply orb_false_iff in F. destruct F as [F F27].
  apply orb_false_iff in F. destruct F as [F12 F26].
  destruct r; cbn [f26_class] in F26; cbn [f8_class] in F8.
  - apply parse_net_rec; assumption.
  - apply parse_soa; assumption.
  - apply parse_dot; assumption.
  - apply parse_ns; assumption.
  - apply parse_addr; assumption.
  - apply parse_paddr; assumption.
  - apply parse_mx; assumption.
  - apply parse_srv; assumption.
  - apply parse_cname; assumption.
  - apply parse_ptr; assumption.
  - apply parse_txt; assumption.
  - apply parse_aux; assumption.
  - apply parse_ipmap; assumption.
  - apply parse_csmap; assumption.
  - apply parse_rangepoint; assumption.
  - apply parse_svcb; assumption.
Qed.

(* every record parse_line returns carries a parameter list FromText accepted *)
Lemma parse_accepted : forall l r, parse_line o serial l = Ok r -> svcb_accepted o r.
Proof using o serial.
  intros l r P. unfold parse_line in P. destruct l as [|t b]; [discriminate P|].
  set (f := fields (t :: b)) in *. clearbody f.
  repeat match type of P with
  | (if ?c then _ else _) = Ok _ => destruct c
  | (let '(_, _) := ?x in _) = Ok _ => destruct x
  | rbind (svcb_params ?oo ?x) _ = Ok _ =>
      let E := fresh "Esv" in destruct (svcb_params oo x) eqn:E; cbn [rbind] in P; [|discriminate P]
  | rbind ?x _ = Ok _ => destruct x; cbn [rbind] in P; [|discriminate P]
  | Ok (if ?c then _ else _) = Ok _ => destruct c
  end;
  try (inversion P; subst r; exact I); try discriminate P.
  inversion P; subst r. cbn [svcb_accepted]. exists (fld f 5).
  unfold svcb_params in Esv.
  destruct (Model.Svcb.from_text (sorc o) (fld f 5)) as [ps|e]; [exact Esv|].
  destruct ((e =? Model.Svcb.E_PANIC) || (e =? Model.Svcb.E_OOR)); discriminate Esv.
Qed.

(* C09, line level, outside the recorded findings *)
Theorem roundtrip_outside_finding : forall v2 nornet l r,
  wf_line o serial l -> parse_line o serial l = Ok r -> finding_class o serial r = false ->
  exists r', parse_line o serial (marshal o r) = Ok r' /\
             convert v2 nornet r' = convert v2 nornet r /\
             marshal o r' = marshal o r.
Proof.
  intros v2 nornet l r W P F. unfold wf_line, wf_lineb in W. rewrite P in W.
  apply andb_true_iff in W. destruct W as [W S].
  pose proof (parse_accepted l r P) as A.
  exists (norm serial r). split; [apply parse_marshal_norm; assumption|]. split.
  - apply (convert_norm o serial); assumption.
  - apply marshal_norm; assumption.
Qed.

(* the text form is a fixed point: printing what is read back from a printed record prints the same *)
Theorem marshal_idempotent : forall r r',
  wf_recordb o r = true -> svcb_accepted o r -> finding_class o serial r = false ->
  parse_line o serial (marshal o r) = Ok r' -> marshal o r' = marshal o r.
Proof using o serial Hip_rt Hip_nil Hip_nosep Hs_parse Hs_b64 Hs_p4 Hs_p6 Hs_pc Hs_be.
  intros r r' W A F P. rewrite parse_marshal_norm in P by assumption. inversion P; subst.
  apply marshal_norm; assumption.
Qed.

(* range point: text <-> key/value.  The text carries the mask length of an IPv4 point
   relative to the 32-bit address (96 less than the stored 128-bit length, modulo 256 as
   uint8 arithmetic does); what is read back compiles to exactly the key and value the
   accumulator emits for the point itself. *)
Theorem rangepoint_text_key : forall v2 nornet lmap ip ml null locid,
  wf_recordb o (RRangePoint lmap ip ml null locid) = true ->
  marshal o (RRangePoint lmap ip ml null locid) =
    33 :: loctext lmap ++ 44 :: o_print_ip o ip ++
    (if null then []
     else 44 :: print_dec (if is4 ip then (ml + 160) mod 256 else ml) ++ 44 :: loctext locid) /\
  (is4 ip = true -> 96 <= ml -> (ml + 160) mod 256 = ml - 96) /\
  exists r', parse_line o serial (marshal o (RRangePoint lmap ip ml null locid)) = Ok r' /\
    convert v2 nornet r' =
      [([0; 0; 0; 33] ++ lmap ++ ip ++ [if null then 0 else ml], if null then [] else locid)] /\
    convert v2 nornet r' = convert v2 nornet (RRangePoint lmap ip ml null locid).
Proof using o serial Hip_rt Hip_nosep.
  intros v2 nornet lmap ip ml null locid W. split; [|split].
  - unfold marshal, line_of, SEPC. destruct null; cbn [app joinb]; rewrite ?app_nil_r; reflexivity.
  - intros _ H. cbn [wf_recordb] in W. apply andb_true_iff in W. destruct W as [W _].
    apply andb_true_iff in W. destruct W as [_ W]. apply N.ltb_lt in W. apply ml_minus96; assumption.
  - exists (norm serial (RRangePoint lmap ip ml null locid)). split; [apply parse_rangepoint; assumption|].
    cbn [norm convert]. destruct null; split; reflexivity.
Qed.

End Roundtrip.

(* the statement with the codec serial quantified after the library premises (Properties/C09.v) *)
Lemma roundtrip_stmt : forall o,
  (forall a, wf_bytes a -> length a = 16%nat -> o_parse_ip o (o_print_ip o a) = Some a) ->
  o_parse_ip o [] = None ->
  (forall a, contains 44 (o_print_ip o a) = false) ->
  svcb_library o ->
  forall serial v2 nornet l r,
  wf_line o serial l -> parse_line o serial l = Ok r -> finding_class o serial r = false ->
  exists r', parse_line o serial (marshal o r) = Ok r' /\
             convert v2 nornet r' = convert v2 nornet r /\
             marshal o r' = marshal o r.
Proof.
  intros o H1 H2 H3 (S1 & S2 & S3 & S4 & S5 & S6) serial.
  exact (roundtrip_outside_finding o serial H1 H2 H3 S1 S2 S3 S4 S5 S6).
Qed.

Lemma marshal_idempotent_stmt : forall o serial,
  (forall a, wf_bytes a -> length a = 16%nat -> o_parse_ip o (o_print_ip o a) = Some a) ->
  o_parse_ip o [] = None ->
  (forall a, contains 44 (o_print_ip o a) = false) ->
  svcb_library o ->
  forall r r',
  wf_recordb o r = true -> svcb_accepted o r -> finding_class o serial r = false ->
  parse_line o serial (marshal o r) = Ok r' -> marshal o r' = marshal o r.
Proof.
  intros o serial H1 H2 H3 (S1 & S2 & S3 & S4 & S5 & S6).
  exact (marshal_idempotent o serial H1 H2 H3 S1 S2 S3 S4 S5 S6).
Qed.

(* a type character outside the 17 of modelled_type is rejected as ErrBadRType: no record type is
   left to an unmodelled branch *)
Lemma unknown_type_rejected : forall o serial t b,
  modelled_type t = false -> parse_line o serial (t :: b) = Err E_BADTYPE.
Proof.
  intros o serial t b H. unfold modelled_type in H. cbn [existsb] in H.
  repeat (apply orb_false_iff in H; let E := fresh "E" in destruct H as [E H]).
  unfold parse_line. rewrite ?E, ?E0, ?E1, ?E2, ?E3, ?E4, ?E5, ?E6, ?E7, ?E8, ?E9, ?E10, ?E11, ?E12, ?E13, ?E14, ?E15.
  reflexivity.
Qed.

(* ------------------------------------------------------------------ the recorded findings are real *)
(* an oracle that is enough for lines without addresses and without bytes >= 0x80 *)
Definition o_plain : toracles :=
  mkTO (fun _ => false) (fun _ => None) (fun _ => []) (fun _ => None) (fun _ _ => []) (fun _ => None) (fun _ => []).

(* Zexample.com,a.ns.example.com,dns.example.com,0,7200,1800,604800,120,120,,   with Codec.Serial = 7 *)
Definition f12_line : bytes :=
  [90;101;120;97;109;112;108;101;46;99;111;109;44;97;46;110;115;46;101;120;97;109;112;108;101;46;99;111;109;44;
   100;110;115;46;101;120;97;109;112;108;101;46;99;111;109;44;48;44;55;50;48;48;44;49;56;48;48;44;54;48;52;56;48;48;44;
   49;50;48;44;49;50;48;44;44].
(* &example.com,,a.,3600 *)
Definition f26_line : bytes := [38;101;120;97;109;112;108;101;46;99;111;109;44;44;97;46;44;51;54;48;48].
(* M*.,\000\001 *)
Definition f27_line : bytes := [77;42;46;44;92;48;48;48;92;48;48;49].

Definition refutes (serial : N) (l : bytes) : Prop :=
  exists r r', wf_line o_plain serial l /\ parse_line o_plain serial l = Ok r /\
    finding_class o_plain serial r = true /\
    parse_line o_plain serial (marshal o_plain r) = Ok r' /\
    convert false false r' <> convert false false r.

Lemma f12_refuted : refutes 7 f12_line /\ f12_class 7 (match parse_line o_plain 7 f12_line with Ok r => r | Err _ => RIpmap [] [] end) = true.
Proof.
  split; [|vm_compute; reflexivity].
  unfold refutes.
  destruct (parse_line o_plain 7 f12_line) as [r|] eqn:E; [|vm_compute in E; discriminate E].
  destruct (parse_line o_plain 7 (marshal o_plain r)) as [r'|] eqn:E'.
  - exists r, r'. vm_compute in E. inversion E; subst r. clear E.
    vm_compute in E'. inversion E'; subst r'. clear E'.
    split; [vm_compute; reflexivity|]. split; [reflexivity|]. split; [vm_compute; reflexivity|].
    split; [reflexivity|]. vm_compute. intros H. discriminate H.
  - vm_compute in E. inversion E; subst r. vm_compute in E'. discriminate E'.
Qed.

Lemma f26_refuted : refutes 7 f26_line.
Proof.
  unfold refutes.
  destruct (parse_line o_plain 7 f26_line) as [r|] eqn:E; [|vm_compute in E; discriminate E].
  destruct (parse_line o_plain 7 (marshal o_plain r)) as [r'|] eqn:E'.
  - exists r, r'. vm_compute in E. inversion E; subst r. clear E.
    vm_compute in E'. inversion E'; subst r'. clear E'.
    split; [vm_compute; reflexivity|]. split; [reflexivity|]. split; [vm_compute; reflexivity|].
    split; [reflexivity|]. vm_compute. intros H. discriminate H.
  - vm_compute in E. inversion E; subst r. vm_compute in E'. discriminate E'.
Qed.

Lemma f27_refuted : refutes 7 f27_line.
Proof.
  unfold refutes.
  destruct (parse_line o_plain 7 f27_line) as [r|] eqn:E; [|vm_compute in E; discriminate E].
  destruct (parse_line o_plain 7 (marshal o_plain r)) as [r'|] eqn:E'.
  - exists r, r'. vm_compute in E. inversion E; subst r. clear E.
    vm_compute in E'. inversion E'; subst r'. clear E'.
    split; [vm_compute; reflexivity|]. split; [reflexivity|]. split; [vm_compute; reflexivity|].
    split; [reflexivity|]. vm_compute. intros H. discriminate H.
  - vm_compute in E. inversion E; subst r. vm_compute in E'. discriminate E'.
Qed.

(* F8: Hexample.com,.,300,,1,ipv6hint=::ffff:1.2.3.4 under an oracle that answers as net.ParseIP and
   net.IP.String do on the one address involved: the line is well formed and parses, its text form
   (ipv6hint="1.2.3.4") does not parse *)
Definition f8_tok : bytes := [58;58;102;102;102;102;58;49;46;50;46;51;46;52].      (* ::ffff:1.2.3.4 *)
Definition f8_quad : bytes := [49;46;50;46;51;46;52].                                 (* 1.2.3.4 *)
Definition f8_ip : bytes := [0;0;0;0;0;0;0;0;0;0;255;255;1;2;3;4].
Definition o_f8 : toracles :=
  mkTO (fun _ => false)
       (fun s => if bytes_eqb s f8_tok || bytes_eqb s f8_quad then Some f8_ip else None)
       (fun a => if bytes_eqb a f8_ip then f8_quad else [])
       (fun _ => None) (fun _ _ => []) (fun _ => None) (fun _ => []).
Definition f8_line : bytes := [72;101;120;97;109;112;108;101;46;99;111;109;44;46;44;51;48;48;44;44;49;44;105;112;118;54;104;105;110;116;61] ++ f8_tok.
(* Hexample.com,.,300,,1,ipv6hint="1.2.3.4" *)
Definition f8_printed : bytes := [72;101;120;97;109;112;108;101;46;99;111;109;44;46;44;51;48;48;44;44;49;44;105;112;118;54;104;105;110;116;61] ++ 34 :: f8_quad ++ [34].

Lemma f8_refuted : exists r,
  wf_line o_f8 7 f8_line /\ parse_line o_f8 7 f8_line = Ok r /\ finding_class o_f8 7 r = true /\
  f12_class 7 r = false /\ f26_class o_f8 r = false /\ f27_class o_f8 r = false /\
  marshal o_f8 r = f8_printed /\
  parse_line o_f8 7 (marshal o_f8 r) = Err (E_SVCB + Model.Svcb.E_IP6_NOCOLON).
Proof.
  destruct (parse_line o_f8 7 f8_line) as [r|] eqn:E; [|vm_compute in E; discriminate E].
  exists r. vm_compute in E. inversion E; subst r. clear E.
  split; [vm_compute; reflexivity|]. split; [reflexivity|].
  repeat split; vm_compute; reflexivity.
Qed.

(* non-vacuity: a line with escapes, a wildcard owner, a location and an IPv6 address satisfies the
   guard under an oracle with a (one entry) address table, is outside the finding classes, and its
   text form differs from the line *)
Definition ex_ip : bytes := [32;1;13;184;0;0;0;0;0;0;0;0;0;0;0;1].                       (* 2001:db8::1 *)
Definition ex_ip_text : bytes := [50;48;48;49;58;100;98;56;58;58;49].
Definition o_ex : toracles :=
  mkTO (fun _ => false)
       (fun s => if bytes_eqb s ex_ip_text then Some ex_ip else None)
       (fun a => if bytes_eqb a ex_ip then ex_ip_text else [])
       (fun _ => None) (fun _ _ => []) (fun _ => None) (fun _ => []).
(* +*.a\054b.Example.com.,2001:db8::1,300,,xy *)
Definition ex_line : bytes :=
  [43;42;46;97;92;48;53;52;98;46;69;120;97;109;112;108;101;46;99;111;109;46;44] ++ ex_ip_text ++ [44;51;48;48;44;44;120;121].

Lemma roundtrip_example :
  wf_line o_ex 7 ex_line /\
  exists r, parse_line o_ex 7 ex_line = Ok r /\ finding_class o_ex 7 r = false /\
    marshal o_ex r <> ex_line /\
    exists r', parse_line o_ex 7 (marshal o_ex r) = Ok r' /\
      convert true false r' = convert true false r /\ marshal o_ex r' = marshal o_ex r /\
      convert true false r <> [].
Proof.
  split; [vm_compute; reflexivity|].
  destruct (parse_line o_ex 7 ex_line) as [r|] eqn:E; [|vm_compute in E; discriminate E].
  exists r. vm_compute in E. inversion E; subst r. clear E.
  split; [reflexivity|]. split; [vm_compute; reflexivity|]. split; [vm_compute; intros H; discriminate H|].
  eexists. split; [vm_compute; reflexivity|]. split; [vm_compute; reflexivity|].
  split; [vm_compute; reflexivity|]. vm_compute. intros H. discriminate H.
Qed.

(* non-vacuity for B/H: H*.Example.com:svc.example.com.:300:ab:1:port="443";alpn=h2|h3;no-default-alpn=
   (':'-separated, wildcard owner, quoted value, parameters out of key order) satisfies the guard, is
   outside the findings, is not in normal form, and goes round with a non-empty record list *)
Definition svcb_ex_line : bytes := [72;42;46;69;120;97;109;112;108;101;46;99;111;109;58;115;118;99;46;101;120;97;109;112;108;101;46;99;111;109;46;58;51;48;48;58;97;98;58;49;58;112;111;114;116;61;34;52;52;51;34;59;97;108;112;110;61;104;50;124;104;51;59;110;111;45;100;101;102;97;117;108;116;45;97;108;112;110;61].

Lemma svcb_example :
  wf_line o_plain 7 svcb_ex_line /\
  exists r, parse_line o_plain 7 svcb_ex_line = Ok r /\ finding_class o_plain 7 r = false /\
    marshal o_plain r <> svcb_ex_line /\
    exists r', parse_line o_plain 7 (marshal o_plain r) = Ok r' /\
      convert true false r' = convert true false r /\ marshal o_plain r' = marshal o_plain r /\
      convert true false r <> [].
Proof.
  split; [vm_compute; reflexivity|].
  destruct (parse_line o_plain 7 svcb_ex_line) as [r|] eqn:E; [|vm_compute in E; discriminate E].
  exists r. vm_compute in E. inversion E; subst r. clear E.
  split; [reflexivity|]. split; [vm_compute; reflexivity|]. split; [vm_compute; intros H; discriminate H|].
  eexists. split; [vm_compute; reflexivity|]. split; [vm_compute; reflexivity|].
  split; [vm_compute; reflexivity|]. vm_compute. intros H. discriminate H.
Qed.

(* all library premises of the line-level theorems are jointly satisfiable: the toy address and base64
   syntax of Proofs/Svcb.v (ex_orc), with every IsPrint false and no CIDR syntax *)
Definition o_toy : toracles :=
  mkTO (fun _ => false) Proofs.Svcb.ex_parse Proofs.Svcb.ex_print (fun _ => None) (fun _ _ => [])
       Proofs.Svcb.ex_unshift Proofs.Svcb.ex_shift.

Lemma contains_has_byte : forall c s, contains c s = Base.Text.has_byte c s.
Proof. induction s as [|x t IH]; [reflexivity|]. cbn [contains Base.Text.has_byte]. rewrite IH. reflexivity. Qed.

Lemma library_premises_satisfiable :
  (forall a, wf_bytes a -> length a = 16%nat -> o_parse_ip o_toy (o_print_ip o_toy a) = Some a) /\
  o_parse_ip o_toy [] = None /\
  (forall a, contains 44 (o_print_ip o_toy a) = false) /\
  svcb_library o_toy.
Proof.
  destruct Proofs.Svcb.oracle_hypotheses_satisfiable as (S1 & S2 & S3 & S4 & S5 & S6 & _).
  cbn [Model.Svcb.parse_ip Model.Svcb.print_ip Model.Svcb.b64_dec Model.Svcb.b64_enc Proofs.Svcb.ex_orc] in *.
  cbn [o_parse_ip o_print_ip o_b64_dec o_b64_enc o_toy].
  split; [|split; [reflexivity|split]].
  - intros a W L. destruct (Base.Text.ip_to4 a) as [b|] eqn:E.
    + destruct (Proofs.Svcb.ip_to4_16 a b L E) as [Ea Lb]. subst a.
      apply Proofs.Svcb.wf_app in W. destruct W as [_ Wb].
      assert (P : Proofs.Svcb.ex_print (Base.Text.v4_prefix ++ b) = Proofs.Svcb.ex_print b).
      { unfold Proofs.Svcb.ex_print. rewrite L, Lb, E. reflexivity. }
      rewrite P. apply S3; assumption.
    + apply S4; assumption.
  - intros a. rewrite contains_has_byte. unfold Proofs.Svcb.ex_print.
    destruct (length a =? 4)%nat; [apply Proofs.Svcb.ex_shift_clean; lia|].
    destruct (Base.Text.ip_to4 a); [apply Proofs.Svcb.ex_shift_clean; lia|].
    cbn [Base.Text.has_byte]. rewrite Proofs.Svcb.ex_shift_clean by lia. reflexivity.
  - unfold svcb_library. cbn [o_parse_ip o_print_ip o_b64_dec o_b64_enc o_toy].
    split; [exact S1|]. split; [exact S2|]. split; [exact S3|].
    split; [intros a L W T; apply (S4 a L W T)|]. split; [exact S5|exact S6].
Qed.

(* a shape left outside the guard (Model/Text.v wf_recordb (RSvcb), wild_okb o false tgt), shown to be a
   real failure of the round trip: Bx.example.com,*.*.svc.example.com,300,,1 - getdom drops one "*." from
   the target when the line is read, MarshalText prints *.svc.example.com, and reading that drops the other *)
Definition svcb_tgt_line : bytes := [66;120;46;101;120;97;109;112;108;101;46;99;111;109;44;42;46;42;46;115;118;99;46;101;120;97;109;112;108;101;46;99;111;109;44;51;48;48;44;44;49].

Lemma svcb_wild_target_not_roundtrip : exists r r',
  parse_line o_plain 7 svcb_tgt_line = Ok r /\ wf_lineb o_plain 7 svcb_tgt_line = false /\
  finding_class o_plain 7 r = false /\
  parse_line o_plain 7 (marshal o_plain r) = Ok r' /\
  convert false false r' <> convert false false r.
Proof.
  destruct (parse_line o_plain 7 svcb_tgt_line) as [r|] eqn:E; [|vm_compute in E; discriminate E].
  destruct (parse_line o_plain 7 (marshal o_plain r)) as [r'|] eqn:E'.
  - exists r, r'. vm_compute in E. inversion E; subst r. clear E.
    vm_compute in E'. inversion E'; subst r'. clear E'.
    split; [reflexivity|]. split; [vm_compute; reflexivity|]. split; [vm_compute; reflexivity|].
    split; [reflexivity|]. vm_compute. intros H. discriminate H.
  - vm_compute in E. inversion E; subst r. vm_compute in E'. discriminate E'.
Qed.
