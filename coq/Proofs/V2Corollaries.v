(* V2Corollaries (C02 -> C01, C04): the theorems proved for the label-by-label reader over the
   v1-keyed store carry over to the closest-key reader over the v2-keyed store, by rewriting with
   serve_v2_equals_v1. *)
From DnsV Require Import Base.Bytes Model.Store Model.LookupV1 Model.LookupV2 Model.Serve Spec.Answer Spec.Rows.
From DnsV Require Import Proofs.Answer Proofs.Compile Proofs.ZoneCut Proofs.Refused Proofs.NxDomain Proofs.SoaAuth Proofs.AnswerItems Proofs.Referral Proofs.Glue Proofs.Reads.
From DnsV Require Import Proofs.RevOrder Proofs.V2Store Proofs.V2Serve Proofs.CdbRdb1.
From Coq Require Import Permutation.
Open Scope N_scope.

Lemma rdb1_not_rdb2 : RDB1 <> RDB2.
Proof. discriminate. Qed.

(* the headline statement at the compiled stores *)
Theorem v2_equals_v1 : forall recs L, wf_recs recs -> length L = 2%nat -> wf_view L recs = true ->
  forall q n ecs max, wf_name n -> nlen (pack n) <= 255 -> lower_bytes (q_name q) = pack n ->
  serve RDB2 (store_v2 recs) q (LocOk L) ecs max = serve RDB1 (store_v1 recs) q (LocOk L) ecs max.
Proof.
  intros recs L W HL V q n ecs max Hn Hlen Hq.
  exact (serve_v2_equals_v1 recs L (store_v2 recs) W HL (store_v2_ok recs W) V q n ecs max Hn Hlen Hq).
Qed.

Section C01.
Variable recs : list record.
Variable L : bytes.
Hypothesis W : wf_recs recs.
Hypothesis HL : length L = 2%nat.
Hypothesis V : wf_view L recs = true.

Theorem refused_iff_outside_zones_v2 : forall q n ecs max,
  wf_name n -> nlen (pack n) <= 255 -> lower_bytes (q_name q) = pack n -> (q_edns q = None \/ q_edns q = Some 0) ->
  (zone_cut L recs n = None <-> serve RDB2 (store_v2 recs) q (LocOk L) ecs max = refused_reply q ecs).
Proof.
  intros q n ecs max Hn Hlen Hq Hv. rewrite (v2_equals_v1 recs L W HL V q n ecs max Hn Hlen Hq).
  exact (refused_iff_outside_zones_v1 RDB1 recs L W HL rdb1_not_rdb2 V q n ecs max Hn Hq Hv).
Qed.

Theorem referral_v2 : Forall wf_ns_rdata recs -> forall q n z ecs max x,
  wf_name n -> nlen (pack n) <= 255 -> lower_bytes (q_name q) = pack n ->
  (q_edns q = None \/ q_edns q = Some 0) -> q_type q <> 43 ->
  zone_cut L recs n = Some z -> authoritative L recs z = false ->
  serve RDB2 (store_v2 recs) q (LocOk L) ecs max = OReply x ->
  rs_aa x = false /\ rs_rcode x = 0 /\ rs_an x = [] /\
  rs_ns x = map (ns_item (pack z) (q_class q)) (filter is_ns (ordered_at recs L z)) /\
  Permutation (filter is_ns (ordered_at recs L z)) (of_type 2 (own_records L recs z)).
Proof.
  intros WN q n z ecs max x Hn Hlen Hq Hv Ht Hz Ha H. rewrite (v2_equals_v1 recs L W HL V q n ecs max Hn Hlen Hq) in H.
  exact (referral_v1 RDB1 recs L W WN HL rdb1_not_rdb2 V q n z ecs max x Hn Hlen Hq Hv Ht Hz Ha H).
Qed.

Theorem referral_glue_v2 : Forall wf_ns_rdata recs -> forall q n z ecs max x,
  wf_name n -> nlen (pack n) <= 255 -> lower_bytes (q_name q) = pack n ->
  (q_edns q = None \/ q_edns q = Some 0) -> q_type q <> 43 ->
  zone_cut L recs n = Some z -> authoritative L recs z = false ->
  serve RDB2 (store_v2 recs) q (LocOk L) ecs max = OReply x ->
  rs_ex x = m_ex (fold_left (glue_step recs L (q_class q)) (map r_rdata (ns_of_cut recs L z))
                            (mkMsg [] (map (ns_item (pack z) (q_class q)) (ns_of_cut recs L z)) [])).
Proof.
  intros WN q n z ecs max x Hn Hlen Hq Hv Ht Hz Ha H. rewrite (v2_equals_v1 recs L W HL V q n ecs max Hn Hlen Hq) in H.
  exact (referral_glue_v1 RDB1 recs L W WN HL rdb1_not_rdb2 V q n z ecs max x Hn Hlen Hq Hv Ht Hz Ha H).
Qed.

Theorem nxdomain_iff_nothing_v2 : forall q n z ecs max x,
  wf_name n -> nlen (pack n) <= 255 -> lower_bytes (q_name q) = pack n ->
  (q_edns q = None \/ q_edns q = Some 0) ->
  zone_cut L recs n = Some z -> authoritative L recs z = true ->
  serve RDB2 (store_v2 recs) q (LocOk L) ecs max = OReply x ->
  (rs_rcode x = 3 <-> source_records L recs z n = []).
Proof.
  intros q n z ecs max x Hn Hlen Hq Hv Hz Ha H. rewrite (v2_equals_v1 recs L W HL V q n ecs max Hn Hlen Hq) in H.
  exact (nxdomain_iff_nothing_v1 RDB1 recs L W HL rdb1_not_rdb2 V q n z ecs max x Hn Hlen Hq Hv Hz Ha H).
Qed.

Theorem empty_auth_has_soa_v2 : forall q n z ecs max x,
  wf_name n -> nlen (pack n) <= 255 -> lower_bytes (q_name q) = pack n ->
  (q_edns q = None \/ q_edns q = Some 0) ->
  zone_cut L recs n = Some z -> authoritative L recs z = true ->
  serve RDB2 (store_v2 recs) q (LocOk L) ecs max = OReply x ->
  rs_aa x = true /\
  (item_count (rs_an x) = 0 ->
   exists r, In r (of_type 6 (own_records L recs z)) /\ rs_ns x = [soa_item (pack z) r]).
Proof.
  intros q n z ecs max x Hn Hlen Hq Hv Hz Ha H. rewrite (v2_equals_v1 recs L W HL V q n ecs max Hn Hlen Hq) in H.
  exact (empty_auth_has_soa_v1 RDB1 recs L W HL rdb1_not_rdb2 V q n z ecs max x Hn Hlen Hq Hv Hz Ha H).
Qed.

Theorem answer_exactly_declared_v2 : forall q n z ecs max x,
  wf_name n -> nlen (pack n) <= 255 -> lower_bytes (q_name q) = pack n ->
  (q_edns q = None \/ q_edns q = Some 0) ->
  zone_cut L recs n = Some z -> authoritative L recs z = true ->
  serve RDB2 (store_v2 recs) q (LocOk L) ecs max = OReply x ->
  rs_an x = answer_of (q_name q) (q_type q) max (src_ordered recs L z n) /\
  Permutation (src_ordered recs L z n) (source_records L recs z n).
Proof.
  intros q n z ecs max x Hn Hlen Hq Hv Hz Ha H. rewrite (v2_equals_v1 recs L W HL V q n ecs max Hn Hlen Hq) in H.
  exact (answer_exactly_declared_v1 RDB1 recs L W HL rdb1_not_rdb2 V q n z ecs max x Hn Hlen Hq Hv Hz Ha H).
Qed.
End C01.

(* C04 for the closest-key reader: the SeekForPrev probes DO read keys of other locations, yet an
   edit that keeps the view of location L changes no outcome for a client mapped to L *)
Theorem foreign_edit_invisible_v2 : forall recs recs' L q n ecs max,
  wf_recs recs -> wf_recs recs' -> length L = 2%nat ->
  wf_view L recs = true -> wf_view L recs' = true -> same_view L recs recs' ->
  wf_name n -> nlen (pack n) <= 255 -> lower_bytes (q_name q) = pack n ->
  serve RDB2 (store_v2 recs) q (LocOk L) ecs max = serve RDB2 (store_v2 recs') q (LocOk L) ecs max.
Proof.
  intros recs recs' L q n ecs max W W' HL V V' SV Hn Hlen Hq.
  rewrite (v2_equals_v1 recs L W HL V q n ecs max Hn Hlen Hq), (v2_equals_v1 recs' L W' HL V' q n ecs max Hn Hlen Hq).
  apply foreign_edit_invisible_v1; auto.
  - discriminate.
  - apply wf_recs_locs; assumption.
  - apply wf_recs_locs; assumption.
Qed.

(* any two v2 databases holding the same records (whatever their other keys: maps, features) serve
   the same - in particular the compiler's options cannot matter to the reader *)
Theorem v2_any_store : forall recs L st st' q n ecs max,
  wf_recs recs -> length L = 2%nat -> wf_view L recs = true ->
  v2_store recs st -> v2_store recs st' ->
  wf_name n -> nlen (pack n) <= 255 -> lower_bytes (q_name q) = pack n ->
  serve RDB2 st q (LocOk L) ecs max = serve RDB2 st' q (LocOk L) ecs max.
Proof.
  intros recs L st st' q n ecs max W HL V S S' Hn Hlen Hq.
  rewrite (serve_v2_equals_v1 recs L st W HL S V q n ecs max Hn Hlen Hq).
  rewrite (serve_v2_equals_v1 recs L st' W HL S' V q n ecs max Hn Hlen Hq). reflexivity.
Qed.

(* hypotheses are satisfiable, conclusion not vacuous: the C01 example (wildcard below the apex z.),
   now served from the v2 store by the closest-key reader *)
Example v2_example :
  let recs := [mkRec [[122]] false None 6 60 0 [0; 0; 0; 0; 0; 1; 0; 0; 0; 2; 0; 0; 0; 3; 0; 0; 0; 4; 0; 0; 0; 5];
               mkRec [[122]] false None 2 60 0 [1; 110; 0];
               mkRec [[122]] true None 16 60 0 [1; 119];
               mkRec [[120]; [122]] false (Some [97; 98]) 1 60 1 [10; 0; 0; 1]] in
  let q := mkQ 1 [1; 65; 1; 98; 1; 122; 0] 16 1 None in
  let n := [[97]; [98]; [122]] in
  lower_bytes (q_name q) = pack n /\ wf_view [97; 98] recs = true /\
  serve RDB2 (store_v2 recs) q (LocOk [97; 98]) None 1 =
    OReply (mkResp 1 (Some ([1; 65; 1; 98; 1; 122; 0], 16, 1)) 0 true
              [IRR (mkRR [1; 65; 1; 98; 1; 122; 0] 16 1 60 [1; 119])] [] [] None) /\
  serve RDB1 (store_v1 recs) q (LocOk [97; 98]) None 1 = serve RDB2 (store_v2 recs) q (LocOk [97; 98]) None 1.
Proof. vm_compute. repeat split; reflexivity. Qed.

(* all three backends: CDB, RocksDB v1 keys, RocksDB v2 keys *)
Theorem three_backends : forall recs L, wf_recs recs -> Forall wf_ns_rdata recs -> length L = 2%nat -> wf_view L recs = true ->
  forall q n ecs max, wf_name n -> nlen (pack n) <= 255 -> lower_bytes (q_name q) = pack n ->
  serve RDB2 (store_v2 recs) q (LocOk L) ecs max = serve CDB (store_v1 recs) q (LocOk L) ecs max /\
  serve RDB1 (store_v1 recs) q (LocOk L) ecs max = serve CDB (store_v1 recs) q (LocOk L) ecs max.
Proof.
  intros recs L W WN HL V q n ecs max Hn Hlen Hq.
  rewrite (v2_equals_v1 recs L W HL V q n ecs max Hn Hlen Hq), (serve_cdb_equals_rdb1 recs q (LocOk L) ecs max W WN).
  split; reflexivity.
Qed.
