(* Proofs/Chain: lemmas about Model/Chain.v (C20). *)
From DnsV Require Import Base.Bytes Model.Chain.
From Coq Require Import ZifyN ZifyNat ZifyBool.
Open Scope N_scope.

(* ------------------------------------------------------------------ small facts *)

Lemma bytes_eqb_eq : forall a b, bytes_eqb a b = true <-> a = b.
Proof.
  induction a as [|x a IH]; destruct b as [|y b]; simpl; split; intro H; try congruence; try reflexivity.
  - apply andb_true_iff in H as [H1 H2]. apply N.eqb_eq in H1. apply IH in H2. congruence.
  - inversion H; subst. apply andb_true_iff; split. apply N.eqb_refl. apply IH; reflexivity.
Qed.

Lemma lower_length : forall s, length (lower s) = length s.
Proof. intro s. unfold lower. apply map_length. Qed.

Lemma lower_byte_idem : forall b, lower_byte (lower_byte b) = lower_byte b.
Proof.
  intro b. unfold lower_byte.
  destruct ((65 <=? b) && (b <=? 90)) eqn:E; [|rewrite E; reflexivity].
  destruct ((65 <=? b + 32) && (b + 32 <=? 90)) eqn:E2; [|reflexivity]. lia.
Qed.

Lemma lower_idem : forall s, lower (lower s) = lower s.
Proof. intro s. unfold lower. rewrite map_map. apply map_ext. apply lower_byte_idem. Qed.

(* the name test of whoami: the length comparison adds nothing for ASCII names *)
Lemma whoami_name_match_iff : forall dom q, whoami_name_match dom q = true <-> lower (qname q) = dom.
Proof.
  intros dom q. unfold whoami_name_match. split.
  - intro H. apply andb_true_iff in H as [_ H]. apply bytes_eqb_eq; exact H.
  - intro H. apply andb_true_iff; split.
    + rewrite <- H, lower_length. apply Nat.eqb_refl.
    + apply bytes_eqb_eq; exact H.
Qed.

Lemma whoami_matched_iff : forall cfg q,
  whoami_matched cfg q = true <-> exists d, whoami_domain cfg = Some d /\ lower (qname q) = d.
Proof.
  intros cfg q. unfold whoami_matched. destruct (whoami_domain cfg) as [d|].
  - rewrite whoami_name_match_iff. split; [intro H; exists d; auto | intros [d' [E H]]; congruence].
  - split; [discriminate | intros [d' [E _]]; discriminate].
Qed.

Lemma whoami_case_insensitive : forall cfg q1 q2,
  lower (qname q1) = lower (qname q2) -> whoami_matched cfg q1 = whoami_matched cfg q2.
Proof.
  intros cfg q1 q2 H.
  destruct (whoami_matched cfg q1) eqn:E1; destruct (whoami_matched cfg q2) eqn:E2; try reflexivity.
  - apply whoami_matched_iff in E1 as [d [Hd Hl]].
    assert (whoami_matched cfg q2 = true) by (apply whoami_matched_iff; exists d; split; congruence). congruence.
  - apply whoami_matched_iff in E2 as [d [Hd Hl]].
    assert (whoami_matched cfg q1 = true) by (apply whoami_matched_iff; exists d; split; congruence). congruence.
Qed.

(* the configured domain is stored lower-cased *)
Lemma whoami_domain_lower : forall cfg d, whoami_domain cfg = Some d -> lower d = d.
Proof.
  intros cfg d. unfold whoami_domain. destruct (whoami_flag cfg); [discriminate|].
  intro H. inversion H. apply lower_idem.
Qed.

(* the fuel given to the option filter suffices *)
Lemma opts_filter_fuel : forall f1 f2 b, (length b <= f1)%nat -> (length b <= f2)%nat ->
  opts_filter f1 b = opts_filter f2 b.
Proof.
  induction f1 as [|f1 IH]; intros f2 b H1 H2.
  - destruct b; [|simpl in H1; lia]. destruct f2; reflexivity.
  - destruct f2 as [|f2].
    + destruct b; [reflexivity | simpl in H2; lia].
    + simpl. destruct b as [|c1 [|c2 [|l1 [|l2 t]]]]; try reflexivity.
      f_equal. apply IH; simpl in H1, H2; rewrite skipn_length; lia.
Qed.

Lemma supported_options_fuel : forall b f, (length b <= f)%nat -> opts_filter f b = supported_options b.
Proof. intros b f H. unfold supported_options. apply opts_filter_fuel; lia. Qed.

(* under miekg's default accept function an accepted message has exactly one question *)
Lemma accepted_default_one_question : forall cfg r,
  accept cfg = AcceptDefault -> accepted cfg r = true -> exists q, mq r = [q].
Proof.
  intros cfg r Ha. unfold accepted, accept_action. rewrite Ha. unfold default_accept.
  destruct (hqr (mh r)); [discriminate|].
  destruct (negb _); [discriminate|].
  destruct (negb (nlen (mq r) =? 1)) eqn:E; [discriminate|]. intros _.
  apply negb_false_iff in E. apply N.eqb_eq in E. unfold nlen in E.
  destruct (mq r) as [|q [|q' t]]; simpl in E; try lia. exists q; reflexivity.
Qed.

(* ------------------------------------------------------------------ the chain *)

Section ChainFacts.
Variable ulen : msg -> N.
Variable base : msg -> N.
Variable rlen : list rr -> rr -> N.
Variable optlen : rr -> N.

Notation server' := (server ulen base rlen optlen).
Notation stage' := (max_answer_stage ulen base rlen optlen).

Lemma accepted_action : forall cfg r, accepted cfg r = true -> accept_action cfg r = Accept.
Proof. intros cfg r. unfold accepted. destruct (accept_action cfg r); congruence. Qed.

Theorem chain_transparent : forall serve cfg e r q0 rest,
  accepted cfg r = true -> mq r = q0 :: rest ->
  any_refused cfg q0 = false -> whoami_matched cfg q0 = false ->
  server' serve cfg e r = serve (max_answer cfg) e r.
Proof.
  intros serve cfg e r q0 rest Hacc Hq Hany Hwho.
  unfold server. rewrite (accepted_action _ _ Hacc). unfold serve_mux. rewrite Hq.
  unfold max_answer_stage, any_stage, whoami_stage, any_refused, whoami_matched in *.
  assert (Hw : match whoami_domain cfg with
               | Some d => whoami_handler ulen base rlen optlen d e r (serve (max_answer cfg) e r)
               | None => serve (max_answer cfg) e r end = serve (max_answer cfg) e r).
  { destruct (whoami_domain cfg) as [d|]; [|reflexivity].
    unfold whoami_handler. rewrite Hq, Hwho. reflexivity. }
  rewrite Hw.
  destruct (refuse_any cfg); [|reflexivity].
  unfold any_handler. rewrite Hq. simpl in Hany. rewrite Hany. reflexivity.
Qed.

(* the usual reading: miekg's default accept function, exactly one question *)
Corollary chain_transparent_one_question : forall serve cfg e r q0,
  accepted cfg r = true -> mq r = [q0] ->
  ~ (refuse_any cfg = true /\ qtype q0 = TypeANY) -> whoami_matched cfg q0 = false ->
  server' serve cfg e r = serve (max_answer cfg) e r.
Proof.
  intros serve cfg e r q0 Hacc Hq Hany Hwho.
  apply (chain_transparent serve cfg e r q0 []); auto.
  unfold any_refused. destruct (refuse_any cfg); [|reflexivity]. simpl.
  apply N.eqb_neq. intro H. apply Hany; auto.
Qed.

Theorem any_is_hinfo_only : forall serve cfg e r q0 rest,
  accepted cfg r = true -> mq r = q0 :: rest -> refuse_any cfg = true -> qtype q0 = TypeANY ->
  server' serve cfg e r = Reply (any_reply r q0) /\
  man (any_reply r q0) = [mkRR (qname q0) TypeHINFO ClassINET 86400 hinfo_rdata] /\
  mns (any_reply r q0) = [] /\ mex (any_reply r q0) = [] /\ mq (any_reply r q0) = [q0] /\
  hrcode (mh (any_reply r q0)) = 0 /\ hqr (mh (any_reply r q0)) = true /\
  hid (mh (any_reply r q0)) = hid (mh r) /\ haa (mh (any_reply r q0)) = false /\
  htc (mh (any_reply r q0)) = false /\
  (forall serve2, server' serve2 cfg e r = server' serve cfg e r).
Proof.
  intros serve cfg e r q0 rest Hacc Hq Href Hany.
  assert (H : forall s, server' s cfg e r = Reply (any_reply r q0)).
  { intro s. unfold server. rewrite (accepted_action _ _ Hacc). unfold serve_mux. rewrite Hq.
    unfold max_answer_stage, any_stage. rewrite Href. unfold any_handler. rewrite Hq, Hany. reflexivity. }
  split; [apply H|].
  unfold any_reply, set_reply. rewrite Hq. simpl.
  repeat split; try reflexivity.
  intro s2. rewrite !H. reflexivity.
Qed.

Definition failure_rcode (rc : N) : Prop :=
  rc = RcodeFormatError \/ rc = RcodeServerFailure \/ rc = RcodeNotImplemented.

Theorem no_question_fails_not_panics : forall serve cfg e r,
  mq r = [] ->
  server' serve cfg e r <> Panic /\
  (forall serve2, server' serve2 cfg e r = server' serve cfg e r) /\
  match server' serve cfg e r with
  | Reply m => failure_rcode (hrcode (mh m)) /\ hqr (mh m) = true /\ hid (mh m) = hid (mh r) /\
               mq m = [] /\ man m = [] /\ mns m = [] /\ mex m = []
  | NoReply => hqr (mh r) = true /\ accept cfg = AcceptDefault
  | Panic => False
  end /\
  (accept cfg = AcceptAll -> server' serve cfg e r = Reply (handle_failed r)) /\
  (accept cfg = AcceptDefault -> hqr (mh r) = false ->
   server' serve cfg e r = Reply (reject_reply r (negb ((hopcode (mh r) =? OpcodeQuery) || (hopcode (mh r) =? OpcodeNotify))))).
Proof.
  intros serve cfg e r Hq.
  assert (Hs : forall s, server' s cfg e r =
     match accept cfg with
     | AcceptAll => Reply (handle_failed r)
     | AcceptDefault =>
         if hqr (mh r) then NoReply
         else Reply (reject_reply r (negb ((hopcode (mh r) =? OpcodeQuery) || (hopcode (mh r) =? OpcodeNotify))))
     end).
  { intro s. unfold server, accept_action. destruct (accept cfg).
    - unfold default_accept. rewrite Hq. destruct (hqr (mh r)); [reflexivity|].
      destruct (negb _); reflexivity.
    - unfold serve_mux. rewrite Hq. reflexivity. }
  rewrite (Hs serve).
  split; [|split; [|split; [|split]]].
  - destruct (accept cfg); [destruct (hqr (mh r))|]; discriminate.
  - intro s2. apply Hs.
  - destruct (accept cfg) eqn:Ha.
    + destruct (hqr (mh r)) eqn:Hqr; [split; reflexivity|].
      unfold reject_reply, failure_rcode. simpl.
      destruct (negb _); repeat split; auto.
    + unfold handle_failed, with_rcode, set_reply, failure_rcode. rewrite Hq. simpl. repeat split; auto.
  - intro Ha. rewrite Ha. reflexivity.
  - intros Ha Hqr. rewrite Ha, Hqr. reflexivity.
Qed.

(* what the guard is for: without it, a message without a question that gets past the
   accept step makes the first installed front handler index an empty slice *)
Lemma handlers_without_guard_panic : forall serve cfg e r,
  mq r = [] -> (refuse_any cfg = true \/ whoami_domain cfg <> None) ->
  serve_mux_noguard ulen base rlen optlen serve cfg e r = Panic.
Proof.
  intros serve cfg e r Hq H. unfold serve_mux_noguard, max_answer_stage, any_stage, whoami_stage.
  destruct (refuse_any cfg) eqn:Href.
  - unfold any_handler. rewrite Hq. reflexivity.
  - destruct H as [H|H]; [discriminate|].
    destruct (whoami_domain cfg); [|congruence]. unfold whoami_handler. rewrite Hq. reflexivity.
Qed.

(* ------------------------------------------------------------------ truncation *)

Fixpoint sum_rlen (ctx : list rr) (rrs : list rr) : N :=
  match rrs with [] => 0 | r :: t => rlen ctx r + sum_rlen (ctx ++ [r]) t end.

Lemma sum_rlen_app : forall a b ctx, sum_rlen ctx (a ++ b) = sum_rlen ctx a + sum_rlen (ctx ++ a) b.
Proof.
  induction a as [|x a IH]; intros b ctx; simpl.
  - rewrite app_nil_r. reflexivity.
  - rewrite IH, <- app_assoc. simpl. lia.
Qed.

(* truncateLoop keeps a prefix; the running length never exceeds the budget; if it
   stops early the running length is pinned to the budget so that nothing is added later *)
Lemma trunc_loop_spec : forall rrs size l ctx i,
  l <= size ->
  exists k l', (k <= length rrs)%nat /\
    trunc_loop rlen rrs size l ctx i = (l', (i + k)%nat, ctx ++ firstn k rrs) /\
    l + sum_rlen ctx (firstn k rrs) <= size /\
    l' <= size /\
    (l' < size -> l' = l + sum_rlen ctx (firstn k rrs)).
Proof.
  induction rrs as [|r t IH]; intros size l ctx i Hl.
  - exists O, l. simpl. rewrite app_nil_r, Nat.add_0_r. repeat split; try lia.
  - simpl. destruct (size <? l + rlen ctx r) eqn:E1.
    + exists O, size. simpl. rewrite app_nil_r, Nat.add_0_r. repeat split; try lia.
    + destruct (l + rlen ctx r =? size) eqn:E2.
      * exists 1%nat, (l + rlen ctx r). simpl. rewrite Nat.add_1_r. repeat split; try lia.
      * assert (Hl' : l + rlen ctx r <= size) by lia.
        destruct (IH size (l + rlen ctx r) (ctx ++ [r]) (S i) Hl') as [k [l' [Hk [Heq [Hsum [Hle Hlt]]]]]].
        exists (S k), l'. simpl.
        split; [lia|]. split.
        { rewrite Heq. rewrite <- app_assoc. simpl.
          f_equal. f_equal. lia. }
        split; [lia|]. split; [exact Hle|].
        intro H. rewrite (Hlt H). lia.
Qed.

Lemma trunc_stage_spec : forall rrs size l ctx,
  exists k l', (k <= length rrs)%nat /\
    trunc_stage rlen rrs size l ctx = (l', k, ctx ++ firstn k rrs) /\
    (l < size -> l + sum_rlen ctx (firstn k rrs) <= size) /\
    (l <= size -> l' <= size) /\
    (size <= l -> k = O /\ l' = l) /\
    (l' < size -> l' = l + sum_rlen ctx (firstn k rrs)).
Proof.
  intros rrs size l ctx. unfold trunc_stage. destruct (l <? size) eqn:E.
  - assert (Hl : l <= size) by lia.
    destruct (trunc_loop_spec rrs size l ctx O Hl) as [k [l' [Hk [Heq [Hsum [Hle Hlt]]]]]].
    exists k, l'. split; [exact Hk|]. split; [exact Heq|]. repeat split; auto; lia.
  - exists O, l. simpl. rewrite app_nil_r. repeat split; try lia.
Qed.

Definition extra_no_opt (m : msg) : list rr := snd (pop_last_opt (mex m)).
Definition opt_list (m : msg) : list rr := match last_opt (mex m) with Some o => [o] | None => [] end.
Definition opt_len (m : msg) : N := match last_opt (mex m) with Some o => optlen o | None => 0 end.
Definition clamp (size : N) : N := if size <? MinMsgSize then MinMsgSize else size.

(* the shape of every message Truncate returns *)
Record truncated_from (size : N) (m m' : msg) : Prop := {
  tf_q : mq m' = mq m;
  tf_an : exists na, man m' = firstn na (man m);
  tf_ns : exists nn, mns m' = firstn nn (mns m);
  tf_ex : exists ne, mex m' = firstn ne (extra_no_opt m) ++ opt_list m;
  tf_hdr : mh m' = mh (with_tc m (htc (mh m'))) ;
  (* TC is set exactly when it was set before or a record was dropped *)
  tf_tc : htc (mh m') = htc (mh m)
                        || Nat.ltb (length (man m')) (length (man m))
                        || Nat.ltb (length (mns m')) (length (mns m))
                        || Nat.ltb (length (mex m')) (length (mex m));
  (* the compressed length of what is kept fits, provided header, question and OPT do *)
  tf_len : base m + opt_len m < size ->
           base m + sum_rlen [] (man m' ++ mns m' ++ firstn (length (mex m') - length (opt_list m)) (extra_no_opt m))
             + opt_len m <= size
}.

Lemma pop_last_opt_length : forall ex,
  length ex = (length (snd (pop_last_opt ex)) + match fst (pop_last_opt ex) with Some _ => 1 | None => 0 end)%nat.
Proof.
  induction ex as [|r t IH]; simpl; [reflexivity|].
  destruct (pop_last_opt t) as [[o|] t'] eqn:E; simpl in *.
  - lia.
  - destruct (is_opt r); simpl; lia.
Qed.

Lemma firstn_length_ltb : forall {A} (l : list A) n, (n <= length l)%nat ->
  Nat.ltb (length (firstn n l)) (length l) = Nat.ltb n (length l).
Proof. intros A l n H. rewrite firstn_length. rewrite Nat.min_l by exact H. reflexivity. Qed.

Theorem truncate_spec : forall size m,
  is_tsig m = false ->
  (ulen m <= clamp size -> truncate ulen base rlen optlen size m = m) /\
  (clamp size < ulen m -> truncated_from (clamp size) m (truncate ulen base rlen optlen size m)).
Proof.
  intros size m Hts. unfold truncate. rewrite Hts. fold (clamp size).
  split.
  - intro H. destruct (ulen m <=? clamp size) eqn:E; [reflexivity | lia].
  - intro H. destruct (ulen m <=? clamp size) eqn:E; [lia|]. clear E.
    pose proof (pop_last_opt_length (mex m)) as Hpl.
    unfold extra_no_opt, opt_list, opt_len, last_opt.
    destruct (pop_last_opt (mex m)) as [edns0 extra] eqn:Epop. simpl in Hpl. simpl fst. simpl snd.
    set (size' := match edns0 with Some o => clamp size - optlen o | None => clamp size end).
    destruct (trunc_stage_spec (man m) size' (base m) []) as [na [l1 [Hna [E1 [S1 [L1 [Z1 T1]]]]]]].
    rewrite E1.
    destruct (trunc_stage_spec (mns m) size' l1 ([] ++ firstn na (man m))) as [nn [l2 [Hnn [E2 [S2 [L2 [Z2 T2]]]]]]].
    rewrite E2.
    destruct (trunc_stage_spec extra size' l2 (([] ++ firstn na (man m)) ++ firstn nn (mns m)))
      as [ne [l3 [Hne [E3 [S3 [L3 [Z3 T3]]]]]]].
    rewrite E3. simpl app in *.
    assert (Hoptl : length (match edns0 with Some o => [o] | None => [] end)
                    = match edns0 with Some _ => 1%nat | None => 0%nat end) by (destruct edns0; reflexivity).
    constructor; unfold extra_no_opt, opt_list, opt_len, last_opt; rewrite ?Epop; simpl.
    + reflexivity.
    + exists na; reflexivity.
    + exists nn; reflexivity.
    + exists ne; reflexivity.
    + unfold with_tc. simpl. reflexivity.
    + rewrite !firstn_length_ltb by assumption.
      rewrite app_length, firstn_length, (Nat.min_l _ _ Hne), Hoptl, Hpl.
      f_equal. destruct edns0; destruct (Nat.ltb ne (length extra)) eqn:E4;
        [apply Nat.ltb_lt in E4 | apply Nat.ltb_ge in E4 | apply Nat.ltb_lt in E4 | apply Nat.ltb_ge in E4];
        symmetry; [apply Nat.ltb_lt | apply Nat.ltb_ge | apply Nat.ltb_lt | apply Nat.ltb_ge]; lia.
    + intro Hfit.
      rewrite app_length, firstn_length, (Nat.min_l _ _ Hne), Hoptl.
      replace (ne + match edns0 with Some _ => 1 | None => 0 end - match edns0 with Some _ => 1 | None => 0 end)%nat
        with ne by (destruct edns0; lia).
      rewrite !sum_rlen_app. simpl app.
      assert (Hb : base m < size') by (subst size'; destruct edns0; lia).
      assert (Hs' : size' + match edns0 with Some o => optlen o | None => 0 end <= clamp size)
        by (subst size'; destruct edns0; lia).
      specialize (S1 Hb).
      assert (Hl1 : l1 <= size') by (apply L1; lia).
      assert (Hl2 : l2 <= size') by (apply L2; exact Hl1).
      (* either a stage filled the budget (nothing kept afterwards) or the running length is exact *)
      destruct (N.lt_ge_cases l1 size') as [Hlt1|Hge1].
      * specialize (T1 Hlt1). specialize (S2 Hlt1).
        destruct (N.lt_ge_cases l2 size') as [Hlt2|Hge2].
        { specialize (T2 Hlt2). specialize (S3 Hlt2). lia. }
        { destruct (Z3 Hge2) as [Hne0 _]. subst ne. simpl. lia. }
      * destruct (Z2 Hge1) as [Hnn0 Hl2e]. subst nn. simpl.
        assert (Hge2 : size' <= l2) by lia.
        destruct (Z3 Hge2) as [Hne0 _]. subst ne. simpl. lia.
Qed.

(* SizeAndDo does not touch the question, answer and authority sections *)
Lemma size_and_do_sections : forall req m,
  mq (size_and_do req m) = mq m /\ man (size_and_do req m) = man m /\ mns (size_and_do req m) = mns m /\
  mh (size_and_do req m) = mh m.
Proof.
  intros req m. unfold size_and_do. destruct (last_opt (mex req)); [|auto].
  destruct (last_opt (mex m)); simpl; auto.
Qed.

Lemma req_size_min : forall e req, MinMsgSize <= req_size e req.
Proof.
  intros e req. unfold req_size, MinMsgSize, MaxMsgSize. destruct (proto e); [|lia].
  destruct (_ <? 512) eqn:E; lia.
Qed.

Lemma clamp_req_size : forall e req, clamp (req_size e req) = req_size e req.
Proof.
  intros e req. unfold clamp. pose proof (req_size_min e req).
  destruct (req_size e req <? MinMsgSize) eqn:E; [lia | reflexivity].
Qed.

(* writeAndLog: what reaches the client, relative to the message m1 the handler
   built (after SizeAndDo), for the two transports *)
Theorem udp_tc_tcp_complete : forall e req m,
  let m1 := size_and_do req m in
  let out := write_and_log ulen base rlen optlen e req m in
  is_tsig m1 = false ->
  (* TCP: the whole message *)
  (proto e = Tcp -> ulen m1 <= MaxMsgSize -> out = m1) /\
  (* UDP: the whole message if its uncompressed length fits the advertised size (at
     least 512); otherwise prefixes of the sections, TC set if anything is missing,
     and the compressed length of what is left fits *)
  (proto e = Udp ->
     let size := req_size e req in
     MinMsgSize <= size /\
     (forall o, last_opt (mex req) = Some o -> size = N.max MinMsgSize (rclass o)) /\
     (last_opt (mex req) = None -> size = MinMsgSize) /\
     ((ulen m1 <= size /\ out = m1) \/
      (size < ulen m1 /\ truncated_from size m1 out /\
       (length (man out) < length (man m1) \/ length (mns out) < length (mns m1)
        \/ length (mex out) < length (mex m1) -> htc (mh out) = true)%nat))).
Proof.
  intros e req m m1 out Hts.
  unfold out, write_and_log, scrub. fold m1.
  destruct (truncate_spec (req_size e req) m1 Hts) as [Hfit Hcut].
  rewrite clamp_req_size in Hfit, Hcut.
  split.
  - intros Hp Hlen. apply Hfit. unfold req_size. rewrite Hp. exact Hlen.
  - intro Hp. split; [apply req_size_min|]. split; [|split].
    + intros o Ho. unfold req_size. rewrite Hp, Ho. unfold MinMsgSize. destruct (rclass o <? 512) eqn:E; lia.
    + intro Ho. unfold req_size. rewrite Hp, Ho. reflexivity.
    + destruct (N.le_gt_cases (ulen m1) (req_size e req)) as [Hle|Hgt].
      * left. split; [exact Hle | apply Hfit; exact Hle].
      * right. split; [exact Hgt|]. specialize (Hcut Hgt). split; [exact Hcut|].
        intro Hd. rewrite (tf_tc _ _ _ Hcut).
        destruct Hd as [Hd|[Hd|Hd]]; apply Nat.ltb_lt in Hd; rewrite Hd;
          rewrite ?orb_true_r; reflexivity.
Qed.

(* ------------------------------------------------------------------ whoami *)

Lemma truncate_answers_prefix : forall size m, exists k, man (truncate ulen base rlen optlen size m) = firstn k (man m).
Proof.
  intros size m. destruct (is_tsig m) eqn:Hts.
  - unfold truncate. rewrite Hts. exists (length (man m)). rewrite firstn_all. reflexivity.
  - destruct (truncate_spec size m Hts) as [Hfit Hcut].
    destruct (N.le_gt_cases (ulen m) (clamp size)) as [H|H].
    + rewrite (Hfit H). exists (length (man m)). rewrite firstn_all. reflexivity.
    + destruct (tf_an _ _ _ (Hcut H)) as [na Hna]. exists na. exact Hna.
Qed.

Lemma truncate_ns_prefix : forall size m, exists k, mns (truncate ulen base rlen optlen size m) = firstn k (mns m).
Proof.
  intros size m. destruct (is_tsig m) eqn:Hts.
  - unfold truncate. rewrite Hts. exists (length (mns m)). rewrite firstn_all. reflexivity.
  - destruct (truncate_spec size m Hts) as [Hfit Hcut].
    destruct (N.le_gt_cases (ulen m) (clamp size)) as [H|H].
    + rewrite (Hfit H). exists (length (mns m)). rewrite firstn_all. reflexivity.
    + destruct (tf_ns _ _ _ (Hcut H)) as [nn Hnn]. exists nn. exact Hnn.
Qed.

Definition whoami_rr (q : question) (x : rr) : Prop :=
  rtype x = TypeTXT /\ rname x = qname q /\ rclass x = qclass q /\ rttl x = 0.

Lemma whoami_answers_shape : forall e q, Forall (whoami_rr q) (whoami_answers e q).
Proof.
  intros e q. unfold whoami_answers. destruct (qtype q =? TypeTXT); [|constructor].
  repeat (apply Forall_app; split); repeat constructor; unfold whoami_rr, whoami_txt; simpl; auto.
  - destruct (bytes_eqb _ _); repeat constructor; simpl; auto.
  - destruct (ecs_str e); repeat constructor; simpl; auto.
Qed.

Lemma Forall_firstn : forall {A} (P : A -> Prop) l n, Forall P l -> Forall P (firstn n l).
Proof.
  intros A P l. induction l as [|x l IH]; intros n H; destruct n; simpl; try constructor.
  - inversion H; assumption.
  - apply IH. inversion H; assumption.
Qed.

(* every record in the answer section of a whoami reply is one of its own TXT
   records; the authority section is empty *)
Lemma whoami_reply_records : forall e r q,
  Forall (whoami_rr q) (man (whoami_reply ulen base rlen optlen e r q)) /\
  mns (whoami_reply ulen base rlen optlen e r q) = [] /\
  (qtype q <> TypeTXT -> man (whoami_reply ulen base rlen optlen e r q) = []).
Proof.
  intros e r q. unfold whoami_reply, scrub.
  set (m0 := mkM _ _ (whoami_answers e q) [] []).
  destruct (truncate_answers_prefix (req_size e r) (size_and_do r m0)) as [k Hk].
  destruct (truncate_ns_prefix (req_size e r) (size_and_do r m0)) as [k2 Hk2].
  destruct (size_and_do_sections r m0) as [_ [Han [Hns _]]].
  rewrite Hk, Hk2, Han, Hns. simpl.
  split; [apply Forall_firstn, whoami_answers_shape|]. split; [apply firstn_nil|].
  intro Hq. unfold whoami_answers. apply N.eqb_neq in Hq. rewrite Hq. apply firstn_nil.
Qed.

Theorem whoami_scope : forall serve cfg e r q0 rest,
  accepted cfg r = true -> mq r = q0 :: rest -> any_refused cfg q0 = false ->
  (whoami_matched cfg q0 = true ->
     server' serve cfg e r = Reply (whoami_reply ulen base rlen optlen e r q0) /\
     (forall serve2, server' serve2 cfg e r = server' serve cfg e r) /\
     Forall (whoami_rr q0) (man (whoami_reply ulen base rlen optlen e r q0)) /\
     mns (whoami_reply ulen base rlen optlen e r q0) = []) /\
  (whoami_matched cfg q0 = false -> server' serve cfg e r = serve (max_answer cfg) e r) /\
  (whoami_matched cfg q0 = true <-> exists d, whoami_domain cfg = Some d /\ lower (qname q0) = d).
Proof.
  intros serve cfg e r q0 rest Hacc Hq Hany.
  split; [|split].
  - intro Hw.
    assert (H : forall s, server' s cfg e r = Reply (whoami_reply ulen base rlen optlen e r q0)).
    { intro s. unfold server. rewrite (accepted_action _ _ Hacc). unfold serve_mux. rewrite Hq.
      unfold max_answer_stage, any_stage, whoami_stage.
      unfold whoami_matched in Hw. destruct (whoami_domain cfg) as [d|]; [|discriminate].
      assert (Hh : forall x, whoami_handler ulen base rlen optlen d e r x
                             = Reply (whoami_reply ulen base rlen optlen e r q0)).
      { intro x. unfold whoami_handler. rewrite Hq, Hw. reflexivity. }
      rewrite Hh.
      unfold any_refused in Hany. destruct (refuse_any cfg); [|reflexivity].
      unfold any_handler. rewrite Hq. simpl in Hany. rewrite Hany. reflexivity. }
    split; [apply H|]. split; [intro s2; rewrite !H; reflexivity|].
    destruct (whoami_reply_records e r q0) as [Ha [Hn _]]. split; assumption.
  - intro Hw. eapply chain_transparent; eauto.
  - apply whoami_matched_iff.
Qed.

End ChainFacts.

(* ------------------------------------------------------------------ non-vacuity *)

(* a toy database handler: NOERROR with as many A records as the max answer it is given *)
Definition ex_name : bytes := [111;110;101;46;99;50;48;46;116;101;115;116;46].          (* one.c20.test. *)
Definition ex_whoami : bytes := [119;104;111;97;109;105;46;99;50;48;46;116;101;115;116;46]. (* whoami.c20.test. *)
Definition ex_serve (mx : N) (e : env) (r : msg) : outcome :=
  match mq r with
  | [] => Panic
  | q :: _ => let m := with_aa (set_reply r) true in
              Reply (mkM (mh m) (mq m) (repeat (mkRR (qname q) 1 1 300 [192; 0; 2; 1]) (N.to_nat mx)) [] [])
  end.
Definition ex_env (t : transport) : env :=
  mkEnv t [49;50;55;46;48;46;48;46;49;58;53;48;48;48;48] [49;50;55;46;48;46;48;46;50;58;56;48;53;51]
        [49;50;55;46;48;46;48;46;50] None.
Definition ex_query (n : bytes) (t : N) (ex : list rr) : msg :=
  mkM (mkH 4660 false 0 false false true false false false false 0) [mkQ n t 1] [] [] ex.
(* toy length accounting: 12 + 20 for header and question, 100 per record, 11 for OPT *)
Definition ex_ulen (m : msg) : N := 32 + 100 * nlen (man m ++ mns m ++ mex m).
Definition ex_base (_ : msg) : N := 32.
Definition ex_rlen (_ : list rr) (_ : rr) : N := 90.
Definition ex_optlen (_ : rr) : N := 11.
Definition ex_server := server ex_ulen ex_base ex_rlen ex_optlen ex_serve.
Definition ex_cfg (who : bytes) (ref : bool) (acc : accept_mode) (mx : N) : config := mkCfg who ref acc mx.
(* WhoAmI.C20.Test without the trailing dot, as typed on a command line *)
Definition ex_flag : bytes := [87;104;111;65;109;73;46;67;50;48;46;84;101;115;116].

Example chain_examples :
  (* an ordinary query on the listener with max answer 3: the database handler's three records *)
  ex_server (ex_cfg ex_flag true AcceptDefault 3) (ex_env Udp) (ex_query ex_name 1 [])
    = ex_serve 3 (ex_env Udp) (ex_query ex_name 1 []) /\
  (exists m, ex_server (ex_cfg ex_flag true AcceptDefault 3) (ex_env Udp) (ex_query ex_name 1 []) = Reply m /\
             length (man m) = 3%nat) /\
  (* ANY with refusal: the HINFO record, whatever the database handler would say *)
  (exists m, ex_server (ex_cfg ex_flag true AcceptDefault 3) (ex_env Udp) (ex_query ex_name 255 []) = Reply m /\
             man m = [mkRR ex_name 13 1 86400 hinfo_rdata] /\ haa (mh m) = false) /\
  (* ANY without refusal goes to the database *)
  ex_server (ex_cfg ex_flag false AcceptDefault 3) (ex_env Udp) (ex_query ex_name 255 [])
    = ex_serve 3 (ex_env Udp) (ex_query ex_name 255 []) /\
  (* the whoami name in another letter case, TXT: four text records, none from the database *)
  (exists m, ex_server (ex_cfg ex_flag false AcceptDefault 3) (ex_env Tcp)
               (ex_query [87;72;79;65;77;73;46;99;50;48;46;116;101;115;116;46] 16 []) = Reply m /\
             length (man m) = 4%nat /\ haa (mh m) = true) /\
  whoami_matched (ex_cfg ex_flag false AcceptDefault 3) (mkQ ex_whoami 16 1) = true /\
  whoami_matched (ex_cfg ex_flag false AcceptDefault 3) (mkQ ex_name 16 1) = false /\
  whoami_matched (ex_cfg [] false AcceptDefault 3) (mkQ ex_whoami 16 1) = false /\
  (* no question: FORMERR from the accept step; SERVFAIL from the guard when everything is accepted *)
  (exists m, ex_server (ex_cfg ex_flag true AcceptDefault 1) (ex_env Udp)
               (mkM (mkH 7 false 0 false false true false false false false 0) [] [] [] []) = Reply m /\
             hrcode (mh m) = 1) /\
  (exists m, ex_server (ex_cfg ex_flag true AcceptAll 1) (ex_env Udp)
               (mkM (mkH 7 false 0 false false true false false false false 0) [] [] [] []) = Reply m /\
             hrcode (mh m) = 2) /\
  (* and without the guard the ANY handler would index an empty slice *)
  serve_mux_noguard ex_ulen ex_base ex_rlen ex_optlen ex_serve (ex_cfg ex_flag true AcceptAll 1) (ex_env Udp)
    (mkM (mkH 7 false 0 false false true false false false false 0) [] [] [] []) = Panic.
Proof. vm_compute. repeat split; try reflexivity; eexists; repeat split; reflexivity. Qed.

Definition ex_opt (size : N) : rr := mkRR [46] 41 size 0 [].
Definition ex_answer (n : nat) (ex : list rr) : msg :=
  mkM (mkH 4660 true 0 true false true false false false false 0) [mkQ ex_name 16 1]
      (repeat (mkRR ex_name 16 1 300 [1; 97]) n) [] ex.

Example truncation_examples :
  (* ten records of 100 bytes: over UDP without EDNS five are kept (32 + 5 * 90 = 482 <= 512 < 572) and TC is set *)
  (let out := write_and_log ex_ulen ex_base ex_rlen ex_optlen (ex_env Udp) (ex_query ex_name 16 []) (ex_answer 10 []) in
   length (man out) = 5%nat /\ htc (mh out) = true) /\
  (* with a 1232 byte buffer: the OPT record is kept, 13 records do not fit *)
  (let out := write_and_log ex_ulen ex_base ex_rlen ex_optlen (ex_env Udp) (ex_query ex_name 16 [ex_opt 1232])
                (ex_answer 20 [ex_opt 4096]) in
   length (man out) = 13%nat /\ htc (mh out) = true /\ mex out = [ex_opt 1232]) /\
  (* a 4096 byte buffer: complete, TC clear *)
  (let out := write_and_log ex_ulen ex_base ex_rlen ex_optlen (ex_env Udp) (ex_query ex_name 16 [ex_opt 4096])
                (ex_answer 20 [ex_opt 4096]) in
   length (man out) = 20%nat /\ htc (mh out) = false) /\
  (* TCP: complete *)
  (let out := write_and_log ex_ulen ex_base ex_rlen ex_optlen (ex_env Tcp) (ex_query ex_name 16 []) (ex_answer 10 []) in
   out = ex_answer 10 []).
Proof. vm_compute. repeat split; reflexivity. Qed.
