(* V2Funcs (C02): what the helper routines of db/answer_sorted.go compute on reversed packed
   names - getLengthWithoutLastLabel (index is a Go byte), findCommonLongestPrefix, the wild-safe
   loop of FindAnswer's preIterationCheck, and the in-place construction of the probe key in
   sortedDataReader.find (truncate, terminate, append location; later overwrite the location). *)
From DnsV Require Import Base.Bytes Model.Store Model.LookupV1 Model.LookupV2 Spec.Answer Spec.Rows.
From DnsV Require Import Proofs.Answer Proofs.Compile Proofs.ZoneCut Proofs.NxDomain Proofs.Store Proofs.Ctx Proofs.Reverse Proofs.RevOrder.
From Coq Require Import ZifyN ZifyNat ZifyBool.
Ltac Zify.zify_post_hook ::= Z.div_mod_to_equations.
Open Scope N_scope.

Lemma nlen_body_cons : forall l a, nlen (body (l :: a)) = 1 + nlen l + nlen (body a).
Proof. intros. rewrite body_cons, nlen_app, nlen_cons. lia. Qed.
Lemma nlen_body_app : forall a b, nlen (body (a ++ b)) = nlen (body a) + nlen (body b).
Proof. intros. rewrite body_app, nlen_app. reflexivity. Qed.
Lemma nlen_nil : forall {A}, nlen (@nil A) = 0.
Proof. reflexivity. Qed.
Lemma length_le_body : forall a, name_ok a -> N.of_nat (length a) <= nlen (body a).
Proof.
  induction a as [|l a IH]; intros H; [cbn; lia|]. inversion H; subst. rewrite nlen_body_cons.
  specialize (IH H3). cbn [length]. unfold lab_ok in H2. lia.
Qed.

(* ---------------------------------------------------------------- getLengthWithoutLastLabel *)
Lemma glwll_loop_spec : forall b a fuel t last,
  name_ok b -> b <> [] -> nlen (body (a ++ b)) < 256 -> (length b < fuel)%nat ->
  glwll_loop fuel (body (a ++ b) ++ t) (nlen (body (a ++ b))) (nlen (body a)) last =
    Val (nlen (body (a ++ removelast b)) + 1).
Proof.
  induction b as [|l b IH]; intros a fuel t last Hok Hne Hlt Hf; [contradiction|].
  destruct fuel as [|fuel]; [cbn in Hf; lia|]. inversion Hok as [|? ? Hl Hb]; subst. unfold lab_ok in Hl.
  cbn [glwll_loop].
  assert (E1 : (nlen (body a) <? nlen (body (a ++ l :: b))) = true).
  { rewrite nlen_body_app, nlen_body_cons. lia. }
  rewrite E1.
  assert (E2 : idx (body (a ++ l :: b) ++ t) (nlen (body a)) = Val (nlen l)).
  { rewrite body_app, body_cons, <- !app_assoc. cbn [app]. apply idx_app. reflexivity. }
  rewrite E2. cbn [bind].
  assert (E3 : b8 (nlen (body a) + b8 (nlen l + 1)) = nlen (body (a ++ [l]))).
  { rewrite nlen_body_app, nlen_body_cons. cbn [body flat_map]. rewrite nlen_nil.
    rewrite nlen_body_app, nlen_body_cons in Hlt. unfold b8. lia. }
  rewrite E3.
  destruct b as [|l2 b].
  - (* l was the last label *)
    destruct fuel as [|fuel]; [cbn in Hf; lia|]. cbn [glwll_loop].
    assert (E4 : (nlen (body (a ++ [l])) <? nlen (body (a ++ [l]))) = false) by lia.
    rewrite E4. cbn [removelast]. rewrite app_nil_r. reflexivity.
  - replace (a ++ l :: l2 :: b) with ((a ++ [l]) ++ l2 :: b) by (rewrite <- app_assoc; reflexivity).
    rewrite (IH (a ++ [l]) fuel t (nlen (body a)) Hb); [| discriminate | rewrite <- app_assoc; exact Hlt | cbn [length] in *; lia].
    rewrite <- app_assoc. reflexivity.
Qed.

Lemma glwll_spec : forall r t, name_ok r -> r <> [] -> nlen (body r) + 1 <= 255 ->
  get_length_without_last_label (body r ++ t) (nlen (body r) + 1) = Val (nlen (body (removelast r)) + 1).
Proof.
  intros r t Hok Hne Hlen. unfold get_length_without_last_label.
  assert (E : b8 (b8 (nlen (body r) + 1) + 255) = nlen (body r)) by (unfold b8; lia).
  rewrite E. pose proof (length_le_body r Hok) as Hl.
  exact (glwll_loop_spec r [] 300%nat t 0 Hok Hne ltac:(cbn [app]; lia) ltac:(lia)).
Qed.

(* ---------------------------------------------------------------- findCommonLongestPrefix *)
Lemma idx_app_l : forall P x t, idx (P ++ x :: t) (nlen P) = Val x.
Proof. intros. apply idx_app. reflexivity. Qed.

Lemma fclp_inner_spec : forall l l' P t1 t2,
  length l = length l' ->
  fclp_inner (length l) (P ++ l ++ t1) (P ++ l' ++ t2) (nlen P) = Val (bytes_eqb l l').
Proof.
  induction l as [|x l IH]; intros l' P t1 t2 Hlen; destruct l' as [|y l']; try discriminate; [reflexivity|].
  cbn [length fclp_inner app]. rewrite !idx_app_l. cbn [bind bytes_eqb].
  destruct (x =? y) eqn:E; [|reflexivity]. apply N.eqb_eq in E. subst y. cbn [andb].
  replace (P ++ x :: l ++ t1) with ((P ++ [x]) ++ l ++ t1) by (rewrite <- app_assoc; reflexivity).
  replace (P ++ x :: l' ++ t2) with ((P ++ [x]) ++ l' ++ t2) by (rewrite <- app_assoc; reflexivity).
  replace (nlen P + 1) with (nlen (P ++ [x])) by (rewrite nlen_app; reflexivity).
  apply IH. cbn [length] in Hlen. lia.
Qed.

Lemma bytes_eqb_len : forall a b, bytes_eqb a b = true -> length a = length b.
Proof. intros a b H. apply bytes_eqb_eq in H. subst. reflexivity. Qed.

Lemma fclp_loop_neq : forall a b P fuel,
  name_ok a -> name_ok b -> a <> b -> (length a < fuel)%nat ->
  fclp_loop fuel (P ++ body a ++ [0]) (P ++ body b ++ [0]) (nlen P) = Val (nlen P + nlen (body (clp a b))).
Proof.
  induction a as [|l a IH]; intros b P fuel Ha Hb Hne Hf; (destruct fuel as [|fuel]; [cbn in Hf; lia|]).
  - destruct b as [|l' b]; [contradiction|]. inversion Hb as [|? ? Hl' _]; subst. unfold lab_ok in Hl'.
    cbn [fclp_loop clp]. change (body []) with (@nil N). rewrite body_cons. cbn [app]. rewrite <- !app_assoc.
    assert (E1 : ((nlen P <? nlen (P ++ [0])) && (nlen P <? nlen (P ++ nlen l' :: l' ++ body b ++ [0]))) = true).
    { rewrite !nlen_app, !nlen_cons. lia. }
    rewrite E1, !idx_app_l. cbn [bind].
    assert (E2 : (0 =? nlen l') = false) by lia. rewrite E2. cbn [negb]. rewrite nlen_nil. f_equal. lia.
  - inversion Ha as [|? ? Hl Ha']; subst. unfold lab_ok in Hl.
    cbn [fclp_loop]. rewrite body_cons. cbn [app]. rewrite <- !app_assoc.
    destruct b as [|l' b].
    + change (body []) with (@nil N). cbn [app clp].
      assert (E1 : ((nlen P <? nlen (P ++ nlen l :: l ++ body a ++ [0])) && (nlen P <? nlen (P ++ [0]))) = true).
      { rewrite !nlen_app, !nlen_cons. lia. }
      rewrite E1, !idx_app_l. cbn [bind].
      assert (E2 : (nlen l =? 0) = false) by lia. rewrite E2. cbn [negb]. change (body []) with (@nil N). rewrite nlen_nil. f_equal. lia.
    + inversion Hb as [|? ? Hl' Hb']; subst. unfold lab_ok in Hl'.
      rewrite body_cons. cbn [app]. rewrite <- !app_assoc.
      assert (E1 : ((nlen P <? nlen (P ++ nlen l :: l ++ body a ++ [0])) && (nlen P <? nlen (P ++ nlen l' :: l' ++ body b ++ [0]))) = true).
      { rewrite !nlen_app, !nlen_cons. lia. }
      rewrite E1, !idx_app_l. cbn [bind clp].
      destruct (nlen l =? nlen l') eqn:E2; cbn [negb].
      * apply N.eqb_eq in E2.
        assert (Hlen : length l = length l') by (unfold nlen in E2; lia).
        replace (P ++ nlen l :: l ++ body a ++ [0]) with ((P ++ [nlen l]) ++ l ++ body a ++ [0]) by (rewrite <- app_assoc; reflexivity).
        replace (P ++ nlen l' :: l' ++ body b ++ [0]) with ((P ++ [nlen l]) ++ l' ++ body b ++ [0]) by (rewrite E2, <- app_assoc; reflexivity).
        replace (nlen P + 1) with (nlen (P ++ [nlen l])) by (rewrite nlen_app; reflexivity).
        replace (N.to_nat (nlen l)) with (length l) by (unfold nlen; lia).
        rewrite (fclp_inner_spec l l' (P ++ [nlen l]) _ _ Hlen). cbn [bind].
        destruct (bytes_eqb l l') eqn:E3.
        -- apply bytes_eqb_eq in E3. subst l'.
           replace ((P ++ [nlen l]) ++ l ++ body a ++ [0]) with ((P ++ nlen l :: l) ++ body a ++ [0])
             by (rewrite <- !app_assoc; reflexivity).
           replace ((P ++ [nlen l]) ++ l ++ body b ++ [0]) with ((P ++ nlen l :: l) ++ body b ++ [0])
             by (rewrite <- !app_assoc; reflexivity).
           replace (nlen P + nlen l + 1) with (nlen (P ++ nlen l :: l)) by (rewrite nlen_app, nlen_cons; lia).
           rewrite (IH b (P ++ nlen l :: l) fuel Ha' Hb'); [| intros X; apply Hne; rewrite X; reflexivity | cbn [length] in Hf; lia].
           f_equal. rewrite nlen_app, nlen_cons, nlen_body_cons. lia.
        -- change (body []) with (@nil N). rewrite nlen_nil. f_equal. lia.
      * assert (E3 : bytes_eqb l l' = false).
        { destruct (bytes_eqb l l') eqn:X; [|reflexivity]. apply bytes_eqb_len in X. unfold nlen in E2. lia. }
        rewrite E3. change (body []) with (@nil N). rewrite nlen_nil. f_equal. lia.
Qed.

Lemma fclp_spec : forall a b, name_ok a -> name_ok b -> a <> b ->
  find_common_longest_prefix (body a ++ [0]) (body b ++ [0]) = Val (nlen (body (clp a b))).
Proof.
  intros a b Ha Hb Hne. unfold find_common_longest_prefix.
  pose proof (fclp_loop_neq a b [] (S (length (body a ++ [0]))) Ha Hb Hne) as H. cbn [app nlen length N.of_nat] in H.
  rewrite H; [f_equal; lia|]. pose proof (length_le_body a Ha). rewrite app_length. cbn [length]. unfold nlen in *. lia.
Qed.

(* ---------------------------------------------------------------- the wild-safe loop of preIterationCheck *)
Lemma pre_fa_loop_spec : forall mid x t fuel, name_ok mid -> (length mid < fuel)%nat ->
  pre_fa_loop fuel (body x ++ body mid ++ t) (nlen (body x) + 1) (nlen (body x) + nlen (body mid) + 1) =
    Val (forallb wildsafe mid).
Proof.
  induction mid as [|l mid IH]; intros x t fuel Hok Hf; (destruct fuel as [|fuel]; [cbn in Hf; lia|]); cbn [pre_fa_loop].
  - cbn [body flat_map nlen length N.of_nat].
    assert (E : (nlen (body x) + 1 <? nlen (body x) + 0 + 1) = false) by lia. rewrite E. reflexivity.
  - inversion Hok as [|? ? Hl Hm]; subst. unfold lab_ok in Hl.
    assert (E1 : (nlen (body x) + 1 <? nlen (body x) + nlen (body (l :: mid)) + 1) = true) by (rewrite nlen_body_cons; lia).
    rewrite E1. assert (E2 : (nlen (body x) + 1 =? 0) = false) by lia. rewrite E2.
    replace (nlen (body x) + 1 - 1) with (nlen (body x)) by lia.
    replace (nlen (body x) + nlen (body (l :: mid)) + 1) with (nlen (body (x ++ [l])) + nlen (body mid) + 1)
      by (rewrite nlen_body_app, !nlen_body_cons; change (body []) with (@nil N); rewrite nlen_nil; lia).
    rewrite body_cons. cbn [app]. rewrite <- !app_assoc. rewrite idx_app_l. cbn [bind].
    replace (body x ++ nlen l :: l ++ body mid ++ t) with ((body x ++ [nlen l]) ++ l ++ body mid ++ t)
      by (rewrite <- app_assoc; reflexivity).
    rewrite (slice_mid (body x ++ [nlen l]) l (body mid ++ t)); [| rewrite nlen_app; reflexivity | rewrite nlen_app; cbn [nlen length N.of_nat]; lia].
    cbn [bind forallb]. destruct (wildsafe l); cbn [negb andb]; [|reflexivity].
    replace ((body x ++ [nlen l]) ++ l ++ body mid ++ t) with (body (x ++ [l]) ++ body mid ++ t)
      by (rewrite body_app; cbn [body flat_map]; rewrite app_nil_r, <- !app_assoc; reflexivity).
    replace (nlen (body x) + 1 + nlen l + 1) with (nlen (body (x ++ [l])) + 1)
      by (rewrite nlen_body_app, nlen_body_cons; cbn [body flat_map nlen length N.of_nat]; lia).
    apply IH; [exact Hm | cbn [length] in Hf; lia].
Qed.

(* ---------------------------------------------------------------- the probe key buffer *)
(* the buffer holds marker ++ pfx, at least three more bytes, and the current slice is long enough *)
Definition buf_ok (kbuf : bytes) (klen : N) (pfx : bytes) : Prop :=
  is_prefix (marker ++ pfx) kbuf = true /\ 2 + (nlen pfx + 1) + 2 <= klen /\ klen <= nlen kbuf.

Lemma buf_ok_shorter : forall kbuf klen p u, buf_ok kbuf klen (p ++ u) -> buf_ok kbuf klen p.
Proof.
  intros kbuf klen p u (H1 & H2 & H3). split; [|split; [rewrite nlen_app in H2; lia | exact H3]].
  apply is_prefix_split in H1 as [t ->]. rewrite <- !app_assoc. rewrite app_assoc. apply is_prefix_app.
Qed.

Lemma upd_app : forall a x b v, upd (a ++ x :: b) (nlen a) v = Val (a ++ v :: b).
Proof.
  intros. unfold upd. rewrite nlen_app, nlen_cons.
  assert (E : (nlen a <? nlen a + (1 + nlen b)) = true) by lia. rewrite E.
  rewrite to_nat_nlen, firstn_app_exact.
  replace (N.to_nat (nlen a + 1)) with (length a + 1)%nat by (unfold nlen; lia).
  rewrite skipn_app. rewrite skipn_all2 by lia.
  replace (length a + 1 - length a)%nat with 1%nat by lia. reflexivity.
Qed.

Lemma copy_at_app2 : forall a x y b l, length l = 2%nat ->
  copy_at (a ++ x :: y :: b) (nlen a) l = Val (a ++ l ++ b).
Proof.
  intros a x y b l Hl. unfold copy_at. rewrite nlen_app, !nlen_cons.
  assert (E : (nlen a <=? nlen a + (1 + (1 + nlen b))) = true) by lia. rewrite E.
  assert (Hn : nlen l = 2) by (unfold nlen; lia).
  assert (Em : N.min (nlen a + (1 + (1 + nlen b)) - nlen a) (nlen l) = 2) by lia.
  rewrite Em, to_nat_nlen, firstn_app_exact.
  replace (N.to_nat 2) with (length l) by lia. rewrite firstn_all.
  replace (N.to_nat (nlen a + 2)) with (length a + 2)%nat by (unfold nlen; lia).
  rewrite skipn_app, skipn_all2 by lia.
  replace (length a + 2 - length a)%nat with 2%nat by lia. reflexivity.
Qed.

(* first probe of an iteration: terminate the name at the current length, append the location *)
Lemma key_build : forall kbuf klen pfx loc,
  buf_ok kbuf klen pfx -> length loc = 2%nat ->
  exists kb1 kb2 tl,
    upd kbuf (2 + (nlen pfx + 1) - 1) 0 = Val kb1 /\
    copy_at (firstn (N.to_nat klen) kb1) (2 + (nlen pfx + 1)) loc = Val kb2 /\
    kb2 ++ skipn (N.to_nat klen) kb1 = (marker ++ pfx ++ 0 :: loc) ++ tl /\
    nlen ((marker ++ pfx ++ 0 :: loc) ++ tl) = nlen kbuf.
Proof.
  intros kbuf klen pfx loc (H1 & H2 & H3) Hl.
  apply is_prefix_split in H1 as [t ->].
  assert (Ht : 3 <= nlen t).
  { rewrite !nlen_app in H3. change (nlen marker) with 2 in H3. lia. }
  destruct t as [|t0 [|t1 [|t2 t]]]; try (cbn in Ht; lia).
  set (A := marker ++ pfx).
  assert (HA : nlen A = 2 + nlen pfx) by (unfold A; rewrite nlen_app; reflexivity).
  replace (2 + (nlen pfx + 1) - 1) with (nlen A) by lia.
  rewrite upd_app.
  exists (A ++ 0 :: t1 :: t2 :: t).
  set (A0 := A ++ [0]).
  set (j := (N.to_nat klen - length A0 - 2)%nat).
  assert (HA0 : length A0 = (length A + 1)%nat) by (unfold A0; rewrite app_length; reflexivity).
  assert (Hk : N.to_nat klen = (length A0 + 2 + j)%nat).
  { unfold j. rewrite HA0. unfold nlen in *. lia. }
  assert (F : firstn (N.to_nat klen) (A ++ 0 :: t1 :: t2 :: t) = A0 ++ t1 :: t2 :: firstn j t).
  { replace (A ++ 0 :: t1 :: t2 :: t) with (A0 ++ t1 :: t2 :: t) by (unfold A0; rewrite <- app_assoc; reflexivity).
    rewrite firstn_app. rewrite firstn_all2 by lia. f_equal.
    replace (N.to_nat klen - length A0)%nat with (S (S j)) by lia. reflexivity. }
  assert (S : skipn (N.to_nat klen) (A ++ 0 :: t1 :: t2 :: t) = skipn j t).
  { replace (A ++ 0 :: t1 :: t2 :: t) with (A0 ++ t1 :: t2 :: t) by (unfold A0; rewrite <- app_assoc; reflexivity).
    rewrite skipn_app. rewrite skipn_all2 by lia.
    replace (N.to_nat klen - length A0)%nat with (S (S j)) by lia. reflexivity. }
  rewrite F, S.
  replace (2 + (nlen pfx + 1)) with (nlen A0) by (unfold nlen in *; lia).
  rewrite (copy_at_app2 A0 t1 t2 (firstn j t) loc Hl).
  exists (A0 ++ loc ++ firstn j t), t. split; [reflexivity|]. split; [reflexivity|]. split.
  - unfold A0, A. rewrite <- !app_assoc. cbn [app]. rewrite firstn_skipn. reflexivity.
  - unfold A. unfold nlen. repeat (rewrite ?app_length; cbn [length]). lia.
Qed.

(* the location override: the location bytes of the key just built are overwritten in place *)
Lemma key_override : forall pfx loc tl l0, length loc = 2%nat -> length l0 = 2%nat ->
  let kb2 := (marker ++ pfx ++ 0 :: loc) ++ tl in
  let klen1 := 2 + (nlen pfx + 1) + 2 in
  firstn (N.to_nat klen1) kb2 = marker ++ pfx ++ 0 :: loc /\
  copy_at (marker ++ pfx ++ 0 :: loc) (2 + (nlen pfx + 1)) l0 = Val (marker ++ pfx ++ 0 :: l0) /\
  skipn (N.to_nat klen1) kb2 = tl.
Proof.
  intros pfx loc tl l0 Hl H0. cbv zeta.
  assert (Hlen : N.to_nat (2 + (nlen pfx + 1) + 2) = length (marker ++ pfx ++ 0 :: loc)).
  { rewrite !app_length. cbn [length]. rewrite Hl. unfold nlen. cbn [marker length]. lia. }
  rewrite Hlen, firstn_app_exact, skipn_app_exact. split; [reflexivity|]. split; [|reflexivity].
  destruct loc as [|a [|b [|]]]; try discriminate.
  replace (marker ++ pfx ++ [0; a; b]) with ((marker ++ pfx ++ [0]) ++ a :: b :: []) by (rewrite <- !app_assoc; reflexivity).
  replace (2 + (nlen pfx + 1)) with (nlen (marker ++ pfx ++ [0])) by (rewrite !nlen_app; cbn [nlen marker length N.of_nat]; lia).
  rewrite (copy_at_app2 _ a b [] l0 H0). rewrite app_nil_r, <- !app_assoc. reflexivity.
Qed.
