(* Proofs/LinkCountersExample: C19 x C01 is not vacuous (vm_compute): the record set of
   Proofs/LinkWrsServeExample.v (zone z.; a.z. with weighted A records; w.z. with a weight-0 A only),
   a client located in ab whose location was NOT found through ECS (mask 0 -> DNS_location.resolver),
   no DO bit, WriteMsg succeeds. *)
From DnsV Require Import Base.Bytes Model.Store Model.LookupV1 Model.Serve.
From DnsV Require Import Spec.Answer Spec.Rows Proofs.Compile.
From DnsV Require Model.Counters Spec.Counters.
From DnsV Require Import Model.ComposeMore Proofs.LinkWrsServeExample Proofs.LinkCountersServe Proofs.LinkCountersSpec.
Open Scope N_scope.

Module MC := Model.Counters.

Definition e_sd : side := mkSide false 0 false.
Definition e_q4 : query := mkQ 4 [1; 120; 1; 122; 0] 1 1 None.          (* A x.z. : nothing declared *)
Definition e_q5 : query := mkQ 5 [1; 120; 1; 121; 0] 1 1 None.          (* A x.y. : outside every zone *)
Definition e_q6 : query := mkQ 6 [1; 97; 1; 122; 0] 1 1 (Some 1).       (* EDNS version 1 *)
Definition e_cls (q : query) (locr : locres) : MC.qclass := class_of e_sd CDB (store_v1 e_recs) q locr None 2.

Example counters_follow_example :
  (* ANY a.z.: two A records served *)
  MC.o_incs (MC.serve (e_cls e_q1 (LocOk e_L))) = [MC.KQueries; MC.KType 255; MC.KLocResolver; MC.KRespAuth] /\
  MC.o_writes (MC.serve (e_cls e_q1 (LocOk e_L))) = [MC.WrComposed 0 true 2 true] /\
  (* A w.z.: only a weight-0 address: NOERROR with an empty answer counts as NODATA, not NXDOMAIN *)
  MC.o_incs (MC.serve (e_cls e_q2 (LocOk e_L))) = [MC.KQueries; MC.KType 1; MC.KLocResolver; MC.KRespAuth; MC.KNodata] /\
  spec_response e_L e_recs [[119]; [122]] 1 =
    Answer [[122]] false [mkRec [[119]; [122]] false None 1 10 0 [10; 0; 0; 9]] [mkRec [[122]] false None 6 60 0 e_soa] /\
  declared_count 2 [mkRec [[119]; [122]] false None 1 10 0 [10; 0; 0; 9]] = 0 /\
  (* A x.z.: neither the name nor a covering wildcard has a record: NXDOMAIN *)
  MC.o_incs (MC.serve (e_cls e_q4 (LocOk e_L))) = [MC.KQueries; MC.KType 1; MC.KLocResolver; MC.KRespAuth; MC.KNxdomain] /\
  spec_response e_L e_recs [[120]; [122]] 1 = Answer [[122]] true [] [mkRec [[122]] false None 6 60 0 e_soa] /\
  (* A x.y.: REFUSED (and not authoritative) *)
  MC.o_incs (MC.serve (e_cls e_q5 (LocOk e_L))) =
    [MC.KQueries; MC.KType 1; MC.KLocResolver; MC.KRespRefused; MC.KNotAuthoritative; MC.KRefused] /\
  spec_response e_L e_recs [[120]; [121]] 1 = Refused /\
  (* EDNS version 1: BADVERS (before the location lookup) *)
  MC.o_incs (MC.serve (e_cls e_q6 (LocOk e_L))) = [MC.KQueries; MC.KType 1; MC.KNotAuthoritative; MC.KBadvers] /\
  (* no location: no reply, no outcome counter, LogFailed *)
  MC.o_incs (MC.serve (e_cls e_q1 LocNil)) = [MC.KQueries; MC.KType 255] /\
  MC.o_logs (MC.serve (e_cls e_q1 LocNil)) = [MC.LogFailedReq] /\
  MC.o_writes (MC.serve (e_cls e_q1 LocNil)) = [] /\
  serve CDB (store_v1 e_recs) e_q1 LocNil None 2 = ONoReply.
Proof. vm_compute. repeat split; reflexivity. Qed.
