(* C01 for the v1 reader over the compiled store: the additional section of EVERY reply (referral
   glue and the additional section of authoritative answers alike) and the authority section of a
   non-empty authoritative answer.
   - db.AdditionalSectionForRecords over any list of records is a fold of Glue.glue_step over the
     targets of those records (NS rdata, MX exchange, owner of HTTPS);
   - every record it adds is sound ([extra_ok]): an address pick of family A or AAAA whose owner is
     such a target, whose candidates are exactly the declared, visible, non-wildcard address records
     of the lower-cased target (Spec/AnswerExtra.addr_records), of which one is served, and whose
     (owner, type) is not yet in the message when it is added - hence at most one per family and target;
   - a non-empty authoritative answer has an empty authority section (NS is added for referrals only). *)
From DnsV Require Import Base.Bytes Model.Store Model.LookupV1 Model.LookupV2 Model.Serve Spec.Answer Spec.Rows Spec.AnswerExtra.
From DnsV Require Import Proofs.Answer Proofs.Compile Proofs.Shape Proofs.ZoneCut Proofs.Refused Proofs.NxDomain Proofs.SoaAuth Proofs.AnswerItems Proofs.Referral Proofs.Glue.
From Coq Require Import ZifyN ZifyNat ZifyBool Permutation.
Open Scope N_scope.

Definition targets_of (items : list item) : list bytes :=
  flat_map (fun it => match target_of it with Some t => [t] | None => [] end) items.

Lemma targets_of_in : forall items t, In t (targets_of items) -> exists it, In it items /\ target_of it = Some t.
Proof.
  intros items t H. unfold targets_of in H. apply in_flat_map in H as [it [H1 H2]].
  exists it. split; [exact H1|]. destruct (target_of it) as [t'|]; [|contradiction].
  destruct H2 as [->|[]]. reflexivity.
Qed.

Lemma lower_bytes_spec : forall t, lower_bytes t = map lowerb t.
Proof. reflexivity. Qed.

Lemma wrs_items_one : forall o c ty cs,
  wrs_items o c 1 ty cs = [] \/ (wrs_items o c 1 ty cs = [IPick o ty c cs 1] /\ npick 1 cs = 1).
Proof.
  intros. unfold wrs_items. destruct (npick 1 cs =? 0) eqn:E; [left; reflexivity|].
  assert (E1 : npick 1 cs = 1) by (unfold npick in *; lia). rewrite E1. right. split; reflexivity.
Qed.

Lemma filter_false_r : forall {A} (f : A -> bool) l, filter (fun x => f x && false) l = [].
Proof. induction l as [|x l IH]; cbn [filter]; [reflexivity|]. rewrite andb_false_r. exact IH. Qed.

Lemma has_record_ex_app : forall an ns ex ex' t ty,
  has_record (mkMsg an ns (ex ++ ex')) t ty = has_record (mkMsg an ns ex) t ty || existsb (item_is t ty) ex'.
Proof. intros. unfold has_record. cbn [m_an m_ns m_ex]. rewrite existsb_app, !orb_assoc. reflexivity. Qed.

Section Extra.
Variable recs : list record.
Variable L : bytes.
Hypothesis W : wf_recs recs.
Hypothesis HL : length L = 2%nat.

(* the two keys probed for a packed, lower-cased name hold exactly the visible records whose
   owner packs to that name (no assumption on the name: it comes out of an rdata) *)
Lemma probed_raw : forall r t', In r recs ->
  (bytes_eqb (key_v1 r) (L ++ t') || bytes_eqb (key_v1 r) (loc0 ++ t')) =
  (visible L r && bytes_eqb (pack (r_owner r)) t').
Proof.
  intros r t' Hin.
  pose proof W as W'. unfold wf_recs in W'. rewrite Forall_forall in W'. destruct (W' r Hin) as (_ & _ & _ & _ & Hl).
  assert (Hlb : length (loc_bytes r) = 2%nat).
  { unfold loc_bytes. destruct (r_loc r) as [l|]; [destruct Hl as (a & c & -> & _)|]; reflexivity. }
  destruct (bytes_eqb (key_v1 r) (L ++ t') || bytes_eqb (key_v1 r) (loc0 ++ t')) eqn:E.
  - symmetry. apply orb_prop in E.
    assert (V : visible L r = true).
    { apply (probed_visible recs L t' r (wf_recs_locs recs W) HL Hin).
      destruct E as [E|E]; apply bytes_eqb_eq in E; [left | right]; exact E. }
    rewrite V. cbn [andb]. apply bytes_eqb_eq.
    unfold key_v1 in E. destruct E as [E|E]; apply bytes_eqb_eq in E.
    + apply app2_inj in E as [_ E]; [exact E | exact Hlb | exact HL].
    + apply app2_inj in E as [_ E]; [exact E | exact Hlb | reflexivity].
  - symmetry. destruct (visible L r) eqn:V; [|reflexivity]. cbn [andb].
    destruct (bytes_eqb (pack (r_owner r)) t') eqn:N; [|reflexivity].
    apply bytes_eqb_eq in N. subst t'.
    apply orb_false_elim in E as [E1 E2]. unfold key_v1, visible, loc_bytes in *.
    destruct (r_loc r) as [l|].
    + apply bytes_eqb_eq in V. subst l. rewrite bytes_eqb_refl in E1. discriminate.
    + unfold loc0 in E2. rewrite bytes_eqb_refl in E2. discriminate.
Qed.

Lemma at_keys_perm : forall (k : record -> bool) t',
  Permutation (filter k (at_keys recs L t'))
              (filter (fun r => (visible L r && bytes_eqb (pack (r_owner r)) t') && k r) recs).
Proof.
  intros k t'. unfold at_keys. rewrite filter_app.
  assert (T : filter (fun r => (visible L r && bytes_eqb (pack (r_owner r)) t') && k r) recs =
              filter (fun r => (bytes_eqb (key_v1 r) (L ++ t') && k r) || (bytes_eqb (key_v1 r) (loc0 ++ t') && k r)) recs).
  { apply filter_ext_in'. intros r Hin. rewrite <- (probed_raw r t' Hin).
    destruct (bytes_eqb (key_v1 r) (L ++ t')), (bytes_eqb (key_v1 r) (loc0 ++ t')), (k r); reflexivity. }
  rewrite T. destruct (is_loc0 L) eqn:EL.
  - apply bytes_eqb_eq in EL. subst L. cbn [filter app]. rewrite <- filter_and.
    erewrite filter_ext_in'; [apply Permutation_refl|]. intros r _. cbn beta.
    destruct (bytes_eqb (key_v1 r) (loc0 ++ t') && k r); reflexivity.
  - rewrite <- !filter_and. apply perm_filter_disjoint. intros r _.
    destruct (bytes_eqb (key_v1 r) (L ++ t')) eqn:E1; [|reflexivity].
    destruct (bytes_eqb (key_v1 r) (loc0 ++ t')) eqn:E2; [|destruct (k r); reflexivity].
    exfalso. apply bytes_eqb_eq in E1. apply bytes_eqb_eq in E2. rewrite E1 in E2.
    apply app2_inj in E2 as [E2 _]; [|exact HL | reflexivity]. subst L. discriminate.
Qed.

(* the candidates offered for a target are exactly its declared address records *)
Lemma cands_perm : forall t ty,
  Permutation (filter (fun r => negb (r_wild r) && (r_type r =? ty) && true) (at_keys recs L (lower_bytes t)))
              (addr_records L recs t ty).
Proof.
  intros t ty. eapply Permutation_trans; [apply at_keys_perm|]. unfold addr_records.
  rewrite lower_bytes_spec.
  erewrite filter_ext_in'; [apply Permutation_refl|]. intros r _. cbn beta.
  destruct (visible L r), (r_wild r), (r_type r =? ty), (bytes_eqb (pack (r_owner r)) (map lowerb t)); reflexivity.
Qed.

(* ---------------------------------------------------------------- soundness of one added record *)
Definition extra_ok (qc : N) (an ns pre : list item) (i : item) : Prop :=
  exists t ty cands,
    i = IPick t ty qc cands 1 /\ (ty = 1 \/ ty = 28) /\
    (exists it, In it (an ++ ns) /\ target_of it = Some t) /\
    has_record (mkMsg an ns pre) t ty = false /\
    npick 1 cands = 1 /\
    exists rs, cands = map cand_of rs /\ Permutation rs (addr_records L recs t ty).

(* every record of the additional section was sound when it was added *)
Inductive extras_sound (qc : N) (an ns : list item) : list item -> Prop :=
| es_nil : extras_sound qc an ns []
| es_snoc : forall pre i, extras_sound qc an ns pre -> extra_ok qc an ns pre i -> extras_sound qc an ns (pre ++ [i]).

Lemma es_split : forall qc an ns ex, extras_sound qc an ns ex ->
  forall pre i post, ex = pre ++ i :: post -> extra_ok qc an ns pre i.
Proof.
  intros qc an ns ex H. induction H as [|p j Hp IH Hj]; intros pre i post E.
  - destruct pre; discriminate.
  - destruct post as [|x post'] using rev_ind.
    + apply app_inj_tail in E as [-> ->]. exact Hj.
    + clear IHpost'. rewrite app_comm_cons, app_assoc in E. apply app_inj_tail in E as [E _].
      exact (IH pre i post' E).
Qed.

Lemma add_family : forall qc an ns pre t ty want,
  (ty = 1 \/ ty = 28) -> (exists it, In it (an ++ ns) /\ target_of it = Some t) ->
  extras_sound qc an ns pre -> (want = true -> has_record (mkMsg an ns pre) t ty = false) ->
  extras_sound qc an ns
    (pre ++ wrs_items t qc 1 ty
              (map cand_of (filter (fun r => negb (r_wild r) && (r_type r =? ty) && want) (at_keys recs L (lower_bytes t))))).
Proof.
  intros qc an ns pre t ty want Hty Ht Hs Hw. destruct want.
  - destruct (wrs_items_one t qc ty
               (map cand_of (filter (fun r => negb (r_wild r) && (r_type r =? ty) && true) (at_keys recs L (lower_bytes t)))))
      as [E|[E E1]]; rewrite E; [rewrite app_nil_r; exact Hs|].
    apply es_snoc; [exact Hs|]. eexists t, ty, _. split; [reflexivity|]. split; [exact Hty|]. split; [exact Ht|].
    split; [apply Hw; reflexivity|]. split; [exact E1|].
    eexists. split; [reflexivity | apply cands_perm].
  - rewrite filter_false_r. cbn [map]. rewrite wrs_items_nil, app_nil_r. exact Hs.
Qed.

Lemma glue_step_sound : forall qc an ns ex t,
  (exists it, In it (an ++ ns) /\ target_of it = Some t) -> extras_sound qc an ns ex ->
  exists ex', glue_step recs L qc (mkMsg an ns ex) t = mkMsg an ns ex' /\ extras_sound qc an ns ex'.
Proof.
  intros qc an ns ex t Ht Hs. unfold glue_step. cbn [m_an m_ns m_ex].
  destruct (negb (has_record (mkMsg an ns ex) t 1) || negb (has_record (mkMsg an ns ex) t 28)); [|exists ex; split; [reflexivity | exact Hs]].
  eexists. split; [reflexivity|]. unfold add_apply. cbn [w4 w6 wrs_empty app].
  rewrite app_assoc. apply add_family; [left; reflexivity | exact Ht | | ].
  - apply add_family; [right; reflexivity | exact Ht | exact Hs|].
    intros X. apply negb_true_iff in X. exact X.
  - intros X. apply negb_true_iff in X. rewrite has_record_ex_app, X. cbn [orb].
    match goal with |- existsb _ (wrs_items ?o ?c 1 28 ?cs) = false => destruct (wrs_items_one o c 28 cs) as [E|[E _]]; rewrite E end;
      reflexivity.
Qed.

Lemma fold_glue_sound : forall qc an ns ts ex,
  (forall t, In t ts -> exists it, In it (an ++ ns) /\ target_of it = Some t) -> extras_sound qc an ns ex ->
  exists ex', fold_left (glue_step recs L qc) ts (mkMsg an ns ex) = mkMsg an ns ex' /\ extras_sound qc an ns ex'.
Proof.
  induction ts as [|t ts IH]; intros ex Ht Hs; cbn [fold_left]; [exists ex; split; [reflexivity | exact Hs]|].
  destruct (glue_step_sound qc an ns ex t (Ht t (or_introl eq_refl)) Hs) as [ex1 [E1 H1]]. rewrite E1.
  apply IH; [|exact H1]. intros t' Hin. apply Ht. right. exact Hin.
Qed.

(* ---------------------------------------------------------------- AdditionalSectionForRecords *)
Variable b : backend.
Let rd := reader_v1 b (store_v1 recs).

Lemma additional_targets : forall items qc m,
  additional unit rd items L qc m tt = Val (fold_left (glue_step recs L qc) (targets_of items) m, tt).
Proof.
  induction items as [|it t IH]; intros qc m; cbn [additional targets_of flat_map fold_left]; [reflexivity|].
  fold (targets_of t). destruct (target_of it) as [name|]; cbn [app fold_left]; [|apply IH].
  unfold glue_step at 2.
  destruct (negb (has_record m name 1) || negb (has_record m name 28)); [|apply IH].
  unfold rd at 1, reader_v1 at 1. cbn [rd_rr]. rewrite lookup_addresses by exact W. cbn [bind]. apply IH.
Qed.

(* the sections serve assembles once the answer is known, over the v1 reader *)
Lemma serve_sections_v1_form : forall q ecs auth zc zname rest an rcode x,
  parse_name zc = Some (zname, rest) ->
  serve_sections unit rd q ecs L auth zc an rcode tt = OReply x ->
  rs_rcode x = rcode /\ rs_aa x = auth /\ rs_an x = an /\ rs_opt x = opt_of q ecs /\
  rs_id x = q_id q /\ rs_question x = question_of q /\
  (auth && (item_count an =? 0) = false -> negb auth && negb (has_record (mkMsg an [] []) zname 2) = false -> rs_ns x = []) /\
  extras_sound (q_class q) (rs_an x) (rs_ns x) (rs_ex x).
Proof.
  intros q ecs auth zc zname rest an rcode x P H. unfold serve_sections in H. rewrite P in H.
  apply lift_reply in H as [[nsec []] [E1 H]].
  rewrite (additional_targets (m_an (mkMsg an nsec [])) (q_class q) (mkMsg an nsec [])) in H. cbn [bind m_an] in H.
  destruct (fold_glue_sound (q_class q) an nsec (targets_of an) []) as [ex1 [F1 S1]].
  { intros t Ht. destruct (targets_of_in an t Ht) as [it [I1 I2]]. exists it. split; [apply in_or_app; left; exact I1 | exact I2]. }
  { constructor. }
  rewrite F1 in H. rewrite (additional_targets (m_ns (mkMsg an nsec ex1)) (q_class q) (mkMsg an nsec ex1)) in H. cbn [m_ns] in H.
  destruct (fold_glue_sound (q_class q) an nsec (targets_of nsec) ex1) as [ex2 [F2 S2]].
  { intros t Ht. destruct (targets_of_in nsec t Ht) as [it [I1 I2]]. exists it. split; [apply in_or_app; right; exact I1 | exact I2]. }
  { exact S1. }
  rewrite F2 in H. cbn [lift] in H. inversion H; subst x. cbn [rs_rcode rs_aa rs_an rs_ns rs_ex rs_opt rs_id rs_question m_an m_ns m_ex].
  repeat split; try reflexivity; [|exact S2].
  intros C1 C2. rewrite C1, C2 in E1. inversion E1. reflexivity.
Qed.
End Extra.

(* ---------------------------------------------------------------- serve reduced to its sections *)
Section Reduce.
Variable b : backend.
Variable recs : list record.
Variable L : bytes.
Hypothesis W : wf_recs recs.
Hypothesis HL : length L = 2%nat.
Hypothesis Hb : b <> RDB2.
Hypothesis V : wf_view L recs = true.
Let rd := reader_v1 b (store_v1 recs).

Lemma serve_head : forall q n ecs max,
  lower_bytes (q_name q) = pack n -> (q_edns q = None \/ q_edns q = Some 0) ->
  serve b (store_v1 recs) q (LocOk L) ecs max =
    lift (rd_auth unit rd tt (pack n) L)
      (fun x => let '(ar, c1) := x in
         if a_err ar then servfail q
         else if negb (a_ns ar) && negb (a_auth ar) then refused_reply q ecs
         else lift (serve_ds unit rd q L (pack n) ar c1)
                (fun r => match r with
                          | Some (ar', c2) => serve_answer unit rd q ecs L max (pack n) ar' c2
                          | None => servfail q
                          end)).
Proof.
  intros q n ecs max Hq Hv. unfold rd.
  destruct b; [| |contradiction]; unfold serve, serve_with; rewrite Hq; destruct Hv as [E|E]; rewrite E; reflexivity.
Qed.

(* at or below a delegation (any type but DS) *)
Lemma serve_referral_sections : forall q n z ecs max,
  wf_name n -> lower_bytes (q_name q) = pack n -> (q_edns q = None \/ q_edns q = Some 0) -> q_type q <> 43 ->
  zone_cut L recs n = Some z -> authoritative L recs z = false ->
  serve b (store_v1 recs) q (LocOk L) ecs max = serve_sections unit rd q ecs L false (pack z) [] 0 tt.
Proof.
  intros q n z ecs max Hn Hq Hv Hds Hz Ha. rewrite (serve_head q n ecs max Hq Hv).
  unfold rd at 1, reader_v1 at 1. cbn [rd_auth]. unfold is_authoritative_v1.
  rewrite (is_auth_walk b recs L W HL n (S (length (pack n))) Hn V (Nat.lt_succ_diag_r _)), Hz, Ha.
  cbn [bind lift a_err a_ns a_auth negb andb].
  unfold serve_ds. cbn [a_auth negb andb].
  assert (E43 : (q_type q =? 43) = false) by (apply N.eqb_neq; exact Hds). rewrite E43. cbn [lift].
  unfold serve_answer. cbn [a_auth a_zc lift]. reflexivity.
Qed.

(* inside an authoritative zone *)
Definition fa_final (q : query) (n z : name) : fa_state :=
  if kind_at recs L false n then fa_apply (q_name q) (q_type q) false (ordered_at recs L n) (wrs_empty, [], false)
  else match covering_wildcard L recs z n with
       | Some a => fa_apply (q_name q) (q_type q) true (ordered_at recs L a) (wrs_empty, [], false)
       | None => (wrs_empty, [], false)
       end.

Lemma serve_auth_sections : forall q n z ecs max,
  wf_name n -> lower_bytes (q_name q) = pack n -> (q_edns q = None \/ q_edns q = Some 0) ->
  zone_cut L recs n = Some z -> authoritative L recs z = true ->
  serve b (store_v1 recs) q (LocOk L) ecs max =
    (let '(an, found) := fa_finish (q_name q) max (fa_final q n z) in
     serve_sections unit rd q ecs L true (pack z) an (if (item_count an =? 0) && negb found then 3 else 0) tt).
Proof.
  intros q n z ecs max Hn Hq Hv Hz Ha. rewrite (serve_head q n ecs max Hq Hv).
  destruct (ancestor_wf z n (proj1 (zone_cut_sound L recs n z Hz)) Hn) as [Hzw Hzl].
  unfold rd at 1, reader_v1 at 1. cbn [rd_auth]. unfold is_authoritative_v1.
  rewrite (is_auth_walk b recs L W HL n (S (length (pack n))) Hn V (Nat.lt_succ_diag_r _)), Hz, Ha.
  cbn [bind lift a_err a_ns a_auth negb andb].
  unfold serve_ds. cbn [a_auth negb andb lift].
  unfold serve_answer. cbn [a_auth a_zc].
  unfold rd at 1, reader_v1 at 1. cbn [rd_answer]. unfold find_answer_v1.
  rewrite (find_ans_state b recs L W HL n (S (length (pack n))) false z (q_name q) (q_type q) (wrs_empty, [], false)
             Hn Hzw eq_refl (Nat.lt_succ_diag_r _)).
  cbn [bind]. fold (fa_final q n z).
  destruct (fa_finish (q_name q) max (fa_final q n z)) as [an found]. cbn [bind lift]. reflexivity.
Qed.
End Reduce.

(* ---------------------------------------------------------------- the theorems *)
Section Thms.
Variable b : backend.
Variable recs : list record.
Variable L : bytes.
Hypothesis W : wf_recs recs.
Hypothesis HL : length L = 2%nat.
Hypothesis Hb : b <> RDB2.
Hypothesis V : wf_view L recs = true.

(* authoritative answers: return code 0 or 3, OPT as asked, an empty authority section unless the
   answer is empty, and a sound additional section *)
Theorem auth_answer_sections_v1 : forall q n z ecs max x,
  wf_name n -> nlen (pack n) <= 255 -> lower_bytes (q_name q) = pack n ->
  (q_edns q = None \/ q_edns q = Some 0) ->
  zone_cut L recs n = Some z -> authoritative L recs z = true ->
  serve b (store_v1 recs) q (LocOk L) ecs max = OReply x ->
  (rs_rcode x = 0 \/ rs_rcode x = 3) /\ rs_opt x = opt_of q ecs /\
  (item_count (rs_an x) <> 0 -> rs_ns x = []) /\
  extras_sound recs L (q_class q) (rs_an x) (rs_ns x) (rs_ex x).
Proof.
  intros q n z ecs max x Hn Hlen Hq Hv Hz Ha H.
  destruct (ancestor_wf z n (proj1 (zone_cut_sound L recs n z Hz)) Hn) as [Hzw Hzl].
  rewrite (serve_auth_sections b recs L W HL Hb V q n z ecs max Hn Hq Hv Hz Ha) in H.
  destruct (fa_finish (q_name q) max (fa_final recs L q n z)) as [an found].
  destruct (serve_sections_v1_form recs L W HL b q ecs true (pack z) (pack z) [] an _ x
              (parse_name_pack z Hzw ltac:(lia)) H) as (R1 & R2 & R3 & R4 & _ & _ & R7 & R8).
  split; [rewrite R1; destruct ((item_count an =? 0) && negb found); [right | left]; reflexivity|].
  split; [exact R4|]. split; [|exact R8].
  intros Hc. rewrite R3 in Hc. apply R7; [|reflexivity].
  cbn [andb]. apply N.eqb_neq. exact Hc.
Qed.

(* referrals: the glue is sound in the same sense *)
Theorem referral_sections_v1 : forall q n z ecs max x,
  wf_name n -> nlen (pack n) <= 255 -> lower_bytes (q_name q) = pack n ->
  (q_edns q = None \/ q_edns q = Some 0) -> q_type q <> 43 ->
  zone_cut L recs n = Some z -> authoritative L recs z = false ->
  serve b (store_v1 recs) q (LocOk L) ecs max = OReply x ->
  rs_opt x = opt_of q ecs /\ extras_sound recs L (q_class q) (rs_an x) (rs_ns x) (rs_ex x).
Proof.
  intros q n z ecs max x Hn Hlen Hq Hv Hds Hz Ha H.
  destruct (ancestor_wf z n (proj1 (zone_cut_sound L recs n z Hz)) Hn) as [Hzw Hzl].
  rewrite (serve_referral_sections b recs L W HL Hb V q n z ecs max Hn Hq Hv Hds Hz Ha) in H.
  destruct (serve_sections_v1_form recs L W HL b q ecs false (pack z) (pack z) [] [] 0 x
              (parse_name_pack z Hzw ltac:(lia)) H) as (_ & _ & _ & R4 & _ & _ & _ & R8).
  split; assumption.
Qed.
End Thms.

(* ---------------------------------------------------------------- one statement for every class *)
(* the answer section as a function of the records the spec selects, in reader order *)
Definition answer_items (qname : bytes) (max : N) (ord : list record) : list item :=
  map (item_of qname) (filter (fun r => negb (is_addr_rec r)) ord) ++
  wrs_items qname 1 max 1 (map cand_of (filter (fun r => r_type r =? 1) ord)) ++
  wrs_items qname 1 max 28 (map cand_of (filter (fun r => r_type r =? 28) ord)).

Lemma answer_of_items : forall qname qtype max src,
  answer_of qname qtype max src = answer_items qname max (filter (sel qtype) src).
Proof. reflexivity. Qed.

Lemma perm_filter : forall {A} (f : A -> bool) l l', Permutation l l' -> Permutation (filter f l) (filter f l').
Proof.
  intros A f l l' H. induction H; cbn [filter].
  - constructor.
  - destruct (f x); [constructor|]; assumption.
  - destruct (f x), (f y); try apply Permutation_refl. apply perm_swap.
  - eapply Permutation_trans; eauto.
Qed.

Section Whole.
Variable b : backend.
Variable recs : list record.
Variable L : bytes.
Hypothesis W : wf_recs recs.
Hypothesis WN : Forall wf_ns_rdata recs.
Hypothesis HL : length L = 2%nat.
Hypothesis Hb : b <> RDB2.
Hypothesis V : wf_view L recs = true.

Theorem response_is_spec_v1 : forall q n ecs max x,
  wf_name n -> nlen (pack n) <= 255 -> lower_bytes (q_name q) = pack n ->
  (q_edns q = None \/ q_edns q = Some 0) ->
  serve b (store_v1 recs) q (LocOk L) ecs max = OReply x ->
  rs_id x = q_id q /\ rs_question x = question_of q /\
  match spec_response L recs n (q_type q) with
  | Refused =>
      rs_rcode x = 5 /\ rs_aa x = false /\ rs_an x = [] /\ rs_ns x = [] /\ rs_ex x = [] /\ rs_opt x = opt_of q ecs
  | Referral z nsr =>
      q_type q <> 43 ->
      rs_rcode x = 0 /\ rs_aa x = false /\ rs_an x = [] /\
      (exists ord, Permutation ord nsr /\ rs_ns x = map (ns_item (pack z) (q_class q)) ord) /\
      extras_sound recs L (q_class q) (rs_an x) (rs_ns x) (rs_ex x) /\ rs_opt x = opt_of q ecs
  | Answer z nx ans soa =>
      rs_rcode x = (if nx then 3 else 0) /\ rs_aa x = true /\
      (exists ord, Permutation ord ans /\ rs_an x = answer_items (q_name q) max ord) /\
      (if item_count (rs_an x) =? 0 then exists r, In r soa /\ rs_ns x = [soa_item (pack z) r] else rs_ns x = []) /\
      extras_sound recs L (q_class q) (rs_an x) (rs_ns x) (rs_ex x) /\ rs_opt x = opt_of q ecs
  end.
Proof.
  intros q n ecs max x Hn Hlen Hq Hv H.
  destruct (serve_echoes b (store_v1 recs) q (LocOk L) ecs max x Hv H) as [Hid Hqu].
  split; [exact Hid|]. split; [exact Hqu|].
  unfold spec_response. destruct (zone_cut L recs n) as [z|] eqn:Hz.
  - destruct (authoritative L recs z) eqn:Ha; cbn [negb].
    + (* authoritative answer *)
      destruct (auth_answer_sections_v1 b recs L W HL Hb V q n z ecs max x Hn Hlen Hq Hv Hz Ha H) as (A1 & A2 & A3 & A4).
      destruct (empty_auth_has_soa_v1 b recs L W HL Hb V q n z ecs max x Hn Hlen Hq Hv Hz Ha H) as (B1 & B2).
      destruct (answer_exactly_declared_v1 b recs L W HL Hb V q n z ecs max x Hn Hlen Hq Hv Hz Ha H) as (C1 & C2).
      pose proof (nxdomain_iff_nothing_v1 b recs L W HL Hb V q n z ecs max x Hn Hlen Hq Hv Hz Ha H) as D.
      split.
      { destruct (source_records L recs z n) as [|r0 src] eqn:Es; cbn [nonempty negb].
        - apply D. reflexivity.
        - destruct A1 as [A1|A1]; [exact A1|]. apply D in A1. discriminate. }
      split; [exact B1|]. split.
      { exists (filter (sel (q_type q)) (src_ordered recs L z n)). split.
        - eapply Permutation_trans; [apply perm_filter; exact C2|].
          erewrite filter_ext_in'; [apply Permutation_refl|]. intros r _. unfold sel.
          destruct (r_type r =? 5), (r_type r =? q_type q), (q_type q =? 255); reflexivity.
        - rewrite C1. apply answer_of_items. }
      split; [|split; [exact A4 | exact A2]].
      destruct (item_count (rs_an x) =? 0) eqn:Ec.
      * apply B2. apply N.eqb_eq. exact Ec.
      * apply A3. apply N.eqb_neq. exact Ec.
    + (* referral *)
      intros Hds.
      destruct (referral_v1 b recs L W WN HL Hb V q n z ecs max x Hn Hlen Hq Hv Hds Hz Ha H) as (R1 & R2 & R3 & R4 & R5).
      destruct (referral_sections_v1 b recs L W HL Hb V q n z ecs max x Hn Hlen Hq Hv Hds Hz Ha H) as (S1 & S2).
      split; [exact R2|]. split; [exact R1|]. split; [exact R3|]. split.
      { exists (filter is_ns (ordered_at recs L z)). split; [exact R5 | exact R4]. }
      split; [exact S2 | exact S1].
  - (* outside every zone *)
    pose proof (proj1 (refused_iff_outside_zones_v1 b recs L W HL Hb V q n ecs max Hn Hq Hv) Hz) as R.
    rewrite R in H. inversion H; subst x. cbn. repeat split; reflexivity.
Qed.
End Whole.

(* the soundness clause for authoritative answers, spelled out record by record *)
Theorem auth_answer_additional_sound_v1 : forall b recs L, wf_recs recs -> length L = 2%nat -> b <> RDB2 ->
  wf_view L recs = true -> forall q n z ecs max x,
  wf_name n -> nlen (pack n) <= 255 -> lower_bytes (q_name q) = pack n ->
  (q_edns q = None \/ q_edns q = Some 0) ->
  zone_cut L recs n = Some z -> authoritative L recs z = true ->
  serve b (store_v1 recs) q (LocOk L) ecs max = OReply x ->
  (item_count (rs_an x) <> 0 -> rs_ns x = []) /\
  forall pre i post, rs_ex x = pre ++ i :: post ->
    exists t ty cands,
      i = IPick t ty (q_class q) cands 1 /\ (ty = 1 \/ ty = 28) /\
      (exists it, In it (rs_an x ++ rs_ns x) /\ target_of it = Some t) /\
      has_record (mkMsg (rs_an x) (rs_ns x) pre) t ty = false /\
      npick 1 cands = 1 /\
      exists rs, cands = map cand_of rs /\ Permutation rs (addr_records L recs t ty).
Proof.
  intros b recs L W HL Hb V q n z ecs max x Hn Hlen Hq Hv Hz Ha H.
  destruct (auth_answer_sections_v1 b recs L W HL Hb V q n z ecs max x Hn Hlen Hq Hv Hz Ha H) as (_ & _ & A3 & A4).
  split; [exact A3|]. intros pre i post E. exact (es_split recs L _ _ _ _ A4 pre i post E).
Qed.

(* what [extras_sound] says about each record of the section *)
Theorem extras_sound_meaning : forall recs L qc an ns ex, extras_sound recs L qc an ns ex ->
  forall pre i post, ex = pre ++ i :: post ->
    exists t ty cands,
      i = IPick t ty qc cands 1 /\ (ty = 1 \/ ty = 28) /\
      (exists it, In it (an ++ ns) /\ target_of it = Some t) /\
      has_record (mkMsg an ns pre) t ty = false /\
      npick 1 cands = 1 /\
      exists rs, cands = map cand_of rs /\ Permutation rs (addr_records L recs t ty).
Proof. intros recs L qc an ns ex H pre i post E. exact (es_split recs L qc an ns ex H pre i post E). Qed.
