(* Proofs/Svcb: lemmas and proofs of property C18 (Model/Svcb.v against Spec/SvcbWire.v). *)
From Coq Require Import Permutation Sorted.
From DnsV Require Import Base.Bytes Base.Text Model.Svcb Spec.SvcbWire Proofs.SvcbLib.
Require Import ZifyN ZifyNat ZifyBool.
Ltac Zify.zify_post_hook ::= Z.div_mod_to_equations.
Open Scope N_scope.

Definition alpn_enc (ids : list bytes) : bytes := flat_map (fun a => (nlen a mod 256) :: a) ids.

(* the wire parameter a declared value stands for *)
Definition enc (v : sval) : param :=
  match v with
  | VMand ks => (0, flat_map u16be (sort_by (fun k => k) ks))
  | VAlpn ids => (1, alpn_enc ids)
  | VNda => (2, [])
  | VPort p => (3, u16be p)
  | VIp4 a => (4, concat a)
  | VEch b => (5, b)
  | VIp6 a => (6, concat a)
  | VOpaque k b => (k, b)
  end.

Definition clean59 (s : bytes) : Prop := has_byte 59 s = false.

(* what FromText guarantees about the declared value of an accepted parameter *)
Definition good (v : sval) : Prop :=
  match v with
  | VMand ks => ks <> [] /\ NoDup ks /\ Forall (fun k => 1 <= k <= 6) ks
  | VAlpn ids => ids <> [] /\ Forall (fun a => 1 <= nlen a <= 255) ids
                 /\ Forall (fun a => has_byte 59 a = false /\ has_byte 124 a = false) ids
                 /\ trim_byte 34 (join 124 ids) = join 124 ids
  | VNda => True
  | VPort p => p < 65536
  | VIp4 a => a <> [] /\ Forall (fun x => length x = 4%nat /\ wf_bytes x) a
  | VEch b => wf_bytes b
  | VIp6 a => a <> [] /\ Forall (fun x => length x = 16%nat /\ wf_bytes x) a
  | VOpaque _ _ => False
  end.

Lemma key_of_enc : forall v, fst (enc v) = key_of v.
Proof. destruct v; reflexivity. Qed.

Lemma key_number_eq : forall s, key_number s = key_of_name s.
Proof. reflexivity. Qed.

Lemma key_of_name_range : forall s k, key_of_name s = Some k -> k <= 6.
Proof.
  unfold key_of_name. intros s k H.
  repeat match type of H with (if ?b then _ else _) = _ => destruct b end;
    inversion H; subst; lia.
Qed.

Lemma key_of_name_inv : forall s k, key_of_name s = Some k -> s = name_of_key k.
Proof.
  unfold key_of_name. intros s k H.
  repeat match type of H with (if bytes_eqb ?a ?b then _ else _) = _ =>
    let E := fresh "E" in
    destruct (bytes_eqb a b) eqn:E; [apply bytes_eqb_eq in E; inversion H; subst; reflexivity|] end.
  discriminate.
Qed.

Lemma key_of_name_of_key : forall k, k <= 6 -> key_of_name (name_of_key k) = Some k.
Proof.
  intros k H.
  assert (E : k = 0 \/ k = 1 \/ k = 2 \/ k = 3 \/ k = 4 \/ k = 5 \/ k = 6) by lia.
  destruct E as [E|[E|[E|[E|[E|[E|E]]]]]]; subst; reflexivity.
Qed.

(* ------------------------------------------------------------ mandatory *)
Lemma mand_loop_ok : forall vals seen w, mand_loop seen vals = Ok w ->
  exists ks, map key_of_name vals = map Some ks /\ w = flat_map u16be ks /\ NoDup ks
             /\ Forall (fun k => 1 <= k <= 6 /\ ~ In k seen) ks.
Proof.
  induction vals as [|v t IH]; simpl; intros seen w H.
  - inversion H; subst. exists []. repeat split; constructor.
  - destruct (key_of_name v) as [k|] eqn:Ek; [|discriminate].
    destruct (k =? 0) eqn:E0; [discriminate|].
    destruct (existsb (N.eqb k) seen) eqn:Es; [discriminate|].
    destruct (mand_loop (k :: seen) t) as [r|e] eqn:El; simpl in H; [|discriminate].
    inversion H; subst. destruct (IH _ _ El) as (ks & H1 & H2 & H3 & H4).
    exists (k :: ks). simpl. rewrite H1, H2. repeat split.
    + constructor; [|exact H3]. intro I. rewrite Forall_forall in H4. destruct (H4 k I) as [_ Hn].
      apply Hn. left. reflexivity.
    + constructor.
      * split; [pose proof (key_of_name_range v k Ek); lia|].
        intro I. assert (existsb (N.eqb k) seen = true); [|congruence].
        apply existsb_exists. exists k. split; [exact I|apply N.eqb_refl].
      * eapply Forall_impl; [|exact H4]. intros a [Ha Hb]. split; [exact Ha|].
        intro I. apply Hb. right. exact I.
Qed.

Lemma map_some_perm : forall {A} (l : list (option A)) (r : list A) l',
  Permutation l' l -> l' = map Some r -> exists r', l = map Some r' /\ Permutation r' r.
Proof.
  intros A l r l' P. revert r. induction P; intros r E.
  - destruct r; [|discriminate]. exists []. split; constructor.
  - destruct r as [|a r]; [discriminate|]. simpl in E. inversion E; subst.
    destruct (IHP r eq_refl) as (r' & H1 & H2). exists (a :: r'). subst. split; [reflexivity|constructor; assumption].
  - destruct r as [|a [|b r]]; try discriminate. simpl in E. inversion E; subst.
    exists (b :: a :: r). split; [reflexivity|apply perm_swap].
  - destruct (IHP1 r E) as (r1 & H1 & H2). destruct (IHP2 r1 H1) as (r2 & H3 & H4).
    exists r2. split; [assumption|eapply Permutation_trans; eassumption].
Qed.

Lemma mandatory_ok : forall input w, mandatory_marshaller input = Ok w ->
  exists ks, all_some (map key_number (split_on 124 input)) = Some ks
             /\ w = flat_map u16be (sort_by (fun k => k) ks) /\ good (VMand ks).
Proof.
  unfold mandatory_marshaller. intros input w H.
  set (toks := split_on 124 input) in *.
  destruct (mand_loop_ok _ _ _ H) as (ks & H1 & H2 & H3 & H4).
  (* every token is a known name *)
  assert (P : Permutation (map key_of_name (sort_by mand_num toks)) (map key_of_name toks))
    by (apply Permutation_map, sort_by_perm).
  destruct (map_some_perm _ ks _ P H1) as (ks0 & E0 & P0).
  exists ks0. split; [| split].
  - change (map key_number toks) with (map key_of_name toks). rewrite E0. apply all_some_map_some.
  - (* the emitted order is the sorted order of the declared keys *)
    subst w. f_equal.
    assert (Hm : forall l r, map key_of_name l = map Some r -> map mand_num l = r).
    { clear. induction l as [|x l IH]; intros [|y r] E; simpl in E |- *; try discriminate; [reflexivity|].
      injection E as E1 E2. unfold mand_num at 1. rewrite E1. f_equal. apply IH. assumption. }
    rewrite <- (Hm _ _ H1).
    rewrite (sort_by_map mand_num (fun k => k) mand_num) by reflexivity.
    rewrite (Hm _ _ E0). reflexivity.
  - simpl. split; [| split].
    + intro E. subst ks0. destruct toks eqn:Et; [eapply split_on_nonnil; eauto|discriminate].
    + eapply Permutation_NoDup; [apply Permutation_sym; exact P0|exact H3].
    + eapply Permutation_Forall; [apply Permutation_sym; exact P0|].
      eapply Forall_impl; [|exact H4]. intros a [Ha _]. exact Ha.
Qed.

(* ------------------------------------------------------------ alpn, port *)
Lemma alpn_loop_ok : forall ids w, alpn_loop ids = Ok w ->
  w = alpn_enc ids /\ Forall (fun a => 1 <= nlen a <= 255) ids.
Proof.
  induction ids as [|a t IH]; simpl; intros w H.
  - inversion H. split; [reflexivity|constructor].
  - destruct ((nlen a =? 0) || (255 <? nlen a)) eqn:E; [discriminate|].
    destruct (alpn_loop t) as [r|e] eqn:El; simpl in H; [|discriminate].
    inversion H; subst. destruct (IH r eq_refl) as [H1 H2]. subst r.
    split; [reflexivity|]. constructor; [lia|assumption].
Qed.

Lemma parse_u16_ok : forall s n m, n < 65536 -> parse_u16 n s = Ok m ->
  decimal_acc n s = Some m /\ m < 65536.
Proof.
  induction s as [|c t IH]; simpl; intros n m Hn H.
  - inversion H; subst. split; [reflexivity|assumption].
  - destruct (is_digit c); [|discriminate].
    destruct (65535 <? n * 10 + (c - 48)) eqn:E; [discriminate|].
    apply IH; [lia|assumption].
Qed.

Lemma port_ok : forall input w, port_marshaller input = Ok w ->
  exists p, decimal input = Some p /\ w = u16be p /\ p < 65536.
Proof.
  intros [|c t] w H; [simpl in H; discriminate|].
  unfold port_marshaller in H. unfold decimal.
  destruct (parse_u16 0 (c :: t)) as [n|e] eqn:E; cbn [rbind] in H; [|discriminate].
  inversion H; subst. destruct (parse_u16_ok (c :: t) 0 n ltac:(lia) E) as [H1 H2].
  exists n. split; [exact H1|split; [reflexivity|exact H2]].
Qed.

(* ------------------------------------------------------------ addresses *)
Lemma ip_to4_16 : forall a b, length a = 16%nat -> ip_to4 a = Some b ->
  a = v4_prefix ++ b /\ length b = 4%nat.
Proof.
  intros a b L H.
  do 16 (destruct a as [|? a]; [discriminate L|]). destruct a; [|discriminate L].
  unfold ip_to4 in H. cbn [length Nat.eqb firstn forallb nth skipn andb] in H.
  repeat match type of H with context [N.eqb ?u ?v] =>
    destruct (N.eqb_spec u v); cbn [andb] in H; [|discriminate H] end.
  inversion H; subst. split; reflexivity.
Qed.

Lemma wf_app : forall a b, wf_bytes (a ++ b) <-> wf_bytes a /\ wf_bytes b.
Proof. intros. unfold wf_bytes. apply Forall_app. Qed.

Lemma has_key_in : forall k l, has_key k l = true <-> In k (map fst l).
Proof.
  intros k l. unfold has_key. rewrite existsb_exists. rewrite in_map_iff. split.
  - intros (p & H1 & H2). exists p. split; [apply N.eqb_eq in H2; exact H2|exact H1].
  - intros (p & H1 & H2). exists p. split; [exact H2|apply N.eqb_eq; exact H1].
Qed.

(* ------------------------------------------------------------ the mandatory check *)
Definition mand_present (d : list sval) : Prop :=
  forall ks, In (VMand ks) d -> forall k, In k ks -> In k (map key_of d).

Lemma map_fst_enc : forall d, map fst (map enc d) = map key_of d.
Proof. intro d. rewrite map_map. apply map_ext. apply key_of_enc. Qed.

Lemma chunks_u16 : forall ks fuel, (length (flat_map u16be ks) <= fuel)%nat ->
  chunks 2 fuel (flat_map u16be ks) = Ok (map u16be ks).
Proof.
  induction ks as [|k ks IH]; intros fuel Hf; [destruct fuel; reflexivity|].
  change (flat_map u16be (k :: ks)) with ((k / 256) mod 256 :: k mod 256 :: flat_map u16be ks) in *.
  destruct fuel as [|f]; [simpl in Hf; lia|].
  cbn [chunks firstn skipn length Nat.ltb Nat.leb]. rewrite IH by (simpl in Hf; lia). reflexivity.
Qed.

Lemma find_key_enc : forall d, Forall good d ->
  find_key 0 (map enc d) =
  match find (fun v => key_of v =? 0) d with Some v => Some (snd (enc v)) | None => None end.
Proof.
  induction d as [|v d IH]; intro Hg; [reflexivity|]. inversion Hg; subst.
  unfold find_key in *. simpl. rewrite key_of_enc. destruct (key_of v =? 0); [reflexivity|].
  apply IH. assumption.
Qed.

Lemma mand_check_spec : forall d, Forall good d -> NoDup (map key_of d) ->
  (mand_check (map enc d) = Ok tt /\ mand_present d)
  \/ (mand_check (map enc d) = Err E_MISSING /\ ~ mand_present d).
Proof.
  intros d Hg Hn. unfold mand_check. rewrite find_key_enc by assumption.
  destruct (find (fun v => key_of v =? 0) d) as [v|] eqn:Ef.
  - apply find_some in Ef. destruct Ef as [Iv Kv]. apply N.eqb_eq in Kv.
    rewrite Forall_forall in Hg. pose proof (Hg v Iv) as Gv.
    destruct v; simpl in Kv; try discriminate; [|simpl in Gv; contradiction].
    simpl in Gv. destruct Gv as (G1 & G2 & G3). cbn [enc snd].
    rewrite chunks_u16 by lia. cbn [rbind].
    set (ks' := sort_by (fun k => k) ks).
    assert (P : Permutation ks' ks) by apply sort_by_perm.
    (* the mandatory parameter of the list is this one *)
    assert (U : forall ks2, In (VMand ks2) d -> ks2 = ks).
    { intros ks2 I2. clear - Iv I2 Hn. induction d as [|x d IH]; [contradiction|].
      cbn [map] in Hn. apply NoDup_cons_iff in Hn. destruct Hn as [Hx Hn].
      destruct Iv as [E|Iv]; destruct I2 as [E2|I2].
      - subst x. inversion E2. reflexivity.
      - exfalso. apply Hx. subst x. apply (in_map key_of) in I2. exact I2.
      - exfalso. apply Hx. subst x. apply (in_map key_of) in Iv. exact Iv.
      - apply IH; assumption. }
    destruct (forallb (fun c => has_key (be16 c) (map enc d)) (map u16be ks')) eqn:Ea.
    + left. split; [reflexivity|]. intros ks2 I2 k Ik. rewrite (U ks2 I2) in Ik.
      rewrite forallb_forall in Ea. specialize (Ea (u16be k)).
      rewrite be16_u16be in Ea.
      * rewrite <- map_fst_enc. apply has_key_in. apply Ea. apply in_map.
        eapply Permutation_in; [apply Permutation_sym; exact P|exact Ik].
      * rewrite Forall_forall in G3. specialize (G3 k Ik). lia.
    + right. split; [reflexivity|]. intro Mp.
      assert (forallb (fun c => has_key (be16 c) (map enc d)) (map u16be ks') = true); [|congruence].
      apply forallb_forall. intros c Ic. apply in_map_iff in Ic. destruct Ic as (k & Ec & Ik). subst c.
      assert (Ik' : In k ks) by (eapply Permutation_in; eauto).
      rewrite be16_u16be by (rewrite Forall_forall in G3; specialize (G3 k Ik'); lia).
      apply has_key_in. rewrite map_fst_enc. eapply Mp; eauto.
  - left. split; [reflexivity|]. intros ks I. exfalso.
    eapply find_none in Ef; [|exact I]. simpl in Ef. discriminate.
Qed.

Section Decl.
Variable orc : oracles.
(* net.ParseIP returns nil or a 16-byte slice; base64 decoding returns bytes *)
Hypothesis Hparse : forall s a, parse_ip orc s = Some a -> length a = 16%nat /\ wf_bytes a.
Hypothesis Hb64 : forall s x, b64_dec orc s = Some x -> wf_bytes x.

Lemma ip4_loop_ok : forall toks w, ip4_loop orc toks = Ok w ->
  exists a, all_some (map (decl_v4 (parse_ip orc)) toks) = Some a /\ w = concat a
            /\ Forall (fun x => length x = 4%nat /\ wf_bytes x) a.
Proof.
  induction toks as [|t r IH]; simpl; intros w H.
  - inversion H. exists []. repeat split; constructor.
  - unfold decl_v4 at 1. destruct (parse_ip orc t) as [a|] eqn:Ep; [|discriminate].
    destruct (ip_to4 a) as [b|] eqn:E4; [|discriminate].
    destruct (ip4_loop orc r) as [x|e] eqn:El; simpl in H; [|discriminate].
    inversion H; subst. destruct (IH x eq_refl) as (as' & H1 & H2 & H3).
    rewrite H1. exists (b :: as'). subst x. split; [reflexivity|]. split; [reflexivity|].
    destruct (Hparse _ _ Ep) as [L W]. destruct (ip_to4_16 a b L E4) as [Ea Lb].
    constructor; [|assumption]. split; [assumption|]. subst a. apply wf_app in W. tauto.
Qed.

Lemma ip6_loop_ok : forall toks w, ip6_loop orc toks = Ok w ->
  exists a, all_some (map (parse_ip orc) toks) = Some a /\ w = concat a
            /\ Forall (fun x => length x = 16%nat /\ wf_bytes x) a.
Proof.
  induction toks as [|t r IH]; simpl; intros w H.
  - inversion H. exists []. repeat split; constructor.
  - destruct (has_byte 58 t); simpl in H; [|discriminate].
    destruct (parse_ip orc t) as [a|] eqn:Ep; [|discriminate].
    destruct (ip6_loop orc r) as [x|e] eqn:El; simpl in H; [|discriminate].
    inversion H; subst. destruct (IH x eq_refl) as (as' & H1 & H2 & H3).
    rewrite H1. exists (a :: as'). subst x. split; [reflexivity|]. split; [reflexivity|].
    constructor; [apply (Hparse _ _ Ep)|assumption].
Qed.

Lemma toks_nonnil : forall {A} (f : bytes -> option A) c s a,
  all_some (map f (split_on c s)) = Some a -> a <> [].
Proof.
  intros A f c s a H E. subst a. destruct (split_on c s) as [|p q] eqn:Es; [eapply split_on_nonnil; eauto|].
  simpl in H. destruct (f p); [|discriminate]. destruct (all_some (map f q)); discriminate.
Qed.

(* ------------------------------------------------------------ one parameter *)
Lemma marshal_decl : forall k input w, has_byte 59 input = false -> trim_byte 34 input = input ->
  marshal orc k input = Ok w ->
  exists v, decl_value (parse_ip orc) (b64_dec orc) k input = Some v /\ (k, w) = enc v /\ good v.
Proof.
  intros k input w Hc Ht H. unfold marshal in H.
  assert (Hk : k = 0 \/ k = 1 \/ k = 2 \/ k = 3 \/ k = 4 \/ k = 5 \/ k = 6 \/ 6 < k) by lia.
  destruct Hk as [E|[E|[E|[E|[E|[E|[E|E]]]]]]]; subst.
  - destruct (mandatory_ok _ _ H) as (ks & H1 & H2 & H3).
    exists (VMand ks). unfold decl_value. rewrite H1. subst w. repeat split; apply H3.
  - unfold alpn_marshaller in H. destruct (alpn_loop_ok _ _ H) as [H1 H2].
    exists (VAlpn (split_on 124 input)). subst w. split; [reflexivity|]. split; [reflexivity|].
    simpl. split; [apply split_on_nonnil|]. split; [exact H2|]. split.
    + pose proof (split_pieces_without 59 124 input Hc) as P1.
      pose proof (split_pieces_clean 124 input) as P2.
      rewrite Forall_forall in *. intros a Ha. split; [apply P1|apply P2]; assumption.
    + rewrite join_split. exact Ht.
  - unfold nodefaultalpn_marshaller in H. destruct input; [|discriminate]. inversion H; subst.
    exists VNda. repeat split.
  - destruct (port_ok _ _ H) as (p & H1 & H2 & H3). exists (VPort p). unfold decl_value. rewrite H1.
    subst w. repeat split. exact H3.
  - unfold ipv4hint_marshaller in H. destruct (ip4_loop_ok _ _ H) as (a & H1 & H2 & H3).
    exists (VIp4 a). unfold decl_value. rewrite H1. subst w. repeat split; [|assumption].
    eapply toks_nonnil; eauto.
  - unfold ech_marshaller in H. destruct (b64_dec orc input) as [x|] eqn:E; [|discriminate].
    inversion H; subst. exists (VEch w). unfold decl_value. rewrite E. repeat split. simpl. eapply Hb64; eauto.
  - unfold ipv6hint_marshaller in H. destruct (ip6_loop_ok _ _ H) as (a & H1 & H2 & H3).
    exists (VIp6 a). unfold decl_value. rewrite H1. subst w. repeat split; [|assumption].
    eapply toks_nonnil; eauto.
  - exfalso. destruct k as [|p]; [lia|]. do 3 (destruct p as [p|p|]; try lia; try discriminate H).
Qed.

Lemma param_decl : forall s p, has_byte 59 s = false -> param_from_text orc s = Ok p ->
  exists v, decl_param (parse_ip orc) (b64_dec orc) s = Some v /\ p = enc v /\ good v
            /\ nlen (snd p) <= 65535.
Proof.
  intros s p Hc H. unfold param_from_text in H. unfold decl_param.
  destruct (cut_at 61 s) as [[k v]|] eqn:Ec; [|discriminate].
  rewrite key_number_eq. destruct (key_of_name k) as [kn|] eqn:Ek; [|discriminate].
  destruct (negb (kn =? 2) && match v with [] => true | _ :: _ => false end); [discriminate|].
  destruct (marshal orc kn (trim_byte 34 v)) as [d|e] eqn:Em; cbn [rbind] in H; [|discriminate].
  destruct (65535 <? nlen d) eqn:El; [discriminate|]. inversion H; subst p.
  destruct (cut_at_some _ _ _ _ Ec) as [Es _]. subst s. rewrite has_byte_app in Hc.
  apply orb_false_iff in Hc. destruct Hc as [_ Hc]. simpl in Hc.
  destruct (marshal_decl kn (trim_byte 34 v) d) as (w & H1 & H2 & H3);
    [apply trim_byte_without; exact Hc|apply trim_byte_idem|exact Em|].
  exists w. split; [exact H1|]. split; [exact H2|]. split; [exact H3|]. simpl. lia.
Qed.

Lemma ft_loop_ok : forall segs acc l, Forall (fun s => has_byte 59 s = false) segs ->
  ft_loop orc segs acc = Ok l ->
  exists d, all_some (map (decl_param (parse_ip orc) (b64_dec orc)) (list_segments segs)) = Some d
            /\ l = acc ++ map enc d /\ Forall good d
            /\ Forall (fun p => nlen (snd p) <= 65535) (map enc d)
            /\ (NoDup (map fst acc) -> NoDup (map fst l)).
Proof.
  induction segs as [|s r IH]; intros acc l Hc H.
  - simpl in H. inversion H; subst. exists []. rewrite app_nil_r. repeat split; try constructor. tauto.
  - pose proof (Forall_inv Hc) as Hc1. pose proof (Forall_inv_tail Hc) as Hc2. destruct s as [|c0 s0].
    + simpl in H. inversion H; subst. exists []. rewrite app_nil_r. repeat split; try constructor. tauto.
    + set (s := c0 :: s0) in *.
      change (list_segments (s :: r)) with (s :: list_segments r).
      change (ft_loop orc (s :: r) acc) with
        (match param_from_text orc s with
         | Err e => Err e
         | Ok p => if has_key (fst p) acc then Err E_DUPKEY else ft_loop orc r (acc ++ [p])
         end) in H.
      destruct (param_from_text orc s) as [p|e] eqn:Ep; [|discriminate].
      destruct (has_key (fst p) acc) eqn:Ek; [discriminate|].
      destruct (param_decl s p Hc1 Ep) as (v & D1 & D2 & D3 & D4).
      destruct (IH _ _ Hc2 H) as (d & I1 & I2 & I3 & I4 & I5).
      exists (v :: d). simpl. rewrite D1, I1. split; [reflexivity|]. split.
      { subst l p. rewrite <- app_assoc. reflexivity. }
      split; [constructor; assumption|]. split; [constructor; [subst p; exact D4|exact I4]|].
      intro Hn. apply I5. rewrite map_app. simpl.
      eapply Permutation_NoDup; [apply (Permutation_app_comm [fst p])|]. simpl. constructor; [|exact Hn].
      intro I. apply has_key_in in I. congruence.
Qed.

(* ------------------------------------------------------------ FromText against the declared values *)
Theorem from_text_declared : forall t l, from_text orc t = Ok l ->
  exists d, declared_raw (parse_ip orc) (b64_dec orc) t = Some d
            /\ l = sort_by (@fst N bytes) (map enc d)
            /\ Forall good d /\ NoDup (map key_of d) /\ mand_present d
            /\ Forall (fun p => nlen (snd p) <= 65535) (map enc d).
Proof.
  intros t l H. unfold from_text in H.
  destruct (ft_loop orc (split_on 59 t) []) as [l0|e] eqn:El; cbn [rbind] in H; [|discriminate].
  destruct (ft_loop_ok _ _ _ (split_pieces_clean 59 t) El) as (d & D1 & D2 & D3 & D4 & D5).
  simpl in D2. subst l0.
  assert (Hn : NoDup (map key_of d)) by (rewrite <- map_fst_enc; apply D5; constructor).
  destruct (mand_check_spec d D3 Hn) as [[M1 M2]|[M1 M2]]; rewrite M1 in H; cbn [rbind] in H; [|discriminate].
  inversion H; subst l. exists d. unfold declared_raw. repeat split; assumption.
Qed.

(* ------------------------------------------------------------ C18_sorted_unique *)
Theorem sorted_unique : forall t l, from_text orc t = Ok l -> StronglySorted N.lt (map fst l).
Proof.
  intros t l H. destruct (from_text_declared t l H) as (d & _ & E & _ & Hn & _). subst l.
  apply sorted_nodup_strict.
  - apply sorted_map_le. apply sort_by_sorted.
  - eapply Permutation_NoDup; [apply Permutation_sym, Permutation_map, sort_by_perm|].
    rewrite map_fst_enc. exact Hn.
Qed.

(* ------------------------------------------------------------ C18_mandatory_rejects *)
Theorem mandatory_rejects : forall t d,
  declared_raw (parse_ip orc) (b64_dec orc) t = Some d ->
  mand_names_missing d \/ mand_repeats d \/ mand_names_self d \/ ~ NoDup (map key_of d) ->
  exists e, from_text orc t = Err e.
Proof.
  intros t d Hd Hbad. destruct (from_text orc t) as [l|e] eqn:E; [|exists e; reflexivity].
  exfalso. destruct (from_text_declared t l E) as (d' & D1 & _ & G & Hn & Mp & _).
  rewrite Hd in D1. inversion D1; subst d'. rewrite Forall_forall in G.
  destruct Hbad as [(ks & k & I1 & I2 & I3)|[(ks & I1 & I2)|[(ks & I1 & I2)|Hd2]]].
  - apply I3. eapply Mp; eauto.
  - apply I2. apply (G _ I1).
  - destruct (G _ I1) as (_ & _ & F). rewrite Forall_forall in F. specialize (F 0 I2). lia.
  - contradiction.
Qed.

End Decl.

(* ------------------------------------------------------------ the decoder on encoded values *)
Lemma dec_u16s_enc : forall ks, Forall (fun k => k < 65536) ks -> dec_u16s (flat_map u16be ks) = Some ks.
Proof.
  induction ks as [|k ks IH]; intro H; [reflexivity|]. inversion H; subst.
  change (flat_map u16be (k :: ks)) with ((k / 256) mod 256 :: k mod 256 :: flat_map u16be ks).
  cbn [dec_u16s]. rewrite IH by assumption. f_equal. f_equal. lia.
Qed.

Lemma dec_alpn_enc : forall ids fuel, Forall (fun a => 1 <= nlen a <= 255) ids ->
  (length (alpn_enc ids) <= fuel)%nat ->
  dec_alpn fuel (alpn_enc ids) = Some ids.
Proof.
  induction ids as [|a ids IH]; intros fuel H Hf; [destruct fuel; reflexivity|].
  inversion H; subst.
  change (alpn_enc (a :: ids)) with ((nlen a mod 256) :: (a ++ alpn_enc ids)) in *.
  destruct fuel as [|f]; [simpl in Hf; lia|].
  assert (En : nlen a mod 256 = nlen a) by lia. rewrite En in *.
  cbn [dec_alpn]. rewrite to_nat_nlen, firstn_app_exact, skipn_app_exact.
  assert (E1 : (nlen a =? 0) = false) by lia. assert (E2 : (nlen a <? nlen a) = false) by lia.
  rewrite E1, E2. cbn [orb]. rewrite IH; [reflexivity|assumption|].
  simpl in Hf. rewrite app_length in Hf. lia.
Qed.

Lemma dec_chunks_enc : forall n a fuel, (0 < n)%nat -> Forall (fun x => length x = n) a ->
  (length (concat a) <= fuel)%nat -> dec_chunks n fuel (concat a) = Some a.
Proof.
  intros n. induction a as [|x a IH]; intros fuel Hn H Hf; [destruct fuel; reflexivity|].
  inversion H; subst. cbn [concat] in *.
  destruct x as [|x0 x']; [simpl in Hn; lia|].
  destruct fuel as [|f]; [simpl in Hf; lia|].
  change ((x0 :: x') ++ concat a) with (x0 :: (x' ++ concat a)) in *.
  cbn [dec_chunks]. change (x0 :: x' ++ concat a) with ((x0 :: x') ++ concat a).
  rewrite firstn_app_exact, skipn_app_exact.
  assert (E : (length (x0 :: x') <? length (x0 :: x'))%nat = false) by (apply Nat.ltb_irrefl).
  rewrite E. rewrite IH; [reflexivity|assumption|assumption|].
  simpl in Hf. rewrite app_length in Hf. lia.
Qed.

Lemma good_key_le : forall v, good v -> key_of v <= 6.
Proof. destruct v; simpl; intros; lia. Qed.

Lemma dec_value_enc : forall v, good v -> dec_value (key_of v) (snd (enc v)) = Some (canon_val v).
Proof.
  destruct v; simpl; intro G.
  - destruct G as (G1 & G2 & G3).
    set (ks' := sort_by (fun k => k) ks).
    assert (P : Permutation ks' ks) by apply sort_by_perm.
    rewrite dec_u16s_enc.
    + destruct ks' as [|k0 r] eqn:E; [|reflexivity].
      apply Permutation_nil in P. contradiction.
    + eapply Permutation_Forall; [apply Permutation_sym; exact P|].
      eapply Forall_impl; [|exact G3]. intros; simpl in *; lia.
  - destruct G as (G1 & G2 & _). rewrite dec_alpn_enc by (assumption || lia).
    destruct ids; [contradiction|reflexivity].
  - reflexivity.
  - unfold u16be. f_equal. f_equal. lia.
  - destruct G as (G1 & G2). rewrite (dec_chunks_enc 4) by
      first [lia | eapply Forall_impl; [|exact G2]; intros x Hx; apply Hx].
    destruct a; [contradiction|reflexivity].
  - reflexivity.
  - destruct G as (G1 & G2). rewrite (dec_chunks_enc 16) by
      first [lia | eapply Forall_impl; [|exact G2]; intros x Hx; apply Hx].
    destruct a; [contradiction|reflexivity].
  - contradiction.
Qed.

Lemma to_wire_cons : forall p l, to_wire (p :: l) = param_to_wire p ++ to_wire l.
Proof. reflexivity. Qed.

Lemma dec_params_enc : forall d fuel prev,
  Forall good d -> StronglySorted N.lt (map key_of d) -> Forall (fun v => prev <= key_of v) d ->
  Forall (fun p => nlen (snd p) <= 65535) (map enc d) ->
  (length (to_wire (map enc d)) <= fuel)%nat ->
  dec_params fuel prev (to_wire (map enc d)) = Some (map canon_val d).
Proof.
  induction d as [|v d IH]; intros fuel prev G S Pv L Hf; [destruct fuel; reflexivity|].
  pose proof (Forall_inv G) as Gv. pose proof (Forall_inv_tail G) as Gd.
  pose proof (Forall_inv Pv) as Pv1. pose proof (Forall_inv_tail Pv) as Pv2.
  cbn [map] in *. pose proof (Forall_inv L) as Lv. pose proof (Forall_inv_tail L) as Ld.
  cbv beta in Lv, Pv1. apply StronglySorted_inv in S. destruct S as [S1 S2].
  rewrite to_wire_cons in *. unfold param_to_wire in *. rewrite key_of_enc in *.
  set (val := snd (enc v)) in *. set (k := key_of v) in *.
  assert (Hk : k <= 6) by (apply good_key_le; assumption).
  change (nlen val <= 65535) in Lv.
  change ((u16be k ++ u16be (nlen val) ++ val) ++ to_wire (map enc d))
    with ((k / 256) mod 256 :: k mod 256 :: (nlen val / 256) mod 256 :: nlen val mod 256
          :: (val ++ to_wire (map enc d))) in *.
  destruct fuel as [|f]; [simpl in Hf; lia|].
  cbn [dec_params].
  assert (E1 : (k / 256) mod 256 * 256 + k mod 256 = k) by lia.
  assert (E2 : (nlen val / 256) mod 256 * 256 + nlen val mod 256 = nlen val) by lia.
  rewrite E1, E2. rewrite to_nat_nlen, firstn_app_exact, skipn_app_exact.
  assert (E3 : (prev <=? k) && (nlen val <=? nlen (val ++ to_wire (map enc d))) = true).
  { rewrite nlen_app. apply andb_true_iff. split; lia. }
  rewrite E3. unfold val, k. rewrite dec_value_enc by assumption.
  rewrite IH; [reflexivity|assumption|assumption| |assumption|].
  - rewrite Forall_map in S2. eapply Forall_impl; [|exact S2]. intros a Ha. cbv beta in Ha. fold k. lia.
  - simpl in Hf. rewrite app_length in Hf. lia.
Qed.

Lemma key_of_canon_val : forall v, key_of (canon_val v) = key_of v.
Proof. destruct v; reflexivity. Qed.

Lemma has_sval_key_in : forall k d, has_sval_key k d = true <-> In k (map key_of d).
Proof.
  intros k d. unfold has_sval_key. rewrite existsb_exists, in_map_iff. split.
  - intros (v & H1 & H2). exists v. split; [apply N.eqb_eq in H2; exact H2|exact H1].
  - intros (v & H1 & H2). exists v. split; [exact H2|apply N.eqb_eq; exact H1].
Qed.

Lemma mand_ok_canon : forall d, Forall good d -> mand_present d -> mand_ok (map canon_val d) = true.
Proof.
  intros d G Mp. unfold mand_ok. apply forallb_forall. intros w Iw.
  apply in_map_iff in Iw. destruct Iw as (v & Ev & Iv). subst w.
  rewrite Forall_forall in G. pose proof (G v Iv) as Gv.
  destruct v; simpl; try reflexivity. simpl in Gv. destruct Gv as (G1 & G2 & G3).
  set (ks' := sort_by (fun k => k) ks).
  assert (P : Permutation ks' ks) by apply sort_by_perm.
  apply andb_true_iff. split; [apply andb_true_iff; split|].
  - apply strictly_inc_iff. apply sorted_nodup_strict.
    + pose proof (sort_by_sorted (fun k : N => k) ks) as Hs.
      replace (map (fun k : N => k) ks') with ks' in *.
      * clear - Hs. fold ks' in Hs. induction Hs; constructor; [assumption|].
        eapply Forall_impl; [|exact H]. intros b Hb. exact Hb.
      * symmetry. apply map_id.
    + eapply Permutation_NoDup; [apply Permutation_sym; exact P|exact G2].
  - apply negb_true_iff. destruct (existsb (N.eqb 0) ks') eqn:E; [|reflexivity]. exfalso.
    apply existsb_exists in E. destruct E as (x & Ix & Ex). apply N.eqb_eq in Ex. subst x.
    assert (I0 : In 0 ks) by (eapply Permutation_in; eauto).
    rewrite Forall_forall in G3. specialize (G3 0 I0). lia.
  - apply forallb_forall. intros k Ik. apply has_sval_key_in.
    rewrite map_map. erewrite map_ext by (intro; apply key_of_canon_val).
    eapply Mp; [exact Iv|]. eapply Permutation_in; eauto.
Qed.

Lemma mand_present_perm : forall d d', Permutation d' d -> mand_present d -> mand_present d'.
Proof.
  intros d d' P Mp ks I k Ik. eapply Permutation_in; [apply Permutation_sym, Permutation_map; exact P|].
  eapply Mp; [|exact Ik]. eapply Permutation_in; eauto.
Qed.

(* the accepted list as the encoding of the sorted declared list *)
Lemma accepted_sorted_form : forall orc,
  (forall s a, parse_ip orc s = Some a -> length a = 16%nat /\ wf_bytes a) ->
  (forall s x, b64_dec orc s = Some x -> wf_bytes x) ->
  forall t l, from_text orc t = Ok l ->
  exists d d', declared_raw (parse_ip orc) (b64_dec orc) t = Some d /\ d' = sort_by key_of d
    /\ l = map enc d' /\ canon d = map canon_val d'
    /\ Forall good d' /\ StronglySorted N.lt (map key_of d') /\ mand_present d'
    /\ Forall (fun p => nlen (snd p) <= 65535) (map enc d').
Proof.
  intros orc Hp Hb t l H.
  destruct (from_text_declared orc Hp Hb t l H) as (d & D1 & E & G & Hn & Mp & L).
  exists d, (sort_by key_of d). set (d' := sort_by key_of d).
  assert (P : Permutation d' d) by apply sort_by_perm.
  split; [exact D1|]. split; [reflexivity|]. split.
  { subst l. symmetry. apply (sort_by_map key_of (@fst N bytes) enc). apply key_of_enc. }
  split.
  { unfold canon. symmetry. apply (sort_by_map key_of key_of canon_val). apply key_of_canon_val. }
  split; [eapply Permutation_Forall; [apply Permutation_sym; exact P|exact G]|].
  split.
  { apply sorted_nodup_strict.
    - apply sorted_map_le. apply sort_by_sorted.
    - eapply Permutation_NoDup; [apply Permutation_sym, Permutation_map; exact P|exact Hn]. }
  split; [eapply mand_present_perm; eauto|].
  eapply Permutation_Forall; [apply Permutation_sym, Permutation_map; exact P|exact L].
Qed.

(* ------------------------------------------------------------ C18_decodes_to_declared *)
Theorem decodes_to_declared : forall orc,
  (forall s a, parse_ip orc s = Some a -> length a = 16%nat /\ wf_bytes a) ->
  (forall s x, b64_dec orc s = Some x -> wf_bytes x) ->
  forall t l, from_text orc t = Ok l ->
  exists d, declared (parse_ip orc) (b64_dec orc) t = Some d /\ rfc_decode (to_wire l) = Some d.
Proof.
  intros orc Hp Hb t l H.
  destruct (accepted_sorted_form orc Hp Hb t l H) as (d & d' & D1 & _ & El & Ec & G & S & Mp & L).
  exists (canon d). unfold declared. rewrite D1. split; [reflexivity|].
  unfold rfc_decode. subst l. rewrite dec_params_enc; try assumption.
  - rewrite Ec, mand_ok_canon by assumption. reflexivity.
  - apply Forall_forall. intros; lia.
  - lia.
Qed.

(* ------------------------------------------------------------ text round trip *)
Lemma trim_byte_clean : forall c s, has_byte c s = false -> trim_byte c s = s.
Proof.
  intros c s H. unfold trim_byte.
  assert (L : trim_left c s = s).
  { destruct s as [|x s]; [reflexivity|]. simpl in *. apply orb_false_iff in H. destruct H as [H _]. rewrite H. reflexivity. }
  rewrite L. clear L. induction s as [|x s IH]; [reflexivity|].
  simpl in H. apply orb_false_iff in H. destruct H as [H1 H2]. simpl. rewrite (IH H2).
  destruct s; [rewrite H1; reflexivity|reflexivity].
Qed.

Lemma name_clean : forall k, k <= 6 ->
  has_byte 61 (name_of_key k) = false /\ has_byte 59 (name_of_key k) = false
  /\ has_byte 124 (name_of_key k) = false /\ has_byte 34 (name_of_key k) = false.
Proof.
  intros k H. assert (E : k = 0 \/ k = 1 \/ k = 2 \/ k = 3 \/ k = 4 \/ k = 5 \/ k = 6) by lia.
  destruct E as [E|[E|[E|[E|[E|[E|E]]]]]]; subst; repeat split; reflexivity.
Qed.

Fixpoint nrange (fuel : nat) (i : N) : list N :=
  match fuel with O => [] | S f => i :: nrange f (i + 1) end.

Lemma nrange_in : forall fuel i p, i <= p < i + N.of_nat fuel -> In p (nrange fuel i).
Proof.
  induction fuel as [|f IH]; intros i p H; [lia|]. simpl.
  destruct (N.eq_dec i p); [left; assumption|right]. apply IH. lia.
Qed.

Definition port_rt_b (p : N) : bool :=
  match fmt_u16 p with
  | [] => false
  | c :: s => match parse_u16 0 (c :: s) with
              | Ok q => (q =? p) && negb (has_byte 59 (c :: s)) && negb (has_byte 34 (c :: s))
              | Err _ => false
              end
  end.

Lemma port_rt_all : forallb port_rt_b (nrange (N.to_nat 65536) 0) = true.
Proof. vm_compute. reflexivity. Qed.

Lemma port_rt : forall p, p < 65536 ->
  port_marshaller (fmt_u16 p) = Ok (u16be p) /\ has_byte 59 (fmt_u16 p) = false /\ has_byte 34 (fmt_u16 p) = false.
Proof.
  intros p H. pose proof port_rt_all as A. rewrite forallb_forall in A.
  specialize (A p (nrange_in (N.to_nat 65536) 0 p ltac:(lia))). unfold port_rt_b in A.
  unfold port_marshaller. destruct (fmt_u16 p) as [|c s]; [discriminate|].
  destruct (parse_u16 0 (c :: s)) as [q|e]; [|discriminate].
  apply andb_true_iff in A. destruct A as [A A3]. apply andb_true_iff in A. destruct A as [A1 A2].
  apply N.eqb_eq in A1. subst q. apply negb_true_iff in A2, A3. repeat split; assumption.
Qed.

Lemma chunks_concat : forall n a fuel, (0 < n)%nat -> Forall (fun x => length x = n) a ->
  (length (concat a) <= fuel)%nat -> chunks n fuel (concat a) = Ok a.
Proof.
  intros n. induction a as [|x a IH]; intros fuel Hn H Hf; [destruct fuel; reflexivity|].
  pose proof (Forall_inv H) as Hx. pose proof (Forall_inv_tail H) as Ha. cbn [concat] in *.
  destruct x as [|x0 x']; [simpl in Hx; lia|].
  destruct fuel as [|f]; [simpl in Hf; lia|].
  change ((x0 :: x') ++ concat a) with (x0 :: (x' ++ concat a)) in *.
  cbn [chunks]. change (x0 :: x' ++ concat a) with ((x0 :: x') ++ concat a).
  rewrite <- Hx. rewrite firstn_app_exact, skipn_app_exact.
  assert (E : (length (x0 :: x') <? length (x0 :: x'))%nat = false) by (apply Nat.ltb_irrefl).
  rewrite E. rewrite Hx. rewrite IH; [reflexivity|assumption|assumption|].
  simpl in Hf. rewrite app_length in Hf. lia.
Qed.

Lemma alpn_ids_enc : forall ids fuel, Forall (fun a => 1 <= nlen a <= 255) ids ->
  (length (alpn_enc ids) <= fuel)%nat -> alpn_ids fuel (alpn_enc ids) = Ok ids.
Proof.
  induction ids as [|a ids IH]; intros fuel H Hf; [destruct fuel; reflexivity|].
  pose proof (Forall_inv H) as Hx. pose proof (Forall_inv_tail H) as Ha. cbv beta in Hx.
  change (alpn_enc (a :: ids)) with ((nlen a mod 256) :: (a ++ alpn_enc ids)) in *.
  destruct fuel as [|f]; [simpl in Hf; lia|].
  assert (En : nlen a mod 256 = nlen a) by lia. rewrite En in *.
  cbn [alpn_ids]. rewrite to_nat_nlen, firstn_app_exact, skipn_app_exact.
  assert (E2 : (nlen a <? nlen a) = false) by lia. rewrite E2.
  rewrite IH; [reflexivity|assumption|]. simpl in Hf. rewrite app_length in Hf. lia.
Qed.

Lemma alpn_loop_enc : forall ids, Forall (fun a => 1 <= nlen a <= 255) ids -> alpn_loop ids = Ok (alpn_enc ids).
Proof.
  induction ids as [|a ids IH]; intro H; [reflexivity|].
  pose proof (Forall_inv H) as Hx. pose proof (Forall_inv_tail H) as Ha. cbv beta in Hx.
  cbn [alpn_loop]. assert (E : (nlen a =? 0) || (255 <? nlen a) = false) by lia. rewrite E.
  rewrite IH by assumption. reflexivity.
Qed.

Lemma mand_loop_names : forall ks seen, NoDup ks -> Forall (fun k => 1 <= k <= 6 /\ ~ In k seen) ks ->
  mand_loop seen (map name_of_key ks) = Ok (flat_map u16be ks).
Proof.
  induction ks as [|k ks IH]; intros seen Hn Hf; [reflexivity|].
  apply NoDup_cons_iff in Hn. destruct Hn as [Hk Hn].
  pose proof (Forall_inv Hf) as [Hr Hs]. pose proof (Forall_inv_tail Hf) as Ht.
  cbn [map mand_loop]. rewrite key_of_name_of_key by lia.
  assert (E0 : (k =? 0) = false) by lia. rewrite E0.
  assert (Es : existsb (N.eqb k) seen = false).
  { destruct (existsb (N.eqb k) seen) eqn:E; [|reflexivity]. exfalso. apply existsb_exists in E.
    destruct E as (x & Ix & Ex). apply N.eqb_eq in Ex. subst x. contradiction. }
  rewrite Es. rewrite IH; [reflexivity|assumption|].
  rewrite Forall_forall in *. intros x Ix. split; [apply Ht; assumption|].
  intros [E|I]; [subst x; contradiction|]. destruct (Ht x Ix) as [_ Hx]. contradiction.
Qed.

Lemma ip_to4_mapped : forall a, length a = 4%nat -> ip_to4 (v4_prefix ++ a) = Some a.
Proof.
  intros a H. do 4 (destruct a as [|? a]; [discriminate H|]). destruct a; [|discriminate H]. reflexivity.
Qed.

Section Roundtrip.
Variable orc : oracles.
Hypothesis Hparse : forall s a, parse_ip orc s = Some a -> length a = 16%nat /\ wf_bytes a.
Hypothesis Hb64 : forall s x, b64_dec orc s = Some x -> wf_bytes x.
(* net.IP.String of a 4-byte address parses back to its 16-byte (v4-in-v6) form *)
Hypothesis Hp4 : forall a, length a = 4%nat -> wf_bytes a ->
  parse_ip orc (print_ip orc a) = Some (v4_prefix ++ a).
(* net.IP.String of a 16-byte address that is not v4-mapped contains a colon and parses back *)
Hypothesis Hp6 : forall a, length a = 16%nat -> wf_bytes a -> ip_to4 a = None ->
  parse_ip orc (print_ip orc a) = Some a /\ has_byte 58 (print_ip orc a) = true.
(* printed addresses contain no ; | or double quote *)
Hypothesis Hpc : forall a, (length a = 4%nat \/ length a = 16%nat) -> wf_bytes a ->
  has_byte 59 (print_ip orc a) = false /\ has_byte 124 (print_ip orc a) = false
  /\ has_byte 34 (print_ip orc a) = false.
(* base64: Decode inverts Encode; the alphabet has no ; or double quote *)
Hypothesis Hbe : forall x, wf_bytes x ->
  b64_dec orc (b64_enc orc x) = Some x /\ has_byte 59 (b64_enc orc x) = false
  /\ has_byte 34 (b64_enc orc x) = false.

Definition rt_ok (v : sval) : Prop :=
  match v with VIp6 a => Forall (fun x => ip_to4 x = None) a | _ => True end.

(* what the unmarshaller prints is clean and the marshaller reads it back *)
Lemma value_roundtrip : forall v, good v -> rt_ok v ->
  exists s, unmarshal orc (key_of v) (snd (enc v)) = Ok s
            /\ has_byte 59 s = false /\ trim_byte 34 s = s
            /\ marshal orc (key_of v) s = Ok (snd (enc v)).
Proof.
  destruct v; simpl; intros G R.
  - (* mandatory *)
    destruct G as (G1 & G2 & G3).
    set (ks' := sort_by (fun k => k) ks).
    assert (P : Permutation ks' ks) by apply sort_by_perm.
    assert (G3' : Forall (fun k => 1 <= k <= 6) ks') by (eapply Permutation_Forall; [apply Permutation_sym; exact P|exact G3]).
    assert (G2' : NoDup ks') by (eapply Permutation_NoDup; [apply Permutation_sym; exact P|exact G2]).
    assert (Nn : map name_of_key ks' <> []).
    { intro E. apply map_eq_nil in E. rewrite E in P. apply Permutation_nil in P. contradiction. }
    assert (Cl : forall b, b = 59 \/ b = 124 \/ b = 34 ->
                 Forall (fun p => has_byte b p = false) (map name_of_key ks')).
    { intros b Hb. rewrite Forall_map. eapply Forall_impl; [|exact G3']. intros k Hk. cbv beta in Hk.
      destruct (name_clean k ltac:(lia)) as (_ & C1 & C2 & C3). destruct Hb as [E|[E|E]]; subst b; assumption. }
    exists (join 124 (map name_of_key ks')).
    split.
    { unfold unm_mandatory. rewrite chunks_u16 by lia. cbn [rbind]. f_equal. f_equal.
      rewrite map_map. apply map_ext_in. intros k Ik. rewrite be16_u16be; [reflexivity|].
      rewrite Forall_forall in G3'. specialize (G3' k Ik). lia. }
    split; [apply has_byte_join; [reflexivity|apply Cl; tauto]|].
    split; [apply trim_byte_clean, has_byte_join; [reflexivity|apply Cl; tauto]|].
    unfold mandatory_marshaller. rewrite split_join by (try assumption; apply Cl; tauto).
    assert (Ss : sort_by mand_num (map name_of_key ks') = map name_of_key ks').
    { apply sort_by_sorted_id.
      assert (Hs : StronglySorted N.le ks').
      { pose proof (sort_by_sorted (fun k : N => k) ks) as Hs. fold ks' in Hs.
        clear - Hs. induction Hs; constructor; [assumption|]. eapply Forall_impl; [|exact H]. intros b Hb. exact Hb. }
      clear - Hs G3'. induction Hs as [|k l Hs IH Hk]; [constructor|].
      pose proof (Forall_inv G3') as Gk. pose proof (Forall_inv_tail G3') as Gl. cbv beta in Gk.
      cbn [map]. constructor; [apply IH; assumption|].
      rewrite Forall_map. rewrite Forall_forall in *. intros x Ix. unfold le_by, mand_num.
      pose proof (Gl x Ix) as Gx. cbv beta in Gx.
      rewrite !key_of_name_of_key by lia. apply Hk. assumption. }
    rewrite Ss. apply mand_loop_names; [assumption|].
    eapply Forall_impl; [|exact G3']. intros k Hk. split; [exact Hk|intros []].
  - (* alpn *)
    destruct G as (G1 & G2 & G3 & G4).
    exists (join 124 ids). split.
    { unfold unm_alpn. rewrite alpn_ids_enc by (assumption || lia). reflexivity. }
    split.
    { apply has_byte_join; [reflexivity|]. eapply Forall_impl; [|exact G3]. intros a Ha. apply Ha. }
    split; [exact G4|].
    unfold alpn_marshaller. rewrite split_join; [apply alpn_loop_enc; assumption|assumption|].
    eapply Forall_impl; [|exact G3]. intros a Ha. apply Ha.
  - exists []. repeat split.
  - (* port *)
    destruct (port_rt p G) as (P1 & P2 & P3). exists (fmt_u16 p). split.
    { unfold u16be. cbn [unm_port]. f_equal. f_equal. lia. }
    split; [exact P2|]. split; [apply trim_byte_clean; exact P3|exact P1].
  - (* ipv4hint *)
    destruct G as (G1 & G2).
    assert (Cl : forall b, b = 59 \/ b = 124 \/ b = 34 ->
                 Forall (fun p => has_byte b p = false) (map (print_ip orc) a)).
    { intros b Hb. rewrite Forall_map. eapply Forall_impl; [|exact G2]. intros x [Lx Wx].
      destruct (Hpc x (or_introl Lx) Wx) as (C1 & C2 & C3). destruct Hb as [E|[E|E]]; subst b; assumption. }
    assert (Nn : map (print_ip orc) a <> []) by (intro E; apply map_eq_nil in E; contradiction).
    exists (join 124 (map (print_ip orc) a)). split.
    { unfold unm_hint. rewrite (chunks_concat 4) by
        first [lia | eapply Forall_impl; [|exact G2]; intros x Hx; apply Hx]. reflexivity. }
    split; [apply has_byte_join; [reflexivity|apply Cl; tauto]|].
    split; [apply trim_byte_clean, has_byte_join; [reflexivity|apply Cl; tauto]|].
    unfold ipv4hint_marshaller. rewrite split_join by (try assumption; apply Cl; tauto).
    clear - G2 Hp4. induction a as [|x a IH]; [reflexivity|].
    pose proof (Forall_inv G2) as [Lx Wx]. pose proof (Forall_inv_tail G2) as Ga.
    cbn [map ip4_loop concat]. rewrite (Hp4 x Lx Wx), (ip_to4_mapped x Lx), (IH Ga). reflexivity.
  - (* ech *)
    destruct (Hbe b G) as (B1 & B2 & B3). exists (b64_enc orc b).
    split; [reflexivity|]. split; [exact B2|]. split; [apply trim_byte_clean; exact B3|].
    unfold ech_marshaller. rewrite B1. reflexivity.
  - (* ipv6hint *)
    destruct G as (G1 & G2).
    assert (Cl : forall b, b = 59 \/ b = 124 \/ b = 34 ->
                 Forall (fun p => has_byte b p = false) (map (print_ip orc) a)).
    { intros b Hb. rewrite Forall_map. eapply Forall_impl; [|exact G2]. intros x [Lx Wx].
      destruct (Hpc x (or_intror Lx) Wx) as (C1 & C2 & C3). destruct Hb as [E|[E|E]]; subst b; assumption. }
    assert (Nn : map (print_ip orc) a <> []) by (intro E; apply map_eq_nil in E; contradiction).
    exists (join 124 (map (print_ip orc) a)). split.
    { unfold unm_hint. rewrite (chunks_concat 16) by
        first [lia | eapply Forall_impl; [|exact G2]; intros x Hx; apply Hx]. reflexivity. }
    split; [apply has_byte_join; [reflexivity|apply Cl; tauto]|].
    split; [apply trim_byte_clean, has_byte_join; [reflexivity|apply Cl; tauto]|].
    unfold ipv6hint_marshaller. rewrite split_join by (try assumption; apply Cl; tauto).
    clear - G2 R Hp6. induction a as [|x a IH]; [reflexivity|].
    pose proof (Forall_inv G2) as [Lx Wx]. pose proof (Forall_inv_tail G2) as Ga.
    pose proof (Forall_inv R) as Rx. pose proof (Forall_inv_tail R) as Ra. cbv beta in Rx.
    destruct (Hp6 x Lx Wx Rx) as [Q1 Q2].
    cbn [map ip6_loop concat]. rewrite Q2, Q1. cbn [negb]. rewrite (IH Ga Ra). reflexivity.
  - contradiction.
Qed.

Lemma param_from_text_unfold : forall text name v k,
  cut_at 61 text = Some (name, v) -> key_of_name name = Some k -> v <> [] ->
  param_from_text orc text =
  rbind (marshal orc k (trim_byte 34 v)) (fun d => if 65535 <? nlen d then Err E_TOOLONG else Ok (k, d)).
Proof.
  intros text name v k H1 H2 H3. unfold param_from_text. rewrite H1, H2.
  destruct v; [contradiction|]. rewrite andb_false_r. reflexivity.
Qed.

Lemma param_roundtrip : forall v, good v -> rt_ok v -> nlen (snd (enc v)) <= 65535 ->
  exists s, param_to_text orc (enc v) = Ok s /\ param_from_text orc s = Ok (enc v)
            /\ has_byte 59 s = false /\ s <> [].
Proof.
  intros v G R L. destruct (value_roundtrip v G R) as (w & U & C & T & M).
  pose proof (good_key_le v G) as Hk. destruct (name_clean (key_of v) Hk) as (N1 & N2 & _ & _).
  exists (name_of_key (key_of v) ++ 61 :: 34 :: w ++ [34]).
  split; [unfold param_to_text; rewrite key_of_enc, U; reflexivity|]. split; [|split].
  - rewrite (param_from_text_unfold _ (name_of_key (key_of v)) (34 :: w ++ [34]) (key_of v));
      [|apply cut_at_app; assumption|apply key_of_name_of_key; assumption|discriminate].
    rewrite (trim_byte_quoted 34 w T), M.
    cbn [rbind]. assert (E2 : (65535 <? nlen (snd (enc v))) = false) by lia. rewrite E2.
    rewrite <- key_of_enc. destruct (enc v); reflexivity.
  - rewrite has_byte_app. rewrite N2. simpl. rewrite has_byte_app, C. reflexivity.
  - destruct (name_of_key (key_of v)); discriminate.
Qed.

Lemma params_roundtrip : forall d, Forall good d -> Forall rt_ok d ->
  Forall (fun p => nlen (snd p) <= 65535) (map enc d) ->
  exists segs, map_res (param_to_text orc) (map enc d) = Ok segs
    /\ Forall2 (fun v s => param_from_text orc s = Ok (enc v)) d segs
    /\ Forall (fun s => has_byte 59 s = false /\ s <> []) segs.
Proof.
  induction d as [|v d IH]; intros G R L.
  - exists []. repeat split; constructor.
  - pose proof (Forall_inv G) as Gv. pose proof (Forall_inv_tail G) as Gd.
    pose proof (Forall_inv R) as Rv. pose proof (Forall_inv_tail R) as Rd.
    cbn [map] in L. pose proof (Forall_inv L) as Lv. pose proof (Forall_inv_tail L) as Ld. cbv beta in Lv.
    destruct (param_roundtrip v Gv Rv Lv) as (s & P1 & P2 & P3 & P4).
    destruct (IH Gd Rd Ld) as (segs & I1 & I2 & I3).
    exists (s :: segs). cbn [map map_res]. rewrite P1. cbn [rbind]. rewrite I1. cbn [rbind].
    split; [reflexivity|]. split; constructor; try assumption. split; assumption.
Qed.

Lemma ft_loop_roundtrip : forall d segs acc,
  Forall2 (fun v s => param_from_text orc s = Ok (enc v)) d segs ->
  Forall (fun s => has_byte 59 s = false /\ s <> []) segs ->
  NoDup (map key_of d) -> (forall k, In k (map key_of d) -> ~ In k (map fst acc)) ->
  ft_loop orc segs acc = Ok (acc ++ map enc d).
Proof.
  induction d as [|v d IH]; intros segs acc F C Hn Hd.
  - inversion F; subst. simpl. rewrite app_nil_r. reflexivity.
  - inversion F as [|v0 y d0 l' Hy Hl]; subst.
    pose proof (Forall_inv C) as [_ Cy]. pose proof (Forall_inv_tail C) as Cl.
    destruct y as [|c0 y0]; [contradiction|].
    assert (E : has_key (fst (enc v)) acc = false).
    { destruct (has_key (fst (enc v)) acc) eqn:E; [|reflexivity]. exfalso. apply has_key_in in E.
      rewrite key_of_enc in E. apply (Hd (key_of v)); [left; reflexivity|exact E]. }
    change (ft_loop orc ((c0 :: y0) :: l') acc) with
      (match param_from_text orc (c0 :: y0) with
       | Err e => Err e
       | Ok p => if has_key (fst p) acc then Err E_DUPKEY else ft_loop orc l' (acc ++ [p])
       end).
    rewrite Hy. cbv iota beta. rewrite E.
    cbn [map] in Hn. apply NoDup_cons_iff in Hn. destruct Hn as [Hv Hn].
    rewrite (IH l' (acc ++ [enc v]) Hl Cl Hn).
    + rewrite <- app_assoc. reflexivity.
    + intros k Ik. rewrite map_app. cbn [map]. rewrite key_of_enc. intro I. apply in_app_or in I.
      destruct I as [I|[I|[]]]; [apply (Hd k); [right; exact Ik|exact I]|]. subst k. contradiction.
Qed.

Definition no_mapped6 (d : list sval) : Prop :=
  forall a, In (VIp6 a) d -> Forall (fun x => ip_to4 x = None) a.

(* ------------------------------------------------------------ C18_text_roundtrip_outside_finding *)
Theorem text_roundtrip_outside_finding : forall t l d,
  from_text orc t = Ok l -> declared (parse_ip orc) (b64_dec orc) t = Some d -> no_mapped6 d ->
  exists s, to_text orc l = Ok s /\ from_text orc s = Ok l.
Proof.
  intros t l dc H Hd Nm.
  destruct (accepted_sorted_form orc Hparse Hb64 t l H) as (d & d' & D1 & Ed' & El & Ec & G & S & Mp & L).
  unfold declared in Hd. rewrite D1 in Hd. inversion Hd; subst dc. clear Hd.
  assert (R : Forall rt_ok d').
  { apply Forall_forall. intros v Iv. destruct v; simpl; try exact I.
    apply Nm. rewrite Ec. change (VIp6 a) with (canon_val (VIp6 a)). apply in_map. exact Iv. }
  destruct (params_roundtrip d' G R L) as (segs & T1 & T2 & T3).
  exists (join 59 segs). split; [unfold to_text; subst l; rewrite T1; reflexivity|].
  assert (Hn : NoDup (map key_of d')).
  { clear - S. induction S as [|k l S IH Hk]; constructor; [|assumption].
    intro I. rewrite Forall_forall in Hk. specialize (Hk k I). lia. }
  assert (Fl : ft_loop orc (split_on 59 (join 59 segs)) [] = Ok (map enc d')).
  { destruct segs as [|s0 segs'] eqn:Es.
    - inversion T2; subst. reflexivity.
    - rewrite split_join; [|discriminate|eapply Forall_impl; [|exact T3]; intros a Ha; apply Ha].
      apply (ft_loop_roundtrip d' (s0 :: segs') [] T2 T3 Hn). intros k _ []. }
  unfold from_text. rewrite Fl. cbn [rbind].
  assert (Hn' : NoDup (map key_of d')) by exact Hn.
  destruct (mand_check_spec d' G Hn') as [[M1 _]|[_ M2]]; [|contradiction].
  rewrite M1. cbn [rbind]. f_equal. subst l. apply sort_by_sorted_id.
  apply sorted_lt_le_by. rewrite map_fst_enc. exact S.
Qed.

End Roundtrip.

(* ------------------------------------------------------------ C18_text_roundtrip_refuted (finding F8) *)
(* ipv6hint=::ffff:1.2.3.4 *)
Definition f8_text : bytes := [105;112;118;54;104;105;110;116;61;58;58;102;102;102;102;58;49;46;50;46;51;46;52].
Definition f8_token : bytes := [58;58;102;102;102;102;58;49;46;50;46;51;46;52].   (* ::ffff:1.2.3.4 *)
Definition f8_addr : bytes := [0;0;0;0;0;0;0;0;0;0;255;255;1;2;3;4].
Definition f8_dotted : bytes := [49;46;50;46;51;46;52].                            (* 1.2.3.4 *)
(* ipv6hint="1.2.3.4" *)
Definition f8_printed : bytes := [105;112;118;54;104;105;110;116;61;34;49;46;50;46;51;46;52;34].

(* for EVERY library behaviour that agrees with Go on two facts - ParseIP of the literal
   gives the 16-byte v4-mapped address, and IP.String prints that address as dotted quad -
   the accepted text f8_text is stored, printed as f8_printed, and the print is rejected *)
Theorem text_roundtrip_refuted : forall orc,
  parse_ip orc f8_token = Some f8_addr -> print_ip orc f8_addr = f8_dotted ->
  from_text orc f8_text = Ok [(6, f8_addr)]
  /\ to_text orc [(6, f8_addr)] = Ok f8_printed
  /\ from_text orc f8_printed = Err E_IP6_NOCOLON.
Proof.
  intros orc Hp Hs. split; [|split].
  - unfold from_text. change (split_on 59 f8_text) with [f8_text].
    cbn [ft_loop f8_text]. fold f8_text.
    assert (E : param_from_text orc f8_text = Ok (6, f8_addr)).
    { unfold param_from_text. change (cut_at 61 f8_text) with (Some (n_ipv6hint, f8_token)).
      cbv iota beta. change (key_of_name n_ipv6hint) with (Some 6). cbv iota beta.
      change (trim_byte 34 f8_token) with f8_token.
      change (marshal orc 6 f8_token) with (ip6_loop orc [f8_token]).
      cbn [ip6_loop]. change (has_byte 58 f8_token) with true. cbn [negb]. rewrite Hp. reflexivity. }
    rewrite E. reflexivity.
  - unfold to_text, param_to_text. cbn [map_res fst snd rbind unmarshal].
    change (unm_hint orc 16 f8_addr) with (Ok (join 124 (map (print_ip orc) [f8_addr]))).
    cbn [map join rbind]. rewrite Hs. reflexivity.
  - unfold from_text. change (split_on 59 f8_printed) with [f8_printed].
    cbn [ft_loop f8_printed]. fold f8_printed.
    assert (E : param_from_text orc f8_printed = Err E_IP6_NOCOLON).
    { unfold param_from_text. change (cut_at 61 f8_printed) with (Some (n_ipv6hint, 34 :: f8_dotted ++ [34])).
      cbv iota beta. change (key_of_name n_ipv6hint) with (Some 6). cbv iota beta.
      change (trim_byte 34 (34 :: f8_dotted ++ [34])) with f8_dotted.
      change (marshal orc 6 f8_dotted) with (ip6_loop orc [f8_dotted]).
      cbn [ip6_loop]. change (has_byte 58 f8_dotted) with false. reflexivity. }
    rewrite E. reflexivity.
Qed.

(* the same witness, closed: evaluated with a two-entry oracle table *)
Definition f8_orc : oracles :=
  mkO (fun s => if bytes_eqb s f8_token then Some f8_addr else None)
      (fun a => if bytes_eqb a f8_addr then f8_dotted else [])
      (fun _ => None) (fun _ => []).
Lemma text_roundtrip_refuted_closed :
  exists t l s, from_text f8_orc t = Ok l /\ to_text f8_orc l = Ok s /\ from_text f8_orc s = Err E_IP6_NOCOLON.
Proof. exists f8_text, [(6, f8_addr)], f8_printed. vm_compute. repeat split; reflexivity. Qed.

(* ------------------------------------------------------------ the oracle hypotheses are satisfiable *)
Definition ex_shift (a : bytes) : bytes := map (fun x => x + 256) a.
Definition ex_unshift (s : bytes) : option bytes :=
  if forallb (fun x => (256 <=? x) && (x <? 512)) s then Some (map (fun x => x - 256) s) else None.
Definition ex_parse (s : bytes) : option bytes :=
  match s with
  | [] => None
  | x :: r =>
    if x =? 58 then
      match ex_unshift r with
      | Some a => if (length a =? 16)%nat then Some a else None
      | None => None
      end
    else
      match ex_unshift s with
      | Some a => if (length a =? 4)%nat then Some (v4_prefix ++ a) else None
      | None => None
      end
  end.
Definition ex_print (a : bytes) : bytes :=
  if (length a =? 4)%nat then ex_shift a
  else match ip_to4 a with Some b => ex_shift b | None => 58 :: ex_shift a end.
Definition ex_orc : oracles := mkO ex_parse ex_print ex_unshift ex_shift.

Lemma ex_unshift_shift : forall a, wf_bytes a -> ex_unshift (ex_shift a) = Some a.
Proof.
  intros a W. unfold ex_unshift, ex_shift.
  assert (E : forallb (fun x => (256 <=? x) && (x <? 512)) (map (fun x => x + 256) a) = true).
  { apply forallb_forall. intros y Iy. apply in_map_iff in Iy. destruct Iy as (x & Ex & Ix). subst y.
    unfold wf_bytes in W. rewrite Forall_forall in W. specialize (W x Ix). lia. }
  rewrite E. f_equal. rewrite map_map. rewrite <- (map_id a) at 2. apply map_ext. intros; lia.
Qed.

Lemma ex_unshift_wf : forall s a, ex_unshift s = Some a -> wf_bytes a /\ length a = length s.
Proof.
  unfold ex_unshift. intros s a H.
  destruct (forallb (fun x => (256 <=? x) && (x <? 512)) s) eqn:E; [|discriminate]. inversion H; subst.
  split; [|apply map_length]. unfold wf_bytes. rewrite Forall_map. apply Forall_forall. intros x Ix.
  rewrite forallb_forall in E. specialize (E x Ix). lia.
Qed.

Lemma ex_shift_clean : forall a c, c < 256 -> has_byte c (ex_shift a) = false.
Proof.
  intros a c Hc. apply has_byte_false_in. intro I. unfold ex_shift in I. apply in_map_iff in I.
  destruct I as (x & Ex & _). lia.
Qed.

Example oracle_hypotheses_satisfiable :
  (forall s a, parse_ip ex_orc s = Some a -> length a = 16%nat /\ wf_bytes a)
  /\ (forall s x, b64_dec ex_orc s = Some x -> wf_bytes x)
  /\ (forall a, length a = 4%nat -> wf_bytes a -> parse_ip ex_orc (print_ip ex_orc a) = Some (v4_prefix ++ a))
  /\ (forall a, length a = 16%nat -> wf_bytes a -> ip_to4 a = None ->
        parse_ip ex_orc (print_ip ex_orc a) = Some a /\ has_byte 58 (print_ip ex_orc a) = true)
  /\ (forall a, (length a = 4%nat \/ length a = 16%nat) -> wf_bytes a ->
        has_byte 59 (print_ip ex_orc a) = false /\ has_byte 124 (print_ip ex_orc a) = false
        /\ has_byte 34 (print_ip ex_orc a) = false)
  /\ (forall x, wf_bytes x -> b64_dec ex_orc (b64_enc ex_orc x) = Some x
        /\ has_byte 59 (b64_enc ex_orc x) = false /\ has_byte 34 (b64_enc ex_orc x) = false)
  /\ (exists t l, from_text ex_orc t = Ok l /\ length l = 2%nat).
Proof.
  cbn [parse_ip print_ip b64_dec b64_enc ex_orc].
  split; [|split; [|split; [|split; [|split; [|split]]]]].
  - intros s a H. unfold ex_parse in H. destruct s as [|x r]; [discriminate|].
    destruct (x =? 58).
    + destruct (ex_unshift r) as [b|] eqn:E; [|discriminate].
      destruct (length b =? 16)%nat eqn:L; [|discriminate]. inversion H; subst.
      apply Nat.eqb_eq in L. split; [exact L|apply (ex_unshift_wf _ _ E)].
    + destruct (ex_unshift (x :: r)) as [b|] eqn:E; [|discriminate].
      destruct (length b =? 4)%nat eqn:L; [|discriminate].
      apply Nat.eqb_eq in L.
      assert (Q : length (v4_prefix ++ b) = 16%nat /\ wf_bytes (v4_prefix ++ b)).
      { split; [rewrite app_length, L; reflexivity|].
        apply wf_app. split; [|apply (ex_unshift_wf _ _ E)].
        unfold wf_bytes, v4_prefix. repeat constructor; lia. }
      inversion H; subst. exact Q.
  - intros s x H. apply (ex_unshift_wf _ _ H).
  - intros a L W. unfold ex_print. rewrite L. cbn [Nat.eqb].
    do 4 (destruct a as [|? a]; [discriminate L|]). destruct a; [|discriminate L].
    unfold ex_parse. cbn [ex_shift map].
    assert (E : (n + 256 =? 58) = false) by lia. rewrite E.
    change (n + 256 :: n0 + 256 :: n1 + 256 :: [n2 + 256]) with (ex_shift [n; n0; n1; n2]).
    rewrite ex_unshift_shift by assumption. reflexivity.
  - intros a L W T. unfold ex_print. rewrite L, T. cbn [Nat.eqb].
    unfold ex_parse. rewrite N.eqb_refl. rewrite ex_unshift_shift by assumption. rewrite L.
    split; [reflexivity|]. simpl. reflexivity.
  - intros a L W. unfold ex_print.
    destruct (length a =? 4)%nat; [repeat split; apply ex_shift_clean; lia|].
    destruct (ip_to4 a); [repeat split; apply ex_shift_clean; lia|].
    repeat split; simpl; apply ex_shift_clean; lia.
  - intros x W. split; [apply ex_unshift_shift; assumption|]. split; apply ex_shift_clean; lia.
  - (* alpn=h2;port=443 *)
    exists [97;108;112;110;61;104;50;59;112;111;114;116;61;52;52;51].
    eexists. split; [vm_compute; reflexivity|reflexivity].
Qed.

(* ------------------------------------------------------------ the fuel supplied by the model suffices *)
Lemma rbind_not_fuel : forall {A B} (r : result A) (f : A -> result B),
  r <> Err E_FUEL -> (forall a, f a <> Err E_FUEL) -> rbind r f <> Err E_FUEL.
Proof. intros A B [a|e] f H1 H2; simpl; [apply H2|]. intro E. apply H1. inversion E. reflexivity. Qed.

Lemma chunks_fuel : forall n fuel s, (0 < n)%nat -> (length s <= fuel)%nat -> chunks n fuel s <> Err E_FUEL.
Proof.
  intros n. induction fuel as [|f IH]; intros s Hn Hl.
  - destruct s; [discriminate|simpl in Hl; lia].
  - destruct s as [|x t]; [discriminate|]. cbn [chunks].
    destruct (length (firstn n (x :: t)) <? n)%nat; [discriminate|].
    apply rbind_not_fuel; [|discriminate]. apply IH; [assumption|].
    rewrite skipn_length. cbn [length] in Hl |- *. lia.
Qed.

Lemma alpn_ids_fuel : forall fuel s, (length s <= fuel)%nat -> alpn_ids fuel s <> Err E_FUEL.
Proof.
  induction fuel as [|f IH]; intros s Hl.
  - destruct s; [discriminate|simpl in Hl; lia].
  - destruct s as [|x t]; [discriminate|]. cbn [alpn_ids].
    destruct (nlen (firstn (N.to_nat x) t) <? x); [discriminate|].
    apply rbind_not_fuel; [|discriminate]. apply IH. rewrite skipn_length. simpl in Hl. lia.
Qed.

Theorem model_fuel_suffices : forall orc k v, unmarshal orc k v <> Err E_FUEL.
Proof.
  intros orc k v. unfold unmarshal.
  assert (C : forall n, (0 < n)%nat -> unm_hint orc n v <> Err E_FUEL).
  { intros n Hn. unfold unm_hint. apply rbind_not_fuel; [apply chunks_fuel; [assumption|lia]|discriminate]. }
  assert (E : k = 0 \/ k = 1 \/ k = 2 \/ k = 3 \/ k = 4 \/ k = 5 \/ k = 6 \/ 6 < k) by lia.
  destruct E as [E|[E|[E|[E|[E|[E|[E|E]]]]]]]; try subst k.
  - unfold unm_mandatory. apply rbind_not_fuel; [apply chunks_fuel; lia|discriminate].
  - unfold unm_alpn. apply rbind_not_fuel; [apply alpn_ids_fuel; lia|discriminate].
  - discriminate.
  - unfold unm_port. destruct v as [|a [|b r]]; discriminate.
  - apply C. lia.
  - discriminate.
  - apply C. lia.
  - destruct k as [|p]; [lia|].
    destruct p as [[[?|?|]|[?|?|]|]|[[?|?|]|[?|?|]|]|]; try lia; discriminate.
Qed.
