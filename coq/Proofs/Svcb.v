From DnsV Require Import Model.Svcb Spec.SvcbWire.
Open Scope N_scope.
Lemma placeholder_c18 : key_of VNda = 2.
Proof. reflexivity. Qed.
