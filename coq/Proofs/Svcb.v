(* Proofs/Svcb: lemmas and proofs of property C18 (Model/Svcb.v against Spec/SvcbWire.v). *)
From Coq Require Import Permutation Sorted.
From DnsV Require Import Base.Bytes Base.Text Model.Svcb Spec.SvcbWire Proofs.SvcbLib.
Require Import ZifyN ZifyNat ZifyBool.
Ltac Zify.zify_post_hook ::= Z.div_mod_to_equations.
Open Scope N_scope.

(* the wire parameter a declared value stands for *)
Definition enc (v : sval) : param :=
  match v with
  | VMand ks => (0, flat_map u16be (sort_by (fun k => k) ks))
  | VAlpn ids => (1, flat_map (fun a => (nlen a mod 256) :: a) ids)
  | VNda => (2, [])
  | VPort p => (3, u16be p)
  | VIp4 a => (4, concat a)
  | VEch b => (5, b)
  | VIp6 a => (6, concat a)
  | VOpaque k b => (k, b)
  end.

Definition clean59 (s : bytes) : Prop := has_byte 59 s = false.

(* what FromText guarantees about the declared value of an accepted parameter *)
Definition good (v : sval) : Prop :=
  match v with
  | VMand ks => ks <> [] /\ NoDup ks /\ Forall (fun k => 1 <= k <= 6) ks
  | VAlpn ids => ids <> [] /\ Forall (fun a => 1 <= nlen a <= 255) ids
                 /\ Forall (fun a => has_byte 59 a = false /\ has_byte 124 a = false) ids
                 /\ trim_byte 34 (join 124 ids) = join 124 ids
  | VNda => True
  | VPort p => p < 65536
  | VIp4 a => a <> [] /\ Forall (fun x => length x = 4%nat /\ wf_bytes x) a
  | VEch b => wf_bytes b
  | VIp6 a => a <> [] /\ Forall (fun x => length x = 16%nat /\ wf_bytes x) a
  | VOpaque _ _ => False
  end.

Lemma key_of_enc : forall v, fst (enc v) = key_of v.
Proof. destruct v; reflexivity. Qed.

Lemma key_number_eq : forall s, key_number s = key_of_name s.
Proof. reflexivity. Qed.

Lemma key_of_name_range : forall s k, key_of_name s = Some k -> k <= 6.
Proof.
  unfold key_of_name. intros s k H.
  repeat match type of H with (if ?b then _ else _) = _ => destruct b end;
    inversion H; subst; lia.
Qed.

Lemma key_of_name_inv : forall s k, key_of_name s = Some k -> s = name_of_key k.
Proof.
  unfold key_of_name. intros s k H.
  repeat match type of H with (if bytes_eqb ?a ?b then _ else _) = _ =>
    let E := fresh "E" in
    destruct (bytes_eqb a b) eqn:E; [apply bytes_eqb_eq in E; inversion H; subst; reflexivity|] end.
  discriminate.
Qed.

Lemma key_of_name_of_key : forall k, k <= 6 -> key_of_name (name_of_key k) = Some k.
Proof.
  intros k H.
  assert (E : k = 0 \/ k = 1 \/ k = 2 \/ k = 3 \/ k = 4 \/ k = 5 \/ k = 6) by lia.
  destruct E as [E|[E|[E|[E|[E|[E|E]]]]]]; subst; reflexivity.
Qed.

(* ------------------------------------------------------------ mandatory *)
Lemma mand_loop_ok : forall vals seen w, mand_loop seen vals = Ok w ->
  exists ks, map key_of_name vals = map Some ks /\ w = flat_map u16be ks /\ NoDup ks
             /\ Forall (fun k => 1 <= k <= 6 /\ ~ In k seen) ks.
Proof.
  induction vals as [|v t IH]; simpl; intros seen w H.
  - inversion H; subst. exists []. repeat split; constructor.
  - destruct (key_of_name v) as [k|] eqn:Ek; [|discriminate].
    destruct (k =? 0) eqn:E0; [discriminate|].
    destruct (existsb (N.eqb k) seen) eqn:Es; [discriminate|].
    destruct (mand_loop (k :: seen) t) as [r|e] eqn:El; simpl in H; [|discriminate].
    inversion H; subst. destruct (IH _ _ El) as (ks & H1 & H2 & H3 & H4).
    exists (k :: ks). simpl. rewrite H1, H2. repeat split.
    + constructor; [|exact H3]. intro I. rewrite Forall_forall in H4. destruct (H4 k I) as [_ Hn].
      apply Hn. left. reflexivity.
    + constructor.
      * split; [pose proof (key_of_name_range v k Ek); lia|].
        intro I. assert (existsb (N.eqb k) seen = true); [|congruence].
        apply existsb_exists. exists k. split; [exact I|apply N.eqb_refl].
      * eapply Forall_impl; [|exact H4]. intros a [Ha Hb]. split; [exact Ha|].
        intro I. apply Hb. right. exact I.
Qed.

Lemma map_some_perm : forall {A} (l : list (option A)) (r : list A) l',
  Permutation l' l -> l' = map Some r -> exists r', l = map Some r' /\ Permutation r' r.
Proof.
  intros A l r l' P. revert r. induction P; intros r E.
  - destruct r; [|discriminate]. exists []. split; constructor.
  - destruct r as [|a r]; [discriminate|]. simpl in E. inversion E; subst.
    destruct (IHP r eq_refl) as (r' & H1 & H2). exists (a :: r'). subst. split; [reflexivity|constructor; assumption].
  - destruct r as [|a [|b r]]; try discriminate. simpl in E. inversion E; subst.
    exists (b :: a :: r). split; [reflexivity|apply perm_swap].
  - destruct (IHP1 r E) as (r1 & H1 & H2). destruct (IHP2 r1 H1) as (r2 & H3 & H4).
    exists r2. split; [assumption|eapply Permutation_trans; eassumption].
Qed.

Lemma mandatory_ok : forall input w, mandatory_marshaller input = Ok w ->
  exists ks, all_some (map key_number (split_on 124 input)) = Some ks
             /\ w = flat_map u16be (sort_by (fun k => k) ks) /\ good (VMand ks).
Proof.
  unfold mandatory_marshaller. intros input w H.
  set (toks := split_on 124 input) in *.
  destruct (mand_loop_ok _ _ _ H) as (ks & H1 & H2 & H3 & H4).
  (* every token is a known name *)
  assert (P : Permutation (map key_of_name (sort_by mand_num toks)) (map key_of_name toks))
    by (apply Permutation_map, sort_by_perm).
  destruct (map_some_perm _ ks _ P H1) as (ks0 & E0 & P0).
  exists ks0. split; [| split].
  - change (map key_number toks) with (map key_of_name toks). rewrite E0. apply all_some_map_some.
  - (* the emitted order is the sorted order of the declared keys *)
    subst w. f_equal.
    assert (Hm : forall l r, map key_of_name l = map Some r -> map mand_num l = r).
    { clear. induction l as [|x l IH]; intros [|y r] E; simpl in E |- *; try discriminate; [reflexivity|].
      injection E as E1 E2. unfold mand_num at 1. rewrite E1. f_equal. apply IH. assumption. }
    rewrite <- (Hm _ _ H1).
    rewrite (sort_by_map mand_num (fun k => k) mand_num) by reflexivity.
    rewrite (Hm _ _ E0). reflexivity.
  - simpl. split; [| split].
    + intro E. subst ks0. destruct toks eqn:Et; [eapply split_on_nonnil; eauto|discriminate].
    + eapply Permutation_NoDup; [apply Permutation_sym; exact P0|exact H3].
    + eapply Permutation_Forall; [apply Permutation_sym; exact P0|].
      eapply Forall_impl; [|exact H4]. intros a [Ha _]. exact Ha.
Qed.

(* ------------------------------------------------------------ alpn, port *)
Lemma alpn_loop_ok : forall ids w, alpn_loop ids = Ok w ->
  w = flat_map (fun a => (nlen a mod 256) :: a) ids /\ Forall (fun a => 1 <= nlen a <= 255) ids.
Proof.
  induction ids as [|a t IH]; simpl; intros w H.
  - inversion H. split; [reflexivity|constructor].
  - destruct ((nlen a =? 0) || (255 <? nlen a)) eqn:E; [discriminate|].
    destruct (alpn_loop t) as [r|e] eqn:El; simpl in H; [|discriminate].
    inversion H; subst. destruct (IH r eq_refl) as [H1 H2]. subst r.
    split; [reflexivity|]. constructor; [lia|assumption].
Qed.

Lemma parse_u16_ok : forall s n m, n < 65536 -> parse_u16 n s = Ok m ->
  decimal_acc n s = Some m /\ m < 65536.
Proof.
  induction s as [|c t IH]; simpl; intros n m Hn H.
  - inversion H; subst. split; [reflexivity|assumption].
  - destruct (is_digit c); [|discriminate].
    destruct (65535 <? n * 10 + (c - 48)) eqn:E; [discriminate|].
    apply IH; [lia|assumption].
Qed.

Lemma port_ok : forall input w, port_marshaller input = Ok w ->
  exists p, decimal input = Some p /\ w = u16be p /\ p < 65536.
Proof.
  intros [|c t] w H; [simpl in H; discriminate|].
  unfold port_marshaller in H. unfold decimal.
  destruct (parse_u16 0 (c :: t)) as [n|e] eqn:E; cbn [rbind] in H; [|discriminate].
  inversion H; subst. destruct (parse_u16_ok (c :: t) 0 n ltac:(lia) E) as [H1 H2].
  exists n. split; [exact H1|split; [reflexivity|exact H2]].
Qed.

(* ------------------------------------------------------------ addresses *)
Lemma ip_to4_16 : forall a b, length a = 16%nat -> ip_to4 a = Some b ->
  a = v4_prefix ++ b /\ length b = 4%nat.
Proof.
  intros a b L H.
  do 16 (destruct a as [|? a]; [discriminate L|]). destruct a; [|discriminate L].
  unfold ip_to4 in H. cbn [length Nat.eqb firstn forallb nth skipn andb] in H.
  repeat match type of H with context [N.eqb ?u ?v] =>
    destruct (N.eqb_spec u v); cbn [andb] in H; [|discriminate H] end.
  inversion H; subst. split; reflexivity.
Qed.

Lemma wf_app : forall a b, wf_bytes (a ++ b) <-> wf_bytes a /\ wf_bytes b.
Proof. intros. unfold wf_bytes. apply Forall_app. Qed.

Section Decl.
Variable orc : oracles.
(* net.ParseIP returns nil or a 16-byte slice; base64 decoding returns bytes *)
Hypothesis Hparse : forall s a, parse_ip orc s = Some a -> length a = 16%nat /\ wf_bytes a.
Hypothesis Hb64 : forall s x, b64_dec orc s = Some x -> wf_bytes x.

Lemma ip4_loop_ok : forall toks w, ip4_loop orc toks = Ok w ->
  exists a, all_some (map (decl_v4 (parse_ip orc)) toks) = Some a /\ w = concat a
            /\ Forall (fun x => length x = 4%nat /\ wf_bytes x) a.
Proof.
  induction toks as [|t r IH]; simpl; intros w H.
  - inversion H. exists []. repeat split; constructor.
  - unfold decl_v4 at 1. destruct (parse_ip orc t) as [a|] eqn:Ep; [|discriminate].
    destruct (ip_to4 a) as [b|] eqn:E4; [|discriminate].
    destruct (ip4_loop orc r) as [x|e] eqn:El; simpl in H; [|discriminate].
    inversion H; subst. destruct (IH x eq_refl) as (as' & H1 & H2 & H3).
    rewrite H1. exists (b :: as'). subst x. split; [reflexivity|]. split; [reflexivity|].
    destruct (Hparse _ _ Ep) as [L W]. destruct (ip_to4_16 a b L E4) as [Ea Lb].
    constructor; [|assumption]. split; [assumption|]. subst a. apply wf_app in W. tauto.
Qed.

Lemma ip6_loop_ok : forall toks w, ip6_loop orc toks = Ok w ->
  exists a, all_some (map (parse_ip orc) toks) = Some a /\ w = concat a
            /\ Forall (fun x => length x = 16%nat /\ wf_bytes x) a.
Proof.
  induction toks as [|t r IH]; simpl; intros w H.
  - inversion H. exists []. repeat split; constructor.
  - destruct (has_byte 58 t); simpl in H; [|discriminate].
    destruct (parse_ip orc t) as [a|] eqn:Ep; [|discriminate].
    destruct (ip6_loop orc r) as [x|e] eqn:El; simpl in H; [|discriminate].
    inversion H; subst. destruct (IH x eq_refl) as (as' & H1 & H2 & H3).
    rewrite H1. exists (a :: as'). subst x. split; [reflexivity|]. split; [reflexivity|].
    constructor; [apply (Hparse _ _ Ep)|assumption].
Qed.

Lemma toks_nonnil : forall {A} (f : bytes -> option A) c s a,
  all_some (map f (split_on c s)) = Some a -> a <> [].
Proof.
  intros A f c s a H E. subst a. destruct (split_on c s) as [|p q] eqn:Es; [eapply split_on_nonnil; eauto|].
  simpl in H. destruct (f p); [|discriminate]. destruct (all_some (map f q)); discriminate.
Qed.

(* ------------------------------------------------------------ one parameter *)
Lemma marshal_decl : forall k input w, has_byte 59 input = false -> trim_byte 34 input = input ->
  marshal orc k input = Ok w ->
  exists v, decl_value (parse_ip orc) (b64_dec orc) k input = Some v /\ (k, w) = enc v /\ good v.
Proof.
  intros k input w Hc Ht H. unfold marshal in H.
  assert (Hk : k = 0 \/ k = 1 \/ k = 2 \/ k = 3 \/ k = 4 \/ k = 5 \/ k = 6 \/ 6 < k) by lia.
  destruct Hk as [E|[E|[E|[E|[E|[E|[E|E]]]]]]]; subst.
  - destruct (mandatory_ok _ _ H) as (ks & H1 & H2 & H3).
    exists (VMand ks). unfold decl_value. rewrite H1. subst w. repeat split; apply H3.
  - unfold alpn_marshaller in H. destruct (alpn_loop_ok _ _ H) as [H1 H2].
    exists (VAlpn (split_on 124 input)). subst w. split; [reflexivity|]. split; [reflexivity|].
    simpl. split; [apply split_on_nonnil|]. split; [exact H2|]. split.
    + pose proof (split_pieces_without 59 124 input Hc) as P1.
      pose proof (split_pieces_clean 124 input) as P2.
      rewrite Forall_forall in *. intros a Ha. split; [apply P1|apply P2]; assumption.
    + rewrite join_split. exact Ht.
  - unfold nodefaultalpn_marshaller in H. destruct input; [|discriminate]. inversion H; subst.
    exists VNda. repeat split.
  - destruct (port_ok _ _ H) as (p & H1 & H2 & H3). exists (VPort p). unfold decl_value. rewrite H1.
    subst w. repeat split. exact H3.
  - unfold ipv4hint_marshaller in H. destruct (ip4_loop_ok _ _ H) as (a & H1 & H2 & H3).
    exists (VIp4 a). unfold decl_value. rewrite H1. subst w. repeat split; [|assumption].
    eapply toks_nonnil; eauto.
  - unfold ech_marshaller in H. destruct (b64_dec orc input) as [x|] eqn:E; [|discriminate].
    inversion H; subst. exists (VEch w). unfold decl_value. rewrite E. repeat split. simpl. eapply Hb64; eauto.
  - unfold ipv6hint_marshaller in H. destruct (ip6_loop_ok _ _ H) as (a & H1 & H2 & H3).
    exists (VIp6 a). unfold decl_value. rewrite H1. subst w. repeat split; [|assumption].
    eapply toks_nonnil; eauto.
  - exfalso. destruct k as [|p]; [lia|]. do 3 (destruct p as [p|p|]; try lia; try discriminate H).
Qed.

Lemma param_decl : forall s p, has_byte 59 s = false -> param_from_text orc s = Ok p ->
  exists v, decl_param (parse_ip orc) (b64_dec orc) s = Some v /\ p = enc v /\ good v
            /\ nlen (snd p) <= 65535.
Proof.
  intros s p Hc H. unfold param_from_text in H. unfold decl_param.
  destruct (cut_at 61 s) as [[k v]|] eqn:Ec; [|discriminate].
  rewrite key_number_eq. destruct (key_of_name k) as [kn|] eqn:Ek; [|discriminate].
  destruct (negb (kn =? 2) && match v with [] => true | _ :: _ => false end); [discriminate|].
  destruct (marshal orc kn (trim_byte 34 v)) as [d|e] eqn:Em; cbn [rbind] in H; [|discriminate].
  destruct (65535 <? nlen d) eqn:El; [discriminate|]. inversion H; subst p.
  destruct (cut_at_some _ _ _ _ Ec) as [Es _]. subst s. rewrite has_byte_app in Hc.
  apply orb_false_iff in Hc. destruct Hc as [_ Hc]. simpl in Hc.
  destruct (marshal_decl kn (trim_byte 34 v) d) as (w & H1 & H2 & H3);
    [apply trim_byte_without; exact Hc|apply trim_byte_idem|exact Em|].
  exists w. split; [exact H1|]. split; [exact H2|]. split; [exact H3|]. simpl. lia.
Qed.

Lemma has_key_in : forall k l, has_key k l = true <-> In k (map fst l).
Proof.
  intros k l. unfold has_key. rewrite existsb_exists. rewrite in_map_iff. split.
  - intros (p & H1 & H2). exists p. split; [apply N.eqb_eq in H2; exact H2|exact H1].
  - intros (p & H1 & H2). exists p. split; [exact H2|apply N.eqb_eq; exact H1].
Qed.

Lemma ft_loop_ok : forall segs acc l, Forall (fun s => has_byte 59 s = false) segs ->
  ft_loop orc segs acc = Ok l ->
  exists d, all_some (map (decl_param (parse_ip orc) (b64_dec orc)) (list_segments segs)) = Some d
            /\ l = acc ++ map enc d /\ Forall good d
            /\ Forall (fun p => nlen (snd p) <= 65535) (map enc d)
            /\ (NoDup (map fst acc) -> NoDup (map fst l)).
Proof.
  induction segs as [|s r IH]; intros acc l Hc H.
  - simpl in H. inversion H; subst. exists []. rewrite app_nil_r. repeat split; try constructor. tauto.
  - inversion Hc; subst. destruct s as [|c0 s0].
    + simpl in H. inversion H; subst. exists []. rewrite app_nil_r. repeat split; try constructor. tauto.
    + remember (c0 :: s0) as s eqn:Es.
      assert (Hl : list_segments (s :: r) = s :: list_segments r) by (subst s; reflexivity).
      rewrite Hl. assert (Hf : ft_loop orc (s :: r) acc =
        match param_from_text orc s with
        | Err e => Err e
        | Ok p => if has_key (fst p) acc then Err E_DUPKEY else ft_loop orc r (acc ++ [p])
        end) by (subst s; reflexivity).
      rewrite Hf in H. clear Hf Hl.
      destruct (param_from_text orc s) as [p|e] eqn:Ep; [|discriminate].
      destruct (has_key (fst p) acc) eqn:Ek; [discriminate|].
      destruct (param_decl s p H1 Ep) as (v & D1 & D2 & D3 & D4).
      destruct (IH _ _ H2 H) as (d & I1 & I2 & I3 & I4 & I5).
      exists (v :: d). simpl. rewrite D1, I1. split; [reflexivity|]. split.
      { subst l p. rewrite <- app_assoc. reflexivity. }
      split; [constructor; assumption|]. split; [constructor; [subst p; exact D4|exact I4]|].
      intro Hn. apply I5. rewrite map_app. simpl.
      apply NoDup_app_comm. simpl. constructor; [|exact Hn].
      intro I. apply has_key_in in I. congruence.
Qed.

(* ------------------------------------------------------------ the mandatory check *)
Definition mand_present (d : list sval) : Prop :=
  forall ks, In (VMand ks) d -> forall k, In k ks -> In k (map key_of d).

Lemma map_fst_enc : forall d, map fst (map enc d) = map key_of d.
Proof. intro d. rewrite map_map. apply map_ext. apply key_of_enc. Qed.

Lemma chunks_u16 : forall ks fuel, (length (flat_map u16be ks) <= fuel)%nat ->
  chunks 2 fuel (flat_map u16be ks) = Ok (map u16be ks).
Proof.
  induction ks as [|k ks IH]; intros fuel Hf; [reflexivity|].
  change (flat_map u16be (k :: ks)) with ((k / 256) mod 256 :: k mod 256 :: flat_map u16be ks) in *.
  destruct fuel as [|f]; [simpl in Hf; lia|].
  cbn [chunks firstn skipn length Nat.ltb Nat.leb]. rewrite IH by (simpl in Hf; lia). reflexivity.
Qed.

Lemma find_key_enc : forall d, Forall good d ->
  find_key 0 (map enc d) =
  match find (fun v => key_of v =? 0) d with Some v => Some (snd (enc v)) | None => None end.
Proof.
  induction d as [|v d IH]; intro Hg; [reflexivity|]. inversion Hg; subst.
  unfold find_key in *. simpl. rewrite key_of_enc. destruct (key_of v =? 0); [reflexivity|].
  apply IH. assumption.
Qed.

Lemma mand_check_spec : forall d, Forall good d -> NoDup (map key_of d) ->
  (mand_check (map enc d) = Ok tt /\ mand_present d)
  \/ (mand_check (map enc d) = Err E_MISSING /\ ~ mand_present d).
Proof.
  intros d Hg Hn. unfold mand_check. rewrite find_key_enc by assumption.
  destruct (find (fun v => key_of v =? 0) d) as [v|] eqn:Ef.
  - apply find_some in Ef. destruct Ef as [Iv Kv]. apply N.eqb_eq in Kv.
    rewrite Forall_forall in Hg. pose proof (Hg v Iv) as Gv.
    destruct v; simpl in Kv; try discriminate; [|simpl in Gv; contradiction].
    simpl in Gv. destruct Gv as (G1 & G2 & G3). cbn [enc snd].
    rewrite chunks_u16 by lia. cbn [rbind].
    set (ks' := sort_by (fun k => k) ks).
    assert (P : Permutation ks' ks) by apply sort_by_perm.
    (* the mandatory parameter of the list is this one *)
    assert (U : forall ks2, In (VMand ks2) d -> ks2 = ks).
    { intros ks2 I2. clear - Iv I2 Hn. induction d as [|x d IH]; [contradiction|].
      simpl in Hn. inversion Hn; subst. destruct Iv as [E|Iv]; destruct I2 as [E2|I2]; subst.
      - inversion E2. reflexivity.
      - exfalso. apply H1. change 0 with (key_of (VMand ks2)). apply in_map. assumption.
      - exfalso. apply H1. change (key_of (VMand ks2)) with (key_of (VMand ks)). apply in_map. assumption.
      - apply IH; assumption. }
    destruct (forallb (fun c => has_key (be16 c) (map enc d)) (map u16be ks')) eqn:Ea.
    + left. split; [reflexivity|]. intros ks2 I2 k Ik. rewrite (U ks2 I2) in Ik.
      rewrite forallb_forall in Ea. specialize (Ea (u16be k)).
      rewrite be16_u16be in Ea.
      * rewrite <- map_fst_enc. apply has_key_in. apply Ea. apply in_map.
        eapply Permutation_in; [apply Permutation_sym; exact P|exact Ik].
      * rewrite Forall_forall in G3. specialize (G3 k Ik). lia.
    + right. split; [reflexivity|]. intro Mp.
      assert (forallb (fun c => has_key (be16 c) (map enc d)) (map u16be ks') = true); [|congruence].
      apply forallb_forall. intros c Ic. apply in_map_iff in Ic. destruct Ic as (k & Ec & Ik). subst c.
      assert (Ik' : In k ks) by (eapply Permutation_in; eauto).
      rewrite be16_u16be by (rewrite Forall_forall in G3; specialize (G3 k Ik'); lia).
      apply has_key_in. rewrite map_fst_enc. eapply Mp; eauto.
  - left. split; [reflexivity|]. intros ks I. exfalso.
    eapply find_none in Ef; [|exact I]. simpl in Ef. discriminate.
Qed.

(* ------------------------------------------------------------ FromText against the declared values *)
Theorem from_text_declared : forall t l, from_text orc t = Ok l ->
  exists d, declared_raw (parse_ip orc) (b64_dec orc) t = Some d
            /\ l = sort_by (@fst N bytes) (map enc d)
            /\ Forall good d /\ NoDup (map key_of d) /\ mand_present d
            /\ Forall (fun p => nlen (snd p) <= 65535) (map enc d).
Proof.
  intros t l H. unfold from_text in H.
  destruct (ft_loop orc (split_on 59 t) []) as [l0|e] eqn:El; cbn [rbind] in H; [|discriminate].
  destruct (ft_loop_ok _ _ _ (split_pieces_clean 59 t) El) as (d & D1 & D2 & D3 & D4 & D5).
  simpl in D2. subst l0.
  assert (Hn : NoDup (map key_of d)) by (rewrite <- map_fst_enc; apply D5; constructor).
  destruct (mand_check_spec d D3 Hn) as [[M1 M2]|[M1 M2]]; rewrite M1 in H; cbn [rbind] in H; [|discriminate].
  inversion H; subst l. exists d. unfold declared_raw. repeat split; assumption.
Qed.
