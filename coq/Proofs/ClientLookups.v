(* ClientLookups: FindMap and GetLocationByMap of the three drivers on the databases compiled from a data file. *)
From DnsV Require Import Base.Bytes Base.Ip Spec.Lpm Model.Rearranger Model.Location Model.Ecs.
From DnsV Require Import Model.Compile Spec.MapOfLists Proofs.MultiValue Proofs.MapOfLists Proofs.Batch Proofs.CompilePipe.
From DnsV Require Import Model.Text Model.Preproc Model.Accum Model.Handler Spec.ClientLocation.
From DnsV Require Import Model.Store Model.LookupV1 Model.LookupV2 Model.Serve Spec.Answer Spec.Rows Spec.AnswerExtra Spec.Declared.
From DnsV Require Import Proofs.ZoneCut Proofs.RevOrder Proofs.V2Store Proofs.ReadsNames.
From DnsV Require Import Proofs.Lpm Proofs.Location Proofs.Rearranger Proofs.RdbLocate Proofs.SquashKeys Proofs.MapV2.
From DnsV Require Import Proofs.Ecs Proofs.LinkEcsLpm Proofs.LinkRdbDb Proofs.LinkRdbModel.
From DnsV Require Import Proofs.DeclaredLink Proofs.DeclaredWf Proofs.FileLevel Proofs.AccumLink.
From DnsV Require Import Proofs.ClientSpecLink Proofs.ClientDbFacts.
From Coq Require Import Lia Permutation Sorted ZifyN ZifyNat ZifyBool.
From DnsV Require Import Proofs.ClientLink Proofs.ClientCdbLpm.
Open Scope N_scope.

(* ---------------------------------------------------------------- FindMap and GetLocationByMap on the compiled databases *)
Lemma lookup_in_once : forall decls d, NoDup (map decl_key decls) -> In d decls ->
  lookup_decl decls (md_kind d) (md_wild d) (md_name d) = Some (md_id d).
Proof.
  induction decls as [|x t IH]; intros d ND Hd; [destruct Hd|].
  cbn [map] in ND. inversion ND as [|? ? N1 N2]; subst. cbn [lookup_decl].
  change ((md_kind x =? md_kind d) && Bool.eqb (md_wild x) (md_wild d) && labels_eqb (md_name x) (md_name d))
    with (decl_matches (md_kind d) (md_wild d) (md_name d) x).
  destruct (decl_matches (md_kind d) (md_wild d) (md_name d) x) eqn:M.
  - apply decl_matches_spec in M as (A1 & A2 & A3). destruct Hd as [->|Hd]; [reflexivity|]. exfalso.
    apply N1. replace (decl_key x) with (decl_key d) by (unfold decl_key; congruence). apply in_map. exact Hd.
  - destruct Hd as [->|Hd]; [|exact (IH d N2 Hd)]. exfalso.
    assert (X : decl_matches (md_kind d) (md_wild d) (md_name d) d = true) by (apply decl_matches_spec; auto). congruence.
Qed.

Section Lookups.
Variable sort : list point -> list point.
Hypothesis Hsort : sort_spec sort.
Variable o : toracles.
Variable serial : N.
Variable f : list bytes.
Hypothesis WF : wf_file o serial f = true.
Hypothesis LOK : loc_file_okb o serial f = true.
Let rs := parsed o serial f.
Hypothesis ONCE : maps_once rs.
Hypothesis Hw : forall m, wf_subnets (declared_subnets rs m).

Lemma Hw_nets : forall m, wf_subnets (file_nets rs m).
Proof. intros m. rewrite <- declared_subnets_nets. apply Hw. Qed.

(* ---- FindMap *)
Lemma find_map_v1 : forall dbl kind n, kind = 77 \/ kind = 56 -> wf_labelsb n = true ->
  grouped (R_rdb sort o serial f false) dbl ->
  v1_find_map dbl [0; kind] (pack_labels n) = Ok (option_map mapid_bytes (map_choice (declared_maps rs) kind n)).
Proof.
  intros dbl kind n Hk Wn G. apply (v1_find_map_choice (declared_maps rs) kind dbl mv1); [|exact Wn | reflexivity].
  intros n' wild W. change ([0; kind] ++ pack_labels n' ++ [suffix_of wild]) with (mkey false kind n' wild).
  pose proof (R_rdb_map_vals sort o serial f WF LOK ONCE false kind wild n' Hk W) as V. fold rs in V.
  destruct (lookup_decl (declared_maps rs) kind wild n') as [id|]; cbn [option_map].
  - exact (grouped_single _ dbl _ _ G V).
  - exact (grouped_none _ dbl _ G V).
Qed.

Lemma find_map_cdb : forall stream kind n, kind = 77 \/ kind = 56 -> wf_labelsb n = true ->
  Permutation stream (R_cdb o serial f) ->
  cdb_find_map (S (length (pack_labels n))) stream [0; kind] (pack_labels n) true =
  Ok (option_map mapid_bytes (map_choice (declared_maps rs) kind n)).
Proof.
  intros stream kind n Hk Wn P. apply (cdb_find_map_choice (declared_maps rs) kind stream (fun v => v)); [|exact Wn | reflexivity].
  intros n' wild W. change ([0; kind] ++ pack_labels n' ++ [suffix_of wild]) with (mkey false kind n' wild).
  pose proof (R_cdb_map_vals o serial f WF LOK ONCE kind wild n' Hk W) as V. fold rs in V.
  destruct (lookup_decl (declared_maps rs) kind wild n') as [id|]; cbn [option_map].
  - exact (stream_single _ stream _ _ P V).
  - exact (stream_none _ stream _ P V).
Qed.

Lemma find_map_v2 : forall dbl kind n, kind = 77 \/ kind = 56 -> wf_labelsb n = true ->
  grouped (R_rdb sort o serial f true) dbl ->
  v2_find_map dbl [0; kind] (pack_labels n) = Ok (option_map mapid_bytes (map_choice (declared_maps rs) kind n)).
Proof.
  intros dbl kind n Hk Wn G.
  pose proof (rs_loc o serial f LOK) as RL. fold rs in RL.
  assert (V : forall d, In d (declared_maps rs) -> md_kind d = kind ->
            vals_of (mkey true kind (md_name d) (md_wild d)) (R_rdb sort o serial f true) = [mapid_bytes (md_id d)]).
  { intros d Hd Ek. destruct (declared_maps_wf rs RL d Hd) as [_ Wd].
    pose proof (R_rdb_map_vals sort o serial f WF LOK ONCE true kind (md_wild d) (md_name d) Hk Wd) as X. fold rs in X.
    rewrite <- Ek in X at 2. rewrite (lookup_in_once _ d ONCE Hd) in X. exact X. }
  apply (v2_find_map_choice (declared_maps rs) kind dbl).
  - intros d Hd. exact (proj2 (declared_maps_wf rs RL d Hd)).
  - intros d d' Hd Hd' E1 E2 E3. rewrite (once_uniq _ ONCE d d' Hd Hd' E1 E2 E3). reflexivity.
  - intros d Hd Ek. rewrite <- mkey_v2. exact (grouped_in_single _ dbl _ _ G (V d Hd Ek)).
  - intros k v Hin Hp. destruct (grouped_only _ dbl k v G Hin) as [NE X].
    destruct (vals_of k (R_rdb sort o serial f true)) as [|v0 t] eqn:E0; [contradiction|].
    assert (Hin0 : In (k, v0) (R_rdb sort o serial f true)) by (apply vals_of_In; rewrite E0; left; reflexivity).
    destruct (R_rdb_map_only sort o serial f WF LOK k v0 kind Hk Hin0 Hp) as (d & Hd & Ek & -> & _). fold rs in Hd.
    exists d. split; [exact Hd|]. split; [exact Ek|]. split; [apply mkey_v2|].
    apply X. rewrite <- E0. exact (V d Hd Ek).
  - exact Wn.
Qed.

(* ---- GetLocationByMap *)
Lemma gl_rdb : forall v2 (db : Model.Batch.store) dbl,
  kvs_ok (flat_map (recs_of bytes (conv_line o serial false v2)) f) ->
  rdb_compilation bytes (conv_line o serial true v2) (accum_rdb sort o serial) [feature_kv v2] f db ->
  lists_store dbl db ->
  forall m c, wf_client c -> exists r, rdb_get_location dbl m c = Ok r /\
    hit_of r = lpm (file_nets rs m) (cfam c) (search_addr true c) (eff_plen c).
Proof.
  intros v2 db dbl KV C Hl.
  exact (rdb_gl_is_lpm sort (file_nets rs) dbl Hsort Hw_nets
           (rdb_compiled_holds_points sort Hsort o serial v2 f WF (loc_file_no_rp o serial f LOK) Hw_nets KV db dbl C Hl)).
Qed.

Lemma find_pred : forall (S : list subnet) a len s, wf_subnets S -> In s S -> s_addr s = a -> s_len s = len ->
  List.find (fun s => (s_addr s =? a) && (s_len s =? len)) S = Some s.
Proof.
  intros S a len s W Hs Ea El.
  destruct (List.find (fun s => (s_addr s =? a) && (s_len s =? len)) S) as [s'|] eqn:E.
  - apply find_some in E as [Hs' C]. apply andb_true_iff in C as [C1 C2]. apply N.eqb_eq in C1, C2.
    f_equal. apply (wf_same_block S s' s W Hs' Hs); congruence.
  - exfalso. pose proof (find_none _ _ E s Hs) as X. cbn beta in X. rewrite Ea, El, !N.eqb_refl in X. discriminate X.
Qed.

(* C03 on the compiled CDB: GetLocationByMap over the Put stream is longest-prefix match over the
   subnets the file declares (both prefix-set modes) *)
Theorem cdb_compiled_is_lpm : forall sep stream, Permutation stream (R_cdb o serial f) ->
  forall m a bits ones plen, a < two128 -> client_plen a bits ones plen ->
  cdb_get_location sep stream m (mkClient (Some a) bits ones) =
  Ok (lpm_result (lpm (file_nets rs m) (fam (clean_mask a plen)) (clean_mask a plen) plen)).
Proof.
  intros sep stream P m a bits ones plen Halt Hc. unfold file_nets.
  destruct (R_cdb_prefix_vals o serial f WF LOK) as (V47 & V52 & V54). fold rs in V47, V52, V54.
  apply (cdb_is_lpm_gen sep (net_dfile rs) stream m a bits ones plen (Hw_nets m)
           (stream_single _ stream _ _ P V47) (stream_single _ stream _ _ P V52) (stream_single _ stream _ _ P V54)); [| |exact Halt|exact Hc].
  - intros s Hs. fold (file_nets rs m) in Hs. rewrite <- declared_subnets_nets in Hs.
    destruct (wf_subnetb_spec s (wf_in _ s (Hw m) Hs)) as (_ & Alt & _).
    pose proof (R_cdb_net_vals o serial f WF LOK m (s_addr s) (s_len s) Alt (Hw m)) as V. fold rs in V.
    rewrite (find_pred _ _ _ s (Hw m) Hs eq_refl eq_refl) in V. exact (stream_single _ stream _ _ P V).
  - intros x l Hx Hno.
    pose proof (R_cdb_net_vals o serial f WF LOK m x l Hx (Hw m)) as V. fold rs in V.
    destruct (List.find (fun s => (s_addr s =? x) && (s_len s =? l)) (declared_subnets rs m)) as [s'|] eqn:E.
    + exfalso. apply find_some in E as [Hs' C]. apply andb_true_iff in C as [C1 C2]. apply N.eqb_eq in C1, C2.
      apply (Hno s'); [fold (file_nets rs m); rewrite <- declared_subnets_nets; exact Hs' | auto].
    + exact (stream_none _ stream _ P V).
Qed.

Lemma gl_cdb : forall sep stream, Permutation stream (R_cdb o serial f) ->
  forall m c, wf_client c -> exists r, cdb_get_location sep stream m c = Ok r /\
    hit_of r = lpm (file_nets rs m) (cfam c) (search_addr true c) (eff_plen c).
Proof.
  intros sep stream P.
  apply (c03_shape_suffices (file_nets rs) (cdb_get_location sep stream)).
  intros m a bits ones plen Halt Hc. rewrite c03_lpm_result_eq. apply c03_client_plen_eq in Hc.
  exact (cdb_compiled_is_lpm sep stream P m a bits ones plen Halt Hc).
Qed.
End Lookups.
