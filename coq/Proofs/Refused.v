(* C01, first clause, for the v1 reader over the compiled store: REFUSED exactly for names
   outside every zone visible to the client. *)
From DnsV Require Import Base.Bytes Model.Store Model.LookupV1 Model.LookupV2 Model.Serve Spec.Answer Spec.Rows.
From DnsV Require Import Proofs.Answer Proofs.Compile Proofs.Shape Proofs.ZoneCut.
Open Scope N_scope.

Definition refused_reply (q : query) (ecs : option ecsval) : outcome :=
  OReply (mkResp (q_id q) (question_of q) 5 false [] [] [] (opt_of q ecs)).

Section Any.
Variable C : Type.
Variable rd : reader C.

Lemma serve_sections_rcode : forall q ecs loc auth zc an rcode c x,
  serve_sections C rd q ecs loc auth zc an rcode c = OReply x -> rs_rcode x = rcode \/ rs_rcode x = 2.
Proof.
  intros q ecs loc auth zc an rcode c x H. unfold serve_sections in H.
  destruct (parse_name zc) as [[zname rest]|]; [|inversion H; subst; right; reflexivity].
  apply lift_reply in H as [[nsec c4] [_ H]]. apply lift_reply in H as [[m2 c6] [_ H]].
  inversion H; subst. left; reflexivity.
Qed.

Lemma serve_answer_rcode : forall q ecs loc max packed ar c x,
  serve_answer C rd q ecs loc max packed ar c = OReply x -> rs_rcode x <> 5.
Proof.
  intros q ecs loc max packed ar c x H. unfold serve_answer in H.
  apply lift_reply in H as [[[an rcode] c3] [E H]].
  apply serve_sections_rcode in H.
  assert (R : rcode = 0 \/ rcode = 3).
  { destruct (a_auth ar).
    - destruct (rd_answer C rd c packed (a_zc ar) (q_name q) (q_type q) loc max) as [[[an' found] c']| |]; cbn in E; try discriminate.
      inversion E; subst. destruct ((item_count an =? 0) && negb found); [right | left]; reflexivity.
    - inversion E; subst. left; reflexivity. }
  destruct H as [H|H], R as [R|R]; rewrite H; try rewrite R; discriminate.
Qed.
End Any.

Section V1.
Variable b : backend.
Variable recs : list record.
Variable L : bytes.
Hypothesis W : wf_recs recs.
Hypothesis HL : length L = 2%nat.
Hypothesis Hb : b <> RDB2.
Hypothesis V : wf_view L recs = true.

Theorem refused_iff_outside_zones_v1 : forall q n ecs max,
  wf_name n -> lower_bytes (q_name q) = pack n -> (q_edns q = None \/ q_edns q = Some 0) ->
  (zone_cut L recs n = None <->
   serve b (store_v1 recs) q (LocOk L) ecs max = refused_reply q ecs).
Proof.
  intros q n ecs max Hn Hq Hv.
  assert (SV : serve b (store_v1 recs) q (LocOk L) ecs max =
              lift (rd_auth unit (reader_v1 b (store_v1 recs)) tt (pack n) L)
                (fun x => let '(ar, c1) := x in
                   if a_err ar then servfail q
                   else if negb (a_ns ar) && negb (a_auth ar) then refused_reply q ecs
                   else lift (serve_ds unit (reader_v1 b (store_v1 recs)) q L (pack n) ar c1)
                          (fun r => match r with
                                    | Some (ar', c2) => serve_answer unit (reader_v1 b (store_v1 recs)) q ecs L max (pack n) ar' c2
                                    | None => servfail q
                                    end))).
  { destruct b; [| |contradiction]; unfold serve, serve_with; rewrite Hq; destruct Hv as [E|E]; rewrite E; reflexivity. }
  rewrite SV. unfold reader_v1 at 1. cbn [rd_auth]. unfold is_authoritative_v1.
  rewrite (is_auth_walk b recs L W HL n (S (length (pack n))) Hn V (Nat.lt_succ_diag_r _)).
  cbn [bind lift]. destruct (zone_cut L recs n) as [z|]; cbn [a_err a_ns a_auth negb andb].
  - split; [discriminate|]. intros H. exfalso.
    apply lift_reply in H as [r [_ H]].
    destruct r as [[ar' c2]|].
    + apply serve_answer_rcode in H. apply H. reflexivity.
    + inversion H.
  - split; [reflexivity | reflexivity].
Qed.
End V1.
