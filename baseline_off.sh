#!/bin/sh
# Runs the repository's pinned test suite with the verif guard OFF on a scratch
# copy of /repo (the pinned command uses -mod=mod, which rewrites go.mod in place).
set -e
S=$(mktemp -d "${VERIF_SCRATCH:-/var/tmp}/verif-baseline-XXXXXX")
trap 'rm -rf "$S"' EXIT
rsync -a --exclude .git /repo/ "$S/repo/"
export GOFLAGS=-mod=mod GOPROXY=off GOSUMDB=off GOTOOLCHAIN=local
for m in dnsrocks dnsrocks/go-cdb-mods; do
  (cd "$S/repo/$m" && go build ./... && go test -vet=off -count=1 -timeout 25m ./...)
done
