#!/bin/sh
# Runs the repository's pinned test suite with the verif guard OFF on a scratch
# copy of /repo (the pinned command uses -mod=mod, which rewrites go.mod when run
# in place) and compares with /root/.vp/BASELINE.json's stable_pass set.
# Packages that do not link under go1.23 (db, dnsserver, fbserver, cmd/*) fail to
# build in the pinned run as well and are not part of the 365.
S=$(mktemp -d "${VERIF_SCRATCH:-/var/tmp}/verif-baseline-XXXXXX")
trap 'rm -rf "$S"' EXIT
rsync -a --exclude .git /repo/ "$S/repo/"
export GOFLAGS=-mod=mod GOPROXY=off GOSUMDB=off GOTOOLCHAIN=local
for m in dnsrocks dnsrocks/go-cdb-mods; do
  (cd "$S/repo/$m" && go test -json -vet=off -count=1 -timeout 25m ./... ) >> "$S/out.json" 2>/dev/null
done
python3 - "$S/out.json" <<'PY'
import json, sys
passed, failed = set(), set()
for line in open(sys.argv[1], errors="replace"):
    line = line.strip()
    if not line.startswith("{"):
        continue
    try:
        ev = json.loads(line)
    except Exception:
        continue
    t = ev.get("Test")
    if t is None:
        continue
    tid = ev.get("Package", "") + "::" + t
    if ev.get("Action") == "pass":
        passed.add(tid)
    elif ev.get("Action") == "fail":
        failed.add(tid)
passed -= failed
want = set(json.load(open("/root/.vp/BASELINE.json"))["stable_pass"])
missing = sorted(want - passed)
print("baseline (guard off): %d of %d pinned tests pass; %d failed tests overall" % (len(want & passed), len(want), len(failed)))
for m in missing[:40]:
    print("NOT PASSING:", m)
sys.exit(1 if missing else 0)
PY
