#!/bin/sh
# lib/seedpipe.sh <name>...   confirm each seed from /tmp/seed-<name> and test detection; logs under /var/tmp
cd "$(dirname "$0")/.."
for s in "$@"; do
  python3 lib/seedconfirm.py /tmp/seed-$s $s > /var/tmp/confirm-$s.log 2>&1
  if [ -d seeded/$s ]; then python3 lib/seedtest.py seeded/$s > /var/tmp/seedtest-$s.log 2>&1; fi
done
