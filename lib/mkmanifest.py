#!/usr/bin/env python3
"""Writes MANIFEST.json from the table below (kept in one place so that it is
always valid and the not_applicable list stays current)."""
import json, os
V = os.path.dirname(os.path.dirname(os.path.abspath(__file__)))
ALL = ["C%02d" % i for i in range(1, 21)]

# property -> (technique, level text, level note, design ref)
CLAIMED = {
 "C17": ("Coq theorems (round trip, separator freedom) over a Gallina model of Bquote/Bunquote + strconv; differential correspondence run impl vs model vs spec inside Coq (vm_compute)",
         "Machine-checked proof for all byte strings and every IsPrint oracle that unquote(quote b) = b and that the quoted form has no ',' ':' or newline, about a hand-written executable model of quote.go and the strconv/utf8 functions it calls; the model is tied to the code on every run by evaluating it in Coq on the strings the real Bquote/Bunquote were run on (all strings of length <= 1 or <= 2, structured and malformed streams).",
         "Trusted: Coq kernel + vm_compute; hand model of strconv.Quote/UnquoteChar/utf8 (go1.23.5) checked only by the differential run; strconv.IsPrint is an oracle parameter; Go slice aliasing not modelled.",
         "DESIGN.md section 6 C17"),
}
NOT_YET = "not yet built in this round of work (claimed in DESIGN.md; machinery pending)"

def main():
    checks = []
    for pid in ALL:
        if pid not in CLAIMED:
            continue
        tech, text, note, ref = CLAIMED[pid]
        checks.append({
            "property_id": pid,
            "quick_cmd": "./check %s --tier quick" % pid,
            "thorough_cmd": "./check %s --tier thorough" % pid,
            "evidence_file": "/verif/evidence/%s.json" % pid,
            "replay_cmd_template": "./check %s --replay {path}" % pid,
            "engine": "coq-diff",
            "level_claimed": {"category": "proof", "text": text, "design_ref": ref},
            "level_note": note,
            "technique": tech,
        })
    hooks_commits = []
    hp = os.path.join(V, "hooks_commits.txt")
    if os.path.exists(hp):
        hooks_commits = [l.strip() for l in open(hp) if l.strip()]
    m = {
        "version": 1,
        "setup_cmd": "./setup.sh",
        "hooks": {
            "guard": "verif",
            "enable": "go build -tags verif -ldflags=-checklinkname=0 (harness module /verif/harness with replace => /repo/dnsrocks)",
            "baseline_off_cmd": "./baseline_off.sh",
            "source_commits": hooks_commits,
            "add_only": True,
        },
        "engines": [{"name": "coq-diff", "path": "/verif/check",
                     "serves_properties": sorted(CLAIMED.keys()),
                     "kind_free_text": "Coq 8.16.1 development (models, specs, proofs) + Go differential harness + vm_compute evaluation of model and spec on the harness cases"}],
        "checks": checks,
        "notes": "See DESIGN.md. Every check rebuilds the Coq development and the Go harness against /repo's working tree.",
        "not_applicable": [{"property_id": p, "reason": NOT_YET} for p in ALL if p not in CLAIMED],
    }
    json.dump(m, open(os.path.join(V, "MANIFEST.json"), "w"), indent=1)

if __name__ == "__main__":
    main()
