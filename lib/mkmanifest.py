#!/usr/bin/env python3
"""Writes MANIFEST.json from the table below (kept in one place so that it is
always valid and the not_applicable list stays current)."""
import json, os
V = os.path.dirname(os.path.dirname(os.path.abspath(__file__)))
ALL = ["C%02d" % i for i in range(1, 21)]

# Properties whose slice is built, green on the unchanged tree and integrated by the coordinator.
READY = ["C17", "C11", "C06", "C15", "C20", "C14", "C19", "C18", "C16", "C09", "C10", "C01", "C02", "C04", "C13", "C07", "C08", "C03", "C05", "C12"]

COMMON_NOTE = ("Trusted: Coq 8.16.1 kernel + vm_compute (no native_compute, no extraction); the hand-written Gallina model is tied to the "
               "Go code only by the differential correspondence run (Go harness on /repo's working tree, model and spec evaluated inside Coq on the same cases); "
               "Go runtime, RocksDB, miekg/dns and coredns are not modelled below the interfaces named in DESIGN.md section 8. ")

# property -> (technique, level text, level note, design ref)
CLAIMED = {
 "C01": ("Coq end-to-end theorem C01_file_level (text of a well-formed data file -> codec model -> any C07 compiler pipeline -> CDB / RocksDB-v1 / RocksDB-v2 store -> serve model refines the declarative spec over the records the file declares), built from C01_response_is_spec, C02_v2_equals_v1, C07 losslessness and the link lemma convert = rows_of o declared; per-case compile/serve/spec correspondence in Coq (vm_compute) against three real servers",
         "Machine-checked theorems about an executable model of the lookup and serve path (v1 reader, v2 closest-key reader, handler) relating it to a short declarative specification over the declared records; the model runs over the real compiled database dumps and is compared with the responses of real CDB / RocksDB-v1 / RocksDB-v2 servers on generated data files and queries, the spec with the same responses.",
         COMMON_NOTE + "Weighted address choice is compared as a sub-multiset of the right size (C11 owns the draw); parts not yet proved carry the suffix _partial in Properties/C01.v.", "DESIGN.md section 6 C01"),
 "C02": ("Coq simulation theorem C02_v2_equals_v1 (closest-key reader = label-by-label reader on compiled stores, incl. seek_skip_sound and cache transparency), C02_three_backends; pairwise comparison of three real backends on generated files",
         "Machine-checked proof that serve over the v2 (reversed, sorted) store equals serve over the v1 store for every well-formed record set, query and location (Leibniz equality of outcomes, so also no panic / no fuel exhaustion on the v2 side), that CDB equals RocksDB-v1, and that the context cache is transparent; the check compares the projected responses of real CDB, RocksDB-v1 and RocksDB-v2 servers pairwise for every generated query and ties both reader models to the code by correspondence.",
         COMMON_NOTE, "DESIGN.md section 6 C02"),
 "C03": ("Coq theorems: RocksDB range-point lookup and CDB prefix-set lookup refine longest-prefix match; map choice = exact then nearest wildcard; correspondence against Rearranger and three real backends",
         "Machine-checked refinement of the rearranger sweep (sort, stack, squash) + predecessor search and of the CDB descending prefix walk to an independent longest-prefix-match function over N < 2^128, for all laminar subnet sets and all masked clients; models tied to the real Rearranger and real CDB/RocksDB lookups on critical-set clients.",
         COMMON_NOTE + "sort.Slice enters as an abstract sorted permutation; subnets ::/N with 1<=N<=79 are excluded by wf_subnets (known finding F20).", "DESIGN.md section 6 C03"),
 "C04": ("Corollary of C01 (spec_response depends only on the client's view) + metamorphic foreign-location edits on three real backends",
         "Non-interference theorem over the serve model and spec (records of other locations cannot influence a response) plus a metamorphic differential run: data file vs. the same file with foreign-location edits must give identical responses on all three real backends.",
         COMMON_NOTE, "DESIGN.md section 6 C04"),
 "C05": ("Coq invariants over an interleaving model of queries and reload steps (all schedules); model schedules replayed on the real handler through verif yield points with generation-stamped databases",
         "Small-step model of reloadMu, the served pointer, per-backend content generations and in-flight queries; visibility after return, failed reload = no-op, monotonicity and single-generation proved by invariant for all schedules (refuted with witnesses where the code really violates them: F5, F23, F24); schedules are replayed against the real FBDNSDB.",
         COMMON_NOTE + "Go memory model and scheduler outside the yield points are not modelled (C14).", "DESIGN.md section 6 C05"),
 "C06": ("Coq invariant over unbounded operation histories of the refcount/reload state machine; histories replayed on real db.DB / FBDNSDB with an instrumented backend",
         "State machine of wrappers, refcounts, destroyable flags and the reload goroutine/timeout handshake; no use after close, no double close and no leak proved for every history by induction; event logs of an instrumented DBI driven through the real code are compared with the model. A small-step model with reloadMu as an explicit component (Model/ReloadLock.v) carries the same safety for every thread schedule, with witness schedules refuting the variants without the lock; operations attempted inside a reload, free-running release/retirement races and real queries through the cache-enabled handler are part of the histories.",
         COMMON_NOTE, "DESIGN.md section 6 C06"),
 "C07": ("Coq theorems: builder, batch and CDB pipelines are permutation-invariant and lossless (parametric in the codec); dumps of real compilations under a grid of settings vs. the line-by-line codec",
         "Pipelines modelled parametric in the codec; losslessness and setting-independence proved for every stream order, batch order and sorted permutation; real compilations under many settings are dumped and compared with each other, with the implementation's own codec output and with the pipeline model. The line reader (bufio.ScanLines, leading blanks, comments) is a Coq model too, so the file-level theorems quantify over the bytes of the data file.",
         COMMON_NOTE + "RocksDB ingest / WriteBatch atomicity trusted.", "DESIGN.md section 6 C07"),
 "C08": ("Coq multiset algebra: apply_diff (compile A) d = compile B for every line diff in any order; all-or-nothing on failure; real ApplyDiff vs fresh compile dumps",
         "apply_diff modelled over the batch model; equality with recompilation, chains and failure atomicity proved; real rdb.ApplyDiff runs on generated file pairs and chains are dumped and compared with fresh compiles and with the model.",
         COMMON_NOTE, "DESIGN.md section 6 C08"),
 "C09": ("Coq round-trip theorems for the text codec (parse/marshal/convert) built on C17; preprocessing equivalence; real DecodeLn/MarshalText/ConvertLn and preprocess+compile dumps",
         "Per-type round trip marshal . parse preserves the compiled key/values and is idempotent, for all well-formed lines of the modelled types; preprocessing preserves the compiled database; real codec and preprocessor run on generated lines of all 17 types and files.",
         COMMON_NOTE + "Types outside modelled_type are checked by the differential run only; open findings F8, F12, F26, F27.", "DESIGN.md section 6 C09"),
 "C10": ("Coq theorems on OPT/ECS echo and scope (corollary of C03's LPM theorem); three real handlers with generated OPT/ECS queries",
         "ECS location, scope arithmetic (uint8, -96, defaults) and OPT/ECS attachment per response path modelled and proved against the statement; real handlers on CDB/RocksDB-v1/v2 queried with generated ECS options; scope checked against an independent LPM oracle.",
         COMMON_NOTE + "Open finding F21 (BADVERS reply built by coredns has no ECS).", "DESIGN.md section 6 C10"),
 "C11": ("Coq invariant (slots hold the top-k keys) for every key order, candidate list and max; Coquelicot integral identity for proportionality (partial); scripted-source differential run + end-to-end bounded/sound checks",
         "Wrs.Add/record modelled over an abstract key order; bounded, sound, exact count and zero-weight clauses proved for all inputs (F18 corner draws refuted with witnesses and excluded by hypothesis); proportionality as a real-analysis identity (partial: probability reading assumed); real Wrs under scripted draws and real servers compared with model and spec.",
         COMMON_NOTE + "C11_proportional_partial depends on the standard library's real-number/classical axioms (named in the evidence).", "DESIGN.md section 6 C11"),
 "C12": ("Coq invariant: every cache entry equals serve_core of the current generation; interleaving model shared with C05; cache-on vs cache-off real handlers on the same histories and schedules",
         "Cache wrapper modelled around an abstract serve_core; cached = uncached for all sequential histories; no stale answer after a completed reload for all schedules outside the insert-after-purge window (F6, refuted with a witness schedule); real handlers compared.",
         COMMON_NOTE, "DESIGN.md section 6 C12"),
 "C13": ("Coq theorems C13_no_panic (all three readers: the serve model with checked slice accessors = Go panics never yields Panic nor runs out of fuel; v2 under the decidable guard wf_store_v2, which compiled stores satisfy and which is re-checked on every real dump), reply shape, BADVERS; fuzzed wire-valid messages incl. a UDP size class on three real backends",
         "Every index/slice expression of the serve path is modelled with an explicit Panic outcome; absence of Panic and reply shape (ID, question, QR, BADVERS) proved for all queries; generated wire-valid messages run against real handlers with panic recording.",
         COMMON_NOTE + "Packing/truncation by miekg/coredns trusted; open finding F22 (BADVERS reply without question).", "DESIGN.md section 6 C13"),
 "C14": ("Coq lockset theorem over an access table REGENERATED from the Go source on every run (translator gotab); iterator-pool interleaving model; race-detector stress harness for witnesses",
         "Every pair of conflicting accesses of tracked shared fields and of package-level variables by concurrent roles holds a common lock, is channel-ordered or is a listed exception - proved by vm_compute over the regenerated finite table; pool conservation and progress by invariant; a -race stress run supplies concrete schedules.",
         COMMON_NOTE + "Partial by nature: lockset discipline is sufficient not necessary; Go memory model, cgo/RocksDB internals not modelled.", "DESIGN.md section 6 C14"),
 "C15": ("Coq refinement of the value-list codec and batch execution to a map of lists, for all histories; real RocksDB histories vs model vs spec",
         "append/del/chunk codec and execute_batch modelled as written; refinement to key -> list of values, batch = adds then dels, failed batch = no-op proved for every history and every sorted permutation; histories run on a real RocksDB directory, with session boundaries (close and re-open) and backups accumulating in one backup directory; a restore yields the latest snapshot (C15_backup_restore_yields_latest_backup).",
         COMMON_NOTE + "RocksDB Get/WriteBatch/backup engine trusted.", "DESIGN.md section 6 C15"),
 "C16": ("Coq linear-probing invariant for any hash function: lookups return exactly the written values in order; dump/make round trip; real writer/reader/Dump/Make",
         "CDB writer, reader (loop counter), dump and make modelled parametric in the hash; exact lookup proved for all pair lists under fits32 and ANY hash (collisions, wrap-around); real files compared byte-wise and lookup-wise.",
         COMMON_NOTE + "That writer and reader use the same hash in Go is established by the differential run (keys of every length 0..200).", "DESIGN.md section 6 C16"),
 "C17": ("Coq theorems (round trip, separator freedom) over a Gallina model of Bquote/Bunquote + strconv; differential correspondence run impl vs model vs spec inside Coq (vm_compute)",
         "Machine-checked proof for all byte strings and every IsPrint oracle that unquote(quote b) = b and that the quoted form has no ',' ':' or newline, about a hand-written executable model of quote.go and the strconv/utf8 functions it calls; the model is tied to the code on every run by evaluating it in Coq on the strings the real Bquote/Bunquote were run on.",
         COMMON_NOTE + "strconv.IsPrint is an oracle parameter; Go slice aliasing not modelled.", "DESIGN.md section 6 C17"),
 "C18": ("Coq theorems: accepted lists are sorted/unique, decode to the declared values under an independent RFC 9460 decoder, mandatory checks, text round trip outside F8; real FromText/ToWire/ToText + miekg decoding",
         "svcb FromText/ToWire/ToText modelled with library calls as oracles; conformance against an independent Coq decoder proved for all accepted lists; real code run on generated lists and cross-decoded by miekg/dns.",
         COMMON_NOTE + "Open finding F8 (v4-mapped ipv6hint prints as dotted quad).", "DESIGN.md section 6 C18"),
 "C19": ("Coq theorems: window = spec set for every timed history; counters as a function of the response class, once each; increments commute; real windows in real time + recording Stats/Logger on real handlers",
         "Sliding window, Stats.Get and the handler's counter/log calls modelled; exactness for all timed histories and counter laws proved; real windows with short lifetimes and real handlers with recording Stats/Logger compared.",
         COMMON_NOTE + "Real-time runs keep events 150 ms away from expiry instants.", "DESIGN.md section 6 C19"),
 "C20": ("Coq composition lemmas for the front-handler chain over an abstract database handler; real fbserver on loopback UDP/TCP vs in-process handler",
         "serve_mux guard, max-answer injection, ANY refusal and whoami modelled; transparency, HINFO-only and no-question clauses proved for all queries and configurations; truncation over an abstract size function (partial); real server exchanges compared with the bare handler.",
         COMMON_NOTE + "Sockets, miekg server loop and packing are runtime: transport equality is differential only.", "DESIGN.md section 6 C20"),
}
NOT_YET = "slice not yet integrated in this round of work (claimed in DESIGN.md; machinery being built)"

def main():
    checks = []
    for pid in ALL:
        if pid not in READY:
            continue
        tech, text, note, ref = CLAIMED[pid]
        checks.append({
            "property_id": pid,
            "quick_cmd": "./check %s --tier quick" % pid,
            "thorough_cmd": "./check %s --tier thorough" % pid,
            "evidence_file": "/verif/evidence/%s.json" % pid,
            "replay_cmd_template": "./check %s --replay {path}" % pid,
            "engine": "coq-diff",
            "level_claimed": {"category": "proof", "text": text, "design_ref": ref},
            "level_note": note,
            "technique": tech,
        })
    hooks_commits = []
    hp = os.path.join(V, "hooks_commits.txt")
    if os.path.exists(hp):
        hooks_commits = [l.strip() for l in open(hp) if l.strip()]
    m = {
        "version": 1,
        "setup_cmd": "./setup.sh",
        "hooks": {
            "guard": "verif",
            "enable": "go build -tags verif -ldflags=-checklinkname=0 (harness module /verif/harness with replace => /repo/dnsrocks)",
            "baseline_off_cmd": "./baseline_off.sh",
            "source_commits": hooks_commits,
            "add_only": True,
        },
        "engines": [{"name": "coq-diff", "path": "/verif/check",
                     "serves_properties": sorted(READY),
                     "kind_free_text": "Coq 8.16.1 development (models, specs, proofs) + Go differential harness + vm_compute evaluation of model and spec on the harness cases"}],
        "checks": checks,
        "notes": "See DESIGN.md. Every check rebuilds the Coq development and the Go harness against /repo's working tree.",
        "not_applicable": [{"property_id": p, "reason": NOT_YET} for p in ALL if p not in READY],
    }
    json.dump(m, open(os.path.join(V, "MANIFEST.json"), "w"), indent=1)

if __name__ == "__main__":
    main()
