#!/usr/bin/env python3
"""Replaces the seeded-change table in DESIGN.md (between the SEEDTABLE markers) with lib/seedsummary.py's output."""
import os, re, subprocess
V = os.path.dirname(os.path.dirname(os.path.abspath(__file__)))
p = os.path.join(V, "DESIGN.md")
s = open(p).read()
tab = subprocess.check_output(["python3", os.path.join(V, "lib", "seedsummary.py")]).decode()
block = "<!-- SEEDTABLE BEGIN -->\n" + tab + "<!-- SEEDTABLE END -->"
if "<!-- SEEDTABLE BEGIN -->" in s:
    s = re.sub(r"<!-- SEEDTABLE BEGIN -->.*?<!-- SEEDTABLE END -->", lambda m: block, s, flags=re.S)
else:
    s = s.replace("SEEDTABLE", block, 1)
open(p, "w").write(s)
