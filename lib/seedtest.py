#!/usr/bin/env python3
"""Runs checks against a seeded change without touching /repo.

  lib/seedtest.py seeded/<id> [Cxx ...]     (default: the property named in meta.json)

Creates a scratch worktree of /repo HEAD, applies seeded/<id>/patch.diff, runs
`VERIF_REPO=<worktree> ./check Cxx --tier quick` for each property, prints the
verdict lines and records them in seeded/<id>/result.json.  The worktree and
the replays written by these runs are removed afterwards.
"""
import json
import os
import shutil
import subprocess
import sys
import tempfile
import time

V = os.path.dirname(os.path.dirname(os.path.abspath(__file__)))


def main():
    sd = os.path.abspath(sys.argv[1])
    meta = json.load(open(os.path.join(sd, "meta.json")))
    props = sys.argv[2:] or [meta["property"]]
    wt = tempfile.mkdtemp(prefix="verif-seedwt-", dir="/var/tmp")
    os.rmdir(wt)
    subprocess.check_call(["git", "-C", "/repo", "worktree", "add", "-q", "--detach", wt, "HEAD"])
    results = {}
    try:
        r = subprocess.run(["git", "-C", wt, "apply", "--whitespace=nowarn", os.path.join(sd, "patch.diff")],
                           capture_output=True, text=True)
        if r.returncode != 0:   # /repo moved on since the seed was confirmed: merge
            r = subprocess.run(["git", "-C", wt, "apply", "--3way", "--whitespace=nowarn", os.path.join(sd, "patch.diff")],
                               capture_output=True, text=True)
        if r.returncode != 0:
            print("patch does not apply:", r.stderr)
            return 2
        for p in props:
            t = time.time()
            env = dict(os.environ, VERIF_REPO=wt)
            r = subprocess.run([os.path.join(V, "check"), p, "--tier", "quick"], cwd=V, env=env,
                               capture_output=True, text=True)
            lines = [l for l in r.stdout.split("\n") if l.startswith(("VIOLATION", "KNOWN-FINDING")) or ": OK" in l or ": FAIL" in l]
            detected = r.returncode == 1 and any(l.startswith("VIOLATION") for l in lines)
            results[p] = {"exit": r.returncode, "detected": detected, "lines": lines[:6], "seconds": round(time.time() - t, 1)}
            # keep one replay as documentation of what the check reported
            for l in lines:
                if l.startswith("VIOLATION") and "replay=" in l:
                    rp = l.split("replay=")[1].split()[0]
                    if os.path.exists(rp):
                        shutil.copy(rp, os.path.join(sd, "reported_replay_%s.json" % p))
                        break
            print(p, "DETECTED" if detected else "MISSED", results[p]["lines"][:3], "%.0fs" % results[p]["seconds"])
    finally:
        subprocess.call(["git", "-C", "/repo", "worktree", "remove", "--force", wt])
        shutil.rmtree(wt, ignore_errors=True)
        # the tables the translators wrote from the patched tree (coq/Gen) go back to /repo's
        subprocess.call(["git", "-C", V, "checkout", "-q", "--", "coq/Gen"])
        # replays produced by seeded runs are not findings on /repo
        rd = os.path.join(V, "replays")
        if os.path.isdir(rd):
            for f in os.listdir(rd):
                if any(f.startswith(p + "-") for p in props):
                    os.remove(os.path.join(rd, f))
    rp = os.path.join(sd, "result.json")
    prev = json.load(open(rp)).get("results", {}) if os.path.exists(rp) else {}
    prev.update(results)
    json.dump({"repo_head": subprocess.check_output(["git", "-C", "/repo", "rev-parse", "--short", "HEAD"]).decode().strip(),
               "results": prev}, open(rp, "w"), indent=1)
    return 0 if all(v["detected"] for v in results.values()) else 1


if __name__ == "__main__":
    sys.exit(main())
