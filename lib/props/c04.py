"""C04 - A client sees its own location's records plus untagged ones, nothing else."""
import os
from checklib import clist
from props.corecase import file_to_coq, file_nontrivial, shrink_file, cbytes

ID = "C04"
HARNESS = "c04"
N_CASES = {"quick": 20, "thorough": 300}
N_SEARCH = {"quick": 1, "thorough": 2}
SHARD = 2
HAS_MODEL_OUT = True
RULE = ("pairs (data file f, edit f' that adds / deletes / replaces only records tagged with locations no client of "
        "the comparison is mapped to: at declared names, at zone apexes (NS, SOA), at delegations, at NS targets, at "
        "lexicographic neighbours of the probed keys, as wildcards above the name; and adds / deletes '%' subnets of the "
        "unnamed default map and of maps no generated name selects, and M / 8 lines of names outside every zone, none "
        "covering a client address); the same 17-45 queries (5 of them with a client-subnet option whose address lies "
        "inside such an unrelated subnet; names with an M map and no 8 map, with both, with neither) from four "
        "clients against both files on CDB / RocksDB v1 / RocksDB v2; non-trivial = distinct (query name, type, "
        "client location, response class) other than REFUSED, counted on the edited file")
TRUSTED_BASE = [
    "client location is the one the server itself computed (oracle); queries whose client is mapped to an edited location are not compared",
    "responses are compared up to which of several weighted addresses were drawn",
]
ASSUMPTIONS = ["the edit touches only subnets / maps that apply to none of the queried names and cover no client address (C03 owns the lookup itself)"]


def to_coq(c):
    return "(mkP %s %s %s)" % (clist([cbytes(x) for x in c["edited"]]), file_to_coq(c["before"]), file_to_coq(c["after"]))


def nontrivial(c):
    return file_nontrivial(c["after"])


def case_class(c):
    return c["class"]


def shrink_candidates(c):
    if os.environ.get("VERIF_NO_SHRINK"):
        return iter(())
    return _shrink_candidates(c)


def _shrink_candidates(c):
    qs = c["before"]["queries"]
    if len(qs) > 1:
        h = len(qs) // 2
        for part in (qs[:h], qs[h:]):
            yield dict(c, before=dict(c["before"], queries=part), after=dict(c["after"], queries=part))
    for side in ("after", "before"):
        for cand in shrink_file(dict(c[side], queries=[])):
            if cand["lines"] is not c[side]["lines"]:
                yield dict(c, **{side: dict(c[side], lines=cand["lines"])})
