"""C13 - Any query gets a well-formed reply or none; the server never panics."""
import os
from checklib import cbool, clist, copt
from props.corecase import file_to_coq, shrink_file, BACKENDS, response_class, cbytes

ID = "C13"
HARNESS = "c13"
N_CASES = {"quick": 6, "thorough": 160}
N_SEARCH = {"quick": 1, "thorough": 2}
SHARD = 2
HAS_MODEL_OUT = True
RULE = ("arbitrary wire-valid query messages (packed by miekg/dns and unpacked again before use): names of any byte "
        "values and lengths up to 255, the root, declared names and descendants; any type and class; every opcode and "
        "header flag; no OPT / EDNS version 0 / other versions; option lists with NSID, COOKIE, PADDING, unknown codes "
        "and client-subnet options of both families, family 0, all prefix lengths; max-answer 0..8; four clients; "
        "against root-zone, root-delegation, empty and generated databases on CDB / RocksDB v1 / RocksDB v2; two cases "
        "per database (EDNS version 0 or none / other versions); plus a UDP class: a database with large record sets "
        "(14-16 NS with glue, TXT sets of 1-16 strings, 12 MX with addresses, a 300-byte TXT), 36 queries without EDNS / "
        "with EDNS sizes 0, 512, 600, 700-900, 1232, 4096, with and without client-subnet options (v4 /24, v6 /56, v6 /128, "
        "behind a COOKIE) and DO, sent over a UDP and a TCP writer; plus a history class: handlers with the response cache "
        "ENABLED (LRU 1024, or 2 for evictions) on 3 databases (quick), 6 questions each (declared names, descendants, zone "
        "apexes, names below delegations, the root, other classes; client, client-subnet option and max fixed per "
        "question; the name spelled in the question's base letter case or - half of the queries on a warm entry and of the "
        "version-0 warm-up queries, a third of the first judged ones - in a random other case), queries asked one after the other: case +cache = warm-up (nothing | every question with a bad EDNS version "
        "first | version 0 then a bad version), judged 4-6 queries per question in a row without OPT / with a version-0 OPT "
        "bare, with the client-subnet option, with unknown options, with both, other ids, flags and opcodes (cold first, then "
        "on the warm cache); case +cache+badvers = warm-up of version-0 / no-OPT queries (sometimes after a bad-version one), "
        "judged the same questions with EDNS versions 1, 2, 255, random, bare / with the client-subnet option / with unknown "
        "options / with both, some with another opcode, and two questions never asked before (cold); warm-up queries are "
        "asked but not judged; non-trivial = distinct (database class, query name, type, class, EDNS shape, response class, "
        "served from the cache or not, populated under the same or another spelling)")
TRUSTED_BASE = [
    "messages are wire-valid by construction (miekg Pack then Unpack); zero-question messages are not sent: fbserver/serve_mux.go answers them without calling the handler",
    "packability of the reply is observed on the implementation (Pack / Unpack of what was written), not modelled; the size clause is observed on the implementation (length of Pack() of what a UDP writer received, TC, record counts against the TCP reply), the model stops before SizeAndDo / Scrub",
    "client location and echoed ECS option are oracles observed per backend",
    "history cases: the serve model has no cache; it is evaluated per query. For a query the handler served from the cache (its "
    "DNS_cache.hit counter moved - observed, per backend) the model owes the outcome of the request spelled as the query that "
    "populated the entry, re-addressed to this request (id, question bytes exactly as asked, OPT) - the right-hand side of "
    "C12_cached_is_case_variant_of_uncached (Model/Compose rename / requestion); the populating spelling is derived by the "
    "harness from the history and the observations: the latest earlier query with the same observed location, type, class and "
    "lower-cased name that was not served from the cache and carried no unsupported EDNS version. spec_ok never looks at it: "
    "id and question must be the asker's own, byte for byte",
]
ASSUMPTIONS = ["one question per message"]


def udp_to_coq(u):
    return "mkU %d %d %s %s %d %d %s %s" % (u["limit"], u["len"], cbool(u["written"]), cbool(u["tc"]), u["nrecs"],
                                          u["nrecs_tcp"], cbool(bool(u["panic"])), cbool(u["packerr"]))


def first_to_coq(q):
    """per backend: the spelling that populated the cache entry this query was served from"""
    f = q.get("first") or {}
    return clist([copt(cbytes(f[b]) if f.get(b) else None) for b in BACKENDS])


def to_coq(c):
    udp = [clist([udp_to_coq(q["udpobs"][b]) for b in BACKENDS]) for q in c["queries"] if q.get("udpobs")]
    first = [first_to_coq(q) for q in c["queries"]] if c.get("cache") and not c["compile_err"] else []
    return "(mkC %s %s %s)" % (file_to_coq(c), clist(udp), clist(first))


def nontrivial(c):
    keys = []
    for q in c["queries"]:
        o = (q.get("obs") or {}).get("cdb")
        if o:
            k = [c["class"], q["name"], q["type"], q["class"], q["has_opt"], q["version"],
                 "panic" if o["panic"] else response_class(o["reply"])]
            u = (q.get("udpobs") or {}).get("cdb")
            if u:
                k += [u["limit"], u["tc"], 0 <= u["limit"] - u["len"] <= 24]
            if c.get("cache"):
                k += ["cache-hit" if (q.get("cache_hit") or {}).get("cdb") else "cache-miss"]
                f = (q.get("first") or {}).get("cdb")
                k += ["other-spelling" if f and f != q["name"] else "same-spelling"]
            keys.append(k)
    return keys or None


def case_class(c):
    return c["class"]


def shrink_candidates(c):
    if os.environ.get("VERIF_NO_SHRINK"):
        return iter(())
    return _shrink_candidates(c)


def _shrink_candidates(c):
    yield from shrink_file(c)
    # history cases: a shorter warm-up (the judged queries keep their order behind it)
    w = c.get("warmup") or []
    if w:
        h = len(w) // 2
        if h:
            yield dict(c, warmup=w[:h])
            yield dict(c, warmup=w[h:])
        if len(w) <= 6:
            for i in range(len(w)):
                yield dict(c, warmup=w[:i] + w[i + 1:])


def known_finding(c, findings):
    """F22: the BADVERS reply built by coredns edns.Version has an empty question section.
    Matches only cases made of EDNS version != 0 queries whose replies are otherwise well formed."""
    f22 = [f for f in findings if f.get("id") == "F22"]
    if not f22 or not c["queries"]:
        return None
    for q in c["queries"]:
        if not (q["has_opt"] and q["version"] != 0):
            return None
        for b in BACKENDS:
            o = (q.get("obs") or {}).get(b)
            if o is None or o["panic"]:
                return None
            p = o["reply"]
            if p is None:
                continue
            if not (p["id"] == q["id"] and p["qr"] and p["packok"] and p["writes"] == 1 and p["rcode"] == 16
                    and p["question"] == [] and all(x == 8 for x in p["optcodes"])):
                return None
    return f22[0]
