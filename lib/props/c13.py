"""C13 - Any query gets a well-formed reply or none; the server never panics."""
import os
from props.corecase import file_to_coq, shrink_file, BACKENDS, response_class

ID = "C13"
HARNESS = "c13"
N_CASES = {"quick": 8, "thorough": 160}
N_SEARCH = {"quick": 1, "thorough": 2}
SHARD = 2
HAS_MODEL_OUT = True
RULE = ("arbitrary wire-valid query messages (packed by miekg/dns and unpacked again before use): names of any byte "
        "values and lengths up to 255, the root, declared names and descendants; any type and class; every opcode and "
        "header flag; no OPT / EDNS version 0 / other versions; option lists with NSID, COOKIE, PADDING, unknown codes "
        "and client-subnet options of both families, family 0, all prefix lengths; max-answer 0..8; four clients; "
        "against root-zone, root-delegation, empty and generated databases on CDB / RocksDB v1 / RocksDB v2; two cases "
        "per database (EDNS version 0 or none / other versions); non-trivial = distinct (database class, query name, "
        "type, class, EDNS shape, response class)")
TRUSTED_BASE = [
    "messages are wire-valid by construction (miekg Pack then Unpack); zero-question messages are not sent: fbserver/serve_mux.go answers them without calling the handler",
    "packability of the reply is observed on the implementation (Pack / Unpack of what was written), not modelled; size and truncation are not modelled (TCP remote address)",
    "client location and echoed ECS option are oracles observed per backend",
]
ASSUMPTIONS = ["one question per message"]


def to_coq(c):
    return file_to_coq(c)


def nontrivial(c):
    keys = []
    for q in c["queries"]:
        o = (q.get("obs") or {}).get("cdb")
        if o:
            keys.append([c["class"], q["name"], q["type"], q["class"], q["has_opt"], q["version"],
                         "panic" if o["panic"] else response_class(o["reply"])])
    return keys or None


def case_class(c):
    return c["class"]


def shrink_candidates(c):
    if os.environ.get("VERIF_NO_SHRINK"):
        return iter(())
    return _shrink_candidates(c)


def _shrink_candidates(c):
    return shrink_file(c)


def known_finding(c, findings):
    """F22: the BADVERS reply built by coredns edns.Version has an empty question section.
    Matches only cases made of EDNS version != 0 queries whose replies are otherwise well formed."""
    f22 = [f for f in findings if f.get("id") == "F22"]
    if not f22 or not c["queries"]:
        return None
    for q in c["queries"]:
        if not (q["has_opt"] and q["version"] != 0):
            return None
        for b in BACKENDS:
            o = (q.get("obs") or {}).get(b)
            if o is None or o["panic"]:
                return None
            p = o["reply"]
            if p is None:
                continue
            if not (p["id"] == q["id"] and p["qr"] and p["packok"] and p["writes"] == 1 and p["rcode"] == 16
                    and p["question"] == [] and all(x == 8 for x in p["optcodes"])):
                return None
    return f22[0]
