"""C03 - Client-to-location mapping is longest-prefix match over declared subnets."""
from checklib import cbytes, cbool, clist, cpair, cN, copt

ID = "C03"
HARNESS = "c03"
N_CASES = {"quick": 48, "thorough": 1500}
N_SEARCH = {"quick": 1, "thorough": 2}
SHARD = 24
HAS_MODEL_OUT = True
RULE = ("subnet sets (<= 12 per map: seeds with nested / adjacent / same-network-address chains, default routes, "
        "edges of the address space, ::/N and 0.0.0.0/N with non-default N, blocks around ::ffff:0:0/96 and ::1:0:0:0, "
        "derived parents / last children / siblings / following blocks) x clients from the critical set (network "
        "address, last, last+1, first-1, ::, ::ffff:0:0, ::1:0:0:0, all-ones, interior points) x prefix lengths "
        "{0, len-1, len, len+1, max}; kind rr = Rearranger output read by predecessor search, kind db = real CDB "
        "(combined and per-family prefix sets), RocksDB v1 and v2 databases compiled from M/8/% lines, and (bk pv1 / pv2: the fixed multi-map files and one generated file in the quick tier, every file in the thorough tier) RocksDB v1 and v2 databases compiled from the PREPROCESSED text (Codec.Preprocess with the settings of cmd/dnsrocks-preproc: SubnetRanger.OpenScanner emits the per-map range-point lines), "
        "ResolverLocation / EcsLocation (ECS from wire bytes, masked and with host bits, family 2 with v4-mapped "
        "address, family 0); one case per (input, client, backend). non-trivial = distinct (subnet set, maps, "
        "client, backend) whose spec answer is a location or whose client lies on a block boundary")
TRUSTED_BASE = [
    "sort.Slice enters Model/Rearranger.v as a Section variable: the theorems hold for every function that returns a permutation sorted w.r.t. the comparator (sort_spec; sort.Slice is not stable); cases are evaluated with insertion sort, which C03_sort_spec_satisfiable shows to be one such function",
    "RocksDB (SeekForPrev = greatest key <= search key in bytewise order, Get, multi-value header), the CDB file format and hash, the compilers' pipelines (parallel workers, builder, SST ingest) are below the modelled interface: a database is a list of (key, stored value). For CDB the theorems start from the data file (cdb_db f); for RocksDB they start from a database whose range-point / map records are exactly those derived from Rearrange / the declarations (hypotheses of C03_rdb_driver_is_lpm, C03_map_choice_v1/v2) - that the compiler stores exactly these records is checked by the correspondence run only (model rdb_db vs the real databases)",
    "net.ParseIP / ParseCIDR / IP.Mask / CIDRMask and miekg EDNS0_SUBNET unpack are modelled by their effect on 16-byte addresses (v4 is v6-mapped); the harness builds the ECS option from wire bytes through dns.Msg.Unpack",
    "names are packed lower-case wire names of at most 255 bytes (the byte-typed index arithmetic of reverseZoneName / getLengthWithoutLastLabel is not modelled beyond that)",
    "per-family CDB mode: the harness re-executes itself with FBDNS_SEPARATE_MASKLENS=1 for the CDB part",
]
ASSUMPTIONS = [
    "wf_subnets (decidable, Proofs/Location.v): every subnet has length <= 128, a network address < 2^128 without host bits, no (address, length) is declared twice, and no IPv6 subnet of length 1..95 contains ::ffff:0:0 (known finding F20; C03_rdb_is_lpm_refuted_inside/_outside)",
    "the client address is masked to its prefix length in C03_rdb_is_lpm (range-point level); C03_rdb_driver_is_lpm and C03_cdb_is_lpm take the client as the callers build it (128-bit mask, or 32-bit mask on a v4-mapped address) and show that the drivers mask it",
    "map declarations: labels of at least one byte, each (kind, name, wildcard) declared with one map id; kinds 77 (M) and 56 (8)",
]

BK = {"rr": "KRr", "cdb": "KCdb", "cdbsep": "KCdbSep", "v1": "KV1", "v2": "KV2", "pv1": "KPV1", "pv2": "KPV2"}


def _int16(b):
    n = 0
    for x in b:
        n = n * 256 + int(x)
    return n


def _id(b):
    b = list(b or [0, 0]) + [0, 0]
    return cpair(cN(b[0]), cN(b[1]))


def _labels(p):
    res, i = [], 0
    while i < len(p) and p[i] != 0:
        n = p[i]
        res.append(p[i + 1:i + 1 + n])
        i += 1 + n
    return res


def _obs(kind, q, o):
    st = o["st"]
    if st == "panic":
        return "OPanic"
    if st == "err":
        return "OErr"
    if kind == "rr":
        if st == "loc":
            return "(OLoc (0,0) %s %s 0)" % (_id(o["loc"]), cN(o["mask"]))
        return "(ONil 0)"
    if q["path"] == "res":
        if st == "loc":
            return "(OLoc %s %s %s 0)" % (_id(o["map"]), _id(o["loc"]), cN(o["mask"]))
        return "(ONil 0)"
    if st == "loc":
        return "(OLoc %s %s %s %s)" % (_id(o["map"]), _id(o["loc"]), cN(o["mask"]), cN(o["scope"]))
    return "(ONil %s)" % cN(o["scope"])


def _plen(kind, q):
    if kind == "rr":
        return q["plen"]
    if q["path"] == "res":
        return 128
    return q["src"] + (96 if q["fam"] != 2 else 0)


def _query(kind, q):
    ip = copt(cN(_int16(q["a"]))) if (kind == "rr" or q["path"] == "ecs" or q.get("ipok")) else "None"
    return "(mkQ %s %s %s %s %s %s)" % (clist([cbytes(l) for l in _labels(q["name"])]),
                                        cbool(q["path"] == "ecs"), ip, cN(q["fam"]), cN(q["src"]), cN(_plen(kind, q)))


def to_coq(c):
    kind = c["kind"]
    decls = clist(["(mkMapdecl %s %s %s %s)" % (cN(m["k"]), clist([cbytes(l) for l in _labels(m["name"])]),
                                                 cbool(m["wild"]), _id(m["id"])) for m in c["maps"]])
    nets = clist(["(mkNetline %s (mkSubnet %s %s %s))" % (_id(s.get("map")), cN(_int16(s["a"])), cN(s["l"]), _id(s["loc"]))
                  for s in c["nets"]])
    qs = clist([cpair(_query(kind, x["q"]), _obs(kind, x["q"], x["o"])) for x in c["qs"]])
    return "mk %s %s %s %s" % (BK[c["bk"]], decls, nets, qs)


FIRST_V4 = 0xffff << 32


def _f20_shape(s):
    """an IPv6 subnet other than ::/0 that overlaps ::ffff:0:0/96: length 1..95 and it contains ::ffff:0:0"""
    l = s["l"]
    return 1 <= l <= 95 and (_int16(s["a"]) >> (128 - l)) == (FIRST_V4 >> (128 - l))


def _map_for(c, q):
    kind = 56 if q["path"] == "ecs" else 77
    ls = _labels(q["name"])
    for m in c["maps"]:
        if m["k"] == kind and not m["wild"] and _labels(m["name"]) == ls:
            return list(m["id"])
    for i in range(1, len(ls) + 1):
        for m in c["maps"]:
            if m["k"] == kind and m["wild"] and _labels(m["name"]) == ls[i:]:
                return list(m["id"])
    return [0, 0]


def _relevant_nets(c, q):
    """subnets of the map the spec selects for query q (all subnets for kind rr)"""
    if c["kind"] == "rr":
        return c["nets"]
    mid = _map_for(c, q)
    return [s for s in c["nets"] if list(s.get("map") or [0, 0]) == mid]


def known_finding(c, findings):
    """F20: only RocksDB / Rearranger cases in which EVERY query selects a map whose subnet set contains an IPv6
    subnet other than ::/0 that overlaps ::ffff:0:0/96 (::/N for 1 <= N <= 80, prefixes of ::ffff:0:0 of length 81..95), and no query ended in a panic or in an error other than the duplicate-range-point one.  The CDB backends must still satisfy
    the spec on such sets."""
    if c["bk"] not in ("rr", "v1", "v2", "pv1", "pv2") or not c["qs"]:
        return None
    for x in c["qs"]:
        if x["o"]["st"] == "panic":
            return None
        if x["o"]["st"] == "err" and not ("same key" in x["o"].get("msg", "") or "Invalid location length" in x["o"].get("msg", "")):
            return None
        if not any(_f20_shape(s) for s in _relevant_nets(c, x["q"])):
            return None
    for f in findings:
        if f.get("id") == "F20":
            return f
    return None


def _q_key(c, x):
    o, q = x["o"], x["q"]
    if o["st"] == "loc" and list(o["loc"]) != [0, 0]:
        key = "loc"
    else:
        a = _int16(q["a"])
        edge = False
        for s in _relevant_nets(c, q):
            sa, l = _int16(s["a"]), s["l"]
            last = sa + (1 << (128 - l)) - 1
            if a in (sa, last, last + 1, sa - 1):
                edge = True
                break
        if not edge:
            return None
        key = "edge"
    nets = sorted((tuple(s["a"]), s["l"], tuple(s["loc"])) for s in _relevant_nets(c, q))
    return (key, c["bk"], tuple(nets), tuple(q["name"]), q["path"], tuple(q["a"]), q["fam"], q["src"], q.get("plen"))


def nontrivial(c):
    ks = sorted(set(str(k) for k in (_q_key(c, x) for x in c["qs"]) if k is not None))
    return ks or None


def case_class(c):
    return c["bk"] + ":group"


def shrink_candidates(c):
    qs, nets, maps = c["qs"], c["nets"], c["maps"]
    if len(qs) > 1:
        h = len(qs) // 2
        yield dict(c, qs=qs[:h])
        yield dict(c, qs=qs[h:])
        if len(qs) <= 8:
            for i in range(len(qs)):
                yield dict(c, qs=qs[:i] + qs[i + 1:])
    for i in range(len(nets)):
        yield dict(c, nets=nets[:i] + nets[i + 1:])
    for i in range(len(maps)):
        yield dict(c, maps=maps[:i] + maps[i + 1:])


def differential(ctx):
    """standard run, then statistics per (query, backend) instead of per group"""
    import json
    import os
    import checklib
    checklib.differential_step(ctx)
    path = os.path.join(ctx.scratch, "cases.jsonl")
    if not os.path.exists(path):
        return
    keys, dist, n = set(), {}, 0
    for line in open(path):
        line = line.strip()
        if not line:
            continue
        c = json.loads(line)
        for x in c["qs"]:
            n += 1
            cl = c["bk"] + ":" + x.get("class", "?")
            dist[cl] = dist.get(cl, 0) + 1
            k = _q_key(c, x)
            if k is not None:
                keys.add(k)
    ctx.cov["groups_evaluated"] = ctx.cov.get("evaluations", 0)
    ctx.cov["evaluations"] = n
    ctx.cov["distinct_nontrivial"] = len(keys)
    ctx.cov["distribution"] = dist
