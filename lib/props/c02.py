"""C02 - Storage backend and key layout never change an answer."""
import os
from props.corecase import file_to_coq, file_nontrivial, shrink_file

ID = "C02"
HARNESS = "c02"
N_CASES = {"quick": 10, "thorough": 240}
N_SEARCH = {"quick": 1, "thorough": 2}
SHARD = 2
HAS_MODEL_OUT = True
RULE = ("data files biased to the shapes where the closest-key reader could differ (located clients below "
        "delegations, wildcard in a parent zone above a child zone, sibling names that are byte prefixes, 1- and "
        "63-byte labels, names >= 128 bytes, root zone), compiled to CDB / RocksDB v1 keys / RocksDB v2 keys "
        "(compiler options varied per file: bulk builder, batches of default size, single-record batches with eight in flight and four parser workers); 24-40 queries per file from four clients through the three real handlers, "
        "responses compared pairwise; non-trivial = distinct (file class, query name, type, client location, "
        "response class) other than REFUSED")
TRUSTED_BASE = [
    "client location and echoed ECS option are oracles observed per backend (C03 owns location lookup); a location difference between backends shows up as a response difference",
    "responses are compared up to which of several weighted addresses were drawn (same owner/type/class counts)",
    "RocksDB and the CDB file below get / seek_prev are not modelled; the dumps are read with an independent CDB file parser and the RocksDB iterator",
]
ASSUMPTIONS = ["data files inside the generator's grammar; queries are wire-valid messages with one question"]


def to_coq(c):
    return file_to_coq(c)


def nontrivial(c):
    return file_nontrivial(c)


def case_class(c):
    return c["class"]


def shrink_candidates(c):
    if os.environ.get("VERIF_NO_SHRINK"):
        return iter(())
    return _shrink_candidates(c)


def _shrink_candidates(c):
    return shrink_file(c)
