"""C17 - Quoting is a bijection that never emits a field separator."""
from checklib import cbytes, cbool, clist, cpair, cN

ID = "C17"
HARNESS = "c17"
N_CASES = {"quick": 1500, "thorough": 40000}
N_SEARCH = {"quick": 2, "thorough": 4}
SHARD = 1500
RULE = ("all byte strings of length <= 1 (quick) / <= 2 (thorough) plus seeded structured strings "
        "(interesting fragments, random bytes, ASCII with separators, valid UTF-8 of all widths, high-byte soup) "
        "quoted then unquoted, plus a malformed-escape stream fed to Bunquote alone; "
        "non-trivial = distinct input whose quoted form differs from the input or whose unquoting fails")
TRUSTED_BASE = [
    "strconv.IsPrint on runes >= 0x80 enters the model as an oracle (theorems hold for every oracle); the harness reports the observed values",
    "Go strconv.Quote / UnquoteChar / unicode/utf8 are modelled by hand after go1.23.5 sources (Model/Quote.v, Model/Utf8.v) and are exercised by the correspondence run, not verified",
    "not modelled: Go slice aliasing in Bquote/Bunquote (inputs are copied by the harness before each call)",
]
ASSUMPTIONS = ["input bytes are < 256 (wf_bytes)"]


def to_coq(c):
    kind = "KRt" if c["kind"] == "rt" else "KUnq"
    pr = clist([cpair(cN(r), cbool(p)) for r, p in c.get("print", [])])
    return "mk %s %s %s %s %s %s" % (kind, cbytes(c["in"]), pr, cbytes(c.get("quoted") or []),
                                      cbool(c["unq_ok"]), cbytes(c.get("unq") or []))


def nontrivial(c):
    if c["kind"] == "rt":
        if c.get("quoted") != c["in"]:
            return ["rt", c["in"]]
        return None
    if not c["unq_ok"] or c["unq"] != c["in"]:
        return ["unq", c["in"]]
    return None


def case_class(c):
    return c["kind"] + ":" + c.get("class", "?")


def shrink_candidates(c):
    b = c["in"]
    for i in range(len(b)):
        yield dict(c, **{"in": b[:i] + b[i + 1:]})
    for i in range(len(b)):
        if b[i] not in (0, 97):
            yield dict(c, **{"in": b[:i] + [97] + b[i + 1:]})
