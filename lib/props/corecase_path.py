import os
import sys
sys.path.insert(0, os.path.dirname(os.path.abspath(__file__)))
