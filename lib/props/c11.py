"""C11 - Weighted address selection is bounded, sound and proportional."""
import json
import os

from checklib import cbool, clist, cpair, cN

ID = "C11"
HARNESS = "c11"
N_CASES = {"quick": 600, "thorough": 30000}
N_SEARCH = {"quick": 1, "thorough": 3}
SHARD = 400
HAS_MODEL_OUT = True
RULE = ("unit: scripted Uint32 draws (db.SetRandSourceForVerif) and sequences of Wrs.Add on the real code - all sequences of "
        "length <= 3 (quick) / 4 (thorough) over 3 draws x weights {0,1,3} with max 1 and 2, plus seeded candidate lists of size "
        "0..12 (A, AAAA and non-address types; weights 0, 1, 2, 3, 5, 8, 100, 65535, 2^32-1; equal weights; duplicate draws; "
        "weights <= 8 with the exact rational key order evaluated for every pair), max answers 1..8 (and <= 0), plus F18 corner "
        "draws 0 and 2^32-1: V4/V6 and the counters after every Add and the set served by ARecord/AAAARecord are compared with "
        "the model on the ranks of the float64 keys. e2e: a generated data set (weights incl. 0 and 2^32-1, records tagged with "
        "three locations and untagged, one address declared twice) compiled with the real cdb / rocksdb v1 / rocksdb v2 compilers, "
        "served in process by FBDNSDB; A, AAAA, ANY queries with max answer unset and 1..8 from clients in every location, NS and MX "
        "queries and referrals for the additional section (targets named by one record, and the same v4-only / v6-only / dual-stack host named by 2 and 3 MX records, two NS records sharing one glue host, a name that is its own MX target queried with MX and ANY): every response checked for subset / no repetition (records identified "
        "by address and TTL) / no weight 0 / size = min(max, positive-weight visible records) / NOERROR when the name exists. "
        "conc (concurrent use of the shared generator, draws NOT scripted; runs first, while db.localRand is still the package's own "
        "NewRand()): 16 goroutines x 800 (quick) / 40000 (thorough) direct Wrs.Add/ARecord selections on 4 fixed candidate sets and x 60 / 4000 "
        "queries through FBDNSDB (cdb, rocksdb v1, v2 rotating) on 4 names - every DISTINCT outcome is judged with the draw-independent "
        "clauses (declared, distinct, no weight 0, exactly min(max, positives)) and no selection may panic; plus 16 goroutines drawing "
        "50000 / 200000 63-bit values each from one db.NewRand() (the package's lockedSource): no panic and at most 2 repeated values "
        "(a sound generator repeats one value among 8e5 / 3.2e6 draws with probability 3.5e-8 / 5.6e-7, three with < 1e-20; no timing "
        "assumption, but it needs GOMAXPROCS >= 2 to be able to see an unlocked generator). "
        "chi: 20000 draws of the real locked generator (one goroutine, four goroutines, through the handler), support only. "
        "non-trivial = distinct (max, candidate list) with at least 2 address candidates, or distinct e2e query with candidates")
TRUSTED_BASE = [
    "key computation math.Pow(float64(u)*float64(1.0/MaxUint32), 1/float64(w)) is not modelled in floating point: the model runs on the "
    "ORDER of the observed float64 keys (ranks reported by the harness, which recomputes each key with the same Go expression and checks it "
    "bit-for-bit against every stored WrsItem.Key); the run checks that a key is 0.0 exactly when the exact reading says so (weight 0 and "
    "draw < 2^32-1, or draw 0), that equal exact keys give equal float keys, and that the float order is the exact rational order of "
    "(u/M)^(1/w) ONLY for pairs (weights <= 8, or equal weights of any size) whose exact keys are separated by more than a relative 2^-40 "
    "(9.1e-13; justified rounding error of the float computation: (2 + ln M) * 2^-53 < 25 * 2^-53 from the two roundings of the base and the "
    "rounding of the exponent, plus a few ulp assumed for math.Pow - more than 300 times smaller); closer pairs (e.g. draw 2^32-2 / weight 1 "
    "against draw 2^32-3 / weight 2: relative distance 2.7e-20, equal float64 keys) carry no claim",
    "concurrency is not modelled: the conc class checks on the real locked generator that concurrent selections stay inside what "
    "C11_bounded_sound proves for every key assignment (no panic, draw-independent clauses) and that lockedSource hands no 63-bit value "
    "out twice; the generator-level draws use a db.NewRand() instance (same lockedSource code) because db.localRand itself is unexported, "
    "the selection stress uses db.localRand as initialised by the package",
    "rand.Shuffle in Wrs.record is not modelled: served records are compared as sets",
    "C11_proportional_partial / C11_key_cdf_set_partial (Proofs/WrsReal.v, Coquelicot) depend on the standard library's real-number axioms "
    "(ALLOWED_AXIOMS); the reading of the integral as a probability assumes independent, continuous uniform draws, exact Pow, and that the "
    "mutex-protected shared generator gives each query independent draws - none of that is proved; the chi-square runs are support only",
    "e2e model check uses a hypothetical key assignment (only the sizes of answer / additional section and NXDOMAIN are compared); the "
    "harness computes the records visible to a client from its own copy of the generated data (location = the client's subnet)",
    "not modelled: the wildcard walk of FindAnswer beyond 'first level with a record' (C02); HTTPS targets of AdditionalSectionForRecords (same code path as NS/MX, not generated)",
]
ASSUMPTIONS = ["key order is a strict order in which a key that is not > 0 lies below every key that is (float64 keys in [0,1], no NaN)",
               "candidates are distinct records (NoDup of payloads)", "max >= 1 (max <= 0 serves nothing: separate theorem)",
               "weight-level clauses: no draw is 0 or 2^32-1 (finding F18 otherwise)"]
ALLOWED_AXIOMS = [
    "ClassicalDedekindReals.sig_not_dec",
    "ClassicalDedekindReals.sig_forall_dec",
    "FunctionalExtensionality.functional_extensionality_dep",
    "Classical_Prop.classic",
]

M32 = 4294967295


def cZ(n):
    n = int(n)
    return "(%d)%%Z" % n


def _pairs(l):
    return clist([cpair(cN(a), cN(b)) for a, b in l])


def _ids(l):
    return clist([cN(x) for x in l])


def to_coq(c):
    kind = {"unit": "KUnit", "e2e": "KE2E", "chi": "KChi", "conc": "KConc"}[c["kind"]]
    cands = clist(["(mkCand %s %s %s %s %s)" % (cN(x["q"]), cN(x["u"]), cN(x["w"]), cN(x.get("rank", 0)), cbool(x.get("zero", True)))
                   for x in c.get("cands") or []])
    steps = clist(["(mkStep %s %s %s %s %s)" % (cbool(s["err"]), _pairs(s["v4"]), cN(s["c4"]), _pairs(s["v6"]), cN(s["c6"]))
                   for s in c.get("steps") or []])
    groups = clist(["(mkGroup %s %s %s %s %s %s)" % (
        cZ(g["max"]), cbool(g["want4"]), cbool(g["want6"]),
        clist(["(%s,%s,%s)" % (cN(t[0]), cN(t[1]), cN(t[2])) for t in g["cands"]]),
        _ids(g["got4"]), _ids(g["got6"])) for g in c.get("groups") or []])
    qtype = c.get("qtype", 0) if c.get("mode") == "addr" else 0
    rcode = c.get("rcode", 0)
    if rcode < 0:
        rcode = 99
    trip = lambda l: clist(["(%s,%s,%s)" % (cN(t[0]), cN(t[1]), cN(t[2])) for t in l])
    msg = _pairs(c.get("msg") or [])
    targets = clist([cpair(cN(t["name"]), trip(t["cands"])) for t in c.get("targets") or []])
    extra = trip(c.get("extra") or [])
    if c["kind"] == "conc":
        qtype = c.get("qtype", 1)
    return "mk %s %s %s %s %s %s %s %s %s %s %s %s %s %s %s %s %s %s %s" % (
        kind, cZ(c.get("max", 1)), cands, steps, _ids(c.get("out4") or []), _ids(c.get("out6") or []),
        cbool(c.get("weighted", False)), cbool(c.get("keys_agree", True)), cN(qtype), groups, cN(rcode),
        msg, targets, extra, _ids(c.get("msgids") or []),
        _ids(c.get("chi_w") or []), _ids(c.get("chi_obs") or []),
        cN(c.get("panics", 0)), cN(c.get("dups", 0)))


def nontrivial(c):
    if c["kind"] == "unit":
        cs = [(x["q"], x["u"], x["w"]) for x in c.get("cands") or []]
        if sum(1 for x in cs if x[0] in (1, 28)) >= 2:
            return ["unit", c["max"], cs]
        return None
    if c["kind"] == "e2e":
        if any(g["cands"] for g in c.get("groups") or []):
            return ["e2e", c["driver"], c["qname"], c["qtype"], c["client"], c["max"]]
        return None
    if c["kind"] == "conc":
        return ["conc", c.get("conc_via"), c.get("qname"), c.get("conc_w"), c["max"]]
    return ["chi", c.get("chi_via"), c.get("chi_workers")]


def case_class(c):
    return c["kind"] + ":" + c.get("class", "?")


def _f18(c):
    """unit case with a corner draw: weight 0 with draw 2^32-1, or positive weight with draw 0"""
    if c.get("kind") != "unit":
        return False
    for x in c.get("cands") or []:
        if x["q"] in (1, 28) and ((x["w"] == 0 and x["u"] == M32) or (x["w"] > 0 and x["u"] == 0)):
            return True
    return False


def known_finding(c, findings):
    if not _f18(c):
        return None
    for f in findings:
        if f.get("id") == "F18":
            return f
    return None


def shrink_candidates(c):
    if c["kind"] != "unit":
        return
    cs = c.get("cands") or []
    for i in range(len(cs)):
        yield dict(c, cands=cs[:i] + cs[i + 1:])
    if c["max"] > 1:
        yield dict(c, max=c["max"] - 1)
    for i, x in enumerate(cs):
        if x["w"] not in (0, 1):
            yield dict(c, cands=cs[:i] + [dict(x, w=1)] + cs[i + 1:])


def differential(ctx):
    """standard differential step; afterwards the chi-square statistics of the run are
    copied into the evidence as support (never as proof)"""
    import checklib
    checklib.differential_step(ctx)
    sup = []
    path = os.path.join(ctx.scratch, "cases.jsonl")
    if os.path.exists(path):
        with open(path) as f:
            for line in f:
                if '"kind":"chi"' in line:
                    try:
                        c = json.loads(line)
                    except Exception:
                        continue
                    if c.get("support"):
                        sup.append(c["support"])
    ctx.cov["support"] = sup
    for s in sup:
        ctx.note("support (not proof): chi2=%s df=%s draws=%s via=%s workers=%s" % (
            s.get("chi2"), s.get("df"), s.get("draws"), s.get("via"), s.get("workers")))
