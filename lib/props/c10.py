"""C10 - EDNS Client Subnet is echoed faithfully with a truthful scope."""
from checklib import cN, cbytes, cbool, clist, cpair, copt

ID = "C10"
# source constants of this property: Gen/Params.v is regenerated from the working tree, Proofs/ParamsTie.vo
# (lemma per constant: it is the value the models use) is built with the property (lib/paramsgen.py)
import paramsgen
EXTRA_TARGETS = [paramsgen.TARGET]


def pre_build(ctx):
    paramsgen.regenerate(ctx)


HARNESS = "c10"
N_CASES = {"quick": 1050, "thorough": 40000}
N_SEARCH = {"quick": 1, "thorough": 2}
SHARD = 375
RULE = ("generated data files (one zone with one located A record per location and name; 16 names with an exact '8' map each "
        "over the subnet shapes none / only ::/0 / only 0.0.0.0/0 / both / nested, adjacent and split IPv4 / nested and adjacent IPv6 / "
        "mixed / halves / IPv6 subnets over the v4-mapped block (::/1, ::ffc0:0:0/90: finding F20 on RocksDB) / nested, default-route and sibling subnets that share ONE location (v4 and v6) / random laminar sets; seven maps p1 < p2 < ... in key order of which every second one is assigned to a name but has NO subnet, its neighbours ending with ::/0 or a subnet at the top (ffff::/16) or bottom (::/8, ::/96, 0.0.0.0/8) of the address space, and a resolver map without subnets (map isolation); subnets in the unnamed map \\000\\000 (legacy % lines without map id; a catch-all for one family only) with their own A records, names with an 'M' map only and names with no map at all; wildcard '8' and 'M' maps, an exact map beating the wildcard, an '8' map without subnets, "
        "a name without '8' map, without any map, with '8' map only, maps for a name outside the zone; four 'M' map variants incl. single "
        "default routes) compiled by the real compilers to CDB, RocksDB v1 keys and RocksDB v2 keys; per backend a handler without and "
        "one with response cache; queries built as wire bytes (no OPT, OPT without ECS, ECS family 1 / 2 / 0, family 2 with v4-mapped "
        "address at source lengths below and above 96, two ECS options, extra known and unknown options, DO bit, UDP sizes, non-zero "
        "query scope, host bits set, short / full-length / over-long address fields, EDNS version 1..3, malformed ECS that miekg rejects, "
        "names outside every zone), ECS addresses from the critical set of the name's subnets (network, last, last+1, first-1, interior) "
        "with source lengths len-1 / len / len+1 and the classes 0,1,8,16,23,24,25,31,32 / 0,1,32,47,48,49,56,64,96,120,127,128; plus a systematic pass over the nested shapes (a client inside every declared subnet at source lengths len, len+8, max) over the names without client-subnet map (ECS inside every unnamed-map subnet at len, len+8, max and outside; resolvers inside and outside) and over the subnet-less maps (IPv4 / IPv6 / family 0 / no-OPT clients at the bottom, middle and top of the address space); every "
        "third query is also sent twice to the caching handler (miss then hit); non-trivial = distinct (class, backend, mode, hit, reply "
        "shape) with an ECS option in the query")
TRUSTED_BASE = [
    "GetLocationByMap = longest-prefix match over the declared subnets and FindMap = exact-then-nearest-wildcard enter the C10 theorems "
    "as hypotheses (they are C03's theorems); model_ok takes the driver's answers as observed (Reader.EcsLocation / ResolverLocation on the same "
    "backend) and checks location.go + handler.go on top of them; spec_ok checks scope and deciding location end to end against an "
    "independent Go longest-prefix oracle, which model_ok also compares with the Coq function lpm",
    "miekg/dns Msg.Pack/Unpack, OPT handling, Msg.Truncate (keeps the OPT record) and coredns request.Scrub are trusted; "
    "EDNS0_SUBNET.unpack/pack, edns.Version, request.SizeAndDo and supportedOptions are modelled by hand and exercised by the run",
    "the answer sections, rcodes other than BADVERS/REFUSED/SERVFAIL and the cache content enter the model as an environment (any)",
    "the harness calls ServeDNSWithRCODE in process (dnstest.Recorder); transport (dns.Server, TCP/UDP, TSIG) is C20's subject",
]
ASSUMPTIONS = [
    "a query has at most one OPT record; its options are what miekg/dns Unpack accepts (wf_ecs)",
    "no backend read error (IsAuthoritative / zone cut unpacking): such a failure is answered by dns.HandleFailed with a bare SERVFAIL without OPT",
    "map ids and location ids in the data are not \\000\\000 (the code uses that value for 'none')",
    "'address unchanged' on the wire = the query's address cut to its source prefix length (EDNS0_SUBNET.pack zeroes bits beyond it)",
]
HAS_MODEL_OUT = True
CASES_HEADER = "From DnsV Require Import Base.Ip Model.Ecs."


def addr(v):
    n = 0
    for b in v:
        n = n * 256 + int(b)
    return n


def cid(x):
    x = int(x)
    return "(%d,%d)" % ((x >> 8) & 0xff, x & 0xff)


def cecs(e):
    if e is None:
        return "None"
    a = e["addr"]
    if len(a) != 16:
        a = [0] * 16
    return "(Some (mkEcs %d %d %d %d))" % (e["fam"], e["src"], e["scope"], addr(a))


def cnets(ns):
    return clist(["mkSubnet %d %d %s" % (addr(n["a"]), n["l"], cid(n["loc"])) for n in ns])


def cor(o):
    if not o.get("found"):
        return "None"
    return "(Some (%d,%s))" % (o["len"], cid(o["loc"]))


def crd(d):
    """What the driver returned, read off the Reader-level result: None = lookup error
    (or not observed), Some None = no location, Some (Some (location, mask))."""
    if not d or d.get("st") == "err":
        return "None"
    if d.get("st") != "loc" or not d.get("loc"):
        return "(Some None)"
    return "(Some (Some (%s,%d)))" % (cid(d["loc"]), d["mask"])


def cwopt(o):
    if o["is_ecs"]:
        return "WEcs %d %d %d %s" % (o["fam"], o["src"], o["scope"], cbytes(o["addr"]))
    return "WOther %d %s" % (o["code"], cbytes(o.get("data") or []))


def to_coq(c):
    q = c["q"]
    o = c.get("obs") or {"reply": False, "rcode": 0, "opt": False, "ver": 0, "do": False, "udp": 0, "codes": [],
                          "ecs": None, "ansloc": -1, "wire_ok": False, "wopt": False, "wcodes": [], "wecs": None}
    nets = c.get("nets") or {}
    ansloc = o.get("ansloc", -1)
    if ansloc is None or ansloc < 0:
        ansloc = 0
    fields = [
        cbool(c.get("hit", False)),
        cbool(c.get("inzone", False)),
        cid(c["map8"]), cid(c["mapm"]),
        # map id 0 = the unnamed map: its subnets are looked up for names without 8 / M line
        cnets(nets.get(str(c["map8"]), [])),
        cnets(nets.get(str(c["mapm"]), [])),
        cbool(q["opt"]), cN(q["ver"]), cbool(q["do"]), cN(q["udp"]),
        clist([cwopt(x) for x in q.get("opts") or []]),
        cN(addr(q["rip"])),
        cbool(c["parsed"]),
        cecs(c.get("seen")),
        cbool(o["reply"]), cN(o["rcode"]), cbool(o["opt"]), cN(o["ver"]), cbool(o["do"]), cN(o["udp"]),
        clist([cN(x) for x in o.get("codes") or []]),
        cecs(o.get("ecs")),
        cid(ansloc),
        cbool(o.get("wire_ok", False)), cbool(o.get("wopt", False)),
        clist([cN(x) for x in o.get("wcodes") or []]),
        cecs(o.get("wecs")),
        cor(c["or_ecs"]), cor(c["or_res"]),
        crd(c.get("rd_ecs")), crd(c.get("rd_res")),
    ]
    return "mk " + " ".join(f if f[0] in "([" or f.replace("%", "").isalnum() else "(" + f + ")" for f in fields)


def nontrivial(c):
    o = c.get("obs")
    if not o or not c.get("seen"):
        return None
    e = o.get("ecs") or {}
    s = c["seen"]
    return [c["class"], c["backend"], c["mode"], c["hit"], o["rcode"], s["fam"], s["src"], e.get("scope"), c["map8"] != 0,
            c["or_ecs"].get("found")]


def case_class(c):
    return "%s:%s%s" % (c.get("class", "?"), c.get("mode", "?"), "+hit" if c.get("hit") else "")


V4BLOCK = 0xffff << 32


def f20_shape(c):
    """RocksDB backend and the name's ECS or resolver map declares an IPv6 subnet of
    length 1..95 that contains ::ffff:0:0 (Rearranger pseudo points, finding F20)."""
    if c.get("backend") not in ("v1", "v2"):
        return False
    nets = c.get("nets") or {}
    for mid in (c.get("map8"), c.get("mapm")):
        if not mid:
            continue
        for n in nets.get(str(mid), []):
            l = n["l"]
            if 1 <= l <= 95 and (addr(n["a"]) >> (128 - l)) == (V4BLOCK >> (128 - l)):
                return True
    return False


def f21_shape(c):
    """BADVERS reply (EDNS version != 0) to a query that carried an ECS option:
    OPT present, client-subnet option missing.  Exactly that shape."""
    q = c.get("q") or {}
    o = c.get("obs") or {}
    if not (c.get("parsed") and q.get("opt") and q.get("ver", 0) != 0 and c.get("seen") is not None):
        return False
    return bool(o.get("reply") and o.get("rcode") == 16 and o.get("opt") and o.get("ecs") is None
                and o.get("wire_ok") and o.get("wopt") and o.get("wecs") is None and 8 not in (o.get("codes") or []))


def known_finding(c, findings):
    want = None
    if f21_shape(c):
        want = "F21"
    elif f20_shape(c) and (c.get("q") or {}).get("ver", 0) == 0:
        want = "F20"
    if want is None:
        return None
    for f in findings:
        if f.get("id") == want:
            return f
    return None


def shrink_candidates(c):
    q = c["q"]
    opts = q.get("opts") or []
    # fewer options
    for i in range(len(opts)):
        if not opts[i]["is_ecs"]:
            yield dict(c, q=dict(q, opts=opts[:i] + opts[i + 1:]))
    # plainer flags
    if q.get("do"):
        yield dict(c, q=dict(q, do=False))
    if q.get("udp") != 1232 and q.get("opt"):
        yield dict(c, q=dict(q, udp=1232))
    for i, o in enumerate(opts):
        if o["is_ecs"] and o.get("scope"):
            yield dict(c, q=dict(q, opts=opts[:i] + [dict(o, scope=0)] + opts[i + 1:]))
    # no cache
    if c.get("mode") != "nocache":
        yield dict(c, mode="nocache")
