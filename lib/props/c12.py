"""C12 - The response cache is invisible."""
from checklib import cN, cbool, clist, cpair, cstr_bytes
from props import c05

ID = "C12"
# source constants of this property: Gen/Params.v is regenerated from the working tree, Proofs/ParamsTie.vo
# (lemma per constant: it is the value the models use) is built with the property (lib/paramsgen.py)
import paramsgen
EXTRA_TARGETS = [paramsgen.TARGET]


def pre_build(ctx):
    paramsgen.regenerate(ctx)


HARNESS = "c12"
N_CASES = {"quick": 60, "thorough": 500}
N_SEARCH = {"quick": 1, "thorough": 1}
SHARD = 8
HAS_MODEL_OUT = True
CASES_HEADER = "From DnsV Require Import Model.Reload Model.Cache Run.C05 Run.C12."
RULE = ("(1) -n seeded sequential histories (10-40 events) fed to two real handlers, cache on (LRU size 2/3/5/64) and cache off: "
        "queries over 17 name/type variants (same name in different letter case, A/TXT/MX/SOA/AAAA, NXDOMAIN, NODATA, referral, "
        "REFUSED, weighted), requesters of four locations (ids 0/1, 0/2, 0/58, 1/58: pairs sharing the first or the second id "
        "byte, each with its own data for geo.example.com) plus IPv6, with/without EDNS, EDNS version 0/1/2, ECS inside/outside "
        "a mapped subnet, RD bit, class IN/CHAOS, interleaved with successful full reloads, failing reloads (missing, unreadable, no validation "
        "key) and partial reloads; fixed histories: formatted-key collisions (TYPE1001/CLASS1 vs TYPE100/CLASS1001; class 100 "
        "name 1x... vs class 1001 name x...; 1www vs www), IN vs CHAOS, one question alternating between the four locations "
        "(by resolver address and by ECS), unsupported EDNS versions on a cold and a warm cache, weighted answers cached for one second and expired "
        "after a 2.2 s wait; (2) schedules with the cache enabled replayed through the yield points: F6 shape, insert between "
        "swap and purge, hit / reload / miss, n/3 random schedules of 2-3 queries on few keys x 2 reloads (cdb; RocksDB "
        "shapes); non-trivial = history with at least one cache hit, or schedule with a reload step between two query steps")
TRUSTED_BASE = c05.TRUSTED_BASE + [
    "histories: responses are compared section by section as (owner, class type ttl rdata-text) pairs printed by miekg/dns; "
    "hit / expired are read off the handler's DNS_cache.hit / DNS_cache.expired counters",
    "the model of a history predicts hit / miss / expiry and the source event of every hit (Model/Cache.v with the LRU of "
    "hashicorp/golang-lru as a recency list); the response computation itself (serve_core) is abstract in the theorem",
    "time: the Unix second read by the harness just before a query is taken as the handler's time.Now().Unix() (the harness "
    "keeps clear of second boundaries)",
]
ASSUMPTIONS = c05.ASSUMPTIONS + ["max answer count is the same for every request (handler constant)",
                                 "location, qtype, qclass are 16-bit numbers (wf_key)"]


def _rrs(l):
    return clist([cpair(cstr_bytes(x["owner"]), cstr_bytes(x["rest"])) for x in (l or [])])


def _oresp(r):
    secs = r.get("secs") or [[], [], [], []]
    present = bool(r.get("done")) and not r.get("nomsg")
    return "(mkOR %s %d %d %s %s %s %s %s)" % (cbool(present), r.get("rcode", 0), r.get("flags", 0),
                                               _rrs(secs[0]), _rrs(secs[1]), _rrs(secs[2]), _rrs(secs[3]),
                                               cstr_bytes(r.get("opt") or ""))


def to_coq(c):
    if c["kind"] != "hist":
        return "CSched (%s)" % c05.to_coq(c)
    evs = []
    h1, h0 = c.get("hist1") or [], c.get("hist0") or []
    for i, t in enumerate(c["threads"]):
        a = h1[i] if i < len(h1) else {"now": 0, "resp": {}, "rel": "", "exp": 0}
        b = h0[i] if i < len(h0) else {"now": 0, "resp": {}, "rel": "", "exp": 0}
        if t["kind"] == "q":
            sh = c["shapes"][i]
            evs.append("HQuery (mkHQ %d %d %d %s %s %s %s %d %s %s %s %s)" % (
                c["locs"][i], t["qtype"], t.get("qclass") or 1, cstr_bytes(t["name"].lower()),
                cbool(sh["refused"]), cbool(sh["weighted"]), cbool(bool(t.get("edns")) and t.get("ever", 0) != 0), a["now"],
                cbool(a["resp"].get("hit", 0) == 1), cbool(a.get("exp", 0) == 1),
                _oresp(a["resp"]), _oresp(b["resp"])))
        elif t["kind"] == "r":
            evs.append("HReload %s %s" % (cbool(a["rel"] == "ok"), cbool(b["rel"] == "ok")))
        else:
            evs.append("HEnv")
    cfg = c["cfg"]
    return "CHist (mkH %d %d %s %s)" % (cfg["lru"] or 64, cfg.get("wrs_timeout", 0), clist(evs), cbool(bool(c.get("err"))))


def nontrivial(c):
    if c["kind"] == "hist":
        if any((x.get("resp") or {}).get("hit") == 1 for x in c.get("hist1") or []):
            return ["hist", c["cfg"]["lru"], [[t["kind"], t.get("name"), t.get("qtype"), t.get("ip"), t.get("full"), t.get("path")] for t in c["threads"]]]
        return None
    return c05.nontrivial(c)


def case_class(c):
    return c["kind"] + ":" + c["class"] + ":" + c["cfg"]["backend"]


def shrink_candidates(c):
    if c["kind"] == "hist":
        th = c["threads"]
        n = len(th)
        if n > 6:
            yield dict(c, threads=th[:n // 2])
            yield dict(c, threads=th[n // 2:])
        for i in range(n):
            yield dict(c, threads=th[:i] + th[i + 1:])
    else:
        for x in c05.shrink_candidates(c):
            yield x


def known_finding(c, findings):
    """F6: every violated clause concerns a query served from the cache (or computed before a swap) whose
    stale entry was inserted by a query that took its reader before the swap and inserted after the purge"""
    if c["kind"] == "hist":
        return None
    ids = {f["id"]: f for f in findings}
    if "F6" not in ids or not c["cfg"]["cache"]:
        return None
    r = c05.violations(c)
    if r is None:
        return None
    v, a = r
    if not v:
        return None
    # inserts after a purge by queries that acquired before the swap of that reload
    th = c["threads"]
    pts = a["pts"]
    stale_inserters = []
    for ins in a["installs"]:
        rt = ins["thread"]
        swap, purged = pts[rt].get("reload_swapped"), pts[rt].get("reload_purged")
        if swap is None or purged is None:
            continue
        for t, x in enumerate(th):
            if x["kind"] != "q" or t not in pts:
                continue
            acq, bw = pts[t].get("acquired"), pts[t].get("before_write")   # the insert happens in the step that ends at before_write
            if acq is not None and bw is not None and acq < swap and bw > purged:
                stale_inserters.append((t, c["keys"][t], bw))
    if not stale_inserters:
        return None
    views = {x["t"]: x for x in a["views"]}
    for clause, t in v:
        x = views[t]
        # the violating query must have been served from the cache, with the key of a stale insert that
        # happened before its cache lookup (the step ending at 'done' right after 'located')
        if not x["hit"]:
            return None
        if not any(k == c["keys"][t] and bw < x["fin"] for (_, k, bw) in stale_inserters):
            return None
    return ids["F6"]
