"""C05 - A reload switches generations atomically and visibly."""
from checklib import cN, cbool, clist, cpair

ID = "C05"
HARNESS = "c05"
N_CASES = {"quick": 60, "thorough": 600}
N_SEARCH = {"quick": 1, "thorough": 1}
SHARD = 100
HAS_MODEL_OUT = True
CASES_HEADER = "From DnsV Require Import Model.Reload."
RULE = ("schedules (lists of thread ids) replayed against the real handler through its verif yield points, on stamped "
        "databases built with the real compilers: every interleaving of one MX query (8 yield steps) with one reload "
        "(5 steps) on cdb for a full switch and for a partial reload after the file was replaced (793 each); every failing "
        "kind (missing path, unreadable file, missing validation key, ReloadTimeout expired on full and partial reloads) on "
        "a sample of the interleavings, each followed by a fresh query; named shapes on cdb and RocksDB v2/v1 keys (query "
        "across a catch-up, validation failure after catch-up, timed-out catch-up, partial reload after a switch and after a "
        "failed switch, blocked acquisition while the write lock is held, switch back to an updated path; with the response "
        "cache ENABLED: the same stamped questions (MX, located A, NXDOMAIN) before and after a successful partial reload and "
        "after a full reload naming the served path, next to a never-asked question, sequentially and with queries parked "
        "across the reload at 'acquired' / 'before_write', on cdb and both RocksDB key layouts); -n seeded random "
        "schedules of 2 queries x 2 reloads (+ on-disk updates, blocked probes) on cdb and a few on RocksDB; thorough adds "
        "RocksDB exhaustive samples and 3 queries x 2 reloads; non-trivial = distinct (class, backend, schedule) with a reload "
        "step between two steps of a query")
TRUSTED_BASE = [
    "the harness scheduler (verifharness/rl): goroutines are parked at the verif yield points and released one at a time; a "
    "thread that does not arrive within 40 ms while the write lock is held is recorded as blocked; deadlocks are reported "
    "as harness errors after a timeout",
    "generation stamps: every A, MX, TXT and SOA record of a compiled database carries the generation number; the location "
    "maps and the zone layout are identical in all generations (so cache key and REFUSED/weighted do not depend on the generation)",
    "RocksDB primaries are updated between steps with rdb.ApplyDiff (open, batch, flush, close); cdb files are replaced by rename",
    "the goroutine left behind by a timed-out db.Reload has no yield point: the harness waits for it (goroutine dump) right after "
    "Reload returned, the model runs its late step at that place",
    "not modelled: Go memory model effects (C14), reference counting / closing of backends (C06), LRU capacity and expiry "
    "(Model/Cache.v), a handler that never loaded a database (Reload returns an error, no state change), empty full-reload path",
]
ASSUMPTIONS = ["every schedule starts from a handler whose Load succeeded",
               "on-disk updates of one case touch distinct paths",
               "no cache entry expires during a schedule (entries live 1000 s)"]

POINTS = {"": 0, "acquired": 1, "located": 2, "cache_checked": 3, "auth_checked": 4, "answered": 5,
          "before_cache_insert": 6, "before_write": 7, "reload_locked": 11, "reload_done": 12,
          "reload_swapped": 13, "reload_purged": 14, "done": 99}
RES = {"": 0, "ok": 1, "nokey": 2, "timeout": 3, "err": 4}


def cfile(f):
    return "(mkFile %d %s %s)" % (f["stamp"], cbool(f["ok"]), cbool(f["key"]))


def to_coq(c):
    th = c.get("threads") or []
    qs, rs, es, threads, shapes = [], [], [], [], []
    seen = set()
    for i, t in enumerate(th):
        if t["kind"] == "q":
            threads.append("mkT KQ %d" % len(qs))
            sh = c["shapes"][i]
            qs.append("mkQS %d %d %s %s" % (t.get("client", 0), c["keys"][i],
                                            cbool(sh.get("ans_cached", False)), cbool(sh.get("extra_cached", False))))
            if c["keys"][i] not in seen:
                seen.add(c["keys"][i])
                s = c["shapes"][i]
                shapes.append(cpair(cN(c["keys"][i]), "mkShape %s %s %s %s" % (
                    cbool(s["refused"]), cbool(s["weighted"]), cbool(s["ans"]), cbool(s["extra"]))))
        elif t["kind"] == "r":
            threads.append("mkT KR %d" % len(rs))
            rs.append("Full %d" % t.get("path", 0) if t.get("full") else "Partial")
        else:
            threads.append("mkT KE %d" % len(es))
            es.append("mkES %d %s" % (t.get("path", 0), cfile(t["file"])))
    cfg = c["cfg"]
    config = "(mkC %s %s %s %s %s %s %s %s)" % (
        cbool(cfg["backend"] != "cdb"), cbool(cfg["cache"]), cbool(cfg.get("wrs_timeout", 0) > 0),
        cbool(cfg["vkey"]), cbool(cfg["timeout0"]), clist(qs), clist(rs), clist(es))
    disk = clist([cpair(cN(d["path"]), cfile(d["file"])) for d in c["disk"]])
    steps = clist(["mkO %d %s %d" % (s["t"], cbool(s["b"]), POINTS.get(s["p"], 98)) for s in c.get("steps") or []])
    resps = c.get("resps") or []
    qobs = []
    robs = []
    for i, t in enumerate(th):
        if t["kind"] == "q":
            r = resps[i] if i < len(resps) else {"done": False, "ans": [], "extra": [], "hit": 0}
            qobs.append("mkQO %s %s %s %s" % (cbool(r["done"] and not r.get("nomsg")), clist([cN(x) for x in r["ans"]]),
                                              clist([cN(x) for x in r["extra"]]), cbool(r.get("hit", 0) == 1)))
        elif t["kind"] == "r":
            e = (c.get("relerr") or [""] * len(th))[i]
            robs.append(cN(RES.get(e, 4)))
    return "mkCase %s %s %s %d %s %s %s %s %s" % (
        config, clist(shapes), disk, c["p0"], clist(threads), steps, clist(qobs), clist(robs), cbool(bool(c.get("err"))))


def nontrivial(c):
    # a reload step between two steps of one query
    steps = c.get("steps") or []
    kinds = [t["kind"] for t in c.get("threads") or []]
    first, last = {}, {}
    for i, s in enumerate(steps):
        if s["b"]:
            continue
        first.setdefault(s["t"], i)
        last[s["t"]] = i
    for t, k in enumerate(kinds):
        if k != "q" or t not in first:
            continue
        for i in range(first[t], last[t]):
            if kinds[steps[i]["t"]] == "r":
                return [c["class"], c["cfg"]["backend"], c["sched"]]
    return None


def case_class(c):
    return c["class"] + ":" + c["cfg"]["backend"]


def shrink_candidates(c):
    s = c["sched"]
    for i in range(len(s)):
        yield dict(c, sched=s[:i] + s[i + 1:])


# ---------------------------------------------------------------- classification of known findings
# A python mirror of the specification of Run/C05.v (window / single / monotone), used only to find
# WHICH queries violate which clause, so that a case is attributed to a known finding only when every
# violating query has that finding's shape.

def _analysis(c):
    th = c.get("threads") or []
    steps = c.get("steps") or []
    relerr = c.get("relerr") or []
    resps = c.get("resps") or []
    first, done, second = {}, {}, {}
    pts = {}
    for i, s in enumerate(steps, 1):
        if s["b"]:
            continue
        t = s["t"]
        if t not in first:
            first[t] = i
        elif t not in second:
            second[t] = i
        if s["p"] == "done":
            done.setdefault(t, i)
        pts.setdefault(t, {})[s["p"]] = i
    disk0 = {d["path"]: d["file"] for d in c["disk"]}

    def disk_at(i):
        d = dict(disk0)
        for t, x in enumerate(th):
            if x["kind"] == "e" and t in done and done[t] < i:
                d[x.get("path", 0)] = x["file"]
        return d

    rows = sorted((done[t], t) for t, x in enumerate(th) if x["kind"] == "r" and t in done and relerr[t] == "ok")
    cur = c["p0"]
    installs = []
    for dn, t in rows:
        path = th[t].get("path", 0) if th[t].get("full") else cur
        f = disk_at(second.get(t, 0)).get(path)
        installs.append({"lock": first[t], "done": dn, "stamp": f["stamp"] if f else 0, "thread": t})
        if th[t].get("full"):
            cur = path
    seq = [(0, disk0.get(c["p0"], {"stamp": 0})["stamp"])] + [(k + 1, x["stamp"]) for k, x in enumerate(installs)]
    views = []
    for t, x in enumerate(th):
        if x["kind"] != "q" or t not in first or t not in done or not resps[t]["done"]:
            continue
        lo = sum(1 for x2 in installs if x2["done"] < first[t])
        hi = sum(1 for x2 in installs if x2["lock"] < done[t])
        ss = list(resps[t]["ans"]) + list(resps[t]["extra"])
        gens = [[k for k, s in seq if lo <= k <= hi and s == st] for st in ss]
        views.append({"t": t, "client": x.get("client", 0), "acq": first[t], "fin": done[t], "stamps": ss,
                      "gens": gens, "lo": lo, "hi": hi, "pts": pts.get(t, {}), "hit": resps[t].get("hit", 0)})
    return {"views": views, "installs": installs, "pts": pts, "first": first, "second": second, "done": done, "seq": seq}


def violations(c):
    """list of (clause, query thread) pairs violated by the observation; None if the case has a harness error"""
    if c.get("err") or any(not r["done"] for t, r in zip(c.get("threads") or [], c.get("resps") or []) if t["kind"] == "q"):
        return None
    a = _analysis(c)
    v = []
    for x in a["views"]:
        if any(not g for g in x["gens"]):
            v.append(("window", x["t"]))
        if len(set(x["stamps"])) > 1:
            v.append(("single", x["t"]))
    for x1 in a["views"]:
        for x2 in a["views"]:
            if x1["client"] == x2["client"] and x1["fin"] < x2["acq"]:
                g1 = [g[0] for g in x1["gens"] if g]
                g2 = [g[-1] for g in x2["gens"] if g]
                if any(p > q for p in g1 for q in g2):
                    v.append(("monotone", x2["t"]))
    return v, a


def _catchups(c, a):
    """steps at which a RocksDB backend was caught up in place: (step index, kind, reload thread, stamp exposed)
    kind: 'ok' (successful partial reload), 'nokey' (F23), 'late' (F24)"""
    if c["cfg"]["backend"] == "cdb":
        return []
    res = []
    th = c["threads"]
    relerr = c.get("relerr") or []
    disk0 = {d["path"]: d["file"] for d in c["disk"]}

    def disk_at(i):
        d = dict(disk0)
        for t, x in enumerate(th):
            if x["kind"] == "e" and t in a["done"] and a["done"][t] < i:
                d[x.get("path", 0)] = x["file"]
        return d

    # path every reload acted on: partial = path of the last full reload that had returned nil before it locked
    fulls = sorted((a["done"][t], x.get("path", 0)) for t, x in enumerate(th)
                   if x["kind"] == "r" and x.get("full") and t in a["done"] and relerr[t] == "ok")
    for t, x in enumerate(th):
        if x["kind"] != "r" or t not in a["second"]:
            continue
        path = c["p0"]
        for dn, p in fulls:
            if dn < a["first"][t]:
                path = p
        if x.get("full") and x.get("path", 0) != path:
            continue   # a switch to another path opens a new backend; naming the served path is a catch-up
        at = a["second"][t] if relerr[t] != "timeout" else a["done"].get(t, a["second"][t])
        f = disk_at(at).get(path)
        stamp = f["stamp"] if f else None
        kind = {"ok": "ok", "nokey": "nokey", "timeout": "late"}.get(relerr[t])
        if kind:
            res.append((at, kind, t, stamp))
    return res


def known_finding(c, findings):
    """A case is attributed to a finding only if EVERY violated clause of EVERY query is explained by it:
    F5  - 'single' violated, all stamps inside the query's window, and a successful RocksDB catch-up step lies
          strictly between the query's 'located' and 'before_cache_insert' steps (between two of its lookups);
    F23 - RocksDB partial reload that returned the validation error: the stamps outside the window are exactly
          the stamp that reload's catch-up exposed, and the catch-up precedes the end of the query;
    F24 - the same for a partial reload that returned the timeout error (late catch-up)."""
    r = violations(c)
    if r is None:
        return None
    v, a = r
    if not v:
        return None
    ids = {f["id"]: f for f in findings}
    cu = _catchups(c, a)
    views = {x["t"]: x for x in a["views"]}
    used = set()
    for clause, t in v:
        x = views[t]
        bad = set(st for st, g in zip(x["stamps"], x["gens"]) if not g)
        p = x["pts"]
        lo_pt, hi_pt = p.get("located"), p.get("before_cache_insert")
        explained = None
        if clause == "single" and not bad and not x["hit"] and lo_pt is not None and hi_pt is not None and \
                any(kind == "ok" and lo_pt < i < hi_pt for (i, kind, _, _) in cu):
            explained = "F5"
        else:
            for fid, kind in (("F23", "nokey"), ("F24", "late")):
                exposed = set(st for (i, k, _, st) in cu if k == kind and i < x["fin"] and st is not None)
                if not exposed:
                    continue
                if bad and bad <= exposed:
                    explained = fid
                elif not bad and clause == "monotone" and any(
                        set(st for st, g in zip(y["stamps"], y["gens"]) if not g) & exposed
                        for y in a["views"] if y["client"] == x["client"] and y["fin"] < x["acq"]):
                    explained = fid   # the earlier query of the pair saw the exposed stamp
        if explained is None or explained not in ids:
            return None
        used.add(explained)
    if len(used) != 1:
        return None   # the generators keep the shapes apart
    return ids[used.pop()]
