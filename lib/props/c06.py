"""C06 - No database backend is used after close, closed twice, or leaked."""
from checklib import cbool, clist, cpair, cN

ID = "C06"
HARNESS = "c06"
N_CASES = {"quick": 360, "thorough": 6000}
N_SEARCH = {"quick": 2, "thorough": 3}
SHARD = 200
HAS_MODEL_OUT = True
RULE = ("[plus, op query in the random, exhaustive, race and intr classes: a DNS question (TXT at the apex of the zone every "
        "fake backend serves, or a name error below it) sent through ServeDNSWithRCODE of the handler under test, the response "
        "cache enabled on about two thirds of the handlers so that a repeated question is a cache hit; the model takes the "
        "lookups as observed and requires acquisition and exactly one release inside the step] "
        "[plus, class race-rel: 30*N (quick) / 8*N (thorough) free-running iterations in which the release of the last "
        "reader of the served backend and the operation that retires that backend (reload to a new backend, shutdown) run in "
        "two goroutines with a start skew that homes in on the collision of their DB.l critical sections; identical "
        "observations are evaluated once (mult)] "
        "[plus, classes intr-exh/intr: operations (acquire, use, release, shutdown, second reload) attempted from another "
        "goroutine while a reload is held inside DBI.Reload, inside a backend's Close, or at the reload_locked/reload_done yield "
        "points; the two operations are emitted in the order of their calls on the backends] "
        "operation histories over {acquire, use, release (3 reader slots), reload new-ok / same-ok / open-error / "
        "validation-fail new / validation-fail same, reload timeout with late new / same / error completion (up to 2 "
        "pending, completion possibly delayed past further operations and out of order), shutdown} run against a real "
        "dnsserver.FBDNSDB + db.DB over instrumented fake backends: ALL guard-satisfying histories of depth 2 "
        "(quick, 3 slots) / depth 4 (thorough, 2 slots), seeded random histories of length 3..25 (half of them drained to a "
        "quiescent state), and race attempts whose backend returns at the moment the reload timeout fires (the order that "
        "happened is read off the observation). Every step is compared with the model (events, error class, served backend, "
        "refcounts, pins) and checked against the property; non-trivial = distinct history containing a reload or shutdown")
TRUSTED_BASE = [
    "the instrumented fake db.DBI backend of the harness (records every call, counts calls after Close and second Close); "
    "real cdb/rocksdb drivers enter only through the shape of DBI.Reload's result (fresh backend / same backend / error), "
    "read off db/cdbdriver.go and db/rdbdriver.go",
    "atomicity of the modelled steps rests on reloadMu (FBDNSDB.Reload/Close exclusive, AcquireReader shared), DB.l and the "
    "local mutex m of DB.Reload; it is not a theorem (the model has no lock component) but is tested differentially: "
    "classes intr-exh/intr attempt acquire/shutdown/reload/use/release from another goroutine inside DBI.Reload, inside Close "
    "and at the reload_locked/reload_done yield points and require the observed calls to be those of SOME sequential order "
    "of the two operations; that NewReader, Destroy and the tail of DataReader.Close are each ONE critical section of DB.l is "
    "assumed by both models and tested by the free-running class race-rel (probabilistic: the window of a split release is a "
    "few nanoseconds); the Go memory model is not modelled (C14's subject). The order 'goroutine publishes, then main "
    "times out' cannot be forced from outside: it is proved in the model and only observed opportunistically (class race)",
    "refCount is modelled as an unbounded natural number for increments (uint64 cannot overflow with fewer than 2^64 held readers); "
    "the decrement wraps as in Go",
    "harness probes (DB.GetStats to learn a wrapper's backend id, RefCountForVerif) are not counted as calls of the code under test",
]
ASSUMPTIONS = [
    "histories are well formed (decidable guard wf_hist, stated in every theorem): a reader slot is acquired when free and "
    "used/released when held; after shutdown only use, release and late completions happen (AcquireReader/Reload after "
    "FBDNSDB.Close, and a second Close, are outside the property's quantifier: treated as terminal)",
    "in-flight guard: while a timed-out reload is still inside DBI.Reload the served backend is neither replaced by a successful "
    "new-backend reload nor shut down (without it the property is refuted: C06_inflight_reload_refuted)",
    "validation key is non-empty (with an empty key ValidateDbKey touches nothing)",
]


def cnat(n):
    return "%d%%nat" % int(n)


def cand(o):
    c = o.get("c", "err")
    if c == "new":
        return "(CNew %s)" % cbool(o.get("key", False))
    if c == "same":
        return "(CSame %s)" % cbool(o.get("key", False))
    return "CErr"


def op_coq(o, ev=None):
    k = o["k"]
    if k == "acq":
        return "(OAcq %d)" % o.get("r", 0)
    if k == "use":
        return "(OUse %d)" % o.get("r", 0)
    if k == "rel":
        return "(ORel %d)" % o.get("r", 0)
    if k == "reload":
        return "(Reload %s)" % cand(o)
    if k == "tpub":
        return "(ReloadTimeoutPub %s)" % cand(o)
    if k == "tfirst":
        return "ReloadTimeoutFirst"
    if k == "late":
        return "(OLate %d %s)" % (o.get("i", 0), cand(o))
    if k == "shutdown":
        return "Shutdown"
    if k == "query":
        # the lookups of the query: everything between NewContext, ClosestKeyFinder and the last call
        mid = [e[1] for e in (ev or [])[2:-1]]
        return "(Query %s)" % clist([cN(x) for x in mid])
    raise ValueError("unknown op " + k)


def events(evs):
    return clist(["E %d %d" % (b, o) for b, o in (evs or [])])


def to_coq(c):
    steps = []
    for s in c["steps"]:
        obs = "(Ob %s %s %s %s %s %s %s %s)" % (
            cbool(not s.get("partial", False)), events(s["events"]), cN(s["res"]), cN(s["served"]),
            clist(["Rf %d %d %s" % (b, rc, cbool(d)) for b, rc, d in s["refs"]]),
            clist(["Pn %d %d" % (sl, b) for sl, b in s["pins"]]),
            cN(s["uac"]), cN(s["dc"]))
        steps.append("St %s %s" % (op_coq(s["op"], s["events"]), obs))
    return "mk %s %s %s" % (cbool(c["guard"]), events(c["init"]), clist(steps))


def nontrivial(c):
    ks = [s["op"]["k"] for s in c["steps"]]
    if any(k in ("reload", "tpub", "tfirst", "late", "shutdown") for k in ks):
        return [[s["op"].get("k"), s["op"].get("r", 0), s["op"].get("c", ""), s["op"].get("key", False), s["op"].get("i", 0)]
                for s in c["steps"]]
    return None


def case_class(c):
    cl = c.get("class", "?")
    if cl == "race":
        ks = [s["op"]["k"] for s in c["steps"]]
        if "tpub" in ks:
            return "race:published-then-timeout"
        if "tfirst" in ks:
            return "race:timeout-first"
        return "race:goroutine-first"
    return cl


def shrink_candidates(c):
    if c.get("class") == "race-rel":
        return  # a free-running race: a shorter history is not the same experiment
    g = c["gen"]
    for i in range(len(g)):
        yield dict(c, gen=g[:i] + g[i + 1:])


def inflight_shape(c):
    """The resolved history breaks only the in-flight clause of the guard: a new-backend reload
    that succeeds, or a shutdown, while a timed-out reload has not completed yet (F28)."""
    npend, shut, hit = 0, False, False
    for s in c["steps"]:
        o = s["op"]
        k = o["k"]
        if k == "tfirst":
            npend += 1
        elif k == "late":
            npend -= 1
        elif k == "shutdown":
            if npend > 0 and not shut:
                hit = True
            shut = True
        elif k == "reload" and o.get("c") == "new" and o.get("key") and npend > 0:
            hit = True
    return hit


def known_finding(c, findings):
    if not c.get("guard", True) and inflight_shape(c):
        for f in findings:
            if "in-flight" in f.get("classifier", "") or "inflight" in f.get("classifier", ""):
                return f
    return None
