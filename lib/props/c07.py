"""C07 - Compilation is a deterministic, lossless function of the data file."""
import hashlib
import json

from checklib import cbytes, cbool, clist, cpair, cN

ID = "C07"
# source constants of this property: Gen/Params.v is regenerated from the working tree, Proofs/ParamsTie.vo
# (lemma per constant: it is the value the models use) is built with the property (lib/paramsgen.py)
import paramsgen
EXTRA_TARGETS = [paramsgen.TARGET]


def pre_build(ctx):
    paramsgen.regenerate(ctx)


HARNESS = "c07"
N_CASES = {"quick": 12, "thorough": 40}       # number of small data files; the harness derives the other classes from it
N_SEARCH = {"quick": 1, "thorough": 2}
SHARD = 40
HAS_MODEL_OUT = True
RULE = ("generated data files (all record types, few names so that many values share a key, duplicate lines, "
        "subnet lines in several maps, noise lines; in every other file lines whose last field ends in white space - blank, "
        "TAB, CR, VT, FF, 0x85, 0xA0, NBSP, NEL, EM SPACE, IDEOGRAPHIC SPACE - after text and generic payloads and after numeric "
        "last fields; white-space-only lines; files whose only bad line is a record, a comment or white space with a TAB, VT, "
        "FF, CR or NBSP in front; the Coq model reads the raw file bytes with its own model of the line reader) compiled by the real compilers under settings drawn from the grid "
        "workers 1/2/16 x (builder | batches with size 1/7/100000 x parallel 0/1/4) x v1/v2 keys, and CDB with "
        "workers 1/2/16; every database is read back completely and compared as key -> multiset of values with the "
        "implementation's own codec called line by line in one goroutine; a file with a rejected line must fail under "
        "every setting; plus the builder's sort + createBuckets on random key arrays (hook rdb.BucketsForVerif) and, "
        "compared in Go only, files of 2500 (quick) to 64000 (thorough) records with hot keys across bucket and batch "
        "boundaries; and two schedule-dependent classes compared in Go only: race-batch (240 lines, one key holding 180 "
        "values spread over the file, batches of 1-4 records, 8 or 16 in parallel, 16 parser workers, 6 compilations) and "
        "long-line (eight files with one TXT / comment / generic line of 65535, 65536, 65537 or 131072 bytes, with and "
        "without a trailing CR, first, middle, last and last without newline: from 65536 bytes on bufio.Scanner gives up "
        "and every setting must fail, one byte less must compile; the file is rebuilt in Coq from prefix, filler count and "
        "suffix) and read-error (rdb.Compile / cdb.CreateCDBFromReader from an io.Reader that fails after k bytes: every "
        "setting must fail; Go verdict only); race-cdb (about 2000 subnet lines in which 124 prefix lengths occur exactly once, CDB with 4/8/16 workers, 120 "
        "compilations); non-trivial = distinct (file, codec configuration, setting) with at least one record read back, "
        "or distinct bucket input with at least two keys")
TRUSTED_BASE = [
    "the codec (Codec.ConvertLn, Acc.MarshalMap, Features.MarshalMap) is a parameter of model and theorems; the harness takes its outputs from the implementation",
    "RocksDB below the rdb package: SstFileWriter, IngestExternalFile of key-disjoint files, Get/GetMulti/WriteBatch atomicity, iterator; the CDB writer/reader (C16)",
    "sort.Slice returns a sorted permutation (hypothesis sort_ok; exercised through the hook on every bucket case)",
    "ExecuteBatch per key = old values, additions, deletions: lemma execute_batch_perkey of the C15 development (Proofs/Batch.v)",
    "goroutine schedules of the parser workers and batch writers are represented by quantified permutations (is_stream, order); the mutex rdb.writeMutex serialising ExecuteBatch is trusted",
    "the line reader of dnsdata.parse is modelled (Model/LineReader.v: bufio.ScanLines, TrimLeft blanks, skip lines shorter than 2 bytes and comment lines, the scanner's token limit bufio.MaxScanTokenSize = 65536 as a constant of the Go standard library - parser.go does not set a buffer; the harness takes the same constant from package bufio); errors of the io.Reader itself are not modelled (class read-error, Go verdict); the Go-side comparison of large files uses the harness's replica of it",
]
ASSUMPTIONS = [
    "values are shorter than 2^32 bytes (kvs_ok)",
    "the accumulator's output does not depend on the order in which the subnet lines arrive (hypothesis accum_perm of C07_stream_is_permutation; "
    "false for a file that declares one subnet of one map twice with different locations - class dupnet, outside the well-formed guard, reported only)",
    "minBucketSize >= 1 and at least one bucket (runtime.NumCPU() >= 1); the feature record exists, so the record stream is never empty",
]


def ckv(p):
    return cpair(cbytes(p["k"]), cbytes(p["v"]))


def cdump(d):
    return clist([cpair(cbytes(e["k"]), clist([cbytes(v) for v in e["vs"]])) for e in (d or [])])


def cmode(r):
    if r["mode"] == "builder":
        return "MBuilder"
    if r["mode"] == "cdb":
        return "MCdb"
    return "(MBatches (%d)%%Z)" % r["bs"]


def unenforced(c):
    cl = c.get("class", "")
    return cl.startswith("dupnet") or cl.endswith("+codec-panic")


def verdicts(c):
    res = []
    for r in c["runs"]:
        if c["all_ok"]:
            res.append(bool(r["ok"] and r["go_same"]))
        else:
            res.append(not r["ok"])
    return res


def to_coq(c):
    k = c["kind"]
    if k == "buckets":
        return "CBuckets %s %s %d%%nat %s %s %s" % (
            clist([cbytes(x) for x in (c["keys"] or [])]), cN(c["minsize"]), c["maxnum"], cbool(c["panic"]),
            clist([cbytes(x) for x in (c["sorted"] or [])]),
            clist([cpair(cN(b[0]), cN(b[1])) for b in (c["buckets"] or [])]))
    if k == "long":
        return "CLong %s %d %d %s %s" % (cbytes(c["pre"]), c["fill"], c["count"], cbytes(c["post"]),
                                         clist([cpair(cbool(r["ok"]), cbool(r["go_same"])) for r in c["runs"]]))
    if k == "readerr":
        return "CVerdict %s" % clist([cbool(not r["ok"]) for r in c["runs"]])
    if unenforced(c):
        return "CVerdict []"
    if not c["small"]:
        return "CVerdict %s" % clist([cbool(v) for v in verdicts(c)])
    table = clist([cpair(cbytes(t["line"]), "(Some %s)" % clist([ckv(p) for p in (t["recs"] or [])]) if t["ok"] else "None")
                   for t in (c.get("table") or [])])
    runs = clist(["(mkrun %s %s %s)" % (cmode(r), cbool(r["ok"]), cdump(r.get("dump"))) for r in c["runs"]])
    return "CCompile %s %s %d %s %s %d%%nat %s" % (cbytes(c["file"]), table, c["nlines"], clist([ckv(p) for p in (c.get("acc") or [])]),
                                                 clist([ckv(p) for p in (c.get("feat") or [])]), c["ncpu"], runs)


def nontrivial(c):
    if c["kind"] == "long":
        return [c["class"], c["cfg"]]
    if c["kind"] == "readerr":
        return ["readerr", c["cfg"], c["fail_after"]]
    if c["kind"] == "buckets":
        return ["b", c["keys"], c["minsize"], c["maxnum"]] if len(c["keys"] or []) >= 2 else None
    if c.get("nrec", 0) == 0:
        return None
    h = hashlib.sha1(json.dumps([c.get("file"), c["nlines"], c["nrec"]]).encode()).hexdigest()[:12]
    return ["c", h, c["cfg"], [[r["mode"], r["workers"], r["bs"], r["par"]] for r in c["runs"]]]


def case_class(c):
    if c["kind"] in ("long", "readerr"):
        return "%s:%s" % (c["class"], c["cfg"])
    if c["kind"] == "buckets":
        return c["class"] + (":panic" if c["panic"] else ":%d" % min(len(c["buckets"] or []), 4))
    cl = "%s:%s" % (c["class"], c["cfg"])
    if c.get("straddle"):
        cl += ":straddle"
    if len(c.get("buckets") or []) > 1:
        cl += ":%dbuckets" % len(c["buckets"])
    if c["class"].startswith("dupnet"):
        cl += ":differs" if not all(verdicts(c)) else ":same"
    return cl


def shrink_candidates(c):
    if c["kind"] == "buckets":
        ks = c["keys"] or []
        for i in range(len(ks)):
            yield dict(c, keys=ks[:i] + ks[i + 1:])
        return
    if c["kind"] in ("long", "readerr"):
        if len(c["runs"]) > 1:
            yield dict(c, runs=c["runs"][:1])
        return
    if c["kind"] != "compile" or not c.get("file"):
        return
    text = bytes(c["file"]).split(b"\n")
    # fewer settings first, then fewer lines
    if len(c["runs"]) > 1:
        bad = [r for r, v in zip(c["runs"], verdicts(c)) if not v]
        if bad and len(bad) < len(c["runs"]):
            yield dict(c, runs=bad[:1])
    if any((r.get("err") or "").startswith("HANG") for r in c["runs"]):
        return  # every replay of a hanging setting costs its whole timeout
    for i in range(len(text)):
        t = text[:i] + text[i + 1:]
        yield dict(c, file=list(b"\n".join(t)))
