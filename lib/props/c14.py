"""C14 - Serving and reloading concurrently is free of data races.

Tie to the code: the translator harness/cmd/gotab regenerates coq/Gen/Access.v (table of
shared accesses with the locks held) from the Go sources on every run (pre_build); the
theorems of Properties/C14.v are then re-checked against what the code says now.  The race
stress harness (harness/cmd/c14, built with -race) is the search for a failing schedule and
cross-checks the table against what the race detector sees.
"""
import json
import os
import re
import shutil
import subprocess
import tempfile

import checklib
from checklib import cN, cbool

ID = "C14"
HARNESS = "c14"
BUILD_FLAGS = ["-race"]
# -n scales the duration of every stress scenario (10 = nominal: 1.2 s quick, 45 s thorough)
N_CASES = {"quick": 10, "thorough": 10}
N_SEARCH = {"quick": 0, "thorough": 0}
SHARD = 400
HAS_MODEL_OUT = True
CASES_HEADER = "From Coq Require Import String.\nOpen Scope string_scope.\nOpen Scope N_scope."
RULE = ("six stress scenarios per run (RocksDB v2 / v1 keys and CDB; mixed full and partial reloads; 300 us reload "
        "timeouts so that helper goroutines overlap; the real watcher goroutine with file changes; ServeDNS with "
        "sliding windows; response cache on/off; DummyLogger / TextLogger / the dnstap logger; updates of the RocksDB primary between catch-ups; "
        "questions keep drawing fresh query types and classes without a mnemonic, opcodes, EDNS versions and option codes), each N query "
        "workers x reloader x stats reporter, then Close racing with in-flight queries, under the Go race detector; "
        "one case per distinct racing pair of source positions plus one summary per scenario; non-trivial = a race "
        "report, or a scenario that served queries and completed reloads")
TRUSTED_BASE = [
    "PARTIAL BY NATURE: the Go memory model, the scheduler, cgo / RocksDB internals and the CDB mmap are not modelled; "
    "the lockset discipline is sufficient for race freedom, not necessary (a benign lock-free access needs a named exception in Model/Locks.v)",
    "the translator gotab (Go standard library: go/parser, go/ast) is trusted to report every read / write of a field of the tracked "
    "types (FBDNSDB, db.DB, DataReader, sortedDataReader, cdbdriver, rdbdriver, lockedSource, rdb.RDB, rdb.IteratorPool, rdb.Context, "
    "slidingWindow, Stats) and of goroutine-captured locals with the mutexes of the same object held there; it is syntactic and "
    "intraprocedural (locks taken by a caller count only for methods documented 'caller must hold', whose call sites are checked); "
    "package-level variables of the scanned packages (dnsserver, db, dnsdata/rdb, metrics, logger, fbserver, whoami, dnsdata, dnsdata/svcb, "
    "dnsserver/stats) ARE covered: their declaration / func init are writes of role Init, every other write (assignment, map index assignment, "
    "delete, copy, ++, op=) needs a common package-level mutex with every read anywhere (readers outside the role map get role AnyGo); taking the "
    "address of a package-level variable counts as a read (listed in the translator notes of Gen/Access.v), function literals in package-level "
    "initialisers are not analysed, variables of the libraries (miekg dns tables, glog) are outside the scan; "
    "accesses through interfaces into other packages (lru cache, glog) and aliasing of two differently named objects are not covered; "
    "it analyses the production build (files tagged verif are excluded, so SetRandSourceForVerif's swap of localRand is not in the table)",
    "Model/Locks.v (hand-written): which function runs in which role and which roles overlap; Init = before the servers start "
    "(FBDNSDB.Load and FBDNSDB.ValidateDbKey are assumed to finish before the first reload signal - NewFBDNSDB starts the ReloadChan "
    "consumer and the periodic ticker before Load, the code does not enforce this); exception: rdb.Context is goroutine-confined",
    "fresh accesses (object allocated in the same function - assumed unpublished until that function returns -, captured local "
    "before the go statement) are ordered before all others by the publication of the object",
    "Model/Pool.v is a hand-written counting abstraction of rdb_iteratorPool.go / RDB.CatchWithPrimary / reloadMu, tied to the code by "
    "C14_pool_model_tie (lock structure read off the generated table) and by reading; one helper goroutine; RDB.Close not modelled",
    "the race detector only sees schedules that happen; known findings are matched by field and by (unlocked reader, writer) functions",
]
ASSUMPTIONS = [
    "Load / ValidateDbKey / constructors complete before serving and before the first reload signal (role Init)",
    "C14_no_deadlock_partial: rdb.db.CatchWithPrimary returns nil (with an error return the statement is refuted: "
    "C14_no_deadlock_refuted_if_catchup_fails)",
]

GEN = os.path.join(checklib.COQ, "Gen", "Access.v")


# ---------------------------------------------------------------- translator

def pre_build(ctx):
    """Regenerates coq/Gen/Access.v from the Go sources of checklib.REPO."""
    os.makedirs(os.path.join(checklib.HARNESS, "bin"), exist_ok=True)
    gotab = os.path.join(checklib.HARNESS, "bin", "gotab")
    src = os.path.join(checklib.HARNESS, "cmd", "gotab", "main.go")
    rc, out = 0, ""
    if not os.path.exists(gotab) or os.path.getmtime(gotab) < os.path.getmtime(src):
        rc, out = checklib.run(["go", "build", "-o", gotab, "./cmd/gotab"], cwd=checklib.HARNESS, env=checklib.GOENV, timeout=600)
    if rc == 0:
        rc, out = checklib.run([gotab, "-repo", checklib.REPO, "-out", GEN], cwd=checklib.HARNESS, env=checklib.GOENV, timeout=300)
    if rc != 0:
        ctx.broken.append("gotab: the translator failed on the working tree, Gen/Access.v is not current: " + out[-800:])
        ctx.note("gotab FAILED:", out[-800:])
        return
    _TABLE.clear()
    ctx.note("gotab: Gen/Access.v regenerated from %s (%d accesses)" % (checklib.REPO, len(table())))


_TABLE = {}


def table():
    """(file, line) -> list of (owner, field, func, kind) parsed back from Gen/Access.v."""
    if _TABLE:
        return _TABLE.get("rows", [])
    names = {}
    rows = []
    try:
        src = open(GEN).read()
    except OSError:
        return rows
    for m in re.finditer(r'^Definition (S_[\w\']+) : string := "((?:[^"]|"")*)"\.', src, re.M):
        names[m.group(1)] = m.group(2).replace('""', '"')
    for m in re.finditer(r"^\s*mkA (\S+) (\S+) (\d+) (\S+) (\S+) (Read|Write) ", src, re.M):
        f, fl, ln, ow, fd, k = m.groups()
        rows.append({"func": names.get(f, f), "file": names.get(fl, fl), "line": int(ln),
                     "owner": names.get(ow, ow), "field": names.get(fd, fd), "kind": k})
    _TABLE["rows"] = rows
    return rows


def at(side):
    return [r for r in table() if r["file"] == side["file"] and r["line"] == side["line"]]


# ---------------------------------------------------------------- glue

def cstr(s):
    return '"' + str(s).replace('"', '""') + '"'


def to_coq(c):
    if c["class"] == "race":
        a, b = c["a"], c["b"]
        return "race %s %s %s %s %s %s" % (cstr(a["file"]), cN(a["line"]), cbool(a["write"]),
                                           cstr(b["file"]), cN(b["line"]), cbool(b["write"]))
    return "scenario %s %s" % (cN(c.get("panics", 0)), cbool(c.get("timeout", False)))


def nontrivial(c):
    if c["class"] == "race":
        k = sorted([[c["a"]["file"], c["a"]["line"]], [c["b"]["file"], c["b"]["line"]]])
        return ["race"] + k
    if c.get("queries", 0) > 0 and c.get("reloads", 0) > 0:
        return ["scenario", c["scenario"]["name"]]
    return None


def case_class(c):
    if c["class"] == "race":
        return "race:" + c["scenario"]["name"]
    return "scenario:" + c["scenario"]["name"] + (":race-detector" if c.get("race_detector") else ":NO-race-detector")


def known_finding(c, findings):
    """A race report is a known finding when both positions carry accesses to the finding's field, one
    in one of its unlocked reader functions and the other in one of its writer functions."""
    if c.get("class") == "scenario":
        # a crash of the stress process: matched by the C functions that were executing
        if not c.get("panics") or c.get("timeout"):
            return None
        cgo = set(c.get("crash_cgo") or [])
        for f in findings:
            need = set(f.get("crash_cgo_all") or [])
            if not need or not need <= cgo:
                continue
            if f.get("crash_kind_prefix") and not str(c.get("crash_kind", "")).startswith(f["crash_kind_prefix"]):
                continue
            if f.get("needs_reload_timeouts") and not c.get("scenario", {}).get("timeout_us"):
                continue
            return f
        return None
    if c.get("class") != "race":
        return None
    ra, rb = at(c["a"]), at(c["b"])
    for f in findings:
        fld = f.get("field")
        readers, writers = set(f.get("reader_funcs", [])), set(f.get("writer_funcs", []))
        if not fld or not readers or not writers:
            continue
        for x, y in ((ra, rb), (rb, ra)):
            for p in x:
                if p["owner"] + "." + p["field"] != fld or p["func"] not in readers:
                    continue
                for q in y:
                    if q["owner"] + "." + q["field"] == fld and q["func"] in writers and q["kind"] == "Write":
                        return f
    return None


# ---------------------------------------------------------------- the check

def coq_query(ctx, body):
    d = tempfile.mkdtemp(prefix="coqq-", dir=ctx.scratch)
    path = os.path.join(d, "q.v")
    with open(path, "w") as f:
        f.write("From Coq Require Import List String NArith Bool.\n"
                "From DnsV Require Import Model.AccessTypes Gen.Access Model.Locks.\nImport ListNotations.\n" + body)
    rc, out = checklib.run(["timeout", "600", "coqc", "-Q", checklib.COQ, "DnsV", path], cwd=d)
    shutil.rmtree(d, ignore_errors=True)
    return rc, out


def broken_pairs(ctx):
    """Which pairs of the regenerated table violate the lockset condition outside the known
    findings; which functions have no role; which callers do not hold a required lock."""
    rc, out = coq_query(ctx,
        "Definition show (p : access * access) := (a_owner (fst p), a_field (fst p), (a_func (fst p), a_file (fst p), a_line (fst p)), "
        "(a_func (snd p), a_file (snd p), a_line (snd p))).\n"
        "Eval vm_compute in map show (bad_pairs accesses).\n"
        "Eval vm_compute in filter (fun f => negb (has_role f)) (functions ++ map a_func (filter (fun a => negb (a_global a)) accesses)).\n"
        "Eval vm_compute in map (fun c => (c_func c, c_callee c, c_line c)) (filter (fun c => negb (call_ok c)) calls).\n")
    if rc != 0:
        return None, None, None, out
    parts = out.split("     = ")
    def strs(t):
        return re.findall(r'"((?:[^"]|"")*)"', t)
    pairs = []
    if len(parts) >= 2:
        toks = re.findall(r'"((?:[^"]|"")*)"|(\d+)%?N?', parts[1].split("\n     : ")[0])
        flat = [a if a else b for a, b in toks]
        # owner field func file line func file line
        for i in range(0, len(flat) - 7, 8):
            o, fld, f1, fl1, l1, f2, fl2, l2 = flat[i:i + 8]
            pairs.append({"field": o + "." + fld, "a": "%s (%s:%s)" % (f1, fl1, l1), "b": "%s (%s:%s)" % (f2, fl2, l2)})
    noroles = sorted(set(strs(parts[2].split("\n     : ")[0]))) if len(parts) >= 3 else []
    badcalls = strs(parts[3].split("\n     : ")[0]) if len(parts) >= 4 else []
    return pairs, noroles, badcalls, None


def differential(ctx):
    prop = ctx.prop
    ctx.cov["trusted_base"] = [
        "Coq 8.16.1 kernel (coqc), vm_compute for the finite access table, witnesses and case evaluation; no native_compute",
        "Print Assumptions per theorem: all closed under the global context (checked at every run)",
        "tie to /repo: coq/Gen/Access.v is TRANSLATED from the Go sources at every run (gotab); race reports of the real code are "
        "cross-checked against that table (model_ok); Model/Pool.v is hand-written",
    ] + TRUSTED_BASE
    if getattr(ctx, "checker_cmd", None):
        ctx.cov["checker_cmd"] = "harness/bin/gotab -repo %s -out coq/Gen/Access.v && %s" % (checklib.REPO, ctx.checker_cmd)
    binp, out = checklib.harness_build(ctx)
    focus = None
    if not getattr(ctx, "coq_ok", False) and getattr(ctx, "run_ok", False):
        pairs, noroles, badcalls, err = broken_pairs(ctx)
        if err is None:
            if pairs:
                fields = sorted(set(p["field"] for p in pairs))
                seenp, desc = set(), []
                for p in pairs:
                    k = (p["field"],) + tuple(sorted([p["a"], p["b"]]))
                    if k not in seenp:
                        seenp.add(k)
                        desc.append("%s: %s / %s" % (p["field"], p["a"], p["b"]))
                ctx.broken.append("C14_lockset_outside_finding (C14_lockset) no longer holds for the regenerated table: %d unsynchronised "
                                  "conflicting pair(s) outside the known findings: %s" % (len(desc), "; ".join(desc[:12])))
                ctx.note("lockset broken for:", "; ".join(desc[:12]))
                focus = ",".join(fields)
            if noroles:
                ctx.broken.append("C14_roles_total: function(s) without a role in Model/Locks.v: " + ", ".join(noroles[:20]))
                ctx.note("functions without a role:", ", ".join(noroles[:20]))
                if not focus:
                    focus = ",".join(sorted(set(n.rsplit(".", 1)[0] for n in noroles)))
            if badcalls:
                ctx.broken.append("C14_callers_hold_locks: " + ", ".join(badcalls[:12]))
        else:
            ctx.note("could not query the regenerated table:", err[-600:])
    if binp is None:
        ctx.obligations += 1
        path = checklib.write_replay(ctx, "correspondence", None, {
            "what": "the race stress harness no longer builds against /repo's working tree",
            "relation": "C14: race stress run (harness build)", "build_output": out[-3000:], "theorem": ctx.broken})
        ctx.violations.append((path, "no-failing-input-found"))
        return
    n = prop.N_CASES[ctx.tier]
    extra = None
    if focus:
        # search for a failing schedule, focused on the reported field(s)
        extra = "focus=" + focus
        ctx.note("searching for a failing schedule with the race stress harness, " + extra)
    rc, out, cases = checklib.harness_run(ctx, binp, n, ctx.seed, os.path.join(ctx.scratch, "cases.jsonl"), extra=extra)
    for line in out.split("\n"):
        if line.startswith("c14:"):
            ctx.note(line)
    if rc != 0 or not cases:
        ctx.note("harness run failed rc=%d: %s" % (rc, out[-2000:]))
        ctx.obligations += 1
        path = checklib.write_replay(ctx, "correspondence", None, {
            "what": "the race stress harness crashed or produced nothing", "relation": "C14: race stress run",
            "output": out[-3000:], "theorem": ctx.broken})
        ctx.violations.append((path, "no-failing-input-found"))
        return
    races = [c for c in cases if c["class"] == "race"]
    scen = [c for c in cases if c["class"] == "scenario"]
    if not all(c.get("race_detector") for c in scen):
        ctx.note("WARNING: harness was built without the race detector; plain stress run only")
    ctx.note("stress: %d scenario(s), %d queries, %d reloads, %d distinct race report(s)" % (
        len(scen), sum(c.get("queries", 0) for c in scen), sum(c.get("reloads", 0) for c in scen), len(races)))
    ctx.cov["stress"] = [{k: c.get(k) for k in ("queries", "reloads", "reload_errors", "panics", "timeout", "races")} | {"scenario": c["scenario"]["name"]} for c in scen]
    checklib.evaluate_and_classify(ctx, binp, cases, relation="C14: every race the detector reports is flagged by the lockset table")


def replay(ctx, doc):
    """./check C14 --replay file: re-runs the scenario of the recorded case under the race detector
    and reports whether a race / crash outside the known findings shows again (schedules are not
    deterministic: a pass of a replay is weaker than a failure)."""
    case = doc.get("case")
    if case is None:
        print("replay file names broken obligations, not a schedule:", json.dumps(doc.get("theorem") or doc.get("relation"))[:1500])
        checklib.proof_step(ctx)
        ok = not ctx.broken
        ctx.cleanup()
        print("obligations check again" if ok else "still broken: %s" % ctx.broken)
        return 0 if ok else 1
    pre_build(ctx)
    rc, out = checklib.coq_make(ctx, ["Run/%s.vo" % ID])
    if rc != 0:
        print("Run/C14.v does not build:", out[-1500:])
        ctx.cleanup()
        return 1
    ctx.run_ok = True
    binp, out = checklib.harness_build(ctx)
    if binp is None:
        print(out[-2000:])
        ctx.cleanup()
        return 1
    rp = os.path.join(ctx.scratch, "replay_in.jsonl")
    with open(rp, "w") as f:
        f.write(json.dumps(case) + "\n")
    rc, out, got = checklib.harness_run(ctx, binp, 0, doc.get("seed", 1), os.path.join(ctx.scratch, "replay_out.jsonl"), replay=rp)
    if rc != 0 or not got:
        print("replay run failed:", out[-2000:])
        ctx.cleanup()
        return 1
    bm, bs, err = checklib.coq_eval(ctx, got)
    known = [f for f in checklib.load_known().get("findings", []) if f.get("property") == ID and f.get("status") == "open"]
    bad = []
    for i in bs:
        c = got[i]
        f = known_finding(c, known)
        if f:
            print("known finding %s seen again: %s" % (f["id"], json.dumps(nontrivial(c))))
        else:
            bad.append(c)
            print("NOT a known finding:", json.dumps(checklib.trim_sample(c))[:1500])
    print("cases: %d, spec failures: %d (outside known findings: %d), table misses: %d %s" % (len(got), len(bs), len(bad), len(bm), err or ""))
    ctx.cleanup()
    if bad or err:
        print("VIOLATION property=%s replay=%s" % (ID, doc.get("_path", "")))
        return 1
    print("%s: replay shows no race / crash outside the known findings on the current tree" % ID)
    return 0
