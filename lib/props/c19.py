"""C19 - Exported statistics and the query log tell the truth."""
import zlib
from checklib import cbool, clist, cpair, cN

ID = "C19"
# source constants of this property: Gen/Params.v is regenerated from the working tree, Proofs/ParamsTie.vo
# (lemma per constant: it is the value the models use) is built with the property (lib/paramsgen.py)
import paramsgen
EXTRA_TARGETS = [paramsgen.TARGET]


def pre_build(ctx):
    paramsgen.regenerate(ctx)


HARNESS = "c19"
# -n is the number of query cases; window and concurrency cases come on top (fixed per tier)
N_CASES = {"quick": 300, "thorough": 4000}
N_SEARCH = {"quick": 1, "thorough": 2}
SHARD = 500
HAS_MODEL_OUT = True
RULE = ("(0) class cleaner-race, free running: real windows with their real cleaner goroutine; a block of samples left to "
        "expire unread, live blocks of known values behind it, a prober goroutine whose blocked Add reveals the cleaner holding the "
        "window lock at the 2 s tick, an export fired at that moment, one 120 ms later, one after everything expired; judged by the "
        "window clause on the recorded add / export instants (blocks live or expired for sure, anything else undecided); "
        "(a) real sliding windows (lifetimes 1 s / 1.5 s / 2 s) and real metrics.Stats windows run concurrently, each through "
        "its own generated timed history of Add / Samples / Stats.Get (plus fixed decisive shapes: sample expired while another "
        "is live at a cleaner tick, read after expiry before a tick, everything expired); every event >= 150 ms away from any "
        "expiry and tick instant; model and spec are evaluated on the observed event times (microseconds), estimated cleaner "
        "ticks merged in; (b) queries against a real FBDNSDB over real compiled CDB / RocksDB v1 / RocksDB v2 data with cache off / "
        "on / WRS timeout: a core list covering answer, NODATA, NXDOMAIN, referral, DS at a delegation, REFUSED, BADVERS, ANY, ECS, "
        "DO, truncation to an empty answer, TCP, weighted, pack failure, write failure, cache hit / miss / expired, unreadable DB, "
        "plus random scenarios; per query: counter deltas of the real metrics.Stats, logger calls, captured writes, yield-point "
        "trace; (c) goroutines bumping one metrics.Stats concurrently with exporters; "
        "non-trivial = distinct (kind, class, input) tuples")
TRUSTED_BASE = [
    "class cleaner-race: the window model is sequential; the class checks that concurrency with the cleaner goroutine does not "
    "take the code outside it (blocks of Add calls are judged through the model lifted to blocks); the interleaving is provoked, "
    "not forced, so detection of a cleaner/export race is probabilistic per round",
    "window time is the harness clock: event times are time.Since(start) taken just before each call; the call's own time.Now() "
    "lies within 20 ms of it (histories where a read comes closer than 20 ms to an observed expiry instant are re-run, and "
    "dropped as class ambiguous-skipped after 3 attempts)",
    "cleaner tick instants are estimated (creation + k s); the theorems show ticks do not influence any read of the repaired code",
    "the response class of a query (location, ns/auth, answers found, recordFound) is obtained by calling the public db.Reader "
    "API (FindLocation, IsAuthoritative, FindAnswer) on a copy of the request; the cache state comes from a shadow kept by the "
    "harness (insertion seen through the before_cache_insert yield point)",
    "SizeAndDo / Scrub (coredns) are not modelled: the number of answers in the message handed to WriteMsg is an input of the model",
    "Go runtime, sync.RWMutex, time.Ticker, sort.Slice, hashicorp LRU are trusted; IncrementCounter is modelled as atomic because "
    "it runs under vlock",
]
ASSUMPTIONS = [
    "timestamps of one window are non-decreasing (Go monotonic clock) and the lifetime is positive",
    "the average clause assumes the sum of the live samples fits an int64 (C19_avg_overflow_refuted shows the wrap otherwise)",
    "a query counts as handled iff a DB reader could be acquired (otherwise only DNS_queries and DNS_db.read_error move and nothing is written)",
]

KEYS = {
    "DNS_queries": "KQueries", "DNS_db.read_error": "KReadError", "DNS_queries.edns0.do_bit": "KDoBit",
    "DNS_error.pack_domain_fail": "KPackFail",
    "DNS_location.ecs": "KLocEcs", "DNS_location.empty": "KLocEmpty", "DNS_location.default": "KLocDefault",
    "DNS_location.fallback_default": "KLocFallback", "DNS_location.resolver": "KLocResolver",
    "DNS_cache.expired": "KCacheExpired", "DNS_cache.hit": "KCacheHit", "DNS_cache.missed": "KCacheMissed",
    "DNS_error.is_authoritative": "KErrIsAuth", "DNS_response.refused": "KRespRefused",
    "DNS_response.not_authoritative": "KRespNotAuth", "DNS_response.authoritative": "KRespAuth",
    "DNS_queries_notauthoritative": "KNotAuthoritative", "DNS_queries_nxdomain": "KNxdomain",
    "DNS_queries_refused": "KRefused", "DNS_queries_badvers": "KBadvers", "DNS_queries_nodata": "KNodata",
}


def cZ(n):
    return "(%d)%%Z" % int(n)


def ckey(name):
    if name in KEYS:
        return KEYS[name]
    if name.startswith("type:"):
        return "(KType %d)" % int(name[5:])
    if name.startswith("c") and name[1:].isdigit():
        return "(KOther %d)" % int(name[1:])
    return "(KOther %d)" % (1000 + zlib.crc32(name.encode()) % 1000000)


def ckv(m):
    return clist([cpair(ckey(k), cZ(v)) for k, v in sorted(m.items()) if v != 0])


def skipped(c):
    if c["kind"] in ("win", "race"):
        return bool(c.get("ambiguous"))
    if c["kind"] == "query":
        return c["cls"]["cache"] == "ambiguous"
    return False


def win_to_coq(c):
    evs = []
    for e in c.get("events", []):
        op = e["op"]
        if op == "add":
            evs.append("OAdd %s %s" % (cZ(e["t"]), cZ(e.get("v", 0))))
        elif op == "tick":
            evs.append("OTick %s" % cZ(e["t"]))
        elif op == "read":
            evs.append("ORead %s %s" % (cZ(e["t"]), clist([cZ(v) for v in e.get("vals", [])])))
        else:
            evs.append("OGet %s %s %s %s %s" % (cZ(e["t"]), cbool(e.get("present", False)),
                                                cZ(e.get("min", 0)), cZ(e.get("max", 0)), cZ(e.get("avg", 0))))
    return "CWin %s %s %s" % (cbool(c.get("raw", False)), cZ(c["l_ms"] * 1000), clist(evs))


def query_to_coq(c):
    k, o = c["cls"], c["obs"]
    loc = {"err": "LocErr", "nil": "LocNil"}.get(k["loc"]) or "(LocOk %d %d %d)" % (k["mask"], k["id0"], k["id1"])
    cache = {"expired": "CExpired", "miss": "CMiss"}.get(k["cache"]) or "(CHit %d %s)" % (k["hit_rcode"], cbool(k["hit_aa"]))
    q = "(mkQ %s %s %d %s %s %s %s %s %s %s %s %s %s %d %s %s %d %s)" % (
        cbool(k["reader_ok"]), cbool(k["do"]), k["qtype"], cbool(k["edns_ok"]), cbool(k["pack_ok"]), loc,
        cbool(k["cache_on"]), cache, cbool(k["isauth_err"]), cbool(k["ns"]), cbool(k["auth"]),
        cbool(k["ds_err"]), cbool(k["ds_auth"]), k["nfound"], cbool(k["record_found"]), cbool(k["unpack_ok"]),
        k["sent_answers"], cbool(k["write_err"]))
    logs = clist(["(mkL %s %s %s %s)" % (cbool(l["failed"]), cbool(l["same_as_sent"]), cbool(l["is_request"]),
                                         cbool(l["after_write"])) for l in o["logs"]])
    writes = clist(["(mkW %d %s %d %s)" % (w["rcode"], cbool(w["aa"]), w["nans"], cbool(w["ok"])) for w in o["writes"]])
    ob = "(mkObs %s %s %s %s %s %d)" % (ckv(o["deltas"]), logs, writes, cbool(o["located"]),
                                        cbool(o.get("via_ecs", False)), o["ret"])
    return "CQuery %s %s" % (q, ob)


def conc_to_coq(c):
    ths = clist([clist([cpair("(KOther %d)" % op["k"], cZ(op["v"])) for op in th]) for th in c["threads"]])
    exps = clist([clist([ckv(s) for s in ex]) for ex in c["exports"]])
    return "CConc %s %s %s" % (ths, exps, ckv(c["final"]))


def race_to_coq(c):
    evs = []
    for e in c.get("revs", []):
        if e["op"] == "block":
            evs.append("RBlock %s %s %s %s" % (cZ(e.get("v", 0)), cZ(e.get("n", 0)), cZ(e["tb"]), cZ(e["ta"])))
        elif e["op"] == "read":
            rl = clist([cpair(cZ(v), cZ(n)) for v, n in e.get("rle", [])])
            op = "None"
            if e.get("open"):
                op = "(Some (%s,%s,%s))" % (cZ(e.get("open_v", 0)), cZ(e.get("open_lo", 0)), cZ(e.get("open_hi", 0)))
            evs.append("RRead %s %s %s %s" % (cZ(e["tb"]), cZ(e["ta"]), rl, op))
        else:
            evs.append("RGet %s %s %s %s %s %s" % (cZ(e["tb"]), cZ(e["ta"]), cbool(e.get("present", False)),
                                                   cZ(e.get("min", 0)), cZ(e.get("max", 0)), cZ(e.get("avg", 0))))
    return "CRace %s %s %s" % (cbool(c["plan"]["raw"]), cZ(c["plan"]["l_ms"] * 1000), clist(evs))


def to_coq(c):
    if skipped(c):
        return "CWin true (1)%Z []"
    if c["kind"] == "race":
        return race_to_coq(c)
    if c["kind"] == "win":
        return win_to_coq(c)
    if c["kind"] == "query":
        return query_to_coq(c)
    return conc_to_coq(c)


def nontrivial(c):
    if skipped(c):
        return None
    if c["kind"] == "race":
        # a round counts only when the interleaving was provoked (an Add seen blocked at the tick)
        return None if c.get("missed") else ["race", c["plan"]]
    if c["kind"] == "win":
        return ["win", c.get("raw", False), c["l_ms"], c.get("sched")]
    if c["kind"] == "query":
        return ["query", c["backend"], c["cache"], c["q"], len(c.get("prior", [])), c["cls"]["cache"]]
    return ["conc", c["threads"]]


def case_class(c):
    if skipped(c):
        return c["kind"] + ":ambiguous-skipped"
    if c["kind"] == "race":
        return "race:cleaner-race" + (":not-provoked" if c.get("missed") else "")
    return c["kind"] + ":" + c.get("class", "?")


# Finding found by this slice.  The entry belongs in /verif/known_findings.json (coordinator's
# file); until it is there the same text is used from here so that it is printed, not hidden.
PROPOSED_FINDING = {
    "property": "C19", "id": "F-C19-location-ecs(proposed)", "status": "open", "key": "c19-location-ecs-mask",
    "what": "handler.go:211 decides the location-class counter by loc.Mask > 0; resolver-map matches carry a mask too "
            "(96 + prefix length for IPv4 clients, the prefix length for IPv6), so a query WITHOUT client-subnet option whose "
            "resolver matches any subnet (even 0.0.0.0/0) bumps DNS_location.ecs; DNS_location.default / fallback_default / "
            "resolver only ever move for IPv6 clients matching ::/0",
    "classifier": "query that reaches the location counters, whose location was not produced by db.EcsLocation, with loc.Mask > 0",
    "witness": "foo.example.com. A from 9.9.9.9 without EDNS, data '%\\000\\001,0.0.0.0/0,c\\000' + 'Mfoo.example.com,c\\000': "
               "loc = {Mask 96, LocID 0,1}; counters: DNS_location.ecs +1, DNS_location.default +0",
}


def known_finding(c, findings):
    if c.get("kind") != "query" or skipped(c):
        return None
    k, o = c["cls"], c["obs"]
    if not (o.get("located") and k["loc"] == "ok" and k["mask"] > 0 and not o.get("via_ecs")):
        return None
    # the finding explains only the location counter: with the code's own choice of counter
    # substituted, everything else must still hold (checked by model_ok on the same case)
    for f in findings:
        if f.get("key") == PROPOSED_FINDING["key"] or "DNS_location.ecs" in f.get("what", ""):
            return f
    return PROPOSED_FINDING


def shrink_candidates(c):
    # every candidate costs one harness run (seconds of real time for a window), so only a few
    if c["kind"] == "win":
        s = c.get("sched", [])
        if len(s) > 2:
            yield dict(c, sched=s[len(s) // 2:])
            yield dict(c, sched=s[:len(s) // 2 + 1])
        for i in list(range(len(s)))[:4]:
            if len(s) > 1:
                yield dict(c, sched=s[:i] + s[i + 1:])
    elif c["kind"] == "query":
        p = c.get("prior", [])
        if p:
            yield dict(c, prior=[])
            same = [x for x in p if x["name"] == c["q"]["name"] and x["qtype"] == c["q"]["qtype"]]
            if same and len(same) < len(p):
                yield dict(c, prior=same)
            if len(p) > 1:
                yield dict(c, prior=p[len(p) // 2:])
    elif c["kind"] == "conc":
        t = c["threads"]
        if len(t) > 1:
            yield dict(c, threads=t[:len(t) // 2])
            yield dict(c, threads=t[len(t) // 2:])
