"""C20 - Transport and plugin chain do not alter answers."""
from checklib import cbytes, cbool, clist, cpair, cN, copt

ID = "C20"
# source constants of this property: Gen/Params.v is regenerated from the working tree, Proofs/ParamsTie.vo
# (lemma per constant: it is the value the models use) is built with the property (lib/paramsgen.py)
import paramsgen
EXTRA_TARGETS = [paramsgen.TARGET]


def pre_build(ctx):
    paramsgen.regenerate(ctx)


HARNESS = "c20"
N_CASES = {"quick": 300, "thorough": 6000}
N_SEARCH = {"quick": 1, "thorough": 2}
SHARD = 50
HAS_MODEL_OUT = True
RULE = ("a real fbserver.Server per configuration (child process of the harness; whoami domain unset / set / set without "
        "trailing dot in mixed case, refuse-any on/off, miekg's default MsgAcceptFunc or accept-everything so that the "
        "serveMux question-count guard is reachable, CDB / RocksDB v1 / RocksDB v2, AlwaysCompress on/off) listening on "
        "127.0.0.1..4 with max answer 1..4, UDP and TCP; database compiled by the real compilers from a generated data file "
        "(single and multiple weighted addresses, CNAME, wildcard, TXT sets of ~0.9/2.3/5.9 kB, 12 MX with glue, a 14-NS "
        "delegation with glue, the whoami name also present in the database); queries = names x types (A AAAA TXT MX NS SOA "
        "CNAME ANY HINFO HTTPS DS PTR, random types) x classes x header flags x EDNS (none, sizes 100/512/600/1232/2000/4096/65535, "
        "DO, client subnet, cookie, NSID, version 1, reserved flag bits), random letter case, whoami name and near misses, "
        "most messages sent over both transports; odd stream (1 in 5): no question, two/three questions, QR set, opcodes "
        "NOTIFY/UPDATE/STATUS/IQUERY, records in the request's answer/authority/additional sections, two OPT records, "
        "all header flags set; fixed part of every run: ANY questions in classes CH, HS, NONE and ANY for names present in the "
        "database on every refuse-any configuration over both transports (40 cases), and client-subnet options (v4 /24, v6 /56, "
        "v6 /128) x advertised sizes 512/600/1232 and U-1/U-9 (U = uncompressed length of the full reply) x the 12-MX, 14-NS "
        "delegation/referral and TXT-set names over UDP, one per combination also over TCP (~75 cases), and on every configuration "
        "and both transports a sequence REFUSED name / A / TXT with distinct ids over ONE connection or socket, one case per "
        "position (earlier messages = prefix), the socket read for 120 ms more after the reply (60 cases; extra = messages that "
        "still arrived; nwrites = messages the bare handler handed to its writer); the same wire message is given in-process to a bare FBDNSDB over the same database with the "
        "listener's max answer; sections are compared as multisets of (lower-cased owner, type, class, ttl, rdata), the "
        "question section, header bits, id and wire length exactly; "
        "opt-in (environment C20_CACHE_CONFIGS=1, not part of the default run): two configurations with the response cache "
        "enabled (WRS timeout 0 and 60) plus a fixed sequence asking the same address set on the max-answer-1 listener first; "
        "non-trivial = distinct (configuration, listener, transport, request bytes without the id)")
TRUSTED_BASE = [
    "the database handler is a parameter of the chain theorems (serve : max answer -> env -> request -> outcome); in the run its "
    "value is the message the bare FBDNSDB hands to WriteMsg for the same wire request and the same transport semantics",
    "sockets, the miekg server loop (goroutine per message, readers, TCP framing), Pack/Unpack and the Compress flag are runtime; "
    "the accept step is modelled after miekg dns v1.1.50 acceptfunc.go/server.go and exercised by the run",
    "Truncate's length accounting (Msg.Len with compression) enters the model as abstract functions ulen/base/rlen/optlen; in the "
    "run their values are read with Msg.Len on growing prefixes of the untruncated message; that these equal packed sizes is "
    "checked only through wire_len <= advertised size",
    "EDNS0_SUBNET.String (whoami's ecs line) and the client/listener address strings are given to the model as observed",
    "rdata longer than 40 bytes is compared through a SHA-1 based digest computed identically on every side",
    "answers chosen at random by the weighted sampler (more addresses than the listener's max answer) are compared with the "
    "A/AAAA rdata of the answer section blanked (count, owner, type, class, ttl must agree)",
    "accept-everything configurations replace dns.DefaultMsgAcceptFunc in the server process; production uses miekg's default, "
    "under which a message without exactly one question never reaches serveMux (FORMERR from miekg)",
    "not modelled: DNSSEC and DoT-TLSA handlers (not installed when their flags are empty), TLS listener, the response cache "
    "(CacheConfig.Enabled=false as in the default flags), TSIG, request unpack errors, messages over 64 kB",
]
ASSUMPTIONS = ["names are ASCII strings as produced by miekg Unpack; the configured whoami domain is ASCII",
               "whoami text lines are shorter than 256 bytes",
               "C20_udp_tc_tcp_complete_partial: header + question + OPT fit the budget (base m + optlen o < size) for the "
               "length bound; without it the theorem still gives prefix sections and TC"]


class _Pool:
    """byte strings and messages that occur more than once in a case are bound once with let"""

    def __init__(self):
        self.count = {}
        self.names = {}
        self.binds = []

    def note(self, l):
        k = tuple(l)
        self.count[k] = self.count.get(k, 0) + 1

    def b(self, l):
        k = tuple(l)
        if len(k) >= 4 and self.count.get(k, 0) >= 2:
            if k not in self.names:
                self.names[k] = "b%d" % len(self.names)
                self.binds.append("let %s : bytes := %s in" % (self.names[k], cbytes(l)))
            return self.names[k]
        return cbytes(l)


def _walk(m, pool):
    for q in m.get("q") or []:
        pool.note(q["n"])
    for sec in ("an", "ns", "ex"):
        for r in m.get(sec) or []:
            pool.note(r["n"])
            pool.note(r["d"])


def _q(q, pool):
    return "(mkQ %s %d %d)" % (pool.b(q["n"]), q["t"], q["c"])


def _rr(r, pool):
    return "(mkRR %s %d %d %d %s)" % (pool.b(r["n"]), r["t"], r["c"], r["l"], pool.b(r["d"]))


def _msg(m, pool):
    h = "(mkH %d %s %d %s %s %s %s %s %s %s %d)" % (
        m["id"], cbool(m["qr"]), m["op"], cbool(m["aa"]), cbool(m["tc"]), cbool(m["rd"]), cbool(m["ra"]),
        cbool(m["z"]), cbool(m["ad"]), cbool(m["cd"]), m["rcode"])
    return "(mkM %s %s %s %s %s)" % (h, clist([_q(q, pool) for q in m["q"]]), clist([_rr(r, pool) for r in m["an"]]),
                                    clist([_rr(r, pool) for r in m["ns"]]), clist([_rr(r, pool) for r in m["ex"]]))


def _usable(m):
    return m is not None and m.get("got") and not m.get("err")


def _sz(s):
    if s is None:
        return None
    return "(mkSz %d %d %d %s)" % (s["ulen"], s["base"], s["opt"], clist([str(x) for x in s["inc"]]))


def _host(addr):
    a = addr or ""
    if a.startswith("["):
        return a[1:a.index("]")]
    return a.rsplit(":", 1)[0] if ":" in a else a


def to_coq(c):
    pool = _Pool()
    msgs = [c["req"]] + [c[k] for k in ("reply", "bare", "full") if _usable(c.get(k))]
    for m in msgs:
        _walk(m, pool)
    # identical messages (the usual case: reply = bare = full) are bound once
    mterms = {}
    mbinds = []

    def obs(m):
        if not _usable(m):
            return None
        t = _msg(m, pool)
        if t not in mterms:
            mterms[t] = "m%d" % len(mterms)
            mbinds.append("let %s : msg := %s in" % (mterms[t], t))
        return "(mkObs %s %d)" % (mterms[t], m["wire_len"])

    cfg = c["cfg"]
    cfgt = "(mkCfg %s %s %s %d)" % (cbytes(list(cfg["whoami"].encode())), cbool(cfg["refuse_any"]),
                                    "AcceptAll" if cfg["accept_all"] else "AcceptDefault", c["maxans"])
    ecs = c.get("ecs")
    envt = "(mkEnv %s %s %s %s %s)" % ("Udp" if c["proto"] == "udp" else "Tcp",
                                       cbytes(list((c.get("source") or "").encode())),
                                       cbytes(list((c.get("destination") or "").encode())),
                                       cbytes(list(_host(c.get("destination")).encode())),
                                       copt(cbytes(list(ecs.encode())) if ecs is not None else None))
    req = _msg(c["req"], pool)
    reply, bare = obs(c["reply"]), obs(c["bare"])
    full = None
    if _usable(c.get("full")) and c.get("full_sizes") is not None:
        full = cpair(obs(c["full"]), _sz(c["full_sizes"]))
    body = "mk %s %s %s %s %s %s %s %s %d %d %s" % (
        cfgt, envt, req, cbool(c.get("multi", False)), copt(reply), copt(bare),
        copt(full), copt(_sz(c.get("self_sizes")) if _path(c) == "whoami" else None),
        c.get("nwrites", 0), c.get("extra", 0), cbool(c["alive"]))
    return "(" + " ".join(pool.binds + mbinds) + " " + body + ")"


def nontrivial(c):
    if c.get("req_unpack_fails"):
        return None
    return [c["cfg"]["whoami"], c["cfg"]["refuse_any"], c["cfg"]["accept_all"], c["cfg"]["driver"], c["cfg"]["compress"],
            c["cfg"].get("cache", False), c["ip"], c["proto"], c["wire"][2:], len(c.get("prefix") or [])]


def _path(c):
    """which part of the chain answers (for the distribution only)"""
    r = c["req"]
    cfg = c["cfg"]
    if not r.get("q"):
        return "noq"
    q = r["q"][0]
    if cfg["refuse_any"] and q["t"] == 255:
        return "any"
    dom = cfg["whoami"].lower()
    if dom and not dom.endswith("."):
        dom += "."
    if dom and bytes(q["n"]).decode("latin-1").lower() == dom:
        return "whoami"
    return "db"


def case_class(c):
    tc = "tc" if c["reply"].get("got") and c["reply"].get("tc") else "-"
    return "%s:%s:%s:%s:%s" % (c.get("class", "?"), c["proto"], _path(c), "all" if c["cfg"]["accept_all"] else "def", tc)


def shrink_candidates(c):
    return []


def known_finding(case, findings):
    """Response cache with a WRS timeout: the cache key (location, type, class, name) has no max answer in it, so a
    weighted answer computed for one listener is served to listeners with another max answer.  Only reachable in the
    opt-in cache configurations; matched to an open C20 finding whose classifier mentions the cache."""
    cfg = case.get("cfg", {})
    if cfg.get("cache") and cfg.get("wrs_timeout", 0) > 0 and _path(case) == "db":
        for f in findings:
            if "cache" in (f.get("classifier", "") + f.get("what", "")).lower():
                return f
    return None
