"""C16 - A written CDB file returns every value, in order, and nothing else."""
from checklib import cbytes, cbool, clist, cpair, cN, copt

ID = "C16"
# source constants of this property: Gen/Params.v is regenerated from the working tree, Proofs/ParamsTie.vo
# (lemma per constant: it is the value the models use) is built with the property (lib/paramsgen.py)
import paramsgen
EXTRA_TARGETS = [paramsgen.TARGET]


def pre_build(ctx):
    paramsgen.regenerate(ctx)


HARNESS = "c16"
N_CASES = {"quick": 160, "thorough": 2500}
N_SEARCH = {"quick": 1, "thorough": 2}
SHARD = 48
HAS_MODEL_OUT = True
RULE = ("pair lists written with the real writer and read back with Find / FindStart+FindNext (one shared Context), "
        "Data, Reader.First/Exists, then Dump and Make: "
        "small lists (<= ~60 pairs: empty DB, empty keys/values, repeated keys, repeated identical pairs, keys searched to "
        "fall into one table and the same / adjacent start slots incl. chains wrapping around the table end, distinct keys "
        "with the same 32-bit hash, records whose next header crosses offset 4096) evaluated by the Coq model "
        "(structured reader on the model's image, byte-level reader on the implementation's file, dump text, "
        "dump->make verdict) and the Coq spec; large lists (hundreds to tens of thousands of pairs, one-table and "
        "few-slot shapes, values crossing 4096-byte boundaries) compared with a Go-side oracle only (field compared); "
        "cdbmake texts (valid and malformed) fed to Make alone (model only, not held against the spec); "
        "non-trivial = distinct (kind, class, pairs / generator parameters / text) with at least one pair or a rejected text")
TRUSTED_BASE = [
    "the hash function enters the model as ONE parameter H used by writer, Make and reader (theorems hold for every H); "
    "in the Go code writer/Make hash with the streaming hasher cdbHash() and the reader with hashKey() - that these two code "
    "paths compute the same function is NOT proved, it is established only by the differential run: the harness supplies the "
    "writer-side hash of every key (checked against the hash stored in the file's slots) and every present key "
    "(all lengths 90..200 in every run, where one-shot and streaming spooky differ) must be found by the real reader",
    "not modelled: os.File / bufio / mmap (portablemmap) I/O; the file is the byte list the writer produced, read back by the "
    "harness; Dump's and Make's bufio handling is exercised only by the correspondence run (record headers straddling "
    "4096-byte offsets are part of every run)",
    "file bytes vs the model's serialisation is a diagnostic (Run/C16.v diag_ok, reported in replay files), not a deciding comparison",
    "large cases (kind big) are judged by a Go-side oracle in the harness (map key -> values in insertion order), not by the Coq model",
    "Make's error value is compared as ok / not ok only",
]
ASSUMPTIONS = ["fits32: 2048 + sum (8 + |k| + |v|) + 16 * #pairs < 2^32 (beyond that uint32 positions wrap in the real code)",
               "H k < 2^32 for the byte-level reader theorem C16_serialize_read (hashes are stored in 4 bytes)",
               "writer, Make and reader use the same hash function H (in Go: cdbHash() streaming hasher vs hashKey())"]


def differential(ctx):
    """Standard differential step, then the diagnostic comparison (not deciding): the model's
    serialisation against the file bytes of a sample of small / make cases."""
    import os
    import tempfile
    import checklib
    checklib.differential_step(ctx)
    try:
        # the cases of the run just made (written by the driver into the scratch directory)
        path = os.path.join(ctx.scratch, "cases.jsonl")
        if not os.path.exists(path):
            return
        import json
        got = [json.loads(l) for l in open(path) if l.strip()]
        cs = [c for c in got if c["kind"] != "big" and c.get("file")]
        cs = cs[::max(1, len(cs) // 30)][:30]
        if not cs:
            return
        d = tempfile.mkdtemp(prefix="coqdiag-", dir=ctx.scratch)
        header = "Definition model_ok := diag_ok.\nDefinition spec_ok := fun _ : case => true."
        _, bm, _, txt = checklib.eval_shard((d, 0, "Run." + ID, header, [to_coq(c) for c in cs]))
        if bm is None:
            ctx.note("diagnostic (file bytes vs model serialisation) could not be evaluated:", txt[-300:])
            return
        ctx.cov["diagnostic_file_bytes"] = {"cases": len(cs), "model_serialisation_equals_file": len(cs) - len(bm),
                                            "deciding": False}
        ctx.note("diagnostic: model serialisation = file bytes on %d/%d cases (not deciding)" % (len(cs) - len(bm), len(cs)))
    except Exception as e:  # a diagnostic must never change the verdict
        ctx.note("diagnostic step failed:", e)


def _b(l):
    """bytes as a Coq term; runs of >= 12 equal bytes become (rp n c) to keep the term small"""
    l = l or []
    parts, cur, i, n = [], [], 0, len(l)
    while i < n:
        j = i
        while j < n and l[j] == l[i]:
            j += 1
        if j - i >= 12:
            if cur:
                parts.append(cbytes(cur))
                cur = []
            parts.append("rp %d %d" % (j - i, l[i]))
        else:
            cur += l[i:j]
        i = j
    if cur or not parts:
        parts.append(cbytes(cur))
    return parts[0] if len(parts) == 1 and parts[0].startswith("[") else "(" + " ++ ".join(parts) + ")"


def _file(l):
    """file bytes; the 2048-byte header is given as run-length encoded (position, slots) pairs"""
    l = l or []
    if len(l) < 2048:
        return _b(l)
    u32 = lambda o: l[o] | l[o + 1] << 8 | l[o + 2] << 16 | l[o + 3] << 24
    runs = []
    for i in range(256):
        x = (u32(8 * i), u32(8 * i + 4))
        if runs and runs[-1][1] == x:
            runs[-1][0] += 1
        else:
            runs.append([1, x])
    h = clist(["(%d,(%d,%d))" % (c, x[0], x[1]) for c, x in runs])
    return "(hdr %s ++ %s)" % (h, _b(l[2048:]))


def to_coq(c):
    kind = {"small": "KSmall", "big": "KBig", "make": "KMake"}[c["kind"]]
    kvs = clist([cpair(_b(k), _b(v)) for k, v in c.get("kvs") or []])
    hashes = clist([cpair(cN(h[0]), cbytes(h[1:])) for h in c.get("hash") or []])
    qs = clist(["mkQ %s %s %s %s" % (_b(q["key"]), clist([_b(v) for v in q.get("vals") or []]),
                                   cbool(q["end"] == "eof"),
                                   copt(_b(q.get("find")) if q["find_ok"] else None))
                for q in c.get("queries") or []])
    return "mk %s %s %s %s %s %s %s %s %s %s %s %s %s %s" % (
        kind, kvs, _b(c.get("text")), hashes, cbool(c["hash_agree"]), cbool(c["write_err"] == ""),
        qs, cbool(c["wrappers_ok"]), _file(c.get("file")), cbool(c["dump_err"] == ""), _b(c.get("dump")),
        cbool(c["make_err"] == ""), cbool(c["same"]), cbool(c["lookups_ok"]))


def nontrivial(c):
    if c["kind"] == "small":
        return ["small", c.get("kvs")] if c.get("kvs") else None
    if c["kind"] == "big":
        return ["big", c.get("gen")]
    return ["make", c.get("text")] if c.get("make_err") else None


def case_class(c):
    return c["kind"] + ":" + c.get("class", "?")


def shrink_candidates(c):
    if c["kind"] == "small":
        kvs = c.get("kvs") or []
        n = len(kvs)
        if n > 4:
            yield dict(c, kvs=kvs[:n // 2])
            yield dict(c, kvs=kvs[n // 2:])
        for i in range(n):
            yield dict(c, kvs=kvs[:i] + kvs[i + 1:])
        for i in range(n):
            k, v = kvs[i]
            if len(v) > 8:
                yield dict(c, kvs=kvs[:i] + [[k, v[:len(v) // 2]]] + kvs[i + 1:])
        ab = c.get("absent") or []
        for i in range(len(ab)):
            yield dict(c, absent=ab[:i] + ab[i + 1:])
    elif c["kind"] == "big":
        g = c.get("gen") or {}
        n = g.get("n", 0)
        for m in (n // 2, n - n // 4, n - 1):
            if 0 < m < n:
                yield dict(c, gen=dict(g, n=m))
    else:
        t = c.get("text") or []
        for i in range(len(t)):
            yield dict(c, text=t[:i] + t[i + 1:])
