"""C15 - RocksDB multi-value store behaves like a map of lists."""
from checklib import cbytes, clist, cpair, cN

ID = "C15"
HARNESS = "c15"
N_CASES = {"quick": 120, "thorough": 800}
N_SEARCH = {"quick": 1, "thorough": 2}
SHARD = 15
HAS_MODEL_OUT = True
RULE = ("seeded histories (2-16 steps) of Add / Del / ExecuteBatch / Backup+Restore / reopen (Close, open the same directory again) / snap (one more backup into the case's one backup directory) / restore (latest backup into a fresh directory, read completely, history goes on with the copy or the original) on a real RocksDB directory: "
        "small key and value alphabets (empty value, values that are prefixes of each other, values that look like the "
        "length framing, the empty key), batches with duplicate keys, deletions of what the same batch adds and of absent "
        "values (failing batches), batches of 13-40 pairs (sort.Slice beyond insertion sort), random long keys/values, multi-session histories (a key written, the store closed, the key changed and emptied value by value, the store closed or backed up, the key read, deleted from and written again); "
        "after every step Find and ForEach on every key of the alphabet; "
        "non-trivial = distinct history with at least one step that changes the map or fails (counted by the hash of those steps and the maps seen before them)")
TRUSTED_BASE = [
    "RocksDB and cgo-rocksdb below Get/GetMulti/Put/Delete/WriteBatch (Get gives nil exactly for an absent key, a WriteBatch is atomic) are not modelled; the store is an abstract function key -> option bytes",
    "sort.Slice enters the proofs as a parameter that returns a permutation sorted by bytes.Compare (not stable); the model is evaluated with a stable sort and compared up to the order of one batch's additions to one key",
    "Backup / Restore (RocksDB BackupEngine, C++): in the model a backup is a snapshot of the store and a restore yields the latest snapshot, by definition; that the engine restores the LATEST of several backups in one directory, unchanged, is correspondence only (every restored copy is read completely)",
    "the Go layer (appendValues, delValue, ReadNextChunk, getAffectedKeys, integrate, Add, Del, ExecuteBatch, Find, ForEach) is modelled by hand (Model/MultiValue.v, Model/Batch.v) and exercised by the correspondence run, not verified; slice aliasing in delValue is not modelled",
    "Find/ForEach are called with a fresh Context (a reused Context caches raw values across writes)",
]
ASSUMPTIONS = ["every value is shorter than 2^32 bytes (the length prefix is a uint32)",
               "readers use a fresh rdb.Context per look-up cycle",
               "the database directory is closed (flushed) when Backup runs, as dnsrocks-backuprdb requires; the write-ahead log is disabled"]


class _Dict:
    """Every distinct byte string of a case is bound once (let vN := [...] in ...):
    the observations repeat the same few values many times and Coq parses
    numerals slowly."""
    def __init__(self):
        self.names = {}
        self.defs = []

    def b(self, l):
        t = tuple(int(x) for x in (l or []))
        if len(t) == 0:
            return "[]"
        n = self.names.get(t)
        if n is None:
            n = "v%d" % len(self.names)
            self.names[t] = n
            self.defs.append("let %s : bytes := %s in" % (n, cbytes(t)))
        return n


def _pairs(d, l):
    return clist([cpair(d.b(p.get("k")), d.b(p.get("v"))) for p in (l or [])])


def _op(d, s):
    op = s["op"]
    if op == "add":
        return "(OAdd %s %s)" % (d.b(s.get("k")), d.b(s.get("v")))
    if op == "del":
        return "(ODel %s %s)" % (d.b(s.get("k")), d.b(s.get("v")))
    if op == "batch":
        return "(OBatch %s %s)" % (_pairs(d, s.get("adds")), _pairs(d, s.get("dels")))
    if op == "reopen":
        return "OReopen"
    if op == "snap":
        return "OBackup"
    if op == "restore":
        return "(ORestore %s)" % ("true" if s.get("cont") else "false")
    return "OBackupRestore"


def _obs(d, o):
    return "(mkobs %s %s %s %s %s)" % (cN(o["fe_err"]), clist([d.b(v) for v in o["vals"]]),
                                       cN(o["find_err"]), d.b(o.get("find_val")), cN(o.get("present", 2)))


def to_coq(c):
    d = _Dict()
    keys = clist([d.b(k) for k in c["keys"]])
    steps = clist(["(mkstep %s %s %s)" % (_op(d, s), cN(s["err"]), clist([_obs(d, o) for o in s["obs"]]))
                   for s in c["steps"]])
    return "(%s mk %s %s)" % (" ".join(d.defs), keys, steps)


def nontrivial(c):
    """Counted through checklib's set of JSON keys: one key per case = the list of
    distinct (op, map before) pairs that changed the map or failed, hashed."""
    import hashlib
    import json
    prev = None
    acc = []
    for s in c["steps"]:
        cur = [o["vals"] for o in s["obs"]]
        if s["err"] != 0 or cur != prev and prev is not None or (prev is None and any(cur)):
            acc.append([s["op"], s.get("k"), s.get("v"), s.get("adds"), s.get("dels"), prev])
        prev = cur
    if not acc:
        return None
    return hashlib.sha1(json.dumps(acc, sort_keys=True).encode()).hexdigest()


def case_class(c):
    kinds = set(s["op"] for s in c["steps"])
    failed = any(s["op"] == "batch" and s["err"] != 0 for s in c["steps"])
    return c.get("class", "?") + (":backup" if "backup" in kinds else "") + (":snaps" if sum(1 for s in c["steps"] if s["op"] == "snap") >= 2 else "") + (":restore" if "restore" in kinds else "") + (":reopen" if "reopen" in kinds else "") + (":failedbatch" if failed else "")


def shrink_candidates(c):
    steps = c["steps"]
    # drop one step
    for i in range(len(steps) - 1, -1, -1):
        yield dict(c, steps=steps[:i] + steps[i + 1:])
    # drop one pair of a batch
    for i, s in enumerate(steps):
        if s["op"] != "batch":
            continue
        for fld in ("adds", "dels"):
            l = s.get(fld) or []
            for j in range(len(l)):
                ns = dict(s)
                ns[fld] = l[:j] + l[j + 1:]
                yield dict(c, steps=steps[:i] + [ns] + steps[i + 1:])
