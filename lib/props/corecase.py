"""Shared glue of C01, C02, C04, C13: JSON file case (harness/corelib.FileCase) -> Coq term
of type Run.Core.fcase, statistics and shrinking."""
from checklib import cbool, clist, cpair, cN, copt

BACKENDS = ["cdb", "rdb1", "rdb2"]


def cbytes(l):
    """a byte string as one number literal (base 256 behind a leading 1), decoded by Run.Core.B:
    Coq parses this far faster than a list of N literals"""
    return "(B 0x%x)" % int.from_bytes(b"\x01" + bytes(int(x) & 255 for x in l), "big")


def labels(packed):
    res, i = [], 0
    while i < len(packed) and packed[i] != 0:
        n = packed[i]
        res.append(packed[i + 1:i + 1 + n])
        i += 1 + n
    return res


def rec_to_coq(r):
    loc = copt(cbytes(r["loc"]) if r["loc"] else None)
    return "mkRec %s %s %s %s %s %s %s" % (clist([cbytes(l) for l in labels(r["owner"])]), cbool(r["wild"]), loc,
                                           cN(r["type"]), cN(r["ttl"]), cN(r["weight"]), cbytes(r["rdata"]))


def store_to_coq(d):
    return clist([cpair(cbytes(kv["k"]), clist([cbytes(x) for x in (kv["rows"] or [])])) for kv in (d or [])])


def rr_to_coq(r):
    return "mkRR %s %s %s %s %s" % (cbytes(r["owner"]), cN(r["type"]), cN(r["class"]), cN(r["ttl"]), cbytes(r["rdata"]))


def reply_to_coq(p):
    if p is None:
        return "None"
    q = clist(["(%s,%s,%s)" % (cbytes(x["owner"]), cN(x["type"]), cN(x["class"])) for x in p["question"]])
    return "(Some (mkReply %s %s %s %s %s %s %s %s %s %s %s %s %s %s))" % (
        cN(p["id"]), cbool(p["qr"]), q, cN(p["rcode"]), cbool(p["aa"]), cbool(p["tc"]),
        clist([rr_to_coq(x) for x in p["an"]]), clist([rr_to_coq(x) for x in p["ns"]]), clist([rr_to_coq(x) for x in p["ex"]]),
        cbool(p["opt"]), clist([cN(x) for x in p["optcodes"]]), copt(cbytes(p["ecs"]) if p["has_ecs"] else None),
        cbool(p["packok"]), cN(p["writes"]))


def obs_to_coq(o):
    loc = {"err": "LocErr", "nil": "LocNil"}.get(o["loc"]) or "(LocOk %s)" % cbytes(o["locid"])
    return "mkObs %s %s %s %s" % (loc, copt(cbytes(o["locecs"]) if o["has_locecs"] else None),
                                  cbool(bool(o["panic"])), reply_to_coq(o["reply"]))


def query_to_coq(q):
    edns = copt(cN(q["version"]) if q["has_opt"] else None)
    qq = "(mkQ %s %s %s %s %s)" % (cN(q["id"]), cbytes(q["name"]), cN(q["type"]), cN(q["class"]), edns)
    obs = clist([obs_to_coq(q["obs"][b]) for b in BACKENDS]) if q.get("obs") else "[]"
    return "mkQC %s %s %s" % (qq, cN(max(q["max"], 0)), obs)


def file_to_coq(c):
    recs = [r for l in c["lines"] for r in l["recs"]]
    compiled = not c["compile_err"]
    r1 = "None" if c["r1_same"] or not compiled else "(Some %s)" % store_to_coq(c["dump_r1"])
    return "(mkF %s %s %s %s %s %s)" % (clist([rec_to_coq(r) for r in recs]), cbool(compiled),
                                        store_to_coq(c["dump_v1"]), r1, store_to_coq(c["dump_v2"]),
                                        clist([query_to_coq(q) for q in c["queries"]]) if compiled else "[]")


def response_class(p):
    if p is None:
        return "noreply"
    if p["rcode"] == 5:
        return "refused"
    if p["rcode"] == 16:
        return "badvers"
    if p["rcode"] == 2:
        return "servfail"
    if not p["aa"]:
        return "referral" + ("+glue" if p["ex"] else "")
    if p["rcode"] == 3:
        return "nxdomain"
    if not p["an"]:
        return "nodata"
    return "answer" + ("+extra" if p["ex"] else "")


def file_nontrivial(c):
    """distinct (file shape, query name, type, client location, response class) tuples"""
    keys = []
    for q in c["queries"]:
        o = (q.get("obs") or {}).get("cdb")
        if not o:
            continue
        rc = response_class(o["reply"])
        if rc in ("refused", "noreply"):
            continue
        keys.append([c["class"], q["name"], q["type"], o["locid"], rc])
    return keys or None


def file_distribution(c):
    d = {}
    for q in c["queries"]:
        for b in BACKENDS:
            o = (q.get("obs") or {}).get(b)
            if o:
                k = "resp:" + ("panic" if o["panic"] else response_class(o["reply"]))
                d[k] = d.get(k, 0) + 1
    return d


def shrink_file(c):
    """smaller inputs: fewer queries, then fewer lines"""
    qs = c["queries"]
    if len(qs) > 1:
        h = len(qs) // 2
        yield dict(c, queries=qs[:h])
        yield dict(c, queries=qs[h:])
        if len(qs) <= 6:
            for i in range(len(qs)):
                yield dict(c, queries=qs[:i] + qs[i + 1:])
    ls = c["lines"]
    if len(ls) > 1:
        h = len(ls) // 2
        yield dict(c, lines=ls[:h])
        yield dict(c, lines=ls[h:])
        if len(ls) <= 12:
            for i in range(len(ls)):
                yield dict(c, lines=ls[:i] + ls[i + 1:])
