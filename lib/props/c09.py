"""C09 - Text normal form and preprocessing preserve meaning."""
from checklib import cbytes, cbool, clist, cpair, cN

ID = "C09"
# source constants of this property: Gen/Params.v is regenerated from the working tree, Proofs/ParamsTie.vo
# (lemma per constant: it is the value the models use) is built with the property (lib/paramsgen.py)
import paramsgen
EXTRA_TARGETS = [paramsgen.TARGET]


def pre_build(ctx):
    paramsgen.regenerate(ctx)


HARNESS = "c09"
N_CASES = {"quick": 350, "thorough": 12000}
N_SEARCH = {"quick": 1, "thorough": 2}
SHARD = 250
RULE = ("line level: the sample lines of data_test.go and boundary shapes, then seeded lines of all 17 record types "
        "(optional fields present/absent, trailing fields cut, both separators, octal/hex escapes, wildcard owners, "
        "locations, IPv4/IPv6/v4-mapped addresses, boundary and junk numbers; B/H with parameter lists over alpn, port, ipv4hint, "
        "ipv6hint (also v4-mapped: F8), echconfig, no-default-alpn, mandatory in random order, quoted and unquoted, trailing ';') "
        "plus a malformed stream (incl. rejected parameter lists), each run through "
        "DecodeLn -> MarshalMap/MarshalText three times under both key layouts; file level: files with % and Z lines "
        "preprocessed by Codec.Preprocess, original and preprocessed text compiled by rdb.Compile and dumped; "
        "non-trivial = distinct line whose text form differs from the line, or file with at least one % or Z line")
TRUSTED_BASE = [
    "net.ParseIP / IP.String enter the theorems as Section hypotheses (parse (print a) = Some a for 16-byte a, parse of the empty text = None, "
    "no ',' in the printed text); net.ParseCIDR / IPNet.String enter through a per-record premise inside wf_record (the printed network parses back); "
    "strconv.IsPrint on runes >= 0x80 is an oracle (the theorems hold for every IsPrint); "
    "the harness reports the observed values and the model is evaluated with exactly those; the hypotheses themselves are re-checked on every observed value",
    "B/H (SVCB/HTTPS) lines: the parameter field is handled by Model/Svcb.v (C18); net.ParseIP / IP.String (4- and 16-byte slices) and base64.StdEncoding "
    "Decode / Encode enter as oracles with the premises of C18_text_roundtrip_outside_finding (svcb_library, Proofs/Text.v), observed per case and re-checked (lib_ok)",
    "the rearranger (C03) is a parameter of Preproc.v: any function from the file's subnet records to range-point records with rearrange [] = []",
    "RocksDB, rdb.Compile's writer pipeline (C07/C15) and bufio/io.Copy are trusted below the list of key-value records / lines",
]
ASSUMPTIONS = ["wf_record (decidable, Model/Text.v): field bytes < 256, quoted labels shorter than 256 bytes, numbers within their width, "
               "locations of 0 or 2 bytes, 16-byte addresses, no empty first label in front of '*.'; B/H: the target's text does not begin with '*.', "
               "the parameter text holds no ',' (alpn id with ',' entered through a ':'-separated line)",
               "same Codec.Serial for both parses (line level); preprocessor serial equal to the compiler's default serial or 0 (file level)",
               "file lines do not start with a space and have at least two bytes unless empty or comments"]
HAS_MODEL_OUT = True


def _kv(l):
    return clist([cpair(cbytes(e["k"]), cbytes(e["v"])) for e in l])


_ERR = {"": 0, "decode": 1, "map": 2, "text": 3, "panic": 4, "skip": 5}


def _step(s):
    return "(mkS %d %s %s)" % (_ERR.get(s["err"], 1), cbytes(s["text"]), _kv(s["kv"]))


def _tables(c):
    ipp = clist([cpair(cbytes(e["t"]), cbytes(e["ip"])) for e in c["ipp"]])
    ips = clist([cpair(cbytes(e["ip"]), cbytes(e["t"])) for e in c["ips"]])
    cp = clist([cpair(cbytes(e["t"]), "(%s,%d,%d)" % (cbytes(e["ip"]), e["ones"], e["bits"])) for e in c["cp"]])
    np = clist(["(%s,%d,%s)" % (cbytes(e["ip"]), e["ones"], cbytes(e["t"])) for e in c["np"]])
    ru = clist([cpair(cN(r), cbool(p)) for r, p, lo in c["runes"]])
    b64d = clist([cpair(cbytes(e["t"]), cbytes(e["b"])) for e in c.get("b64d") or []])
    b64e = clist([cpair(cbytes(e["b"]), cbytes(e["t"])) for e in c.get("b64e") or []])
    return "(mkT %s %s %s %s %s %s %s)" % (ipp, ips, cp, np, ru, b64d, b64e)


def _dump(d):
    return clist([cpair(cbytes(e["k"]), clist([cbytes(v) for v in e["vs"]])) for e in d])


def _drop_cr(l):
    """the reader (bufio.ScanLines): one CR in front of the newline does not belong to the line; a line that
    still ends in CR after that is an ordinary line (no exclusion)"""
    return l[:-1] if l and l[-1] == 13 else l


def to_coq(c):
    if c["kind"] == "line":
        t = c["line"][0] if c["line"] else 0
        # identical steps are written once (most lines are at their fixed point after one step)
        s1, s2, s3 = _step(c["s1"]), _step(c["s2"]), _step(c["s3"])
        n2 = "s1" if s2 == s1 else s2
        n3 = "s1" if s3 == s1 else ("s2" if s3 == s2 else s3)
        return "(let s1 := %s in let s2 := %s in CLine %d %s %d %s %s s1 s2 %s %s)" % (
            s1, n2, t, cbool(c["v2"]), c["serial"], cbool(c["wf"]), cbytes(c["line"]), n3, _tables(c))
    lite = bool(c.get("lite"))
    return "CFile %s %s %d %d %s %s %s %s %s %s %s %s %s %s" % (
        cbool(lite), cbool(c["v2"]), c["serial"], c["pre_serial"], cbool(c["wf"]),
        "[]" if lite else clist([cbytes(_drop_cr(l)) for l in c["file"]]),
        cbool(c["pre_err"] != ""), "[]" if lite else clist([cbytes(l) for l in c["pre"]]),
        cbool(c["orig_err"] != ""), _dump(c["orig"]),
        cbool(c["p_err"] != ""), _dump(c["pdump"]),
        _kv(c["acc"]), _tables(c))


def nontrivial(c):
    if c["kind"] == "line":
        if c["s1"]["err"] == "" and c["s1"]["text"] != c["line"]:
            return ["line", c["line"], c["v2"]]
        return None
    if any(l[:1] in ([37], [90]) for l in c["file"]):
        return ["file", c["file"], c["v2"], c["pre_serial"] == 0]
    return None


def case_class(c):
    return c["kind"] + ":" + c.get("class", "?")


# ---------------------------------------------------------------- known findings
def _fields(line):
    """the tokenizer of data.go (detectSep + SplitN 15), without the type byte"""
    b = bytes(line[1:])
    i_s, i_c = b.find(b":"), b.find(b",")
    sep = b"," if (i_s == -1 or (i_c != -1 and i_c < i_s)) else b":"
    f = b.split(sep, 14)
    return f + [b""] * (15 - len(f))


def _is_zero_number(b):
    return len(b) > 0 and all(48 <= x <= 57 for x in b) and int(b) == 0


def _trimmed(l):
    return bytes(l).lstrip(b" ")


def _utf8(r):
    try:
        return chr(r).encode("utf-8", "surrogatepass") if not (0xD800 <= r <= 0xDFFF) and r <= 0x10FFFF else None
    except Exception:
        return None


def unquote(b):
    """quote.Bunquote on the escapes a data file uses (on an error the input is returned, as in Go)"""
    b = bytes(b)
    if b"\\" not in b:
        return b
    out, i, n = bytearray(), 0, len(b)
    simple = {97: 7, 98: 8, 102: 12, 110: 10, 114: 13, 116: 9, 118: 11, 92: 92}
    while i < n:
        c = b[i]
        if c >= 0x80:
            # valid UTF-8 sequence is copied, anything else becomes U+FFFD
            for w in (2, 3, 4):
                try:
                    b[i:i + w].decode("utf-8")
                    if len(b[i:i + w]) == w:
                        out += b[i:i + w]
                        i += w
                        break
                except Exception:
                    continue
            else:
                out += b"\xef\xbf\xbd"
                i += 1
            continue
        if c != 92:
            out.append(c)
            i += 1
            continue
        if i + 1 >= n:
            return b
        e = b[i + 1]
        if e in simple:
            out.append(simple[e])
            i += 2
        elif e in (120, 117, 85):
            k = {120: 2, 117: 4, 85: 8}[e]
            h = b[i + 2:i + 2 + k]
            if len(h) != k or any(x not in b"0123456789abcdefABCDEF" for x in h):
                return b
            v = int(h, 16)
            if e == 120:
                out.append(v)
            else:
                u = _utf8(v)
                if u is None:
                    return b
                out += u
            i += 2 + k
        elif 48 <= e <= 55:
            o = b[i + 1:i + 4]
            if len(o) != 3 or any(not (48 <= x <= 55) for x in o):
                return b
            v = int(o, 8)
            if v > 255:
                return b
            out.append(v)
            i += 4
        else:
            return b
    return bytes(out)


def _normname(d):
    if d == b".":
        return d
    return b".".join(l for l in d.split(b".") if l)


_MID = {b"&": b"ns", b".": b"ns", b"@": b"mx", b"S": b"srv"}


def shape_of(c):
    """decidable classifier over the INPUT of a case: which recorded defect (if any) it exercises"""
    if c["kind"] == "line":
        line = bytes(c["line"])
        if not line:
            return None
        t, f = line[:1], _fields(c["line"])
        if t in (b"B", b"H"):
            # F8: an ipv6hint value inside ::ffff:0:0/96 (prints as a dotted quad)
            import ipaddress
            for p in f[5].split(b";"):
                if p.startswith(b"ipv6hint="):
                    for v in p[len(b"ipv6hint="):].strip(b'"').split(b"|"):
                        try:
                            a = ipaddress.IPv6Address(v.decode("latin-1"))
                        except Exception:
                            continue
                        if a.ipv4_mapped is not None:
                            return "svcb-ipv6hint-v4mapped"
            return None
        if t == b"Z" and _is_zero_number(f[3]) and c["serial"] != 0:
            return "soa-serial-zero"
        if t in _MID:
            # F26: the server name (after the x.ns.dom expansion) holds a '.', its text form does not:
            # at most one non-empty label, and not the root "."
            x, dom = unquote(f[2]), unquote(f[0])
            ns = x if b"." in x else x + b"." + _MID[t] + b"." + dom
            if ns != b"." and b"." not in _normname(ns):
                return "single-label-absolute-server"
            return None
        if t in (b"M", b"8"):
            # F27: "*." followed by nothing but dots
            d = unquote(f[0])
            if d.startswith(b"*.") and not _normname(d).startswith(b"*."):
                return "root-wildcard-map"
            return None
        return None
    # file: an explicit zero serial on a Z line, compiled with a non-zero default serial
    if c["serial"] != 0:
        for l in c["file"]:
            tl = _trimmed(l)
            if tl[:1] == b"Z" and _is_zero_number(_fields(list(tl))[3]):
                return "soa-serial-zero"
    return None


_DEFAULT_IDS = {"svcb-ipv6hint-v4mapped": "F8", "soa-serial-zero": "F12",
                "single-label-absolute-server": "F26", "root-wildcard-map": "F27"}


def known_finding(c, findings):
    sh = shape_of(c)
    if sh is None:
        return None
    for f in findings:
        if f.get("shape") == sh or (not f.get("shape") and f.get("id") == _DEFAULT_IDS.get(sh)):
            return f
    return None


def shrink_candidates(c):
    if c["kind"] == "file":
        ls = c["file"]
        for i in range(len(ls)):
            yield dict(c, file=ls[:i] + ls[i + 1:])
        return
    line = c["line"]
    if len(line) < 2:
        return
    f = _fields(line)
    while f and f[-1] == b"":
        f.pop()
    sep = b","
    b = bytes(line[1:])
    i_s, i_c = b.find(b":"), b.find(b",")
    if not (i_s == -1 or (i_c != -1 and i_c < i_s)):
        sep = b":"
    # drop a trailing field, empty a field, shorten a field
    for i in range(len(f) - 1, 0, -1):
        yield dict(c, line=list(bytes(line[:1]) + sep.join(f[:i])))
    for i in range(1, len(f)):
        if f[i]:
            yield dict(c, line=list(bytes(line[:1]) + sep.join(f[:i] + [b""] + f[i + 1:])))
    for i in range(len(f)):
        if len(f[i]) > 1:
            yield dict(c, line=list(bytes(line[:1]) + sep.join(f[:i] + [f[i][:len(f[i]) // 2]] + f[i + 1:])))
            yield dict(c, line=list(bytes(line[:1]) + sep.join(f[:i] + [f[i][1:]] + f[i + 1:])))
