"""C08 - Applying a diff gives the database of the new data file."""
import hashlib
import json

from checklib import cbytes, cbool, clist, cpair, cN, copt

ID = "C08"
HARNESS = "c08"
N_CASES = {"quick": 150, "thorough": 1500}
N_SEARCH = {"quick": 1, "thorough": 2}
SHARD = 12
HAS_MODEL_OUT = True
RULE = ("one case in five: chains of 1-5 diffs on a RocksDB compiled (builder or batches, v1 or v2 keys) from a generated file that went "
        "through the real preprocessor: each step either the line diff to a mutated file (lines removed, added, repeated; "
        "subnets added, removed or moved to another location so that the range point lines change), shuffled and with "
        "comment lines, applied with the real rdb.ApplyDiff and compared (full dump, key -> multiset of values) with a "
        "fresh compilation of the new file, or a diff that cannot be applied (absent value, absent key, one deletion too "
        "many, unknown operation, rejected line) after which the dump must equal the dump before; the other cases: one "
        "diff of a chosen shape on a small file with a key holding 2-6 values (removals only, additions only, both, a key "
        "emptied, one of two equal values removed, a removal of an absent value) with the lines of that key separated by "
        "lines of other keys, or reversed, sorted, shuffled; the reference is a fresh RocksDB compilation of B for the "
        "first diff of a chain and one shape case in six, else the implementation's codec called line by line on B; "
        "plus the huge-fail class: a small database and a generated diff of rdb.DefaultBatchSize + 500..3500 additions "
        "(and deletions of the base rows) that ONE line makes inapplicable (rejected line, unknown operation, deletion of an "
        "absent key or value), both key layouts; observed: error and full dump after = full dump before (compared in Go; "
        "the model's outcome for such a diff is given by theorems C08_failing_line_anywhere_is_noop / "
        "C08_absent_delete_anywhere_is_noop, Coq evaluates their hypotheses on the offending line); "
        "non-trivial = distinct (database, diff) step with at least one record added or deleted, or a failing step")
TRUSTED_BASE = [
    "the codec (Codec.ConvertLn) is a parameter of model and theorems; the harness records its output on every argument of a diff line",
    "RocksDB below the rdb package (GetMulti, WriteBatch atomicity, iterator), NewUpdater/Close",
    "ExecuteBatch per key = old values, additions, deletions: lemma execute_batch_perkey of the C15 development (Proofs/Batch.v)",
    "sort.Slice returns a sorted permutation (hypothesis sort_ok)",
]
ASSUMPTIONS = [
    "files are preprocessed (no subnet lines: every line is converted independently of the others, the accumulator emits nothing)",
    "the diff is converted with the same SOA serial as the files were compiled with (the harness gives every file the same "
    "modification time; ApplyDiff derives the serial from the diff file's mtime, so an SOA line without an explicit serial would otherwise convert differently)",
    "values are shorter than 2^32 bytes",
    "a diff line consisting of the operation byte alone is not generated (ConvertLn then reads one byte beyond the line out of the scanner's buffer)",
]


def ckv(p):
    return cpair(cbytes(p["k"]), cbytes(p["v"]))


def cdump(d):
    return clist([cpair(cbytes(e["k"]), clist([cbytes(v) for v in e["vs"]])) for e in (d or [])])


def cstep(s):
    table = clist([cpair(cbytes(t["arg"]), copt(clist([ckv(p) for p in (t["recs"] or [])]) if t["ok"] else None)) for t in (s.get("table") or [])])
    fresh = copt(cdump(s["fresh"]) if s.get("fresh") is not None and s["expect_ok"] else None)
    return "(mkstep %s %s %s %s %s %s)" % (clist([cbytes(l) for l in (s.get("lines") or [])]), table, cN(s["err"]),
                                           cbool(s["expect_ok"]), cdump(s.get("after")), fresh)


def ctable(tab):
    return clist([cpair(cbytes(t["arg"]), copt(clist([ckv(p) for p in (t["recs"] or [])]) if t["ok"] else None)) for t in (tab or [])])


def to_coq(c):
    if c.get("kind") == "huge":
        return "mkhuge %s %s %s %s %s %s %s %s %s" % (cbytes(c["bad"]), ctable(c.get("table")), cdump(c.get("bad_pre")),
                                                    cbool(c["readable"]), cbool(c["added"]), cN(c["records"]), cN(c["batch_size"]),
                                                    cN(c["err"]), cbool(c["unchanged"]))
    return "mk %s %s" % (cdump(c.get("db0")), clist([cstep(s) for s in c["steps"]]))


def nontrivial(c):
    if c.get("kind") == "huge":
        return [c["class"], c["cfg"], c["with_dels"], c["post"], c["extra"]] if c["records"] > c["batch_size"] else None
    keys = []
    for s in c["steps"]:
        if s["err"] != 0 or any(t["ok"] and t["recs"] for t in (s.get("table") or [])):
            keys.append(hashlib.sha1(json.dumps([c["cfg"], s["diff"], s["new_file"]]).encode()).hexdigest()[:12])
    return keys or None


def case_class(c):
    if c.get("kind") == "huge":
        return "%s:%s:%s" % (c["class"], c["cfg"], "unchanged" if c["unchanged"] else "CHANGED")
    if c.get("class", "").startswith("shape:"):
        return c["class"] + ":" + c["cfg"]
    fails = sum(1 for s in c["steps"] if not s["expect_ok"])
    return "chain:%s:%s:%dsteps:%dfailing" % (c["cfg"], "builder" if c["builder"] else "batches", len(c["steps"]), fails)


def shrink_candidates(c):
    if c.get("kind") == "huge":
        # fewer records are not the point of this class; only the simpler variants of the same diff
        if c.get("post"):
            yield dict(c, post=0)
        if c.get("with_dels"):
            yield dict(c, with_dels=False)
        return
    st = c["steps"]
    # drop trailing steps, then leading successful steps cannot be dropped (they define the state)
    for n in range(1, len(st)):
        yield dict(c, steps=st[:n])
    # fewer diff lines in the last step
    if st:
        last = st[-1]
        lines = bytes(last["diff"]).split(b"\n")
        for i in range(len(lines)):
            t = lines[:i] + lines[i + 1:]
            yield dict(c, steps=st[:-1] + [dict(last, diff=list(b"\n".join(t)), expect_ok=False)])
