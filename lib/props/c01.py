"""C01 - Served answers are exactly what the data file declares."""
import os

from props.corecase import file_to_coq, file_nontrivial, file_distribution, shrink_file

ID = "C01"
# source constants of this property: Gen/Params.v is regenerated from the working tree, Proofs/ParamsTie.vo
# (lemma per constant: it is the value the models use) is built with the property (lib/paramsgen.py)
import paramsgen
EXTRA_TARGETS = [paramsgen.TARGET]


def pre_build(ctx):
    paramsgen.regenerate(ctx)


HARNESS = "c01"
N_CASES = {"quick": 12, "thorough": 240}
N_SEARCH = {"quick": 1, "thorough": 2}
SHARD = 2
HAS_MODEL_OUT = True
RULE = ("generated data files (zones with Z/./& apexes, delegated and authoritative child zones, all record "
        "types, default and explicit TTLs, wildcards at several depths, located records and a resolver map, "
        "byte-prefix sibling names, 1- and 63-byte labels, long names (keys of 96..191 and of >= 192 bytes), labels "
        "with bytes above 0x7f, NS/MX targets in upper case and with bytes above 0x7f, root zone, root delegation, "
        "empty file, shapes outside the well-formed guard) compiled by the real compilers to CDB / RocksDB v1 / RocksDB v2; "
        "24-40 queries per file (declared names, names at and below NS owners, the longest names, children, parents, wildcard-covered, non-wild-safe labels, outside, "
        "root; all types + ANY/DS/unknown; mixed case; four clients) through the three real handlers; "
        "non-trivial = distinct (file class, query name, type, client location, response class) other than REFUSED")
TRUSTED_BASE = [
    "client location (reader.FindLocation result) and the echoed ECS option are oracles observed on the implementation (location lookup is C03's model)",
    "rdata of stored rows is assumed valid for its type: miekg UnpackRRWithHeader followed by packing without compression is taken to be the identity on it (exercised by the run, not modelled)",
    "weighted address selection is compared as: served addresses are a sub-multiset of the positive-weight candidates, of size min(max, #positive) (C11 owns the draw)",
    "not modelled: RocksDB / CDB below get and seek_prev, message packing, truncation and compression (TCP remote address), Go slice capacity beyond length, statistics and logging",
]
ASSUMPTIONS = ["data files inside the generator's grammar; queries are wire-valid messages with one question"]


def to_coq(c):
    return file_to_coq(c)


def nontrivial(c):
    return file_nontrivial(c)


def case_class(c):
    return c["class"]


def shrink_candidates(c):
    if os.environ.get("VERIF_NO_SHRINK"):
        return iter(())
    return _shrink_candidates(c)


def _shrink_candidates(c):
    return shrink_file(c)

