"""C01 - Served answers are exactly what the data file declares."""
import os

from props.corecase import file_to_coq, file_nontrivial, file_distribution, shrink_file

ID = "C01"
HARNESS = "c01"
N_CASES = {"quick": 12, "thorough": 240}
N_SEARCH = {"quick": 1, "thorough": 2}
SHARD = 2
HAS_MODEL_OUT = True
RULE = ("generated data files (zones with Z/./& apexes, delegated and authoritative child zones, all record "
        "types, default and explicit TTLs, wildcards at several depths, located records and a resolver map, "
        "byte-prefix sibling names, 1- and 63-byte labels, names >= 128 bytes, root zone, root delegation, empty "
        "file, shapes outside the well-formed guard) compiled by the real compilers to CDB / RocksDB v1 / RocksDB v2; "
        "30-40 queries per file (declared names, children, parents, wildcard-covered, non-wild-safe labels, outside, "
        "root; all types + ANY/DS/unknown; mixed case; four clients) through the three real handlers; "
        "non-trivial = distinct (file class, query name, type, client location, response class) other than REFUSED")
TRUSTED_BASE = [
    "client location (reader.FindLocation result) and the echoed ECS option are oracles observed on the implementation (location lookup is C03's model)",
    "rdata of stored rows is assumed valid for its type: miekg UnpackRRWithHeader followed by packing without compression is taken to be the identity on it (exercised by the run, not modelled)",
    "weighted address selection is compared as: served addresses are a sub-multiset of the positive-weight candidates, of size min(max, #positive) (C11 owns the draw)",
    "not modelled: RocksDB / CDB below get and seek_prev, message packing, truncation and compression (TCP remote address), Go slice capacity beyond length, statistics and logging",
]
ASSUMPTIONS = ["data files inside the generator's grammar; queries are wire-valid messages with one question"]


def to_coq(c):
    return file_to_coq(c)


def nontrivial(c):
    return file_nontrivial(c)


def case_class(c):
    return c["class"]


def shrink_candidates(c):
    if os.environ.get("VERIF_NO_SHRINK"):
        return iter(())
    return _shrink_candidates(c)


def _shrink_candidates(c):
    return shrink_file(c)


def _upper_target_with_address(c):
    """an NS record whose target (rdata = one wire name) has an upper-case letter inside a label,
    while an address record is declared for the same name (compared case-insensitively)"""
    recs = [r for l in c["lines"] for r in l["recs"]]
    addr_owners = {bytes(r["owner"]).lower() for r in recs if r["type"] in (1, 28) and not r["wild"]}
    for r in recs:
        if r["type"] != 2:
            continue
        rd, i, upper = r["rdata"], 0, False
        while i < len(rd) and rd[i] != 0:
            n = rd[i]
            upper = upper or any(65 <= x <= 90 for x in rd[i + 1:i + 1 + n])
            i += 1 + n
        if upper and bytes(rd).lower() in addr_owners:
            return True
    return False


def known_finding(c, findings):
    """F24: no glue for an NS target written with upper-case letters (the additional-section lookup
    uses the target's exact-case key, owner keys are lower-cased).  Only files of the generator class
    made for this shape are classified; every other class never writes upper-case rdata names."""
    f24 = [f for f in findings if f.get("id") == "F24"]
    if f24 and c.get("class") == "mixedrd" and _upper_target_with_address(c):
        return f24[0]
    return None
