"""C18 - SVCB/HTTPS parameters compile to conformant, faithful wire data."""
from checklib import cbytes, cbool, clist, cpair, cN, copt

ID = "C18"
HARNESS = "c18"
N_CASES = {"quick": 900, "thorough": 20000}
N_SEARCH = {"quick": 2, "thorough": 3}
SHARD = 250
RULE = ("fixed inputs (pinned unit-test vectors, boundary probes, the F8 witness), three values at the 16-bit "
        "length limit, every order of the seven keys (thorough; quick: the 7 rotations) and of every choice of three keys "
        "(quick: a third of them), then seeded lists: valid lists over random subsets/orders of the seven keys with single and "
        "multiple values (ports 0/1/65535/leading zeros, IPv4 dotted and ::ffff: forms, IPv6 canonical/expanded/upper-case/"
        "v4-mapped/v4-compatible, alpn ids with quotes, '=', high bytes, 255 bytes, base64 with line breaks, quoted/unquoted/"
        "doubly quoted values, trailing ';', text after an empty segment), lists whose mandatory names a missing key / itself / "
        "a key twice, lists with a repeated key, and a malformed stream (a broken or unusual segment inside a valid list: "
        "unknown or upper-case key, missing '=', empty value, bad port syntax/range, bad addresses, bad base64, alpn ids of "
        "length 0/256/258, random delimiter soup); each accepted input is evaluated twice (kinds wire and rt), a rejected one once; "
        "non-trivial = distinct input text per kind")
TRUSTED_BASE = [
    "net.ParseIP, net.IP.String, base64.StdEncoding Decode/Encode enter the model as oracles (theorems hold for every oracle "
    "satisfying the stated round-trip hypotheses; the harness supplies the observed values per case)",
    "strconv.ParseUint/FormatUint, bytes.Split/SplitN/Trim/Contains, sort.SliceStable, net.IP.To4 are modelled by hand "
    "(Base/Text.v, Model/Svcb.v) and exercised by the correspondence run, not verified",
    "miekg/dns v1.1.50 SVCB unpacking is used as a second, independent decoder of the emitted RDATA",
    "not modelled: a ParamList receiver that is non-empty when FromText is called; Go slice aliasing (inputs are copied)",
]
ASSUMPTIONS = ["oracle hypotheses of Proofs/Svcb.v section Roundtrip (ParseIP inverts IP.String except on v4-mapped 16-byte "
               "addresses, which print as dotted quad; printed addresses and base64 text contain none of ; | \" ; "
               "base64 Decode inverts Encode)"]
HAS_MODEL_OUT = True


def _pack(b):
    ws = []
    for i in range(0, len(b), 7):
        w = 1
        for x in reversed(b[i:i + 7]):
            w = (w << 8) | int(x)
        ws.append(str(w))
    return "(bs [" + ";".join(ws) + "]%uint63)"


def cbytes(b):  # noqa: F811  (transport encoding of Run/C18.v: 7 bytes per 63-bit integer)
    b = list(b)
    if len(b) < 4096:
        return _pack(b) if b else "[]"
    # long inputs are periodic: write them as repetitions of a short pattern
    parts = []
    i = 0
    while i < len(b):
        best = None
        for per in (1, 2, 3, 4, 16, 255, 256):
            if i + 2 * per > len(b):
                continue
            pat = b[i:i + per]
            n = 1
            while b[i + n * per:i + (n + 1) * per] == pat:
                n += 1
            if n >= 2 and n * per >= 64 and (best is None or n * per > best[0] * best[1]):
                best = (n, per)
        if best:
            n, per = best
            parts.append("rp %d %s" % (n, _pack(b[i:i + per])))
            i += n * per
        else:
            j = i + 1
            # literal stretch up to the next long run of a single byte
            while j < len(b) and not (j + 64 <= len(b) and len(set(b[j:j + 64])) == 1):
                j += 1
                if j - i >= 2048:
                    break
            parts.append(_pack(b[i:j]))
            i = j
    return "(" + " ++ ".join(parts) + ")"


def _sval(v):
    k = v["k"]
    if k == 0:
        return "VMand %s" % clist([cN(x) for x in v.get("ks") or []])
    if k == 1:
        return "VAlpn %s" % clist([cbytes(x) for x in v.get("ids") or []])
    if k == 2:
        return "VNda"
    if k == 3:
        return "VPort %s" % cN(v.get("p", 0))
    if k == 4:
        return "VIp4 %s" % clist([cbytes(x) for x in v.get("a") or []])
    if k == 5:
        return "VEch %s" % cbytes(v.get("b") or [])
    if k == 6:
        return "VIp6 %s" % clist([cbytes(x) for x in v.get("a") or []])
    return "VOpaque %s %s" % (cN(k), cbytes(v.get("b") or []))


def _svals(l):
    return clist(["(" + _sval(v) + ")" for v in l])


def _opt_pairs(ps):
    return clist([cpair(cbytes(p["k"]), "None" if p.get("n") else "(Some %s)" % cbytes(p.get("v") or [])) for p in ps])


def _pairs(ps):
    return clist([cpair(cbytes(p["k"]), cbytes(p.get("v") or [])) for p in ps])


def to_coq(c):
    wire_kind = c["kind"] == "wire"
    kind = "KWire" if wire_kind else "KRt"
    if wire_kind:   # fields the kind does not look at are left out of the term
        c = dict(c, txt=[], wire2=[], print=[], b64e=[])
    else:
        c = dict(c, mkv=[], decl=None, rec=None, mk=2)
    rec = "None"
    if c.get("rec"):
        r = c["rec"]
        rec = "(Some (mkRec %s %s %s %s %s %s %s))" % (cN(r["type"]), cN(r["ttl"]), cN(r["prio"]),
                                                        cbytes(list(r["target"].encode("latin-1"))),
                                                        cbool(r.get("wild", False)),
                                                        cbool(r["err"]), cbytes(r.get("row") or []))
    decl = "None" if c.get("decl") is None else "(Some %s)" % _svals(c["decl"])
    return "mk %s %s %s %s %s %s %s %s %s %s %s %s %s %s %s %s" % (
        kind, cbytes(c["text"]), _opt_pairs(c["parse"]), _pairs(c["print"]), _opt_pairs(c["b64d"]), _pairs(c["b64e"]),
        cN(c["ft"]), cbytes(c["wire"]), cN(c["tt"]), cbytes(c["txt"]), cN(c["rp"]), cbytes(c["wire2"]),
        cN(c["mk"]), _svals(c.get("mkv") or []), decl, rec)


def nontrivial(c):
    return [c["kind"], c["text"]]


def case_class(c):
    return c["kind"] + ":" + c.get("class", "?") + (":accepted" if c["ft"] == 0 else ":rejected")


def _tlv(w):
    res = []
    i = 0
    while i + 4 <= len(w):
        k = w[i] * 256 + w[i + 1]
        n = w[i + 2] * 256 + w[i + 3]
        if i + 4 + n > len(w):
            return None
        res.append((k, w[i + 4:i + 4 + n]))
        i += 4 + n
    return res if i == len(w) else None


V4_PREFIX = [0] * 10 + [255, 255]


def has_mapped_ipv6hint(wire):
    """the emitted list holds an ipv6hint address inside ::ffff:0:0/96"""
    t = _tlv(wire)
    if not t:
        return False
    for k, v in t:
        if k == 6:
            for off in range(0, len(v) - 15, 16):
                if v[off:off + 12] == V4_PREFIX:
                    return True
    return False


def known_finding(c, findings):
    """F8: the failing case is the text round trip (kind rt) of an accepted list that holds a
    v4-mapped ipv6hint.  Nothing else is excused: the wire-kind case of the same input, and
    round trips of lists without such a hint, stay violations."""
    if c.get("kind") != "rt" or c.get("ft") != 0:
        return None
    if not has_mapped_ipv6hint(c.get("wire") or []):
        return None
    for f in findings:
        if f.get("id") == "F8":
            return f
    return None


def shrink_candidates(c):
    """drop one ';' segment (and its declared value when the two lists are aligned), then shorten segments"""
    text = bytes(c["text"])
    segs = text.split(b";")
    decl = c.get("decl")
    aligned = decl is not None and len(decl) == len(segs)
    if len(segs) > 1:
        for i in range(len(segs)):
            nt = b";".join(segs[:i] + segs[i + 1:])
            nd = (decl[:i] + decl[i + 1:]) if aligned else None
            yield dict(c, text=list(nt), decl=nd, rec=c.get("rec"))
    if decl is None:
        for i in range(len(segs)):
            s = segs[i]
            if len(s) > 1:
                for cut in (s[:len(s) // 2], s[:-1]):
                    nt = b";".join(segs[:i] + [cut] + segs[i + 1:])
                    yield dict(c, text=list(nt))
