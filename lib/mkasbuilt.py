#!/usr/bin/env python3
"""Regenerates DESIGN.md section 14 (theorems as built, per property) from coq/Properties/*.v:
for every Theorem/Example its name and the comment that precedes it."""
import os, re, json
V = os.path.dirname(os.path.dirname(os.path.abspath(__file__)))

def items(path):
    s = open(path, errors="replace").read()
    out = []
    # tokens: comments and theorem headers in order
    pos = 0
    last_comment = ""
    for m in re.finditer(r"\(\*(.*?)\*\)|^(Theorem|Example|Lemma|Corollary)\s+([\w']+)", s, re.S | re.M):
        if m.group(1) is not None:
            last_comment = " ".join(m.group(1).split())
        else:
            out.append((m.group(3), last_comment))
            last_comment = ""
    return out

lines = ["## 14. Theorems as built (generated from coq/Properties/*.v by lib/mkasbuilt.py)", "",
         "Every theorem below is closed by `exact <lemma>` and followed by `Print Assumptions`; all are",
         "closed under the global context except the two real-analysis theorems of C11 (axioms named in",
         "section 8 and in evidence/C11.json). `_refuted` = witness that the unrestricted statement is",
         "false for the faithful model (a recorded finding or a needed guard); `_outside_finding` = the",
         "statement outside the finding class; `_partial` = proved part of a statement that is not fully",
         "carried (what is missing is said in the comment of the property file).", ""]
total = 0
for i in range(1, 21):
    pid = "C%02d" % i
    p = os.path.join(V, "coq", "Properties", pid + ".v")
    if not os.path.exists(p):
        continue
    its = items(p)
    total += len(its)
    lines.append("### %s (%d)" % (pid, len(its)))
    for name, com in its:
        com = com[:230] + ("..." if len(com) > 230 else "")
        lines.append("* `%s` - %s" % (name, com if com else "(see file)"))
    lines.append("")
lines.insert(9, "Total: %d theorems and examples in the property files." % total)
block = "\n".join(lines)
dp = os.path.join(V, "DESIGN.md")
s = open(dp).read()
if "## 14. Theorems as built" in s:
    s = s[:s.index("## 14. Theorems as built")].rstrip("\n") + "\n\n" + block + "\n"
else:
    s = s.rstrip("\n") + "\n\n---------------------------------------------------------------------------\n\n" + block + "\n"
open(dp, "w").write(s)
print(total)
