#!/usr/bin/env python3
"""Confirms a seeded change delivered by a seeding sub-agent and files it under /verif/seeded/<name>/.

  lib/seedconfirm.py <agent worktree> <name>

In a FRESH scratch worktree of /repo HEAD: (1) the demonstration passes without the
patch, (2) with the patch the tree builds, (3) the existing tests (pinned packages and
the linked packages db/dnsserver/fbserver/whoami) still pass, (4) the demonstration
fails.  Only then is seeded/<name>/ written (patch.diff, demo files with their
repository-relative paths, meta.json with what was run).
"""
import json
import os
import shutil
import subprocess
import sys
import tempfile

V = os.path.dirname(os.path.dirname(os.path.abspath(__file__)))
ENV = dict(os.environ, GOFLAGS="-mod=mod", GOPROXY="off", GOSUMDB="off", GOTOOLCHAIN="local")


def sh(cmd, cwd, timeout=2400):
    p = subprocess.run(cmd, shell=True, cwd=cwd, env=ENV, stdout=subprocess.PIPE, stderr=subprocess.STDOUT,
                       text=True, errors='replace', timeout=timeout)
    return p.returncode, p.stdout


def main():
    awt, name = sys.argv[1].rstrip("/"), sys.argv[2]
    seed = os.path.join(awt, "_seed")
    meta = json.load(open(os.path.join(seed, "meta.json")))
    patch = os.path.join(seed, "patch.diff")
    # demonstration files: new (untracked) files in the agent's worktree outside _seed
    rc, out = sh("git status --porcelain --untracked-files=all", awt)
    demos = [l[3:] for l in out.split("\n") if l.startswith("?? ") and not l[3:].startswith("_seed/")
             and not l[3:].endswith(".diff") and not l[3:].endswith(".patch")]
    demos = [d for d in demos if d.endswith(".go") or "/seeddemo/" in d]
    wt = tempfile.mkdtemp(prefix="verif-confirm-", dir="/var/tmp")
    os.rmdir(wt)
    subprocess.check_call(["git", "-C", "/repo", "worktree", "add", "-q", "--detach", wt, "HEAD"])
    log = {}
    ok = False
    try:
        for d in demos:
            os.makedirs(os.path.dirname(os.path.join(wt, d)), exist_ok=True)
            shutil.copy(os.path.join(awt, d), os.path.join(wt, d))
        import re
        demo_cmd = re.sub(r"[;&]+\s*git checkout (dnsrocks/)?go\.(mod|sum)( (dnsrocks/)?go\.sum)?\s*$", "", meta["demo_cmd"].strip())
        demo_cmd = demo_cmd.replace(awt, wt)    # a demo_cmd that cd's into the agent's worktree must run in OURS
        cwd = os.path.join(wt, "dnsrocks")
        rc0, out0 = sh(demo_cmd, cwd)
        log["demo_without_patch"] = {"rc": rc0, "tail": out0[-600:]}
        rc, out = sh("git apply --whitespace=nowarn %s || git apply --3way --whitespace=nowarn %s" % (patch, patch), wt)
        rebased = subprocess.check_output(["git", "-C", wt, "diff", "HEAD", "--", ".", ":!dnsrocks/go.mod", ":!dnsrocks/go.sum"]).decode()
        if rc != 0:
            log["apply"] = out
            print("PATCH DOES NOT APPLY", out)
            return 2
        rcb, outb = sh("go build ./dnsdata/... ./db/... ./dnsserver/... ./metrics/... ./fbserver/... ./whoami/... && (cd go-cdb-mods && go build ./...)", cwd)
        log["build"] = {"rc": rcb, "tail": outb[-600:]}
        tests = ("go test -count=1 -skip 'TestSeed' ./dnsdata/... ./metrics/... ./cgo-rocksdb/... ./tlsconfig/... && "
                 "(cd go-cdb-mods && go test -count=1 -skip 'TestSeed' ./...)")
        rct, outt = sh(tests, cwd)
        if rct != 0:
            rct, outt = sh(tests, cwd)
        log["existing_tests_with_patch"] = {"rc": rct, "cmd": tests, "tail": outt[-800:]}
        # packages that only link with -checklinkname=0 (not part of the pinned 365).  dnsserver's reload tests
        # are timing sensitive and crash now and then on a loaded machine also WITHOUT any patch: up to 4 attempts
        tests2 = "go test -count=1 -skip 'TestSeed' -ldflags=-checklinkname=0 ./db/ ./dnsserver/ ./fbserver/ ./whoami/"
        for attempt in range(4):
            rc2, out2 = sh(tests2, cwd)
            if rc2 == 0:
                break
        log["linked_tests_with_patch"] = {"rc": rc2, "cmd": tests2, "attempts": attempt + 1, "tail": out2[-800:]}
        rct = rct or rc2
        rc1, out1 = sh(demo_cmd, cwd)
        log["demo_with_patch"] = {"rc": rc1, "tail": out1[-1200:]}
        ok = rc0 == 0 and rcb == 0 and rct == 0 and rc1 != 0
        print("demo without patch rc=%d, build rc=%d, existing tests rc=%d, demo with patch rc=%d -> %s" % (
            rc0, rcb, rct, rc1, "CONFIRMED" if ok else "NOT CONFIRMED"))
        if not ok:
            print(json.dumps(log, indent=1)[-3000:])
            return 1
        dst = os.path.join(V, "seeded", name)
        os.makedirs(dst, exist_ok=True)
        open(os.path.join(dst, "patch.diff"), "w").write(rebased)   # the patch as it applies to /repo HEAD at confirmation
        for d in demos:
            os.makedirs(os.path.dirname(os.path.join(dst, "demo", d)), exist_ok=True)
            shutil.copy(os.path.join(awt, d), os.path.join(dst, "demo", d))
        meta["confirmed_by_coordinator"] = log
        meta["demo_files"] = demos
        meta["repo_head_at_confirmation"] = subprocess.check_output(["git", "-C", "/repo", "rev-parse", "--short", "HEAD"]).decode().strip()
        json.dump(meta, open(os.path.join(dst, "meta.json"), "w"), indent=1)
        return 0
    finally:
        subprocess.call(["git", "-C", "/repo", "worktree", "remove", "--force", wt])
        shutil.rmtree(wt, ignore_errors=True)


if __name__ == "__main__":
    sys.exit(main())
