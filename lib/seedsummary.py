#!/usr/bin/env python3
"""Prints the markdown table of seeded changes and which check caught which (DESIGN.md section 13)."""
import glob, json, os
V = os.path.dirname(os.path.dirname(os.path.abspath(__file__)))
rows = []
for d in sorted(glob.glob(os.path.join(V, "seeded", "*"))):
    mp = os.path.join(d, "meta.json")
    if not os.path.exists(mp):
        continue
    m = json.load(open(mp))
    res = {}
    for rp in sorted(glob.glob(os.path.join(d, "result*.json"))):
        res.update(json.load(open(rp)).get("results", {}))
    det = ", ".join("%s:%s" % (k, "caught" if v["detected"] else "MISSED") for k, v in sorted(res.items())) or "not run"
    fc = m.get("files_changed"); fc = fc if isinstance(fc, str) else ", ".join(fc or [])
    summ = " ".join(str(m.get("summary", "")).split())[:200].replace("|", "/")
    needs = " ".join(str(m.get("needs", "")).split())[:160].replace("|", "/")
    rows.append("| %s | %s | %s | %s | %s | %s |" % (os.path.basename(d), m.get("property"), fc.replace("dnsrocks/", ""), summ, needs, det))
print("| seed | property | file | change | needs | checks |\n|---|---|---|---|---|---|")
print("\n".join(rows))
