"""Tie of the source constants to the Coq models (shared by the properties that own them).

harness/cmd/gotabc (Go standard library only) reads named constants and literals off the Go
sources of checklib.REPO and prints coq/Gen/Params.v; coq/Proofs/ParamsTie.v (hand-written)
proves for every generated item that it is the value the models use.  A props module opts in with

    import paramsgen
    EXTRA_TARGETS = ["Proofs/ParamsTie.vo"]
    def pre_build(ctx): paramsgen.regenerate(ctx)

checklib calls pre_build before the Coq build and builds EXTRA_TARGETS with the property's own
targets, so a constant that drifted in the Go source fails `make Proofs/ParamsTie.vo`, which
checklib records as a broken proof obligation ("coq-build: Proofs/ParamsTie.v:<line>") of that
property and follows with the differential search.

Gen/Params.v is rewritten only when its content changes (make then does nothing); the write
happens under coq/.build.lock.  A run against a scratch worktree (VERIF_REPO) puts the table of
/repo back when the process exits, so the tracked copy of Gen/Params.v stays the one of /repo.
"""
import atexit
import fcntl
import os
import re
import tempfile

import checklib

GEN = os.path.join(checklib.COQ, "Gen", "Params.v")
TIE = os.path.join(checklib.COQ, "Proofs", "ParamsTie.v")
TARGET = "Proofs/ParamsTie.vo"
_restore_registered = []


def _binary():
    """Builds harness/bin/gotabc when it is missing or older than its source."""
    os.makedirs(os.path.join(checklib.HARNESS, "bin"), exist_ok=True)
    binp = os.path.join(checklib.HARNESS, "bin", "gotabc")
    src = os.path.join(checklib.HARNESS, "cmd", "gotabc", "main.go")
    if not os.path.exists(binp) or os.path.getmtime(binp) < os.path.getmtime(src):
        tmp = "%s.%d" % (binp, os.getpid())
        rc, out = checklib.run(["go", "build", "-o", tmp, "./cmd/gotabc"], cwd=checklib.HARNESS, env=checklib.GOENV, timeout=600)
        if rc != 0:
            return None, out
        os.replace(tmp, binp)
    return binp, ""


def _translate(repo):
    """Returns (text of Gen/Params.v for this checkout, None) or (None, error text)."""
    binp, out = _binary()
    if binp is None:
        return None, "go build ./cmd/gotabc failed: " + out[-800:]
    rc, out = checklib.run([binp, "-repo", repo], cwd=checklib.HARNESS, env=checklib.GOENV, timeout=120)
    if rc != 0:
        return None, out[-1200:]
    return out, None


def _install(text):
    """Writes Gen/Params.v if the content differs; True when it was rewritten."""
    os.makedirs(os.path.dirname(GEN), exist_ok=True)
    with open(os.path.join(checklib.COQ, ".build.lock"), "w") as lk:
        fcntl.flock(lk, fcntl.LOCK_EX)
        try:
            if open(GEN).read() == text:
                return False
        except OSError:
            pass
        fd, tmp = tempfile.mkstemp(prefix=".Params.", suffix=".tmp", dir=os.path.dirname(GEN))
        with os.fdopen(fd, "w") as f:
            f.write(text)
        os.chmod(tmp, 0o644)
        os.replace(tmp, GEN)
        return True


def _restore():
    text, err = _translate("/repo")
    if text is not None:
        _install(text)


def items(text):
    return re.findall(r"^Definition (go_\w+) :", text, re.M)


def regenerate(ctx):
    """pre_build hook: Gen/Params.v := the constants of checklib.REPO as they are now."""
    text, err = _translate(checklib.REPO)
    if text is None:
        # a constant was renamed / removed, or the statement a literal is read from changed shape
        ctx.broken.append("gotabc (Proofs/ParamsTie): the translator of the source constants failed on the working tree, "
                          "Gen/Params.v is not current: " + err)
        ctx.note("gotabc FAILED:", err)
        return
    if os.path.realpath(checklib.REPO) != "/repo" and not _restore_registered:
        _restore_registered.append(True)
        atexit.register(_restore)
    changed = _install(text)
    names = items(text)
    try:
        tie = checklib.strip_coq_comments(open(TIE).read())
    except OSError:
        tie = ""
    missing = [n for n in names if not re.search(r"\b%s\b" % re.escape(n), tie)]
    if missing:
        ctx.broken.append("Proofs/ParamsTie.v has no lemma about the generated item(s) " + ", ".join(missing))
        ctx.note("ParamsTie: generated items without a lemma:", ", ".join(missing))
    ctx.note("gotabc: Gen/Params.v %s from %s (%d source constants)" % (
        "REWRITTEN" if changed else "unchanged", checklib.REPO, len(names)))
