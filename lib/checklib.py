#!/usr/bin/env python3
"""Common driver of every property check (see DESIGN.md section 2).

  ./check Cxx --tier quick|thorough [--seed N] [--replay path]

Steps: (1) build the Coq development (full .vo build, never -vos), re-compile
Properties/Cxx.v and read its Print Assumptions; hygiene scan.  (2) build the Go
harness against /repo's working tree with -tags verif, run it, evaluate the
Coq model and the Coq spec on the very same cases with vm_compute.  (3) classify
(violation / known finding / broken proof or correspondence).  (4) evidence.
"""
import argparse
import concurrent.futures
import fcntl
import hashlib
import importlib
import json
import os
import re
import shutil
import subprocess
import sys
import tempfile
import time

VERIF = os.path.dirname(os.path.dirname(os.path.abspath(__file__)))
COQ = os.path.join(VERIF, "coq")
HARNESS = os.path.join(VERIF, "harness")
REPO = os.environ.get("VERIF_REPO", "/repo")
GOENV = dict(os.environ, GOFLAGS="-mod=mod", GOPROXY="off", GOSUMDB="off",
             GOTOOLCHAIN="local", CGO_ENABLED="1")
GEN_VERSION = 1
ALLOWED_STD_AXIOMS = {
    # standard-library axioms a property may name in its trusted base
    "ClassicalDedekindReals.sig_not_dec", "ClassicalDedekindReals.sig_forall_dec",
    "FunctionalExtensionality.functional_extensionality_dep", "Classical_Prop.classic",
    "ProofIrrelevance.proof_irrelevance", "Eqdep.Eq_rect_eq.eq_rect_eq", "JMeq.JMeq_eq",
}

# ---------------------------------------------------------------- Coq term printing

def cN(n):
    return str(int(n))

def cbytes(l):
    return "[" + ";".join(str(int(x)) for x in l) + "]"

def cbool(b):
    return "true" if b else "false"

def clist(items):
    return "[" + ";".join(items) + "]"

def cpair(a, b):
    return "(" + a + "," + b + ")"

def copt(x):
    return "None" if x is None else "(Some " + x + ")"

def cstr_bytes(s):
    if isinstance(s, str):
        s = s.encode("latin-1")
    return cbytes(list(s))

# ---------------------------------------------------------------- utilities

class Ctx:
    """State of one check run."""
    def __init__(self, prop, tier, seed):
        self.prop = prop
        self.tier = tier
        self.seed = seed
        self.t0 = time.time()
        self.scratch = tempfile.mkdtemp(prefix="verif-%s-" % prop.ID,
                                        dir=os.environ.get("VERIF_SCRATCH", "/var/tmp"))
        self.log = []
        self.violations = []      # (replay_path, suffix)
        self.known = {}           # finding id -> text
        self.obligations = 0
        self.discharged = 0
        self.broken = []          # names of theorems / correspondences that no longer check
        self.cov = {}
        self.assumptions_seen = {}

    def note(self, *a):
        msg = " ".join(str(x) for x in a)
        self.log.append(msg)
        print("[%s %6.1fs] %s" % (self.prop.ID, time.time() - self.t0, msg), flush=True)

    def cleanup(self):
        shutil.rmtree(self.scratch, ignore_errors=True)


def _big_stack():
    # coqc parses a cases file as one big term; lift the stack limit as far as allowed
    import resource
    soft, hard = resource.getrlimit(resource.RLIMIT_STACK)
    try:
        resource.setrlimit(resource.RLIMIT_STACK, (hard, hard))
    except Exception:
        pass


def run(cmd, cwd=None, env=None, timeout=None, stdin=None):
    p = subprocess.run(cmd, cwd=cwd, env=env, timeout=timeout, input=stdin, preexec_fn=_big_stack,
                       stdout=subprocess.PIPE, stderr=subprocess.STDOUT, text=True, errors="replace")
    return p.returncode, p.stdout


def strip_coq_comments(s):
    out, depth, i, n = [], 0, 0, len(s)
    in_str = False
    while i < n:
        if depth == 0 and s[i] == '"':
            in_str = not in_str
            out.append(s[i]); i += 1; continue
        if not in_str and s.startswith("(*", i):
            depth += 1; i += 2; continue
        if not in_str and depth > 0 and s.startswith("*)", i):
            depth -= 1; i += 2; continue
        if depth == 0:
            out.append(s[i])
        i += 1
    return "".join(out)


FORBIDDEN = re.compile(r"\b(Admitted|admit|Axiom|Axioms|Parameter|Parameters|Conjecture|Conjectures)\b"
                       r"|Admit\s+Obligations|Unset\s+Guard|bypass_check|Unset\s+Positivity|Unset\s+Universe"
                       r"|type-in-type|impredicative-set|native_compute|\bgive_up\b")


def hygiene_scan():
    """No Admitted/admit/Axiom/..., no Variable/Hypothesis outside a section, no
    switched-off kernel checks anywhere in the development."""
    problems = []
    for root, _, files in os.walk(COQ):
        for f in files:
            if not f.endswith(".v") or f.startswith("cases_"):
                continue
            path = os.path.join(root, f)
            src = strip_coq_comments(open(path, errors="replace").read())
            depth = 0
            for ln, line in enumerate(src.split("\n"), 1):
                if re.match(r"\s*(Section|Module\s+Type)\b", line):
                    depth += 1
                elif re.match(r"\s*End\b", line) and depth > 0:
                    depth -= 1
                m = FORBIDDEN.search(line)
                if m:
                    problems.append("%s:%d: %s" % (os.path.relpath(path, COQ), ln, m.group(0)))
                if depth == 0 and re.match(r"\s*(Variable|Variables|Hypothesis|Hypotheses|Context)\b", line):
                    problems.append("%s:%d: %s outside a section" % (os.path.relpath(path, COQ), ln, line.strip()[:40]))
    for extra in ("_CoqProject",):
        s = open(os.path.join(COQ, extra)).read()
        if FORBIDDEN.search(s):
            problems.append(extra + ": forbidden flag")
    return problems


def coq_project_files():
    res = []
    for sub in ("Base", "Gen", "Spec", "Model", "Proofs", "Run", "Properties"):
        d = os.path.join(COQ, sub)
        if os.path.isdir(d):
            for f in sorted(os.listdir(d)):
                if f.endswith(".v"):
                    res.append(sub + "/" + f)
    return res


def coq_make(ctx, targets):
    """Full .vo build of the given targets (and what they depend on) under a lock."""
    os.makedirs(COQ, exist_ok=True)
    with open(os.path.join(COQ, ".build.lock"), "w") as lk:
        fcntl.flock(lk, fcntl.LOCK_EX)
        files = coq_project_files()
        base = open(os.path.join(COQ, "_CoqProject")).read()
        listing = base.rstrip("\n") + "\n" + "\n".join(files) + "\n"
        lp = os.path.join(COQ, "_CoqProject.all")
        if not os.path.exists(lp) or open(lp).read() != listing or not os.path.exists(os.path.join(COQ, "Makefile.coq")):
            open(lp, "w").write(listing)
            rc, out = run(["coq_makefile", "-f", "_CoqProject.all", "-o", "Makefile.coq"], cwd=COQ)
            if rc != 0:
                return rc, out
        rc, out = run(["timeout", "3000", "make", "-f", "Makefile.coq", "-j16"] + targets, cwd=COQ, timeout=3100)
        return rc, out


def parse_assumptions(out):
    """Returns {theorem: [axiom names]} from the output of a Properties file whose
    Print Assumptions commands are each preceded by nothing else printing."""
    res = []
    cur = None
    for line in out.split("\n"):
        if line.startswith("Closed under the global context"):
            res.append([])
            cur = None
        elif line.startswith("Axioms:"):
            cur = []
            res.append(cur)
        elif cur is not None:
            m = re.match(r"^([A-Za-z_][\w.']*)\s*(:|$)", line)
            if m:
                cur.append(m.group(1))
    return res


def proof_step(ctx):
    prop = ctx.prop
    pid = prop.ID
    probs = hygiene_scan()
    if probs:
        ctx.broken.append("hygiene: " + "; ".join(probs[:5]))
        ctx.note("hygiene scan failed:", probs[:5])
    if hasattr(prop, "pre_build"):
        prop.pre_build(ctx)
    propfile = "Properties/%s.v" % pid
    src = strip_coq_comments(open(os.path.join(COQ, propfile)).read())
    theorems = re.findall(r"^\s*(?:Theorem|Lemma|Corollary|Example)\s+([\w']+)", src, re.M)
    printed = [x.rstrip(".") for x in re.findall(r"Print\s+Assumptions\s+([\w'.]+)", src)]
    ctx.theorems = theorems
    ctx.obligations += len(theorems)
    targets = ["Run/%s.vo" % pid, propfile + "o"] + getattr(prop, "EXTRA_TARGETS", [])
    t = time.time()
    rc, out = coq_make(ctx, targets)
    ctx.make_s = time.time() - t
    ctx.checker_cmd = "cd coq && coq_makefile -f _CoqProject.all -o Makefile.coq && make -f Makefile.coq -j16 %s && coqc -Q . DnsV %s" % (" ".join(targets), propfile)
    if rc != 0:
        tail = "\n".join(out.strip().split("\n")[-25:])
        ctx.note("Coq build FAILED:\n" + tail)
        m = re.search(r'File "\./([^"]+)", line (\d+)', out)
        where = "%s:%s" % (m.group(1), m.group(2)) if m else "?"
        ctx.broken.append("coq-build: %s: %s" % (where, tail[-600:]))
        ctx.coq_ok = False
        # can the Run file (model only, no proofs) still be built?  needed for the search
        rc2, _ = coq_make(ctx, ["Run/%s.vo" % pid])
        ctx.run_ok = rc2 == 0
        return
    ctx.coq_ok = True
    ctx.run_ok = True
    # always recompile the property file itself to read Print Assumptions
    rc, out = run(["timeout", "600", "coqc", "-Q", ".", "DnsV", propfile], cwd=COQ)
    if rc != 0:
        ctx.broken.append("coqc %s: %s" % (propfile, out[-600:]))
        ctx.coq_ok = False
        return
    ass = parse_assumptions(out)
    if len(ass) != len(printed) or set(printed) != set(theorems):
        ctx.broken.append("Properties/%s.v: every theorem must be followed by Print Assumptions (%d theorems, %d printed, %d parsed)"
                          % (pid, len(theorems), len(printed), len(ass)))
        ctx.coq_ok = False
        return
    allowed = set(getattr(prop, "ALLOWED_AXIOMS", []))
    bad = []
    for name, axs in zip(printed, ass):
        ctx.assumptions_seen[name] = axs
        for a in axs:
            if a not in allowed or a not in ALLOWED_STD_AXIOMS:
                bad.append("%s depends on %s" % (name, a))
    if bad:
        ctx.broken.append("assumptions: " + "; ".join(bad[:5]))
        ctx.coq_ok = False
        return
    ctx.discharged += len(theorems)
    ctx.note("Coq: %d theorems of %s discharged (%.1fs make); assumptions: %s" % (
        len(theorems), propfile, ctx.make_s,
        "closed under the global context" if not any(ass) else json.dumps(ctx.assumptions_seen)))


def repo_digest():
    rc, out = run(["git", "-C", REPO, "rev-parse", "HEAD"])
    rc2, diff = run(["git", "-C", REPO, "diff", "HEAD", "--stat"])
    return out.strip()[:12] + ("+dirty" if diff.strip() else "")


def harness_build(ctx, cmdname=None):
    cmdname = cmdname or ctx.prop.HARNESS
    os.makedirs(os.path.join(HARNESS, "bin"), exist_ok=True)
    with open(os.path.join(HARNESS, ".build.lock"), "w") as lk:
        fcntl.flock(lk, fcntl.LOCK_EX)
        src_sum = os.path.join(REPO, "dnsrocks", "go.sum")
        dst_sum = os.path.join(HARNESS, "go.sum")
        if not os.path.exists(dst_sum) or open(src_sum).read() != open(dst_sum).read():
            shutil.copy(src_sum, dst_sum)
        binp = os.path.join(HARNESS, "bin", cmdname)
        modflags = []
        if os.path.realpath(REPO) != "/repo":
            # mutation testing against a scratch worktree (VERIF_REPO): same harness, other replace target
            binp = os.path.join(ctx.scratch, "bin-" + cmdname)
            mf = os.path.join(ctx.scratch, "alt.mod")
            open(mf, "w").write(open(os.path.join(HARNESS, "go.mod")).read().replace("/repo/dnsrocks", os.path.join(os.path.realpath(REPO), "dnsrocks")))
            shutil.copy(dst_sum, os.path.join(ctx.scratch, "alt.sum"))
            modflags = ["-modfile=" + mf]
        tags = "verif" + ("," + ctx.prop.EXTRA_TAGS if getattr(ctx.prop, "EXTRA_TAGS", "") else "")
        cmd = ["go", "build", "-tags", tags, "-ldflags=-checklinkname=0"] + modflags + \
              list(getattr(ctx.prop, "BUILD_FLAGS", [])) + ["-o", binp, "./cmd/" + cmdname]
        t = time.time()
        rc, out = run(cmd, cwd=HARNESS, env=GOENV, timeout=1800)
        ctx.note("harness build %s: rc=%d (%.1fs)" % (cmdname, rc, time.time() - t))
        if rc != 0:
            return None, out
        return binp, out


def harness_run(ctx, binp, n, seed, out_path, replay=None, extra=None, timeout=3000):
    cmd = [binp, "-seed", str(seed), "-n", str(n), "-tier", ctx.tier, "-scratch", ctx.scratch, "-out", out_path]
    if replay:
        cmd += ["-replay", replay]
    if extra:
        cmd += ["-extra", extra]
    pre = []
    if getattr(ctx.prop, "ULIMIT_KB", 0):
        pre = ["prlimit", "--as=%d" % (ctx.prop.ULIMIT_KB * 1024)]
    rc, out = run(pre + cmd, cwd=ctx.scratch, env=GOENV, timeout=timeout)
    cases = []
    if os.path.exists(out_path):
        with open(out_path) as f:
            for line in f:
                line = line.strip()
                if line:
                    try:
                        cases.append(json.loads(line))
                    except Exception:
                        pass
    return rc, out, cases


def eval_shard(args):
    (shard_dir, idx, run_mod, header, case_terms) = args
    name = "cases_%d" % idx
    path = os.path.join(shard_dir, name + ".v")
    with open(path, "w") as f:
        f.write("From DnsV Require Import Base.Bytes %s.\n" % run_mod)
        f.write("Open Scope N_scope.\n")
        f.write(header + "\n")
        f.write("Definition cases : list case := [\n")
        f.write(";\n".join(case_terms))
        f.write("\n].\n")
        f.write("Definition bad_model := Eval vm_compute in bad_idx model_ok cases.\n")
        f.write("Definition bad_spec := Eval vm_compute in bad_idx spec_ok cases.\n")
        f.write("Print bad_model.\nPrint bad_spec.\n")
    rc, out = run(["timeout", "1500", "coqc", "-Q", COQ, "DnsV", "-Q", shard_dir, "Cases", path], cwd=shard_dir)
    if rc != 0:
        return idx, None, None, out
    def grab(nm):
        m = re.search(nm + r"\s*=\s*(.*?)\n\s*:\s*list N", out, re.S)
        if not m:
            return None
        return [int(x) for x in re.findall(r"\d+", m.group(1).replace("%N", ""))]
    return idx, grab("bad_model"), grab("bad_spec"), out


def coq_eval(ctx, cases, shard_size=None):
    """Evaluates model_ok / spec_ok of Run/<ID>.v on the cases inside Coq (vm_compute).
    Returns (bad_model indices, bad_spec indices, error text or None)."""
    prop = ctx.prop
    shard_size = shard_size or getattr(prop, "SHARD", 400)
    shard_dir = tempfile.mkdtemp(prefix="coqcases-", dir=ctx.scratch)
    jobs = []
    header = getattr(prop, "CASES_HEADER", "")
    for k in range(0, len(cases), shard_size):
        terms = [prop.to_coq(c) for c in cases[k:k + shard_size]]
        jobs.append((shard_dir, k // shard_size, "Run." + prop.ID, header, terms))
    bad_m, bad_s = [], []
    err = None
    with concurrent.futures.ThreadPoolExecutor(max_workers=int(os.environ.get("VERIF_JOBS", "12"))) as ex:
        for idx, bm, bs, out in ex.map(eval_shard, jobs):
            if bm is None or bs is None:
                err = (err or "") + "shard %d: %s\n" % (idx, out[-1500:])
                continue
            bad_m += [idx * shard_size + i for i in bm]
            bad_s += [idx * shard_size + i for i in bs]
    shutil.rmtree(shard_dir, ignore_errors=True)
    return sorted(bad_m), sorted(bad_s), err


def coq_model_out(ctx, case):
    """Raw text of what the model computes for one case (for replay files)."""
    prop = ctx.prop
    if not getattr(prop, "HAS_MODEL_OUT", False):
        return None
    d = tempfile.mkdtemp(prefix="coqone-", dir=ctx.scratch)
    path = os.path.join(d, "one.v")
    with open(path, "w") as f:
        f.write("From DnsV Require Import Base.Bytes Run.%s.\nOpen Scope N_scope.\n%s\n" % (prop.ID, getattr(prop, "CASES_HEADER", "")))
        f.write("Definition c : case := %s.\nEval vm_compute in model_out c.\n" % prop.to_coq(case))
    rc, out = run(["timeout", "300", "coqc", "-Q", COQ, "DnsV", path], cwd=d)
    shutil.rmtree(d, ignore_errors=True)
    return out.strip()[-4000:]


def write_replay(ctx, kind, case, detail):
    os.makedirs(os.path.join(VERIF, "replays"), exist_ok=True)
    h = hashlib.sha1(json.dumps([kind, case, detail.get("what")], sort_keys=True, default=str).encode()).hexdigest()[:10]
    path = os.path.join(VERIF, "replays", "%s-%s-%s.json" % (ctx.prop.ID, ctx.seed, h))
    doc = {"property": ctx.prop.ID, "seed": ctx.seed, "generator_version": GEN_VERSION, "tier": ctx.tier,
           "kind": kind, "repo": repo_digest(), "case": case}
    doc.update(detail)
    with open(path, "w") as f:
        json.dump(doc, f, indent=1, default=str)
    return path


def load_known():
    p = os.path.join(VERIF, "known_findings.json")
    if os.path.exists(p):
        return json.load(open(p))
    return {"findings": []}


def shrink_case(ctx, binp, case, still_bad):
    """Greedy delta debugging driven by prop.shrink_candidates(case) (smaller inputs).
    still_bad(new_case_after_rerun) -> bool."""
    prop = ctx.prop
    if not hasattr(prop, "shrink_candidates"):
        return case
    budget = 40
    cur = case
    progress = True
    while progress and budget > 0:
        progress = False
        for cand in prop.shrink_candidates(cur):
            budget -= 1
            if budget <= 0:
                break
            rp = os.path.join(ctx.scratch, "shrink_in.jsonl")
            with open(rp, "w") as f:
                f.write(json.dumps(cand) + "\n")
            rc, out, got = harness_run(ctx, binp, 0, ctx.seed, os.path.join(ctx.scratch, "shrink_out.jsonl"), replay=rp)
            if rc != 0 or len(got) != 1:
                continue
            if still_bad(got[0]):
                cur = got[0]
                progress = True
                break
    return cur


def classify(ctx, binp, cases, bad_m, bad_s, label):
    """Turns mismatch indices into violations / known findings.  Returns True if the
    correspondence (impl = model) held on all cases."""
    prop = ctx.prop
    known = load_known()
    open_findings = [f for f in known.get("findings", []) if f.get("property") == prop.ID and f.get("status") == "open"]
    reported = 0
    for i in bad_s:
        c = cases[i]
        fid = prop.known_finding(c, open_findings) if hasattr(prop, "known_finding") else None
        if fid:
            ctx.known.setdefault(fid["id"], fid["what"])
            if i in bad_m:
                # inside a known-finding class the model must still be the code
                pass
            else:
                continue
            continue
        if reported >= 2:
            continue
        def still_bad(nc):
            _, bs, err = coq_eval(ctx, [nc])
            return err is None and bs == [0] and not (hasattr(prop, "known_finding") and prop.known_finding(nc, open_findings))
        small = shrink_case(ctx, binp, c, still_bad) if reported == 0 else c
        path = write_replay(ctx, "spec-violation", small, {
            "what": "implementation output differs from what the property prescribes on this input",
            "original_case": c if small is not c else None,
            "model_agrees_with_impl": i not in bad_m,
            "model_says": coq_model_out(ctx, small)})
        ctx.violations.append((path, ""))
        reported += 1
    corr_bad = [i for i in bad_m]
    return corr_bad


def finish(ctx):
    prop = ctx.prop
    wall = time.time() - ctx.t0
    cov = dict(ctx.cov)
    cov.setdefault("obligations", ctx.obligations)
    cov.setdefault("discharged", ctx.discharged)
    cov.setdefault("checker_cmd", getattr(ctx, "checker_cmd", "make"))
    tb = list(getattr(prop, "TRUSTED_BASE", []))
    tb = ["Coq 8.16.1 kernel (coqc), vm_compute for finite tables / witnesses / case evaluation; no native_compute",
          "Print Assumptions per theorem: " + (json.dumps(ctx.assumptions_seen) if any(ctx.assumptions_seen.values()) else "all closed under the global context"),
          "hand-written Gallina model tied to /repo by the differential correspondence run (Go harness + vm_compute), not by translation",
          ] + tb
    cov.setdefault("trusted_base", tb)
    cov.setdefault("theorems", getattr(ctx, "theorems", []))
    cov["broken"] = ctx.broken
    cov["known_findings_seen"] = sorted(ctx.known.keys())
    ev = {"property_id": prop.ID, "tier": ctx.tier, "seed": ctx.seed, "level": "proof",
          "coverage": cov, "assumptions": list(getattr(prop, "ASSUMPTIONS", [])),
          "wall_s": round(wall, 2), "violations": len(ctx.violations)}
    if os.path.realpath(REPO) == "/repo":
        # evidence is only ever written by runs against /repo itself
        os.makedirs(os.path.join(VERIF, "evidence"), exist_ok=True)
        with open(os.path.join(VERIF, "evidence", prop.ID + ".json"), "w") as f:
            json.dump(ev, f, indent=1, default=str)
    for fid, what in sorted(ctx.known.items()):
        print("KNOWN-FINDING: property=%s %s %s" % (prop.ID, fid, what))
    for path, suffix in ctx.violations:
        print("VIOLATION property=%s replay=%s%s" % (prop.ID, path, (" " + suffix) if suffix else ""))
    ctx.cleanup()
    if ctx.violations:
        print("%s: FAIL (%d violation(s)) in %.1fs" % (prop.ID, len(ctx.violations), wall))
        return 1
    print("%s: OK  obligations=%d discharged=%d evaluations=%s in %.1fs" % (
        prop.ID, cov["obligations"], cov["discharged"], cov.get("evaluations"), wall))
    return 0


def corpus_cases(prop):
    d = os.path.join(VERIF, "corpus", prop.ID)
    res = []
    if os.path.isdir(d):
        for f in sorted(os.listdir(d)):
            if f.endswith(".json") or f.endswith(".jsonl"):
                for line in open(os.path.join(d, f)):
                    line = line.strip()
                    if line:
                        res.append(json.loads(line))
    return res


def differential_step(ctx):
    """Standard impl-vs-model and impl-vs-spec run.  Properties with special needs
    provide prop.differential(ctx) instead."""
    prop = ctx.prop
    binp, out = harness_build(ctx)
    if binp is None:
        ctx.obligations += 1
        path = write_replay(ctx, "correspondence", None, {
            "what": "the harness no longer builds against /repo's working tree, so the correspondence impl = model cannot be established",
            "relation": "%s: implementation = model (harness build)" % prop.ID, "build_output": out[-3000:]})
        ctx.violations.append((path, "no-failing-input-found"))
        return
    n = prop.N_CASES[ctx.tier]
    cases = []
    corp = corpus_cases(prop)
    if corp:
        rp = os.path.join(ctx.scratch, "corpus_in.jsonl")
        with open(rp, "w") as f:
            for c in corp:
                f.write(json.dumps(c) + "\n")
        rc, out, got = harness_run(ctx, binp, 0, ctx.seed, os.path.join(ctx.scratch, "corpus_out.jsonl"), replay=rp)
        if rc == 0:
            cases += got
        else:
            ctx.note("corpus replay failed:", out[-500:])
    rc, out, got = harness_run(ctx, binp, n, ctx.seed, os.path.join(ctx.scratch, "cases.jsonl"))
    if rc != 0:
        ctx.note("harness run failed rc=%d: %s" % (rc, out[-2000:]))
        ctx.obligations += 1
        path = write_replay(ctx, "correspondence", None, {
            "what": "the harness crashed or failed while running the implementation",
            "relation": "%s: implementation = model (harness run)" % prop.ID, "output": out[-3000:]})
        ctx.violations.append((path, "no-failing-input-found"))
        return
    cases += got
    ctx.note("harness produced %d cases (%d from corpus)" % (len(cases), len(corp)))
    evaluate_and_classify(ctx, binp, cases)


def evaluate_and_classify(ctx, binp, cases, relation=None):
    prop = ctx.prop
    relation = relation or "%s: implementation = model on generated cases" % prop.ID
    ctx.obligations += 2   # the two relations: impl = model, impl satisfies spec
    if not ctx.run_ok:
        path = write_replay(ctx, "proof", None, {"what": "the Coq model itself no longer compiles", "theorem": ctx.broken})
        ctx.violations.append((path, "no-failing-input-found"))
        return
    t = time.time()
    bad_m, bad_s, err = coq_eval(ctx, cases)
    ctx.note("Coq evaluated %d cases in %.1fs: model mismatches=%d spec mismatches=%d" % (len(cases), time.time() - t, len(bad_m), len(bad_s)))
    if err:
        ctx.note("case evaluation error:", err[-1500:])
        path = write_replay(ctx, "correspondence", None, {"what": "Coq could not evaluate the generated cases", "relation": relation, "output": err[-3000:]})
        ctx.violations.append((path, "no-failing-input-found"))
        return
    # statistics
    keys = set()
    dist = {}
    for c in cases:
        k = prop.nontrivial(c)
        if k is not None:
            keys.add(json.dumps(k, sort_keys=True, default=str))
        cl = prop.case_class(c) if hasattr(prop, "case_class") else c.get("class", "?")
        dist[cl] = dist.get(cl, 0) + 1
    ctx.cov["evaluations"] = ctx.cov.get("evaluations", 0) + len(cases)
    ctx.cov["distinct_nontrivial"] = ctx.cov.get("distinct_nontrivial", 0) + len(keys)
    ctx.cov["rule"] = prop.RULE
    ctx.cov.setdefault("distribution", {}).update(dist)
    ctx.cov.setdefault("samples", [])
    if len(ctx.cov["samples"]) < 4:
        step = max(1, len(cases) // 3)
        ctx.cov["samples"] += [trim_sample(c) for c in cases[::step][:3]]
    nviol = len(ctx.violations)
    corr_bad = classify(ctx, binp, cases, bad_m, bad_s, relation)
    if not corr_bad:
        ctx.discharged += 1
    if len(ctx.violations) == nviol and not [i for i in bad_s if not is_known(ctx, cases[i])]:
        ctx.discharged += 1
    if corr_bad and len(ctx.violations) == nviol:
        # impl != model but no spec violation on these cases: the property is no longer shown.
        found = False
        if hasattr(prop, "N_SEARCH") and binp:
            for k in range(prop.N_SEARCH.get(ctx.tier, 0)):
                rc, out, more = harness_run(ctx, binp, prop.N_CASES[ctx.tier] * 2, ctx.seed + 7919 * (k + 1),
                                            os.path.join(ctx.scratch, "search.jsonl"))
                if rc != 0:
                    break
                bm2, bs2, err2 = coq_eval(ctx, more)
                ctx.cov["evaluations"] += len(more)
                if err2:
                    break
                n0 = len(ctx.violations)
                classify(ctx, binp, more, [], bs2, relation)
                if len(ctx.violations) > n0:
                    found = True
                    break
        if not found:
            c = cases[corr_bad[0]]
            def still_bad(nc):
                bm, _, e = coq_eval(ctx, [nc])
                return e is None and bm == [0]
            small = shrink_case(ctx, binp, c, still_bad)
            path = write_replay(ctx, "correspondence", small, {
                "what": "implementation and Coq model disagree on this case; the search found no input on which the property itself fails",
                "relation": relation, "disagreeing_cases": len(corr_bad),
                "model_says": coq_model_out(ctx, small)})
            ctx.violations.append((path, "no-failing-input-found"))


def is_known(ctx, case):
    prop = ctx.prop
    if not hasattr(prop, "known_finding"):
        return False
    known = load_known()
    open_findings = [f for f in known.get("findings", []) if f.get("property") == prop.ID and f.get("status") == "open"]
    return bool(prop.known_finding(case, open_findings))


def trim_sample(c, limit=1200):
    s = json.dumps(c, default=str)
    if len(s) <= limit:
        return c
    return {"truncated_case_json": s[:limit] + "..."}


def proof_broken_step(ctx):
    """A proof obligation no longer checks and the differential run found no failing
    input: still a violation (the property is no longer shown)."""
    if ctx.broken and not ctx.violations:
        path = write_replay(ctx, "proof", None, {
            "what": "a proof obligation of this property no longer checks; the differential search found no failing input",
            "theorem": ctx.broken})
        ctx.violations.append((path, "no-failing-input-found"))


def main(argv=None):
    ap = argparse.ArgumentParser()
    ap.add_argument("prop")
    ap.add_argument("--tier", default=os.environ.get("VERIF_TIER", "quick"), choices=["quick", "thorough"])
    ap.add_argument("--seed", type=int, default=int(os.environ.get("VERIF_SEED", "20260923")))
    ap.add_argument("--replay")
    a = ap.parse_args(argv)
    sys.path.insert(0, os.path.join(VERIF, "lib"))
    prop = importlib.import_module("props." + a.prop.lower())
    ctx = Ctx(prop, a.tier, a.seed)
    try:
        if a.replay:
            return replay_main(ctx, a.replay)
        proof_step(ctx)
        if hasattr(prop, "differential"):
            prop.differential(ctx)
        else:
            differential_step(ctx)
        if ctx.tier == "thorough" and getattr(ctx, "coq_ok", False) and not os.environ.get("VERIF_NO_COQCHK"):
            coqchk_step(ctx)
        proof_broken_step(ctx)
        return finish(ctx)
    except Exception as e:  # a crashed check must not look like a pass
        import traceback
        traceback.print_exc()
        ctx.cleanup()
        print("%s: check crashed: %s" % (prop.ID, e))
        return 2


def coqchk_step(ctx):
    pid = ctx.prop.ID
    t = time.time()
    with open(os.path.join(COQ, ".build.lock"), "w") as lk:
        fcntl.flock(lk, fcntl.LOCK_EX)
        rc, out = run(["timeout", "3000", "coqchk", "-silent", "-o", "-Q", ".", "DnsV", "DnsV.Properties." + pid], cwd=COQ)
    ctx.obligations += 1
    axioms = re.findall(r"^\s+([\w.]+)\s*$", out.split("Axioms:")[-1], re.M) if "Axioms:" in out else []
    ctx.cov["coqchk"] = {"rc": rc, "seconds": round(time.time() - t, 1), "tail": out.strip()[-800:]}
    if rc == 0:
        ctx.discharged += 1
        ctx.note("coqchk ok (%.0fs)" % (time.time() - t))
    else:
        ctx.broken.append("coqchk failed: " + out[-500:])


def replay_main(ctx, path):
    prop = ctx.prop
    doc = json.load(open(path))
    case = doc.get("case")
    if hasattr(prop, "replay"):
        return prop.replay(ctx, doc)
    if case is None:
        print("replay file names a broken obligation, not an input:", doc.get("theorem") or doc.get("relation"))
        proof_step(ctx)
        ok = not ctx.broken
        ctx.cleanup()
        print("obligations check again" if ok else "still broken: %s" % ctx.broken)
        return 0 if ok else 1
    coq_make(ctx, ["Run/%s.vo" % prop.ID])
    ctx.run_ok = True
    binp, out = harness_build(ctx)
    if binp is None:
        print(out[-2000:])
        ctx.cleanup()
        return 1
    rp = os.path.join(ctx.scratch, "replay_in.jsonl")
    with open(rp, "w") as f:
        f.write(json.dumps(case) + "\n")
    rc, out, got = harness_run(ctx, binp, 0, doc.get("seed", 1), os.path.join(ctx.scratch, "replay_out.jsonl"), replay=rp)
    if rc != 0 or not got:
        print("replay run failed:", out[-2000:])
        ctx.cleanup()
        return 1
    bm, bs, err = coq_eval(ctx, got)
    print("replayed case:", json.dumps(trim_sample(got[0])))
    print("implementation = model:", not bm, " implementation satisfies spec:", not bs, err or "")
    ctx.cleanup()
    if bs or bm or err:
        print("VIOLATION property=%s replay=%s" % (prop.ID, path))
        return 1
    print("%s: replay passes on the current tree" % prop.ID)
    return 0


if __name__ == "__main__":
    sys.exit(main())
