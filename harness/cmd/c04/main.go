// C04 harness: a data file and an edit of it that adds, changes and deletes only records
// tagged with other locations; the same queries against both, on three backends.
package main

import (
	"verifharness/corelib"
	"verifharness/hlib"
)

func main() {
	hlib.Main(func(a *hlib.Args, e *hlib.Emitter) error { return corelib.RunPairs(a, e, 40000) })
}
