// C12 harness: (1) sequential histories of queries (any requester, letter case, type, class,
// EDNS / ECS, RD) and reloads fed to two real handlers, one with the response cache and one
// without; (2) schedules with queries in flight while Reload purges the cache (shared
// scheduler: verifharness/rl).
package main

import (
	"encoding/json"
	"fmt"
	"os"
	"path/filepath"
	"sync"
	"time"

	"verifharness/hlib"
	"verifharness/rl"
)

const (
	ipLoc1 = "198.51.100.7"
	ipLoc2 = "192.0.2.7"
	ipLoc3 = "198.18.0.7"  // location id \000\072
	ipLoc4 = "203.0.113.7" // location id \001\072: same second byte as ipLoc3's
)

func gen(s int) rl.File { return rl.File{Stamp: s, OK: true, Key: true} }

func stdDisk(paths ...int) []rl.DiskEntry {
	all := []rl.DiskEntry{{Path: 0, File: gen(1)}, {Path: 1, File: gen(2)}, {Path: 2, File: gen(3)},
		{Path: 3, File: rl.File{Stamp: 4, OK: true, Key: false}}, {Path: 4, File: rl.File{Stamp: 9, OK: false}}}
	var d []rl.DiskEntry
	for _, e := range all {
		for _, p := range paths {
			if e.Path == p {
				d = append(d, e)
			}
		}
	}
	return d
}

func q(client int, name string, qtype int, ip string) rl.ThreadSpec {
	return rl.ThreadSpec{Kind: "q", Client: client, Name: name, Qtype: qtype, IP: ip}
}
func full(p int) rl.ThreadSpec { return rl.ThreadSpec{Kind: "r", Full: true, Path: p} }
func rep(t, n int) []int {
	r := make([]int, n)
	for i := range r {
		r[i] = t
	}
	return r
}
func cat(l ...[]int) []int {
	var r []int
	for _, x := range l {
		r = append(r, x...)
	}
	return r
}

// ---------------------------------------------------------------- schedules (cache enabled)

func shapeF6(be string) rl.Case {
	// query 0 parked before its cache insert; full reload completes; query 0 inserts; query 2
	// (new, same key) is served from the cache
	return rl.Case{Kind: "sched", Class: "f6-shape", Cfg: rl.Config{Backend: be, Cache: true}, Disk: stdDisk(0, 1), P0: 0,
		Threads: []rl.ThreadSpec{q(1, "www.example.com.", 1, ipLoc1), full(1), q(2, "www.example.com.", 1, ipLoc1)},
		Sched:   cat(rep(0, 6), rep(1, 5), rep(0, 2), rep(2, 8))}
}
func shapeInsertBeforePurge(be string) rl.Case {
	// the insert falls between swap and purge: the purge removes it, nothing stale survives
	return rl.Case{Kind: "sched", Class: "insert-before-purge", Cfg: rl.Config{Backend: be, Cache: true}, Disk: stdDisk(0, 1), P0: 0,
		Threads: []rl.ThreadSpec{q(1, "www.example.com.", 1, ipLoc1), full(1), q(2, "www.example.com.", 1, ipLoc1)},
		Sched:   cat(rep(0, 6), rep(1, 3), rep(0, 2), rep(1, 2), rep(2, 8))}
}
func shapeHitThenReload(be string) rl.Case {
	// entry cached, hit, reload, then the same key must be computed again on the new generation
	return rl.Case{Kind: "sched", Class: "hit-reload-miss", Cfg: rl.Config{Backend: be, Cache: true}, Disk: stdDisk(0, 1), P0: 0,
		Threads: []rl.ThreadSpec{q(1, "example.com.", 15, ipLoc1), q(1, "example.com.", 15, ipLoc1), full(1),
			q(1, "example.com.", 15, ipLoc1), q(2, "example.com.", 15, ipLoc2), q(2, "EXAMPLE.com.", 15, ipLoc2)},
		Sched: cat(rep(0, 8), rep(1, 3), rep(2, 5), rep(3, 8), rep(4, 8), rep(5, 3))}
}

var queryMenu = []func(c int) rl.ThreadSpec{
	func(c int) rl.ThreadSpec { return q(c, "example.com.", 15, ipLoc1) },
	func(c int) rl.ThreadSpec { return q(c, "www.example.com.", 1, ipLoc1) },
	func(c int) rl.ThreadSpec { return q(c, "www.example.com.", 1, ipLoc2) },
	func(c int) rl.ThreadSpec { return q(c, "geo.example.com.", 1, ipLoc2) },
	func(c int) rl.ThreadSpec { return q(c, "geo.example.com.", 1, ipLoc1) },
	func(c int) rl.ThreadSpec { return q(c, "nx.example.com.", 1, ipLoc1) },
	func(c int) rl.ThreadSpec { return q(c, "other.org.", 1, ipLoc1) },
	func(c int) rl.ThreadSpec { return q(c, "wrr.example.com.", 1, ipLoc1) },
}

func randomSched(r *hlib.Rng, be string, nq int) rl.Case {
	c := rl.Case{Kind: "sched", Class: fmt.Sprintf("random-%dq2r", nq), Cfg: rl.Config{Backend: be, Cache: true}, Disk: stdDisk(0, 1, 2), P0: 0}
	// few distinct keys so that hits happen
	a, b := r.Intn(len(queryMenu)), r.Intn(len(queryMenu))
	for i := 0; i < nq; i++ {
		m := a
		if r.Chance(1, 3) {
			m = b
		}
		c.Threads = append(c.Threads, queryMenu[m](1+r.Intn(2)))
	}
	c.Threads = append(c.Threads, full(1), full(2))
	left := make([]int, len(c.Threads))
	for i, t := range c.Threads {
		left[i] = 8
		if t.Kind == "r" {
			left[i] = 5
		}
	}
	started := make([]bool, len(c.Threads))
	holder := -1
	for guard := 0; guard < 300; guard++ {
		var cand []int
		for i := range c.Threads {
			if left[i] > 0 {
				cand = append(cand, i)
			}
		}
		if len(cand) == 0 {
			break
		}
		i := cand[r.Intn(len(cand))]
		if !started[i] && holder != -1 && holder != i {
			continue
		}
		if i == len(c.Threads)-1 && left[i-1] > 0 {
			continue // the reloads run one after the other (distinct generations in order)
		}
		c.Sched = append(c.Sched, i)
		started[i] = true
		left[i]--
		if c.Threads[i].Kind == "r" {
			if left[i] == 4 {
				holder = i
			}
			if left[i] == 0 {
				holder = -1
			}
		}
	}
	return c
}

// ---------------------------------------------------------------- histories

type qvar struct {
	name  string
	qtype int
}

var names = []qvar{
	{"www.example.com.", 1}, {"WWW.Example.COM.", 1}, {"wWw.eXample.com.", 1}, {"www.example.com.", 16},
	{"example.com.", 15}, {"EXAMPLE.COM.", 15}, {"example.com.", 6}, {"geo.example.com.", 1}, {"Geo.Example.Com.", 1},
	{"txt.example.com.", 16}, {"nx.example.com.", 1}, {"NX.example.com.", 1}, {"x.sub.example.com.", 1},
	{"X.SUB.example.com.", 1}, {"other.org.", 1}, {"wrr.example.com.", 1}, {"www.example.com.", 28},
	{"d1.example.com.", 2}, {"m1.example.com.", 15}, {"d3.example.com.", 2}, {"m2.example.com.", 15},
}

func randomQuery(r *hlib.Rng, few bool) rl.ThreadSpec {
	n := len(names)
	if few {
		n = 6
	}
	v := names[r.Intn(n)]
	t := q(1+r.Intn(3), v.name, v.qtype, ipLoc1)
	t.IP = []string{ipLoc1, ipLoc2, ipLoc3, ipLoc4, ipLoc3, ipLoc4, ipLoc2, "2001:db8::7"}[r.Intn(8)]
	if r.Chance(1, 2) {
		t.Edns = true
		switch r.Intn(6) {
		case 0:
			t.ECS = "192.0.2.0/24"
		case 1:
			t.ECS = "203.0.113.0/24"
		case 2:
			t.ECS = "198.18.0.0/24"
		case 3:
			t.ECS = "198.51.100.0/24" // no subnet of its own: default location
		}
		if r.Chance(1, 4) {
			t.EVer = 1 + r.Intn(2) // unsupported EDNS version: BADVERS, warm cache or not
		}
	}
	t.RD = r.Chance(1, 3)
	if r.Chance(1, 12) {
		t.Qclass = 3 // CHAOS
	}
	return t
}

func randomHist(r *hlib.Rng, be string, n int) rl.Case {
	c := rl.Case{Kind: "hist", Class: "hist", Cfg: rl.Config{Backend: be, Cache: true, VKey: r.Chance(1, 2)}, Disk: stdDisk(0, 1, 2, 3, 4), P0: 0}
	c.Cfg.LRU = []int{2, 3, 5, 64}[r.Intn(4)]
	few := r.Chance(1, 2)
	nextFull := 1
	for i := 0; i < n; i++ {
		switch r.Pick([]int{12, 1, 1, 1}) {
		case 0:
			c.Threads = append(c.Threads, randomQuery(r, few))
		case 1:
			if nextFull <= 2 {
				c.Threads = append(c.Threads, full(nextFull))
				nextFull++
			} else {
				c.Threads = append(c.Threads, rl.ThreadSpec{Kind: "r"})
			}
		case 2:
			c.Threads = append(c.Threads, full([]int{7, 4, 3}[r.Intn(3)])) // missing / unreadable / no key
		default:
			c.Threads = append(c.Threads, rl.ThreadSpec{Kind: "r"}) // partial without an update: same generation, purge
		}
	}
	if be != "cdb" {
		c.Disk = stdDisk(0, 1, 3, 4)
		for i := range c.Threads {
			if c.Threads[i].Kind == "r" && c.Threads[i].Full && c.Threads[i].Path == 2 {
				c.Threads[i].Path = 1
			}
		}
	}
	return c
}

// key collisions of the formatted cache key: numbers of more than three digits are not delimited
func collisionHists() []rl.Case {
	mk := func(class string, a, b rl.ThreadSpec) rl.Case {
		return rl.Case{Kind: "hist", Class: class, Cfg: rl.Config{Backend: "cdb", Cache: true, LRU: 8}, Disk: stdDisk(0), P0: 0,
			Threads: []rl.ThreadSpec{a, b, a, b}}
	}
	a1 := q(1, "x.sub.example.com.", 1001, ipLoc1)
	a1.Qclass = 1
	b1 := q(2, "x.sub.example.com.", 100, ipLoc1)
	b1.Qclass = 1001
	a2 := q(1, "1x.sub.example.com.", 1, ipLoc1)
	a2.Qclass = 100
	b2 := q(2, "x.sub.example.com.", 1, ipLoc1)
	b2.Qclass = 1001
	a3 := q(1, "www.example.com.", 1, ipLoc1)
	b3 := q(2, "www.example.com.", 1, ipLoc1)
	b3.Qclass = 3
	a4 := q(1, "1www.example.com.", 1, ipLoc1)
	a4.Qclass = 100
	b4 := q(2, "www.example.com.", 1, ipLoc1)
	b4.Qclass = 1001
	return []rl.Case{mk("key-collision-type-class", a1, b1), mk("key-collision-class-name", a2, b2),
		mk("key-collision-other-name", a4, b4), mk("class-in-vs-chaos", a3, b3)}
}

// the same question alternating between clients whose location ids share one byte:
// \000\072 / \001\072 (second byte), \000\001 / \000\002 (first byte), \000\072 / \000\002 ...
func locationHists() []rl.Case {
	var res []rl.Case
	for _, v := range []qvar{{"geo.example.com.", 1}, {"example.com.", 15}} {
		var th []rl.ThreadSpec
		for _, ip := range []string{ipLoc3, ipLoc4, ipLoc3, ipLoc4, ipLoc1, ipLoc2, ipLoc4, ipLoc2, ipLoc3, ipLoc1} {
			th = append(th, q(1, v.name, v.qtype, ip))
		}
		// the same through ECS from one resolver address
		for _, ecs := range []string{"198.18.0.0/24", "203.0.113.0/24", "192.0.2.0/24", "198.18.0.0/24"} {
			t := q(2, v.name, v.qtype, ipLoc1)
			t.Edns, t.ECS = true, ecs
			th = append(th, t)
		}
		res = append(res, rl.Case{Kind: "hist", Class: "location-bytes", Cfg: rl.Config{Backend: "cdb", Cache: true, LRU: 16}, Disk: stdDisk(0), P0: 0, Threads: th})
	}
	return res
}

// unsupported EDNS versions on a cold and on a warm cache, with and without ECS
func badversHist() rl.Case {
	var th []rl.ThreadSpec
	ver := func(t rl.ThreadSpec, v int, ecs string) rl.ThreadSpec {
		t.Edns, t.EVer, t.ECS = true, v, ecs
		return t
	}
	for _, base := range []rl.ThreadSpec{q(1, "www.example.com.", 1, ipLoc1), q(2, "geo.example.com.", 1, ipLoc2), q(1, "nx.example.com.", 1, ipLoc1)} {
		th = append(th, ver(base, 1, ""))             // cold
		th = append(th, base)                         // fills the cache (no EDNS)
		th = append(th, ver(base, 0, ""))             // hit, version 0
		th = append(th, ver(base, 1, ""))             // warm, version 1
		th = append(th, ver(base, 2, "192.0.2.0/24")) // warm, version 2 with ECS
		th = append(th, ver(base, 0, "192.0.2.0/24")) // version 0 with ECS again
	}
	return rl.Case{Kind: "hist", Class: "badvers-warm", Cfg: rl.Config{Backend: "cdb", Cache: true, LRU: 16}, Disk: stdDisk(0), P0: 0, Threads: th}
}

// NS / MX sets in which only one target (first, last, middle) needs a weighted draw for its
// address: asked three times each; no such response may come out of the cache (WRSTimeout 0)
func weightedTargetHist() rl.Case {
	var th []rl.ThreadSpec
	for _, v := range []qvar{{"d1.example.com.", 2}, {"d2.example.com.", 2}, {"d3.example.com.", 2},
		{"m1.example.com.", 15}, {"m2.example.com.", 15}, {"m3.example.com.", 15}} {
		for i := 0; i < 3; i++ {
			th = append(th, q(1+i, v.name, v.qtype, ipLoc1))
		}
	}
	th = append(th, q(1, "www.example.com.", 1, ipLoc1), q(1, "www.example.com.", 1, ipLoc1))
	return rl.Case{Kind: "hist", Class: "weighted-target", Cfg: rl.Config{Backend: "cdb", Cache: true, LRU: 32}, Disk: stdDisk(0), P0: 0, Threads: th}
}

func expiryHist() rl.Case {
	// weighted answers cached for one second: hit, then expired after the wait
	w := q(1, "wrr.example.com.", 1, ipLoc1)
	late := w
	late.Sleep = 2200
	return rl.Case{Kind: "hist", Class: "wrs-expiry", Cfg: rl.Config{Backend: "cdb", Cache: true, LRU: 8, WRSTimeout: 1}, Disk: stdDisk(0), P0: 0,
		Threads: []rl.ThreadSpec{w, w, q(1, "www.example.com.", 1, ipLoc1), late, w, q(1, "www.example.com.", 1, ipLoc1)}}
}

func generate(a *hlib.Args) []rl.Case {
	var cases []rl.Case
	thorough := a.Tier == "thorough"
	r := hlib.NewRng(a.Seed, 12)
	for _, be := range []string{"cdb", "rdb2"} {
		cases = append(cases, shapeF6(be), shapeInsertBeforePurge(be), shapeHitThenReload(be))
	}
	cases = append(cases, collisionHists()...)
	cases = append(cases, expiryHist(), badversHist(), weightedTargetHist())
	cases = append(cases, locationHists()...)
	n := a.N
	for i := 0; i < n; i++ {
		cases = append(cases, randomHist(r, "cdb", 8+r.Intn(22)))
	}
	for i := 0; i < n/3; i++ {
		cases = append(cases, randomSched(r, "cdb", 2+r.Intn(2)))
	}
	nr := 2
	if thorough {
		nr = 30
		cases = append(cases, shapeF6("rdb1"))
	}
	for i := 0; i < nr; i++ {
		cases = append(cases, randomHist(r, "rdb2", 12+r.Intn(12)))
		if thorough {
			cases = append(cases, randomSched(r, "rdb2", 2))
		}
	}
	return cases
}

func runAll(a *hlib.Args, e *hlib.Emitter, cases []rl.Case) error {
	scratch := a.Scratch
	if scratch == "" {
		d, err := os.MkdirTemp("/var/tmp", "c12-")
		if err != nil {
			return err
		}
		defer os.RemoveAll(d)
		scratch = d
	}
	base := filepath.Join(scratch, "c12run")
	os.RemoveAll(base)
	if err := os.MkdirAll(base, 0o755); err != nil {
		return err
	}
	defer os.RemoveAll(base)
	os.Setenv("TMPDIR", base)
	rl.QuietLogs()
	pool := &rl.Pool{Dir: filepath.Join(base, "tpl")}
	seen := map[string]bool{}
	for _, c := range cases {
		if c.Cfg.Backend == "cdb" {
			continue
		}
		for _, d := range c.Disk {
			k := fmt.Sprintf("%s/%d/%v", c.Cfg.Backend, d.File.Stamp, d.File.Key)
			if d.File.OK && !seen[k] {
				seen[k] = true
				go pool.Template(c.Cfg.Backend, d.File)
			}
		}
	}
	out := make([]rl.Case, len(cases))
	idx := make(chan int, len(cases))
	for i := range cases {
		idx <- i
	}
	close(idx)
	var wg sync.WaitGroup
	for wkr := 0; wkr < 8; wkr++ {
		wg.Add(1)
		go func(wkr int) {
			defer wg.Done()
			for i := range idx {
				c := cases[i]
				c.Derive()
				dir := filepath.Join(base, fmt.Sprintf("w%d-%d", wkr, i))
				if c.Kind == "hist" {
					var e1, e0 string
					c.Hist1, e1 = rl.RunHist(pool, dir+"a", &c, true)
					c.Hist0, e0 = rl.RunHist(pool, dir+"b", &c, false)
					c.Err = e1 + e0
				} else {
					c.Steps, c.Resps, c.RelErr, c.Err = rl.RunSched(pool, dir, &c, nil)
				}
				out[i] = c
			}
		}(wkr)
	}
	wg.Wait()
	for _, c := range out {
		e.Emit(c)
	}
	return nil
}

func main() {
	hlib.Main(func(a *hlib.Args, e *hlib.Emitter) error {
		t0 := time.Now()
		var cases []rl.Case
		if a.Replay != "" {
			raw, err := hlib.ReadReplay(a.Replay)
			if err != nil {
				return err
			}
			for _, m := range raw {
				b, _ := json.Marshal(m)
				var c rl.Case
				if err := json.Unmarshal(b, &c); err != nil {
					return err
				}
				c.Steps, c.Resps, c.RelErr, c.Err, c.Hist0, c.Hist1 = nil, nil, nil, "", nil, nil
				cases = append(cases, c)
			}
		} else {
			cases = generate(a)
		}
		err := runAll(a, e, cases)
		fmt.Fprintf(rl.Stderr, "c12: %d cases in %v\n", len(cases), time.Since(t0))
		return err
	})
}
