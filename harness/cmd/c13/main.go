// C13 harness: arbitrary wire-valid query messages (every opcode, class, EDNS version,
// option list, client-subnet contents) against root-zone, root-delegation, empty and
// generated databases on the three backends; panics are recovered and recorded.
package main

import (
	"verifharness/corelib"
	"verifharness/hlib"
)

func main() {
	hlib.Main(func(a *hlib.Args, e *hlib.Emitter) error { return corelib.RunWire(a, e, 60000) })
}
