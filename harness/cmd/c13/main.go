// C13 harness: arbitrary wire-valid query messages (every opcode, class, EDNS version,
// option list, client-subnet contents) against root-zone, root-delegation, empty and
// generated databases on the three backends; panics are recovered and recorded.  A further
// class runs handlers with the response cache enabled on short query histories (the same
// question without OPT / with EDNS version 0, then with versions 1, 2, 255, and the reverse;
// unknown options, other opcodes and classes on a warm cache).
package main

import (
	"verifharness/corelib"
	"verifharness/hlib"
)

func main() {
	hlib.Main(func(a *hlib.Args, e *hlib.Emitter) error { return corelib.RunWire(a, e, 60000) })
}
