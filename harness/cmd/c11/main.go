package main

import (
	"fmt"
	"math"

	"github.com/facebookincubator/dns/dnsrocks/db"
	"github.com/miekg/dns"
)

type script struct{ q []uint32 }

func (s *script) Int63() int64 {
	u := s.q[0]
	s.q = s.q[1:]
	return int64(u) << 31
}
func (s *script) Uint64() uint64 { return uint64(s.Int63()) }
func (s *script) Seed(int64)     {}

var zero32 uint32

func main() {
	x := float64(uint32(4294967295)) * float64(1.0/math.MaxUint32)
	fmt.Printf("x=%.20g x==1:%v bits=%x inv=%x\n", x, x == 1.0, math.Float64bits(x), math.Float64bits(float64(1.0/math.MaxUint32)))
	fmt.Println(math.Pow(x, math.Inf(1)), math.Pow(x, 1.0/float64(zero32)))
	y := float64(uint32(4294967294)) * float64(1.0/math.MaxUint32)
	fmt.Printf("y=%.20g pow=%v\n", y, math.Pow(y, math.Inf(1)))
	for _, tc := range []struct {
		u []uint32
		w []uint32
		max int
	}{
		{[]uint32{4294967295, 4294967294}, []uint32{0, 1}, 1},
		{[]uint32{4294967295}, []uint32{0}, 1},
		{[]uint32{4294967295}, []uint32{0}, 3},
		{[]uint32{0}, []uint32{1}, 1},
		{[]uint32{0, 5}, []uint32{7, 0}, 2},
		{[]uint32{4294967295, 4294967295}, []uint32{1, 4294967295}, 2},
	} {
		db.SetRandSourceForVerif(&script{q: append(append([]uint32{}, tc.u...), 1, 2, 3, 4, 5, 6)})
		w := db.Wrs{MaxAnswers: tc.max}
		for i := range tc.u {
			row := []byte{0, 1, '=', 0, 0, 0, 5, 0, 0, 0, 0, 0, 0, 0, 0, 0, 0, 0, 0, 10, 0, 0, byte(i + 1)}
			row[15] = byte(tc.w[i] >> 24)
			row[16] = byte(tc.w[i] >> 16)
			row[17] = byte(tc.w[i] >> 8)
			row[18] = byte(tc.w[i])
			rr, err := db.ExtractRRFromRow(row, false)
			if err != nil {
				panic(err)
			}
			if err := w.Add(rr, row); err != nil {
				panic(err)
			}
		}
		fmt.Printf("u=%v w=%v max=%d V4=%v count=%d\n", tc.u, tc.w, tc.max, w.V4, w.V4Count)
		rrs, err := w.ARecord("x.", dns.ClassINET)
		fmt.Println("  served:", rrs, err)
	}
}
