// C11 harness: weighted random sample of address records (db.Wrs).
//
//	unit  scripted draws (db.SetRandSourceForVerif), sequences of Wrs.Add on
//	      generated candidate lists; V4/V6 and the counters after every Add, the
//	      output of ARecord/AAAARecord at the end
//	e2e   a generated data set compiled with the real compilers (cdb, rocksdb
//	      v1 and v2 keys), served in process by dnsserver.FBDNSDB; A/AAAA/ANY/
//	      MX/NS queries and a referral with max answer 1..8
//	chi   counts of served addresses over many draws of the real generator
//	      (single goroutine, concurrent goroutines on the shared locked
//	      generator, and through the handler): support only
package main

import (
	"context"
	"encoding/json"
	"flag"
	"fmt"
	"math"
	"math/rand"
	"net"
	"os"
	"path/filepath"
	"runtime"
	"sort"
	"strings"
	"sync"
	"time"

	"github.com/coredns/coredns/plugin/pkg/dnstest"
	"github.com/facebookincubator/dns/dnsrocks/dnsserver/test"
	"github.com/miekg/dns"

	"github.com/facebookincubator/dns/dnsrocks/db"
	"github.com/facebookincubator/dns/dnsrocks/dnsdata/cdb"
	"github.com/facebookincubator/dns/dnsrocks/dnsdata/rdb"
	"github.com/facebookincubator/dns/dnsrocks/dnsserver"
	"github.com/facebookincubator/dns/dnsrocks/dnsserver/stats"

	"verifharness/hlib"
)

const maxU32 = math.MaxUint32

type candJ struct {
	Q    int    `json:"q"`
	U    uint32 `json:"u"`
	W    uint32 `json:"w"`
	Rank int    `json:"rank"`
	Zero bool   `json:"zero"`
}

type stepJ struct {
	Err bool     `json:"err"`
	V4  [][2]int `json:"v4"` // (rank, id)
	C4  uint32   `json:"c4"`
	V6  [][2]int `json:"v6"`
	C6  uint32   `json:"c6"`
}

type groupJ struct {
	Name  string      `json:"name"`
	Max   int         `json:"max"`
	Want4 bool        `json:"want4"`
	Want6 bool        `json:"want6"`
	Cands [][3]uint64 `json:"cands"` // (family 1|28, weight, id)
	Got4  []int       `json:"got4"`
	Got6  []int       `json:"got6"`
}

type targetJ struct {
	Name  int         `json:"name"`
	Cands [][3]uint64 `json:"cands"`
}

type caseJ struct {
	Kind  string `json:"kind"`
	Class string `json:"class"`
	Max   int    `json:"max"`
	// unit
	Cands     []candJ `json:"cands,omitempty"`
	Steps     []stepJ `json:"steps,omitempty"`
	Out4      []int   `json:"out4"`
	Out6      []int   `json:"out6"`
	Weighted  bool    `json:"weighted"`
	KeysAgree bool    `json:"keys_agree"`
	Note      string  `json:"note,omitempty"`
	// e2e
	Driver string   `json:"driver,omitempty"`
	QName  string   `json:"qname,omitempty"`
	QType  int      `json:"qtype,omitempty"`
	Mode   string   `json:"mode,omitempty"` // addr | addl
	Client string   `json:"client,omitempty"`
	DSeed  uint64   `json:"dseed,omitempty"`
	Groups []groupJ `json:"groups,omitempty"`
	Rcode  int      `json:"rcode"`
	// e2e additional section
	Msg     [][2]int  `json:"msg,omitempty"`     // (owner id, type) of answer ++ authority
	Targets []targetJ `json:"targets,omitempty"` // NS/MX targets in processing order
	Extra   [][3]int  `json:"extra,omitempty"`   // additional: (owner id, type, record id)
	MsgIDs  []int     `json:"msgids,omitempty"`  // every record of the message; equal records get equal numbers
	TC      bool      `json:"tc,omitempty"`
	// chi
	ChiW       []uint32               `json:"chi_w,omitempty"`
	ChiObs     []int                  `json:"chi_obs,omitempty"`
	ChiN       int                    `json:"chi_n,omitempty"`
	ChiSeed    uint64                 `json:"chi_seed,omitempty"`
	ChiWorkers int                    `json:"chi_workers,omitempty"`
	ChiVia     string                 `json:"chi_via,omitempty"`
	Support    map[string]interface{} `json:"support,omitempty"`
	// conc
	Panics    int      `json:"panics,omitempty"`
	Dups      int      `json:"dups,omitempty"`
	ConcVia   string   `json:"conc_via,omitempty"` // wrs | handler | gen
	ConcG     int      `json:"conc_g,omitempty"`   // goroutines
	ConcN     int      `json:"conc_n,omitempty"`   // selections / draws per goroutine
	ConcW     []uint32 `json:"conc_w,omitempty"`   // wrs: weights of the candidates
	OutCounts []int    `json:"out_counts,omitempty"`
	Procs     int      `json:"gomaxprocs,omitempty"`
	Restored  bool     `json:"restored_source,omitempty"`
}

// ---------------------------------------------------------------- scripted source

// scriptSrc hands out the scripted Uint32 values (rand.Rand.Uint32 is
// uint32(Int63() >> 31)); when the script is exhausted (Shuffle in record())
// it continues with the harness PRNG.
type scriptSrc struct {
	q        []uint32
	fb       *hlib.Rng
	fallback int
}

func (s *scriptSrc) Int63() int64 {
	var u uint32
	if len(s.q) > 0 {
		u = s.q[0]
		s.q = s.q[1:]
	} else {
		s.fallback++
		u = uint32(s.fb.U64() >> 32)
	}
	return int64(u) << 31
}
func (s *scriptSrc) Uint64() uint64 { return uint64(s.Int63()) << 1 }
func (s *scriptSrc) Seed(int64)     {}

// ---------------------------------------------------------------- unit level

func isAddr(q int) bool { return q == int(dns.TypeA) || q == int(dns.TypeAAAA) }

// the key exactly as db/wrs.go computes it
func goKey(u, w uint32) float64 {
	return math.Pow(float64(u)*float64(1.0/math.MaxUint32), 1.0/float64(w))
}

func mkRow(q int, w uint32, id int) []byte {
	row := []byte{byte(q >> 8), byte(q), '='}
	ttl := uint32(100 + id)
	row = append(row, byte(ttl>>24), byte(ttl>>16), byte(ttl>>8), byte(ttl))
	row = append(row, 0, 0, 0, 0, 0, 0, 0, 0)
	switch q {
	case int(dns.TypeA):
		row = append(row, byte(w>>24), byte(w>>16), byte(w>>8), byte(w))
		row = append(row, 10, byte(id>>16), byte(id>>8), byte(id))
	case int(dns.TypeAAAA):
		row = append(row, byte(w>>24), byte(w>>16), byte(w>>8), byte(w))
		row = append(row, 0xfd, 0, 0, 0, 0, 0, 0, 0, 0, 0, 0, 0, 0, byte(id>>16), byte(id>>8), byte(id))
	default:
		row = append(row, 1, 'x')
	}
	return row
}

func idOfAddr(ip net.IP) int {
	if v4 := ip.To4(); v4 != nil && len(ip) == 4 {
		return int(v4[1])<<16 | int(v4[2])<<8 | int(v4[3])
	}
	if len(ip) == 16 {
		return int(ip[13])<<16 | int(ip[14])<<8 | int(ip[15])
	}
	return 999999
}

func runUnit(rng *hlib.Rng, max int, in []candJ, class string) caseJ {
	c := caseJ{Kind: "unit", Class: class, Max: max, KeysAgree: true, Out4: []int{}, Out6: []int{}}
	n := len(in)
	keys := make([]float64, n)
	var script []uint32
	var pos []float64
	for i, x := range in {
		if isAddr(x.Q) {
			keys[i] = goKey(x.U, x.W)
			script = append(script, x.U)
			if keys[i] > 0 {
				pos = append(pos, keys[i])
			}
		}
	}
	sort.Float64s(pos)
	rankOf := func(k float64) int {
		if !(k > 0) {
			if k == 0 {
				return 0
			}
			return 999999 // NaN or negative: never expected
		}
		r := 0
		prev := math.NaN()
		for _, p := range pos {
			if p != prev {
				r++
				prev = p
			}
			if p == k {
				return r
			}
		}
		return 999999
	}
	c.Cands = make([]candJ, n)
	for i, x := range in {
		c.Cands[i] = candJ{Q: x.Q, U: x.U, W: x.W, Zero: true}
		if isAddr(x.Q) {
			c.Cands[i].Rank = rankOf(keys[i])
			c.Cands[i].Zero = keys[i] == 0
		}
	}
	src := &scriptSrc{q: script, fb: rng}
	sourceTouched = true
	db.SetRandSourceForVerif(src)
	w := db.Wrs{MaxAnswers: max}
	snap := func(items []db.WrsItem) [][2]int {
		res := [][2]int{}
		for _, it := range items {
			id := idOfAddr(it.Addr)
			if id < 0 || id >= n || it.Key != keys[id] || it.TTL != uint32(100+id) {
				c.KeysAgree = false
			}
			res = append(res, [2]int{rankOf(it.Key), id})
		}
		return res
	}
	for i, x := range in {
		row := mkRow(x.Q, x.W, i)
		rr, err := db.ExtractRRFromRow(append([]byte{}, row...), false)
		if err != nil {
			c.Note = "ExtractRRFromRow: " + err.Error()
			c.KeysAgree = false
		}
		err = w.Add(rr, append([]byte{}, row...))
		c.Steps = append(c.Steps, stepJ{Err: err != nil, V4: snap(w.V4), C4: w.V4Count, V6: snap(w.V6), C6: w.V6Count})
	}
	if len(src.q) != 0 || src.fallback != 0 {
		// every Add of an address record must consume exactly one draw
		c.Note = fmt.Sprintf("draws: %d scripted left, %d extra", len(src.q), src.fallback)
		c.KeysAgree = false
	}
	c.Weighted = w.WeightedAnswer()
	if rrs, err := w.ARecord("x.example.", dns.ClassINET); err == nil {
		for _, r := range rrs {
			if a, ok := r.(*dns.A); ok && a.Hdr.Ttl == uint32(100+idOfAddr(a.A.To4())) {
				c.Out4 = append(c.Out4, idOfAddr(a.A.To4()))
			} else {
				c.Out4 = append(c.Out4, 999999)
			}
		}
	} else {
		c.Note = "ARecord: " + err.Error()
		c.Out4 = append(c.Out4, 999998)
	}
	if rrs, err := w.AAAARecord("x.example.", dns.ClassINET); err == nil {
		for _, r := range rrs {
			if a, ok := r.(*dns.AAAA); ok && a.Hdr.Ttl == uint32(100+idOfAddr(a.AAAA)) {
				c.Out6 = append(c.Out6, idOfAddr(a.AAAA))
			} else {
				c.Out6 = append(c.Out6, 999999)
			}
		}
	} else {
		c.Note = "AAAARecord: " + err.Error()
		c.Out6 = append(c.Out6, 999998)
	}
	return c
}

var weightPool = []uint32{0, 1, 1, 2, 3, 5, 8, 100, 65535, maxU32}

func genUnit(r *hlib.Rng) (int, []candJ, string) {
	n := r.Intn(13)
	max := 1 + r.Intn(8)
	class := "random"
	mode := r.Pick([]int{5, 2, 2, 2, 1, 1})
	switch mode {
	case 1:
		class = "equalweights"
	case 2:
		class = "dupdraws"
	case 3:
		class = "max1"
		max = 1
	case 4:
		class = "smallweights" // exact rational order is evaluated for every pair
	case 5:
		class = "max0"
		max = -r.Intn(2)
	}
	eqw := weightPool[r.Intn(len(weightPool))]
	dups := []uint32{1 + uint32(r.U64()%(maxU32-1)), 1 + uint32(r.U64()%(maxU32-1)), 1 + uint32(r.U64()%(maxU32-1))}
	in := make([]candJ, n)
	for i := range in {
		q := int(dns.TypeA)
		switch r.Pick([]int{12, 7, 1}) {
		case 1:
			q = int(dns.TypeAAAA)
		case 2:
			q = []int{int(dns.TypeTXT), int(dns.TypeCNAME), int(dns.TypeNS), 0, 65535}[r.Intn(5)]
		}
		w := weightPool[r.Intn(len(weightPool))]
		u := 1 + uint32(r.U64()%(maxU32-1)) // 1 .. 2^32-2: outside the F18 corners
		switch mode {
		case 1:
			w = eqw
		case 2:
			u = dups[r.Intn(3)]
			if r.Chance(1, 2) {
				w = eqw
			}
		case 4:
			w = uint32(r.Intn(9))
		}
		if r.Chance(1, 12) {
			u = []uint32{1, 2, maxU32 - 1, maxU32 - 2, 1 << 31, 1<<31 - 1}[r.Intn(6)]
		}
		in[i] = candJ{Q: q, U: u, W: w}
	}
	return max, in, class
}

// F18 corner draws: 0 and 2^32-1
func genCorner(r *hlib.Rng) (int, []candJ, string) {
	n := 1 + r.Intn(5)
	max := 1 + r.Intn(3)
	in := make([]candJ, n)
	for i := range in {
		q := int(dns.TypeA)
		if r.Chance(1, 4) {
			q = int(dns.TypeAAAA)
		}
		in[i] = candJ{Q: q, U: []uint32{0, maxU32, maxU32 - 1, 1, uint32(r.U64())}[r.Intn(5)], W: []uint32{0, 0, 1, 2, maxU32}[r.Intn(5)]}
	}
	return max, in, "corner"
}

func emitUnits(a *hlib.Args, e *hlib.Emitter, r *hlib.Rng) {
	// fixed witnesses of F18 first
	e.Emit(runUnit(r, 1, []candJ{{Q: 1, U: maxU32, W: 0}, {Q: 1, U: maxU32 - 1, W: 1}}, "corner"))
	e.Emit(runUnit(r, 1, []candJ{{Q: 1, U: 0, W: 1}}, "corner"))
	e.Emit(runUnit(r, 3, []candJ{{Q: 1, U: 0, W: 7}, {Q: 1, U: 5, W: 0}, {Q: 28, U: maxU32, W: 0}}, "corner"))
	// exact keys closer than float64 resolution (relative 2.7e-20 / 5e-20): the
	// float64 keys are equal, the earlier record wins; no order claim is made
	for _, m := range []int{1, 2} {
		e.Emit(runUnit(r, m, []candJ{{Q: 1, U: maxU32 - 1, W: 1}, {Q: 1, U: maxU32 - 2, W: 2}, {Q: 1, U: 7, W: 1}}, "nearkeys"))
		e.Emit(runUnit(r, m, []candJ{{Q: 1, U: maxU32 - 2, W: 8}, {Q: 1, U: maxU32 - 1, W: 4}, {Q: 1, U: maxU32 - 1, W: maxU32}, {Q: 1, U: maxU32 - 2, W: maxU32}}, "nearkeys"))
	}
	// exhaustive small part: all sequences of length <= 3 (quick: over 6 symbols)
	// / <= 4 (thorough: over 9 symbols) of A candidates (draw, weight), max 1 and 2
	type sym struct{ u, w uint32 }
	syms := []sym{{1, 1}, {1 << 31, 1}, {maxU32 - 1, 1}, {1 << 31, 0}, {1 << 31, 3}, {1, 3}}
	maxLen := 3
	if a.Tier == "thorough" {
		maxLen = 4
		syms = append(syms, sym{maxU32 - 1, 3}, sym{1, 0}, sym{maxU32 - 1, 0})
	}
	var rec func(prefix []candJ)
	rec = func(prefix []candJ) {
		for _, m := range []int{1, 2} {
			e.Emit(runUnit(r, m, prefix, "exh"))
		}
		if len(prefix) == maxLen {
			return
		}
		for _, x := range syms {
			rec(append(append([]candJ{}, prefix...), candJ{Q: 1, U: x.u, W: x.w}))
		}
	}
	rec(nil)
	for i := 0; i < a.N; i++ {
		if i%25 == 24 {
			m, in, cl := genCorner(r)
			e.Emit(runUnit(r, m, in, cl))
			continue
		}
		m, in, cl := genUnit(r)
		e.Emit(runUnit(r, m, in, cl))
	}
}

// ---------------------------------------------------------------- end to end

type drec struct {
	fam    int // 1 | 28
	ip     string
	ttl    uint32
	loc    int // 0 untagged, 1 default, 2, 3
	weight uint32
	id     int
}

type dataset struct {
	text    string
	names   map[string][]drec // fqdn (with trailing dot) -> declared address records
	qnames  []string          // address-query names
	mx      []string
	ns      []string
	subns   []string
	dir     string
	handler map[string]*dnsserver.FBDNSDB
}

var clients = []struct {
	ip  string
	loc int
}{{"10.1.0.1", 2}, {"10.2.0.1", 3}, {"9.9.9.9", 1}, {"fd00::99", 1}}

func locStr(l int) string {
	if l == 0 {
		return ""
	}
	return fmt.Sprintf("\\000\\%03o", l)
}

func genData(seed uint64, tier string) *dataset {
	r := hlib.NewRng(seed, 1111)
	d := &dataset{names: map[string][]drec{}, handler: map[string]*dnsserver.FBDNSDB{}}
	var b strings.Builder
	b.WriteString("%\\000\\002,10.1.0.0/16,c\\000\n%\\000\\003,10.2.0.0/16,c\\000\n%\\000\\001,0.0.0.0/0,c\\000\n%\\000\\001,::/0,c\\000\n")
	b.WriteString("Zexample.com,a.ns.example.com,dns.example.com,123,7200,1800,604800,120,120,,\n")
	seq := 0
	add := func(name string, fam int, loc int, weight uint32) {
		seq++
		ip := fmt.Sprintf("192.0.%d.%d", seq/250, 1+seq%250)
		if fam == 28 {
			ip = fmt.Sprintf("2001:db8::%x", seq)
		}
		fq := name + "."
		rec := drec{fam: fam, ip: net.ParseIP(ip).String(), ttl: uint32(1000 + seq), loc: loc, weight: weight, id: seq}
		d.names[fq] = append(d.names[fq], rec)
		fmt.Fprintf(&b, "+%s,%s,%d,,%s,%d\n", name, ip, rec.ttl, locStr(loc), weight)
	}
	addDup := func(name string, like drec, loc int, weight uint32) {
		seq++
		fq := name + "."
		rec := drec{fam: like.fam, ip: like.ip, ttl: uint32(1000 + seq), loc: loc, weight: weight, id: seq}
		d.names[fq] = append(d.names[fq], rec)
		fmt.Fprintf(&b, "+%s,%s,%d,,%s,%d\n", name, like.ip, rec.ttl, locStr(loc), weight)
	}
	decl := func(name string) {
		fmt.Fprintf(&b, "M%s,c\\000\n", name)
		if _, ok := d.names[name+"."]; !ok {
			d.names[name+"."] = nil
		}
	}
	// hand-made shapes
	decl("wrr.example.com")
	for _, w := range []uint32{1, 2, 3, 4} {
		add("wrr.example.com", 1, 0, w)
		add("wrr.example.com", 28, 0, w)
	}
	decl("zero.example.com")
	for i := 0; i < 3; i++ {
		add("zero.example.com", 1, 0, 0)
		add("zero.example.com", 28, 0, 0)
	}
	decl("mixz.example.com")
	for _, w := range []uint32{0, 0, 5, 1} {
		add("mixz.example.com", 1, 0, w)
	}
	add("mixz.example.com", 28, 0, 0)
	add("mixz.example.com", 28, 0, 9)
	decl("one.example.com")
	add("one.example.com", 1, 0, 1)
	decl("big.example.com")
	for _, w := range []uint32{1, maxU32, 2, 65535, 1, 0, 100, 3, 7, 1, 50, 0} {
		add("big.example.com", 1, 0, w)
	}
	for _, w := range []uint32{maxU32, maxU32, 1, 0, 4, 4, 4, 4, 4, 4} {
		add("big.example.com", 28, 0, w)
	}
	decl("loc.example.com")
	for _, x := range [][2]int{{2, 1}, {2, 5}, {2, 0}, {3, 1}, {3, 2}, {0, 1}, {0, 3}, {1, 4}} {
		add("loc.example.com", 1, x[0], uint32(x[1]))
		add("loc.example.com", 28, x[0], uint32(x[1]))
	}
	decl("dupaddr.example.com")
	add("dupaddr.example.com", 1, 0, 3)
	first := d.names["dupaddr.example.com."][0]
	addDup("dupaddr.example.com", first, 2, 5)
	addDup("dupaddr.example.com", first, 0, 0)
	add("dupaddr.example.com", 1, 3, 1)
	decl("only6.example.com")
	add("only6.example.com", 28, 0, 2)
	add("only6.example.com", 28, 0, 1)
	decl("loconly.example.com") // visible to location 2 only
	add("loconly.example.com", 1, 2, 1)
	add("loconly.example.com", 1, 2, 0)
	decl("nx.example.com")
	d.qnames = []string{"wrr", "zero", "mixz", "one", "big", "loc", "dupaddr", "only6", "loconly", "nx"}
	nrand := 6
	if tier == "thorough" {
		nrand = 40
	}
	for i := 0; i < nrand; i++ {
		name := fmt.Sprintf("r%d.example.com", i)
		decl(name)
		for _, fam := range []int{1, 28} {
			k := r.Intn(8)
			for j := 0; j < k; j++ {
				loc := 0
				if r.Chance(1, 2) {
					loc = 1 + r.Intn(3)
				}
				add(name, fam, loc, weightPool[r.Intn(len(weightPool))])
			}
		}
		d.qnames = append(d.qnames, fmt.Sprintf("r%d", i))
	}
	// NS of the zone, MX, a delegation: targets with weighted address sets
	decl("example.com")
	for _, ns := range []string{"a.ns.example.com", "b.ns.example.com"} {
		fmt.Fprintf(&b, "&example.com,,%s,172800,,\n", ns)
		d.ns = append(d.ns, ns+".")
	}
	for _, w := range []uint32{1, 1, 0} {
		add("a.ns.example.com", 1, 0, w)
	}
	add("a.ns.example.com", 28, 0, 2)
	add("a.ns.example.com", 28, 2, 7)
	add("b.ns.example.com", 1, 0, 0) // only weight 0 in the A family
	add("b.ns.example.com", 28, 0, 1)
	add("b.ns.example.com", 28, 0, 1)
	add("b.ns.example.com", 28, 0, 1)
	for i, mx := range []string{"mx1.example.com", "mx2.example.com", "mx3.example.com"} {
		fmt.Fprintf(&b, "@example.com,,%s,%d,300\n", mx, 10*(i+1))
		d.mx = append(d.mx, mx+".")
	}
	for _, w := range []uint32{5, 1, 0, maxU32} {
		add("mx1.example.com", 1, 0, w)
		add("mx1.example.com", 28, 0, w)
	}
	add("mx2.example.com", 1, 0, 0)
	add("mx2.example.com", 1, 0, 0)
	add("mx3.example.com", 1, 2, 1)
	add("mx3.example.com", 1, 3, 1)
	add("mx3.example.com", 1, 3, 1)
	add("mx3.example.com", 28, 1, 1)
	// several MX records naming the same host: v4-only, v6-only, dual stack
	add("v4only.example.com", 1, 0, 1)
	add("v6only.example.com", 28, 0, 1)
	add("dual.example.com", 1, 0, 2)
	add("dual.example.com", 1, 0, 1)
	add("dual.example.com", 28, 0, 1)
	add("w4only.example.com", 1, 0, 3) // v4-only with several weighted candidates
	add("w4only.example.com", 1, 0, 1)
	add("w4only.example.com", 1, 0, 0)
	decl("mma.example.com")
	delete(d.names, "mma.example.com.")
	decl("mmb.example.com")
	delete(d.names, "mmb.example.com.")
	dist := 0
	mxs := func(owner, target string, n int) {
		for i := 0; i < n; i++ {
			dist += 5
			fmt.Fprintf(&b, "@%s,,%s,%d,300\n", owner, target, dist)
		}
	}
	mxs("mma.example.com", "v4only.example.com", 2)
	mxs("mma.example.com", "v6only.example.com", 3)
	mxs("mma.example.com", "dual.example.com", 2)
	mxs("mmb.example.com", "v4only.example.com", 3)
	mxs("mmb.example.com", "v6only.example.com", 2)
	mxs("mmb.example.com", "dual.example.com", 3)
	mxs("mmb.example.com", "w4only.example.com", 2)
	// a name that is its own MX target and has addresses in one family only
	decl("self.example.com")
	add("self.example.com", 1, 0, 1)
	add("self.example.com", 1, 0, 2)
	mxs("self.example.com", "self.example.com", 1)
	// delegations whose two NS records (different TTL) share one glue host
	decl("www.sub4.example.com")
	delete(d.names, "www.sub4.example.com.")
	decl("www.sub6.example.com")
	delete(d.names, "www.sub6.example.com.")
	b.WriteString("&sub4.example.com,,gl.sub4.example.com,3600,,\n&sub4.example.com,,gl.sub4.example.com,3601,,\n")
	b.WriteString("&sub6.example.com,,gl.sub6.example.com,3600,,\n&sub6.example.com,,gl.sub6.example.com,3601,,\n")
	add("gl.sub4.example.com", 1, 0, 1)
	add("gl.sub4.example.com", 1, 0, 4)
	add("gl.sub6.example.com", 28, 0, 1)
	decl("www.sub.example.com")
	delete(d.names, "www.sub.example.com.")
	for _, ns := range []string{"ns1.sub.example.com", "ns2.sub.example.com"} {
		fmt.Fprintf(&b, "&sub.example.com,,%s,3600,,\n", ns)
		d.subns = append(d.subns, ns+".")
	}
	for _, w := range []uint32{1, 2, 3, 0} {
		add("ns1.sub.example.com", 1, 0, w)
	}
	add("ns1.sub.example.com", 28, 0, 1)
	add("ns1.sub.example.com", 28, 3, 1)
	add("ns2.sub.example.com", 28, 0, 0)
	d.text = b.String()
	return d
}

func (d *dataset) build(scratch string, seed uint64) error {
	dir, err := os.MkdirTemp(scratch, fmt.Sprintf("c11db-%d-", seed))
	if err != nil {
		return err
	}
	d.dir = dir
	in := filepath.Join(dir, "data.in")
	if err := os.WriteFile(in, []byte(d.text), 0o644); err != nil {
		return err
	}
	t0 := time.Now()
	if _, err := cdb.CreateCDB(in, filepath.Join(dir, "data.cdb"), nil); err != nil {
		return fmt.Errorf("cdb: %w", err)
	}
	fmt.Fprintf(os.Stderr, "c11 build: cdb %.1fs\n", time.Since(t0).Seconds())
	for _, v2 := range []bool{false, true} {
		p := filepath.Join(dir, "rdb1")
		if v2 {
			p = filepath.Join(dir, "rdb2")
		}
		if err := os.MkdirAll(p, 0o755); err != nil {
			return err
		}
		if _, err := rdb.CompileToSpecificRDBVersion(in, p, rdb.CompilationOptions{UseV2KeySyntax: v2, UseBuilder: true}); err != nil {
			return fmt.Errorf("rdb v2=%v: %w", v2, err)
		}
		fmt.Fprintf(os.Stderr, "c11 build: rdb v2=%v at %.1fs\n", v2, time.Since(t0).Seconds())
	}
	for _, drv := range []struct{ name, driver, path string }{
		{"cdb", "cdb", filepath.Join(dir, "data.cdb")},
		{"rdb1", "rocksdb", filepath.Join(dir, "rdb1")},
		{"rdb2", "rocksdb", filepath.Join(dir, "rdb2")},
	} {
		h, err := dnsserver.NewFBDNSDBBasic(dnsserver.HandlerConfig{}, dnsserver.DBConfig{Path: drv.path, Driver: drv.driver},
			dnsserver.CacheConfig{}, &dnsserver.DummyLogger{}, &stats.DummyStats{})
		if err != nil {
			return err
		}
		if err := h.Load(); err != nil {
			return fmt.Errorf("load %s: %w", drv.name, err)
		}
		d.handler[drv.name] = h
		fmt.Fprintf(os.Stderr, "c11 build: loaded %s at %.1fs\n", drv.name, time.Since(t0).Seconds())
	}
	return nil
}

func (d *dataset) close() {
	for _, h := range d.handler {
		h.Close()
	}
	if d.dir != "" {
		os.RemoveAll(d.dir)
	}
}

func clientLoc(ip string) int {
	for _, c := range clients {
		if c.ip == ip {
			return c.loc
		}
	}
	return 1
}

func (d *dataset) visible(fq string, loc int) [][3]uint64 {
	res := [][3]uint64{}
	for _, r := range d.names[fq] {
		if r.loc == 0 || r.loc == loc {
			res = append(res, [3]uint64{uint64(r.fam), uint64(r.weight), uint64(r.id)})
		}
	}
	return res
}

func (d *dataset) idOf(fq string, loc int, fam int, ip net.IP, ttl uint32) int {
	for _, r := range d.names[fq] {
		if r.fam == fam && r.ttl == ttl && net.ParseIP(r.ip).Equal(ip) && (r.loc == 0 || r.loc == loc) {
			return r.id
		}
	}
	return 999999
}

func (d *dataset) query(driver, qname string, qtype int, mode, client string, max int, dseed uint64) caseJ {
	c := caseJ{Kind: "e2e", Class: mode + ":" + dns.TypeToString[uint16(qtype)], Max: max, Driver: driver, QName: qname, QType: qtype, Mode: mode,
		Client: client, DSeed: dseed, KeysAgree: true, Out4: []int{}, Out6: []int{}, Rcode: -1}
	h := d.handler[driver]
	req := new(dns.Msg)
	req.SetQuestion(qname, uint16(qtype))
	rec := dnstest.NewRecorder(&test.ResponseWriterCustomRemote{RemoteIP: client})
	ctx := context.Background()
	if max != 0 {
		ctx = dnsserver.WithMaxAnswer(ctx, max)
	} else {
		c.Max = dnsserver.DefaultMaxAnswer // no setting in the context: handler default
	}
	_, err := h.ServeDNSWithRCODE(ctx, rec, req)
	if err != nil || rec.Msg == nil {
		c.Note = fmt.Sprintf("no response: %v", err)
		return c
	}
	m := rec.Msg
	c.Rcode = m.Rcode
	loc := clientLoc(client)
	if mode == "addr" {
		g := groupJ{Name: qname, Max: c.Max, Want4: qtype == 1 || qtype == 255, Want6: qtype == 28 || qtype == 255,
			Cands: d.visible(qname, loc), Got4: []int{}, Got6: []int{}}
		for _, rr := range m.Answer {
			switch x := rr.(type) {
			case *dns.A:
				g.Got4 = append(g.Got4, d.idOf(qname, loc, 1, x.A, x.Hdr.Ttl))
			case *dns.AAAA:
				g.Got6 = append(g.Got6, d.idOf(qname, loc, 28, x.AAAA, x.Hdr.Ttl))
			default:
				g.Got4 = append(g.Got4, 999997)
			}
			if rr.Header().Name != qname {
				g.Got4 = append(g.Got4, 999996)
			}
		}
		c.Groups = []groupJ{g}
		return c
	}
	// additional section: the NS/MX records of the answer, then of the authority
	// section, in the order AdditionalSectionForRecords walks them
	c.TC = m.Truncated
	nameID := map[string]int{}
	nid := func(n string) int {
		if v, ok := nameID[n]; ok {
			return v
		}
		nameID[n] = len(nameID) + 1
		return nameID[n]
	}
	recID := map[string]int{}
	has := map[[2]string]bool{} // (owner, family) present in answer / authority
	var targets []string
	for _, sec := range [][]dns.RR{m.Answer, m.Ns} {
		for _, rr := range sec {
			c.Msg = append(c.Msg, [2]int{nid(rr.Header().Name), int(rr.Header().Rrtype)})
			switch x := rr.(type) {
			case *dns.NS:
				targets = append(targets, x.Ns)
			case *dns.MX:
				targets = append(targets, x.Mx)
			case *dns.A:
				has[[2]string{x.Hdr.Name, "4"}] = true
			case *dns.AAAA:
				has[[2]string{x.Hdr.Name, "6"}] = true
			}
		}
	}
	for _, sec := range [][]dns.RR{m.Answer, m.Ns, m.Extra} {
		for _, rr := range sec {
			k := rr.String()
			if _, ok := recID[k]; !ok {
				recID[k] = len(recID) + 1
			}
			c.MsgIDs = append(c.MsgIDs, recID[k])
		}
	}
	idx := map[string]int{}
	for _, t := range targets {
		c.Targets = append(c.Targets, targetJ{Name: nid(t), Cands: d.visible(t, loc)})
		if _, dup := idx[t]; dup {
			continue
		}
		idx[t] = len(c.Groups)
		c.Groups = append(c.Groups, groupJ{Name: t, Max: 1, Want4: !has[[2]string{t, "4"}], Want6: !has[[2]string{t, "6"}],
			Cands: d.visible(t, loc), Got4: []int{}, Got6: []int{}})
	}
	for _, rr := range m.Extra {
		name := rr.Header().Name
		gi, ok := idx[name]
		if !ok {
			// an additional record for a name that is no target
			c.Extra = append(c.Extra, [3]int{nid(name), int(rr.Header().Rrtype), 999995})
			c.Groups = append(c.Groups, groupJ{Name: name, Max: 1, Want4: true, Want6: true, Cands: [][3]uint64{}, Got4: []int{999995}, Got6: []int{}})
			continue
		}
		switch x := rr.(type) {
		case *dns.A:
			id := d.idOf(name, loc, 1, x.A, x.Hdr.Ttl)
			c.Groups[gi].Got4 = append(c.Groups[gi].Got4, id)
			c.Extra = append(c.Extra, [3]int{nid(name), 1, id})
		case *dns.AAAA:
			id := d.idOf(name, loc, 28, x.AAAA, x.Hdr.Ttl)
			c.Groups[gi].Got6 = append(c.Groups[gi].Got6, id)
			c.Extra = append(c.Extra, [3]int{nid(name), 28, id})
		default:
			c.Groups[gi].Got4 = append(c.Groups[gi].Got4, 999997)
			c.Extra = append(c.Extra, [3]int{nid(name), int(rr.Header().Rrtype), 999997})
		}
	}
	if len(targets) == 0 || m.Truncated {
		c.Note = "no NS/MX target in the response, or truncated"
		c.Groups = append(c.Groups, groupJ{Name: "?", Max: 1, Want4: true, Want6: true, Cands: [][3]uint64{}, Got4: []int{999994}, Got6: []int{}})
	}
	return c
}

var drivers = []string{"cdb", "rdb1", "rdb2"}

func emitE2E(a *hlib.Args, e *hlib.Emitter, d *dataset) {
	thorough := a.Tier == "thorough"
	k := 0
	for qi, q := range d.qnames {
		fq := q + ".example.com."
		for _, qt := range []int{1, 28, 255} {
			for max := 0; max <= 8; max++ {
				// max 0: no setting in the context (handler default 1)
				if qt == 255 && !thorough && !(max == 0 || max == 1 || max == 3 || max == 8) {
					continue
				}
				for ci, cl := range clients {
					for di, drv := range drivers {
						// quick: every backend x client for max 2 (A/AAAA), one rotating combination otherwise
						all := thorough || (max == 2 && qt != 255)
						if !all && (ci != (max+qi)%len(clients) || di != (max+qi+qt)%len(drivers)) {
							continue
						}
						e.Emit(d.query(drv, fq, qt, "addr", cl.ip, max, a.Seed))
						k++
					}
				}
			}
		}
	}
	for _, drv := range drivers {
		for _, cl := range clients {
			for _, max := range []int{0, 3} {
				e.Emit(d.query(drv, "example.com.", int(dns.TypeNS), "addl", cl.ip, max, a.Seed))
				e.Emit(d.query(drv, "example.com.", int(dns.TypeMX), "addl", cl.ip, max, a.Seed))
				e.Emit(d.query(drv, "www.sub.example.com.", int(dns.TypeA), "addl", cl.ip, max, a.Seed))
			}
		}
		// targets named by several records / already present in the answer
		for ci, cl := range clients {
			if !thorough && ci%2 == 1 {
				continue
			}
			for _, max := range []int{1, 4} {
				e.Emit(d.query(drv, "mma.example.com.", int(dns.TypeMX), "addl", cl.ip, max, a.Seed))
				e.Emit(d.query(drv, "mmb.example.com.", int(dns.TypeMX), "addl", cl.ip, max, a.Seed))
				e.Emit(d.query(drv, "self.example.com.", int(dns.TypeMX), "addl", cl.ip, max, a.Seed))
				e.Emit(d.query(drv, "self.example.com.", int(dns.TypeANY), "addl", cl.ip, max, a.Seed))
				e.Emit(d.query(drv, "www.sub4.example.com.", int(dns.TypeA), "addl", cl.ip, max, a.Seed))
				e.Emit(d.query(drv, "www.sub6.example.com.", int(dns.TypeAAAA), "addl", cl.ip, max, a.Seed))
			}
		}
	}
}

// ---------------------------------------------------------------- chi-square support

func chiStat(ws []uint32, obs []int) (float64, int, int) {
	S, n := 0.0, 0
	for i, w := range ws {
		if w > 0 {
			S += float64(w)
			n += obs[i]
		}
	}
	stat, k := 0.0, 0
	for i, w := range ws {
		if w > 0 {
			exp := float64(n) * float64(w) / S
			stat += (float64(obs[i]) - exp) * (float64(obs[i]) - exp) / exp
			k++
		}
	}
	return stat, k - 1, n
}

// one draw at unit level: a fresh Wrs{MaxAnswers:1}, every candidate added, ARecord
func oneDraw(ws []uint32) int {
	w := db.Wrs{MaxAnswers: 1}
	for i, wt := range ws {
		row := mkRow(1, wt, i)
		rr, _ := db.ExtractRRFromRow(row, false)
		_ = w.Add(rr, row)
	}
	rrs, err := w.ARecord("x.example.", dns.ClassINET)
	if err != nil || len(rrs) != 1 {
		return -1
	}
	return idOfAddr(rrs[0].(*dns.A).A.To4())
}

func runChi(ws []uint32, n int, seed uint64, workers int, via string, d *dataset) caseJ {
	c := caseJ{Kind: "chi", Class: "chi:" + via, Max: 1, ChiW: ws, ChiN: n, ChiSeed: seed, ChiWorkers: workers, ChiVia: via,
		KeysAgree: true, Out4: []int{}, Out6: []int{}}
	// the package's own kind of generator (locked source), seeded for reproducibility
	lr := db.NewRand()
	lr.Seed(int64(seed))
	sourceTouched = true
	db.SetRandSourceForVerif(lr)
	obs := make([]int, len(ws))
	bad := 0
	switch via {
	case "unit":
		var mu sync.Mutex
		var wg sync.WaitGroup
		for g := 0; g < workers; g++ {
			wg.Add(1)
			go func() {
				defer wg.Done()
				loc := make([]int, len(ws))
				lb := 0
				for i := 0; i < n/workers; i++ {
					if id := oneDraw(ws); id >= 0 && id < len(ws) {
						loc[id]++
					} else {
						lb++
					}
				}
				mu.Lock()
				for i := range loc {
					obs[i] += loc[i]
				}
				bad += lb
				mu.Unlock()
			}()
		}
		wg.Wait()
	case "handler":
		recs := d.names["wrr.example.com."]
		c.ChiW = nil
		var ids []int
		for _, r := range recs {
			if r.fam == 1 {
				c.ChiW = append(c.ChiW, r.weight)
				ids = append(ids, r.id)
			}
		}
		ws = c.ChiW
		obs = make([]int, len(ws))
		for i := 0; i < n; i++ {
			q := d.query("cdb", "wrr.example.com.", 1, "addr", "9.9.9.9", 1, seed)
			if len(q.Groups) == 1 && len(q.Groups[0].Got4) == 1 {
				hit := false
				for k, id := range ids {
					if id == q.Groups[0].Got4[0] {
						obs[k]++
						hit = true
					}
				}
				if !hit {
					bad++
				}
			} else {
				bad++
			}
		}
	}
	c.ChiObs = obs
	stat, df, tot := chiStat(ws, obs)
	c.Support = map[string]interface{}{"chi2": math.Round(stat*1000) / 1000, "df": df, "draws": tot, "bad_draws": bad,
		"weights": ws, "observed": obs, "workers": workers, "via": via,
		"note": "support only: decides only if chi2 exceeds the p=1e-6 critical value"}
	if bad > 0 {
		// a draw that served nothing or an unknown address: make the case fail its spec
		c.ChiObs = append(c.ChiObs, bad)
	}
	return c
}

func emitChi(a *hlib.Args, e *hlib.Emitter, d *dataset) {
	scale := 1
	if a.Tier == "thorough" {
		scale = 10
	}
	e.Emit(runChi([]uint32{1, 2, 3, 4}, 8000*scale, a.Seed+1, 1, "unit", d))
	e.Emit(runChi([]uint32{5, 1, 0, 1, 1, 100}, 8000*scale, a.Seed+2, 4, "unit", d))
	e.Emit(runChi(nil, 4000*scale, a.Seed+3, 1, "handler", d))
}

// ---------------------------------------------------------------- concurrent use of the shared generator

// sourceTouched records whether db.SetRandSourceForVerif was called in this
// process.  The concurrent class wants the package's own generator: at process
// start localRand is the original db.NewRand(); once a scripted source has been
// installed (replay of mixed cases) the class installs a fresh db.NewRand(),
// which is the same lockedSource code behind one more rand.Rand.
var sourceTouched bool

func ensureRealSource() bool {
	if sourceTouched {
		db.SetRandSourceForVerif(db.NewRand())
		return true
	}
	return false
}

type outcome struct {
	ids   []int
	count int
}

func outKey(ids []int) string {
	c := append([]int{}, ids...)
	sort.Ints(c)
	return fmt.Sprint(c)
}

// runStress runs sel concurrently (g goroutines x n selections) and collects the
// distinct outcomes; a panic inside sel is one outcome with the id 999990.
func runStress(g, n int, sel func(worker, i int) []int) ([]outcome, int) {
	var mu sync.Mutex
	all := map[string]*outcome{}
	panics := 0
	var wg sync.WaitGroup
	start := make(chan struct{})
	for w := 0; w < g; w++ {
		wg.Add(1)
		go func(w int) {
			defer wg.Done()
			loc := map[string]*outcome{}
			lp := 0
			<-start
			for i := 0; i < n; i++ {
				var ids []int
				func() {
					defer func() {
						if e := recover(); e != nil {
							lp++
							ids = []int{999990}
						}
					}()
					ids = sel(w, i)
				}()
				k := outKey(ids)
				if o, ok := loc[k]; ok {
					o.count++
				} else {
					loc[k] = &outcome{ids: append([]int{}, ids...), count: 1}
				}
			}
			mu.Lock()
			for k, o := range loc {
				if t, ok := all[k]; ok {
					t.count += o.count
				} else {
					all[k] = o
				}
			}
			panics += lp
			mu.Unlock()
		}(w)
	}
	close(start)
	wg.Wait()
	keys := make([]string, 0, len(all))
	for k := range all {
		keys = append(keys, k)
	}
	sort.Strings(keys)
	res := make([]outcome, 0, len(keys))
	for _, k := range keys {
		res = append(res, *all[k])
	}
	return res, panics
}

func concBase(via string, g, n, max int) caseJ {
	return caseJ{Kind: "conc", Class: "conc:" + via, Max: max, ConcVia: via, ConcG: g, ConcN: n, KeysAgree: true,
		Out4: []int{}, Out6: []int{}, Procs: runtime.GOMAXPROCS(0)}
}

// direct Wrs.Add / ARecord on the shared generator
func runConcWrs(ws []uint32, max, g, n int) caseJ {
	c := concBase("wrs", g, n, max)
	c.Restored = ensureRealSource()
	c.ConcW = ws
	c.QType = 1
	c.Mode = "addr"
	rows := make([][]byte, len(ws))
	rrs := make([]db.ResourceRecord, len(ws))
	cands := [][3]uint64{}
	for i, wt := range ws {
		rows[i] = mkRow(1, wt, i)
		rrs[i], _ = db.ExtractRRFromRow(rows[i], false)
		cands = append(cands, [3]uint64{1, uint64(wt), uint64(i)})
	}
	outs, panics := runStress(g, n, func(_, _ int) []int {
		w := db.Wrs{MaxAnswers: max}
		for i := range rows {
			if err := w.Add(rrs[i], rows[i]); err != nil {
				return []int{999991}
			}
		}
		res, err := w.ARecord("x.example.", dns.ClassINET)
		if err != nil {
			return []int{999992}
		}
		ids := make([]int, 0, len(res))
		for _, r := range res {
			ids = append(ids, idOfAddr(r.(*dns.A).A.To4()))
		}
		return ids
	})
	c.Panics = panics
	for _, o := range outs {
		c.Groups = append(c.Groups, groupJ{Name: "outcome", Max: max, Want4: true, Want6: false, Cands: cands, Got4: o.ids, Got6: []int{}})
		c.OutCounts = append(c.OutCounts, o.count)
	}
	return c
}

// queries through FBDNSDB (FindAnswer) on the shared generator, backends rotating per goroutine
func runConcHandler(d *dataset, qname string, qtype int, client string, max, g, n int, dseed uint64) caseJ {
	c := concBase("handler", g, n, max)
	c.Restored = ensureRealSource()
	c.QName, c.QType, c.Client, c.DSeed, c.Mode = qname, qtype, client, dseed, "addr"
	loc := clientLoc(client)
	cands := d.visible(qname, loc)
	outs, panics := runStress(g, n, func(w, _ int) []int {
		q := d.query(drivers[w%len(drivers)], qname, qtype, "addr", client, max, dseed)
		if q.Rcode != 0 || len(q.Groups) != 1 {
			return []int{999993}
		}
		ids := append([]int{}, q.Groups[0].Got4...)
		for _, x := range q.Groups[0].Got6 {
			ids = append(ids, x)
		}
		return ids
	})
	c.Panics = panics
	fam := map[int]int{}
	for _, r := range d.names[qname] {
		fam[r.id] = r.fam
	}
	for _, o := range outs {
		gr := groupJ{Name: qname, Max: max, Want4: qtype == 1, Want6: qtype == 28, Cands: cands, Got4: []int{}, Got6: []int{}}
		for _, id := range o.ids {
			if fam[id] == 28 {
				gr.Got6 = append(gr.Got6, id)
			} else {
				gr.Got4 = append(gr.Got4, id)
			}
		}
		c.Groups = append(c.Groups, gr)
		c.OutCounts = append(c.OutCounts, o.count)
	}
	return c
}

// g goroutines drawing n 63-bit values each from one db.NewRand() (the
// package's lockedSource): repeated values and panics
func runConcGen(g, n int) caseJ {
	c := concBase("gen", g, n, 1)
	lr := db.NewRand()
	out := make([][]int64, g)
	pan := make([]int, g)
	var wg sync.WaitGroup
	start := make(chan struct{})
	for w := 0; w < g; w++ {
		wg.Add(1)
		go func(w int) {
			defer wg.Done()
			res := make([]int64, 0, n)
			<-start
			for i := 0; i < n; i++ {
				func() {
					defer func() {
						if e := recover(); e != nil {
							pan[w]++
						}
					}()
					res = append(res, lr.Int63())
				}()
			}
			out[w] = res
		}(w)
	}
	close(start)
	wg.Wait()
	all := make([]int64, 0, g*n)
	for w := range out {
		all = append(all, out[w]...)
		c.Panics += pan[w]
	}
	sort.Slice(all, func(i, j int) bool { return all[i] < all[j] })
	for i := 1; i < len(all); i++ {
		if all[i] == all[i-1] {
			c.Dups++
		}
	}
	c.OutCounts = []int{len(all)}
	return c
}

func emitConc(a *hlib.Args, e *hlib.Emitter, d *dataset) {
	t := time.Now()
	lap := func(what string) {
		fmt.Fprintf(os.Stderr, "c11 conc: %s %.1fs\n", what, time.Since(t).Seconds())
		t = time.Now()
	}
	g, nsel, nq, ndraw := 16, 800, 60, 50000
	if a.Tier == "thorough" {
		nsel, nq, ndraw = 40000, 4000, 200000
	}
	e.Emit(runConcGen(g, ndraw))
	lap("gen")
	e.Emit(runConcWrs([]uint32{1, 2, 3, 4}, 1, g, nsel))
	e.Emit(runConcWrs([]uint32{5, 1, 0, 1, 1, 100}, 3, g, nsel))
	e.Emit(runConcWrs([]uint32{0, 0, 7}, 2, g, nsel))
	e.Emit(runConcWrs([]uint32{1, 1, 1, 1, 1, 1, 1, 1}, 8, g, nsel))
	lap("wrs")
	e.Emit(runConcHandler(d, "wrr.example.com.", 1, "9.9.9.9", 2, g, nq, a.Seed))
	e.Emit(runConcHandler(d, "mixz.example.com.", 1, "10.2.0.1", 8, g, nq, a.Seed))
	e.Emit(runConcHandler(d, "big.example.com.", 28, "fd00::99", 3, g, nq, a.Seed))
	e.Emit(runConcHandler(d, "loc.example.com.", 1, "10.1.0.1", 4, g, nq, a.Seed))
	lap("handler")
}

// ---------------------------------------------------------------- main

func run(a *hlib.Args, e *hlib.Emitter) error {
	r := hlib.NewRng(a.Seed, 11)
	var d *dataset
	getData := func(seed uint64) (*dataset, error) {
		if d != nil {
			return d, nil
		}
		d = genData(seed, a.Tier)
		if err := d.build(a.Scratch, seed); err != nil {
			return nil, err
		}
		return d, nil
	}
	defer func() {
		if d != nil {
			d.close()
		}
	}()
	if a.Replay != "" {
		cs, err := hlib.ReadReplay(a.Replay)
		if err != nil {
			return err
		}
		for _, m := range cs {
			var c caseJ
			raw, _ := json.Marshal(m)
			if err := json.Unmarshal(raw, &c); err != nil {
				return err
			}
			switch c.Kind {
			case "unit":
				e.Emit(runUnit(r, c.Max, c.Cands, c.Class))
			case "e2e":
				ds, err := getData(c.DSeed)
				if err != nil {
					return err
				}
				sourceTouched = true
				db.SetRandSourceForVerif(rand.NewSource(int64(a.Seed)).(rand.Source64))
				max := c.Max
				e.Emit(ds.query(c.Driver, c.QName, c.QType, c.Mode, c.Client, max, c.DSeed))
			case "conc":
				// a race cannot be replayed deterministically: the stress is re-run
				// with the same parameters (the replay file keeps the observed counts)
				switch c.ConcVia {
				case "gen":
					e.Emit(runConcGen(c.ConcG, c.ConcN))
				case "wrs":
					e.Emit(runConcWrs(c.ConcW, c.Max, c.ConcG, c.ConcN))
				case "handler":
					ds, err := getData(c.DSeed)
					if err != nil {
						return err
					}
					e.Emit(runConcHandler(ds, c.QName, c.QType, c.Client, c.Max, c.ConcG, c.ConcN, c.DSeed))
				}
			case "chi":
				ds, err := getData(a.Seed)
				if err != nil {
					return err
				}
				e.Emit(runChi(c.ChiW, c.ChiN, c.ChiSeed, c.ChiWorkers, c.ChiVia, ds))
			}
		}
		return nil
	}
	tb := time.Now()
	ds, err := getData(a.Seed)
	if err != nil {
		return err
	}
	tc := time.Now()
	// first, while localRand is still the package's original generator
	emitConc(a, e, ds)
	t0 := time.Now()
	emitUnits(a, e, r)
	t1 := time.Now()
	sourceTouched = true
	db.SetRandSourceForVerif(rand.NewSource(int64(a.Seed)).(rand.Source64))
	emitE2E(a, e, ds)
	t3 := time.Now()
	emitChi(a, e, ds)
	fmt.Fprintf(os.Stderr, "c11 phases: db build %.1fs, conc %.1fs, unit %.1fs, e2e %.1fs, chi %.1fs\n",
		tc.Sub(tb).Seconds(), t0.Sub(tc).Seconds(), t1.Sub(t0).Seconds(), t3.Sub(t1).Seconds(), time.Since(t3).Seconds())
	return nil
}

func main() {
	// glog (used by the db package) must not create log files
	_ = flag.Set("logtostderr", "true")
	hlib.Main(run)
}
