// C02 harness: as C01, biased to the shapes on which the closest-key (v2) reader could
// differ from the label-by-label one: located clients below delegations, wildcards in a
// parent zone, sibling names that are byte prefixes, 1- and 63-byte labels, long names.
package main

import (
	"verifharness/corelib"
	"verifharness/hlib"
)

var classes = []string{"c02", "long", "prefix", "c02", "nested", "located", "root", "hibyte"}

func main() {
	corelib.SmallBatchEvery = 1
	hlib.Main(func(a *hlib.Args, e *hlib.Emitter) error { return corelib.RunFiles(a, e, classes, 20000) })
}
