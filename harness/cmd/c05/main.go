// C05 harness: schedules of in-flight queries, reloads and on-disk updates are replayed
// against the real handler (dnsserver.FBDNSDB) through its verif yield points; the
// observations (order of steps, stamps of every response, Reload results) are emitted
// as JSON lines.  Shared machinery: verifharness/rl.
package main

import (
	"encoding/json"
	"fmt"
	"os"
	"path/filepath"
	"sync"
	"time"

	"verifharness/hlib"
	"verifharness/rl"
)

const (
	ipLoc1 = "198.51.100.7"
	ipLoc2 = "192.0.2.7"
)

func q(client int, name string, qtype int, ip string) rl.ThreadSpec {
	return rl.ThreadSpec{Kind: "q", Client: client, Name: name, Qtype: qtype, IP: ip}
}
func full(p int) rl.ThreadSpec { return rl.ThreadSpec{Kind: "r", Full: true, Path: p} }
func partial() rl.ThreadSpec   { return rl.ThreadSpec{Kind: "r"} }
func env(p int, f rl.File) rl.ThreadSpec {
	return rl.ThreadSpec{Kind: "e", Path: p, File: f}
}
func gen(s int) rl.File      { return rl.File{Stamp: s, OK: true, Key: true} }
func genNoKey(s int) rl.File { return rl.File{Stamp: s, OK: true, Key: false} }

var mx = func(c int) rl.ThreadSpec { return q(c, "example.com.", 15, ipLoc1) }

// standard disk: p0 = generation 1 (served first), p1 = 2, p2 = 3, p3 = 4 without the
// validation key, p4 unreadable; p7 does not exist
func stdDisk() []rl.DiskEntry {
	return []rl.DiskEntry{{Path: 0, File: gen(1)}, {Path: 1, File: gen(2)}, {Path: 2, File: gen(3)},
		{Path: 3, File: genNoKey(4)}, {Path: 4, File: rl.File{Stamp: 9, OK: false}}}
}
func smallDisk(paths ...int) []rl.DiskEntry {
	var d []rl.DiskEntry
	for _, e := range stdDisk() {
		for _, p := range paths {
			if e.Path == p {
				d = append(d, e)
			}
		}
	}
	return d
}

func rep(t, n int) []int {
	r := make([]int, n)
	for i := range r {
		r[i] = t
	}
	return r
}
func cat(l ...[]int) []int {
	var r []int
	for _, x := range l {
		r = append(r, x...)
	}
	return r
}

// all merges of na steps of thread a and nb steps of thread b in which a's first step does
// not fall between b's first and last step (a = query, b = reload holding the write lock)
func validMerges(a, na, b, nb int) [][]int {
	var res [][]int
	var rec func(cur []int, ia, ib int)
	rec = func(cur []int, ia, ib int) {
		if ia == na && ib == nb {
			res = append(res, append([]int{}, cur...))
			return
		}
		if ia < na && !(ia == 0 && ib > 0 && ib < nb) {
			rec(append(cur, a), ia+1, ib)
		}
		if ib < nb {
			rec(append(cur, b), ia, ib+1)
		}
	}
	rec(nil, 0, 0)
	return res
}

type genCase struct{ c rl.Case }

// ---------------------------------------------------------------- named shapes

func shapeF5(be string) rl.Case {
	// query parked at answered; primary updated; partial reload completes; query resumes
	return rl.Case{Kind: "sched", Class: "f5-shape", Cfg: rl.Config{Backend: be}, Disk: smallDisk(0), P0: 0,
		Threads: []rl.ThreadSpec{mx(1), env(0, gen(5)), partial(), mx(1)},
		Sched:   cat(rep(0, 5), rep(1, 1), rep(2, 5), rep(0, 3), rep(3, 8))}
}
func shapeF23(be string) rl.Case {
	return rl.Case{Kind: "sched", Class: "f23-shape", Cfg: rl.Config{Backend: be, VKey: true}, Disk: smallDisk(0), P0: 0,
		Threads: []rl.ThreadSpec{mx(1), env(0, genNoKey(5)), partial(), mx(1)},
		Sched:   cat(rep(0, 8), rep(1, 1), rep(2, 5), rep(3, 8))}
}
func shapeF24(be string) rl.Case {
	return rl.Case{Kind: "sched", Class: "f24-shape", Cfg: rl.Config{Backend: be, Timeout0: true}, Disk: smallDisk(0), P0: 0,
		Threads: []rl.ThreadSpec{mx(1), env(0, gen(5)), partial(), mx(1)},
		Sched:   cat(rep(0, 8), rep(1, 1), rep(2, 5), rep(3, 8))}
}
func shapeFollow(be string) rl.Case {
	// full switch to p1, p1 updated, partial reload, query: must see the update of p1, not p0
	return rl.Case{Kind: "sched", Class: "partial-follows", Cfg: rl.Config{Backend: be}, Disk: smallDisk(0, 1), P0: 0,
		Threads: []rl.ThreadSpec{full(1), mx(1), env(1, gen(6)), env(0, gen(5)), partial(), mx(1)},
		Sched:   cat(rep(0, 5), rep(1, 8), rep(2, 1), rep(3, 1), rep(4, 5), rep(5, 8))}
}
func shapeFailures(be string) rl.Case {
	// missing, unreadable, nokey: each followed by a query; then a partial reload and a query
	return rl.Case{Kind: "sched", Class: "failures", Cfg: rl.Config{Backend: be, VKey: true}, Disk: smallDisk(0, 3, 4), P0: 0,
		Threads: []rl.ThreadSpec{full(7), mx(1), full(4), mx(1), full(3), mx(1), partial(), mx(1)},
		Sched:   cat(rep(0, 2), rep(1, 8), rep(2, 2), rep(3, 8), rep(4, 2), rep(5, 8), rep(6, 5), rep(7, 8))}
}
func shapeFailedThenPartial(be string) rl.Case {
	// a failed full reload must not redirect later partial reloads (path updated only on success)
	return rl.Case{Kind: "sched", Class: "failed-then-partial", Cfg: rl.Config{Backend: be, VKey: true}, Disk: smallDisk(0, 3), P0: 0,
		Threads: []rl.ThreadSpec{full(3), partial(), mx(1), full(7), partial(), mx(2)},
		Sched:   cat(rep(0, 2), rep(1, 5), rep(2, 8), rep(3, 2), rep(4, 5), rep(5, 8))}
}
func shapeTimeoutFull(be string) rl.Case {
	return rl.Case{Kind: "sched", Class: "timeout-full", Cfg: rl.Config{Backend: be, Timeout0: true}, Disk: smallDisk(0, 1), P0: 0,
		Threads: []rl.ThreadSpec{mx(1), full(1), mx(1)},
		Sched:   cat(rep(0, 3), rep(1, 2), rep(0, 5), rep(2, 8))}
}
func shapeBlocked(be string) rl.Case {
	// a query started while the reload holds the lock blocks and proceeds after the unlock
	return rl.Case{Kind: "sched", Class: "blocked-probe", Cfg: rl.Config{Backend: be}, Disk: smallDisk(0, 1), P0: 0,
		Threads: []rl.ThreadSpec{full(1), mx(1), partial()},
		Sched:   cat(rep(0, 2), rep(1, 1), rep(2, 1), rep(0, 3))}
}
func shapeVisible(be string) rl.Case {
	// switch to p1, then back to the meanwhile updated p0
	return rl.Case{Kind: "sched", Class: "visible", Cfg: rl.Config{Backend: be}, Disk: smallDisk(0, 1), P0: 0,
		Threads: []rl.ThreadSpec{mx(1), full(1), mx(1), env(0, gen(5)), full(0), mx(1), q(2, "geo.example.com.", 1, ipLoc2)},
		Sched:   cat(rep(0, 4), rep(1, 5), rep(2, 8), rep(0, 4), rep(3, 1), rep(4, 5), rep(5, 8), rep(6, 8))}
}

// Response cache enabled: the same stamped questions before and after a successful reload of
// the SAME backend (RocksDB: catch-up in place; partial reload, or a full reload naming the
// served path), next to a question never asked before: a cached key must be answered from the
// new generation too (the purge must not depend on the *db.DB object having changed).
func shapeCachedSeq(fullSame bool) func(string) rl.Case {
	return func(be string) rl.Case {
		reload, cls := partial(), "cached-catchup-seq"
		if fullSame {
			reload, cls = full(0), "cached-samepath-seq"
		}
		geo := func(c int) rl.ThreadSpec { return q(c, "geo.example.com.", 1, ipLoc2) }
		nx := func(c int) rl.ThreadSpec { return q(c, "nx.example.com.", 1, ipLoc1) }
		txt := func(c int) rl.ThreadSpec { return q(c, "txt.example.com.", 16, ipLoc1) }
		th := []rl.ThreadSpec{
			mx(1), geo(2), nx(1), mx(1), // 0-3: cached on generation 1 (3 is a hit)
			env(0, gen(5)), reload, // 4, 5
			mx(1), txt(1), geo(2), nx(1), mx(2), // 6-10: cached keys and a never-asked key; 10 hits the new entry
			reload, mx(1), txt(2), // 11-13: a reload that changes nothing still purges
		}
		var sched []int
		for i := range th {
			sched = append(sched, rep(i, 8)...)
		}
		return rl.Case{Kind: "sched", Class: cls, Cfg: rl.Config{Backend: be, Cache: true}, Disk: smallDisk(0), P0: 0, Threads: th, Sched: sched}
	}
}

// the same with queries in flight across the catch-up that cannot leave anything stale behind:
// one parked right after acquiring its reader (all its lookups see the new content), one parked
// before its write (its entry was inserted before the purge)
func shapeCachedSched(be string) rl.Case {
	geo := func(c int) rl.ThreadSpec { return q(c, "geo.example.com.", 1, ipLoc2) }
	www := func(c int) rl.ThreadSpec { return q(c, "www.example.com.", 1, ipLoc1) }
	th := []rl.ThreadSpec{mx(1), www(2), env(0, gen(5)), partial(), mx(1), www(2),
		q(1, "txt.example.com.", 16, ipLoc1), geo(3), geo(3)}
	return rl.Case{Kind: "sched", Class: "cached-catchup-sched", Cfg: rl.Config{Backend: be, Cache: true}, Disk: smallDisk(0), P0: 0, Threads: th,
		Sched: cat(rep(0, 8), rep(1, 1), rep(7, 7), rep(2, 1), rep(3, 5), rep(1, 7), rep(7, 1), rep(4, 8), rep(5, 8), rep(6, 8), rep(8, 8))}
}

// ---------------------------------------------------------------- random schedules

var queryMenu = []func(c int) rl.ThreadSpec{
	func(c int) rl.ThreadSpec { return q(c, "example.com.", 15, ipLoc1) },
	func(c int) rl.ThreadSpec { return q(c, "example.com.", 15, ipLoc1) },
	func(c int) rl.ThreadSpec { return q(c, "www.example.com.", 1, ipLoc1) },
	func(c int) rl.ThreadSpec { return q(c, "geo.example.com.", 1, ipLoc2) },
	func(c int) rl.ThreadSpec { return q(c, "nx.example.com.", 1, ipLoc1) },
	func(c int) rl.ThreadSpec { return q(c, "x.sub.example.com.", 1, ipLoc1) },
	func(c int) rl.ThreadSpec { return q(c, "txt.example.com.", 16, ipLoc2) },
	func(c int) rl.ThreadSpec { return q(c, "other.org.", 1, ipLoc1) },
	func(c int) rl.ThreadSpec { return q(c, "wrr.example.com.", 1, ipLoc1) },
}

// willFail predicts whether reload thread i returns an error from db.Reload (then it has two steps)
func willFail(c rl.Case, i int) bool {
	t := c.Threads[i]
	if c.Cfg.Timeout0 {
		return true
	}
	if !t.Full {
		return false
	}
	for _, d := range c.Disk {
		if d.Path == t.Path {
			return !d.File.OK || (c.Cfg.VKey && !d.File.Key)
		}
	}
	return true // missing path
}

// randomCase: nq queries x nr reloads (+ on-disk updates), a random interleaving in which
// threads are (mostly) started only when the write lock is predicted to be free
func randomCase(r *hlib.Rng, be string, nq, nr int, cache bool) rl.Case {
	c := rl.Case{Kind: "sched", Class: fmt.Sprintf("random-%dq%dr", nq, nr), Cfg: rl.Config{Backend: be, Cache: cache}, P0: 0}
	c.Cfg.VKey = r.Chance(1, 2)
	used := map[int]bool{0: true}
	nextStamp := 5
	rocks := be != "cdb"
	for i := 0; i < nq; i++ {
		c.Threads = append(c.Threads, queryMenu[r.Intn(len(queryMenu))](1+r.Intn(2)))
	}
	envPaths := map[int]bool{}
	for i := 0; i < nr; i++ {
		switch r.Pick([]int{4, 4, 1, 1, 1}) {
		case 0: // full switch to a good generation
			p := 1 + r.Intn(2)
			if rocks {
				p = 1
			}
			used[p] = true
			c.Threads = append(c.Threads, full(p))
		case 1: // partial, usually after an update of some path
			if !(rocks && cache) { // C12 keeps catch-ups out (F5 would mix into cache entries)
				p := r.Intn(2)
				if !envPaths[p] && r.Chance(3, 4) {
					envPaths[p] = true
					used[p] = true
					c.Threads = append(c.Threads, env(p, gen(nextStamp)))
					nextStamp++
				}
				c.Threads = append(c.Threads, partial())
			} else {
				c.Threads = append(c.Threads, full(1))
				used[1] = true
			}
		case 2:
			c.Threads = append(c.Threads, full(7)) // missing
		case 3:
			used[4] = true
			c.Threads = append(c.Threads, full(4)) // unreadable
		default:
			used[3] = true
			c.Threads = append(c.Threads, full(3)) // no validation key (succeeds when no key is configured)
		}
	}
	for p := range used {
		c.Disk = append(c.Disk, smallDisk(p)...)
	}
	// order the disk for reproducible output
	for i := range c.Disk {
		for j := i + 1; j < len(c.Disk); j++ {
			if c.Disk[j].Path < c.Disk[i].Path {
				c.Disk[i], c.Disk[j] = c.Disk[j], c.Disk[i]
			}
		}
	}
	// interleaving
	left := make([]int, len(c.Threads))
	for i, t := range c.Threads {
		switch t.Kind {
		case "q":
			left[i] = 8
		case "r":
			left[i] = 5
		default:
			left[i] = 1
		}
	}
	started := make([]bool, len(c.Threads))
	blocked := make([]bool, len(c.Threads))
	holder := -1
	for guard := 0; guard < 400; guard++ {
		var cand []int
		for i := range c.Threads {
			if left[i] > 0 && !blocked[i] {
				cand = append(cand, i)
			}
		}
		if len(cand) == 0 {
			break
		}
		i := cand[r.Intn(len(cand))]
		if !started[i] && c.Threads[i].Kind != "e" && holder != -1 && holder != i {
			if !r.Chance(1, 12) {
				continue // would block: mostly avoided, sometimes probed
			}
			// blocked probe: the thread gets its first step by itself when the lock is released
			c.Sched = append(c.Sched, i)
			started[i] = true
			blocked[i] = true
			continue
		}
		c.Sched = append(c.Sched, i)
		started[i] = true
		left[i]--
		if c.Threads[i].Kind == "r" {
			if left[i] == 4 {
				holder = i
			}
			if left[i] == 0 || (left[i] == 3 && willFail(c, i)) {
				if left[i] == 3 {
					left[i] = 0
				}
				holder = -1
				for j := range blocked {
					if blocked[j] {
						blocked[j] = false
						left[j]--
						if c.Threads[j].Kind == "r" && holder == -1 {
							holder = j
						}
					}
				}
			}
		}
	}
	return c
}

// ---------------------------------------------------------------- driver

func generate(a *hlib.Args) []rl.Case {
	var cases []rl.Case
	thorough := a.Tier == "thorough"
	// 1. cdb: every schedule of one query and one reload (full switch; partial after the file
	// was replaced), plus every failing kind on a sample of the interleavings
	full1 := validMerges(0, 8, 1, 5)
	for _, s := range full1 {
		cases = append(cases, rl.Case{Kind: "sched", Class: "all-1q1r-full", Cfg: rl.Config{Backend: "cdb"}, Disk: smallDisk(0, 1), P0: 0,
			Threads: []rl.ThreadSpec{mx(1), full(1)}, Sched: s})
	}
	part1 := validMerges(1, 8, 2, 5)
	for k, s := range part1 {
		if !thorough && k%3 != 0 {
			continue // for the cdb driver a partial reload is the same code path as a full one
		}
		cases = append(cases, rl.Case{Kind: "sched", Class: "all-1q1r-partial", Cfg: rl.Config{Backend: "cdb"}, Disk: smallDisk(0), P0: 0,
			Threads: []rl.ThreadSpec{env(0, gen(5)), mx(1), partial()}, Sched: cat([]int{0}, s)})
	}
	fails := []struct {
		name string
		cfg  rl.Config
		r    rl.ThreadSpec
	}{
		{"missing", rl.Config{Backend: "cdb"}, full(7)},
		{"unreadable", rl.Config{Backend: "cdb"}, full(4)},
		{"nokey", rl.Config{Backend: "cdb", VKey: true}, full(3)},
		{"timeout", rl.Config{Backend: "cdb", Timeout0: true}, full(1)},
		{"timeout-partial", rl.Config{Backend: "cdb", Timeout0: true}, partial()},
	}
	failMerges := validMerges(0, 8, 1, 2)
	for _, f := range fails {
		for k, s := range failMerges {
			if !thorough && k%2 == 1 {
				continue
			}
			// a second query after everything checks what is served afterwards
			cases = append(cases, rl.Case{Kind: "sched", Class: "fail-" + f.name, Cfg: f.cfg, Disk: smallDisk(0, 1, 3, 4), P0: 0,
				Threads: []rl.ThreadSpec{mx(1), f.r, mx(1)}, Sched: cat(s, rep(2, 8))})
		}
	}
	// 2. named shapes on every backend (the RocksDB ones are where F5, F23, F24 live)
	backends := []string{"cdb", "rdb2", "rdb1"}
	for _, be := range backends {
		for _, f := range []func(string) rl.Case{shapeF5, shapeF23, shapeF24, shapeFollow, shapeFailures,
			shapeFailedThenPartial, shapeTimeoutFull, shapeBlocked, shapeVisible,
			shapeCachedSeq(false), shapeCachedSeq(true), shapeCachedSched} {
			if be == "rdb1" && !thorough {
				c := f(be)
				if c.Class != "f5-shape" && c.Class != "cached-catchup-seq" && c.Class != "cached-samepath-seq" {
					continue
				}
			}
			c := f(be)
			if be == "cdb" && c.Class == "cached-catchup-sched" {
				// with cdb the parked query holds the OLD backend and inserts after the purge:
				// that is the F6 shape, which belongs to C12
				continue
			}
			cases = append(cases, c)
		}
	}
	// 3. seeded random schedules
	r := hlib.NewRng(a.Seed, 5)
	n := a.N
	for i := 0; i < n; i++ {
		cases = append(cases, randomCase(r, "cdb", 2, 2, false))
	}
	nr := 6
	if thorough {
		nr = 120
	}
	for i := 0; i < nr; i++ {
		be := "rdb2"
		if thorough && i%2 == 1 {
			be = "rdb1"
		}
		if i%3 == 0 {
			cases = append(cases, randomCase(r, be, 1, 1, false))
		} else {
			cases = append(cases, randomCase(r, be, 2, 2, false))
		}
	}
	if thorough {
		// every schedule of one query and one partial reload on RocksDB (F5 appears in many of them)
		for k, s := range part1 {
			if k%4 == 0 {
				cases = append(cases, rl.Case{Kind: "sched", Class: "all-1q1r-partial", Cfg: rl.Config{Backend: "rdb2"}, Disk: smallDisk(0), P0: 0,
					Threads: []rl.ThreadSpec{env(0, gen(5)), mx(1), partial()}, Sched: cat([]int{0}, s)})
			}
		}
		for i := 0; i < 3*n; i++ {
			cases = append(cases, randomCase(r, "cdb", 3, 2, false))
		}
	}
	return cases
}

func runAll(a *hlib.Args, e *hlib.Emitter, cases []rl.Case) error {
	scratch := a.Scratch
	if scratch == "" {
		d, err := os.MkdirTemp("/var/tmp", "c05-")
		if err != nil {
			return err
		}
		defer os.RemoveAll(d)
		scratch = d
	}
	base := filepath.Join(scratch, "c05run")
	os.RemoveAll(base)
	if err := os.MkdirAll(filepath.Join(base, "glog"), 0o755); err != nil {
		return err
	}
	defer os.RemoveAll(base)
	os.Setenv("TMPDIR", base)
	rl.QuietLogs()
	pool := &rl.Pool{Dir: filepath.Join(base, "tpl")}

	out := make([]rl.Case, len(cases))
	spent := map[string]time.Duration{}
	var mu sync.Mutex
	var wg sync.WaitGroup
	// RocksDB generations are compiled up front, concurrently with the cdb cases (their
	// compile time is dominated by fsync latency and varies a lot)
	seen := map[string]bool{}
	for _, c := range cases {
		if c.Cfg.Backend == "cdb" {
			continue
		}
		for _, d := range c.Disk {
			k := fmt.Sprintf("%s/%d/%v/%v", c.Cfg.Backend, d.File.Stamp, d.File.Key, d.File.OK)
			if d.File.OK && !seen[k] {
				seen[k] = true
				go pool.Template(c.Cfg.Backend, d.File)
			}
		}
	}
	// cases whose reloads time out leave a goroutine of db.Reload behind; the harness waits
	// for it by watching the goroutine dump, which only works while no other reload runs:
	// they form a second, sequential phase
	for phase := 0; phase < 2; phase++ {
		idx := make(chan int, len(cases))
		for i := range cases {
			if (phase == 1) == cases[i].Cfg.Timeout0 {
				idx <- i
			}
		}
		close(idx)
		workers := 8
		if phase == 1 {
			workers = 1
		}
		for wkr := 0; wkr < workers; wkr++ {
			wg.Add(1)
			go func(wkr int) {
				defer wg.Done()
				for i := range idx {
					c := cases[i]
					c.Derive()
					t1 := time.Now()
					c.Steps, c.Resps, c.RelErr, c.Err = rl.RunSched(pool, filepath.Join(base, fmt.Sprintf("w%d-%d", wkr, i)), &c, nil)
					mu.Lock()
					spent[c.Class+":"+c.Cfg.Backend] += time.Since(t1)
					mu.Unlock()
					out[i] = c
				}
			}(wkr)
		}
		wg.Wait()
	}
	wg.Wait()
	if os.Getenv("C05_PROFILE") != "" {
		fmt.Fprintf(rl.Stderr, "prof create=%v handler=%v run=%v close=%v rm=%v\n", time.Duration(rl.Prof[0]), time.Duration(rl.Prof[1]), time.Duration(rl.Prof[2]), time.Duration(rl.Prof[3]), time.Duration(rl.Prof[5]))
		for k, v := range spent {
			fmt.Fprintf(rl.Stderr, "  %-32s %v\n", k, v)
		}
	}
	for _, c := range out {
		e.Emit(c)
	}
	if a.Tier == "thorough" && a.Replay == "" {
		// free-running stress (support only): violations are reported as a harness-level error case
		for _, be := range []string{"cdb", "rdb2"} {
			msg := rl.Stress(pool, filepath.Join(base, "stress-"+be), be, 6, 4*time.Second)
			c := rl.Case{Kind: "sched", Class: "stress", Cfg: rl.Config{Backend: be}, Disk: smallDisk(0), P0: 0, Err: msg, Threads: []rl.ThreadSpec{}, Sched: []int{}}
			c.Derive()
			c.Steps, c.Resps, c.RelErr = []rl.Step{}, []rl.Resp{}, []string{}
			e.Emit(c)
		}
	}
	return nil
}

func main() {
	hlib.Main(func(a *hlib.Args, e *hlib.Emitter) error {
		t0 := time.Now()
		var cases []rl.Case
		if a.Replay != "" {
			raw, err := hlib.ReadReplay(a.Replay)
			if err != nil {
				return err
			}
			for _, m := range raw {
				b, _ := json.Marshal(m)
				var c rl.Case
				if err := json.Unmarshal(b, &c); err != nil {
					return err
				}
				c.Steps, c.Resps, c.RelErr, c.Err = nil, nil, nil, ""
				cases = append(cases, c)
			}
		} else {
			cases = generate(a)
		}
		err := runAll(a, e, cases)
		fmt.Fprintf(rl.Stderr, "c05: %d cases in %v\n", len(cases), time.Since(t0))
		return err
	})
}
