package main

import (
	"flag"
	"fmt"
	"os"

	"verifharness/rl"
)

func run(backend string, cfg rl.Config, disk map[int]rl.File, specs []rl.ThreadSpec, sched []int) {
	dir, _ := os.MkdirTemp("/var/tmp", "c05x")
	defer os.RemoveAll(dir)
	os.Setenv("TMPDIR", dir)
	w := &rl.World{Dir: dir, Backend: backend}
	for p, f := range disk {
		if err := w.Create(p, f); err != nil {
			fmt.Println("create:", err)
			return
		}
	}
	st := rl.NewSafeStats()
	cfg.Backend = backend
	h, err := rl.NewHandler(w, cfg, 0, st)
	if err != nil {
		fmt.Println("handler:", err)
		return
	}
	r := rl.NewRunner(w, h, st, disk, specs)
	r.Run(sched)
	fmt.Printf("%s cfg=%+v err=%q\n steps=%v\n", backend, cfg, r.Err, r.Steps)
	for i, s := range specs {
		switch s.Kind {
		case "q":
			fmt.Printf("  q%d %s: rcode=%d ans=%v extra=%v hit=%d\n", i, s.Name, r.Resps[i].Rcode, r.Resps[i].Ans, r.Resps[i].Extra, r.Resps[i].Hit)
		case "r":
			fmt.Printf("  r%d: %s\n", i, r.RelErr[i])
		}
	}
	h.Close()
}

func main() {
	flag.Set("logtostderr", "true")
	flag.Set("stderrthreshold", "FATAL")
	flag.Parse()
	q := func(name string, t int) rl.ThreadSpec {
		return rl.ThreadSpec{Kind: "q", Name: name, Qtype: t, IP: "198.51.100.7"}
	}
	for _, be := range []string{"cdb", "rdb1", "rdb2"} {
		g1 := rl.File{Stamp: 1, OK: true, Key: true}
		g2 := rl.File{Stamp: 2, OK: true, Key: true}
		g3nokey := rl.File{Stamp: 3, OK: true, Key: false}
		bad := rl.File{Stamp: 9, OK: false}
		// F5: MX query, partial reload between answered and additional
		run(be, rl.Config{}, map[int]rl.File{0: g1}, []rl.ThreadSpec{q("example.com.", 15), {Kind: "e", Path: 0, File: g2}, {Kind: "r"}, q("example.com.", 15)},
			[]int{0, 0, 0, 0, 0, 1, 2, 2, 2, 2, 2, 0, 0, 0, 3})
		// F6: cache; query computed on old gen inserts after purge
		run(be, rl.Config{Cache: true, LRU: 10}, map[int]rl.File{0: g1, 1: g2}, []rl.ThreadSpec{q("www.example.com.", 1), {Kind: "r", Full: true, Path: 1}, q("www.example.com.", 1)},
			[]int{0, 0, 0, 0, 0, 0, 1, 1, 1, 1, 1, 0, 0, 2})
		// failures: missing, unreadable, nokey full; then query
		run(be, rl.Config{VKey: true}, map[int]rl.File{0: g1, 2: g3nokey, 3: bad}, []rl.ThreadSpec{{Kind: "r", Full: true, Path: 7}, {Kind: "r", Full: true, Path: 3}, {Kind: "r", Full: true, Path: 2}, q("example.com.", 15), {Kind: "r"}, q("example.com.", 15)},
			[]int{0, 0, 1, 1, 2, 2, 3, 3, 3, 3, 3, 3, 3, 3, 4, 4, 4, 4, 4, 5})
		// partial + validation failure after update removing key
		run(be, rl.Config{VKey: true}, map[int]rl.File{0: g1}, []rl.ThreadSpec{{Kind: "e", Path: 0, File: g3nokey}, {Kind: "r"}, q("example.com.", 15)},
			[]int{0, 1, 1, 1, 1, 1, 2})
		// timeout: full, partial
		run(be, rl.Config{Timeout0: true}, map[int]rl.File{0: g1, 1: g2}, []rl.ThreadSpec{{Kind: "r", Full: true, Path: 1}, q("example.com.", 15), {Kind: "e", Path: 0, File: g2}, {Kind: "r"}, q("example.com.", 15)},
			[]int{0, 0, 1, 2, 3, 3, 4})
		// blocked probe: query started while reload holds lock
		run(be, rl.Config{}, map[int]rl.File{0: g1, 1: g2}, []rl.ThreadSpec{{Kind: "r", Full: true, Path: 1}, q("example.com.", 15)},
			[]int{0, 1, 0, 0})
	}
}
