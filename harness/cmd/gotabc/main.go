// gotabc: translator from the Go sources of dnsrocks to the Coq table of source
// constants (coq/Gen/Params.v).
//
// The hand-written Coq models contain constants copied from the Go source
// (default TTLs, key markers, sizes, default scopes, ...).  This program reads
// them off the source again on every run; coq/Proofs/ParamsTie.v proves that
// each generated value is the one the models use, so a drift of a constant in
// the Go source breaks a proof obligation.
//
// Standard library only: go/parser, go/ast, go/token, go/constant,
// go/build/constraint.  No type checker and no imports are resolved: named
// constants are evaluated by a small evaluator over go/constant that knows the
// constant declarations of the package itself (iota and implicit repetition
// included); literals that are not named constants are found by an AST pattern
// at their defining statement.  A pattern that no longer matches exactly once is
// an error (exit status 1, the item is named): the code shape the models were
// written after has changed.
//
// Production build only: _test.go files and files whose //go:build line is false
// without the verif tag are skipped.
//
// Output is deterministic: items sorted by name, no line numbers, no paths of
// the checkout.
package main

import (
	"bytes"
	"flag"
	"fmt"
	"go/ast"
	"go/build/constraint"
	"go/constant"
	"go/parser"
	"go/token"
	"os"
	"path/filepath"
	"sort"
	"strings"
)

// ---------------------------------------------------------------- loading

type pkg struct {
	short  string // name used in go_<short>_<item>
	dir    string // relative to <repo>/dnsrocks
	files  []*ast.File
	fname  map[*ast.File]string
	consts map[string]*constDecl
	vars   map[string]ast.Expr // package-level var name -> initialiser
	varIn  map[string]string   // package-level var name -> file
	memo   map[string]constant.Value
	busy   map[string]bool
}

type constDecl struct {
	expr ast.Expr
	iota int
	file *ast.File
}

var fset = token.NewFileSet()

func buildOK(src []byte) bool {
	for _, line := range strings.Split(string(src), "\n") {
		t := strings.TrimSpace(line)
		if strings.HasPrefix(t, "package ") {
			break
		}
		if constraint.IsGoBuild(t) {
			x, err := constraint.Parse(t)
			if err != nil {
				return true
			}
			return x.Eval(func(tag string) bool {
				switch tag {
				case "linux", "amd64", "cgo", "gc", "unix":
					return true
				}
				return strings.HasPrefix(tag, "go1.")
			})
		}
	}
	return true
}

func load(root, short, dir string) (*pkg, error) {
	p := &pkg{short: short, dir: dir, fname: map[*ast.File]string{}, consts: map[string]*constDecl{},
		vars: map[string]ast.Expr{}, varIn: map[string]string{}, memo: map[string]constant.Value{}, busy: map[string]bool{}}
	full := filepath.Join(root, "dnsrocks", dir)
	ents, err := os.ReadDir(full)
	if err != nil {
		return nil, err
	}
	var names []string
	for _, e := range ents {
		n := e.Name()
		if e.IsDir() || !strings.HasSuffix(n, ".go") || strings.HasSuffix(n, "_test.go") {
			continue
		}
		names = append(names, n)
	}
	sort.Strings(names)
	for _, n := range names {
		src, err := os.ReadFile(filepath.Join(full, n))
		if err != nil {
			return nil, err
		}
		if !buildOK(src) {
			continue
		}
		f, err := parser.ParseFile(fset, filepath.Join(dir, n), src, parser.SkipObjectResolution)
		if err != nil {
			return nil, err
		}
		p.files = append(p.files, f)
		p.fname[f] = dir + "/" + n
		for _, d := range f.Decls {
			gd, ok := d.(*ast.GenDecl)
			if !ok {
				continue
			}
			switch gd.Tok {
			case token.CONST:
				var last []ast.Expr
				for i, s := range gd.Specs {
					vs := s.(*ast.ValueSpec)
					vals := vs.Values
					if len(vals) == 0 {
						vals = last // implicit repetition of the previous expression list
					} else {
						last = vals
					}
					for j, id := range vs.Names {
						if j < len(vals) {
							p.consts[id.Name] = &constDecl{expr: vals[j], iota: i, file: f}
						}
					}
				}
			case token.VAR:
				for _, s := range gd.Specs {
					vs := s.(*ast.ValueSpec)
					for j, id := range vs.Names {
						if j < len(vs.Values) {
							p.vars[id.Name] = vs.Values[j]
							p.varIn[id.Name] = dir + "/" + n
						}
					}
				}
			}
		}
	}
	if len(p.files) == 0 {
		return nil, fmt.Errorf("%s: no production Go files", dir)
	}
	return p, nil
}

// ---------------------------------------------------------------- constant evaluation

var intTypes = map[string]bool{"int": true, "int8": true, "int16": true, "int32": true, "int64": true,
	"uint": true, "uint8": true, "uint16": true, "uint32": true, "uint64": true, "byte": true, "rune": true, "uintptr": true}

func (p *pkg) named(name string) (constant.Value, error) {
	if v, ok := p.memo[name]; ok {
		return v, nil
	}
	d, ok := p.consts[name]
	if !ok {
		return nil, fmt.Errorf("%s is not a constant of package %s", name, p.dir)
	}
	if p.busy[name] {
		return nil, fmt.Errorf("constant cycle at %s", name)
	}
	p.busy[name] = true
	v, err := p.eval(d.expr, d.iota)
	p.busy[name] = false
	if err != nil {
		return nil, err
	}
	p.memo[name] = v
	return v, nil
}

// eval evaluates a constant expression built from literals, constants of the same
// package, iota, operators and conversions to the built-in integer types.
func (p *pkg) eval(e ast.Expr, iota int) (constant.Value, error) {
	switch x := e.(type) {
	case *ast.BasicLit:
		v := constant.MakeFromLiteral(x.Value, x.Kind, 0)
		if v.Kind() == constant.Unknown {
			return nil, fmt.Errorf("bad literal %s", x.Value)
		}
		return v, nil
	case *ast.ParenExpr:
		return p.eval(x.X, iota)
	case *ast.Ident:
		switch x.Name {
		case "iota":
			if iota < 0 {
				return nil, fmt.Errorf("iota outside a constant declaration")
			}
			return constant.MakeInt64(int64(iota)), nil
		case "true":
			return constant.MakeBool(true), nil
		case "false":
			return constant.MakeBool(false), nil
		}
		return p.named(x.Name)
	case *ast.UnaryExpr:
		v, err := p.eval(x.X, iota)
		if err != nil {
			return nil, err
		}
		return constant.UnaryOp(x.Op, v, 0), nil
	case *ast.BinaryExpr:
		a, err := p.eval(x.X, iota)
		if err != nil {
			return nil, err
		}
		b, err := p.eval(x.Y, iota)
		if err != nil {
			return nil, err
		}
		switch x.Op {
		case token.SHL, token.SHR:
			n, ok := constant.Uint64Val(constant.ToInt(b))
			if !ok || n > 4096 {
				return nil, fmt.Errorf("bad shift count")
			}
			return constant.Shift(constant.ToInt(a), x.Op, uint(n)), nil
		case token.QUO:
			if a.Kind() == constant.Int && b.Kind() == constant.Int {
				if constant.Sign(b) == 0 {
					return nil, fmt.Errorf("division by zero")
				}
				return constant.BinaryOp(a, token.QUO_ASSIGN, b), nil // integer division
			}
		case token.EQL, token.NEQ, token.LSS, token.LEQ, token.GTR, token.GEQ:
			return constant.MakeBool(constant.Compare(a, x.Op, b)), nil
		}
		return constant.BinaryOp(a, x.Op, b), nil
	case *ast.CallExpr:
		if id, ok := x.Fun.(*ast.Ident); ok && len(x.Args) == 1 {
			if intTypes[id.Name] {
				v, err := p.eval(x.Args[0], iota)
				if err != nil {
					return nil, err
				}
				v = constant.ToInt(v)
				if v.Kind() != constant.Int {
					return nil, fmt.Errorf("conversion %s(...) of a non-integer", id.Name)
				}
				return v, nil
			}
			if id.Name == "string" {
				return p.eval(x.Args[0], iota)
			}
		}
	}
	return nil, fmt.Errorf("not a constant expression this translator evaluates: %s", exprStr(e))
}

func isByteType(e ast.Expr) bool {
	id, ok := e.(*ast.Ident)
	return ok && (id.Name == "byte" || id.Name == "uint8")
}

func isByteSliceType(e ast.Expr) bool {
	at, ok := e.(*ast.ArrayType)
	return ok && isByteType(at.Elt)
}

// evalBytes evaluates []byte{...}, []byte("..."), a string constant, or a package-level
// variable initialised with one of these.
func (p *pkg) evalBytes(e ast.Expr) ([]byte, error) {
	switch x := e.(type) {
	case *ast.ParenExpr:
		return p.evalBytes(x.X)
	case *ast.CompositeLit:
		if !isByteSliceType(x.Type) {
			return nil, fmt.Errorf("composite literal is not a byte slice / array: %s", exprStr(e))
		}
		var out []byte
		for _, el := range x.Elts {
			if _, kv := el.(*ast.KeyValueExpr); kv {
				return nil, fmt.Errorf("indexed byte literal not supported: %s", exprStr(e))
			}
			v, err := p.eval(el, -1)
			if err != nil {
				return nil, err
			}
			n, ok := constant.Uint64Val(constant.ToInt(v))
			if !ok || n > 255 {
				return nil, fmt.Errorf("byte out of range in %s", exprStr(e))
			}
			out = append(out, byte(n))
		}
		return out, nil
	case *ast.CallExpr:
		if isByteSliceType(x.Fun) && len(x.Args) == 1 {
			return p.evalBytes(x.Args[0])
		}
	case *ast.Ident:
		if init, ok := p.vars[x.Name]; ok {
			return p.evalBytes(init)
		}
	}
	v, err := p.eval(e, -1)
	if err != nil {
		return nil, err
	}
	if v.Kind() != constant.String {
		return nil, fmt.Errorf("not a string / byte-slice constant: %s", exprStr(e))
	}
	return []byte(constant.StringVal(v)), nil
}

func exprStr(e ast.Expr) string {
	var b bytes.Buffer
	writeExpr(&b, e)
	return b.String()
}

func writeExpr(b *bytes.Buffer, e ast.Expr) {
	switch x := e.(type) {
	case *ast.Ident:
		b.WriteString(x.Name)
	case *ast.BasicLit:
		b.WriteString(x.Value)
	case *ast.SelectorExpr:
		writeExpr(b, x.X)
		b.WriteString(".")
		b.WriteString(x.Sel.Name)
	case *ast.BinaryExpr:
		writeExpr(b, x.X)
		b.WriteString(" " + x.Op.String() + " ")
		writeExpr(b, x.Y)
	case *ast.ParenExpr:
		b.WriteString("(")
		writeExpr(b, x.X)
		b.WriteString(")")
	case *ast.CallExpr:
		writeExpr(b, x.Fun)
		b.WriteString("(")
		for i, a := range x.Args {
			if i > 0 {
				b.WriteString(", ")
			}
			writeExpr(b, a)
		}
		b.WriteString(")")
	case *ast.StarExpr:
		b.WriteString("*")
		writeExpr(b, x.X)
	case *ast.ArrayType:
		b.WriteString("[]")
		writeExpr(b, x.Elt)
	case *ast.UnaryExpr:
		b.WriteString(x.Op.String())
		writeExpr(b, x.X)
	default:
		fmt.Fprintf(b, "<%T>", e)
	}
}

// ---------------------------------------------------------------- items

type item struct {
	name    string // Coq name without the go_ prefix: <pkg>_<name>
	isBytes bool
	n       constant.Value
	b       []byte
	where   string // file and declaration
	how     string // "named constant" or the AST pattern
}

var (
	items  []item
	errors []string
)

func fail(name string, err error) {
	errors = append(errors, fmt.Sprintf("%s: %v", name, err))
}

func addN(name string, v constant.Value, where, how string) {
	v = constant.ToInt(v)
	if v.Kind() != constant.Int || constant.Sign(v) < 0 {
		fail(name, fmt.Errorf("value %s is not a natural number", v))
		return
	}
	items = append(items, item{name: name, n: v, where: where, how: how})
}

func addB(name string, b []byte, where, how string) {
	items = append(items, item{name: name, isBytes: true, b: b, where: where, how: how})
}

// namedN: a named integer constant of the package
func (p *pkg) namedN(name string) {
	full := p.short + "_" + name
	d, ok := p.consts[name]
	if !ok {
		fail(full, fmt.Errorf("constant %s not found in %s", name, p.dir))
		return
	}
	v, err := p.named(name)
	if err != nil {
		fail(full, err)
		return
	}
	addN(full, v, p.fname[d.file]+": const "+name, "named constant")
}

// namedB: a named string constant or a package-level byte-slice variable
func (p *pkg) namedB(name string) {
	full := p.short + "_" + name
	if d, ok := p.consts[name]; ok {
		b, err := p.evalBytes(d.expr)
		if err != nil {
			fail(full, err)
			return
		}
		addB(full, b, p.fname[d.file]+": const "+name, "named constant (string, as bytes)")
		return
	}
	if init, ok := p.vars[name]; ok {
		b, err := p.evalBytes(init)
		if err != nil {
			fail(full, err)
			return
		}
		addB(full, b, p.varIn[name]+": var "+name, "package-level variable initialised with a byte-slice literal")
		return
	}
	fail(full, fmt.Errorf("%s is neither a constant nor a package-level variable of %s", name, p.dir))
}

func recvTypeName(fd *ast.FuncDecl) string {
	if fd.Recv == nil || len(fd.Recv.List) == 0 {
		return ""
	}
	t := fd.Recv.List[0].Type
	if s, ok := t.(*ast.StarExpr); ok {
		t = s.X
	}
	if id, ok := t.(*ast.Ident); ok {
		return id.Name
	}
	return ""
}

// fn finds the function (recv == "") or method of the package
func (p *pkg) fn(recv, name string) (*ast.FuncDecl, string, error) {
	var found *ast.FuncDecl
	var file string
	for _, f := range p.files {
		for _, d := range f.Decls {
			fd, ok := d.(*ast.FuncDecl)
			if !ok || fd.Name.Name != name || recvTypeName(fd) != recv || fd.Body == nil {
				continue
			}
			if found != nil {
				return nil, "", fmt.Errorf("%s.%s declared twice", recv, name)
			}
			found, file = fd, p.fname[f]
		}
	}
	if found == nil {
		return nil, "", fmt.Errorf("function %s.%s not found in %s", recv, name, p.dir)
	}
	q := name
	if recv != "" {
		q = recv + "." + name
	}
	return found, file + ": func " + q, nil
}

func isSel(e ast.Expr, x, sel string) bool {
	s, ok := e.(*ast.SelectorExpr)
	if !ok || s.Sel.Name != sel {
		return false
	}
	id, ok := s.X.(*ast.Ident)
	return ok && id.Name == x
}

func isIdent(e ast.Expr, name string) bool {
	id, ok := e.(*ast.Ident)
	return ok && id.Name == name
}

// one: exactly one match
func one(name string, vals []constant.Value, what string) (constant.Value, bool) {
	if len(vals) != 1 {
		fail(name, fmt.Errorf("pattern [%s] matched %d times, expected exactly once", what, len(vals)))
		return nil, false
	}
	return vals[0], true
}

// ---------------------------------------------------------------- dnsdata

// every (*T).loadDefaults: assignments r.<field> = <constant expression>
func loadDefaultsItems(p *pkg) {
	n := 0
	for _, f := range p.files {
		for _, d := range f.Decls {
			fd, ok := d.(*ast.FuncDecl)
			if !ok || fd.Name.Name != "loadDefaults" || fd.Body == nil || recvTypeName(fd) == "" {
				continue
			}
			recv := fd.Recv.List[0].Names
			if len(recv) != 1 {
				continue
			}
			for _, st := range fd.Body.List { // top level only: unconditional defaults
				as, ok := st.(*ast.AssignStmt)
				if !ok || as.Tok != token.ASSIGN || len(as.Lhs) != 1 || len(as.Rhs) != 1 {
					continue
				}
				sel, ok := as.Lhs[0].(*ast.SelectorExpr)
				if !ok || !isIdent(sel.X, recv[0].Name) {
					continue
				}
				v, err := p.eval(as.Rhs[0], -1)
				if err != nil {
					continue // not a constant (r.ser = r.c.Serial sits under an if anyway)
				}
				how := "literal at the assignment " + exprStr(as.Lhs[0]) + " = " + exprStr(as.Rhs[0])
				if _, lit := as.Rhs[0].(*ast.BasicLit); !lit {
					how = "assignment " + exprStr(as.Lhs[0]) + " = " + exprStr(as.Rhs[0]) + " (named constant, evaluated)"
				}
				addN(p.short+"_"+recvTypeName(fd)+"_default_"+sel.Sel.Name, v,
					p.fname[f]+": func "+recvTypeName(fd)+".loadDefaults", how)
				n++
			}
		}
	}
	if n == 0 {
		fail(p.short+"_*_default_*", fmt.Errorf("no loadDefaults assignment found"))
	}
}

// (*Rtxt).MarshalMap:  if n > C { n = C }
func txtChunk(p *pkg) {
	const name = "dnsdata_Rtxt_chunk"
	fd, where, err := p.fn("Rtxt", "MarshalMap")
	if err != nil {
		fail(name, err)
		return
	}
	var vals []constant.Value
	ast.Inspect(fd.Body, func(n ast.Node) bool {
		is, ok := n.(*ast.IfStmt)
		if !ok || is.Init != nil || is.Else != nil || len(is.Body.List) != 1 {
			return true
		}
		c, ok := is.Cond.(*ast.BinaryExpr)
		if !ok || c.Op != token.GTR || !isIdent(c.X, "n") {
			return true
		}
		as, ok := is.Body.List[0].(*ast.AssignStmt)
		if !ok || as.Tok != token.ASSIGN || len(as.Lhs) != 1 || !isIdent(as.Lhs[0], "n") {
			return true
		}
		a, e1 := p.eval(c.Y, -1)
		b, e2 := p.eval(as.Rhs[0], -1)
		if e1 != nil || e2 != nil {
			return true
		}
		if !constant.Compare(a, token.EQL, b) {
			fail(name, fmt.Errorf("bound %s and clamp %s differ", a, b))
			return true
		}
		vals = append(vals, a)
		return true
	})
	if v, ok := one(name, vals, "if n > C { n = C }"); ok {
		how := "literal in  if n > C { n = C }  (bound and clamp agree)"
		addN(name, v, where, how)
	}
}

// putrrhead: if <no location> { if iswildcard { w.Write([]byte(A)) } else { w.Write([]byte(B)) } }
//            else             { if iswildcard { w.Write([]byte(C)) } else { w.Write([]byte(D)) } ... }
func rowMarkers(p *pkg) {
	const base = "dnsdata_putrrhead_"
	fd, where, err := p.fn("", "putrrhead")
	if err != nil {
		fail(base+"*", err)
		return
	}
	written := func(b *ast.BlockStmt) ([]byte, error) {
		// first statement: _, err = w.Write(<bytes>)
		if b == nil || len(b.List) == 0 {
			return nil, fmt.Errorf("empty branch")
		}
		as, ok := b.List[0].(*ast.AssignStmt)
		if !ok || len(as.Rhs) != 1 {
			return nil, fmt.Errorf("branch does not start with a Write")
		}
		call, ok := as.Rhs[0].(*ast.CallExpr)
		if !ok || !isSel(call.Fun, "w", "Write") || len(call.Args) != 1 {
			return nil, fmt.Errorf("branch does not start with w.Write")
		}
		return p.evalBytes(call.Args[0])
	}
	wildIf := func(b *ast.BlockStmt) (*ast.IfStmt, error) {
		if b == nil || len(b.List) == 0 {
			return nil, fmt.Errorf("empty block")
		}
		is, ok := b.List[0].(*ast.IfStmt)
		if !ok || !isIdent(is.Cond, "iswildcard") {
			return nil, fmt.Errorf("block does not start with  if iswildcard")
		}
		if _, ok := is.Else.(*ast.BlockStmt); !ok {
			return nil, fmt.Errorf("if iswildcard without else block")
		}
		return is, nil
	}
	var outer []*ast.IfStmt
	for _, st := range fd.Body.List {
		if is, ok := st.(*ast.IfStmt); ok {
			if _, err := wildIf(is.Body); err == nil {
				outer = append(outer, is)
			}
		}
	}
	if len(outer) != 1 {
		fail(base+"*", fmt.Errorf("expected one  if <no location> { if iswildcard ... } else { if iswildcard ... }, found %d", len(outer)))
		return
	}
	// the outer condition must be the no-location test: it mentions len(loc) != 2
	if !strings.Contains(exprStr(outer[0].Cond), "len(loc) != 2") {
		fail(base+"*", fmt.Errorf("outer condition is no longer the no-location test: %s", exprStr(outer[0].Cond)))
		return
	}
	eb, ok := outer[0].Else.(*ast.BlockStmt)
	if !ok {
		fail(base+"*", fmt.Errorf("no else block"))
		return
	}
	in1, _ := wildIf(outer[0].Body)
	in2, err := wildIf(eb)
	if err != nil {
		fail(base+"*", err)
		return
	}
	for _, c := range []struct {
		nm string
		b  *ast.BlockStmt
	}{{"noloc_wild", in1.Body}, {"noloc_exact", in1.Else.(*ast.BlockStmt)}, {"loc_wild", in2.Body}, {"loc_exact", in2.Else.(*ast.BlockStmt)}} {
		bs, err := written(c.b)
		if err != nil || len(bs) != 1 {
			fail(base+c.nm, fmt.Errorf("marker is not a one-byte literal (%v)", err))
			continue
		}
		addN(base+c.nm, constant.MakeInt64(int64(bs[0])), where,
			"character literal written in the "+strings.Replace(c.nm, "_", " / ", 1)+" branch (w.Write([]byte(\"c\")))")
	}
}

// ---------------------------------------------------------------- dnsdata/rdb

// compileBatches: numParallel = <constant> (inside  if numParallel <= 0)
func unlimitedParallel(p *pkg) {
	const name = "rdb_compileBatches_unlimited_parallel"
	fd, where, err := p.fn("", "compileBatches")
	if err != nil {
		fail(name, err)
		return
	}
	var vals []constant.Value
	ast.Inspect(fd.Body, func(n ast.Node) bool {
		as, ok := n.(*ast.AssignStmt)
		if !ok || as.Tok != token.ASSIGN || len(as.Lhs) != 1 || !isIdent(as.Lhs[0], "numParallel") {
			return true
		}
		if v, err := p.eval(as.Rhs[0], -1); err == nil {
			vals = append(vals, v)
		}
		return true
	})
	if v, ok := one(name, vals, "numParallel = <constant>"); ok {
		addN(name, v, where, "constant expression at the assignment numParallel = 1 << 30 (taken when BatchNumParallel <= 0)")
	}
}

// ---------------------------------------------------------------- db

func isEcsScope(e ast.Expr) bool { return isSel(e, "ecs", "SourceScope") }

// familyTest: ecs.Family == K
func familyTest(p *pkg, e ast.Expr) (constant.Value, bool) {
	c, ok := e.(*ast.BinaryExpr)
	if !ok || c.Op != token.EQL || !isSel(c.X, "ecs", "Family") {
		return nil, false
	}
	v, err := p.eval(c.Y, -1)
	return v, err == nil
}

func ecsItems(p *pkg) {
	const base = "db_EcsLocation_"
	fd, where, err := p.fn("DataReader", "EcsLocation")
	if err != nil {
		fail(base+"*", err)
		return
	}
	// (a)  ecs.SourceScope = C1 ; if ecs.Family == K { ecs.SourceScope = C2 }
	type dflt struct{ c1, k, c2 constant.Value }
	var dflts []dflt
	// (b)  if ecs.Family == K { ecs.SourceScope -= C }
	type off struct{ k, c constant.Value }
	var offs []off
	// (c)  r.findLocation(q, <bytes>, ...)
	var mtypes [][]byte
	ast.Inspect(fd.Body, func(n ast.Node) bool {
		switch x := n.(type) {
		case *ast.BlockStmt:
			for i := 0; i+1 < len(x.List); i++ {
				as, ok := x.List[i].(*ast.AssignStmt)
				if !ok || as.Tok != token.ASSIGN || len(as.Lhs) != 1 || !isEcsScope(as.Lhs[0]) {
					continue
				}
				c1, err := p.eval(as.Rhs[0], -1)
				if err != nil {
					continue
				}
				is, ok := x.List[i+1].(*ast.IfStmt)
				if !ok || is.Else != nil || len(is.Body.List) != 1 {
					continue
				}
				k, ok := familyTest(p, is.Cond)
				if !ok {
					continue
				}
				as2, ok := is.Body.List[0].(*ast.AssignStmt)
				if !ok || as2.Tok != token.ASSIGN || len(as2.Lhs) != 1 || !isEcsScope(as2.Lhs[0]) {
					continue
				}
				c2, err := p.eval(as2.Rhs[0], -1)
				if err != nil {
					continue
				}
				dflts = append(dflts, dflt{c1, k, c2})
			}
		case *ast.IfStmt:
			if k, ok := familyTest(p, x.Cond); ok && x.Else == nil && len(x.Body.List) == 1 {
				if as, ok := x.Body.List[0].(*ast.AssignStmt); ok && as.Tok == token.SUB_ASSIGN && len(as.Lhs) == 1 && isEcsScope(as.Lhs[0]) {
					if c, err := p.eval(as.Rhs[0], -1); err == nil {
						offs = append(offs, off{k, c})
					}
				}
			}
		case *ast.CallExpr:
			if s, ok := x.Fun.(*ast.SelectorExpr); ok && s.Sel.Name == "findLocation" && len(x.Args) >= 2 {
				if b, err := p.evalBytes(x.Args[1]); err == nil {
					mtypes = append(mtypes, b)
				}
			}
		}
		return true
	})
	if len(dflts) != 1 {
		fail(base+"default_scope", fmt.Errorf("pattern [ecs.SourceScope = C1; if ecs.Family == K { ecs.SourceScope = C2 }] matched %d times", len(dflts)))
	} else {
		d := dflts[0]
		addN(base+"default_scope", d.c1, where, "literal C1 in  ecs.SourceScope = C1; if ecs.Family == K { ecs.SourceScope = C2 }  (default scope, no location matched)")
		addN(base+"default_scope_other_family", d.k, where, "literal K of the same statement pair (the family that gets C2)")
		addN(base+"default_scope_other", d.c2, where, "literal C2 of the same statement pair")
	}
	if len(offs) != 1 {
		fail(base+"v4_offset", fmt.Errorf("pattern [if ecs.Family == K { ecs.SourceScope -= C }] matched %d times", len(offs)))
	} else {
		addN(base+"v4_offset", offs[0].c, where, "literal C in  if ecs.Family == K { ecs.SourceScope -= C }")
		addN(base+"v4_offset_family", offs[0].k, where, "literal K of the same statement")
	}
	if len(mtypes) != 1 {
		fail(base+"map_type", fmt.Errorf("pattern [r.findLocation(q, <byte literal>, ...)] matched %d times", len(mtypes)))
	} else {
		addB(base+"map_type", mtypes[0], where, "byte-slice literal, second argument of r.findLocation")
	}
}

// ---------------------------------------------------------------- dnsserver

func isUnixNow(e ast.Expr) bool {
	// time.Now().Unix()
	c, ok := e.(*ast.CallExpr)
	if !ok || len(c.Args) != 0 {
		return false
	}
	s, ok := c.Fun.(*ast.SelectorExpr)
	if !ok || s.Sel.Name != "Unix" {
		return false
	}
	c2, ok := s.X.(*ast.CallExpr)
	return ok && isSel(c2.Fun, "time", "Now")
}

func cacheItems(p *pkg) {
	const life = "dnsserver_cache_lifetime"
	const kf = "dnsserver_cache_key_format"
	var lifes []constant.Value
	var fmts [][]byte
	var whereL, whereF string
	for _, f := range p.files {
		for _, d := range f.Decls {
			fd, ok := d.(*ast.FuncDecl)
			if !ok || fd.Body == nil {
				continue
			}
			q := fd.Name.Name
			if r := recvTypeName(fd); r != "" {
				q = r + "." + q
			}
			ast.Inspect(fd.Body, func(n ast.Node) bool {
				as, ok := n.(*ast.AssignStmt)
				if !ok || len(as.Lhs) != 1 || len(as.Rhs) != 1 {
					return true
				}
				if isIdent(as.Lhs[0], "timeout") {
					if b, ok := as.Rhs[0].(*ast.BinaryExpr); ok && b.Op == token.ADD && isUnixNow(b.X) {
						if v, err := p.eval(b.Y, -1); err == nil {
							lifes = append(lifes, v)
							whereL = p.fname[f] + ": func " + q
						}
					}
				}
				if isIdent(as.Lhs[0], "cacheKey") {
					if c, ok := as.Rhs[0].(*ast.CallExpr); ok && isSel(c.Fun, "fmt", "Sprintf") && len(c.Args) >= 1 {
						if b, err := p.evalBytes(c.Args[0]); err == nil {
							fmts = append(fmts, b)
							whereF = p.fname[f] + ": func " + q
						}
					}
				}
				return true
			})
		}
	}
	if v, ok := one(life, lifes, "timeout = time.Now().Unix() + <constant>"); ok {
		addN(life, v, whereL, "literal in  timeout = time.Now().Unix() + C  (seconds; entry of a non-weighted answer)")
	}
	if len(fmts) != 1 {
		fail(kf, fmt.Errorf("pattern [cacheKey = fmt.Sprintf(<string literal>, ...)] matched %d times", len(fmts)))
	} else {
		addB(kf, fmts[0], whereF, "string literal, first argument of  cacheKey = fmt.Sprintf(...)  (as bytes)")
	}
}

// ---------------------------------------------------------------- metrics

// callee(C * time.Second) inside recv.fn
func secondsArg(p *pkg, name, recv, fn string, callee func(ast.Expr) bool, what string) {
	fd, where, err := p.fn(recv, fn)
	if err != nil {
		fail(name, err)
		return
	}
	var vals []constant.Value
	bad := ""
	ast.Inspect(fd.Body, func(n ast.Node) bool {
		c, ok := n.(*ast.CallExpr)
		if !ok || !callee(c.Fun) || len(c.Args) != 1 {
			return true
		}
		b, ok := c.Args[0].(*ast.BinaryExpr)
		if !ok || b.Op != token.MUL || !isSel(b.Y, "time", "Second") {
			bad = exprStr(c.Args[0])
			return true
		}
		if v, err := p.eval(b.X, -1); err == nil {
			vals = append(vals, v)
		} else {
			bad = exprStr(c.Args[0])
		}
		return true
	})
	if bad != "" {
		fail(name, fmt.Errorf("argument is no longer  C * time.Second : %s", bad))
		return
	}
	if v, ok := one(name, vals, what); ok {
		addN(name, v, where, "literal C in  "+what+"  (seconds)")
	}
}

// ---------------------------------------------------------------- go-cdb-mods

// hashKey:  if len(key) < C
func hashThreshold(p *pkg) {
	const name = "gocdb_hashKey_threshold"
	fd, where, err := p.fn("", "hashKey")
	if err != nil {
		fail(name, err)
		return
	}
	var vals []constant.Value
	ast.Inspect(fd.Body, func(n ast.Node) bool {
		is, ok := n.(*ast.IfStmt)
		if !ok {
			return true
		}
		c, ok := is.Cond.(*ast.BinaryExpr)
		if !ok || c.Op != token.LSS {
			return true
		}
		l, ok := c.X.(*ast.CallExpr)
		if !ok || !isIdent(l.Fun, "len") || len(l.Args) != 1 || !isIdent(l.Args[0], "key") {
			return true
		}
		if v, err := p.eval(c.Y, -1); err == nil {
			vals = append(vals, v)
		}
		return true
	})
	if v, ok := one(name, vals, "if len(key) < C"); ok {
		addN(name, v, where, "literal C in  if len(key) < C  (shorter keys: one-shot spooky.Hash32, else the streaming hasher)")
	}
}

// ---------------------------------------------------------------- fbserver

// anyHandler.ServeDNS: dns.RR_Header{..., Ttl: C, ...} and dns.HINFO{..., Cpu: S1, Os: S2}
func anyItems(p *pkg) {
	const base = "fbserver_any_"
	fd, where, err := p.fn("anyHandler", "ServeDNS")
	if err != nil {
		fail(base+"*", err)
		return
	}
	var ttls []constant.Value
	var cpus, oss [][]byte
	ast.Inspect(fd.Body, func(n ast.Node) bool {
		cl, ok := n.(*ast.CompositeLit)
		if !ok {
			return true
		}
		switch {
		case isSel(cl.Type, "dns", "RR_Header"):
			for _, el := range cl.Elts {
				if kv, ok := el.(*ast.KeyValueExpr); ok && isIdent(kv.Key, "Ttl") {
					if v, err := p.eval(kv.Value, -1); err == nil {
						ttls = append(ttls, v)
					}
				}
			}
		case isSel(cl.Type, "dns", "HINFO"):
			for _, el := range cl.Elts {
				if kv, ok := el.(*ast.KeyValueExpr); ok {
					if isIdent(kv.Key, "Cpu") {
						if b, err := p.evalBytes(kv.Value); err == nil {
							cpus = append(cpus, b)
						}
					}
					if isIdent(kv.Key, "Os") {
						if b, err := p.evalBytes(kv.Value); err == nil {
							oss = append(oss, b)
						}
					}
				}
			}
		}
		return true
	})
	if v, ok := one(base+"ttl", ttls, "dns.RR_Header{Ttl: C}"); ok {
		addN(base+"ttl", v, where, "literal in the composite literal dns.RR_Header{..., Ttl: C, ...}")
	}
	if len(cpus) != 1 || len(oss) != 1 {
		fail(base+"hinfo_*", fmt.Errorf("pattern [dns.HINFO{Cpu: S1, Os: S2}] matched %d / %d times", len(cpus), len(oss)))
	} else {
		addB(base+"hinfo_cpu", cpus[0], where, "string literal in the composite literal dns.HINFO{Cpu: S, ...} (as bytes)")
		addB(base+"hinfo_os", oss[0], where, "string literal in the composite literal dns.HINFO{..., Os: S} (as bytes)")
	}
}

// ---------------------------------------------------------------- output

func coqComment(s string) string {
	// Coq comments must not hold an unbalanced double quote or a comment delimiter
	s = strings.ReplaceAll(s, "\"", "'")
	s = strings.ReplaceAll(s, "(*", "( *")
	s = strings.ReplaceAll(s, "*)", "* )")
	return s
}

func render() string {
	sort.Slice(items, func(i, j int) bool { return items[i].name < items[j].name })
	var b strings.Builder
	b.WriteString("(* GENERATED by harness/cmd/gotabc from the Go sources of dnsrocks - DO NOT EDIT.\n")
	b.WriteString("   Rewritten by lib/paramsgen.py on every run of a check that owns one of these constants\n")
	b.WriteString("   (only when the content changes).  Constants and literals of the production build that the\n")
	b.WriteString("   hand-written Coq models copy; coq/Proofs/ParamsTie.v proves for each one that it is the\n")
	b.WriteString("   value the models use.  Byte strings are lists of N.  Each item says where it was read and\n")
	b.WriteString("   whether it is a named constant or a literal found by an AST pattern at its defining statement. *)\n")
	b.WriteString("From Coq Require Import NArith List.\nImport ListNotations.\nOpen Scope N_scope.\n\n")
	for _, it := range items {
		fmt.Fprintf(&b, "(* %s\n   %s *)\n", coqComment(it.where), coqComment(it.how))
		if it.isBytes {
			parts := make([]string, len(it.b))
			for i, c := range it.b {
				parts[i] = fmt.Sprint(int(c))
			}
			fmt.Fprintf(&b, "Definition go_%s : list N := [%s].\n\n", it.name, strings.Join(parts, "; "))
		} else {
			fmt.Fprintf(&b, "Definition go_%s : N := %s.\n\n", it.name, it.n.ExactString())
		}
	}
	fmt.Fprintf(&b, "(* %d items *)\n", len(items))
	return b.String()
}

func main() {
	repo := flag.String("repo", "/repo", "checkout that contains dnsrocks/")
	out := flag.String("out", "", "output file (default: standard output)")
	flag.Parse()

	must := func(short, dir string) *pkg {
		p, err := load(*repo, short, dir)
		if err != nil {
			fmt.Fprintf(os.Stderr, "gotabc: %s: %v\n", dir, err)
			os.Exit(1)
		}
		return p
	}

	dd := must("dnsdata", "dnsdata")
	for _, c := range []string{"LongTTL", "ShortTTL", "LinkTTL", "MlenNoLoc"} {
		dd.namedN(c)
	}
	for _, c := range []string{"RangePointKeyMarker", "ResourceRecordsKeyMarker", "FeaturesKey"} {
		dd.namedB(c)
	}
	loadDefaultsItems(dd)
	txtChunk(dd)
	rowMarkers(dd)

	rdb := must("rdb", "dnsdata/rdb")
	rdb.namedN("minBucketSize")
	rdb.namedN("DefaultBatchSize")
	unlimitedParallel(rdb)

	db := must("db", "db")
	for _, v := range []string{"maskLensKeyElement", "maskLensKeyElementv4", "maskLensKeyElementv6", "ipMapKeyElement",
		"ipMapRangePointKeyElement", "wildcardKeyElement", "exactMatchKeyElement"} {
		db.namedB(v)
	}
	ecsItems(db)

	ds := must("dnsserver", "dnsserver")
	ds.namedN("DefaultMaxAnswer")
	cacheItems(ds)

	mt := must("metrics", "metrics")
	secondsArg(mt, "metrics_AddSample_window_seconds", "Stats", "AddSample",
		func(e ast.Expr) bool { return isIdent(e, "newSlidingWindow") }, "newSlidingWindow(C * time.Second)")
	secondsArg(mt, "metrics_cleaner_tick_seconds", "slidingWindow", "cleaner",
		func(e ast.Expr) bool { return isSel(e, "time", "NewTicker") }, "time.NewTicker(C * time.Second)")

	cdb := must("gocdb", "go-cdb-mods")
	cdb.namedN("headerSize")
	hashThreshold(cdb)

	fb := must("fbserver", "fbserver")
	anyItems(fb)

	if len(errors) > 0 {
		sort.Strings(errors)
		for _, e := range errors {
			fmt.Fprintln(os.Stderr, "gotabc: "+e)
		}
		os.Exit(1)
	}
	seen := map[string]bool{}
	for _, it := range items {
		if seen[it.name] {
			fmt.Fprintln(os.Stderr, "gotabc: duplicate item "+it.name)
			os.Exit(1)
		}
		seen[it.name] = true
	}
	text := render()
	if *out == "" {
		fmt.Print(text)
		return
	}
	if err := os.WriteFile(*out, []byte(text), 0o644); err != nil {
		fmt.Fprintln(os.Stderr, "gotabc:", err)
		os.Exit(1)
	}
}
