// C20 harness: a real fbserver.Server (child process of this binary, loopback
// UDP + TCP listeners, one address per max-answer value) is queried with raw
// DNS messages through miekg's client connection; the very same wire message is
// given in-process to a bare dnsserver.FBDNSDB over the same database.
//
// What is compared (see lib/props/c20.py and coq/Run/C20.v):
//
//	reply     the transport reply, projected from the bytes read from the socket
//	bare      the message the bare handler hands to WriteMsg when it is given a
//	          ResponseWriter with the SAME transport semantics (UDP or TCP remote
//	          address, client 127.0.0.1) and the listener's max answer in the
//	          context; packed with Pack() exactly as the server's writer does and
//	          projected from those bytes (so wire lengths are comparable too)
//	full      (UDP cases) the same with TCP semantics, i.e. before truncation,
//	          with the length table Truncate works on (Msg.Len of growing prefixes)
//
// Owner names are reported exactly; Run/C20.v compares records as multisets of
// (lower-cased owner, type, class, ttl, rdata), the question section, header bits,
// id and wire length exactly.
//
// The server runs in a child process so that a crash of the server (for example
// an index panic in a front handler) is an observation (alive=false), not a
// crash of the harness.  Configurations with "accept_all" replace miekg's
// dns.DefaultMsgAcceptFunc in the child so that messages without exactly one
// question reach fbserver's serveMux (with the default function miekg answers
// them itself with FORMERR and the guard is never reached).
package main

import (
	"bufio"
	"context"
	"crypto/sha1"
	"encoding/json"
	"flag"
	"fmt"
	"net"
	"os"
	"os/exec"
	"path/filepath"
	"strings"
	"sync"
	"time"

	"github.com/coredns/coredns/plugin/pkg/dnstest"
	"github.com/miekg/dns"

	"github.com/facebookincubator/dns/dnsrocks/db"
	"github.com/facebookincubator/dns/dnsrocks/dnsdata/cdb"
	"github.com/facebookincubator/dns/dnsrocks/dnsdata/rdb"
	"github.com/facebookincubator/dns/dnsrocks/dnsserver"
	"github.com/facebookincubator/dns/dnsrocks/dnsserver/stats"
	"github.com/facebookincubator/dns/dnsrocks/dnsserver/test"
	"github.com/facebookincubator/dns/dnsrocks/fbserver"
	"github.com/facebookincubator/dns/dnsrocks/metrics"

	"verifharness/hlib"
)

// ---------------------------------------------------------------- data

const whoamiDomain = "whoami.c20.test."

func dataFile() string {
	var b strings.Builder
	w := func(f string, a ...interface{}) { fmt.Fprintf(&b, f+"\n", a...) }
	w("Zc20.test,a.ns.c20.test,dns.c20.test,123,7200,1800,604800,120,120,,")
	w("&c20.test,,a.ns.c20.test,172800,,")
	w("&c20.test,,b.ns.c20.test,172800,,")
	w("+a.ns.c20.test,10.0.0.1,172800,,")
	w("+b.ns.c20.test,10.0.0.2,172800,,")
	w("+b.ns.c20.test,2001:db8::b,172800,,")
	w("@c20.test,,mx1.c20.test,10,300")
	w("+mx1.c20.test,10.0.0.3,300,,")
	// one address per family
	w("+one.c20.test,192.0.2.1,300,,")
	w("+one.c20.test,2001:db8::1,300,,")
	// several addresses: the number returned is the listener's max answer
	for i := 1; i <= 2; i++ {
		w("+two.c20.test,192.0.2.%d,300,,,1", 20+i)
	}
	for i := 1; i <= 4; i++ {
		w("+four.c20.test,192.0.2.%d,300,,,1", 40+i)
		w("+four.c20.test,2001:db8::4:%d,300,,,1", i)
	}
	for i := 1; i <= 6; i++ {
		w("+six.c20.test,192.0.2.%d,300,,,%d", 60+i, i)
	}
	w("'txt.c20.test,hello world,300,,")
	w("Cwww.c20.test,one.c20.test,3600,,")
	w("C*.wild.c20.test,one.c20.test,1800,,")
	// responses larger than 512 / 1232 / 4096 bytes
	pad := func(tag string, i, n int) string {
		s := fmt.Sprintf("%s-%02d-", tag, i)
		for len(s) < n {
			s += "abcdefghijklmnopqrstuvwxyz0123456789"
		}
		return s[:n]
	}
	for i := 0; i < 4; i++ {
		w("'mid.c20.test,%s,300,,", pad("mid", i, 180)) // ~ 850 bytes
	}
	for i := 0; i < 10; i++ {
		w("'big.c20.test,%s,300,,", pad("big", i, 200)) // ~ 2300 bytes
	}
	for i := 0; i < 24; i++ {
		w("'huge.c20.test,%s,300,,", pad("huge", i, 220)) // ~ 5900 bytes
	}
	for i := 0; i < 12; i++ { // MX with additional section
		w("@manymx.c20.test,,mx%02d.manymx.c20.test,%d,300", i, 10+i)
		w("+mx%02d.manymx.c20.test,10.1.0.%d,300,,", i, i+1)
		w("+mx%02d.manymx.c20.test,2001:db8:1::%d,300,,", i, i+1)
	}
	// delegation with many name servers and glue (referral: AA clear, > 512 bytes)
	for i := 0; i < 14; i++ {
		w("&sub.c20.test,,ns%02d.sub.c20.test,172800,,", i)
		w("+ns%02d.sub.c20.test,10.2.0.%d,172800,,", i, i+1)
		w("+ns%02d.sub.c20.test,2001:db8:2::%d,172800,,", i, i+1)
	}
	// the whoami name also exists in the database
	w("'whoami.c20.test,from the database,300,,")
	w("+whoami.c20.test,192.0.2.99,300,,")
	return b.String()
}

// ---------------------------------------------------------------- configuration

type srvConf struct {
	Whoami    string         `json:"whoami"`                // "" = handler not installed
	RefuseAny bool           `json:"refuse_any"`            // anyHandler installed
	AcceptAll bool           `json:"accept_all"`            // dns.DefaultMsgAcceptFunc replaced by accept-everything (lets the serveMux guard be reached)
	Driver    string         `json:"driver"`                // cdb | v1 | v2
	Compress  bool           `json:"compress"`              // HandlerConfig.AlwaysCompress
	IPs       map[string]int `json:"ips"`                   // listener address -> max answer
	Cache     bool           `json:"cache,omitempty"`       // CacheConfig.Enabled (opt-in configurations only)
	WRS       int64          `json:"wrs_timeout,omitempty"` // CacheConfig.WRSTimeout
}

func (c srvConf) key() string {
	b, _ := json.Marshal(c)
	return string(b)
}

type childConf struct {
	Conf srvConf `json:"conf"`
	Path string  `json:"path"`
	Port int     `json:"port"`
}

var listenerIPs = map[string]int{"127.0.0.1": 1, "127.0.0.2": 2, "127.0.0.3": 3, "127.0.0.4": 4}

func allConfs() []srvConf {
	var res []srvConf
	drivers := []string{"cdb", "v2", "v1"}
	k := 0
	for _, acc := range []bool{false, true} {
		for _, who := range []string{"", whoamiDomain} {
			for _, ref := range []bool{false, true} {
				res = append(res, srvConf{Whoami: who, RefuseAny: ref, AcceptAll: acc, Driver: drivers[k%3], Compress: k%4 == 3, IPs: listenerIPs})
				k++
			}
		}
	}
	// the whoami domain as an operator would type it (no trailing dot, mixed case)
	res = append(res, srvConf{Whoami: "WhoAmI.c20.TEST", RefuseAny: true, AcceptAll: false, Driver: "v2", Compress: true, IPs: listenerIPs})
	res = append(res, srvConf{Whoami: "WhoAmI.c20.TEST", RefuseAny: false, AcceptAll: true, Driver: "cdb", Compress: false, IPs: listenerIPs})
	// Opt-in (environment C20_CACHE_CONFIGS=1): the response cache, which is off by
	// default and outside the property's quantifier.  With a WRS timeout the cache
	// key has no max answer in it, so listeners with different settings share entries.
	if os.Getenv("C20_CACHE_CONFIGS") != "" {
		res = append(res, srvConf{Whoami: "", RefuseAny: false, AcceptAll: false, Driver: "cdb", IPs: listenerIPs, Cache: true, WRS: 0})
		res = append(res, srvConf{Whoami: "", RefuseAny: true, AcceptAll: false, Driver: "cdb", IPs: listenerIPs, Cache: true, WRS: 60})
	}
	return res
}

type metricsStub struct{}

func (metricsStub) ConsumeStats(category string, s *metrics.Stats) error { return nil }

func dbPath(scratch, driver, who string) string {
	switch driver {
	case "cdb":
		return filepath.Join(scratch, "c20data", "data.cdb")
	default:
		return filepath.Join(scratch, "c20data", "rdb-"+driver)
	}
}

func driverName(d string) string {
	if d == "cdb" {
		return "cdb"
	}
	return "rocksdb"
}

func buildData(scratch string) error {
	dir := filepath.Join(scratch, "c20data")
	if err := os.MkdirAll(dir, 0o755); err != nil {
		return err
	}
	in := filepath.Join(dir, "data.in")
	if err := os.WriteFile(in, []byte(dataFile()), 0o644); err != nil {
		return err
	}
	if _, err := cdb.CreateCDB(in, filepath.Join(dir, "data.cdb"), nil); err != nil {
		return fmt.Errorf("cdb compile: %w", err)
	}
	// the RocksDB readers open the directory as secondary instances, so the server
	// (child process) and the bare handler (this process) can share it
	for _, v := range []string{"v1", "v2"} {
		p := dbPath(scratch, v, "")
		os.RemoveAll(p)
		if err := os.MkdirAll(p, 0o755); err != nil {
			return err
		}
		if _, err := rdb.CompileToSpecificRDBVersion(in, p, rdb.CompilationOptions{UseV2KeySyntax: v == "v2", UseBuilder: true}); err != nil {
			return fmt.Errorf("rdb compile %s: %w", v, err)
		}
	}
	return nil
}

// ---------------------------------------------------------------- child: the server under test

func serveChild(arg string) error {
	var cc childConf
	if err := json.Unmarshal([]byte(arg), &cc); err != nil {
		return err
	}
	flag.Set("logtostderr", "true")
	if cc.Conf.AcceptAll {
		dns.DefaultMsgAcceptFunc = func(dh dns.Header) dns.MsgAcceptAction { return dns.MsgAccept }
	}
	conf := fbserver.NewServerConfig()
	for ip, n := range cc.Conf.IPs {
		conf.IPAns[ip] = n
	}
	conf.Port = cc.Port
	conf.TCP = true
	conf.MaxTCPQueries = -1
	conf.TCPIdleTimeout = 8 * time.Second
	conf.ReadTimeout = 2 * time.Second
	conf.WhoamiDomain = cc.Conf.Whoami
	conf.RefuseANY = cc.Conf.RefuseAny
	conf.HandlerConfig.AlwaysCompress = cc.Conf.Compress
	conf.DBConfig.Driver = driverName(cc.Conf.Driver)
	conf.DBConfig.Path = cc.Path
	conf.DBConfig.ReloadInterval = 0
	conf.CacheConfig.Enabled = cc.Conf.Cache
	conf.CacheConfig.LRUSize = 4096
	conf.CacheConfig.WRSTimeout = cc.Conf.WRS
	srv := fbserver.NewServer(conf, &dnsserver.DummyLogger{}, &stats.DummyStats{}, metricsStub{})
	up := make(chan struct{}, 64)
	srv.NotifyStartedFunc = func() { up <- struct{}{} }
	if err := srv.Start(); err != nil {
		fmt.Println("FAILED", err)
		return err
	}
	for i := 0; i < 2*len(cc.Conf.IPs); i++ {
		select {
		case <-up:
		case <-time.After(10 * time.Second):
			fmt.Println("FAILED timeout waiting for listeners")
			return fmt.Errorf("listeners did not come up")
		}
	}
	fmt.Println("READY")
	os.Stdout.Sync()
	// serve until the parent closes our stdin
	buf := make([]byte, 16)
	for {
		if _, err := os.Stdin.Read(buf); err != nil {
			break
		}
	}
	srv.Shutdown()
	return nil
}

type child struct {
	cmd    *exec.Cmd
	stdin  *os.File
	port   int
	errlog string
	done   chan struct{}
}

func (c *child) exited() bool {
	select {
	case <-c.done:
		return true
	default:
		return false
	}
}

func (c *child) stop() {
	if c == nil {
		return
	}
	c.stdin.Close()
	select {
	case <-c.done:
	case <-time.After(3 * time.Second):
		c.cmd.Process.Kill()
		<-c.done
	}
}

func (c *child) errTail() string {
	b, _ := os.ReadFile(c.errlog)
	s := string(b)
	if i := strings.Index(s, "panic:"); i >= 0 {
		s = s[i:]
		if len(s) > 400 {
			s = s[:400]
		}
		return s
	}
	if len(s) > 300 {
		s = s[len(s)-300:]
	}
	return s
}

func portFree(ips map[string]int, port int) bool {
	for ip := range ips {
		a := net.JoinHostPort(ip, fmt.Sprint(port))
		pc, err := net.ListenPacket("udp", a)
		if err != nil {
			return false
		}
		pc.Close()
		l, err := net.Listen("tcp", a)
		if err != nil {
			return false
		}
		l.Close()
	}
	return true
}

var (
	childSeq int
	childMu  sync.Mutex
)

func startChild(scratch string, conf srvConf, r *hlib.Rng) (*child, error) {
	var lastErr error
	for try := 0; try < 8; try++ {
		port := 20000 + r.Intn(40000)
		if !portFree(conf.IPs, port) {
			continue
		}
		cc := childConf{Conf: conf, Path: dbPath(scratch, conf.Driver, "srv"), Port: port}
		arg, _ := json.Marshal(cc)
		childMu.Lock()
		childSeq++
		errlog := filepath.Join(scratch, fmt.Sprintf("c20-child-%d.err", childSeq))
		childMu.Unlock()
		ef, err := os.Create(errlog)
		if err != nil {
			return nil, err
		}
		cmd := exec.Command(os.Args[0], "-extra", "serve:"+string(arg), "-scratch", scratch)
		cmd.Env = append(os.Environ(), "TMPDIR="+filepath.Join(scratch, "c20tmp"))
		cmd.Stderr = ef
		pr, pw, _ := os.Pipe()
		cmd.Stdin = pr
		out, _ := cmd.StdoutPipe()
		if err := cmd.Start(); err != nil {
			ef.Close()
			return nil, err
		}
		pr.Close()
		ef.Close()
		c := &child{cmd: cmd, stdin: pw, port: port, errlog: errlog, done: make(chan struct{})}
		lines := make(chan string, 4)
		go func() {
			sc := bufio.NewScanner(out)
			for sc.Scan() {
				lines <- sc.Text()
			}
			close(lines)
			cmd.Wait()
			close(c.done)
		}()
		select {
		case l, ok := <-lines:
			if ok && l == "READY" {
				return c, nil
			}
			lastErr = fmt.Errorf("child said %q: %s", l, c.errTail())
		case <-time.After(20 * time.Second):
			lastErr = fmt.Errorf("child start timeout")
		}
		c.stop()
	}
	return nil, fmt.Errorf("could not start server: %v", lastErr)
}

// ---------------------------------------------------------------- projections

type qP struct {
	N []int `json:"n"`
	T int   `json:"t"`
	C int   `json:"c"`
}

type rrP struct {
	N []int  `json:"n"`
	T int    `json:"t"`
	C int    `json:"c"`
	L uint32 `json:"l"`
	D []int  `json:"d"`
}

type msgP struct {
	Got   bool   `json:"got"`
	ID    int    `json:"id"`
	QR    bool   `json:"qr"`
	Op    int    `json:"op"`
	AA    bool   `json:"aa"`
	TC    bool   `json:"tc"`
	RD    bool   `json:"rd"`
	RA    bool   `json:"ra"`
	Z     bool   `json:"z"`
	AD    bool   `json:"ad"`
	CD    bool   `json:"cd"`
	Rcode int    `json:"rcode"` // the four header bits
	Q     []qP   `json:"q"`
	An    []rrP  `json:"an"`
	Ns    []rrP  `json:"ns"`
	Ex    []rrP  `json:"ex"`
	Wire  int    `json:"wire_len"`
	Err   string `json:"err,omitempty"`
}

// rdata longer than this is replaced by a digest (same function on every side)
const rdataInline = 40

func digest(rd []byte) []int {
	if len(rd) <= rdataInline {
		return hlib.Ints(rd)
	}
	h := sha1.Sum(rd)
	out := []byte{255, 255, byte(len(rd) >> 8), byte(len(rd))}
	out = append(out, h[:12]...)
	return hlib.Ints(out)
}

func projRR(rr dns.RR) rrP {
	h := rr.Header()
	buf := make([]byte, 70000)
	off, err := dns.PackRR(rr, buf, 0, nil, false)
	var rd []byte
	if err == nil {
		// owner name, type(2) class(2) ttl(4) rdlength(2), rdata
		nameLen, _ := dns.PackDomainName(h.Name, make([]byte, 300), 0, nil, false)
		if nameLen+10 <= off {
			rd = buf[nameLen+10 : off]
		}
	}
	return rrP{N: hlib.Ints([]byte(h.Name)), T: int(h.Rrtype), C: int(h.Class), L: h.Ttl, D: digest(rd)}
}

func projSection(rrs []dns.RR) []rrP {
	res := make([]rrP, 0, len(rrs))
	for _, rr := range rrs {
		res = append(res, projRR(rr))
	}
	return res
}

// projWire unpacks wire bytes and projects them; the rcode is the header's.
func projWire(w []byte) msgP {
	p := msgP{Got: true, Wire: len(w), Q: []qP{}, An: []rrP{}, Ns: []rrP{}, Ex: []rrP{}}
	m := new(dns.Msg)
	if err := m.Unpack(w); err != nil {
		p.Err = "unpack: " + err.Error()
		if len(w) >= 12 {
			p.ID = int(w[0])<<8 | int(w[1])
			p.Rcode = int(w[3] & 0xF)
		}
		return p
	}
	p.ID = int(m.Id)
	p.QR, p.Op, p.AA, p.TC, p.RD, p.RA, p.Z, p.AD, p.CD = m.Response, m.Opcode, m.Authoritative, m.Truncated, m.RecursionDesired, m.RecursionAvailable, m.Zero, m.AuthenticatedData, m.CheckingDisabled
	p.Rcode = int(w[3] & 0xF)
	for _, q := range m.Question {
		p.Q = append(p.Q, qP{N: hlib.Ints([]byte(q.Name)), T: int(q.Qtype), C: int(q.Qclass)})
	}
	p.An, p.Ns, p.Ex = projSection(m.Answer), projSection(m.Ns), projSection(m.Extra)
	return p
}

func noMsg(err string) msgP {
	return msgP{Got: false, Q: []qP{}, An: []rrP{}, Ns: []rrP{}, Ex: []rrP{}, Err: err}
}

// sizeTab is the length accounting of (*dns.Msg).Truncate for one message:
// Ulen = uncompressed length of the whole message, Base = header + questions
// (compression on), Opt = Len of the last OPT record (0 if none), Inc[i] = growth
// of the compressed length when the i-th record (answers, authority, additional
// without that OPT, in order) is appended to the ones before it.
type sizeTab struct {
	Ulen int   `json:"ulen"`
	Base int   `json:"base"`
	Opt  int   `json:"opt"`
	Inc  []int `json:"inc"`
}

func sizesOf(m *dns.Msg) sizeTab {
	c := m.Copy()
	c.Compress = false
	st := sizeTab{Ulen: c.Len(), Inc: []int{}}
	extra := c.Extra
	for i := len(extra) - 1; i >= 0; i-- {
		if extra[i].Header().Rrtype == dns.TypeOPT {
			st.Opt = dns.Len(extra[i])
			extra = append(append([]dns.RR{}, extra[:i]...), extra[i+1:]...)
			break
		}
	}
	t := &dns.Msg{MsgHdr: c.MsgHdr, Compress: true, Question: c.Question}
	prev := t.Len()
	st.Base = prev
	add := func(sec *[]dns.RR, rrs []dns.RR) {
		for _, rr := range rrs {
			*sec = append(*sec, rr)
			l := t.Len()
			st.Inc = append(st.Inc, l-prev)
			prev = l
		}
	}
	add(&t.Answer, c.Answer)
	add(&t.Ns, c.Ns)
	add(&t.Extra, extra)
	return st
}

// ---------------------------------------------------------------- the bare handler

type tcpWriter struct {
	test.ResponseWriterCustomRemote
}

func (t *tcpWriter) RemoteAddr() net.Addr {
	return &net.TCPAddr{IP: net.ParseIP(t.RemoteIP), Port: 40212}
}

func (t *tcpWriter) LocalAddr() net.Addr {
	return &net.TCPAddr{IP: net.ParseIP("127.0.0.1"), Port: 53}
}

type bareSet map[string]*dnsserver.FBDNSDB // driver/compress

func (bs bareSet) get(scratch, d string, comp bool) (*dnsserver.FBDNSDB, error) {
	k := fmt.Sprintf("%s/%v", d, comp)
	if h, ok := bs[k]; ok {
		return h, nil
	}
	h, err := dnsserver.NewFBDNSDBBasic(dnsserver.HandlerConfig{AlwaysCompress: comp},
		dnsserver.DBConfig{Driver: driverName(d), Path: dbPath(scratch, d, "bare")},
		dnsserver.CacheConfig{}, &dnsserver.DummyLogger{}, &stats.DummyStats{})
	if err != nil {
		return nil, err
	}
	if err := h.Load(); err != nil {
		return nil, fmt.Errorf("load %s: %w", d, err)
	}
	bs[k] = h
	return h, nil
}

// countWriter counts the messages handed to the ResponseWriter (WriteMsg and Write)
type countWriter struct {
	dns.ResponseWriter
	n int
}

func (c *countWriter) WriteMsg(m *dns.Msg) error   { c.n++; return c.ResponseWriter.WriteMsg(m) }
func (c *countWriter) Write(b []byte) (int, error) { c.n++; return c.ResponseWriter.Write(b) }

// runBare gives the wire message (unpacked as the server unpacks it) to the bare
// handler; returns the projection of what it wrote (packed as the server's
// writer packs it) and the message itself.
func runBare(h *dnsserver.FBDNSDB, wire []byte, maxAns int, tcp bool) (p msgP, written *dns.Msg, nw int) {
	cw := &countWriter{}
	defer func() {
		nw = cw.n
		if r := recover(); r != nil {
			p = noMsg(fmt.Sprintf("panic: %v", r))
			written = nil
		}
	}()
	req := new(dns.Msg)
	if err := req.Unpack(append([]byte{}, wire...)); err != nil {
		return noMsg("request unpack: " + err.Error()), nil, 0
	}
	var w dns.ResponseWriter
	if tcp {
		w = &tcpWriter{test.ResponseWriterCustomRemote{RemoteIP: "127.0.0.1"}}
	} else {
		w = &test.ResponseWriterCustomRemote{RemoteIP: "127.0.0.1"}
	}
	cw.ResponseWriter = w
	rec := dnstest.NewRecorder(cw)
	_, err := h.ServeDNSWithRCODE(dnsserver.WithMaxAnswer(context.TODO(), maxAns), rec, req)
	if rec.Msg == nil {
		e := "nothing written"
		if err != nil {
			e += ": " + err.Error()
		}
		return noMsg(e), nil, 0
	}
	out, perr := rec.Msg.Pack()
	if perr != nil {
		return noMsg("pack: " + perr.Error()), nil, 0
	}
	return projWire(out), rec.Msg, 0
}

// ---------------------------------------------------------------- transport

type exch struct {
	reply  msgP
	local  string // client's address as the server sees it
	remote string // server address
	raw    []byte // reply bytes
	extra  int    // messages that arrived after the reply (drain)
}

func exchange(proto, ip string, port int, wire []byte, timeout time.Duration) exch {
	return exchangeSeq(proto, ip, port, nil, wire, timeout, false)
}

// exchangeSeq sends the prefix messages one by one on one connection (reading one
// reply after each), then wire, and returns the message read after wire.
func exchangeSeq(proto, ip string, port int, prefix [][]byte, wire []byte, timeout time.Duration, drain bool) exch {
	addr := net.JoinHostPort(ip, fmt.Sprint(port))
	c, err := net.DialTimeout(proto, addr, 3*time.Second)
	if err != nil {
		return exch{reply: noMsg("dial: " + err.Error()), remote: addr}
	}
	defer c.Close()
	co := &dns.Conn{Conn: c, UDPSize: 65535}
	res := exch{local: c.LocalAddr().String(), remote: addr}
	for _, pw := range prefix {
		co.SetDeadline(time.Now().Add(timeout))
		if _, err := co.Write(append([]byte{}, pw...)); err != nil {
			res.reply = noMsg("prefix write: " + err.Error())
			return res
		}
		if _, err := co.ReadMsgHeader(nil); err != nil {
			res.reply = noMsg("prefix read: " + err.Error())
			return res
		}
	}
	co.SetDeadline(time.Now().Add(timeout))
	if _, err := co.Write(append([]byte{}, wire...)); err != nil {
		res.reply = noMsg("write: " + err.Error())
		return res
	}
	b, err := co.ReadMsgHeader(nil)
	if err != nil {
		res.reply = noMsg("read: " + err.Error())
		return res
	}
	res.reply = projWire(b)
	res.raw = b
	if drain {
		for res.extra < 4 {
			co.SetDeadline(time.Now().Add(120 * time.Millisecond))
			if _, err := co.ReadMsgHeader(nil); err != nil {
				break // timeout, or the server closed the connection: nothing more
			}
			res.extra++
		}
	}
	return res
}

func probeAlive(ip string, port int) bool {
	m := new(dns.Msg)
	m.SetQuestion("one.c20.test.", dns.TypeA)
	w, _ := m.Pack()
	for _, proto := range []string{"udp", "tcp"} {
		ok := false
		for try := 0; try < 3 && !ok; try++ {
			e := exchange(proto, ip, port, w, 1500*time.Millisecond)
			ok = e.reply.Got && e.reply.Rcode == 0 && len(e.reply.An) == 1
		}
		if !ok {
			return false
		}
	}
	return true
}

// ---------------------------------------------------------------- cases

type c20case struct {
	Class  string  `json:"class"`
	Conf   srvConf `json:"cfg"`
	IP     string  `json:"ip"`
	MaxAns int     `json:"maxans"`
	Proto  string  `json:"proto"`
	Wire   []int   `json:"wire"` // the request as sent (input)

	Req     msgP     `json:"req"` // the request as the server's Unpack sees it
	ReqErr  bool     `json:"req_unpack_fails"`
	Source  string   `json:"source"`      // client address (whoami "source")
	Dest    string   `json:"destination"` // listener address (whoami "destination")
	Ecs     *string  `json:"ecs"`         // String() of the request's client-subnet option, if any
	Multi   bool     `json:"multi"`       // owner has more addresses than are returned: A/AAAA rdata in the answer section is a random choice
	Reply   msgP     `json:"reply"`
	Bare    msgP     `json:"bare"`
	Full    *msgP    `json:"full"` // UDP cases: bare handler with TCP semantics
	FullSz  *sizeTab `json:"full_sizes"`
	SelfSz  *sizeTab `json:"self_sizes"`       // length table of the transport reply itself
	Prefix  [][]int  `json:"prefix,omitempty"` // messages sent before Wire on the same connection (input)
	Drain   bool     `json:"drain,omitempty"`  // the socket was read again after the reply (input)
	NWrites int      `json:"nwrites"`          // messages the bare handler handed to its ResponseWriter
	Extra   int      `json:"extra"`            // messages that arrived after the reply on the same socket
	Alive   bool     `json:"alive"`
	Crash   string   `json:"crash,omitempty"`
	Elapsed int64    `json:"ms"`
}

type plan struct {
	class string
	conf  int
	ip    string
	proto string
	wire  []byte
	// messages sent (and each answered by one read) on the same connection / socket
	// before wire; with drain the socket is read once more after the reply, for a
	// short time, to see that nothing else arrives
	prefix [][]byte
	drain  bool
}

var qnames = []string{
	"one.c20.test.", "two.c20.test.", "four.c20.test.", "six.c20.test.", "txt.c20.test.", "www.c20.test.",
	"x.wild.c20.test.", "a.b.wild.c20.test.", "mid.c20.test.", "big.c20.test.", "huge.c20.test.", "manymx.c20.test.",
	"c20.test.", "sub.c20.test.", "deep.sub.c20.test.", "ns03.sub.c20.test.", "nx.c20.test.", "a.ns.c20.test.",
	"example.org.", ".", "test.", "whoami.c20.test.", "xwhoami.c20.test.", "a.whoami.c20.test.", "whoami.c20.tes.",
	"whoami.c20.testx.", "whoami-c20.test.", "mx1.c20.test.",
}

var qtypes = []uint16{dns.TypeA, dns.TypeA, dns.TypeAAAA, dns.TypeTXT, dns.TypeTXT, dns.TypeMX, dns.TypeNS, dns.TypeSOA,
	dns.TypeCNAME, dns.TypeANY, dns.TypeANY, dns.TypeHINFO, dns.TypeHTTPS, dns.TypeDS, dns.TypePTR}

func randCase(r *hlib.Rng, s string) string {
	b := []byte(s)
	for i := range b {
		if b[i] >= 'a' && b[i] <= 'z' && r.Chance(1, 3) {
			b[i] -= 32
		}
	}
	return string(b)
}

func addEdns(r *hlib.Rng, m *dns.Msg, size uint16) {
	o := new(dns.OPT)
	o.Hdr.Name = "."
	o.Hdr.Rrtype = dns.TypeOPT
	o.SetUDPSize(size)
	if r.Chance(1, 4) {
		o.SetDo()
	}
	if r.Chance(1, 5) {
		e := new(dns.EDNS0_SUBNET)
		e.Code = dns.EDNS0SUBNET
		if r.Chance(1, 2) {
			e.Family = 1
			e.SourceNetmask = 24
			e.Address = net.IPv4(192, 0, byte(r.Intn(4)), 0).To4()
		} else {
			e.Family = 2
			e.SourceNetmask = 56
			e.Address = net.ParseIP("2001:db8:77::")
		}
		o.Option = append(o.Option, e)
	}
	if r.Chance(1, 6) {
		o.Option = append(o.Option, &dns.EDNS0_COOKIE{Code: dns.EDNS0COOKIE, Cookie: "0102030405060708"})
	}
	if r.Chance(1, 10) {
		o.Option = append(o.Option, &dns.EDNS0_NSID{Code: dns.EDNS0NSID, Nsid: ""})
	}
	if r.Chance(1, 25) {
		o.SetVersion(1)
	}
	if r.Chance(1, 25) {
		o.Hdr.Ttl |= 0x4321 // reserved flag bits
	}
	m.Extra = append(m.Extra, o)
}

var udpSizes = []int{0, 0, 512, 1232, 4096, 100, 600, 2000, 65535}

func genQuery(r *hlib.Rng) (*dns.Msg, string) {
	m := new(dns.Msg)
	m.Id = uint16(r.Intn(65536))
	name := qnames[r.Intn(len(qnames))]
	class := "plain"
	switch {
	case r.Chance(1, 6): // whoami name, any case
		name = "whoami.c20.test."
		class = "whoami-name"
	case r.Chance(1, 6): // large responses
		name = []string{"mid.c20.test.", "big.c20.test.", "huge.c20.test.", "manymx.c20.test.", "deep.sub.c20.test."}[r.Intn(5)]
		class = "large"
	case r.Chance(1, 6): // several addresses: the listener's max answer decides how many come back
		name = []string{"two.c20.test.", "four.c20.test.", "six.c20.test.", "four.c20.test."}[r.Intn(4)]
		class = "addresses"
	}
	if r.Chance(1, 3) {
		name = randCase(r, name)
	}
	qt := qtypes[r.Intn(len(qtypes))]
	if class == "large" {
		qt = []uint16{dns.TypeTXT, dns.TypeTXT, dns.TypeMX, dns.TypeANY, dns.TypeA}[r.Intn(5)]
		if strings.HasPrefix(strings.ToLower(name), "manymx") {
			qt = dns.TypeMX
		}
	}
	if class == "whoami-name" && r.Chance(1, 2) {
		qt = dns.TypeTXT
	}
	if class == "addresses" {
		qt = []uint16{dns.TypeA, dns.TypeA, dns.TypeAAAA, dns.TypeANY}[r.Intn(4)]
	}
	if r.Chance(1, 40) {
		qt = uint16(256 + r.Intn(1000))
	}
	qc := uint16(dns.ClassINET)
	if r.Chance(1, 20) || (qt == dns.TypeANY && r.Chance(1, 3)) {
		qc = []uint16{dns.ClassCHAOS, dns.ClassHESIOD, dns.ClassNONE, dns.ClassANY}[r.Intn(4)]
	}
	m.Question = []dns.Question{{Name: name, Qtype: qt, Qclass: qc}}
	m.RecursionDesired = r.Chance(1, 2)
	m.CheckingDisabled = r.Chance(1, 8)
	m.AuthenticatedData = r.Chance(1, 8)
	if sz := udpSizes[r.Intn(len(udpSizes))]; sz > 0 {
		addEdns(r, m, uint16(sz))
	}
	if qt == dns.TypeANY {
		class += "-any"
	}
	return m, class
}

// genOdd: messages the transport or the question-count guard has to deal with
func genOdd(r *hlib.Rng) (*dns.Msg, string) {
	m, _ := genQuery(r)
	q0 := m.Question[0]
	switch r.Pick([]int{6, 6, 2, 2, 2, 2, 2, 1, 1, 1}) {
	case 0:
		m.Question = nil
		return m, "noquestion"
	case 1:
		m.Question = append(m.Question, dns.Question{Name: "two.c20.test.", Qtype: dns.TypeAAAA, Qclass: dns.ClassINET})
		if r.Chance(1, 3) {
			m.Question = append(m.Question, dns.Question{Name: q0.Name, Qtype: dns.TypeANY, Qclass: dns.ClassINET})
		}
		return m, "twoquestions"
	case 2:
		m.Question = nil
		m.Response = true
		return m, "noquestion-qr"
	case 3:
		m.Opcode = []int{dns.OpcodeNotify, dns.OpcodeUpdate, dns.OpcodeStatus, dns.OpcodeIQuery}[r.Intn(4)]
		return m, "opcode"
	case 4:
		m.Response = true
		return m, "qr"
	case 5: // records in the request's answer / authority section
		rr, _ := dns.NewRR("one.c20.test. 60 IN A 192.0.2.200")
		m.Answer = []dns.RR{rr}
		if r.Chance(1, 2) {
			m.Answer = append(m.Answer, rr)
		}
		if r.Chance(1, 2) {
			m.Ns = []dns.RR{rr}
		}
		return m, "req-sections"
	case 6: // additional section with several records (two OPTs, or three records)
		m.Extra = nil
		addEdns(r, m, 512)
		addEdns(r, m, 1232)
		if r.Chance(1, 2) {
			rr, _ := dns.NewRR("extra.c20.test. 60 IN A 192.0.2.201")
			m.Extra = append(m.Extra, rr)
		}
		return m, "req-extra"
	case 7:
		m.Truncated = true
		m.Authoritative = true
		m.RecursionAvailable = true
		m.Zero = true
		return m, "req-flags"
	case 8:
		m.Question = nil
		m.Opcode = dns.OpcodeUpdate
		return m, "noquestion-opcode"
	default:
		m.Question = nil
		m.Extra = nil
		m.Answer = nil
		return m, "noquestion-bare"
	}
}

func lowerASCII(s string) string {
	b := []byte(s)
	for i := range b {
		if b[i] >= 'A' && b[i] <= 'Z' {
			b[i] += 32
		}
	}
	return string(b)
}

// multiAddr: does the first question ask for addresses of a name that has more
// of them than this listener returns (the selection is then random)?
func multiAddr(req *dns.Msg, maxAns int) bool {
	if req == nil || len(req.Question) == 0 {
		return false
	}
	q := req.Question[0]
	if q.Qtype != dns.TypeA && q.Qtype != dns.TypeAAAA && q.Qtype != dns.TypeANY {
		return false
	}
	n := map[string]int{"two.c20.test.": 2, "four.c20.test.": 4, "six.c20.test.": 6}[lowerASCII(q.Name)]
	return n > maxAns
}

type runner struct {
	scratch string
	bare    bareSet
	confs   []srvConf
}

// runGroup runs the planned messages of one configuration against one server
// process (restarted if it dies) and returns the cases in plan order.
func (ru *runner) runGroup(conf srvConf, plans []plan, rng *hlib.Rng) ([]c20case, error) {
	var out []c20case
	ch, err := startChild(ru.scratch, conf, rng)
	if err != nil {
		return nil, err
	}
	defer func() { ch.stop() }()
	bh := ru.bare[fmt.Sprintf("%s/%v", conf.Driver, conf.Compress)]
	for _, p := range plans {
		if ch.exited() {
			ch, err = startChild(ru.scratch, conf, rng)
			if err != nil {
				return nil, err
			}
		}
		tc0 := time.Now()
		maxAns := conf.IPs[p.ip]
		c := c20case{Class: p.class, Conf: conf, IP: p.ip, MaxAns: maxAns, Proto: p.proto, Wire: hlib.Ints(p.wire), Drain: p.drain}
		for _, pw := range p.prefix {
			c.Prefix = append(c.Prefix, hlib.Ints(pw))
		}
		reqMsg := new(dns.Msg)
		if err := reqMsg.Unpack(append([]byte{}, p.wire...)); err != nil {
			c.ReqErr = true
			c.Req = noMsg(err.Error())
			reqMsg = nil
		} else {
			c.Req = projWire(p.wire)
			if ecs := db.FindECS(reqMsg); ecs != nil {
				s := ecs.String()
				c.Ecs = &s
			}
		}
		c.Multi = multiAddr(reqMsg, maxAns)
		timeout := 2500 * time.Millisecond
		if len(p.wire) >= 3 && p.wire[2]&0x80 != 0 {
			timeout = 250 * time.Millisecond // a response is never answered
		}
		ex := exchangeSeq(p.proto, p.ip, ch.port, p.prefix, p.wire, timeout, p.drain)
		// a lost datagram, or a TCP read deadline (2 s) missed by a starved server
		// process on a loaded machine: ask again (a dead server is noticed below)
		for try := 0; try < 2 && !ex.reply.Got && timeout > time.Second && !ch.exited(); try++ {
			ex = exchangeSeq(p.proto, p.ip, ch.port, p.prefix, p.wire, timeout, p.drain) // fresh connection, whole sequence
		}
		c.Reply, c.Source, c.Dest, c.Extra = ex.reply, ex.local, ex.remote, ex.extra
		if !c.ReqErr {
			c.Bare, _, c.NWrites = runBare(bh, p.wire, maxAns, p.proto == "tcp")
			if p.proto == "udp" {
				fp, fm, _ := runBare(bh, p.wire, maxAns, true)
				c.Full = &fp
				if fm != nil {
					st := sizesOf(fm)
					c.FullSz = &st
				}
			}
		} else {
			c.Bare = noMsg("request does not unpack")
		}
		if c.Reply.Got && c.Reply.Err == "" {
			m := new(dns.Msg)
			if m.Unpack(append([]byte{}, ex.raw...)) == nil {
				st := sizesOf(m)
				c.SelfSz = &st
			}
		}
		// is the server still there?
		odd := !c.Reply.Got || strings.HasPrefix(p.class, "noquestion") || strings.HasPrefix(p.class, "twoquestions") || rng.Chance(1, 20)
		if odd {
			time.Sleep(20 * time.Millisecond)
			c.Alive = !ch.exited() && probeAlive(p.ip, ch.port)
		} else {
			c.Alive = !ch.exited()
		}
		if !c.Alive {
			time.Sleep(100 * time.Millisecond)
			c.Crash = ch.errTail()
			ch.stop()
			ch, err = startChild(ru.scratch, conf, rng)
			if err != nil {
				return nil, err
			}
		}
		c.Elapsed = time.Since(tc0).Milliseconds()
		out = append(out, c)
	}
	return out, nil
}

var t0 = time.Now()

func lap(what string) {
	if os.Getenv("C20_TIMING") != "" {
		fmt.Fprintf(os.Stderr, "c20 %6.2fs %s\n", time.Since(t0).Seconds(), what)
	}
}

func run(a *hlib.Args, e *hlib.Emitter) error {
	if strings.HasPrefix(a.Extra, "serve:") {
		return serveChild(strings.TrimPrefix(a.Extra, "serve:"))
	}
	if a.Scratch == "" {
		d, err := os.MkdirTemp("/var/tmp", "c20-")
		if err != nil {
			return err
		}
		defer os.RemoveAll(d)
		a.Scratch = d
	}
	tmp := filepath.Join(a.Scratch, "c20tmp")
	os.MkdirAll(tmp, 0o755)
	os.Setenv("TMPDIR", tmp)
	flag.Set("logtostderr", "true")
	flag.Set("stderrthreshold", "FATAL")
	defer os.RemoveAll(tmp)
	defer os.RemoveAll(filepath.Join(a.Scratch, "c20data"))
	if err := buildData(a.Scratch); err != nil {
		return err
	}
	ru := &runner{scratch: a.Scratch, bare: bareSet{}, confs: allConfs()}
	groups := map[string][]plan{}
	var order []srvConf
	addPlan := func(conf srvConf, p plan) {
		k := conf.key()
		if _, ok := groups[k]; !ok {
			order = append(order, conf)
		}
		groups[k] = append(groups[k], p)
	}
	if a.Replay != "" {
		cs, err := hlib.ReadReplay(a.Replay)
		if err != nil {
			return err
		}
		for _, m := range cs {
			var conf srvConf
			var p plan
			var wire []int
			json.Unmarshal(m["cfg"], &conf)
			json.Unmarshal(m["class"], &p.class)
			json.Unmarshal(m["ip"], &p.ip)
			json.Unmarshal(m["proto"], &p.proto)
			json.Unmarshal(m["wire"], &wire)
			p.wire = hlib.Unints(wire)
			var prefix [][]int
			if raw, ok := m["prefix"]; ok {
				json.Unmarshal(raw, &prefix)
			}
			for _, pw := range prefix {
				p.prefix = append(p.prefix, hlib.Unints(pw))
			}
			if raw, ok := m["drain"]; ok {
				json.Unmarshal(raw, &p.drain)
			}
			addPlan(conf, p)
		}
	} else {
		r := hlib.NewRng(a.Seed, 20)
		ips := []string{"127.0.0.1", "127.0.0.2", "127.0.0.3", "127.0.0.4"}
		for i := 0; i < a.N; i++ {
			ci := r.Intn(len(ru.confs))
			var m *dns.Msg
			var class string
			if r.Chance(1, 5) {
				m, class = genOdd(r)
			} else {
				m, class = genQuery(r)
			}
			w, err := m.Pack()
			if err != nil {
				continue
			}
			ip := ips[r.Intn(len(ips))]
			if r.Chance(2, 3) { // the same message over both transports
				addPlan(ru.confs[ci], plan{class: class, ip: ip, proto: "udp", wire: w})
				addPlan(ru.confs[ci], plan{class: class, ip: ip, proto: "tcp", wire: w})
				i++
			} else {
				proto := []string{"udp", "tcp"}[r.Intn(2)]
				addPlan(ru.confs[ci], plan{class: class, ip: ip, proto: proto, wire: w})
			}
		}
	}
	if a.Replay == "" {
		// always part of a run: two or three queries over ONE connection / socket, the
		// first for a name outside every zone (REFUSED), then served names with other
		// ids.  Each position is its own case (the earlier messages are its prefix);
		// the reply read after a query must be that query's, and nothing may follow.
		for ci, conf := range ru.confs {
			seq := []*dns.Msg{new(dns.Msg), new(dns.Msg), new(dns.Msg)}
			seq[0].SetQuestion([]string{"example.org.", "outside.example.", "test."}[ci%3], dns.TypeA)
			seq[1].SetQuestion("one.c20.test.", dns.TypeA)
			seq[2].SetQuestion("txt.c20.test.", dns.TypeTXT)
			var wires [][]byte
			for i, m := range seq {
				m.Id = uint16(9000 + 16*ci + i)
				w, err := m.Pack()
				if err != nil {
					return err
				}
				wires = append(wires, w)
			}
			ip := fmt.Sprintf("127.0.0.%d", 1+ci%4)
			for _, proto := range []string{"udp", "tcp"} {
				for i := range wires {
					addPlan(conf, plan{class: fmt.Sprintf("seq%d", i+1), ip: ip, proto: proto, wire: wires[i], prefix: wires[:i], drain: true})
				}
			}
		}
		// always part of a run: ANY questions in every class other than IN for names
		// that exist in the database, on every refuse-any configuration, over both
		// transports (the ANY handler looks at the type only)
		anyNames := []string{"one.c20.test.", "big.c20.test.", "c20.test.", "whoami.c20.test.", "Four.C20.test."}
		k := 0
		for _, conf := range ru.confs {
			if !conf.RefuseAny {
				continue
			}
			for _, qc := range []uint16{dns.ClassCHAOS, dns.ClassHESIOD, dns.ClassNONE, dns.ClassANY} {
				m := new(dns.Msg)
				m.Id = uint16(7000 + k)
				m.RecursionDesired = k%2 == 0
				m.Question = []dns.Question{{Name: anyNames[k%len(anyNames)], Qtype: dns.TypeANY, Qclass: qc}}
				if k%3 == 0 {
					o := new(dns.OPT)
					o.Hdr.Name = "."
					o.Hdr.Rrtype = dns.TypeOPT
					o.SetUDPSize(1232)
					m.Extra = append(m.Extra, o)
				}
				w, err := m.Pack()
				if err != nil {
					return err
				}
				ip := fmt.Sprintf("127.0.0.%d", 1+k%4)
				addPlan(conf, plan{class: "any-class", ip: ip, proto: "udp", wire: w})
				addPlan(conf, plan{class: "any-class", ip: ip, proto: "tcp", wire: w})
				k++
			}
		}
		// always part of a run: client-subnet option x small advertised sizes x the
		// names with large replies, over UDP (and once over TCP): the echoed option
		// has to be inside the size the reply is cut to.  Besides 512/600/1232 the
		// advertised size is put just below the uncompressed length U of the full
		// reply (U-1, U-9), where the reply fits only after compression/truncation.
		type ecsSpec struct {
			fam  uint16
			bits uint8
			addr net.IP
		}
		ecsSpecs := []ecsSpec{{1, 24, net.IPv4(192, 0, 2, 0).To4()}, {2, 56, net.ParseIP("2001:db8:77::")}, {2, 128, net.ParseIP("2001:db8::1")}}
		bigQs := []dns.Question{
			{Name: "manymx.c20.test.", Qtype: dns.TypeMX, Qclass: dns.ClassINET},
			{Name: "deep.sub.c20.test.", Qtype: dns.TypeA, Qclass: dns.ClassINET},
			{Name: "big.c20.test.", Qtype: dns.TypeTXT, Qclass: dns.ClassINET},
			{Name: "mid.c20.test.", Qtype: dns.TypeTXT, Qclass: dns.ClassINET},
			{Name: "sub.c20.test.", Qtype: dns.TypeNS, Qclass: dns.ClassINET},
		}
		mk := func(q dns.Question, es ecsSpec, size int, id int) []byte {
			m := new(dns.Msg)
			m.Id = uint16(id)
			m.Question = []dns.Question{q}
			o := new(dns.OPT)
			o.Hdr.Name = "."
			o.Hdr.Rrtype = dns.TypeOPT
			o.SetUDPSize(uint16(size))
			o.Option = append(o.Option, &dns.EDNS0_SUBNET{Code: dns.EDNS0SUBNET, Family: es.fam, SourceNetmask: es.bits, Address: es.addr})
			m.Extra = []dns.RR{o}
			w, _ := m.Pack()
			return w
		}
		kk := 0
		for qi, q := range bigQs {
			for ei, es := range ecsSpecs {
				conf := ru.confs[(qi*len(ecsSpecs)+ei)%len(ru.confs)]
				bh, err := ru.bare.get(a.Scratch, conf.Driver, conf.Compress)
				if err != nil {
					return err
				}
				ip := fmt.Sprintf("127.0.0.%d", 1+kk%4)
				sizes := []int{[]int{512, 600, 1232}[kk%3], []int{600, 1232, 512}[kk%3]}
				if _, fm, _ := runBare(bh, mk(q, es, 4096, 1), conf.IPs[ip], true); fm != nil {
					u := sizesOf(fm).Ulen
					for _, d := range []int{1, 9} {
						if u-d >= 512 {
							sizes = append(sizes, u-d)
						}
					}
				}
				for si, size := range sizes {
					w := mk(q, es, size, 8000+kk*8+si)
					addPlan(conf, plan{class: "ecs-size", ip: ip, proto: "udp", wire: w})
					if si == 0 {
						addPlan(conf, plan{class: "ecs-size", ip: ip, proto: "tcp", wire: w})
					}
				}
				kk++
			}
		}
		// cache configurations (opt-in): the same address query on the max-answer-1
		// listener first and on the max-answer-4 listener afterwards
		for _, conf := range ru.confs {
			if !conf.Cache {
				continue
			}
			for _, name := range []string{"four.c20.test.", "Four.C20.Test."} {
				for _, ip := range []string{"127.0.0.1", "127.0.0.4", "127.0.0.3"} {
					m := new(dns.Msg)
					m.SetQuestion(name, dns.TypeA)
					m.Id = 4242
					w, _ := m.Pack()
					addPlan(conf, plan{class: "cache-seq", ip: ip, proto: "udp", wire: w})
				}
			}
		}
	}
	lap("data built")
	for _, conf := range order { // open the bare handlers before the groups run concurrently
		if _, err := ru.bare.get(a.Scratch, conf.Driver, conf.Compress); err != nil {
			return err
		}
	}
	lap("bare handlers open")
	results := make([][]c20case, len(order))
	errs := make([]error, len(order))
	sem := make(chan struct{}, 4)
	var wg sync.WaitGroup
	for i, conf := range order {
		wg.Add(1)
		go func(i int, conf srvConf) {
			defer wg.Done()
			sem <- struct{}{}
			defer func() { <-sem }()
			results[i], errs[i] = ru.runGroup(conf, groups[conf.key()], hlib.NewRng(a.Seed, uint64(3000+i)))
			lap("group done " + conf.key())
		}(i, conf)
	}
	wg.Wait()
	for i := range order {
		if errs[i] != nil {
			return errs[i]
		}
		for _, c := range results[i] {
			e.Emit(c)
		}
	}
	if files, _ := filepath.Glob(filepath.Join(a.Scratch, "c20-child-*.err")); len(files) > 0 {
		for _, f := range files {
			os.Remove(f)
		}
	}
	return nil
}

func main() { hlib.Main(run) }
