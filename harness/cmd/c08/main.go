// C08 harness: the REAL rdb.ApplyDiff on a RocksDB compiled from a preprocessed data
// file A, with the line diff A -> B, compared (full dumps, key -> multiset of values)
// with a fresh compilation of B; chains of diffs, both key layouts, shuffled diff
// lines, range point churn (the '!' lines come from the real preprocessor run on files
// with changing '%' lines), duplicate values under one key; and diffs that cannot be
// applied (absent value, absent key, twice the same deletion, unknown operation,
// rejected line) after which the dump must be exactly the dump before.
package main

import (
	"bytes"
	"encoding/json"
	"errors"
	"fmt"
	"io"
	"log"
	"os"
	"path/filepath"
	"runtime/debug"
	"sort"
	"strings"
	"sync"
	"time"

	"github.com/facebookincubator/dns/dnsrocks/dnsdata/rdb"
	"github.com/facebookincubator/dns/dnsrocks/dnsdata/rdb/dbdiff"

	"verifharness/complib"
	"verifharness/hlib"
)

const serial = 1700000000

type convJ struct {
	Arg  []int         `json:"arg"`
	Ok   bool          `json:"ok"`
	Recs []complib.JKV `json:"recs"`
}

type stepJ struct {
	Diff     []int            `json:"diff"`     // input: the diff file
	NewFile  []int            `json:"new_file"` // input: preprocessed file B (equal to the current file for a failing diff)
	Intent   string           `json:"intent"`
	ExpectOk bool             `json:"expect_ok"`
	Lines    [][]int          `json:"lines"` // the diff file split into lines
	Table    []convJ          `json:"table"` // the codec on every distinct argument of a + or - line
	Err      int              `json:"err"`   // 0 nil, 1 ErrNXKey, 2 ErrNXVal, 20 conversion error, 22 ErrBadOp, 5 other
	ErrText  string           `json:"err_text,omitempty"`
	After    []complib.JEntry `json:"after"`           // dump after ApplyDiff
	Fresh    []complib.JEntry `json:"fresh,omitempty"` // dump of a fresh compilation of B
	FreshBy  string           `json:"fresh_by,omitempty"`
	GoSame   bool             `json:"go_same"` // expect_ok: after = fresh as multisets; else after = before exactly
}

type c08case struct {
	Kind    string           `json:"kind"`
	Class   string           `json:"class"`
	Cfg     string           `json:"cfg"`
	Builder bool             `json:"builder"` // A compiled with the builder (else in batches)
	FileA   []int            `json:"file_a"`  // input: preprocessed file A
	DB0     []complib.JEntry `json:"db0"`     // dump of the database compiled from A
	Steps   []stepJ          `json:"steps"`
}

func errClass(err error) int {
	switch {
	case err == nil:
		return 0
	case errors.Is(err, rdb.ErrNXKey):
		return 1
	case errors.Is(err, rdb.ErrNXVal):
		return 2
	case errors.Is(err, dbdiff.ErrBadOp), errors.Is(err, dbdiff.ErrShortInput):
		return 22
	case strings.Contains(err.Error(), "conversion error"):
		return 20
	}
	return 5
}

var heavy sync.Mutex // one Builder at a time (it allocates about 1 GB)

func compile(in, dir string, v2, builder bool) error {
	if err := os.MkdirAll(dir, 0o755); err != nil {
		return err
	}
	o := rdb.CompilationOptions{NumCPU: 2, UseV2KeySyntax: v2, UseBuilder: builder, BatchNumParallel: 2, BatchSize: 100000}
	if builder {
		heavy.Lock()
		defer heavy.Unlock()
	}
	_, err := rdb.CompileToSpecificRDBVersion(in, dir, o)
	return err
}

func splitLines(b []byte) [][]byte {
	var res [][]byte
	for len(b) > 0 {
		var l []byte
		if i := bytes.IndexByte(b, '\n'); i >= 0 {
			l, b = b[:i], b[i+1:]
		} else {
			l, b = b, nil
		}
		if n := len(l); n > 0 && l[n-1] == '\r' {
			l = l[:n-1]
		}
		res = append(res, l)
	}
	return res
}

// lineDiff: '-' lines of A\B and '+' lines of B\A (as multisets of lines).
func lineDiff(a, b []byte) []string {
	cnt := map[string]int{}
	for _, l := range complib.EffectiveLines(a) {
		cnt[string(l)]--
	}
	for _, l := range complib.EffectiveLines(b) {
		cnt[string(l)]++
	}
	keys := make([]string, 0, len(cnt))
	for k := range cnt {
		keys = append(keys, k)
	}
	sort.Strings(keys)
	var d []string
	for _, k := range keys {
		for n := cnt[k]; n < 0; n++ {
			d = append(d, "-"+k)
		}
		for n := cnt[k]; n > 0; n-- {
			d = append(d, "+"+k)
		}
	}
	return d
}

// applyStep runs the real ApplyDiff and fills the observations of the step.
func applyStep(root, dbdir string, cfg complib.Cfg, st *stepJ, before complib.Dump, stepNo int) (complib.Dump, error) {
	diff := hlib.Unints(st.Diff)
	dpath := filepath.Join(root, fmt.Sprintf("diff%d", stepNo))
	if err := complib.WriteFile(dpath, diff, serial); err != nil {
		return nil, err
	}
	st.Lines, st.Table = [][]int{}, []convJ{}
	codec := complib.NewCodec(cfg)
	seen := map[string]bool{}
	for _, l := range splitLines(diff) {
		st.Lines = append(st.Lines, hlib.Ints(l))
		if len(l) < 1 || l[0] == '#' || (l[0] != '+' && l[0] != '-') {
			continue
		}
		arg := l[1:]
		if seen[string(arg)] {
			continue
		}
		seen[string(arg)] = true
		o := complib.ConvertOne(codec, arg)
		if o.Panic {
			return nil, fmt.Errorf("codec panics on diff argument %q: %s", arg, o.Err)
		}
		st.Table = append(st.Table, convJ{hlib.Ints(arg), o.Ok, complib.ToJKV(o.Recs)})
	}
	err := rdb.ApplyDiff(dpath, dbdir)
	st.Err = errClass(err)
	st.ErrText = ""
	if err != nil {
		st.ErrText = err.Error()
		if len(st.ErrText) > 200 {
			st.ErrText = st.ErrText[:200]
		}
	}
	after, derr := complib.DumpRDB(dbdir)
	if derr != nil {
		return nil, derr
	}
	st.After = after.JSON()
	st.Fresh, st.GoSame = nil, false
	if st.ExpectOk {
		bpath := filepath.Join(root, fmt.Sprintf("b%d", stepNo))
		if err := complib.WriteFile(bpath, hlib.Unints(st.NewFile), serial); err != nil {
			return nil, err
		}
		var fresh complib.Dump
		if st.FreshBy == "codec" {
			// the database of B as the line-by-line codec gives it (C07 ties the compilers to it)
			ref, rerr := complib.Refer(cfg, complib.EffectiveLines(hlib.Unints(st.NewFile)))
			if rerr != nil {
				return nil, rerr
			}
			if !ref.AllOk {
				return nil, fmt.Errorf("file B has a rejected line")
			}
			fresh = complib.FromRecords(ref.Records())
		} else {
			fdir := filepath.Join(root, fmt.Sprintf("fresh%d", stepNo))
			if err := compile(bpath, fdir, cfg.V2, st.FreshBy == "builder"); err != nil {
				return nil, fmt.Errorf("fresh compilation of B failed: %w", err)
			}
			var derr error
			fresh, derr = complib.DumpRDB(fdir)
			os.RemoveAll(fdir)
			if derr != nil {
				return nil, derr
			}
		}
		st.Fresh = fresh.JSON()
		st.GoSame, _ = complib.SameMultiset(after, fresh)
		st.GoSame = st.GoSame && err == nil
	} else {
		st.GoSame, _ = complib.SameExact(after, before)
		st.GoSame = st.GoSame && err != nil
	}
	return after, nil
}

// runCase compiles A and applies the steps in order.
func runCase(scratch string, c *c08case, n int) error {
	root := filepath.Join(scratch, fmt.Sprintf("c08-%d-%d", os.Getpid(), n))
	if err := os.MkdirAll(root, 0o755); err != nil {
		return err
	}
	defer os.RemoveAll(root)
	cfg := complib.Cfg{V2: c.Cfg == "v2", Serial: serial}
	apath := filepath.Join(root, "a")
	if err := complib.WriteFile(apath, hlib.Unints(c.FileA), serial); err != nil {
		return err
	}
	dbdir := filepath.Join(root, "db")
	if err := compile(apath, dbdir, cfg.V2, c.Builder); err != nil {
		return fmt.Errorf("compilation of A failed: %w", err)
	}
	cur, err := complib.DumpRDB(dbdir)
	if err != nil {
		return err
	}
	c.DB0 = cur.JSON()
	for i := range c.Steps {
		cur, err = applyStep(root, dbdir, cfg, &c.Steps[i], cur, i)
		if err != nil {
			return err
		}
	}
	return nil
}

// ---------------------------------------------------------------- generation

type world struct {
	g     *complib.Gen
	r     *hlib.Rng
	lines []string          // record lines of the raw file
	nets  map[string]string // map|net -> location
}

func (w *world) raw() []byte {
	l := append([]string{}, w.lines...)
	keys := make([]string, 0, len(w.nets))
	for k := range w.nets {
		keys = append(keys, k)
	}
	sort.Strings(keys)
	for _, k := range keys {
		f := strings.SplitN(k, "|", 2)
		l = append(l, "%"+w.nets[k]+","+f[1]+","+f[0])
	}
	return complib.Join(l, true)
}

func (w *world) mutate() {
	r := w.r
	// remove
	for k := r.Intn(4); k > 0 && len(w.lines) > 0; k-- {
		i := r.Intn(len(w.lines))
		w.lines = append(w.lines[:i], w.lines[i+1:]...)
	}
	// add new lines or repeat existing ones (equal values under one key)
	for k := r.Intn(5); k > 0; k-- {
		if len(w.lines) > 0 && r.Chance(1, 3) {
			w.lines = append(w.lines, w.lines[r.Intn(len(w.lines))])
		} else {
			w.lines = append(w.lines, w.g.Line())
		}
		if r.Chance(1, 4) {
			w.lines = append(w.lines, w.g.WsTailLine()) // a last field ending in white space
		}
	}
	// subnets come, go and change their location: range points move
	if r.Chance(2, 3) {
		for k := 1 + r.Intn(3); k > 0; k-- {
			m, n := w.g.Maps[r.Intn(len(w.g.Maps))], w.g.Nets[r.Intn(len(w.g.Nets))]
			key := m + "|" + n
			if _, ok := w.nets[key]; ok && r.Chance(1, 2) {
				delete(w.nets, key)
			} else {
				w.nets[key] = []string{"\\000\\001", "\\000\\002", "ab", "zz"}[r.Intn(4)]
			}
		}
	}
}

// diffBytes writes diff lines as a file.  The reader (bufio.ScanLines) drops one trailing CR of a
// line, so a line whose content ends in CR is written with one more, as it stands in the data file.
func diffBytes(d []string, finalNewline bool) []byte {
	e := make([]string, len(d))
	for i, l := range d {
		if strings.HasSuffix(l, "\r") {
			l += "\r"
		}
		e[i] = l
	}
	return complib.Join(e, finalNewline)
}

func shuffledIdx(r *hlib.Rng, n int) []int {
	p := make([]int, n)
	for i := range p {
		p[i] = i
	}
	r.Shuffle(n, func(i, j int) { p[i], p[j] = p[j], p[i] })
	return p
}

func shuffled(r *hlib.Rng, d []string) []string {
	d = append([]string{}, d...)
	r.Shuffle(len(d), func(i, j int) { d[i], d[j] = d[j], d[i] })
	return d
}

func withNoise(r *hlib.Rng, d []string) []string {
	var out []string
	for _, l := range d {
		if r.Chance(1, 10) {
			out = append(out, []string{"", "# comment", "#+a.example.com,1.2.3.4"}[r.Intn(3)])
		}
		out = append(out, l)
	}
	return out
}

// failingDiff builds a diff that cannot be applied to the database of file cur.
func failingDiff(w *world, cur []byte) (string, []string) {
	r := w.r
	eff := complib.EffectiveLines(cur)
	var some []string // a few applicable lines around the offending one
	for k := r.Intn(3); k > 0; k-- {
		some = append(some, "+"+w.g.Line())
	}
	if len(eff) > 0 && r.Chance(1, 2) {
		some = append(some, "-"+string(eff[r.Intn(len(eff))]))
	}
	intent := []string{"absent-value", "absent-key", "twice", "badop", "badline"}[r.Intn(5)]
	var bad string
	switch intent {
	case "absent-value":
		// same owner as an existing address line, an address no generated line has
		bad = "-+www.example.com,203.0.113.77"
		for _, l := range eff {
			if l[0] == '+' {
				f := strings.SplitN(string(l[1:]), ",", 2)
				if !strings.Contains(f[0], ":") {
					bad = "-+" + f[0] + ",203.0.113.77"
					break
				}
			}
		}
	case "absent-key":
		bad = "-+no.such.name.invalid,1.2.3.4"
	case "twice":
		if len(eff) == 0 {
			bad = "-+no.such.name.invalid,1.2.3.4"
			intent = "absent-key"
		} else {
			// a line that yields at least one record, deleted once more than it is there
			codec := complib.NewCodec(complib.Cfg{Serial: serial})
			l := ""
			for _, i := range shuffledIdx(r, len(eff)) {
				if o := complib.ConvertOne(codec, eff[i]); o.Ok && len(o.Recs) > 0 {
					l = string(eff[i])
					break
				}
			}
			if l == "" {
				bad = "-+no.such.name.invalid,1.2.3.4"
				intent = "absent-key"
				break
			}
			n := 0
			for _, x := range eff {
				if string(x) == l {
					n++
				}
			}
			some = nil // nothing else may touch this line
			bad = "-" + l
			for i := 0; i < n; i++ {
				some = append(some, "-"+l)
			}
		}
	case "badop":
		bad = []string{"x+a.example.com,1.2.3.4", "*", "=a.example.com,1.2.3.4", " +a.example.com,1.2.3.4"}[r.Intn(4)]
	case "badline":
		bad = []string{"+", "-"}[r.Intn(2)] + w.g.BadLine()
	}
	d := append(some, bad)
	return intent, shuffled(r, d)
}

func genCase(seed uint64, idx int) (*c08case, error) {
	r := hlib.NewRng(seed, uint64(1000+idx))
	w := &world{g: complib.NewGen(r, 1+r.Intn(3), 1+r.Intn(5)), r: r, nets: map[string]string{}}
	for k := 2 + r.Intn(10); k > 0; k-- {
		w.lines = append(w.lines, w.g.Line())
	}
	if r.Chance(3, 4) {
		for k := 1 + r.Intn(3); k > 0; k-- {
			w.nets[w.g.Maps[r.Intn(len(w.g.Maps))]+"|"+w.g.Nets[r.Intn(len(w.g.Nets))]] = []string{"\\000\\001", "ab", "zz"}[r.Intn(3)]
		}
	}
	cur, err := complib.Preprocess(w.raw(), serial)
	if err != nil {
		return nil, err
	}
	c := &c08case{Kind: "diff", Class: "chain", Cfg: []string{"v1", "v2"}[idx%2], Builder: idx%8 == 1 || idx%8 == 4, FileA: hlib.Ints(cur)}
	nsteps := 1 + r.Intn(5)
	freshDone := false
	for s := 0; s < nsteps; s++ {
		if r.Chance(1, 4) {
			intent, d := failingDiff(w, cur)
			c.Steps = append(c.Steps, stepJ{Diff: hlib.Ints(diffBytes(d, r.Chance(3, 4))), NewFile: hlib.Ints(cur), Intent: intent})
			continue
		}
		w.mutate()
		next, err := complib.Preprocess(w.raw(), serial)
		if err != nil {
			return nil, err
		}
		d := lineDiff(cur, next)
		intent := "diff"
		if !r.Chance(1, 5) {
			d = shuffled(r, d)
		} else {
			intent = "diff-sorted"
		}
		if r.Chance(1, 3) {
			// a line that is added and deleted in the same diff (a key holds its additions before
			// its deletions are taken out); the result is still B
			x := w.g.Line()
			if r.Chance(1, 2) && len(w.lines) > 0 {
				x = w.lines[r.Intn(len(w.lines))]
			}
			d = append(d, "+"+x, "-"+x)
			d = shuffled(r, d)
			intent += "+cancel"
		}
		d = withNoise(r, d)
		fb := "codec"
		if !freshDone {
			fb = "batches"
			if idx%8 == 5 {
				fb = "builder"
			}
			freshDone = true
		}
		c.Steps = append(c.Steps, stepJ{Diff: hlib.Ints(diffBytes(d, r.Chance(3, 4))), NewFile: hlib.Ints(next), Intent: intent, ExpectOk: true, FreshBy: fb})
		cur = next
	}
	return c, nil
}

// genShape: one step on a small file with a key that holds several values; the diff has a
// chosen shape (removals only, additions only, both, a key emptied, one of two equal values
// removed, a failing removal) and a chosen order of lines: the lines of one key separated by a
// line of another key (and that reversed), sorted, or shuffled.
func genShape(seed uint64, idx int) (*c08case, error) {
	r := hlib.NewRng(seed, uint64(500000+idx))
	g := complib.NewGen(r, 1+r.Intn(2), 1+r.Intn(3))
	zone := g.Zones[0]
	hot := []string{"multi." + zone, "m2." + zone}[r.Intn(2)]
	other := []string{"other." + zone, "a." + zone, "zz." + zone}
	lo := []string{"", "", "\\000\\001"}[r.Intn(3)]
	mk := func(owner string, n int) string {
		if n%5 == 4 {
			return fmt.Sprintf("+%s,2001:db8::%x,,,%s", owner, n, lo)
		}
		return fmt.Sprintf("+%s,10.0.0.%d,,,%s", owner, n, lo)
	}
	var base []string
	for k := r.Intn(4); k > 0; k-- {
		base = append(base, g.Line())
	}
	nh := 2 + r.Intn(4)
	var hotOld, othOld []string
	for i := 0; i < nh; i++ {
		hotOld = append(hotOld, mk(hot, 1+i))
	}
	if r.Chance(1, 3) {
		hotOld = append(hotOld, hotOld[0]) // two equal values
	}
	for i, o := range other[:1+r.Intn(3)] {
		othOld = append(othOld, mk(o, 20+i))
	}
	nets := map[string]string{}
	if r.Chance(1, 3) {
		nets["ec|10.0.0.0/8"] = "ab"
		nets["ec|10.1.0.0/16"] = "zz"
	}
	file := func(hotL, othL []string, nets map[string]string) ([]byte, error) {
		w := &world{g: g, r: r, lines: append(append(append([]string{}, base...), hotL...), othL...), nets: nets}
		return complib.Preprocess(w.raw(), serial)
	}
	cur, err := file(hotOld, othOld, nets)
	if err != nil {
		return nil, err
	}
	shape := []string{"del-only", "add-only", "mixed", "empty-key", "del-one-of-equal", "del-absent"}[r.Pick([]int{4, 3, 3, 2, 2, 1})]
	// records whose last field ends in white space (the compiler removes leading blanks only, and so
	// must the diff reader): one in A and B, one in A only, one in B only
	wsA, wsB := "", ""
	if idx%3 != 0 {
		wsA, wsB = g.WsTailLine(), g.WsTailLine()
		othOld = append(othOld, g.WsTailLine(), wsA)
		if cur, err = file(hotOld, othOld, nets); err != nil {
			return nil, err
		}
	}
	hotNew, othNew := append([]string{}, hotOld...), append([]string{}, othOld...)
	if wsA != "" {
		othNew = append(othNew[:len(othNew)-1], wsB) // the generic part of the diff below picks these up
	}
	var dHot, dOth []string // diff lines of the hot key and of the other keys
	delHot := func(i int) {
		dHot = append(dHot, "-"+hotNew[i])
		hotNew = append(hotNew[:i], hotNew[i+1:]...)
	}
	addHot := func(n int) {
		l := mk(hot, n)
		dHot = append(dHot, "+"+l)
		hotNew = append(hotNew, l)
	}
	expect := true
	switch shape {
	case "del-only":
		for k := 2 + r.Intn(2); k > 0 && len(hotNew) > 0; k-- {
			delHot(r.Intn(len(hotNew)))
		}
		dOth = append(dOth, "-"+othNew[0])
		othNew = othNew[1:]
	case "add-only":
		for k := 2 + r.Intn(2); k > 0; k-- {
			addHot(40 + k)
		}
		l := mk("new."+zone, 60)
		dOth = append(dOth, "+"+l)
		othNew = append(othNew, l)
	case "mixed":
		delHot(r.Intn(len(hotNew)))
		addHot(50)
		if len(hotNew) > 1 {
			delHot(0)
		}
		addHot(51)
		l := mk(other[0], 70)
		dOth = append(dOth, "-"+othNew[0], "+"+l)
		othNew = append(othNew[1:], l)
	case "empty-key":
		for len(hotNew) > 0 {
			delHot(0)
		}
		l := mk("new."+zone, 61)
		dOth = append(dOth, "+"+l)
		othNew = append(othNew, l)
	case "del-one-of-equal":
		if len(hotNew) == nh {
			hotOld = append(hotOld, hotOld[0])
			hotNew = append(hotNew, hotNew[0])
			if cur, err = file(hotOld, othOld, nets); err != nil {
				return nil, err
			}
		}
		delHot(0) // hotNew[0] occurs twice; one copy stays
		dOth = append(dOth, "-"+othNew[0])
		othNew = othNew[1:]
	case "del-absent":
		delHot(0)
		dHot = append(dHot, "-"+mk(hot, 99))
		dOth = append(dOth, "-"+othNew[0])
		expect = false
	}
	netsNew := nets
	if len(nets) > 0 && expect && r.Chance(1, 2) {
		netsNew = map[string]string{"ec|10.0.0.0/8": "zz", "ec|10.2.0.0/16": "ab"}
	}
	next := cur
	var d []string
	if expect {
		if next, err = file(hotNew, othNew, netsNew); err != nil {
			return nil, err
		}
		// range point lines and whatever else changed
		want := map[string]bool{}
		for _, l := range append(append([]string{}, dHot...), dOth...) {
			want[l] = true
		}
		for _, l := range lineDiff(cur, next) {
			if !want[l] {
				dOth = append(dOth, l)
			}
		}
	}
	order := []string{"interleaved", "reversed", "sorted", "shuffled"}[r.Intn(4)]
	switch order {
	case "interleaved", "reversed":
		// hot, other, hot, other, ... so that two lines of the hot key are never adjacent while others last
		i, j := 0, 0
		for i < len(dHot) || j < len(dOth) {
			if i < len(dHot) {
				d = append(d, dHot[i])
				i++
			}
			if j < len(dOth) {
				d = append(d, dOth[j])
				j++
			}
		}
		if order == "reversed" {
			for a, b := 0, len(d)-1; a < b; a, b = a+1, b-1 {
				d[a], d[b] = d[b], d[a]
			}
		}
	case "sorted":
		d = append(append(d, dHot...), dOth...)
		sort.Strings(d)
	default:
		d = shuffled(r, append(append(d, dHot...), dOth...))
	}
	if expect {
		// the diff must be exactly the line diff, as a multiset
		a, b := append([]string{}, d...), lineDiff(cur, next)
		sort.Strings(a)
		sort.Strings(b)
		if strings.Join(a, "\n") != strings.Join(b, "\n") {
			return nil, fmt.Errorf("shape %s: generated diff is not the line diff:\n%s\n--\n%s", shape, strings.Join(a, "\n"), strings.Join(b, "\n"))
		}
	}
	c := &c08case{Kind: "diff", Class: "shape:" + shape + ":" + order, Cfg: []string{"v1", "v2"}[idx%2], FileA: hlib.Ints(cur)}
	fb := "codec"
	if idx%6 == 0 {
		fb = "batches"
	}
	c.Steps = []stepJ{{Diff: hlib.Ints(diffBytes(d, true)), NewFile: hlib.Ints(next), Intent: shape, ExpectOk: expect, FreshBy: fb}}
	return c, nil
}

// ---------------------------------------------------------------- huge failing diffs

// hugeCase: a small database and a diff of more than rdb.DefaultBatchSize records that cannot be
// applied because of ONE line (rejected by the codec, unknown operation, or a '-' of a value the
// key does not hold).  The diff is generated, not stored: line i is
// "++hNNNNNN.huge.test,10.x.y.z,60"; with WithDels the rows of the base file are deleted at
// regular intervals; the offending line follows, then Post more additions.  Observed: the error
// class and whether the full dump afterwards equals the full dump before.  The Coq side gets only
// the offending line (theorems C08_failing_line_anywhere_is_noop / C08_absent_delete_anywhere_is_noop
// say what the model does with such a diff whatever its other lines are).
type hugeCase struct {
	Kind     string `json:"kind"`
	Class    string `json:"class"`
	Cfg      string `json:"cfg"`
	FileA    []int  `json:"file_a"`    // input: preprocessed base file
	Extra    int    `json:"extra"`     // input: additions beyond rdb.DefaultBatchSize before the offending line
	WithDels bool   `json:"with_dels"` // input
	Post     int    `json:"post"`      // input: additions after the offending line
	Bad      []int  `json:"bad"`       // input: the offending diff line

	BatchSize  int              `json:"batch_size"` // rdb.DefaultBatchSize
	Lines      int              `json:"lines"`      // lines of the diff
	Records    int              `json:"records"`    // records of the lines before the offending one
	Table      []convJ          `json:"table"`      // the codec on the argument of the offending line
	BadPre     []complib.JEntry `json:"bad_pre"`    // what the database held before under the keys of its records
	Readable   bool             `json:"readable"`   // the codec accepted every other line of the diff
	Added      bool             `json:"added"`      // another line of the diff adds one of the offending line's records
	Err        int              `json:"err"`
	ErrText    string           `json:"err_text,omitempty"`
	Unchanged  bool             `json:"unchanged"` // full dump after = full dump before, values in the same order
	KeysBefore int              `json:"keys_before"`
	RecsBefore int              `json:"recs_before"`
	KeysAfter  int              `json:"keys_after"`
	RecsAfter  int              `json:"recs_after"`
	DiffKeys   [][]int          `json:"diff_keys,omitempty"` // up to five keys whose values changed
	Ms         int              `json:"ms"`                  // wall time of ApplyDiff
}

func hugeLine(i int) string {
	return fmt.Sprintf("++h%06d.huge.test,10.%d.%d.%d,60", i, (i>>16)&255, (i>>8)&255, i&255)
}

func runHuge(scratch string, c *hugeCase, n int) error {
	root := filepath.Join(scratch, fmt.Sprintf("c08h-%d-%d", os.Getpid(), n))
	if err := os.MkdirAll(root, 0o755); err != nil {
		return err
	}
	defer os.RemoveAll(root)
	cfg := complib.Cfg{V2: c.Cfg == "v2", Serial: serial}
	base := hlib.Unints(c.FileA)
	apath := filepath.Join(root, "a")
	if err := complib.WriteFile(apath, base, serial); err != nil {
		return err
	}
	dbdir := filepath.Join(root, "db")
	if err := compile(apath, dbdir, cfg.V2, false); err != nil {
		return fmt.Errorf("compilation of the base file failed: %w", err)
	}
	before, err := complib.DumpRDB(dbdir)
	if err != nil {
		return err
	}
	// the diff
	c.BatchSize = rdb.DefaultBatchSize
	nAdds := rdb.DefaultBatchSize + c.Extra
	codec := complib.NewCodec(cfg)
	var dels []string
	if c.WithDels {
		for _, l := range complib.EffectiveLines(base) {
			if o := complib.ConvertOne(complib.NewCodec(cfg), l); o.Ok && len(o.Recs) > 0 {
				dels = append(dels, "-"+string(l))
			}
		}
	}
	bad := hlib.Unints(c.Bad)
	var badRecs []complib.KV
	c.Table = []convJ{}
	if len(bad) > 0 && (bad[0] == '+' || bad[0] == '-') {
		o := complib.ConvertOne(codec, bad[1:])
		if o.Panic {
			return fmt.Errorf("codec panics on %q", bad)
		}
		c.Table = append(c.Table, convJ{hlib.Ints(bad[1:]), o.Ok, complib.ToJKV(o.Recs)})
		badRecs = o.Recs
	}
	badSet := map[string]bool{}
	c.BadPre = []complib.JEntry{}
	seenKey := map[string]bool{}
	for _, x := range badRecs {
		badSet[string(x.K)+"\x00|"+string(x.V)] = true
		if !seenKey[string(x.K)] {
			seenKey[string(x.K)] = true
			if vs, ok := before[string(x.K)]; ok {
				e := complib.JEntry{K: hlib.Ints(x.K), Vs: [][]int{}}
				for _, v := range vs {
					e.Vs = append(e.Vs, hlib.Ints(v))
				}
				c.BadPre = append(c.BadPre, e)
			}
		}
	}
	var sb bytes.Buffer
	c.Readable, c.Added, c.Records, c.Lines = true, false, 0, 0
	every := 1
	if len(dels) > 0 {
		every = nAdds / (len(dels) + 1)
	}
	emit := func(l string, beforeBad bool) {
		sb.WriteString(l)
		sb.WriteByte('\n')
		c.Lines++
		o := complib.ConvertOne(codec, []byte(l[1:]))
		if !o.Ok {
			c.Readable = false
			return
		}
		if beforeBad {
			c.Records += len(o.Recs)
		}
		if l[0] == '+' {
			for _, x := range o.Recs {
				if badSet[string(x.K)+"\x00|"+string(x.V)] {
					c.Added = true
				}
			}
		}
	}
	for i := 0; i < nAdds; i++ {
		emit(hugeLine(i), true)
		if len(dels) > 0 && i%every == every-1 && i/every < len(dels) {
			emit(dels[i/every], true)
		}
	}
	sb.Write(bad)
	sb.WriteByte('\n')
	c.Lines++
	for i := 0; i < c.Post; i++ {
		emit(hugeLine(nAdds+i), false)
	}
	dpath := filepath.Join(root, "diff")
	if err := complib.WriteFile(dpath, sb.Bytes(), serial); err != nil {
		return err
	}
	t0 := time.Now()
	aerr := rdb.ApplyDiff(dpath, dbdir)
	c.Ms = int(time.Since(t0) / time.Millisecond)
	c.Err = errClass(aerr)
	c.ErrText = ""
	if aerr != nil {
		c.ErrText = aerr.Error()
		if len(c.ErrText) > 200 {
			c.ErrText = c.ErrText[:200]
		}
	}
	after, err := complib.DumpRDB(dbdir)
	if err != nil {
		return err
	}
	c.KeysBefore, c.RecsBefore, c.KeysAfter, c.RecsAfter = len(before), before.Records(), len(after), after.Records()
	c.DiffKeys = nil
	same := func(x, y [][]byte) bool {
		if len(x) != len(y) {
			return false
		}
		for i := range x {
			if !bytes.Equal(x[i], y[i]) {
				return false
			}
		}
		return true
	}
	ndiff := 0
	for _, k := range after.Keys() {
		if !same(after[k], before[k]) {
			ndiff++
			if len(c.DiffKeys) < 5 {
				c.DiffKeys = append(c.DiffKeys, hlib.Ints([]byte(k)))
			}
		}
	}
	for _, k := range before.Keys() {
		if _, ok := after[k]; !ok {
			ndiff++
			if len(c.DiffKeys) < 5 {
				c.DiffKeys = append(c.DiffKeys, hlib.Ints([]byte(k)))
			}
		}
	}
	c.Unchanged = ndiff == 0
	return nil
}

func genHuge(seed uint64, idx int) (*hugeCase, error) {
	r := hlib.NewRng(seed, uint64(900000+idx))
	w := &world{g: complib.NewGen(r, 1+r.Intn(2), 1+r.Intn(3)), r: r, nets: map[string]string{}}
	for k := 3 + r.Intn(6); k > 0; k-- {
		w.lines = append(w.lines, w.g.Line())
	}
	w.lines = append(w.lines, "+h000005.huge.test,10.200.0.1,60") // a key the diff adds to as well
	if r.Chance(1, 2) {
		w.nets["ec|10.0.0.0/8"] = "ab"
	}
	base, err := complib.Preprocess(w.raw(), serial)
	if err != nil {
		return nil, err
	}
	variants := []struct{ name, line string }{
		{"rejected-line", "+Qbad.huge.test,1.2.3.4"},
		{"absent-key", "-+absent.huge.test,10.9.9.9,60"},
		{"bad-op", "*+x.huge.test,1.2.3.4"},
		{"absent-value", "-+h000005.huge.test,10.77.77.77,60"},
		{"rejected-delete", "-+a.huge.test,1.2.3.4,,,\\x"},
	}
	v := variants[idx%len(variants)]
	c := &hugeCase{Kind: "huge", Class: "huge-fail:" + v.name, Cfg: []string{"v1", "v2"}[idx%2], FileA: hlib.Ints(base),
		Extra: 500 + r.Intn(3000), WithDels: idx%3 != 1, Post: []int{0, 40, 0}[idx%3], Bad: hlib.Ints([]byte(v.line))}
	return c, nil
}

func run(a *hlib.Args, e *hlib.Emitter) error {
	log.SetOutput(io.Discard)
	if a.Scratch == "" {
		d, err := os.MkdirTemp("/var/tmp", "c08-")
		if err != nil {
			return err
		}
		defer os.RemoveAll(d)
		a.Scratch = d
	}
	var cases []*c08case
	var huges []*hugeCase
	if a.Replay != "" {
		raw, err := hlib.ReadReplay(a.Replay)
		if err != nil {
			return err
		}
		for _, m := range raw {
			b, _ := json.Marshal(m)
			var kind string
			json.Unmarshal(m["kind"], &kind)
			if kind == "huge" {
				h := &hugeCase{}
				if err := json.Unmarshal(b, h); err != nil {
					return err
				}
				huges = append(huges, h)
				continue
			}
			c := &c08case{}
			if err := json.Unmarshal(b, c); err != nil {
				return err
			}
			cases = append(cases, c)
		}
	} else {
		for i := 0; i < a.N; i++ {
			var c *c08case
			var err error
			if i%5 == 0 {
				c, err = genCase(a.Seed, i/5)
			} else {
				c, err = genShape(a.Seed, i)
			}
			if err != nil {
				return err
			}
			cases = append(cases, c)
		}
		nh := 0
		if a.N > 0 {
			nh = 3
		}
		if a.Tier == "thorough" {
			nh = 20
		}
		for i := 0; i < nh; i++ {
			h, err := genHuge(a.Seed, i)
			if err != nil {
				return err
			}
			huges = append(huges, h)
		}
	}
	herrs := make([]error, len(huges))
	var hwg sync.WaitGroup
	hsem := make(chan struct{}, 3)
	for i, h := range huges {
		hwg.Add(1)
		go func(i int, h *hugeCase) {
			defer hwg.Done()
			hsem <- struct{}{}
			defer func() { <-hsem }()
			herrs[i] = runHuge(a.Scratch, h, i)
		}(i, h)
	}
	errs := make([]error, len(cases))
	var wg sync.WaitGroup
	sem := make(chan struct{}, 12)
	for i, c := range cases {
		wg.Add(1)
		go func(i int, c *c08case) {
			defer wg.Done()
			sem <- struct{}{}
			defer func() { <-sem }()
			errs[i] = runCase(a.Scratch, c, i)
		}(i, c)
	}
	wg.Wait()
	for i, c := range cases {
		if errs[i] != nil {
			return errs[i]
		}
		e.Emit(c)
	}
	hwg.Wait()
	for i, h := range huges {
		if herrs[i] != nil {
			return herrs[i]
		}
		e.Emit(h)
	}
	return nil
}

// Every rdb.CreateBatch allocates about 10 MB and every Builder about 1 GB, almost all of it never
// touched.  With the proportional collector each of them starts a collection and the freed spans
// are zeroed again on reuse; the collector is therefore driven by a memory limit alone.
func main() {
	debug.SetGCPercent(-1)
	debug.SetMemoryLimit(4 << 30)
	hlib.Main(run)
}
