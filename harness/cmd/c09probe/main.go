package main

import (
	"bytes"
	"fmt"

	"github.com/facebookincubator/dns/dnsrocks/dnsdata"
)

func main() {
	lines := []string{"%\xce\\022,10.0.0.0/12,m1", "%em,10.0.48.0/12,m2", "Zsub.example.com,a.ns.sub.example.com,dns.sub.example.com,431552379,86400,2560,60,22,0,,\\054:", "&example.com,126.78.61.26,a.ns.example.com,4294967295", "Zexample.com,a.ns.example.com,dns.example.com,4294967295", "8example.com,\\000\\000", "Mexample.com,\\000\\000", "%l5,10.3.16.0/8,m2", "+www.example.com,49.149.105.195,300,,pn"}
	codec := new(dnsdata.Codec)
	codec.Acc.Ranger.Enable()
	codec.Acc.NoPrefixSets = true
	codec.NoRnetOutput = true
	for _, l := range lines {
		_, err := codec.DecodeLn([]byte(l))
		fmt.Printf("%q: %v\n", l, err)
	}
	c2 := new(dnsdata.Codec)
	c2.Acc.Ranger.Enable()
	c2.Acc.NoPrefixSets = true
	c2.NoRnetOutput = true
	var out bytes.Buffer
	err := c2.Preprocess(bytes.NewReader([]byte("+a.example.com,1.2.3.4\n+bad.example.com,1.2.3.4,,,\\x\n+c.example.com,1.2.3.4\n")), &out)
	fmt.Printf("preprocess err=%v out=%q\n", err, out.String())
	for _, txt := range []string{"Zbad.example.com,a,b,,,,,,,,\\x\n+c.example.com,1.2.3.4\n", "%,1.2.3.0/24,m1\n+c.example.com,1.2.3.4\n"} {
		c4 := new(dnsdata.Codec)
		c4.Acc.Ranger.Enable()
		c4.Acc.NoPrefixSets = true
		c4.NoRnetOutput = true
		out.Reset()
		err = c4.Preprocess(bytes.NewReader([]byte(txt)), &out)
		fmt.Printf("first-line-bad: preprocess err=%v out=%q\n", err, out.String())
	}
	c3 := new(dnsdata.Codec)
	c3.Acc.Ranger.Enable()
	c3.Acc.NoPrefixSets = true
	c3.NoRnetOutput = true
	out.Reset()
	err = c3.Preprocess(bytes.NewReader([]byte("+a.example.com,1.2.3.4\nZbad.example.com,a,b,,,,,,,,\\x\n+c.example.com,1.2.3.4\n")), &out)
	fmt.Printf("preprocess err=%v out=%q\n", err, out.String())
}
