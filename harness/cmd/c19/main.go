// C19 harness: exported statistics and the query log.
//
// Three kinds of case (field "kind"):
//
//	win    a real sliding window (metrics.NewSlidingWindowForVerif) or a real
//	       metrics.Stats window (AddSampleForVerif / Get) driven through a generated
//	       timed history; every event carries the time at which it really happened.
//	query  one query served by a real dnsserver.FBDNSDB (real compiled CDB / RocksDB
//	       data) with a recording logger, a recording response writer and the real
//	       metrics.Stats as counter sink; the response class is derived by calling
//	       the public db.Reader API independently of the handler.
//	conc   goroutines bumping one metrics.Stats concurrently with exporters.
package main

import (
	"context"
	"encoding/json"
	"errors"
	"fmt"
	"net"
	"os"
	"path/filepath"
	"sort"
	"strings"
	"sync"
	"sync/atomic"
	"time"

	"github.com/coredns/coredns/plugin/pkg/dnstest"
	"github.com/coredns/coredns/request"
	"github.com/miekg/dns"

	"github.com/facebookincubator/dns/dnsrocks/db"
	"github.com/facebookincubator/dns/dnsrocks/dnsdata/cdb"
	"github.com/facebookincubator/dns/dnsrocks/dnsdata/rdb"
	"github.com/facebookincubator/dns/dnsrocks/dnsserver"
	"github.com/facebookincubator/dns/dnsrocks/dnsserver/test"
	"github.com/facebookincubator/dns/dnsrocks/metrics"

	"verifharness/hlib"
)

// ------------------------------------------------------------------ case format

type schedEv struct {
	Op string `json:"op"` // add | read
	At int    `json:"at"` // scheduled offset, ms after the start of the history
	V  int64  `json:"v"`
}

type winEv struct {
	Op      string  `json:"op"` // add | tick | read | get
	T       int64   `json:"t"`  // observed time, microseconds after the start of the history
	V       int64   `json:"v,omitempty"`
	Vals    []int64 `json:"vals,omitempty"`
	Present bool    `json:"present,omitempty"`
	Min     int64   `json:"min,omitempty"`
	Max     int64   `json:"max,omitempty"`
	Avg     int64   `json:"avg,omitempty"`
}

type qspec struct {
	Name      string `json:"name"`
	Qtype     uint16 `json:"qtype"`
	Edns      int    `json:"edns"` // -1 no OPT, else EDNS version
	Do        bool   `json:"do"`
	Ecs       string `json:"ecs"`
	Buf       uint16 `json:"buf"`
	IP        string `json:"ip"`
	TCP       bool   `json:"tcp"`
	MaxAns    int    `json:"maxans"`
	WriteFail bool   `json:"writefail"`
	SleepMs   int    `json:"sleep_ms"` // pause before the query (cache expiry)
}

type qclass struct {
	ReaderOK    bool   `json:"reader_ok"`
	Do          bool   `json:"do"`
	Qtype       uint16 `json:"qtype"`
	EdnsOK      bool   `json:"edns_ok"`
	PackOK      bool   `json:"pack_ok"`
	Loc         string `json:"loc"` // err | nil | ok
	Mask        int    `json:"mask"`
	ID0         int    `json:"id0"`
	ID1         int    `json:"id1"`
	CacheOn     bool   `json:"cache_on"`
	Cache       string `json:"cache"` // hit | expired | miss
	HitRcode    int    `json:"hit_rcode"`
	HitAA       bool   `json:"hit_aa"`
	IsAuthErr   bool   `json:"isauth_err"`
	NS          bool   `json:"ns"`
	Auth        bool   `json:"auth"`
	DSErr       bool   `json:"ds_err"`
	DSAuth      bool   `json:"ds_auth"`
	NFound      int    `json:"nfound"`
	RecordFound bool   `json:"record_found"`
	UnpackOK    bool   `json:"unpack_ok"`
	SentAnswers int    `json:"sent_answers"`
	WriteErr    bool   `json:"write_err"`
}

type obsLog struct {
	Failed     bool `json:"failed"`
	SameAsSent bool `json:"same_as_sent"`
	IsRequest  bool `json:"is_request"`
	AfterWrite bool `json:"after_write"`
}

type obsWrite struct {
	Rcode int  `json:"rcode"`
	AA    bool `json:"aa"`
	NAns  int  `json:"nans"`
	TC    bool `json:"tc"`
	Qtype int  `json:"qtype"` // -1 without question section
	OK    bool `json:"ok"`
}

type qobs struct {
	Deltas  map[string]int64 `json:"deltas"`
	Logs    []obsLog         `json:"logs"`
	Writes  []obsWrite       `json:"writes"`
	Located bool             `json:"located"`
	ViaECS  bool             `json:"via_ecs"` // db.EcsLocation on the request's ECS option produced the location
	Trace   []string         `json:"trace"`
	Ret     int              `json:"ret"`
	RetErr  bool             `json:"ret_err"`
}

type incOp struct {
	K int   `json:"k"`
	V int64 `json:"v"`
}

type c19case struct {
	Kind  string `json:"kind"`
	Class string `json:"class"`
	// win
	Raw       bool      `json:"raw,omitempty"`
	LMs       int       `json:"l_ms,omitempty"`
	Sched     []schedEv `json:"sched,omitempty"`
	PreGet    bool      `json:"preget,omitempty"` // stats kind: a Get before the first AddSample
	Events    []winEv   `json:"events,omitempty"`
	Ambiguous bool      `json:"ambiguous,omitempty"`
	MaxLateMs int64     `json:"max_late_ms,omitempty"`
	// query
	Backend string  `json:"backend,omitempty"`
	Cache   string  `json:"cache,omitempty"`
	Prior   []qspec `json:"prior,omitempty"`
	Q       *qspec  `json:"q,omitempty"`
	Cls     *qclass `json:"cls,omitempty"`
	Obs     *qobs   `json:"obs,omitempty"`
	// race (class cleaner-race)
	Plan   *racePlan `json:"plan,omitempty"`
	REvs   []raceEv  `json:"revs,omitempty"`
	Missed string    `json:"missed,omitempty"` // diagnostic: why the round could not provoke the interleaving
	// conc
	Threads [][]incOp            `json:"threads,omitempty"`
	NExp    int                  `json:"nexp,omitempty"`
	Exports [][]map[string]int64 `json:"exports,omitempty"`
	Final   map[string]int64     `json:"final,omitempty"`
}

// ------------------------------------------------------------------ window part

const marginMs = 150

func absInt(x int) int {
	if x < 0 {
		return -x
	}
	return x
}

// nearTick: within margin of a cleaner tick instant base + k*1000 (k >= 1)
func nearTick(at, base int) bool {
	d := at - base
	if d < 500 {
		return false
	}
	m := d % 1000
	return m < marginMs || m > 1000-marginMs
}

func genValue(r *hlib.Rng) int64 {
	switch r.Pick([]int{70, 10, 10, 10}) {
	case 0:
		v := int64(r.Intn(2001)) - 1000
		if v == 0 {
			v = 17
		}
		return v
	case 1:
		return 0
	case 2:
		return (int64(r.Intn(1<<20)) + 1) << 20
	default:
		return -((int64(r.Intn(1<<20)) + 1) << 20)
	}
}

// genSchedule draws a timed history for a window of lifetime lms whose cleaner
// ticks at base+k*1000 ms; every event keeps marginMs distance from each tick
// instant and every read keeps marginMs distance from each expiry instant.
func genSchedule(r *hlib.Rng, lms, base, durMs int) []schedEv {
	for attempt := 0; attempt < 400; attempt++ {
		n := 5 + r.Intn(9)
		times := map[int]bool{}
		var ts []int
		for len(ts) < n {
			t := base + 60 + 10*r.Intn((durMs-base-60)/10)
			ok := !nearTick(t, base)
			for u := range times {
				if absInt(u-t) < 60 {
					ok = false
				}
			}
			if ok {
				times[t] = true
				ts = append(ts, t)
			} else if r.Chance(1, 50) {
				break
			}
		}
		sort.Ints(ts)
		if len(ts) < 3 {
			continue
		}
		evs := make([]schedEv, len(ts))
		for i, t := range ts {
			op := "add"
			if i == len(ts)-1 || (i > 0 && r.Chance(45, 100)) {
				op = "read"
			}
			evs[i] = schedEv{Op: op, At: t}
			if op == "add" {
				evs[i].V = genValue(r)
			}
		}
		good := true
		for _, a := range evs {
			if a.Op != "add" {
				continue
			}
			exp := a.At + lms
			if nearTick(exp, base) {
				good = false
			}
			for _, rd := range evs {
				if rd.Op == "read" && absInt(rd.At-exp) < marginMs {
					good = false
				}
			}
		}
		if good {
			return evs
		}
	}
	return []schedEv{{Op: "add", At: base + 300, V: 7}, {Op: "read", At: base + 500}}
}

// decisive shapes: a sample expired and another live when the cleaner ticks, then a
// read; a read after expiry before any tick; everything expired.
func fixedSchedules(base int) [][]schedEv {
	b := base
	return [][]schedEv{
		{{Op: "add", At: b + 300, V: 7}, {Op: "add", At: b + 1600, V: -3}, {Op: "read", At: b + 2200},
			{Op: "read", At: b + 2800}, {Op: "add", At: b + 3200, V: 5}, {Op: "read", At: b + 3400}},
		{{Op: "add", At: b + 200, V: 11}, {Op: "read", At: b + 700}, {Op: "read", At: b + 1400},
			{Op: "add", At: b + 1600, V: 0}, {Op: "add", At: b + 1700, V: 4}, {Op: "read", At: b + 2350},
			{Op: "read", At: b + 3300}},
		{{Op: "add", At: b + 250, V: 1}, {Op: "add", At: b + 400, V: 2}, {Op: "add", At: b + 1250, V: 3},
			{Op: "add", At: b + 1400, V: 4}, {Op: "read", At: b + 2200}, {Op: "add", At: b + 2700, V: -9},
			{Op: "read", At: b + 3200}, {Op: "read", At: b + 4200}},
	}
}

type winPlan struct {
	raw    bool
	lms    int
	preget bool
	sched  []schedEv
	class  string
}

func sleepUntil(start time.Time, atMs int) {
	d := time.Until(start.Add(time.Duration(atMs) * time.Millisecond))
	if d > 0 {
		time.Sleep(d)
	}
}

type timedObs struct {
	before, after int64 // microseconds
	ev            winEv
}

// runWindow executes one history on a real window and returns the observed case.
func runWindow(p winPlan) c19case {
	c := c19case{Kind: "win", Class: p.class, Raw: p.raw, LMs: p.lms, Sched: p.sched, PreGet: p.preget}
	life := time.Duration(p.lms) * time.Millisecond
	start := time.Now()
	us := func() int64 { return time.Since(start).Microseconds() }
	var obs []timedObs
	var tickBase int64 = -1
	var maxLate int64

	var sw *metrics.SlidingWindowForVerif
	var st *metrics.Stats
	if p.raw {
		var err error
		sw, err = metrics.NewSlidingWindowForVerif(life)
		if err != nil {
			panic(err)
		}
		tickBase = us()
		defer sw.Stop()
	} else {
		st = metrics.NewStats()
	}
	get := func() winEv {
		m := st.Get()
		mn, ok1 := m["w.min"]
		mx, ok2 := m["w.max"]
		av, ok3 := m["w.avg"]
		if ok1 != ok2 || ok2 != ok3 {
			panic("w.min/w.max/w.avg not exported together")
		}
		return winEv{Op: "get", Present: ok1, Min: mn, Max: mx, Avg: av}
	}
	if !p.raw && p.preget {
		b := us()
		e := get()
		obs = append(obs, timedObs{b, us(), e})
	}
	for _, s := range p.sched {
		sleepUntil(start, s.At)
		b := us()
		if late := b/1000 - int64(s.At); late > maxLate {
			maxLate = late
		}
		var e winEv
		switch s.Op {
		case "add":
			if p.raw {
				sw.Add(s.V)
			} else {
				st.AddSampleForVerif("w", s.V, life)
				if tickBase < 0 {
					tickBase = b
				}
			}
			e = winEv{Op: "add", V: s.V}
		case "read":
			if p.raw {
				vals := sw.Samples()
				if vals == nil {
					vals = []int64{}
				}
				e = winEv{Op: "read", Vals: append([]int64{}, vals...)}
			} else {
				e = get()
			}
		}
		obs = append(obs, timedObs{b, us(), e})
	}
	c.MaxLateMs = maxLate
	// ambiguity: a read too close to an expiry instant as observed
	const guard = 20000 // microseconds
	lus := int64(p.lms) * 1000
	for _, a := range obs {
		if a.ev.Op != "add" {
			continue
		}
		for _, r := range obs {
			if r.ev.Op == "add" {
				continue
			}
			if r.after >= a.before+lus-guard && r.before <= a.after+lus+guard {
				c.Ambiguous = true
			}
		}
	}
	// events with the estimated cleaner ticks merged in (ticks do not change what the
	// repaired code reports; they are part of the history the model is run on)
	var evs []winEv
	last := int64(0)
	if len(obs) > 0 {
		last = obs[len(obs)-1].before
	}
	nextTick := int64(-1)
	if tickBase >= 0 {
		nextTick = tickBase + 1000000
	}
	for _, o := range obs {
		for nextTick >= 0 && nextTick < o.before && nextTick <= last {
			evs = append(evs, winEv{Op: "tick", T: nextTick})
			nextTick += 1000000
		}
		e := o.ev
		e.T = o.before
		evs = append(evs, e)
	}
	c.Events = evs
	return c
}

func windowPart(seed uint64, tier string) []c19case {
	r := hlib.NewRng(seed, 191)
	nRaw, nStats, dur := 60, 40, 5200
	if tier == "thorough" {
		nRaw, nStats, dur = 260, 160, 9200
	}
	var plans []winPlan
	for _, s := range fixedSchedules(0) {
		plans = append(plans, winPlan{raw: true, lms: 1000, sched: s, class: "raw-fixed"})
	}
	for _, s := range fixedSchedules(100) {
		s = append([]schedEv{{Op: "add", At: 100, V: 21}}, s...)
		plans = append(plans, winPlan{raw: false, lms: 1000, preget: true, sched: s, class: "stats-fixed"})
	}
	lifes := []int{1000, 1500, 2000}
	for i := 0; i < nRaw; i++ {
		l := lifes[r.Intn(3)]
		plans = append(plans, winPlan{raw: true, lms: l, sched: genSchedule(r, l, 0, dur), class: fmt.Sprintf("raw-%d", l)})
	}
	for i := 0; i < nStats; i++ {
		l := lifes[r.Intn(3)]
		s := genSchedule(r, l, 100, dur)
		// the first AddSample creates the window and starts its cleaner
		s = append([]schedEv{{Op: "add", At: 100, V: genValue(r)}}, s...)
		ok := true
		for _, rd := range s {
			if rd.Op == "read" && absInt(rd.At-(100+l)) < marginMs {
				ok = false
			}
		}
		if !ok {
			i--
			continue
		}
		plans = append(plans, winPlan{raw: false, lms: l, preget: r.Chance(1, 2), sched: s, class: fmt.Sprintf("stats-%d", l)})
	}
	// the int64 caveat of the average: two samples whose sum wraps
	plans = append(plans, winPlan{raw: false, lms: 2000, class: "stats-overflow", sched: []schedEv{
		{Op: "add", At: 100, V: 1 << 62}, {Op: "add", At: 300, V: 1 << 62}, {Op: "read", At: 600}}})
	res := make([]c19case, len(plans))
	todo := make([]int, len(plans))
	for i := range todo {
		todo[i] = i
	}
	for round := 0; round < 3 && len(todo) > 0; round++ {
		var wg sync.WaitGroup
		for _, i := range todo {
			wg.Add(1)
			go func(i int) {
				defer wg.Done()
				res[i] = runWindow(plans[i])
			}(i)
		}
		wg.Wait()
		var again []int
		for _, i := range todo {
			if res[i].Ambiguous {
				again = append(again, i)
			}
		}
		todo = again
	}
	return res
}

// ------------------------------------------------------------------ query part

const dataText = `# locations (resolver maps "c\000", ECS map "ec")
%\000\002,1.1.1.1/32,c\000
%\000\003,2.2.2.0/24,c\000
%\001\005,7.7.7.0/24,c\000
%\000\003,fd58:6525:66bd:a::/64,c\000
%\000\001,0.0.0.0/0,c\000
%\000\001,::/0,c\000
%\000\002,1.1.1.0/24,ec
%\000\003,2.2.2.0/24,ec
%\000\004,3.3.3.0/24,ec
%\000\004,fd8f:a2ea:9f4b::/56,ec
Mexample.com,c\000
Mfoo.example.com,c\000
Mexample.org,c\000
Mfoo.example.org,c\000
8example.com,ec
8foo.example.com,ec
8example.org,ec
8foo.example.org,ec

Zexample.com,a.ns.example.com,dns.example.com,123,7200,1800,604800,120,120,,
&example.com,,a.ns.example.com,172800,,
&example.com,,b.ns.example.com,172800,,
&nonauth.example.com,,a.ns.nonauth.example.com,172800,,
&nonauth.example.com,,b.ns.nonauth.example.com,172800,,
=a.ns.example.com,fd09:14f5:dead:beef:1::35,172800,,
=a.ns.example.com,5.5.5.5,172800,,
=b.ns.example.com,fd09:14f5:dead:beef:2::35,172800,,
=b.ns.example.com,5.5.6.5,172800,,
@example.com,,www.example.com,10,300
=a.ns.nonauth.example.com,6.5.5.5,172800,,
=b.ns.nonauth.example.com,6.5.6.5,172800,,
Cwww.example.com,www.nonauth.example.com,3600,,
Cwww2.example.com,foo.example.com,3600,,
+foo.example.com,1.1.1.1,180,,\000\001,1
+foo.example.com,fd24:7859:f076:2a21::1,180,,\000\001,1
+foo.example.com,1.1.1.2,180,,\000\002,1
+foo.example.com,fd24:7859:f076:2a21::2,180,,\000\002,1
+foo.example.com,1.1.1.3,180,,\000\003,1
+foo.example.com,1.1.1.4,180,,\000\004,1
+foo.example.com,1.1.1.5,180,,\001\005,1
=bar.example.com,1.1.1.1,180,,
=bar.example.com,fd24:7859:f076:2a21::1,180,,
+many.example.com,10.0.0.1,180,,
+many.example.com,10.0.0.2,180,,
+many.example.com,10.0.0.3,180,,
+many.example.com,10.0.0.4,180,,
+wrr.example.com,1.1.1.1,180,,,4321
+wrr.example.com,1.1.1.2,180,,,1234
+wrr.example.com,1.1.1.3,180,,,5678
C*.wild.example.com,bar.example.com,1800,,

Zexample.org,a.ns.example.org,dns.example.org,123,7200,1800,604800,120,120,,
&example.org,,a.ns.example.org,172800,,
&example.org,,b.ns.example.org,172800,,
=a.ns.example.org,5.5.5.5,172800,,
=b.ns.example.org,5.5.6.5,172800,,
+foo.example.org,1.1.1.1,180,,\000\001,1
+foo.example.org,1.1.1.2,180,,\000\002,1
=bar.example.org,1.1.1.1,180,,
'txt.example.org,hello world,300,,
'big.example.org,BIGTEXT,300,,
&lotofns.example.org,,a.ns.lotofns.example.org,172800,,
&lotofns.example.org,,b.ns.lotofns.example.org,172800,,
&lotofns.example.org,,c.ns.lotofns.example.org,172800,,
&lotofns.example.org,,d.ns.lotofns.example.org,172800,,
&lotofns.example.org,,e.ns.lotofns.example.org,172800,,
&lotofns.example.org,,f.ns.lotofns.example.org,172800,,
&lotofns.example.org,,g.ns.lotofns.example.org,172800,,
&lotofns.example.org,,h.ns.lotofns.example.org,172800,,
=a.ns.lotofns.example.org,5.5.5.1,172800,,
=b.ns.lotofns.example.org,5.5.5.2,172800,,
=c.ns.lotofns.example.org,5.5.5.3,172800,,
=d.ns.lotofns.example.org,5.5.5.4,172800,,
=e.ns.lotofns.example.org,5.5.5.5,172800,,
=f.ns.lotofns.example.org,5.5.5.6,172800,,
=g.ns.lotofns.example.org,5.5.5.7,172800,,
=h.ns.lotofns.example.org,5.5.5.8,172800,,

# a zone without any map: location id 0,0
Znomap.test,a.ns.nomap.test,dns.nomap.test,5,7200,1800,604800,120,120,,
&nomap.test,,a.ns.nomap.test,172800,,
=a.ns.nomap.test,9.9.9.9,172800,,
=www.nomap.test,9.9.9.1,180,,
`

// dbSet compiles the data file into each backend on first use.
type dbSet struct {
	dir   string
	in    string
	paths map[string]string // backend -> path
}

func buildDBs(scratch string) (*dbSet, error) {
	dir, err := os.MkdirTemp(scratch, "c19db-")
	if err != nil {
		return nil, err
	}
	text := strings.Replace(dataText, "BIGTEXT", strings.Repeat("x", 900), 1)
	in := filepath.Join(dir, "data.in")
	if err := os.WriteFile(in, []byte(text), 0o644); err != nil {
		return nil, err
	}
	return &dbSet{dir: dir, in: in, paths: map[string]string{}}, nil
}

func (s *dbSet) path(backend string) (string, error) {
	if p, ok := s.paths[backend]; ok {
		return p, nil
	}
	var p string
	switch backend {
	case "cdb":
		p = filepath.Join(s.dir, "data.cdb")
		if _, err := cdb.CreateCDB(s.in, p, nil); err != nil {
			return "", fmt.Errorf("cdb compile: %w", err)
		}
	case "rdb1", "rdb2":
		p = filepath.Join(s.dir, backend)
		if err := os.MkdirAll(p, 0o755); err != nil {
			return "", err
		}
		if _, err := rdb.CompileToSpecificRDBVersion(s.in, p, rdb.CompilationOptions{UseV2KeySyntax: backend == "rdb2", UseBuilder: true}); err != nil {
			return "", fmt.Errorf("%s compile: %w", backend, err)
		}
	case "rdb1root":
		// RocksDB v1 plus an NS record at the root name
		in2 := filepath.Join(s.dir, "data-root.in")
		text, err := os.ReadFile(s.in)
		if err != nil {
			return "", err
		}
		if err := os.WriteFile(in2, append(text, []byte("&.,,a.ns.example.com,172800,,\n")...), 0o644); err != nil {
			return "", err
		}
		p = filepath.Join(s.dir, backend)
		if err := os.MkdirAll(p, 0o755); err != nil {
			return "", err
		}
		if _, err := rdb.CompileToSpecificRDBVersion(in2, p, rdb.CompilationOptions{UseV2KeySyntax: false, UseBuilder: true}); err != nil {
			return "", fmt.Errorf("%s compile: %w", backend, err)
		}
	default:
		p = filepath.Join(s.dir, "does-not-exist.cdb")
	}
	s.paths[backend] = p
	return p, nil
}

func (s *dbSet) remove() { os.RemoveAll(s.dir) }

// recording counter sink: the real metrics.Stats plus the list of calls
type recStats struct {
	real  *metrics.Stats
	mu    sync.Mutex
	calls []string
	other []string
}

func (s *recStats) IncrementCounter(key string) {
	s.mu.Lock()
	s.calls = append(s.calls, key)
	s.mu.Unlock()
	s.real.IncrementCounter(key)
}
func (s *recStats) IncrementCounterBy(key string, v int64) {
	s.mu.Lock()
	s.other = append(s.other, "by:"+key)
	s.mu.Unlock()
	s.real.IncrementCounterBy(key, v)
}
func (s *recStats) ResetCounter(key string) {
	s.mu.Lock()
	s.other = append(s.other, "reset:"+key)
	s.mu.Unlock()
	s.real.ResetCounter(key)
}
func (s *recStats) ResetCounterTo(key string, v int64) {
	s.mu.Lock()
	s.other = append(s.other, "resetto:"+key)
	s.mu.Unlock()
	s.real.ResetCounterTo(key, v)
}
func (s *recStats) AddSample(key string, v int64) { s.real.AddSample(key, v) }

// recording writer: snapshots every message handed to WriteMsg
type capWriter struct {
	test.ResponseWriterCustomRemote
	tcp    bool
	fail   bool
	writes []obsWrite
	texts  []string
	ptrs   []*dns.Msg
}

func (w *capWriter) RemoteAddr() net.Addr {
	ip := net.ParseIP(w.RemoteIP)
	if w.tcp {
		return &net.TCPAddr{IP: ip, Port: 40212}
	}
	return &net.UDPAddr{IP: ip, Port: 40212}
}

func (w *capWriter) LocalAddr() net.Addr {
	if w.tcp {
		return &net.TCPAddr{IP: net.ParseIP("127.0.0.1"), Port: 53}
	}
	return &net.UDPAddr{IP: net.ParseIP("127.0.0.1"), Port: 53}
}

func (w *capWriter) WriteMsg(m *dns.Msg) error {
	o := obsWrite{Rcode: m.Rcode, AA: m.Authoritative, NAns: len(m.Answer), TC: m.Truncated, Qtype: -1, OK: !w.fail}
	if len(m.Question) > 0 {
		o.Qtype = int(m.Question[0].Qtype)
	}
	w.writes = append(w.writes, o)
	w.texts = append(w.texts, m.String())
	w.ptrs = append(w.ptrs, m)
	if w.fail {
		return errors.New("write failed (injected)")
	}
	return nil
}

// recording logger
type recLogger struct {
	w    *capWriter
	req  *dns.Msg
	logs []obsLog
}

func (l *recLogger) record(failed bool, r *dns.Msg) {
	o := obsLog{Failed: failed, IsRequest: r == l.req}
	if l.w != nil && len(l.w.texts) > 0 {
		o.AfterWrite = true
		o.SameAsSent = r != nil && r.String() == l.w.texts[len(l.w.texts)-1]
	}
	l.logs = append(l.logs, o)
}
func (l *recLogger) Log(state request.Request, r *dns.Msg, ecs *dns.EDNS0_SUBNET) {
	l.record(false, r)
}
func (l *recLogger) LogFailed(state request.Request, r *dns.Msg, ecs *dns.EDNS0_SUBNET) {
	l.record(true, r)
}

type traceKey struct{}

type shadowEntry struct {
	inserted time.Time
	ttl      int64
	rcode    int
	aa       bool
}

// one handler instance with its recorders and the shadow of its response cache
type server struct {
	backend string
	cache   string
	h       *dnsserver.FBDNSDB
	stats   *recStats
	logger  *recLogger
	loaded  bool
	cacheOn bool
	wrs     int64
	shadow  map[string]shadowEntry
}

var tNew, tServe, tClose time.Duration

func newServer(dbs *dbSet, backend, cache string) (*server, error) {
	t := time.Now()
	defer func() { tNew += time.Since(t) }()
	s := &server{backend: backend, cache: cache, shadow: map[string]shadowEntry{}}
	s.stats = &recStats{real: metrics.NewStats()}
	s.logger = &recLogger{}
	cc := dnsserver.CacheConfig{}
	switch cache {
	case "on":
		cc = dnsserver.CacheConfig{Enabled: true, LRUSize: 4096}
	case "wrs":
		cc = dnsserver.CacheConfig{Enabled: true, LRUSize: 4096, WRSTimeout: 1}
	}
	s.cacheOn = cc.Enabled
	s.wrs = cc.WRSTimeout
	driver := "cdb"
	if strings.HasPrefix(backend, "rdb") {
		driver = "rocksdb"
	}
	dbPath, err := dbs.path(backend)
	if err != nil {
		return nil, err
	}
	h, err := dnsserver.NewFBDNSDBBasic(dnsserver.HandlerConfig{}, dnsserver.DBConfig{Path: dbPath, Driver: driver}, cc, s.logger, s.stats)
	if err != nil {
		return nil, err
	}
	s.h = h
	if err := h.Load(); err == nil {
		s.loaded = true
	} else if backend != "none" {
		return nil, fmt.Errorf("load %s: %w", backend, err)
	}
	return s, nil
}

func (s *server) close() {
	t := time.Now()
	defer func() { tClose += time.Since(t) }()
	if s.loaded {
		s.h.Close()
	}
}

func buildReq(q qspec) *dns.Msg {
	r := new(dns.Msg)
	r.Id = 4711
	r.RecursionDesired = true
	r.Question = []dns.Question{{Name: q.Name, Qtype: q.Qtype, Qclass: dns.ClassINET}}
	if q.Edns >= 0 {
		o := new(dns.OPT)
		o.Hdr.Name = "."
		o.Hdr.Rrtype = dns.TypeOPT
		buf := q.Buf
		if buf == 0 {
			buf = 1232
		}
		o.SetUDPSize(buf)
		o.SetVersion(uint8(q.Edns))
		if q.Do {
			o.SetDo()
		}
		if q.Ecs != "" {
			if ip, ipnet, err := net.ParseCIDR(q.Ecs); err == nil {
				e := new(dns.EDNS0_SUBNET)
				e.Code = dns.EDNS0SUBNET
				if ip.To4() != nil {
					e.Family = 1
					e.Address = ip.To4()
				} else {
					e.Family = 2
					e.Address = ip
				}
				ms, _ := ipnet.Mask.Size()
				e.SourceNetmask = uint8(ms)
				o.Option = append(o.Option, e)
			}
		}
		r.Extra = []dns.RR{o}
	}
	return r
}

// classify derives the response class through the public db.Reader API, on a copy
// of the request, before the handler sees it.
func (s *server) classify(q qspec, req *dns.Msg) (cl qclass, cacheKey string, weighted bool, viaECS bool) {
	cl = qclass{ReaderOK: s.loaded, Qtype: q.Qtype, CacheOn: s.cacheOn, Cache: "miss", UnpackOK: true, Loc: "nil", WriteErr: q.WriteFail}
	st := request.Request{W: &capWriter{ResponseWriterCustomRemote: test.ResponseWriterCustomRemote{RemoteIP: q.IP}, tcp: q.TCP}, Req: req}
	cl.Do = st.Do()
	cl.EdnsOK = q.Edns <= 0
	packed := make([]byte, 255)
	off, err := dns.PackDomainName(st.Name(), packed, 0, nil, false)
	cl.PackOK = err == nil
	if !s.loaded || !cl.EdnsOK || !cl.PackOK {
		return
	}
	packed = packed[:off]
	rd, err := db.NewReader(s.h.DBForVerif())
	if err != nil {
		cl.ReaderOK = false
		return
	}
	defer rd.Close()
	// where does the location come from?  (FindLocation: the ECS lookup wins unless it
	// finds nothing or location 0,0)
	if o := db.FindECS(req.Copy()); o != nil {
		if l1, err := rd.EcsLocation(packed, o); err == nil && l1 != nil && l1.LocID != [2]byte{0, 0} {
			viaECS = true
		}
	}
	_, loc, err := rd.FindLocation(packed, req, st.IP())
	if err != nil {
		cl.Loc = "err"
		return
	}
	if loc == nil {
		return
	}
	cl.Loc = "ok"
	cl.Mask, cl.ID0, cl.ID1 = int(loc.Mask), int(loc.LocID[0]), int(loc.LocID[1])
	cacheKey = fmt.Sprintf("%.3d%.3d%.3d%s", loc.LocID, st.QType(), st.QClass(), st.Name())
	if s.cacheOn {
		if e, ok := s.shadow[cacheKey]; ok {
			el := time.Since(e.inserted)
			switch {
			case e.ttl >= 1000 || el < 900*time.Millisecond:
				cl.Cache, cl.HitRcode, cl.HitAA = "hit", e.rcode, e.aa
			case el > time.Duration(e.ttl)*time.Second+1050*time.Millisecond:
				cl.Cache = "expired"
			default:
				cl.Cache = "ambiguous"
			}
		}
	}
	ns, auth, zoneCut, err := rd.IsAuthoritative(packed, loc)
	if err != nil {
		cl.IsAuthErr = true
		return
	}
	cl.NS, cl.Auth = ns, auth
	if !ns && !auth {
		return
	}
	if !auth && st.QType() == dns.TypeDS {
		_, auth2, zc2, err := rd.IsAuthoritative(packed[packed[0]+1:], loc)
		if err != nil {
			cl.DSErr = true
			return
		}
		cl.DSAuth = auth2
		auth, zoneCut = auth2, zc2
	}
	if auth {
		a := new(dns.Msg)
		a.SetReply(req)
		maxAns := q.MaxAns
		w, found := rd.FindAnswer(packed, zoneCut, st.QName(), st.QType(), loc, a, maxAns)
		weighted = w
		cl.NFound, cl.RecordFound = len(a.Answer), found
	}
	if _, _, err := dns.UnpackDomainName(zoneCut, 0); err != nil {
		cl.UnpackOK = false
	}
	return
}

func diffCounters(before, after map[string]int64) map[string]int64 {
	d := map[string]int64{}
	for k, v := range after {
		if v != before[k] {
			d[k] = v - before[k]
		}
	}
	for k, v := range before {
		if _, ok := after[k]; !ok {
			d[k] = -v
		}
	}
	return d
}

// normKey rewrites DNS_query.<TYPE> to type:<number> so that the Coq side needs no
// table of type mnemonics.
func normKey(k string) string {
	const pre = dnsserver.TypeToStatsPrefix + "."
	if strings.HasPrefix(k, pre) {
		name := k[len(pre):]
		if t, ok := dns.StringToType[name]; ok {
			return fmt.Sprintf("type:%d", t)
		}
		var n int
		if _, err := fmt.Sscanf(name, "TYPE%d", &n); err == nil {
			return fmt.Sprintf("type:%d", n)
		}
	}
	return k
}

func normKeys(m map[string]int64) map[string]int64 {
	r := map[string]int64{}
	for k, v := range m {
		r[normKey(k)] += v
	}
	return r
}

func contains(l []string, s string) bool {
	for _, x := range l {
		if x == s {
			return true
		}
	}
	return false
}

// serve runs one query through the real handler and returns class + observation.
func (s *server) serve(q qspec) (qclass, qobs) {
	if q.SleepMs > 0 {
		time.Sleep(time.Duration(q.SleepMs) * time.Millisecond)
	}
	req := buildReq(q)
	cl, cacheKey, weighted, viaECS := s.classify(q, req.Copy())

	w := &capWriter{ResponseWriterCustomRemote: test.ResponseWriterCustomRemote{RemoteIP: q.IP}, tcp: q.TCP, fail: q.WriteFail}
	s.logger.w, s.logger.req, s.logger.logs = w, req, nil
	s.stats.mu.Lock()
	s.stats.calls, s.stats.other = nil, nil
	s.stats.mu.Unlock()
	before := s.stats.real.Get()
	var trace []string
	ctx := context.WithValue(context.Background(), traceKey{}, &trace)
	ctx = dnsserver.WithMaxAnswer(ctx, q.MaxAns)
	rec := dnstest.NewRecorder(w)
	ret, rerr := s.h.ServeDNSWithRCODE(ctx, rec, req)
	after := s.stats.real.Get()

	ob := qobs{Deltas: diffCounters(before, after), Logs: s.logger.logs, Writes: w.writes, Trace: trace, Ret: ret, RetErr: rerr != nil}
	if ob.Logs == nil {
		ob.Logs = []obsLog{}
	}
	if ob.Writes == nil {
		ob.Writes = []obsWrite{}
	}
	if ob.Trace == nil {
		ob.Trace = []string{}
	}
	ob.Located = contains(trace, "located")
	ob.ViaECS = viaECS
	// the recorded IncrementCounter calls must be what the real Stats exported
	calls := map[string]int64{}
	for _, k := range s.stats.calls {
		calls[k]++
	}
	same := len(calls) == len(ob.Deltas) && len(s.stats.other) == 0
	for k, v := range calls {
		if ob.Deltas[k] != v {
			same = false
		}
	}
	if !same {
		ob.Deltas["HARNESS.calls_differ_from_export"] = 1
	}
	// the recorder must hold the very message the writer got
	if len(w.ptrs) > 0 && rec.Msg != w.ptrs[len(w.ptrs)-1] {
		ob.Deltas["HARNESS.recorder_message_differs"] = 1
	}
	ob.Deltas = normKeys(ob.Deltas)
	if len(w.writes) > 0 {
		cl.SentAnswers = w.writes[len(w.writes)-1].NAns
	}
	// shadow of the response cache: an entry is inserted when the handler reached the
	// insertion point with an unweighted answer (or WRSTimeout > 0)
	if s.cacheOn && cacheKey != "" && contains(trace, "before_cache_insert") && len(w.writes) > 0 {
		last := w.writes[len(w.writes)-1]
		if !weighted {
			s.shadow[cacheKey] = shadowEntry{inserted: time.Now(), ttl: 1000, rcode: last.Rcode, aa: last.AA}
		} else if s.wrs > 0 {
			s.shadow[cacheKey] = shadowEntry{inserted: time.Now(), ttl: s.wrs, rcode: last.Rcode, aa: last.AA}
		}
	}
	if cl.Cache == "expired" {
		// the handler removed the entry (and re-inserts it on the way out, handled above)
		if !contains(trace, "before_cache_insert") {
			delete(s.shadow, cacheKey)
		}
	}
	return cl, ob
}

func classOf(cl qclass, ob qobs) string {
	switch {
	case !cl.ReaderOK:
		return "readerr"
	case !cl.EdnsOK:
		if cl.WriteErr {
			return "badvers-writeerr"
		}
		return "badvers"
	case !cl.PackOK:
		return "packfail"
	case cl.Loc != "ok":
		return "loc" + cl.Loc
	}
	pre := ""
	if cl.CacheOn {
		pre = cl.Cache + "-"
	}
	if cl.WriteErr {
		return pre + "writeerr"
	}
	if len(ob.Writes) != 1 {
		return pre + "nowrite"
	}
	w := ob.Writes[0]
	switch {
	case w.Rcode == dns.RcodeRefused:
		return pre + "refused"
	case w.Rcode == dns.RcodeNameError:
		return pre + "nxdomain"
	case w.Rcode == dns.RcodeServerFailure:
		return pre + "servfail"
	case w.Rcode == dns.RcodeSuccess && !w.AA && w.NAns == 0:
		return pre + "referral"
	case w.Rcode == dns.RcodeSuccess && w.NAns == 0 && w.TC:
		return pre + "truncated-empty"
	case w.Rcode == dns.RcodeSuccess && w.NAns == 0:
		return pre + "nodata"
	case w.Rcode == dns.RcodeSuccess:
		if w.TC {
			return pre + "answer-tc"
		}
		return pre + "answer"
	}
	return pre + "other"
}

var qnames = []string{
	"foo.example.com.", "bar.example.com.", "www.example.com.", "www2.example.com.", "example.com.",
	"many.example.com.", "wrr.example.com.", "a.wild.example.com.", "nx.example.com.", "FOO.Example.COM.",
	"nonauth.example.com.", "x.nonauth.example.com.", "a.ns.nonauth.example.com.",
	"foo.example.org.", "bar.example.org.", "txt.example.org.", "big.example.org.", "nx.example.org.",
	"deep.nx.example.org.", "example.org.", "lotofns.example.org.", "x.lotofns.example.org.",
	"www.nomap.test.", "nomap.test.", "nx.nomap.test.",
	"example.invalid.", "com.", ".", "test.",
}

var badNames = []string{
	"a..example.com.", strings.Repeat("a", 70) + ".example.com.", "..", "a.b..",
	strings.Repeat("abcdefgh.", 30) + "example.com.",
}

var qtypes = []uint16{dns.TypeA, dns.TypeAAAA, dns.TypeNS, dns.TypeSOA, dns.TypeMX, dns.TypeTXT, dns.TypeCNAME,
	dns.TypeDS, dns.TypeANY, dns.TypeHTTPS, dns.TypeSRV, 65280}

var clientIPs = []string{"1.1.1.1", "2.2.2.2", "7.7.7.7", "9.9.9.9", "fd58:6525:66bd:a::1", "2001:db8::1"}
var ecsNets = []string{"1.1.1.0/24", "2.2.2.0/24", "3.3.3.0/24", "8.8.8.0/24", "fd8f:a2ea:9f4b::/56", "1.1.1.0/16"}

func genSpec(r *hlib.Rng) qspec {
	q := qspec{Edns: -1, IP: clientIPs[r.Intn(len(clientIPs))], MaxAns: 1 + r.Intn(4)}
	q.Name = qnames[r.Intn(len(qnames))]
	if r.Chance(1, 25) {
		q.Name = badNames[r.Intn(len(badNames))]
	}
	q.Qtype = qtypes[r.Pick([]int{30, 10, 8, 6, 6, 8, 4, 10, 6, 3, 3, 3})]
	if r.Chance(1, 2) {
		q.Edns = 0
		if r.Chance(1, 12) {
			q.Edns = 1 + r.Intn(2)
		}
		q.Do = r.Chance(1, 3)
		if r.Chance(1, 2) {
			q.Ecs = ecsNets[r.Intn(len(ecsNets))]
		}
		q.Buf = []uint16{512, 1232, 4096, 0}[r.Intn(4)]
	}
	q.TCP = r.Chance(1, 6)
	q.WriteFail = r.Chance(1, 20)
	return q
}

// targeted specs so that every response class occurs on every configuration
func coreSpecs() []qspec {
	b := func(name string, t uint16) qspec {
		return qspec{Name: name, Qtype: t, Edns: -1, IP: "9.9.9.9", MaxAns: 1}
	}
	e := func(q qspec, ecs string) qspec { q.Edns, q.Ecs, q.Buf = 0, ecs, 1232; return q }
	v1 := e(b("foo.example.com.", dns.TypeA), "")
	v1.Edns = 1
	wf := b("bar.example.com.", dns.TypeA)
	wf.WriteFail = true
	do := e(b("example.com.", dns.TypeSOA), "")
	do.Do = true
	tcp := b("big.example.org.", dns.TypeTXT)
	tcp.TCP = true
	many := b("many.example.com.", dns.TypeA)
	many.MaxAns = 4
	return []qspec{
		b("foo.example.com.", dns.TypeA), b("foo.example.com.", dns.TypeA), // answer, then cache hit
		b("bar.example.com.", dns.TypeMX), b("bar.example.com.", dns.TypeMX), // NODATA twice
		b("nx.example.org.", dns.TypeA), b("nx.example.org.", dns.TypeA), // NXDOMAIN twice
		b("x.nonauth.example.com.", dns.TypeA), b("x.nonauth.example.com.", dns.TypeA), // referral twice
		b("nonauth.example.com.", dns.TypeDS), // DS at a delegation: answered by the parent
		b("example.invalid.", dns.TypeA),      // REFUSED
		v1,                                    // BADVERS
		b("example.com.", dns.TypeANY),        // ANY
		e(b("foo.example.com.", dns.TypeA), "1.1.1.0/24"), // ECS location
		e(b("foo.example.com.", dns.TypeA), "8.8.8.0/24"), // ECS without match
		do,
		b("big.example.org.", dns.TypeTXT), // one RR larger than 512 bytes: truncated to an empty answer
		tcp,
		b("lotofns.example.org.", dns.TypeA), // big referral
		many,
		b("wrr.example.com.", dns.TypeA), b("wrr.example.com.", dns.TypeA), // weighted: not cached unless WRSTimeout
		b("www.nomap.test.", dns.TypeA), // no map: location 0,0
		b("a..example.com.", dns.TypeA), // pack failure
		wf,
		{Name: "foo.example.com.", Qtype: dns.TypeA, Edns: -1, IP: "1.1.1.1", MaxAns: 1}, // location 0,2
		{Name: "foo.example.com.", Qtype: dns.TypeA, Edns: -1, IP: "7.7.7.7", MaxAns: 1}, // location 1,5
	}
}

var backends = []string{"cdb", "rdb1", "rdb2"}

func emitQuery(e *hlib.Emitter, s *server, prior []qspec, q qspec, tag string) {
	cl, ob := s.serve(q)
	qq := q
	e.Emit(c19case{Kind: "query", Class: s.backend + ":" + s.cache + ":" + tag + classOf(cl, ob), Backend: s.backend, Cache: s.cache,
		Prior: append([]qspec{}, prior...), Q: &qq, Cls: &cl, Obs: &ob})
}

func queryPart(a *hlib.Args, e *hlib.Emitter, dbs *dbSet) error {
	r := hlib.NewRng(a.Seed, 192)
	// 1. the core list on every backend with the cache off and on
	for _, be := range backends {
		for _, cache := range []string{"off", "on"} {
			s, err := newServer(dbs, be, cache)
			if err != nil {
				return err
			}
			var prior []qspec
			for _, q := range coreSpecs() {
				emitQuery(e, s, prior, q, "core-")
				prior = append(prior, q)
			}
			s.close()
		}
	}
	// 2. handler whose database cannot be read
	s, err := newServer(dbs, "none", "off")
	if err != nil {
		return err
	}
	emitQuery(e, s, nil, qspec{Name: "foo.example.com.", Qtype: dns.TypeA, Edns: -1, IP: "9.9.9.9", MaxAns: 1}, "")
	emitQuery(e, s, nil, qspec{Name: "foo.example.com.", Qtype: dns.TypeAAAA, Edns: 0, Do: true, IP: "9.9.9.9", MaxAns: 1}, "")
	// 2b. RocksDB v1 with the root delegated (thorough tier): referrals from the root
	for _, cache := range []string{"off", "on"} {
		if a.Tier != "thorough" {
			break
		}
		s, err := newServer(dbs, "rdb1root", cache)
		if err != nil {
			return err
		}
		var prior []qspec
		for _, q := range []qspec{
			{Name: "www.nomap.test.", Qtype: dns.TypeA, Edns: -1, IP: "9.9.9.9", MaxAns: 1},
			{Name: "foo.example.com.", Qtype: dns.TypeA, Edns: -1, IP: "9.9.9.9", MaxAns: 1},
			{Name: "example.invalid.", Qtype: dns.TypeMX, Edns: 0, Do: true, IP: "9.9.9.9", MaxAns: 1},
			{Name: ".", Qtype: dns.TypeNS, Edns: -1, IP: "9.9.9.9", MaxAns: 1},
		} {
			emitQuery(e, s, prior, q, "root-")
			prior = append(prior, q)
		}
		s.close()
	}
	// 3. cache expiry: weighted answer cached for WRSTimeout = 1 s, asked again at once and after 2.1 s
	for i, be := range backends {
		if a.Tier != "thorough" && i != int(a.Seed%3) {
			continue
		}
		s, err := newServer(dbs, be, "wrs")
		if err != nil {
			return err
		}
		w := qspec{Name: "wrr.example.com.", Qtype: dns.TypeA, Edns: -1, IP: "9.9.9.9", MaxAns: 1}
		w2 := w
		w2.SleepMs = 2100
		var prior []qspec
		for _, q := range []qspec{w, w, w2, w} {
			emitQuery(e, s, prior, q, "wrs-")
			prior = append(prior, q)
		}
		s.close()
	}
	// 4. random scenarios
	for e.N < a.N {
		be := backends[r.Intn(3)]
		cache := []string{"off", "on", "on"}[r.Intn(3)]
		s, err := newServer(dbs, be, cache)
		if err != nil {
			return err
		}
		n := 6 + r.Intn(9)
		var prior []qspec
		for i := 0; i < n; i++ {
			var q qspec
			if i > 0 && r.Chance(1, 3) {
				q = prior[r.Intn(len(prior))] // repeat: cache hit when enabled
				if r.Chance(1, 4) {
					q.WriteFail = !q.WriteFail
				}
			} else {
				q = genSpec(r)
			}
			emitQuery(e, s, prior, q, "")
			prior = append(prior, q)
		}
		s.close()
	}
	return nil
}

// ------------------------------------------------------------------ cleaner race (class cleaner-race)
//
// Free-running class: a real window with its real cleaner goroutine (1 s ticker), no
// controlled clock.  The window model is sequential; this class checks that concurrency
// with the cleaner does not take the code outside the sequential model: an export at
// time t must report exactly the samples whose add time lies in the last lifetime,
// whatever the cleaner was doing at that moment.
//
// One round (lifetime 1 s, the tick provoked is the second one, T = 2 s after creation):
//   X      a block of samples added right after creation (200 ms at most) and left to expire unread
//          (expired by 1.2 s; the larger, the longer the cleaner scans at T)
//   Y, Z   live samples with known values, at least as many as X, added from 1.28 s on
//   P      from T - 30 ms on a prober goroutine keeps adding samples; an Add that stays
//          blocked for more than 40 us tells that the cleaner holds the window lock;
//   export 1 is launched at that very moment (it arrives while the cleaner is at work),
//   the prober stops, export 2 follows 120 ms later, export 3 after everything expired.
// Blocks and exports carry the times taken by the harness itself around the calls; the
// verdict uses only those: a block counts as live for an export when even its first
// sample cannot have expired before the export returned, as expired when even its last
// sample had expired before the export started; anything in between makes the round
// undecided (it is re-run, then skipped).  For export 1 the block P is still growing:
// the number of P samples reported must lie between the number added before the export
// started and the number started before it returned.  Load can only make a round
// useless (the interleaving is not provoked), never wrong.

type racePlan struct {
	Raw      bool  `json:"raw"`
	LMs      int   `json:"l_ms"`
	NExpired int   `json:"n_expired"`
	NLive    int   `json:"n_live"` // size of block Y (block Z has 7 samples)
	VX       int64 `json:"vx"`
	VY       int64 `json:"vy"`
	VZ       int64 `json:"vz"`
	VP       int64 `json:"vp"`
}

type raceEv struct {
	Op      string     `json:"op"` // block | read | get
	TB      int64      `json:"tb"` // microseconds since window creation, taken before the (first) call
	TA      int64      `json:"ta"` // ... after the (last) call
	V       int64      `json:"v,omitempty"`
	N       int64      `json:"n,omitempty"`
	RLE     [][2]int64 `json:"rle,omitempty"` // run-length encoding of Samples(): (value, count)
	Present bool       `json:"present,omitempty"`
	Min     int64      `json:"min,omitempty"`
	Max     int64      `json:"max,omitempty"`
	Avg     int64      `json:"avg,omitempty"`
	// read while block P is growing: value of P, bounds on how many P samples existed
	OpenV  int64 `json:"open_v,omitempty"`
	OpenLo int64 `json:"open_lo,omitempty"`
	OpenHi int64 `json:"open_hi,omitempty"`
	Open   bool  `json:"open,omitempty"`
}

func rle(vals []int64) [][2]int64 {
	res := [][2]int64{}
	for _, v := range vals {
		if n := len(res); n > 0 && res[n-1][0] == v {
			res[n-1][1]++
		} else {
			res = append(res, [2]int64{v, 1})
		}
	}
	return res
}

func runRace(p racePlan) c19case {
	c := c19case{Kind: "race", Class: "cleaner-race", Plan: &p}
	life := time.Duration(p.LMs) * time.Millisecond
	var sw *metrics.SlidingWindowForVerif
	var st *metrics.Stats
	start := time.Now()
	us := func() int64 { return time.Since(start).Microseconds() }
	add := func(v int64) {}
	if p.Raw {
		var err error
		sw, err = metrics.NewSlidingWindowForVerif(life)
		if err != nil {
			panic(err)
		}
		defer sw.Stop()
		add = sw.Add
	} else {
		st = metrics.NewStats()
		add = func(v int64) { st.AddSampleForVerif("w", v, life) }
	}
	block := func(v int64, n int) {
		e := raceEv{Op: "block", V: v, N: int64(n), TB: us()}
		for i := 0; i < n; i++ {
			add(v)
		}
		e.TA = us()
		c.REvs = append(c.REvs, e)
	}
	export := func() raceEv {
		e := raceEv{TB: us()}
		if p.Raw {
			vals := sw.Samples()
			e.TA = us()
			e.Op, e.RLE = "read", rle(vals)
		} else {
			m := st.Get()
			e.TA = us()
			e.Op = "get"
			e.Min, e.Present = m["w.min"]
			e.Max, e.Avg = m["w.max"], m["w.avg"]
		}
		return e
	}
	spinUntil := func(at time.Duration) {
		if d := at - time.Since(start) - 2*time.Millisecond; d > 0 {
			time.Sleep(d)
		}
		for time.Since(start) < at {
		}
	}
	// the cleaner of a Stats window starts with the first AddSample, i.e. now as well.
	// X: at most NExpired samples, at most 200 ms (the cost of an Add varies a lot: time.Now()
	// and page faults of a growing slice are expensive on some virtual machines)
	{
		e := raceEv{Op: "block", V: p.VX, TB: us()}
		n := 0
		for n < p.NExpired && (n%256 != 0 || time.Since(start) < 200*time.Millisecond) {
			add(p.VX)
			n++
		}
		e.N, e.TA = int64(n), us()
		c.REvs = append(c.REvs, e)
	}
	nx := int(c.REvs[0].N)
	xDone := time.Since(start)
	liveAt := 1280 * time.Millisecond
	if xDone > liveAt-50*time.Millisecond {
		liveAt = xDone + 50*time.Millisecond
	}
	spinUntil(liveAt)
	block(p.VY, nx+16+p.NLive%100) // at least as many live samples as X had
	block(p.VZ, 7)
	tick := 2 * time.Second
	if time.Since(start) > tick-40*time.Millisecond || xDone+life > tick-40*time.Millisecond {
		// too late for this tick (load): give the round up rather than export at a random phase
		c.Missed = "blocks not in place before the tick"
		return c
	}
	// prober
	var inCall, count atomic.Int64
	var stop atomic.Bool
	done := make(chan raceEv, 1)
	spinUntil(tick - 30*time.Millisecond)
	go func() {
		e := raceEv{Op: "block", V: p.VP, TB: us()}
		for !stop.Load() {
			inCall.Store(int64(time.Since(start)) + 1)
			add(p.VP)
			inCall.Store(0)
			count.Add(1)
		}
		e.TA = us()
		e.N = count.Load()
		done <- e
	}()
	// fire the first export when an Add has been blocked for 40 us (armed shortly before T)
	spinUntil(tick - 300*time.Microsecond)
	fired := "timeout"
	for time.Since(start) < tick+20*time.Millisecond {
		if s := inCall.Load(); s != 0 && int64(time.Since(start))-s > int64(40*time.Microsecond) {
			fired = "blocked-add"
			break
		}
	}
	lo := count.Load()
	e1 := export()
	e1.Open, e1.OpenV, e1.OpenLo, e1.OpenHi = true, p.VP, lo, count.Load()+1
	stop.Store(true)
	pb := <-done
	if c.Missed == "" && fired != "blocked-add" {
		c.Missed = "no blocked Add seen around the tick"
	}
	if p.Raw {
		// judged with the bounds on the growing block; the Stats export (an average over a
		// growing block) is only recorded through its successors
		c.REvs = append(c.REvs, e1)
	}
	c.REvs = append(c.REvs, pb)
	time.Sleep(120 * time.Millisecond)
	c.REvs = append(c.REvs, export())
	// after everything has expired, away from the next tick
	end := time.Duration(pb.TA)*time.Microsecond + life + 150*time.Millisecond
	for end%time.Second < 150*time.Millisecond || end%time.Second > 850*time.Millisecond {
		end += 100 * time.Millisecond
	}
	spinUntil(end)
	c.REvs = append(c.REvs, export())
	// undecided exports make the round ambiguous (re-run by the caller)
	lus := int64(p.LMs) * 1000
	for i, r := range c.REvs {
		if r.Op == "block" {
			continue
		}
		for _, b := range c.REvs[:i] {
			if b.Op == "block" && !(r.TA <= b.TB+lus) && !(b.TA+lus < r.TB) {
				c.Ambiguous = true
			}
		}
	}
	return c
}

// raceLost: the export after the tick reports fewer samples than the live blocks hold
// (harness-side hint used only to decide whether a replay attempt is worth repeating;
// the verdict is Coq's).
func raceLost(c c19case) bool {
	var want, sum int64
	var second *raceEv
	for i := range c.REvs {
		e := &c.REvs[i]
		switch {
		case e.Op == "block" && e.V != c.Plan.VX:
			want += e.N
			sum += e.N * e.V
		case e.Op != "block" && !e.Open && second == nil:
			second = e
		}
	}
	if second == nil || want == 0 {
		return false
	}
	if c.Plan.Raw {
		var n int64
		for _, r := range second.RLE {
			n += r[1]
		}
		return n != want
	}
	return second.Avg != sum/want
}

// addCost measures what one Add costs on this machine (time.Now() is a real system
// call on some virtual machines), so that block X can be sized to take about 0.4 s.
func addCost(raw bool) time.Duration {
	const n = 20000
	life := time.Minute
	t := time.Now()
	if raw {
		sw, err := metrics.NewSlidingWindowForVerif(life)
		if err != nil {
			panic(err)
		}
		for i := 0; i < n; i++ {
			sw.Add(1)
		}
		sw.Stop()
	} else {
		st := metrics.NewStats()
		for i := 0; i < n; i++ {
			st.AddSampleForVerif("w", 1, life)
		}
	}
	d := time.Since(t) / n
	if d <= 0 {
		d = time.Nanosecond
	}
	return d
}

func racePlans(seed uint64, tier string) []racePlan {
	r := hlib.NewRng(seed, 194)
	n := 6
	if tier == "thorough" {
		n = 18
	}
	size := func(raw bool) int {
		e := int(250 * time.Millisecond / addCost(raw))
		if e > 300000 {
			e = 300000
		}
		if e < 20000 {
			e = 20000
		}
		return e
	}
	eRaw, eStats := size(true), size(false)
	var res []racePlan
	for i := 0; i < n; i++ {
		raw := i%2 == 0
		e := eStats
		if raw {
			e = eRaw
		}
		e -= r.Intn(e / 10)
		res = append(res, racePlan{Raw: raw, LMs: 1000, NExpired: e, NLive: e + 16 + r.Intn(100),
			VX: 9999, VY: int64(5 + r.Intn(90)), VZ: int64(300 + r.Intn(600)), VP: int64(100 + r.Intn(100))})
	}
	return res
}

// racePart plays the rounds six at a time.
func racePart(seed uint64, tier string) []c19case {
	plans := racePlans(seed, tier)
	res := make([]c19case, len(plans))
	for lo := 0; lo < len(plans); lo += 6 {
		var wg sync.WaitGroup
		for i := lo; i < lo+6 && i < len(plans); i++ {
			wg.Add(1)
			go func(i int) {
				defer wg.Done()
				res[i] = runRace(plans[i])
				for k := 0; k < 2 && res[i].Ambiguous; k++ {
					res[i] = runRace(plans[i])
				}
			}(i)
		}
		wg.Wait()
	}
	return res
}

// ------------------------------------------------------------------ concurrent counters

func runConc(threads [][]incOp, nexp int) c19case {
	c := c19case{Kind: "conc", Class: "conc", Threads: threads, NExp: nexp}
	st := metrics.NewStats()
	var wg sync.WaitGroup
	startCh := make(chan struct{})
	for _, prog := range threads {
		wg.Add(1)
		go func(prog []incOp) {
			defer wg.Done()
			<-startCh
			for _, op := range prog {
				k := fmt.Sprintf("c%d", op.K)
				if op.V == 1 {
					st.IncrementCounter(k)
				} else {
					st.IncrementCounterBy(k, op.V)
				}
			}
		}(prog)
	}
	exports := make([][]map[string]int64, 2)
	for x := 0; x < 2; x++ {
		wg.Add(1)
		go func(x int) {
			defer wg.Done()
			<-startCh
			for i := 0; i < nexp; i++ {
				exports[x] = append(exports[x], st.Get())
			}
		}(x)
	}
	close(startCh)
	wg.Wait()
	c.Exports = exports
	c.Final = st.Get()
	return c
}

func concPart(a *hlib.Args, e *hlib.Emitter) {
	r := hlib.NewRng(a.Seed, 193)
	n := 12
	if a.Tier == "thorough" {
		n = 120
	}
	for i := 0; i < n; i++ {
		nt := 2 + r.Intn(6)
		threads := make([][]incOp, nt)
		for t := range threads {
			m := 1 + r.Intn(60)
			for j := 0; j < m; j++ {
				op := incOp{K: r.Intn(4), V: 1}
				if r.Chance(1, 5) {
					op.V = int64(2 + r.Intn(9))
				}
				threads[t] = append(threads[t], op)
			}
		}
		e.Emit(runConc(threads, 1+r.Intn(4)))
	}
}

// ------------------------------------------------------------------ main

func run(a *hlib.Args, e *hlib.Emitter) error {
	dnsserver.SetVerifYieldHook(func(ctx context.Context, point string) {
		if p, ok := ctx.Value(traceKey{}).(*[]string); ok && p != nil {
			*p = append(*p, point)
		}
	})
	scratch := a.Scratch
	if scratch == "" {
		scratch = os.TempDir()
	}
	if a.Replay != "" {
		return replay(a, e, scratch)
	}
	t0 := time.Now()
	lap := func(what string) {
		if os.Getenv("C19_TIMING") != "" {
			fmt.Fprintf(os.Stderr, "c19 timing: %s at %.2fs\n", what, time.Since(t0).Seconds())
		}
	}
	if a.Extra == "raceonly" {
		for _, c := range racePart(a.Seed, a.Tier) {
			e.Emit(c)
		}
		return nil
	}
	// the race rounds go first, alone: they are sensitive to CPU contention (which can
	// only make a round useless, not wrong)
	for _, c := range racePart(a.Seed, a.Tier) {
		e.Emit(c)
	}
	lap("race rounds done")
	winCh := make(chan []c19case, 1)
	go func() { winCh <- windowPart(a.Seed, a.Tier) }()
	dbs, err := buildDBs(scratch)
	if err != nil {
		return err
	}
	defer dbs.remove()
	if err := queryPart(a, e, dbs); err != nil {
		return err
	}
	lap(fmt.Sprintf("queries done (new %.2f close %.2f)", tNew.Seconds(), tClose.Seconds()))
	concPart(a, e)
	lap("concurrency done")
	for _, c := range <-winCh {
		e.Emit(c)
	}
	lap("windows done")
	return nil
}

func replay(a *hlib.Args, e *hlib.Emitter, scratch string) error {
	cs, err := hlib.ReadReplay(a.Replay)
	if err != nil {
		return err
	}
	var dbs *dbSet
	for _, m := range cs {
		var c c19case
		raw, _ := json.Marshal(m)
		if err := json.Unmarshal(raw, &c); err != nil {
			return err
		}
		switch c.Kind {
		case "win":
			res := runWindow(winPlan{raw: c.Raw, lms: c.LMs, preget: c.PreGet, sched: c.Sched, class: c.Class})
			for i := 0; i < 2 && res.Ambiguous; i++ {
				res = runWindow(winPlan{raw: c.Raw, lms: c.LMs, preget: c.PreGet, sched: c.Sched, class: c.Class})
			}
			e.Emit(res)
		case "query":
			if dbs == nil {
				dbs, err = buildDBs(scratch)
				if err != nil {
					return err
				}
				defer dbs.remove()
			}
			s, err := newServer(dbs, c.Backend, c.Cache)
			if err != nil {
				return err
			}
			for _, p := range c.Prior {
				s.serve(p)
			}
			cl, ob := s.serve(*c.Q)
			c.Cls, c.Obs = &cl, &ob
			e.Emit(c)
			s.close()
		case "conc":
			e.Emit(runConc(c.Threads, c.NExp))
		case "race":
			// the interleaving is provoked, not forced: a few attempts with the same parameters
			res := runRace(*c.Plan)
			for i := 0; i < 3 && (res.Ambiguous || !raceLost(res)); i++ {
				res = runRace(*c.Plan)
			}
			e.Emit(res)
		}
	}
	return nil
}

func main() { hlib.Main(run) }
