// C03 harness: client-to-location mapping.
//
//	kind "rr": dnsdata.Rearranger AddLocation/Rearrange on a generated subnet set,
//	           the returned range points interpreted by predecessor search
//	           (greatest (ip16, mlen) <= (masked client, prefix)).
//	kind "db": a data file of M / 8 / % lines compiled by the real compilers into
//	           CDB, RocksDB v1 keys, RocksDB v2 keys; Reader.ResolverLocation /
//	           Reader.EcsLocation on each; the CDB part is run a second time in a
//	           child process started with FBDNS_SEPARATE_MASKLENS=1 (per-family
//	           prefix-length sets).
//
// One JSON line per (input, client) pair.
package main

import (
	"bytes"
	"encoding/json"
	"fmt"
	"io"
	"log"
	"net"
	"os"
	"os/exec"
	"path/filepath"
	"strings"

	"github.com/facebookincubator/dns/dnsrocks/db"
	"github.com/facebookincubator/dns/dnsrocks/dnsdata"
	"github.com/facebookincubator/dns/dnsrocks/dnsdata/cdb"
	"github.com/facebookincubator/dns/dnsrocks/dnsdata/rdb"
	"github.com/miekg/dns"

	"verifharness/complib"
	"verifharness/hlib"
)

// ---------------------------------------------------------------- data types

type subnet struct {
	A   []int `json:"a"`   // network address, 16 bytes (v4 is v6-mapped)
	L   int   `json:"l"`   // prefix length 0..128 (v4: +96)
	Loc []int `json:"loc"` // 2 bytes
	Map []int `json:"map"` // 2 bytes (db kind only)
}

type mapdef struct {
	K    int   `json:"k"`    // 'M' = 77 resolver map, '8' = 56 ECS map
	Name []int `json:"name"` // packed lower-case name the map is declared for (without the wildcard label)
	Wild bool  `json:"wild"`
	ID   []int `json:"id"`
}

type query struct {
	Name   []int  `json:"name"` // packed lower-case query name
	Path   string `json:"path"` // "res" | "ecs"
	IPOK   bool   `json:"ipok"` // resolver path: the ip string parses
	A      []int  `json:"a"`    // address as sent (16 bytes; v4 is v6-mapped), host bits possibly set
	Fam    int    `json:"fam"`  // ECS family 0|1|2 (resolver path: 1 for v4, 2 for v6)
	Src    int    `json:"src"`  // ECS source prefix length (resolver: 32 / 128)
	Scope0 int    `json:"scope0"`
	Plen   int    `json:"plen"` // rr kind: prefix length in 128-bit terms
}

type obs struct {
	St    string `json:"st"` // "loc" (non-nil *Location) | "nil" | "err" | "panic"
	Map   []int  `json:"map"`
	Loc   []int  `json:"loc"`
	Mask  int    `json:"mask"`
	Scope int    `json:"scope"`
	Msg   string `json:"msg,omitempty"`
}

type point struct {
	A    []int `json:"a"`
	M    int   `json:"m"`
	Null bool  `json:"null"`
	Loc  []int `json:"loc"`
}

type c03case struct {
	Kind  string          `json:"kind"`
	Class string          `json:"class"`
	Maps  []mapdef        `json:"maps"`
	Nets  []subnet        `json:"nets"`
	Q     query           `json:"q"`
	Obs   map[string]*obs `json:"obs,omitempty"` // internal (parent <-> child): all backends
	Pts   []point         `json:"pts,omitempty"` // rr kind, diagnostic only
	File  string          `json:"file,omitempty"`
	Pre   bool            `json:"pre,omitempty"` // also run the preprocessor path (backends pv1 / pv2)
}

// pv1 / pv2: the data file goes through the preprocessor first (Codec.Preprocess with the settings
// of cmd/dnsrocks-preproc: % lines become ! range-point lines through SubnetRanger.OpenScanner),
// the preprocessed text is compiled to RocksDB (v1 / v2 keys)
var bkOrder = []string{"cdb", "cdbsep", "v1", "v2", "pv1", "pv2"}

// what is written out: all clients of one subnet set (kind rr), or all queries of
// one data file that select the same map, on one backend (kind db)
type qobs struct {
	Q     query  `json:"q"`
	Class string `json:"class"`
	O     *obs   `json:"o"`
}

type outcase struct {
	Kind string   `json:"kind"`
	Bk   string   `json:"bk"` // "rr" | "cdb" | "cdbsep" | "v1" | "v2" | "pv1" | "pv2"
	Maps []mapdef `json:"maps"`
	Nets []subnet `json:"nets"`
	Qs   []qobs   `json:"qs"`
}

// emitGroups writes the cases of one subnet set / one data file
func emitGroups(e *hlib.Emitter, cases []*c03case, only string) {
	if len(cases) == 0 {
		return
	}
	c0 := cases[0]
	if c0.Kind == "rr" {
		o := &outcase{Kind: "rr", Bk: "rr", Maps: []mapdef{}, Nets: c0.Nets}
		for _, c := range cases {
			o.Qs = append(o.Qs, qobs{c.Q, c.Class, c.Obs["rr"]})
		}
		e.Emit(o)
		return
	}
	f := &dbfile{maps: c0.Maps, nets: c0.Nets}
	var order []string
	groups := map[string][]*c03case{}
	for _, c := range cases {
		kind := int('8')
		if c.Q.Path == "res" {
			kind = int('M')
		}
		k := string(mapFor(f, kind, unpackLabels(hlib.Unints(c.Q.Name))))
		if _, ok := groups[k]; !ok {
			order = append(order, k)
		}
		groups[k] = append(groups[k], c)
	}
	for _, k := range order {
		for _, b := range bkOrder {
			if only != "" && only != b {
				continue
			}
			if groups[k][0].Obs[b] == nil {
				continue // backend not run for this file (preprocessor path)
			}
			o := &outcase{Kind: "db", Bk: b, Maps: c0.Maps, Nets: c0.Nets}
			for _, c := range groups[k] {
				o.Qs = append(o.Qs, qobs{c.Q, c.Class, c.Obs[b]})
			}
			e.Emit(o)
		}
	}
}

// ---------------------------------------------------------------- address helpers

type ip16 [16]byte

func maskTo(a ip16, l int) ip16 {
	var r ip16
	for i := 0; i < 16; i++ {
		bitsLeft := l - 8*i
		switch {
		case bitsLeft >= 8:
			r[i] = a[i]
		case bitsLeft <= 0:
			r[i] = 0
		default:
			r[i] = a[i] & byte(0xff<<(8-uint(bitsLeft)))
		}
	}
	return r
}

func lastOf(a ip16, l int) ip16 {
	r := maskTo(a, l)
	for i := 0; i < 16; i++ {
		bitsLeft := l - 8*i
		switch {
		case bitsLeft >= 8:
		case bitsLeft <= 0:
			r[i] = 0xff
		default:
			r[i] |= byte(0xff >> uint(bitsLeft))
		}
	}
	return r
}

func inc(a ip16) (ip16, bool) {
	for i := 15; i >= 0; i-- {
		if a[i] == 255 {
			a[i] = 0
		} else {
			a[i]++
			return a, true
		}
	}
	return a, false
}

func dec(a ip16) (ip16, bool) {
	for i := 15; i >= 0; i-- {
		if a[i] == 0 {
			a[i] = 255
		} else {
			a[i]--
			return a, true
		}
	}
	return a, false
}

func isV4(a ip16) bool {
	for i := 0; i < 10; i++ {
		if a[i] != 0 {
			return false
		}
	}
	return a[10] == 0xff && a[11] == 0xff
}

func mustIP(s string) ip16 {
	var r ip16
	p := net.ParseIP(s)
	if p == nil {
		panic("bad ip " + s)
	}
	copy(r[:], p.To16())
	return r
}

func ipText(a ip16) string {
	if isV4(a) {
		return fmt.Sprintf("%d.%d.%d.%d", a[12], a[13], a[14], a[15])
	}
	return net.IP(a[:]).String()
}

func cidrText(a ip16, l int) string {
	if isV4(a) && l >= 96 {
		return fmt.Sprintf("%s/%d", ipText(a), l-96)
	}
	// a v6 block; net.IP.String prints v4-mapped addresses dotted, which would
	// be parsed as IPv4: print those in full hex
	if isV4(a) {
		return fmt.Sprintf("0:0:0:0:0:ffff:%02x%02x:%02x%02x/%d", a[12], a[13], a[14], a[15], l)
	}
	return fmt.Sprintf("%s/%d", net.IP(a[:]).String(), l)
}

func oct(b []byte) string {
	var sb strings.Builder
	for _, c := range b {
		fmt.Fprintf(&sb, "\\%03o", c)
	}
	return sb.String()
}

func ints16(a ip16) []int { return hlib.Ints(a[:]) }

func un16(v []int) ip16 {
	var r ip16
	copy(r[:], hlib.Unints(v))
	return r
}

// ---------------------------------------------------------------- generators

type blk struct {
	a ip16
	l int
}

var v4seeds = []string{
	"10.0.0.0/8", "10.0.1.0/24", "10.0.0.0/16", "10.0.1.0/25", "10.0.1.128/25", "10.0.1.5/32", "11.0.0.0/8",
	"0.0.0.0/0", "0.0.0.0/8", "0.0.0.0/1", "128.0.0.0/1", "0.0.0.0/32", "255.255.255.255/32", "255.255.255.0/24",
	"255.0.0.0/8", "1.0.0.0/8", "9.255.255.0/24", "10.0.2.0/23", "192.168.0.0/16", "192.168.1.0/24", "0.0.0.0/31",
}

var v6seeds = []string{
	"::/0", "::/64", "::/1", "8000::/1", "ffff:ffff:ffff:ffff:ffff:ffff:ffff:ffff/128", "ffff::/16", "::/128",
	"::1:0:0:0/80", "::/80", "::/96", "::fffe:0:0/96", "2001:db8::/32", "2001:db8::/48", "2001:db8:0:1::/64",
	"2001:db8::/64", "2001:db9::/32", "2001:db8::1/128", "::1/128", "::/8", "0:0:0:1::/64", "ffff:ffff:ffff:ffff::/64",
	"::2:0:0:0/79", "fe80::/10", "2001:db8::/33", "2001:db8:8000::/33", "::8000:0:0/81", "::fffe:0:0/95", "::fffe:0:0/96",
}

func parseBlk(s string) blk {
	_, n, err := net.ParseCIDR(s)
	if err != nil {
		panic(err)
	}
	ones, bits := n.Mask.Size()
	var a ip16
	copy(a[:], n.IP.To16())
	if bits == 32 {
		ones += 96
	}
	return blk{a, ones}
}

// derive related blocks: same network address at another length, sibling, child at
// the end, adjacent block
func derive(r *hlib.Rng, b blk) blk {
	lo := 0
	if isV4(b.a) && b.l >= 96 {
		lo = 96
	}
	switch r.Intn(6) {
	case 0: // same network address, longer
		if b.l < 128 {
			return blk{b.a, b.l + 1 + r.Intn(128-b.l)}
		}
	case 1: // parent
		if b.l > lo {
			nl := lo + r.Intn(b.l-lo)
			return blk{maskTo(b.a, nl), nl}
		}
	case 2: // last child
		if b.l < 128 {
			nl := b.l + 1 + r.Intn(128-b.l)
			return blk{maskTo(lastOf(b.a, b.l), nl), nl}
		}
	case 3: // sibling (flip last prefix bit)
		if b.l > lo {
			a := b.a
			a[(b.l-1)/8] ^= 1 << uint(7-(b.l-1)%8)
			return blk{a, b.l}
		}
	case 4: // block right after
		if n, ok := inc(lastOf(b.a, b.l)); ok && isV4(n) == isV4(b.a) {
			nl := b.l
			if r.Chance(1, 2) && nl < 128 {
				nl += r.Intn(128 - nl)
			}
			if maskTo(n, nl) == n {
				return blk{n, nl}
			}
		}
	default: // random interior child
		if b.l < 128 {
			nl := b.l + 1 + r.Intn(128-b.l)
			a := b.a
			rb := r.Bytes(16, nil)
			for i := 0; i < 16; i++ {
				a[i] |= rb[i]
			}
			la := lastOf(b.a, b.l)
			for i := 0; i < 16; i++ {
				a[i] &= la[i]
			}
			a = maskTo(a, nl)
			return blk{a, nl}
		}
	}
	return b
}

var locPool = [][]byte{{0, 1}, {0, 2}, {0, 3}, {0, 4}, {'c', 0}, {0, ','}, {0, ':'}, {0xff, 0xff}, {1, 0}, {0, 5}, {'a', 'b'}, {0, 6}}

// genBlocks returns up to max distinct blocks
func genBlocks(r *hlib.Rng, max int) []blk {
	var res []blk
	seen := map[blk]bool{}
	add := func(b blk) {
		if !seen[b] && len(res) < max {
			seen[b] = true
			res = append(res, b)
		}
	}
	n := 1 + r.Intn(max)
	mode := r.Intn(4) // 0 v4 only, 1 v6 only, 2,3 mixed
	for tries := 0; len(res) < n && tries < 60; tries++ {
		var b blk
		switch {
		case len(res) > 0 && r.Chance(3, 5):
			b = derive(r, res[r.Intn(len(res))])
		case mode == 0 || (mode >= 2 && r.Chance(1, 2)):
			b = parseBlk(v4seeds[r.Intn(len(v4seeds))])
		default:
			b = parseBlk(v6seeds[r.Intn(len(v6seeds))])
		}
		add(b)
	}
	return res
}

// genSet: blocks with locations; dup = 0 none, 1 same subnet twice with the same
// location, 2 same subnet twice with different locations (outside wf_subnets)
func genSet(r *hlib.Rng, max int, dup int) []subnet {
	bl := genBlocks(r, max)
	var res []subnet
	for _, b := range bl {
		res = append(res, subnet{A: ints16(b.a), L: b.l, Loc: hlib.Ints(locPool[r.Intn(len(locPool))])})
	}
	if dup > 0 && len(res) > 0 && len(res) < max {
		s := res[r.Intn(len(res))]
		d := subnet{A: s.A, L: s.L, Loc: s.Loc}
		if dup == 2 {
			for {
				l := locPool[r.Intn(len(locPool))]
				if !bytes.Equal(l, hlib.Unints(s.Loc)) {
					d.Loc = hlib.Ints(l)
					break
				}
			}
		}
		res = append(res, d)
	}
	r.Shuffle(len(res), func(i, j int) { res[i], res[j] = res[j], res[i] })
	return res
}

type client struct {
	a    ip16
	plen int // 128-bit terms
}

// critical clients of a subnet set
func criticalAddrs(r *hlib.Rng, nets []subnet) []ip16 {
	var res []ip16
	seen := map[ip16]bool{}
	add := func(a ip16) {
		if !seen[a] {
			seen[a] = true
			res = append(res, a)
		}
	}
	for _, s := range nets {
		a := un16(s.A)
		add(a)
		la := lastOf(a, s.L)
		add(la)
		if n, ok := inc(la); ok {
			add(n)
		}
		if p, ok := dec(a); ok {
			add(p)
		}
		// random interior point
		x := a
		rb := r.Bytes(16, nil)
		for i := 0; i < 16; i++ {
			x[i] = a[i] | (rb[i] & la[i])
		}
		add(x)
	}
	for _, s := range []string{"::", "::ffff:0:0", "::1:0:0:0", "ffff:ffff:ffff:ffff:ffff:ffff:ffff:ffff", "::fffe:ffff:ffff",
		"::ffff:255.255.255.255", "::1:0:0:1", "0:0:0:1::", "::ffff:10.0.1.5", "2001:db8::1", "::ffff:10.0.1.200"} {
		add(mustIP(s))
	}
	return res
}

func plensFor(r *hlib.Rng, nets []subnet, a ip16) []int {
	lo, hi := 0, 128
	if isV4(a) {
		lo = 96
	}
	set := map[int]bool{lo: true, hi: true}
	for _, s := range nets {
		for _, d := range []int{-1, 0, 1} {
			p := s.L + d
			if p >= lo && p <= hi {
				set[p] = true
			}
		}
	}
	var res []int
	for p := range set {
		res = append(res, p)
	}
	// deterministic order
	for i := 0; i < len(res); i++ {
		for j := i + 1; j < len(res); j++ {
			if res[j] < res[i] {
				res[i], res[j] = res[j], res[i]
			}
		}
	}
	return res
}

// ---------------------------------------------------------------- kind rr

func runRR(c *c03case) {
	c.Obs = map[string]*obs{}
	o := &obs{Map: []int{0, 0}, Loc: []int{0, 0}}
	c.Obs["rr"] = o
	c.Pts = nil
	defer func() {
		if e := recover(); e != nil {
			o.St = "panic"
			o.Msg = fmt.Sprint(e)
		}
	}()
	rg := dnsdata.NewRearranger(dnsdata.InitLocationCount)
	for _, s := range c.Nets {
		a := un16(s.A)
		ipn := &net.IPNet{IP: append(net.IP{}, a[:]...), Mask: net.CIDRMask(s.L, 128)}
		if err := rg.AddLocation(ipn, append([]byte{}, hlib.Unints(s.Loc)...)); err != nil {
			o.St = "err"
			o.Msg = err.Error()
			return
		}
	}
	pts := rg.Rearrange()
	type kv struct {
		k    []byte
		null bool
		loc  []byte
	}
	var kvs []kv
	for _, p := range pts {
		a := p.To16()
		m := p.MaskLen()
		loc := append([]byte{}, p.LocID()...)
		c.Pts = append(c.Pts, point{A: hlib.Ints(a[:]), M: int(m), Null: p.LocIsNull(), Loc: hlib.Ints(loc)})
		k := append([]byte{}, a[:]...)
		if p.LocIsNull() {
			k = append(k, 0)
		} else {
			k = append(k, m)
		}
		kvs = append(kvs, kv{k, p.LocIsNull(), loc})
	}
	// two records under one key would be one multi-value record in the database
	for i := range kvs {
		for j := i + 1; j < len(kvs); j++ {
			if bytes.Equal(kvs[i].k, kvs[j].k) {
				o.St = "err"
				o.Msg = "two range points with the same key"
				return
			}
		}
	}
	// the driver's search key: client address masked to its prefix, prefix length
	ma := maskTo(un16(c.Q.A), c.Q.Plen)
	sk := append(append([]byte{}, ma[:]...), byte(c.Q.Plen))
	best := -1
	for i, e := range kvs {
		if bytes.Compare(e.k, sk) <= 0 {
			if best < 0 || bytes.Compare(e.k, kvs[best].k) > 0 {
				best = i
			} else if bytes.Equal(e.k, kvs[best].k) {
				o.St = "err"
				o.Msg = "two range points with the same key"
				return
			}
		}
	}
	if best < 0 {
		o.St = "nil"
		return
	}
	e := kvs[best]
	o.Mask = int(e.k[16])
	if e.null {
		o.St = "nil"
		return
	}
	o.St = "loc"
	o.Loc = hlib.Ints(e.loc)
}

func genRR(r *hlib.Rng, e *hlib.Emitter, nsets int) {
	for i := 0; i < nsets; i++ {
		dup := 0
		class := "rr"
		switch r.Intn(12) {
		case 0:
			dup = 1
			class = "rr-dupsame"
		case 1:
			dup = 2
			class = "rr-dupdiff"
		}
		nets := genSet(r, 12, dup)
		if i < len(fixedSets) {
			nets = fixedSets[i]()
			class = "rr-fixed"
		}
		addrs := criticalAddrs(r, nets)
		r.Shuffle(len(addrs), func(i, j int) { addrs[i], addrs[j] = addrs[j], addrs[i] })
		budget := 40
		var group []*c03case
		for _, a := range addrs {
			for _, p := range plensFor(r, nets, a) {
				if budget <= 0 {
					break
				}
				if p != 128 && p != 96 && p != 0 && r.Chance(1, 2) {
					continue
				}
				budget--
				ma := maskTo(a, p)
				c := &c03case{Kind: "rr", Class: class, Maps: []mapdef{}, Nets: nets,
					Q: query{Name: []int{0}, Path: "rr", A: ints16(ma), Plen: p, Fam: 2, Src: p}}
				if isV4(ma) {
					c.Q.Fam = 1
				}
				runRR(c)
				group = append(group, c)
			}
		}
		emitGroups(e, group, "")
	}
}

func sn(cidr string, loc byte) subnet {
	b := parseBlk(cidr)
	return subnet{A: ints16(b.a), L: b.l, Loc: []int{0, int(loc)}}
}

// shapes every run must contain
var fixedSets = []func() []subnet{
	func() []subnet { return []subnet{sn("::/64", 1)} },
	func() []subnet { return []subnet{sn("0.0.0.0/8", 1)} },
	func() []subnet { return []subnet{sn("::/0", 1)} },
	func() []subnet { return []subnet{sn("::/0", 1), sn("0.0.0.0/0", 2)} },
	func() []subnet { return []subnet{sn("10.0.0.0/8", 2), sn("10.0.1.0/24", 1)} },
	func() []subnet { return []subnet{sn("0.0.0.0/0", 2), sn("0.0.0.0/8", 1), sn("255.255.255.255/32", 3)} },
	func() []subnet {
		return []subnet{sn("::/0", 2), sn("ffff:ffff:ffff:ffff:ffff:ffff:ffff:ffff/128", 3), sn("::/128", 4), sn("8000::/1", 5)}
	},
	func() []subnet { return []subnet{sn("10.0.0.0/8", 2), sn("11.0.0.0/8", 1), sn("10.0.0.0/7", 3)} },
	func() []subnet { return []subnet{sn("::/80", 1), sn("::1:0:0:0/80", 2)} },
	func() []subnet { return []subnet{sn("::/1", 1), sn("::/8", 2), sn("2001:db8::/32", 3)} },
}

// ---------------------------------------------------------------- kind db

var labelPool = []string{"a", "b", "c", "ab", "com", "example", "www", "x", "org", "*", "a-b", "0"}

func packName(labels []string) []byte {
	var b []byte
	for _, l := range labels {
		b = append(b, byte(len(l)))
		b = append(b, strings.ToLower(l)...)
	}
	return append(b, 0)
}

type dbfile struct {
	maps []mapdef
	nets []subnet
	text string
	// names (label lists) the maps were declared for, for query generation
	names [][]string
	// queries every run asks of this file
	fixedQ []fixedQuery
}

type fixedQuery struct {
	q     query
	class string
}

func resQ(labels []string, ip string) fixedQuery {
	a := mustIP(ip)
	q := query{Name: hlib.Ints(packName(labels)), Path: "res", IPOK: true, A: ints16(a), Fam: 2, Src: 128}
	if isV4(a) {
		q.Fam, q.Src = 1, 32
	}
	return fixedQuery{q, "res"}
}

// ecsQ: the address is sent as given (host bits below src are kept)
func ecsQ(labels []string, fam int, ip string, src int) fixedQuery {
	a := mustIP(ip)
	q := query{Name: hlib.Ints(packName(labels)), Path: "ecs", A: ints16(a), Fam: fam, Src: src}
	w := src
	if fam == 1 {
		w += 96
	}
	class := "ecs6"
	if fam == 1 {
		class = "ecs4"
	} else if isV4(a) {
		class = "ecs-f2-v4mapped"
	}
	if maskTo(a, w) != a {
		class += "-hostbits"
	}
	return fixedQuery{q, class}
}

func nameText(labels []string, wild bool, upper bool) string {
	s := strings.Join(labels, ".")
	if upper {
		s = strings.ToUpper(s)
	}
	if len(labels) == 0 {
		if wild {
			return "*."
		}
		return "."
	}
	if wild {
		return "*." + s
	}
	return s
}

func genName(r *hlib.Rng, base [][]string) []string {
	if len(base) > 0 && r.Chance(2, 3) {
		b := base[r.Intn(len(base))]
		switch r.Intn(4) {
		case 0:
			return b
		case 1: // child
			return append([]string{labelPool[r.Intn(len(labelPool))]}, b...)
		case 2: // parent
			if len(b) > 0 {
				return b[1:]
			}
			return b
		default: // grandchild
			return append([]string{labelPool[r.Intn(len(labelPool))], labelPool[r.Intn(len(labelPool))]}, b...)
		}
	}
	n := r.Intn(4)
	var res []string
	for i := 0; i < n; i++ {
		res = append(res, labelPool[r.Intn(len(labelPool))])
	}
	if r.Chance(1, 40) {
		res = append([]string{strings.Repeat("k", 42)}, res...)
	}
	if r.Chance(1, 40) {
		res = append([]string{strings.Repeat("z", 61)}, res...)
	}
	return res
}

var mapPool = [][]byte{{'m', '1'}, {'m', '2'}, {0, 1}, {'e', 'c'}, {'c', 0}, {0xff, 0xff}, {'m', '3'}}

func genFile(r *hlib.Rng, idx int) *dbfile {
	f := &dbfile{}
	if idx < len(fixedFiles) {
		return fixedFiles[idx]()
	}
	nmaps := 3 + r.Intn(4)
	ids := [][]byte{}
	perm := []int{0, 1, 2, 3, 4, 5, 6}
	r.Shuffle(len(perm), func(i, j int) { perm[i], perm[j] = perm[j], perm[i] })
	for i := 0; i < nmaps; i++ {
		ids = append(ids, mapPool[perm[i]])
	}
	// map lines
	type key struct {
		k    int
		name string
		wild bool
	}
	seen := map[key]bool{}
	nlines := nmaps + r.Intn(2*nmaps)
	for i := 0; i < nlines; i++ {
		labels := genName(r, f.names)
		wild := r.Chance(2, 5)
		k := 'M'
		if r.Chance(1, 2) {
			k = '8'
		}
		if r.Chance(1, 12) {
			labels = nil // root
		}
		if !wild && len(labels) > 0 && labels[0] == "*" {
			wild, labels = true, labels[1:]
		}
		kk := key{int(k), strings.Join(labels, "."), wild}
		if seen[kk] {
			continue
		}
		seen[kk] = true
		f.names = append(f.names, labels)
		id := ids[i%len(ids)]
		f.addMap(byte(k), labels, wild, id, r.Chance(1, 10))
		if r.Chance(1, 2) { // the same name for the other path
			k2 := byte('M' + '8' - k)
			kk2 := key{int(k2), kk.name, wild}
			if !seen[kk2] {
				seen[kk2] = true
				id2 := id
				if r.Chance(1, 4) {
					id2 = ids[r.Intn(len(ids))]
				}
				f.addMap(k2, labels, wild, id2, false)
			}
		}
	}
	// subnets: each map gets a set (possibly empty); sometimes the default map \0\0 too
	for _, id := range ids {
		if r.Chance(1, 7) {
			continue // a map that is named but has no subnets
		}
		dup := 0
		if r.Chance(1, 12) {
			dup = 1
		}
		for _, s := range genSet(r, 3+r.Intn(8), dup) {
			f.addNet(s, id, false)
		}
	}
	if r.Chance(1, 3) {
		for _, s := range genSet(r, 4, 0) {
			f.addNet(s, []byte{0, 0}, r.Chance(1, 2))
		}
	}
	return f
}

func (f *dbfile) addMap(k byte, labels []string, wild bool, id []byte, upper bool) {
	if !wild && len(labels) > 0 && labels[0] == "*" {
		// the text form "*.rest" IS the wildcard declaration of rest
		wild, labels = true, labels[1:]
	}
	f.maps = append(f.maps, mapdef{K: int(k), Name: hlib.Ints(packName(labels)), Wild: wild, ID: hlib.Ints(id)})
	f.text += fmt.Sprintf("%c%s,%s\n", k, nameText(labels, wild, upper), oct(id))
}

func (f *dbfile) addNet(s subnet, id []byte, omitMap bool) {
	s.Map = hlib.Ints(id)
	f.nets = append(f.nets, s)
	a := un16(s.A)
	if omitMap {
		f.text += fmt.Sprintf("%%%s,%s\n", oct(hlib.Unints(s.Loc)), cidrText(a, s.L))
	} else {
		f.text += fmt.Sprintf("%%%s,%s,%s\n", oct(hlib.Unints(s.Loc)), cidrText(a, s.L), oct(id))
	}
}

func mkfile(build func(f *dbfile)) func() *dbfile {
	return func() *dbfile { f := &dbfile{}; build(f); return f }
}

var fixedFiles = []func() *dbfile{
	mkfile(func(f *dbfile) {
		f.names = [][]string{{"example", "com"}, {"nosub", "com"}, {"wild", "com"}, {"zero", "org"}, {"com"}, {"f20", "net"}, {}, {"b", "org"}}
		// m1: host bits below the source prefix
		f.addMap('M', []string{"example", "com"}, false, []byte("m1"), false)
		f.addMap('8', []string{"example", "com"}, false, []byte("m1"), false)
		f.addNet(sn("10.0.0.0/8", 2), []byte("m1"), false)
		f.addNet(sn("10.0.1.0/24", 1), []byte("m1"), false)
		f.addNet(sn("::/0", 5), []byte("m1"), false)
		// m2: named by M/8 lines, no subnets; m1 sorts before it and its last range point carries a location
		f.addMap('M', []string{"nosub", "com"}, false, []byte("m2"), false)
		f.addMap('8', []string{"nosub", "com"}, false, []byte("m2"), false)
		// m3: ::/0 declared, no IPv4 default
		f.addMap('M', []string{"wild", "com"}, true, []byte("m3"), false)
		f.addMap('8', []string{"wild", "com"}, true, []byte("m3"), false)
		f.addNet(sn("::/0", 1), []byte("m3"), false)
		f.addNet(sn("2001:db8::/32", 2), []byte("m3"), false)
		// m4: network address :: / 0.0.0.0 with non-default length
		f.addMap('M', []string{"zero", "org"}, false, []byte("m4"), false)
		f.addMap('8', []string{"zero", "org"}, false, []byte("m4"), false)
		f.addNet(sn("::/96", 1), []byte("m4"), false)
		f.addNet(sn("0.0.0.0/8", 2), []byte("m4"), false)
		f.addNet(sn("::/128", 3), []byte("m4"), false)
		// m5: wildcard map at the root (resolver maps only)
		f.addMap('M', nil, true, []byte("m5"), false)
		f.addNet(sn("0.0.0.0/0", 1), []byte("m5"), false)
		f.addNet(sn("::/0", 1), []byte("m5"), false)
		// m6: wildcard below the root
		f.addMap('M', []string{"com"}, true, []byte("m6"), false)
		f.addMap('8', []string{"com"}, true, []byte("m6"), false)
		f.addNet(sn("0.0.0.0/0", 2), []byte("m6"), false)
		// m7: IPv6 subnet straddling the v4-mapped block
		f.addMap('M', []string{"f20", "net"}, false, []byte("m7"), false)
		f.addMap('8', []string{"f20", "net"}, false, []byte("m7"), false)
		f.addNet(sn("::/64", 1), []byte("m7"), false)
		f.addNet(sn("0.0.0.0/8", 2), []byte("m7"), false)
		// default map
		f.addNet(sn("10.0.0.0/8", 1), []byte{0, 0}, true)
		f.addNet(sn("2001:db8::/32", 2), []byte{0, 0}, false)
		ex, nosub, zero := []string{"example", "com"}, []string{"nosub", "com"}, []string{"zero", "org"}
		f.fixedQ = []fixedQuery{
			ecsQ(ex, 1, "10.0.1.5", 16), ecsQ(ex, 1, "10.0.1.0", 24), ecsQ(ex, 1, "10.0.1.5", 32), ecsQ(ex, 1, "10.0.1.5", 23),
			ecsQ(ex, 2, "2001:db8::1", 64), resQ(ex, "10.0.1.5"), resQ(ex, "11.0.0.1"), resQ(ex, "2001:db8::1"),
			resQ(nosub, "10.0.0.1"), resQ(nosub, "2001:db8::1"), resQ(nosub, "ffff:ffff:ffff:ffff:ffff:ffff:ffff:ffff"), resQ(nosub, "::"),
			ecsQ(nosub, 2, "2001:db8::", 32), ecsQ(nosub, 1, "10.0.0.0", 8), ecsQ(nosub, 1, "255.255.255.255", 32),
			resQ([]string{"a", "wild", "com"}, "1.2.3.4"), ecsQ([]string{"a", "wild", "com"}, 1, "1.2.3.0", 24),
			resQ([]string{"a", "wild", "com"}, "2001:db8::1"), resQ([]string{"a", "wild", "com"}, "2002::1"),
			resQ([]string{"wild", "com"}, "1.2.3.4"), resQ([]string{"x", "com"}, "1.2.3.4"),
			resQ(zero, "::5"), resQ(zero, "0.1.2.3"), resQ(zero, "1.2.3.4"), resQ(zero, "2001:db8::1"), resQ(zero, "::"),
			resQ(zero, "::1:0:0:1"), resQ(zero, "::1:0:0"), ecsQ(zero, 2, "::", 96), ecsQ(zero, 2, "::", 95), ecsQ(zero, 1, "0.0.0.0", 8),
			ecsQ(zero, 1, "0.0.0.0", 7), ecsQ(zero, 1, "1.0.0.0", 8), ecsQ(zero, 2, "::ffff:0.1.2.3", 128), ecsQ(zero, 2, "::ffff:0.1.2.3", 100),
			resQ([]string{"www", "example", "org"}, "1.2.3.4"), resQ([]string{"org"}, "2001:db8::1"), resQ(nil, "1.2.3.4"),
			ecsQ([]string{"www", "example", "org"}, 1, "1.2.3.0", 24), ecsQ(nil, 1, "1.2.3.0", 24),
			resQ([]string{"f20", "net"}, "::1:0:0:1"), resQ([]string{"f20", "net"}, "0:0:0:1::"), resQ([]string{"f20", "net"}, "::5"),
		}
	}),
	// wildcard maps only, queried at the wildcard's own base name; root wildcard for both paths
	mkfile(func(f *dbfile) {
		f.names = [][]string{{"example", "com"}, {"com"}, {}, {"a", "example", "com"}}
		f.addMap('M', []string{"example", "com"}, true, []byte("m1"), false)
		f.addMap('8', []string{"example", "com"}, true, []byte("m1"), false)
		f.addMap('M', nil, true, []byte("m2"), false)
		f.addMap('8', nil, true, []byte("m2"), false)
		f.addNet(sn("0.0.0.0/0", 1), []byte("m1"), false)
		f.addNet(sn("::/0", 3), []byte("m1"), false)
		f.addNet(sn("0.0.0.0/0", 2), []byte("m2"), false)
		ex := []string{"example", "com"}
		f.fixedQ = []fixedQuery{
			resQ(ex, "1.2.3.4"), resQ([]string{"a", "example", "com"}, "1.2.3.4"), resQ([]string{"com"}, "1.2.3.4"), resQ(nil, "1.2.3.4"),
			resQ([]string{"b", "a", "example", "com"}, "2001:db8::1"), resQ([]string{"org"}, "1.2.3.4"),
			ecsQ(ex, 1, "1.2.3.0", 24), ecsQ([]string{"a", "example", "com"}, 1, "1.2.3.0", 24), ecsQ(nil, 1, "1.2.3.0", 24),
			ecsQ([]string{"www", "x", "org"}, 2, "2001:db8::", 32),
		}
	}),
	// a wildcard at a name's own base and nothing above it
	mkfile(func(f *dbfile) {
		f.names = [][]string{{"example", "com"}}
		f.addMap('M', []string{"example", "com"}, true, []byte("m1"), false)
		f.addMap('8', []string{"example", "com"}, true, []byte("m1"), false)
		f.addNet(sn("0.0.0.0/0", 1), []byte("m1"), false)
		f.addNet(sn("10.0.0.0/8", 2), []byte{0, 0}, false)
		ex := []string{"example", "com"}
		f.fixedQ = []fixedQuery{
			resQ(ex, "10.2.3.4"), resQ([]string{"a", "example", "com"}, "10.2.3.4"), resQ([]string{"com"}, "10.2.3.4"), resQ(nil, "10.2.3.4"),
			ecsQ(ex, 1, "10.2.3.0", 24), ecsQ([]string{"a", "example", "com"}, 1, "10.2.3.0", 24), ecsQ([]string{"com"}, 1, "10.2.3.0", 24),
		}
	}),
}

type backend struct {
	name string
	d    *db.DB
}

// needBk restricts the backends that are built (replay and shrinking re-run one backend); nil = all
var needBk map[string]bool

func wantBk(name string) bool { return needBk == nil || needBk[name] }

func compileAll(dir string, text string, onlyCDB bool, pre bool) ([]backend, error) {
	in := filepath.Join(dir, "data.in")
	if err := os.WriteFile(in, []byte(text), 0o644); err != nil {
		return nil, err
	}
	var res []backend
	cdbPath := filepath.Join(dir, "data.cdb")
	if _, err := cdb.CreateCDB(in, cdbPath, nil); err != nil {
		return nil, fmt.Errorf("cdb compile: %w", err)
	}
	d, err := db.Open(cdbPath, "cdb")
	if err != nil {
		return nil, err
	}
	res = append(res, backend{"cdb", d})
	if onlyCDB {
		return res, nil
	}
	for _, v2 := range []bool{false, true} {
		if (!v2 && !wantBk("v1")) || (v2 && !wantBk("v2")) {
			continue
		}
		p := filepath.Join(dir, fmt.Sprintf("rdb-%v", v2))
		os.RemoveAll(p)
		if err := os.MkdirAll(p, 0o755); err != nil {
			return nil, err
		}
		if _, err := rdb.CompileToSpecificRDBVersion(in, p, rdb.CompilationOptions{UseV2KeySyntax: v2, UseBuilder: true}); err != nil {
			return nil, fmt.Errorf("rdb compile v2=%v: %w", v2, err)
		}
		d, err := db.Open(p, "rocksdb")
		if err != nil {
			return nil, err
		}
		name := "v1"
		if v2 {
			name = "v2"
		}
		res = append(res, backend{name, d})
	}
	if !pre || (!wantBk("pv1") && !wantBk("pv2")) {
		return res, nil
	}
	// the preprocessor path: text -> Codec.Preprocess -> text with ! lines -> RocksDB
	out, err := complib.Preprocess([]byte(text), 1)
	if err != nil {
		return nil, fmt.Errorf("preprocess: %w", err)
	}
	prein := filepath.Join(dir, "data.pre")
	if err := os.WriteFile(prein, out, 0o644); err != nil {
		return nil, err
	}
	for _, v2 := range []bool{false, true} {
		if (!v2 && !wantBk("pv1")) || (v2 && !wantBk("pv2")) {
			continue
		}
		p := filepath.Join(dir, fmt.Sprintf("prdb-%v", v2))
		os.RemoveAll(p)
		if err := os.MkdirAll(p, 0o755); err != nil {
			return nil, err
		}
		if _, err := rdb.CompileToSpecificRDBVersion(prein, p, rdb.CompilationOptions{UseV2KeySyntax: v2, UseBuilder: true}); err != nil {
			return nil, fmt.Errorf("rdb compile of the preprocessed text v2=%v: %w\n%s", v2, err, out)
		}
		d, err := db.Open(p, "rocksdb")
		if err != nil {
			return nil, err
		}
		name := "pv1"
		if v2 {
			name = "pv2"
		}
		res = append(res, backend{name, d})
	}
	return res, nil
}

// ecsFromWire builds a query message with the raw ECS option and unpacks it, so
// that the option is in exactly the form the server sees
func ecsFromWire(q query) (*dns.EDNS0_SUBNET, error) {
	a := un16(q.A)
	var addr []byte
	switch q.Fam {
	case 1, 0:
		addr = a[12:16]
	default:
		addr = a[:]
	}
	if q.Fam == 0 {
		addr = nil
	}
	// trailing zero bytes beyond the source prefix may be omitted; keep all (host bits may be set)
	opt := []byte{0, 8, 0, byte(4 + len(addr)), 0, byte(q.Fam), byte(q.Src), byte(q.Scope0)}
	opt = append(opt, addr...)
	msg := []byte{0, 1, 0, 0, 0, 1, 0, 0, 0, 0, 0, 1}
	msg = append(msg, 0, 0, 1, 0, 1) // question: root A IN
	msg = append(msg, 0, 0, 41, 16, 0, 0, 0, 0, 0, 0, byte(len(opt)))
	msg = append(msg, opt...)
	m := new(dns.Msg)
	if err := m.Unpack(msg); err != nil {
		return nil, err
	}
	e := db.FindECS(m)
	if e == nil {
		return nil, fmt.Errorf("no ECS after unpack")
	}
	return e, nil
}

func ask(b backend, q query) (o *obs) {
	o = &obs{Map: []int{0, 0}, Loc: []int{0, 0}, Scope: q.Scope0}
	defer func() {
		if e := recover(); e != nil {
			o.St = "panic"
			o.Msg = fmt.Sprint(e)
		}
	}()
	rd, err := db.NewReader(b.d)
	if err != nil {
		o.St = "err"
		o.Msg = err.Error()
		return
	}
	defer rd.Close()
	name := append([]byte{}, hlib.Unints(q.Name)...)
	var loc *db.Location
	if q.Path == "res" {
		ip := "not-an-ip"
		if q.IPOK {
			ip = ipText(un16(q.A))
		}
		loc, err = rd.ResolverLocation(name, ip)
	} else {
		var e *dns.EDNS0_SUBNET
		e, err = ecsFromWire(q)
		if err != nil {
			o.St = "err"
			o.Msg = "harness: " + err.Error()
			return
		}
		loc, err = rd.EcsLocation(name, e)
		o.Scope = int(e.SourceScope)
	}
	if err != nil {
		o.St = "err"
		o.Msg = err.Error()
		return
	}
	if loc == nil {
		o.St = "nil"
		return
	}
	o.St = "loc"
	o.Map = hlib.Ints(loc.MapID[:])
	o.Loc = hlib.Ints(loc.LocID[:])
	o.Mask = int(loc.Mask)
	return
}

func runDB(dir string, c *c03case, bks []backend) {
	if c.Obs == nil {
		c.Obs = map[string]*obs{}
	}
	for _, b := range bks {
		c.Obs[b.name] = ask(b, c.Q)
	}
}

func closeAll(bks []backend) {
	for _, b := range bks {
		b.d.Destroy()
	}
}

// mapFor is the harness's own reading of "exact name, else nearest enclosing
// wildcard" - used only to aim clients at the subnets of the map that applies
func mapFor(f *dbfile, kind int, labels []string) []byte {
	find := func(ls []string, wild bool) []byte {
		p := packName(ls)
		for _, m := range f.maps {
			if m.K == kind && m.Wild == wild && bytes.Equal(hlib.Unints(m.Name), p) {
				return hlib.Unints(m.ID)
			}
		}
		return nil
	}
	if id := find(labels, false); id != nil {
		return id
	}
	for i := 1; i <= len(labels); i++ {
		if id := find(labels[i:], true); id != nil {
			return id
		}
	}
	return []byte{0, 0}
}

func genQueries(r *hlib.Rng, f *dbfile, count int) []struct {
	q     query
	class string
} {
	type qc = struct {
		q     query
		class string
	}
	var res []qc
	// names: declared names, children, parents, unrelated, root
	var names [][]string
	for _, n := range f.names {
		names = append(names, n)
		names = append(names, append([]string{labelPool[r.Intn(len(labelPool))]}, n...))
		if r.Chance(1, 2) {
			names = append(names, append([]string{"www", "x"}, n...))
		}
		if r.Chance(1, 3) {
			// ten to fifteen labels below a declared name: the label-by-label search asks for one
			// candidate key per label, and the applicable (wildcard) map is the last of many
			deep := append([]string{}, n...)
			for i := 9 + r.Intn(7); i > 0 && len(deep) < 40; i-- {
				deep = append([]string{labelPool[r.Intn(len(labelPool)-3)]}, deep...)
			}
			names = append(names, deep)
		}
		if len(n) > 0 && r.Chance(1, 2) {
			names = append(names, n[1:])
		}
	}
	names = append(names, nil, []string{"nomap", "test"})
	byMap := map[string][]subnet{}
	for _, s := range f.nets {
		k := string(hlib.Unints(s.Map))
		byMap[k] = append(byMap[k], s)
	}
	crit := map[string][]ip16{}
	for k, nets := range byMap {
		crit[k] = criticalAddrs(r, nets)
	}
	allAddrs := criticalAddrs(r, f.nets)
	for _, fq := range f.fixedQ {
		res = append(res, qc{fq.q, fq.class})
	}
	for budget := count; budget > 0; budget-- {
		n := names[r.Intn(len(names))]
		isRes := r.Chance(2, 5)
		kind := int('8')
		if isRes {
			kind = int('M')
		}
		mid := string(mapFor(f, kind, n))
		pool := allAddrs
		nets := f.nets
		if c, ok := crit[mid]; ok && r.Chance(5, 6) {
			pool = c
			nets = byMap[mid]
		}
		a := pool[r.Intn(len(pool))]
		q := query{Name: hlib.Ints(packName(n)), A: ints16(a)}
		class := ""
		if isRes {
			q.Path = "res"
			q.IPOK = true
			q.Fam, q.Src = 2, 128
			if isV4(a) {
				q.Fam, q.Src = 1, 32
			}
			class = "res"
			if r.Chance(1, 80) {
				q.IPOK = false
				q.A = ints16(ip16{})
				q.Fam, q.Src = 2, 128
				class = "res-badip"
			}
		} else {
			q.Path = "ecs"
			q.Scope0 = 0
			if r.Chance(1, 6) {
				q.Scope0 = 7
			}
			pl := plensFor(r, nets, a)
			p := pl[r.Intn(len(pl))]
			switch {
			case isV4(a) && r.Chance(1, 7):
				// family 2 carrying a v4-mapped address
				q.Fam = 2
				q.Src = []int{p, p - 96, 128, 120, 104, 64, 0}[r.Intn(7)]
				class = "ecs-f2-v4mapped"
			case isV4(a):
				q.Fam = 1
				q.Src = p - 96
				class = "ecs4"
			default:
				q.Fam = 2
				q.Src = p
				class = "ecs6"
			}
			if r.Chance(1, 50) {
				q.Fam, q.Src = 0, 0
				q.A = ints16(mustIP("::ffff:0.0.0.0"))
				class = "ecs-fam0"
			} else if r.Chance(1, 4) {
				class += "-hostbits"
			} else {
				w := q.Src
				if q.Fam == 1 {
					w += 96
				}
				q.A = ints16(maskTo(a, w))
			}
		}
		res = append(res, qc{q, class})
	}
	return res
}

// ---------------------------------------------------------------- main

func sepChildInto(a *hlib.Args, cases []*c03case, into map[*c03case]*obs) error {
	// run the CDB part again in a child process with per-family prefix sets
	inp := filepath.Join(a.Scratch, "c03-sep-in.jsonl")
	outp := filepath.Join(a.Scratch, "c03-sep-out.jsonl")
	f, err := os.Create(inp)
	if err != nil {
		return err
	}
	for _, c := range cases {
		cc := *c
		cc.Obs, cc.Pts = nil, nil
		b, _ := json.Marshal(&cc)
		f.Write(b)
		f.Write([]byte("\n"))
	}
	f.Close()
	defer os.Remove(inp)
	defer os.Remove(outp)
	self, err := os.Executable()
	if err != nil {
		return err
	}
	cmd := exec.Command(self, "-replay", inp, "-extra", "cdbsep", "-scratch", a.Scratch, "-out", outp)
	cmd.Env = append(os.Environ(), "FBDNS_SEPARATE_MASKLENS=1")
	cmd.Stderr = os.Stderr
	if err := cmd.Run(); err != nil {
		return fmt.Errorf("child with FBDNS_SEPARATE_MASKLENS=1: %w", err)
	}
	got, err := hlib.ReadReplay(outp)
	if err != nil {
		return err
	}
	if len(got) != len(cases) {
		return fmt.Errorf("child returned %d cases, expected %d", len(got), len(cases))
	}
	for i, m := range got {
		var ob map[string]*obs
		if err := json.Unmarshal(m["obs"], &ob); err != nil {
			return err
		}
		into[cases[i]] = ob["cdb"]
	}
	return nil
}

func sepChild(a *hlib.Args, cases []*c03case) error {
	into := map[*c03case]*obs{}
	if err := sepChildInto(a, cases, into); err != nil {
		return err
	}
	for c, o := range into {
		c.Obs["cdbsep"] = o
	}
	return nil
}

// runFileCases compiles the file of the (consecutive, same-file) cases and fills Obs
func runFileCases(a *hlib.Args, cases []*c03case, onlyCDB bool) error {
	dir, err := os.MkdirTemp(a.Scratch, "c03db-")
	if err != nil {
		return err
	}
	defer os.RemoveAll(dir)
	pre := false
	for _, c := range cases {
		pre = pre || c.Pre
	}
	bks, err := compileAll(dir, cases[0].File, onlyCDB, pre)
	if err != nil {
		return err
	}
	defer closeAll(bks)
	for _, c := range cases {
		runDB(dir, c, bks)
	}
	return nil
}

func groupByFile(cases []*c03case) [][]*c03case {
	var res [][]*c03case
	for _, c := range cases {
		if n := len(res); n > 0 && res[n-1][0].File == c.File {
			res[n-1] = append(res[n-1], c)
		} else {
			res = append(res, []*c03case{c})
		}
	}
	return res
}

func fileText(c *c03case) string {
	// rebuild the data file from the structured form (replay after shrinking)
	f := &dbfile{}
	for _, m := range c.Maps {
		labels := unpackLabels(hlib.Unints(m.Name))
		f.addMap(byte(m.K), labels, m.Wild, hlib.Unints(m.ID), false)
	}
	for _, s := range c.Nets {
		f.addNet(s, hlib.Unints(s.Map), false)
	}
	return f.text
}

func unpackLabels(p []byte) []string {
	var res []string
	for i := 0; i < len(p) && p[i] != 0; {
		n := int(p[i])
		if i+1+n > len(p) {
			break
		}
		res = append(res, string(p[i+1:i+1+n]))
		i += 1 + n
	}
	return res
}

func run(a *hlib.Args, e *hlib.Emitter) error {
	log.SetOutput(io.Discard) // the compilers log their progress
	if a.Scratch == "" {
		d, err := os.MkdirTemp("/var/tmp", "c03-")
		if err != nil {
			return err
		}
		defer os.RemoveAll(d)
		a.Scratch = d
	}
	// rdb.NewReader keeps RocksDB's secondary-instance logs under os.TempDir()
	tmp, err := os.MkdirTemp(a.Scratch, "c03tmp-")
	if err != nil {
		return err
	}
	defer os.RemoveAll(tmp)
	os.Setenv("TMPDIR", tmp)
	if a.Extra == "cdbsep" && !db.SeparateBitMap {
		return fmt.Errorf("child started without FBDNS_SEPARATE_MASKLENS taking effect")
	}
	if a.Extra != "cdbsep" && db.SeparateBitMap {
		return fmt.Errorf("FBDNS_SEPARATE_MASKLENS must not be set for the parent harness process")
	}
	var dbcases []*c03case
	if a.Replay != "" {
		raw, err := hlib.ReadReplay(a.Replay)
		if err != nil {
			return err
		}
		if a.Extra == "cdbsep" {
			// child: internal cases in, internal cases (with Obs) out
			for _, m := range raw {
				b, _ := json.Marshal(m)
				c := &c03case{}
				if err := json.Unmarshal(b, c); err != nil {
					return err
				}
				c.Obs = nil
				dbcases = append(dbcases, c)
			}
			for _, g := range groupByFile(dbcases) {
				if err := runFileCases(a, g, true); err != nil {
					return err
				}
			}
			for _, c := range dbcases {
				e.Emit(c)
			}
			return nil
		}
		type unit struct {
			bk    string
			cases []*c03case
		}
		var units []unit
		for _, m := range raw {
			b, _ := json.Marshal(m)
			oc := &outcase{}
			if err := json.Unmarshal(b, oc); err != nil {
				return err
			}
			u := unit{bk: oc.Bk}
			if oc.Maps == nil {
				oc.Maps = []mapdef{}
			}
			if oc.Nets == nil {
				oc.Nets = []subnet{}
			}
			for _, qo := range oc.Qs {
				c := &c03case{Kind: oc.Kind, Class: qo.Class, Maps: oc.Maps, Nets: oc.Nets, Q: qo.Q,
					Pre: strings.HasPrefix(oc.Bk, "pv")}
				if oc.Kind == "rr" {
					runRR(c)
				} else {
					c.File = fileText(c)
					dbcases = append(dbcases, c)
				}
				u.cases = append(u.cases, c)
			}
			units = append(units, u)
		}
		needBk = map[string]bool{}
		for _, u := range units {
			needBk[u.bk] = true
		}
		for _, g := range groupByFile(dbcases) {
			if err := runFileCases(a, g, false); err != nil {
				return err
			}
		}
		if len(dbcases) > 0 && wantBk("cdbsep") {
			if err := sepChild(a, dbcases); err != nil {
				return err
			}
		}
		for _, u := range units {
			if len(u.cases) == 0 {
				// a group without queries: keep the line so that input and output correspond
				e.Emit(&outcase{Kind: "db", Bk: u.bk, Maps: []mapdef{}, Nets: []subnet{}, Qs: []qobs{}})
				continue
			}
			// one input line = one output line: all queries of the unit, whatever map they select
			c0 := u.cases[0]
			o := &outcase{Kind: c0.Kind, Bk: u.bk, Maps: c0.Maps, Nets: c0.Nets}
			for _, c := range u.cases {
				o.Qs = append(o.Qs, qobs{c.Q, c.Class, c.Obs[u.bk]})
			}
			e.Emit(o)
		}
		return nil
	}

	r := hlib.NewRng(a.Seed, 3)
	genRR(r, e, len(fixedSets)+a.N)

	r2 := hlib.NewRng(a.Seed, 303)
	nfiles := len(fixedFiles) + a.N/12
	var groups [][]*c03case
	for i := 0; i < nfiles; i++ {
		f := genFile(r2, i)
		var group []*c03case
		nq := 100
		if i == 0 {
			nq = 220
		}
		for _, qc := range genQueries(r2, f, nq) {
			c := &c03case{Kind: "db", Class: qc.class, Maps: f.maps, Nets: f.nets, Q: qc.q, File: f.text,
				Pre: i <= len(fixedFiles) || a.Tier == "thorough"}
			if c.Maps == nil {
				c.Maps = []mapdef{}
			}
			if c.Nets == nil {
				c.Nets = []subnet{}
			}
			group = append(group, c)
		}
		groups = append(groups, group)
	}
	// compile and query the files concurrently (generation above is sequential and seeded);
	// the child with per-family prefix sets runs meanwhile
	for _, g := range groups {
		dbcases = append(dbcases, g...)
	}
	for _, c := range dbcases {
		c.Obs = map[string]*obs{}
	}
	errs := make(chan error, len(groups)+1)
	sem := make(chan struct{}, 4)
	for i := range groups {
		go func(i int) {
			sem <- struct{}{}
			defer func() { <-sem }()
			if err := runFileCases(a, groups[i], false); err != nil {
				errs <- fmt.Errorf("file %d: %w\n%s", i, err, groups[i][0].File)
				return
			}
			errs <- nil
		}(i)
	}
	sepObs := map[*c03case]*obs{}
	go func() { errs <- sepChildInto(a, dbcases, sepObs) }()
	for i := 0; i < len(groups)+1; i++ {
		if err := <-errs; err != nil {
			return err
		}
	}
	for c, o := range sepObs {
		c.Obs["cdbsep"] = o
	}
	for _, g := range groupByFile(dbcases) {
		emitGroups(e, g, "")
	}
	return nil
}

func main() { hlib.Main(run) }
