// C10 harness: EDNS Client Subnet echo and scope, observed at the real handler.
//
// A generated configuration (zone with located A records, '8' and 'M' maps, exact
// and wildcard, '%' subnets) is compiled by the real compilers into CDB, RocksDB
// with v1 keys and RocksDB with v2 keys.  For every backend two real handlers are
// built (response cache off / on).  A generated query is packed, unpacked (so the
// OPT/ECS objects are exactly what a server sees), and served:
//
//	mode "nocache": handler without cache
//	mode "cache1":  handler with cache, first time (miss unless an earlier query
//	                filled the same key - the DNS_cache.hit counter tells)
//	mode "cache2":  handler with cache, same query again (hit when cacheable)
//
// One JSON line per (configuration, query, backend, mode).
package main

import (
	"context"
	"encoding/json"
	"fmt"
	"net"
	"os"
	"path/filepath"
	"sort"
	"strings"

	"github.com/coredns/coredns/plugin/pkg/dnstest"
	"github.com/facebookincubator/dns/dnsrocks/db"
	"github.com/facebookincubator/dns/dnsrocks/dnsdata/cdb"
	"github.com/facebookincubator/dns/dnsrocks/dnsdata/rdb"
	"github.com/facebookincubator/dns/dnsrocks/dnsserver"
	"github.com/facebookincubator/dns/dnsrocks/dnsserver/test"
	"github.com/miekg/dns"

	"verifharness/hlib"
)

// ---------------------------------------------------------------- data types

type ip16 [16]byte

type subnet struct {
	A   []int `json:"a"`   // network address, 16 bytes (v4 is v6-mapped)
	L   int   `json:"l"`   // prefix length in 128-bit terms (v4: +96)
	Loc int   `json:"loc"` // location id as 16-bit number
}

type mapdef struct {
	K    string `json:"k"`    // "8" | "M"
	Name string `json:"name"` // lower-case fqdn without the wildcard label
	Wild bool   `json:"wild"`
	ID   int    `json:"id"` // map id as 16-bit number
}

type qopt struct {
	Code  int   `json:"code"`
	IsECS bool  `json:"is_ecs"`
	Fam   int   `json:"fam"`
	Src   int   `json:"src"`
	Scope int   `json:"scope"`
	Addr  []int `json:"addr"` // address bytes as put on the wire (any length)
	Data  []int `json:"data"` // other options: raw data
}

type query struct {
	Name  string `json:"name"`
	RIP   []int  `json:"rip"` // resolver address, 16 bytes (v4 is v6-mapped)
	HasOp bool   `json:"opt"`
	Ver   int    `json:"ver"`
	Do    bool   `json:"do"`
	UDP   int    `json:"udp"`
	Opts  []qopt `json:"opts"`
}

// what the server sees after unpacking (first ECS option)
type seenECS struct {
	Fam   int   `json:"fam"`
	Src   int   `json:"src"`
	Scope int   `json:"scope"`
	Addr  []int `json:"addr"` // 16 bytes
}

type obsECS struct {
	Fam   int   `json:"fam"`
	Src   int   `json:"src"`
	Scope int   `json:"scope"`
	Addr  []int `json:"addr"` // To16 of the address, 16 bytes ([] when nil)
}

type obs struct {
	Reply  bool    `json:"reply"`
	Rcode  int     `json:"rcode"`
	Opt    bool    `json:"opt"`
	NOpt   int     `json:"nopt"` // number of OPT records in the reply
	Ver    int     `json:"ver"`
	Do     bool    `json:"do"`
	UDP    int     `json:"udp"`
	Codes  []int   `json:"codes"` // option codes of the reply OPT in order
	ECS    *obsECS `json:"ecs"`   // first ECS option of the reply
	AnsLoc int     `json:"ansloc"` // location encoded in the first answer A record, -1 if none
	NAns   int     `json:"nans"`
	// the reply packed and unpacked again (what a client parses)
	WireOK  bool    `json:"wire_ok"`
	WireErr string  `json:"wire_err,omitempty"`
	WOpt    bool    `json:"wopt"`
	WCodes  []int   `json:"wcodes"`
	WECS    *obsECS `json:"wecs"`
	WRcode  int     `json:"wrcode"`
	HErr    string  `json:"herr,omitempty"`
	Panic   string  `json:"panic,omitempty"`
	Writes  int     `json:"writes"`
	RetCode int     `json:"retcode"`
}

type oracle struct {
	Found bool `json:"found"`
	Len   int  `json:"len"` // 128-bit terms
	Loc   int  `json:"loc"`
}

type rdiag struct {
	St    string `json:"st"` // "loc" | "nil" | "err"
	Map   int    `json:"map"`
	Loc   int    `json:"loc"`
	Mask  int    `json:"mask"`
	Scope int    `json:"scope"`
}

type c10case struct {
	Class   string   `json:"class"`
	Cfg     int      `json:"cfg"`
	CfgKind string   `json:"cfgkind"`
	Backend string   `json:"backend"` // cdb | v1 | v2
	Mode    string   `json:"mode"`    // nocache | cache1 | cache2
	Hit     bool     `json:"hit"`     // DNS_cache.hit was counted during this call
	Maps    []mapdef `json:"maps"`
	Nets    map[string][]subnet `json:"nets"` // map id (decimal) -> declared subnets
	Map8    int      `json:"map8"`   // map chosen for the name by the declared rule (exact, then nearest wildcard); 0 = none
	MapM    int      `json:"mapm"`
	InZone  bool     `json:"inzone"` // name is at or below a served zone
	Q       query    `json:"q"`
	Parsed  bool     `json:"parsed"` // the packed query unpacks (otherwise the server never sees it)
	PErr    string   `json:"perr,omitempty"`
	Seen    *seenECS `json:"seen"`   // first ECS option as unpacked
	NSeen   int      `json:"nseen"`  // number of ECS options unpacked
	O       *obs     `json:"obs"`
	OrE     oracle   `json:"or_ecs"` // independent LPM over declared subnets of map8 for the client prefix
	OrR     oracle   `json:"or_res"` // independent LPM over declared subnets of mapM for the resolver address
	RdE     *rdiag   `json:"rd_ecs,omitempty"` // Reader.EcsLocation on the same backend (what the driver found)
	RdR     *rdiag   `json:"rd_res,omitempty"` // diagnostic: Reader.ResolverLocation
	File    string   `json:"file,omitempty"`
}

// ---------------------------------------------------------------- address helpers

func maskTo(a ip16, l int) ip16 {
	var r ip16
	for i := 0; i < 16; i++ {
		bitsLeft := l - 8*i
		switch {
		case bitsLeft >= 8:
			r[i] = a[i]
		case bitsLeft <= 0:
			r[i] = 0
		default:
			r[i] = a[i] & byte(0xff<<(8-uint(bitsLeft)))
		}
	}
	return r
}

func lastOf(a ip16, l int) ip16 {
	r := maskTo(a, l)
	for i := 0; i < 16; i++ {
		bitsLeft := l - 8*i
		switch {
		case bitsLeft >= 8:
		case bitsLeft <= 0:
			r[i] = 0xff
		default:
			r[i] |= byte(0xff >> uint(bitsLeft))
		}
	}
	return r
}

func inc(a ip16) ip16 {
	for i := 15; i >= 0; i-- {
		if a[i] == 255 {
			a[i] = 0
		} else {
			a[i]++
			return a
		}
	}
	return a
}

func dec(a ip16) ip16 {
	for i := 15; i >= 0; i-- {
		if a[i] == 0 {
			a[i] = 255
		} else {
			a[i]--
			return a
		}
	}
	return a
}

func isV4(a ip16) bool {
	for i := 0; i < 10; i++ {
		if a[i] != 0 {
			return false
		}
	}
	return a[10] == 0xff && a[11] == 0xff
}

func mustIP(s string) ip16 {
	var r ip16
	p := net.ParseIP(s)
	if p == nil {
		panic("bad ip " + s)
	}
	copy(r[:], p.To16())
	return r
}

func ipText(a ip16) string {
	if isV4(a) {
		return fmt.Sprintf("%d.%d.%d.%d", a[12], a[13], a[14], a[15])
	}
	return net.IP(a[:]).String()
}

func cidrText(a ip16, l int) string {
	if isV4(a) && l >= 96 {
		return fmt.Sprintf("%s/%d", ipText(a), l-96)
	}
	if isV4(a) {
		return fmt.Sprintf("0:0:0:0:0:ffff:%02x%02x:%02x%02x/%d", a[12], a[13], a[14], a[15], l)
	}
	return fmt.Sprintf("%s/%d", net.IP(a[:]).String(), l)
}

func un16(v []int) ip16 {
	var r ip16
	copy(r[:], hlib.Unints(v))
	return r
}

func oct2(id int) string { return fmt.Sprintf("\\%03o\\%03o", (id>>8)&0xff, id&0xff) }

// ---------------------------------------------------------------- configurations

type config struct {
	Kind string
	Maps []mapdef
	Nets map[int][]subnet // by map id
	Names []string        // served names to query
	Text string
}

const zone = "z.test."

// names outside every served zone
var outNames = []string{"out.other.", "a.elsewhere.", "test."}

func mkNet(cidr string, loc int) subnet {
	ip, n, err := net.ParseCIDR(cidr)
	if err != nil {
		panic(err)
	}
	ones, bits := n.Mask.Size()
	var a ip16
	copy(a[:], n.IP.To16())
	l := ones
	if bits == 32 && ip.To4() != nil {
		l += 96
	}
	return subnet{A: hlib.Ints(a[:]), L: l, Loc: loc}
}

// shapes of subnet sets for one map; locations start at base
func netShape(r *hlib.Rng, shape int, base int) ([]subnet, string) {
	L := func(k int) int { return base + k }
	switch shape {
	case 0:
		return nil, "none"
	case 1:
		return []subnet{mkNet("::/0", L(0))}, "only-v6-default"
	case 2:
		return []subnet{mkNet("0.0.0.0/0", L(0))}, "only-v4-default"
	case 3:
		return []subnet{mkNet("0.0.0.0/0", L(0)), mkNet("::/0", L(1))}, "both-defaults"
	case 4:
		return []subnet{mkNet("10.0.0.0/8", L(0)), mkNet("10.1.0.0/16", L(1)), mkNet("10.1.2.0/24", L(2)),
			mkNet("10.1.2.128/25", L(3)), mkNet("10.1.2.3/32", L(4))}, "v4-nested"
	case 5:
		return []subnet{mkNet("10.0.0.0/24", L(0)), mkNet("10.0.1.0/24", L(1)), mkNet("10.0.2.0/23", L(2)),
			mkNet("0.0.0.0/0", L(3))}, "v4-adjacent+default"
	case 6:
		return []subnet{mkNet("2001:db8::/32", L(0)), mkNet("2001:db8:1::/48", L(1)), mkNet("2001:db8:1:100::/56", L(2)),
			mkNet("2001:db8:1:101::/64", L(3)), mkNet("2001:db8:1:101::1/128", L(4))}, "v6-nested"
	case 7:
		return []subnet{mkNet("2001:db8::/48", L(0)), mkNet("2001:db8:0:1::/64", L(1)), mkNet("2001:db8:1::/48", L(2)),
			mkNet("::/0", L(3)), mkNet("10.0.0.0/8", L(4))}, "v6-adjacent+default+v4"
	case 8:
		return []subnet{mkNet("10.0.0.0/8", L(0)), mkNet("10.1.0.0/16", L(1)), mkNet("2001:db8::/32", L(2)),
			mkNet("2001:db8:1::/48", L(3)), mkNet("0.0.0.0/0", L(4)), mkNet("::/0", L(5))}, "mixed+defaults"
	case 9:
		return []subnet{mkNet("192.0.2.0/25", L(0)), mkNet("192.0.2.128/25", L(1)), mkNet("192.0.2.0/24", L(2)),
			mkNet("::/0", L(3))}, "v4-split+v6-default"
	case 10:
		return []subnet{mkNet("0.0.0.0/1", L(0)), mkNet("128.0.0.0/1", L(1)), mkNet("8000::/1", L(2))}, "halves"
	case 11:
		// IPv6 subnets that contain the v4-mapped block without being ::/0
		return []subnet{mkNet("::/1", L(0)), mkNet("2001:db8::/32", L(1)), mkNet("10.0.0.0/8", L(2)),
			mkNet("::ffff:0:0/90", L(3))}, "v6-over-v4block"
	case 12:
		// nested subnets that lead to the same location
		return []subnet{mkNet("10.0.0.0/8", L(0)), mkNet("10.1.0.0/16", L(0)), mkNet("10.1.2.0/24", L(0)),
			mkNet("10.2.0.0/16", L(1)), mkNet("0.0.0.0/0", L(2))}, "v4-nested-sameloc"
	case 13:
		return []subnet{mkNet("2001:db8::/32", L(0)), mkNet("2001:db8:1::/48", L(0)), mkNet("2001:db8:1:2::/64", L(0)),
			mkNet("2001:db8:2::/48", L(1)), mkNet("::/0", L(2))}, "v6-nested-sameloc"
	case 14:
		// default routes with the same location as a nested subnet
		return []subnet{mkNet("0.0.0.0/0", L(0)), mkNet("10.0.0.0/8", L(0)), mkNet("::/0", L(0)),
			mkNet("2001:db8::/32", L(0)), mkNet("192.0.2.0/24", L(1))}, "default-sameloc"
	case 15:
		// adjacent siblings with one location, inside a parent with the same / another location
		return []subnet{mkNet("10.0.0.0/24", L(0)), mkNet("10.0.1.0/24", L(0)), mkNet("10.0.0.0/16", L(0)),
			mkNet("2001:db8::/48", L(1)), mkNet("2001:db8:1::/48", L(1)), mkNet("2001:db8::/32", L(2))}, "siblings-sameloc"
	default:
		// random laminar family
		var res []subnet
		seen := map[string]bool{}
		n := 1 + r.Intn(6)
		for i := 0; i < n; i++ {
			var a ip16
			var l int
			if r.Chance(1, 2) {
				a = mustIP(fmt.Sprintf("%d.%d.%d.%d", []int{10, 10, 172, 192}[r.Intn(4)], r.Intn(3), r.Intn(3), r.Intn(256)))
				l = 96 + []int{0, 1, 7, 8, 9, 15, 16, 23, 24, 25, 31, 32}[r.Intn(12)]
			} else {
				a = mustIP(fmt.Sprintf("2001:db8:%x:%x::%x", r.Intn(3), r.Intn(3)<<8, r.Intn(3)))
				l = []int{0, 1, 16, 32, 47, 48, 49, 56, 64, 96, 127, 128}[r.Intn(12)]
			}
			a = maskTo(a, l)
			key := fmt.Sprintf("%x/%d", a, l)
			if seen[key] {
				continue
			}
			seen[key] = true
			res = append(res, subnet{A: hlib.Ints(a[:]), L: l, Loc: L(len(res))})
		}
		return res, "random"
	}
}

func genConfig(r *hlib.Rng, idx int) *config {
	c := &config{Nets: map[int][]subnet{}}
	// map ids: ECS maps 0x6500+i, resolver maps 0x6d00+i
	E := func(i int) int { return 0x6501 + i }
	M := func(i int) int { return 0x6d01 + i }
	const nShapes = 16
	nNames := nShapes + 4
	// resolver maps
	c.Nets[M(0)] = []subnet{mkNet("0.0.0.0/0", 0x0001), mkNet("::/0", 0x0001), mkNet("198.51.100.0/24", 0x0002), mkNet("2001:db8:53::/48", 0x0003)}
	c.Nets[M(1)] = []subnet{mkNet("198.51.100.0/24", 0x0002), mkNet("2001:db8:53::/48", 0x0003)} // other resolvers: no location
	c.Nets[M(2)] = []subnet{mkNet("0.0.0.0/0", 0x0001), mkNet("2001:db8:53::/48", 0x0003)}      // single default route
	c.Nets[M(3)] = []subnet{mkNet("::/0", 0x0001), mkNet("198.51.100.128/25", 0x0002)}
	var kinds []string
	recs := map[string]map[int]bool{}
	addRecs := func(name string, ids ...int) {
		if recs[name] == nil {
			recs[name] = map[int]bool{}
		}
		for _, id := range ids {
			for _, n := range c.Nets[id] {
				recs[name][n.Loc] = true
			}
		}
	}
	for i := 0; i < nNames; i++ {
		shape := i
		if i >= nShapes {
			shape = 99
		}
		ns, k := netShape(r, shape, 0x0100*(i+1)+1)
		c.Nets[E(i)] = ns
		kinds = append(kinds, k)
		name := fmt.Sprintf("s%d.z.test.", i)
		m := M((i + idx) % 4)
		c.Maps = append(c.Maps, mapdef{"8", name, false, E(i)}, mapdef{"M", name, false, m})
		c.Names = append(c.Names, name)
		addRecs(strings.TrimSuffix(name, "."), E(i), m)
	}
	c.Kind = fmt.Sprintf("cfg%d", idx)
	eEmpty := E(nNames)
	c.Nets[eEmpty] = nil
	c.Maps = append(c.Maps,
		mapdef{"8", "w.z.test.", true, E(4)}, mapdef{"M", "w.z.test.", true, M(0)},
		mapdef{"8", "x.w.z.test.", false, E(6)}, // exact beats the wildcard
		mapdef{"8", "n8.z.test.", false, eEmpty}, mapdef{"M", "n8.z.test.", false, M(0)},
		mapdef{"M", "no8.z.test.", false, M(0)},
		mapdef{"8", "onlye.z.test.", false, E(8)},
		mapdef{"8", "out.other.", false, E(4)}, mapdef{"M", "out.other.", false, M(0)}, // maps for a name we do not serve
	)
	c.Names = append(c.Names, "q.w.z.test.", "x.w.z.test.", "y.x.w.z.test.", "n8.z.test.", "no8.z.test.", "nomap.z.test.", "onlye.z.test.")
	// the unnamed map \000\000 (legacy '%lo,prefix' lines without map id): every
	// lookup of a name without '8' / 'M' line goes there.  One family has a catch-all,
	// the other does not, alternating with the configuration
	if idx%2 == 0 {
		c.Nets[0] = []subnet{mkNet("0.0.0.0/0", 0x7501), mkNet("10.0.0.0/8", 0x7502), mkNet("10.1.0.0/16", 0x7503),
			mkNet("2001:db8::/32", 0x7504), mkNet("198.51.100.0/24", 0x7505)}
	} else {
		c.Nets[0] = []subnet{mkNet("::/0", 0x7501), mkNet("2001:db8::/32", 0x7502), mkNet("2001:db8:53::/48", 0x7503),
			mkNet("10.0.0.0/8", 0x7504), mkNet("203.0.113.0/24", 0x7505)}
	}
	// names without '8' map: 'M' map only (u1), no map at all (u2)
	c.Maps = append(c.Maps, mapdef{"M", "u1.z.test.", false, M(2)})
	c.Names = append(c.Names, "u1.z.test.", "u2.z.test.")
	addRecs("u1.z.test", 0, M(2))
	addRecs("u2.z.test", 0)
	addRecs("no8.z.test", 0)
	addRecs("nomap.z.test", 0)
	addRecs("onlye.z.test", 0)
	addRecs("n8.z.test", 0)
	// map isolation: assigned maps WITHOUT any subnet (odd i) between neighbours in key
	// order (ids p1 < p2 < ... differ in the last byte) whose range points end non-null
	// (::/0, a subnet reaching the top of the address space) or begin at the bottom
	P := func(i int) int { return 0x7001 + i }
	edge := []string{"::/0", "0.0.0.0/0", "ffff::/16", "ff00::/8", "::/96", "0.0.0.0/8", "255.0.0.0/8", "::/8", "8000::/1",
		"255.255.255.255/32", "ffff:ffff:ffff:ffff:ffff:ffff:ffff:ffff/128"}
	fixed := [][]string{{"::/0", "0.0.0.0/0"}, nil, {"ffff::/16", "::/8", "0.0.0.0/8"}, nil, {"::/0", "ffff::/16"}, nil, {"::/96", "0.0.0.0/8", "255.0.0.0/8"}}
	for i := 0; i < 7; i++ {
		var ns []subnet
		if i%2 == 0 {
			cidrs := fixed[i]
			if idx > 0 {
				cidrs = nil
				seen := map[string]bool{}
				for n := 1 + r.Intn(3); n > 0; n-- {
					x := edge[r.Intn(len(edge))]
					if !seen[x] {
						seen[x] = true
						cidrs = append(cidrs, x)
					}
				}
			}
			for k, x := range cidrs {
				ns = append(ns, mkNet(x, 0x7000+0x10*(i+1)+k))
			}
		}
		c.Nets[P(i)] = ns
	}
	c.Nets[M(4)] = nil // a resolver map without subnets right after M(3), which ends with ::/0
	pM := []int{M(0), M(0), M(1), M(4), M(3), M(1), M(4)}
	for i := 0; i < 7; i++ {
		name := fmt.Sprintf("p%d.z.test.", i)
		c.Maps = append(c.Maps, mapdef{"8", name, false, P(i)}, mapdef{"M", name, false, pM[i]})
		c.Names = append(c.Names, name)
		// records for the locations of every neighbour, so that a foreign location would show in the answer
		addRecs(strings.TrimSuffix(name, "."), P(0), P(2), P(4), P(6), M(0), M(1), M(3))
	}
	addRecs("*.w.z.test", E(4), E(6), M(0))
	addRecs("x.w.z.test", E(6), M(0))
	addRecs("n8.z.test", M(0))
	addRecs("no8.z.test", M(0))
	addRecs("nomap.z.test", M(0))
	addRecs("onlye.z.test", E(8))

	var sb strings.Builder
	ids := make([]int, 0, len(c.Nets))
	for id := range c.Nets {
		ids = append(ids, id)
	}
	sort.Ints(ids)
	for _, id := range ids {
		for _, n := range c.Nets[id] {
			if id == 0 {
				fmt.Fprintf(&sb, "%%%s,%s\n", oct2(n.Loc), cidrText(un16(n.A), n.L))
				continue
			}
			fmt.Fprintf(&sb, "%%%s,%s,%s\n", oct2(n.Loc), cidrText(un16(n.A), n.L), oct2(id))
		}
	}
	for _, m := range c.Maps {
		nm := strings.TrimSuffix(m.Name, ".")
		if m.Wild {
			nm = "*." + nm
		}
		fmt.Fprintf(&sb, "%s%s,%s\n", m.K, nm, oct2(m.ID))
	}
	sb.WriteString("Zz.test,a.ns.z.test,dns.z.test,123,7200,1800,604800,120,120,,\n")
	sb.WriteString("&z.test,,a.ns.z.test,172800,,\n")
	sb.WriteString("+a.ns.z.test,192.0.2.53,172800,,\n")
	var rn []string
	for nm := range recs {
		rn = append(rn, nm)
	}
	sort.Strings(rn)
	for _, nm := range rn {
		var ls []int
		for l := range recs[nm] {
			ls = append(ls, l)
		}
		sort.Ints(ls)
		for _, l := range ls {
			fmt.Fprintf(&sb, "+%s,77.0.%d.%d,60,,%s\n", nm, (l>>8)&0xff, l&0xff, oct2(l))
		}
	}
	c.Text = sb.String()
	return c
}

// declared rule for the map of a name: exact entry, then the wildcard entry of the
// nearest enclosing parent (the name itself excluded)
func chooseMap(maps []mapdef, k string, name string) int {
	for _, m := range maps {
		if m.K == k && !m.Wild && m.Name == name {
			return m.ID
		}
	}
	labels := dns.SplitDomainName(name)
	for i := 1; i <= len(labels); i++ {
		parent := "."
		if i < len(labels) {
			parent = strings.Join(labels[i:], ".") + "."
		}
		for _, m := range maps {
			if m.K == k && m.Wild && m.Name == parent {
				return m.ID
			}
		}
	}
	return 0
}

// independent oracle: longest declared subnet of the client's family that
// contains the client prefix's address and is not longer than the prefix
func lpmOracle(nets []subnet, a ip16, plen int, v4client bool) oracle {
	best := oracle{}
	for _, n := range nets {
		na := un16(n.A)
		nv4 := isV4(na) && n.L >= 96
		if nv4 != v4client {
			continue
		}
		if n.L > plen {
			continue
		}
		if maskTo(a, n.L) != na {
			continue
		}
		if !best.Found || n.L > best.Len {
			best = oracle{true, n.L, n.Loc}
		}
	}
	return best
}

// ---------------------------------------------------------------- backends

type counter struct{ hits int }

func (s *counter) ResetCounterTo(key string, value int64)    {}
func (s *counter) ResetCounter(key string)                   {}
func (s *counter) IncrementCounterBy(key string, v int64)    {}
func (s *counter) AddSample(key string, value int64)         {}
func (s *counter) IncrementCounter(key string) {
	if key == "DNS_cache.hit" {
		s.hits++
	}
}

type backend struct {
	name   string
	plain  *dnsserver.FBDNSDB
	cached *dnsserver.FBDNSDB
	st     *counter
}

func buildBackends(dir string, text string) ([]*backend, error) {
	in := filepath.Join(dir, "data.in")
	if err := os.WriteFile(in, []byte(text), 0o644); err != nil {
		return nil, err
	}
	type spec struct{ name, path, driver string }
	var specs []spec
	cdbPath := filepath.Join(dir, "data.cdb")
	if _, err := cdb.CreateCDB(in, cdbPath, nil); err != nil {
		return nil, fmt.Errorf("cdb compile: %w", err)
	}
	specs = append(specs, spec{"cdb", cdbPath, "cdb"})
	for _, v2 := range []bool{false, true} {
		name := "v1"
		if v2 {
			name = "v2"
		}
		p := filepath.Join(dir, "rdb-"+name)
		os.RemoveAll(p)
		if err := os.MkdirAll(p, 0o755); err != nil {
			return nil, err
		}
		if _, err := rdb.CompileToSpecificRDBVersion(in, p, rdb.CompilationOptions{UseV2KeySyntax: v2, UseBuilder: true}); err != nil {
			return nil, fmt.Errorf("rdb compile %s: %w", name, err)
		}
		specs = append(specs, spec{name, p, "rocksdb"})
	}
	var res []*backend
	for _, s := range specs {
		b := &backend{name: s.name, st: &counter{}}
		for _, cache := range []bool{false, true} {
			h, err := dnsserver.NewFBDNSDBBasic(dnsserver.HandlerConfig{}, dnsserver.DBConfig{Path: s.path, Driver: s.driver},
				dnsserver.CacheConfig{Enabled: cache, LRUSize: 4096}, &dnsserver.DummyLogger{}, b.st)
			if err != nil {
				return nil, err
			}
			if err := h.Load(); err != nil {
				return nil, fmt.Errorf("load %s: %w", s.name, err)
			}
			if cache {
				b.cached = h
			} else {
				b.plain = h
			}
		}
		res = append(res, b)
	}
	return res, nil
}

func (b *backend) close() {
	for _, h := range []*dnsserver.FBDNSDB{b.plain, b.cached} {
		if h != nil {
			func() {
				defer func() { recover() }()
				h.Close()
			}()
		}
	}
}

// ---------------------------------------------------------------- queries

// ecsData is the option data of an ECS option exactly as given
func ecsData(o qopt) []byte {
	b := []byte{byte(o.Fam >> 8), byte(o.Fam), byte(o.Src), byte(o.Scope)}
	return append(b, hlib.Unints(o.Addr)...)
}

func buildWire(q query) ([]byte, error) {
	m := new(dns.Msg)
	m.SetQuestion(q.Name, dns.TypeA)
	m.Id = 0x1234
	m.RecursionDesired = false
	if q.HasOp {
		o := new(dns.OPT)
		o.Hdr.Name = "."
		o.Hdr.Rrtype = dns.TypeOPT
		o.SetUDPSize(uint16(q.UDP))
		o.SetVersion(uint8(q.Ver))
		if q.Do {
			o.SetDo()
		}
		for _, op := range q.Opts {
			var data []byte
			if op.IsECS {
				data = ecsData(op)
			} else {
				data = hlib.Unints(op.Data)
			}
			// EDNS0_LOCAL packs any code with raw data; on unpack code 8 becomes EDNS0_SUBNET
			o.Option = append(o.Option, &dns.EDNS0_LOCAL{Code: uint16(op.Code), Data: append([]byte{}, data...)})
		}
		m.Extra = append(m.Extra, o)
	}
	return m.Pack()
}

func ecsObs(e *dns.EDNS0_SUBNET) *obsECS {
	o := &obsECS{Fam: int(e.Family), Src: int(e.SourceNetmask), Scope: int(e.SourceScope), Addr: []int{}}
	if a := e.Address.To16(); a != nil {
		o.Addr = hlib.Ints(a)
	}
	return o
}

func optView(m *dns.Msg) (present bool, n int, ver int, do bool, udp int, codes []int, ecs *obsECS) {
	codes = []int{}
	for _, rr := range m.Extra {
		if _, ok := rr.(*dns.OPT); ok {
			n++
		}
	}
	o := m.IsEdns0()
	if o == nil {
		return
	}
	present = true
	ver = int(o.Version())
	do = o.Do()
	udp = int(o.UDPSize())
	for _, op := range o.Option {
		codes = append(codes, int(op.Option()))
		if e, ok := op.(*dns.EDNS0_SUBNET); ok && ecs == nil {
			ecs = ecsObs(e)
		}
	}
	return
}

func serve(h *dnsserver.FBDNSDB, wire []byte, rip ip16) *obs {
	o := &obs{AnsLoc: -1, Codes: []int{}, WCodes: []int{}}
	req := new(dns.Msg)
	if err := req.Unpack(append([]byte{}, wire...)); err != nil {
		o.HErr = "harness: " + err.Error()
		return o
	}
	w := &test.ResponseWriterCustomRemote{RemoteIP: ipText(rip)}
	rec := dnstest.NewRecorder(w)
	func() {
		defer func() {
			if e := recover(); e != nil {
				o.Panic = fmt.Sprint(e)
			}
		}()
		rc, err := h.ServeDNSWithRCODE(dnsserver.WithMaxAnswer(context.Background(), 1), rec, req)
		o.RetCode = rc
		if err != nil {
			o.HErr = err.Error()
		}
	}()
	o.Writes = int(w.GetWriteMsgCallCount())
	if rec.Msg == nil || o.Writes == 0 {
		return o
	}
	resp := rec.Msg
	o.Reply = true
	o.Rcode = resp.Rcode
	o.Opt, o.NOpt, o.Ver, o.Do, o.UDP, o.Codes, o.ECS = optView(resp)
	o.NAns = len(resp.Answer)
	for _, rr := range resp.Answer {
		if a, ok := rr.(*dns.A); ok {
			ip := a.A.To4()
			if ip != nil && ip[0] == 77 {
				o.AnsLoc = int(ip[2])<<8 | int(ip[3])
			}
			break
		}
	}
	buf, err := resp.Pack()
	if err != nil {
		o.WireErr = "pack: " + err.Error()
		return o
	}
	back := new(dns.Msg)
	if err := back.Unpack(buf); err != nil {
		o.WireErr = "unpack: " + err.Error()
		return o
	}
	o.WireOK = true
	o.WRcode = back.Rcode
	o.WOpt, _, _, _, _, o.WCodes, o.WECS = optView(back)
	return o
}

func readerDiag(h *dnsserver.FBDNSDB, wire []byte, rip ip16) (e *rdiag, r *rdiag) {
	defer func() { recover() }()
	req := new(dns.Msg)
	if err := req.Unpack(append([]byte{}, wire...)); err != nil {
		return nil, nil
	}
	rd, err := db.NewReader(h.DBForVerif())
	if err != nil {
		return nil, nil
	}
	defer rd.Close()
	buf := make([]byte, 255)
	off, err := dns.PackDomainName(strings.ToLower(req.Question[0].Name), buf, 0, nil, false)
	if err != nil {
		return nil, nil
	}
	name := buf[:off]
	conv := func(loc *db.Location, err error) *rdiag {
		d := &rdiag{}
		switch {
		case err != nil:
			d.St = "err"
		case loc == nil:
			d.St = "nil"
		default:
			d.St = "loc"
			d.Map = int(loc.MapID[0])<<8 | int(loc.MapID[1])
			d.Loc = int(loc.LocID[0])<<8 | int(loc.LocID[1])
			d.Mask = int(loc.Mask)
		}
		return d
	}
	if ecs := db.FindECS(req); ecs != nil {
		loc, err := rd.EcsLocation(append([]byte{}, name...), ecs)
		e = conv(loc, err)
		e.Scope = int(ecs.SourceScope)
	}
	loc, err := rd.ResolverLocation(append([]byte{}, name...), ipText(rip))
	r = conv(loc, err)
	return
}

// ---------------------------------------------------------------- query generation

var resolvers = []string{"198.51.100.7", "198.51.100.200", "203.0.113.9", "2001:db8:53::1", "2001:db8:99::1", "10.1.2.3", "2001:dba::1", "192.0.2.77"}

func addrBytesFor(fam int, a ip16, src int, style int, r *hlib.Rng) []int {
	var full []byte
	if fam == 2 {
		full = a[:]
	} else {
		full = a[12:16]
	}
	need := (src + 7) / 8
	if need > len(full) {
		need = len(full)
	}
	switch style {
	case 1: // full-length address field (host bits beyond the last needed octet are kept by the parser)
		return hlib.Ints(full)
	case 2: // one octet short
		if need > 0 {
			return hlib.Ints(full[:need-1])
		}
		return []int{}
	case 3: // trailing garbage beyond the address size
		return append(hlib.Ints(full), 0xde, 0xad)
	default:
		return hlib.Ints(full[:need])
	}
}

// candidate client addresses for a subnet set
func critical(r *hlib.Rng, nets []subnet, v4 bool) ip16 {
	var pool []ip16
	for _, n := range nets {
		na := un16(n.A)
		if (isV4(na) && n.L >= 96) != v4 {
			continue
		}
		last := lastOf(na, n.L)
		pool = append(pool, na, last, inc(last), dec(na))
		// interior
		x := na
		for i := 0; i < 16; i++ {
			x[i] |= byte(r.U64()) & ^maskByte(n.L, i)
		}
		pool = append(pool, x)
	}
	if len(pool) == 0 || r.Chance(1, 5) {
		if v4 {
			return mustIP([]string{"10.1.2.3", "10.1.2.200", "10.0.1.77", "192.0.2.129", "172.16.5.4", "0.0.0.0", "255.255.255.255", "127.0.0.1", "200.1.2.3"}[r.Intn(9)])
		}
		return mustIP([]string{"2001:db8:1:101::1", "2001:db8:1:101::2", "2001:db8:0:1::5", "2001:db8:2::1", "::", "::1", "ffff:ffff:ffff:ffff:ffff:ffff:ffff:ffff", "8000::1", "fe80::1", "::1:0:0:0", "::fffe:ffff:ffff"}[r.Intn(11)])
	}
	a := pool[r.Intn(len(pool))]
	if v4 && !isV4(a) {
		// inc/dec left the IPv4 block
		return mustIP("10.1.2.3")
	}
	if !v4 && isV4(a) {
		return mustIP("2001:db8::1")
	}
	return a
}

func maskByte(l, i int) byte {
	bitsLeft := l - 8*i
	switch {
	case bitsLeft >= 8:
		return 0xff
	case bitsLeft <= 0:
		return 0
	default:
		return byte(0xff << (8 - uint(bitsLeft)))
	}
}

var otherOpts = []qopt{
	{Code: 10, Data: []int{1, 2, 3, 4, 5, 6, 7, 8}}, // cookie
	{Code: 3, Data: []int{}},                         // NSID
	{Code: 12, Data: []int{0, 0, 0}},                 // padding
	{Code: 65001, Data: []int{9, 9}},                 // local / unknown
	{Code: 15, Data: []int{0, 1}},                    // EDE
	{Code: 11, Data: []int{}},                        // tcp keepalive
}

func genQuery(r *hlib.Rng, c *config) (query, string) {
	q := query{UDP: []int{512, 1232, 4096, 0, 65535}[r.Intn(5)]}
	name := c.Names[r.Intn(len(c.Names))]
	class := ""
	if r.Chance(1, 8) {
		name = outNames[r.Intn(len(outNames))]
		class = "refused/"
	}
	if r.Chance(1, 10) {
		name = strings.ToUpper(name[:1]) + name[1:]
	}
	q.Name = name
	q.RIP = hlib.Ints(func() []byte { a := mustIP(resolvers[r.Intn(len(resolvers))]); return a[:] }())
	lname := strings.ToLower(name)
	m8 := chooseMap(c.Maps, "8", lname)
	nets := c.Nets[m8]

	kind := r.Pick([]int{1, 2, 8, 8, 2, 3, 1, 2, 1})
	addOthers := func() {
		for r.Chance(1, 3) && len(q.Opts) < 4 {
			q.Opts = append(q.Opts, otherOpts[r.Intn(len(otherOpts))])
		}
	}
	mkECS := func(fam int, a ip16, src int) qopt {
		style := r.Pick([]int{6, 2, 1, 1})
		scope := 0
		if r.Chance(1, 3) {
			if fam == 1 {
				scope = r.Intn(33)
			} else {
				scope = r.Intn(129)
			}
		}
		if !r.Chance(1, 3) {
			// clean: host bits cleared
			if fam == 2 {
				a = maskTo(a, src)
			} else {
				a = maskTo(a, src+96)
			}
		}
		return qopt{Code: 8, IsECS: true, Fam: fam, Src: src, Scope: scope, Addr: addrBytesFor(fam, a, src, style, r), Data: []int{}}
	}
	srcFor := func(fam int, a ip16) int {
		if r.Chance(1, 2) && len(nets) > 0 {
			n := nets[r.Intn(len(nets))]
			l := n.L
			if fam != 2 {
				l -= 96
			}
			l += []int{-1, 0, 1, 0}[r.Intn(4)]
			max := 128
			if fam != 2 {
				max = 32
			}
			if l >= 0 && l <= max {
				return l
			}
		}
		if fam == 2 {
			return []int{0, 1, 32, 47, 48, 49, 56, 64, 96, 120, 127, 128}[r.Intn(12)]
		}
		return []int{0, 1, 8, 16, 23, 24, 25, 31, 32}[r.Intn(9)]
	}
	switch kind {
	case 0:
		class += "noopt"
	case 1:
		class += "opt-noecs"
		q.HasOp = true
		addOthers()
	case 2:
		class += "ecs1"
		q.HasOp = true
		addOthers()
		a := critical(r, nets, true)
		q.Opts = append(q.Opts, mkECS(1, a, srcFor(1, a)))
		addOthers()
	case 3:
		class += "ecs2"
		q.HasOp = true
		addOthers()
		a := critical(r, nets, false)
		q.Opts = append(q.Opts, mkECS(2, a, srcFor(2, a)))
		addOthers()
	case 4:
		class += "ecs0"
		q.HasOp = true
		if class == "ecs0" && r.Chance(1, 2) {
			// a name whose '8' map declares 0.0.0.0/0
			q.Name = []string{"s2.z.test.", "s3.z.test.", "s5.z.test.", "s8.z.test."}[r.Intn(4)]
		}
		o := qopt{Code: 8, IsECS: true, Fam: 0, Src: 0, Scope: r.Intn(3) * 7, Addr: []int{}, Data: []int{}}
		if r.Chance(1, 4) {
			o.Addr = []int{1, 2, 3, 4}
		}
		q.Opts = append(q.Opts, o)
		addOthers()
	case 5:
		class += "ecs2-v4mapped"
		q.HasOp = true
		a := critical(r, nets, true)
		src := []int{0, 64, 80, 95, 96, 97, 104, 112, 119, 120, 121, 127, 128}[r.Intn(13)]
		if r.Chance(1, 2) && len(nets) > 0 {
			// around the length of a declared subnet (128-bit terms)
			if l := nets[r.Intn(len(nets))].L + []int{-1, 0, 1}[r.Intn(3)]; l >= 0 && l <= 128 {
				src = l
			}
		}
		q.Opts = append(q.Opts, mkECS(2, a, src))
		addOthers()
	case 6:
		class += "two-ecs"
		q.HasOp = true
		a := critical(r, nets, true)
		b := critical(r, nets, false)
		q.Opts = append(q.Opts, mkECS(1, a, srcFor(1, a)), mkECS(2, b, srcFor(2, b)))
		if r.Chance(1, 2) {
			q.Opts[0], q.Opts[1] = q.Opts[1], q.Opts[0]
		}
	case 7:
		class += "badvers"
		q.HasOp = true
		q.Ver = 1 + r.Intn(3)
		if r.Chance(2, 3) {
			a := critical(r, nets, true)
			q.Opts = append(q.Opts, mkECS(1, a, srcFor(1, a)))
		}
		addOthers()
	default:
		class += "malformed"
		q.HasOp = true
		switch r.Intn(5) {
		case 0:
			q.Opts = append(q.Opts, qopt{Code: 8, IsECS: true, Fam: 3 + r.Intn(3), Src: 8, Addr: []int{10}, Data: []int{}})
		case 1:
			q.Opts = append(q.Opts, qopt{Code: 8, IsECS: true, Fam: 0, Src: 8, Addr: []int{10}, Data: []int{}})
		case 2:
			q.Opts = append(q.Opts, qopt{Code: 8, IsECS: true, Fam: 1, Src: 33 + r.Intn(100), Addr: []int{10, 1, 2, 3}, Data: []int{}})
		case 3:
			q.Opts = append(q.Opts, qopt{Code: 8, IsECS: true, Fam: 1, Src: 24, Scope: 33 + r.Intn(100), Addr: []int{10, 1, 2}, Data: []int{}})
		default:
			q.Opts = append(q.Opts, qopt{Code: 8, IsECS: true, Fam: 2, Src: 129 + r.Intn(100), Addr: []int{0x20, 1}, Data: []int{}})
		}
	}
	if q.HasOp && r.Chance(1, 3) {
		q.Do = true
	}
	return q, class
}

// ---------------------------------------------------------------- running

func runQuery(emit func(c10case), c *config, cfgIdx int, bks []*backend, q query, class string, withCache bool, file string) {
	for i := range q.Opts {
		if q.Opts[i].Addr == nil {
			q.Opts[i].Addr = []int{}
		}
		if q.Opts[i].Data == nil {
			q.Opts[i].Data = []int{}
		}
	}
	if q.Opts == nil {
		q.Opts = []qopt{}
	}
	base := c10case{Class: class, Cfg: cfgIdx, CfgKind: c.Kind, Maps: c.Maps, Nets: map[string][]subnet{}, Q: q, File: file}
	lname := strings.ToLower(q.Name)
	base.Map8 = chooseMap(c.Maps, "8", lname)
	base.MapM = chooseMap(c.Maps, "M", lname)
	base.InZone = dns.IsSubDomain(zone, lname)
	for _, id := range []int{base.Map8, base.MapM} {
		ns := c.Nets[id]
		if ns == nil {
			ns = []subnet{}
		}
		base.Nets[fmt.Sprint(id)] = ns
	}
	rip := un16(q.RIP)
	wire, err := buildWire(q)
	if err != nil {
		base.PErr = "pack: " + err.Error()
		base.Backend = "none"
		base.Mode = "none"
		emit(base)
		return
	}
	probe := new(dns.Msg)
	if err := probe.Unpack(append([]byte{}, wire...)); err != nil {
		base.PErr = err.Error()
		base.Backend = "none"
		base.Mode = "none"
		emit(base)
		return
	}
	base.Parsed = true
	if o := probe.IsEdns0(); o != nil {
		for _, op := range o.Option {
			if s, ok := op.(*dns.EDNS0_SUBNET); ok {
				base.NSeen++
				if base.Seen == nil {
					a := s.Address.To16()
					base.Seen = &seenECS{Fam: int(s.Family), Src: int(s.SourceNetmask), Scope: int(s.SourceScope), Addr: hlib.Ints(a)}
				}
			}
		}
	}
	// oracles
	if base.Seen != nil {
		a := un16(base.Seen.Addr)
		switch base.Seen.Fam {
		case 1:
			base.OrE = lpmOracle(c.Nets[base.Map8], a, base.Seen.Src+96, true)
		case 2:
			// a family 2 client is a 128-bit prefix; a v4-mapped address disclosed
			// with at least the 96 prefix bits is an IPv4 client, with fewer bits
			// it is an IPv6 prefix that merely covers the v4-mapped block
			base.OrE = lpmOracle(c.Nets[base.Map8], a, base.Seen.Src, isV4(a) && base.Seen.Src >= 96)
		default:
			// no address family: nothing to look up
			base.OrE = oracle{}
		}
	}
	if isV4(rip) {
		base.OrR = lpmOracle(c.Nets[base.MapM], rip, 128, true)
	} else {
		base.OrR = lpmOracle(c.Nets[base.MapM], rip, 128, false)
	}
	for _, b := range bks {
		type run struct {
			mode string
			h    *dnsserver.FBDNSDB
		}
		runs := []run{{"nocache", b.plain}}
		if withCache {
			runs = append(runs, run{"cache1", b.cached}, run{"cache2", b.cached})
		}
		for _, rn := range runs {
			cs := base
			cs.Backend = b.name
			cs.Mode = rn.mode
			before := b.st.hits
			cs.O = serve(rn.h, wire, rip)
			cs.Hit = b.st.hits > before
			cs.RdE, cs.RdR = readerDiag(rn.h, wire, rip)
			emit(cs)
		}
	}
}

func run(a *hlib.Args, e *hlib.Emitter) error {
	dir := a.Scratch
	if dir == "" {
		d, err := os.MkdirTemp("/var/tmp", "c10-")
		if err != nil {
			return err
		}
		dir = d
		defer os.RemoveAll(d)
	}
	work := filepath.Join(dir, fmt.Sprintf("c10-%d", os.Getpid()))
	if err := os.MkdirAll(work, 0o755); err != nil {
		return err
	}
	defer os.RemoveAll(work)

	if a.Replay != "" {
		return replay(a, e, work)
	}
	r := hlib.NewRng(a.Seed, 10)
	// a.N is the approximate number of emitted cases
	nCfg := 1
	if a.Tier == "thorough" {
		nCfg = 12
	}
	perCfg := a.N / nCfg / 5
	if perCfg < 4 {
		perCfg = 4
	}
	for ci := 0; ci < nCfg; ci++ {
		c := genConfig(r, ci)
		cdir := filepath.Join(work, fmt.Sprintf("cfg%d", ci))
		os.MkdirAll(cdir, 0o755)
		bks, err := buildBackends(cdir, c.Text)
		if err != nil {
			return fmt.Errorf("config %d (%s): %w\n%s", ci, c.Kind, err, c.Text)
		}
		for qi := 0; qi < perCfg; qi++ {
			q, class := genQuery(r, c)
			runQuery(func(x c10case) { e.Emit(x) }, c, ci, bks, q, class, qi%3 == 0, c.Text)
		}
		// systematic pass: for the nested shapes, a client inside every declared subnet
		// at source lengths len, len+8 and the maximum (scope must be the length of
		// the longest declared subnet, also when the enclosing one has the same location)
		k := 0
		for _, i := range []int{4, 6, 12, 13, 14, 15} {
			name := fmt.Sprintf("s%d.z.test.", i)
			for _, n := range c.Nets[chooseMap(c.Maps, "8", name)] {
				na := un16(n.A)
				v4 := isV4(na) && n.L >= 96
				max, fam, off := 128, 2, 0
				if v4 {
					max, fam, off = 32, 1, 96
				}
				for _, l := range []int{n.L - off, n.L - off + 8, max} {
					if l > max {
						continue
					}
					a := na
					for j := 0; j < 16; j++ { // interior address
						a[j] |= byte(r.U64()) & ^maskByte(n.L, j)
					}
					a = maskTo(a, l+off)
					q := query{Name: name, UDP: 1232, HasOp: true,
						RIP: hlib.Ints(func() []byte { x := mustIP(resolvers[r.Intn(len(resolvers))]); return x[:] }()),
						Opts: []qopt{{Code: 8, IsECS: true, Fam: fam, Src: l, Addr: addrBytesFor(fam, a, l, 0, r), Data: []int{}}}}
					runQuery(func(x c10case) { e.Emit(x) }, c, ci, bks, q, fmt.Sprintf("inner-ecs%d", fam), k%4 == 0, c.Text)
					k++
				}
			}
		}
		// systematic pass: names WITHOUT client-subnet map ('M' map only / no map at
		// all), ECS clients inside every subnet of the unnamed map (source length len,
		// len+8, max) and outside: scope 0, the resolver decides (which itself is looked
		// up in the unnamed map when the name has no 'M' line)
		for ni, name := range []string{"no8.z.test.", "nomap.z.test.", "u1.z.test.", "u2.z.test."} {
			type cl struct {
				fam, src int
				a        ip16
			}
			var cls []cl
			for _, n := range c.Nets[0] {
				na := un16(n.A)
				v4 := isV4(na) && n.L >= 96
				max, fam, off := 128, 2, 0
				if v4 {
					max, fam, off = 32, 1, 96
				}
				for _, l := range []int{n.L - off, n.L - off + 8, max} {
					if l > max {
						continue
					}
					x := na
					for j := 0; j < 16; j++ {
						x[j] |= byte(r.U64()) & ^maskByte(n.L, j)
					}
					cls = append(cls, cl{fam, l, maskTo(x, l+off)})
				}
			}
			cls = append(cls, cl{1, 24, mustIP("192.0.2.0")}, cl{1, 7, mustIP("10.0.0.0")}, cl{2, 48, mustIP("2001:dba:1::")},
				cl{2, 16, mustIP("2001::")}, cl{2, 128, mustIP("::1")})
			for xi, x := range cls {
				if a.Tier != "thorough" && ni == 3 && xi%2 == 1 {
					continue
				}
				q := query{Name: name, UDP: 1232, HasOp: true,
					RIP:  hlib.Ints(func() []byte { y := mustIP(resolvers[k%len(resolvers)]); return y[:] }()),
					Opts: []qopt{{Code: 8, IsECS: true, Fam: x.fam, Src: x.src, Scope: (k % 3) * 5, Addr: addrBytesFor(x.fam, x.a, x.src, 0, r), Data: []int{}}}}
				runQuery(func(x c10case) { e.Emit(x) }, c, ci, bks, q, fmt.Sprintf("no8map/ecs%d", x.fam), k%5 == 0, c.Text)
				k++
			}
		}
		// systematic pass: names whose ECS (or resolver) map has no subnet at all, IPv4
		// and IPv6 clients at the bottom, the middle and the top of the address space:
		// default scope, the resolver decides; nothing of a neighbouring map leaks in
		for _, i := range []int{1, 3, 5, 6} {
			name := fmt.Sprintf("p%d.z.test.", i)
			type cl struct {
				fam, src int
				ip       string
			}
			for _, x := range []cl{{1, 24, "10.1.2.0"}, {1, 32, "0.1.2.3"}, {1, 32, "255.1.2.3"}, {1, 0, "0.0.0.0"}, {1, 8, "255.0.0.0"},
				{2, 32, "2001:db8::"}, {2, 32, "ffff:1::"}, {2, 128, "::2"}, {2, 16, "ff::"}, {2, 0, "::"},
				{2, 128, "ffff:ffff:ffff:ffff:ffff:ffff:ffff:ffff"}, {0, 0, ""}, {-1, 0, ""}} {
				q := query{Name: name, UDP: 1232, HasOp: x.fam >= 0,
					RIP: hlib.Ints(func() []byte { y := mustIP(resolvers[k%len(resolvers)]); return y[:] }())}
				class := "empty-map/noopt"
				switch {
				case x.fam == 0:
					q.Opts = []qopt{{Code: 8, IsECS: true, Fam: 0, Addr: []int{}, Data: []int{}}}
					class = "empty-map/ecs0"
				case x.fam > 0:
					a := mustIP(x.ip)
					q.Opts = []qopt{{Code: 8, IsECS: true, Fam: x.fam, Src: x.src, Addr: addrBytesFor(x.fam, a, x.src, 0, r), Data: []int{}}}
					class = fmt.Sprintf("empty-map/ecs%d", x.fam)
				}
				if a.Tier != "thorough" && i == 6 && k%2 == 0 {
					k++
					continue
				}
				runQuery(func(x c10case) { e.Emit(x) }, c, ci, bks, q, class, k%5 == 0, c.Text)
				k++
			}
		}
		for _, b := range bks {
			b.close()
		}
		os.RemoveAll(cdir)
	}
	return nil
}

func replay(a *hlib.Args, e *hlib.Emitter, work string) error {
	cases, err := hlib.ReadReplay(a.Replay)
	if err != nil {
		return err
	}
	for i, m := range cases {
		var cs c10case
		raw, _ := json.Marshal(m)
		if err := json.Unmarshal(raw, &cs); err != nil {
			return err
		}
		c := &config{Kind: cs.CfgKind, Maps: cs.Maps, Nets: map[int][]subnet{}, Text: cs.File}
		for k, v := range cs.Nets {
			var id int
			fmt.Sscan(k, &id)
			c.Nets[id] = v
		}
		cdir := filepath.Join(work, fmt.Sprintf("replay%d", i))
		os.MkdirAll(cdir, 0o755)
		bks, err := buildBackends(cdir, c.Text)
		if err != nil {
			return err
		}
		var sel []*backend
		for _, b := range bks {
			if b.name == cs.Backend || cs.Backend == "none" || cs.Backend == "" {
				sel = append(sel, b)
			}
		}
		// re-run and keep only the case of the same mode
		var got []c10case
		runQuery(func(x c10case) { got = append(got, x) }, c, cs.Cfg, sel, cs.Q, cs.Class, cs.Mode != "nocache", c.Text)
		emitted := false
		for _, got := range got {
			if got.Mode == cs.Mode && got.Backend == cs.Backend || cs.Backend == "none" {
				e.Emit(got)
				emitted = true
				break
			}
		}
		if !emitted && len(got) > 0 {
			e.Emit(got[0])
		}
		for _, b := range bks {
			b.close()
		}
		os.RemoveAll(cdir)
	}
	return nil
}

func main() { hlib.Main(run) }
