package main

import "runtime"

// numCPU is the builder's maxBucketNum (rdb_builder.go: b.createBuckets(minBucketSize, runtime.NumCPU())).
func numCPU() int { return runtime.NumCPU() }
