// C07 harness: compiles generated data files with the REAL compilers
// (rdb.CompileToSpecificRDBVersion in builder and batch mode, cdb.CreateCDB) under a
// grid of settings, reads every database back completely and compares the
// key -> multiset-of-values maps with the implementation's own codec called line
// by line in one goroutine (the deciding comparison, done here in Go and reported
// per setting).  Small cases carry the codec output and the dumps so that the Coq
// model of the pipelines and the Coq spec are evaluated on the same data.
//
// Case kinds (field kind):
//
//	compile  one data file under one codec configuration (v1 | v2 | cdb) and a list of settings
//	buckets  the builder's own sort + createBuckets on a key array (hook rdb.BucketsForVerif)
//
// Batch runs with BatchNumParallel <= 0 are made in a child process under a timeout
// (that setting once blocked for ever).
package main

import (
	"bufio"
	"bytes"
	"context"
	"encoding/json"
	"errors"
	"fmt"
	"io"
	"log"
	"os"
	"os/exec"
	"path/filepath"
	"runtime/debug"
	"strings"
	"sync"
	"sync/atomic"
	"time"

	"github.com/facebookincubator/dns/dnsrocks/dnsdata/cdb"
	"github.com/facebookincubator/dns/dnsrocks/dnsdata/rdb"

	gocdb "github.com/repustate/go-cdb"

	"verifharness/complib"
	"verifharness/hlib"
)

const serial = 1700000000
const minBucketSize = 30000 // rdb_builder.go

// tableJ: the codec on one form of one chunk of the file
type tableJ struct {
	Line []int         `json:"line"`
	Ok   bool          `json:"ok"`
	Recs []complib.JKV `json:"recs"`
}

type runJ struct {
	Mode    string           `json:"mode"` // builder | batches | cdb
	Workers int              `json:"workers"`
	BS      int              `json:"bs"`
	Par     int              `json:"par"`
	Ok      bool             `json:"ok"` // the compiler returned a nil error
	Err     string           `json:"err,omitempty"`
	Ms      int              `json:"ms"`                 // wall time of compile + read back
	NRec    int              `json:"nrec"`               // values read back
	GoSame  bool             `json:"go_same"`            // dump = reference as key -> multiset (only when ok)
	DiffKey []int            `json:"diff_key,omitempty"` // first differing key
	Dump    []complib.JEntry `json:"dump,omitempty"`     // small cases only
}

type compileCase struct {
	Kind     string        `json:"kind"`
	Class    string        `json:"class"`
	Cfg      string        `json:"cfg"`
	File     []int         `json:"file"` // input: the data file
	Small    bool          `json:"small"`
	NLines   int           `json:"nlines"`
	NRec     int           `json:"nrec"`
	AllOk    bool          `json:"all_ok"` // reference codec accepted every line
	BadLine  int           `json:"bad_line"`
	Table    []tableJ      `json:"table,omitempty"` // small cases: see lineTable
	Acc      []complib.JKV `json:"acc,omitempty"`
	Feat     []complib.JKV `json:"feat,omitempty"`
	NCPU     int           `json:"ncpu"` // runtime.NumCPU() = maxBucketNum of the builder
	Buckets  [][2]int      `json:"buckets,omitempty"`
	Straddle bool          `json:"straddle,omitempty"` // a bucket end was moved because equal keys met at the nominal boundary
	Runs     []runJ        `json:"runs"`
}

// longCase: a file with one line of about bufio.MaxScanTokenSize bytes.  The file is
// pre ++ count times the byte fill ++ post (not stored: rebuilt from these).  When a line reaches the
// scanner's buffer size the reader stops with bufio.ErrTooLong and every compiler must fail; one byte
// less and the file must compile, the long line included.
type longCase struct {
	Kind       string `json:"kind"`
	Class      string `json:"class"`
	Cfg        string `json:"cfg"`
	Pre        []int  `json:"pre"`   // input
	Fill       int    `json:"fill"`  // input
	Count      int    `json:"count"` // input: relative to the limit if Rel is set
	Post       []int  `json:"post"`  // input
	Limit      int    `json:"limit"` // bufio.MaxScanTokenSize
	LineLen    int    `json:"line_len"`
	ExpectFail bool   `json:"expect_fail"` // some line has at least Limit bytes (computed here, independently of the model)
	NRec       int    `json:"nrec"`
	Runs       []runJ `json:"runs"`
}

// readErrCase: compilation from an io.Reader that returns an error after FailAfter bytes (the public
// entry points rdb.Compile and cdb.CreateCDBFromReader take readers).  Every setting must fail.
type readErrCase struct {
	Kind      string `json:"kind"`
	Class     string `json:"class"`
	Cfg       string `json:"cfg"`
	File      []int  `json:"file"`       // input
	FailAfter int    `json:"fail_after"` // input
	Runs      []runJ `json:"runs"`
}

type bucketCase struct {
	Kind    string   `json:"kind"`
	Class   string   `json:"class"`
	Keys    [][]int  `json:"keys"` // input
	MinSize int      `json:"minsize"`
	MaxNum  int      `json:"maxnum"`
	Panic   bool     `json:"panic"`
	Sorted  [][]int  `json:"sorted"`
	Buckets [][2]int `json:"buckets"`
}

type setting struct {
	mode    string
	workers int
	bs, par int
}

func cfgOf(name string) complib.Cfg {
	switch name {
	case "cdb":
		return complib.Cfg{CDB: true, Serial: serial}
	case "v2":
		return complib.Cfg{V2: true, Serial: serial}
	}
	return complib.Cfg{Serial: serial}
}

// A Builder allocates its 20M-entry value array (about 1 GB, rdb_builder.go
// estimatedKeyCount); every garbage collection triggered by a concurrent batch
// compilation scans it, so builder runs are made alone.
var heavy sync.RWMutex

var dirSeq struct {
	sync.Mutex
	n int
}

func freshDir(scratch string) string {
	dirSeq.Lock()
	dirSeq.n++
	n := dirSeq.n
	dirSeq.Unlock()
	return filepath.Join(scratch, fmt.Sprintf("c07-%d-%d", os.Getpid(), n))
}

// compileOne runs one real compiler and reads the result back.
func compileOne(scratch, in string, cfg complib.Cfg, s setting) (err error, d complib.Dump, derr error) {
	out := freshDir(scratch)
	defer os.RemoveAll(out)
	if cfg.CDB {
		_, err = cdb.CreateCDB(in, out, &cdb.CreatorOptions{NumCPU: s.workers})
		if err != nil {
			return err, nil, nil
		}
		d, derr = complib.DumpCDB(out)
		return nil, d, derr
	}
	if e := os.MkdirAll(out, 0o755); e != nil {
		return nil, nil, e
	}
	if s.mode == "batches" && s.par <= 0 {
		// BatchNumParallel <= 0 once blocked for ever: run it in a child process under a timeout
		err = compileInChild(in, out, cfg, s)
	} else {
		o := rdb.CompilationOptions{NumCPU: s.workers, UseV2KeySyntax: cfg.V2, UseBuilder: s.mode == "builder",
			BatchNumParallel: s.par, BatchSize: s.bs}
		// a compilation that never returns (a deadlock between the parser, the batch limiter and the
		// writers) must not hang the check: it is an outcome.  The bound is far above what a compile
		// of these small files takes on a loaded machine (seconds); the stuck goroutines are abandoned.
		done := make(chan error, 1)
		go func() {
			_, e := rdb.CompileToSpecificRDBVersion(in, out, o)
			done <- e
		}()
		select {
		case err = <-done:
		case <-time.After(hangTimeout):
			err = fmt.Errorf("HANG: compilation did not return within %v (mode %s, workers %d, BatchNumParallel %d, BatchSize %d)",
				hangTimeout, s.mode, s.workers, s.par, s.bs)
			if hangTimeout > 30*time.Second {
				hangTimeout = 30 * time.Second // one long wait per run is enough to tell a hang from a slow disk
			}
		}
	}
	if err != nil {
		return err, nil, nil
	}
	d, derr = complib.DumpRDB(out)
	return nil, d, derr
}

// lineTable: the codec's output for every '\n'-separated chunk of the file in the forms a line reader
// may hand on: as it is, without one trailing CR, and each of these without leading blanks.  Nothing
// is skipped or trimmed on behalf of the Coq model, which reads the file bytes itself and looks its
// lines up here (forms shorter than two bytes or starting with '#' are left out: no reader asks for them).
func lineTable(cfg complib.Cfg, file []byte) []tableJ {
	res := []tableJ{}
	seen := map[string]bool{}
	codec := complib.NewCodec(cfg) // its accumulator is not used
	for _, chunk := range bytes.Split(file, []byte("\n")) {
		forms := [][]byte{chunk}
		if n := len(chunk); n > 0 && chunk[n-1] == '\r' {
			forms = append(forms, chunk[:n-1])
		}
		for _, f := range forms {
			for _, l := range [][]byte{f, bytes.TrimLeft(f, " ")} {
				if len(l) < 2 || l[0] == '#' || seen[string(l)] {
					continue
				}
				seen[string(l)] = true
				o := complib.ConvertOne(codec, l)
				res = append(res, tableJ{hlib.Ints(l), o.Ok, complib.ToJKV(o.Recs)})
			}
		}
	}
	return res
}

func settingsGrid(cfg complib.Cfg) []setting {
	var g []setting
	for _, w := range []int{1, 2, 16} {
		if cfg.CDB {
			g = append(g, setting{"cdb", w, 0, 0})
			continue
		}
		g = append(g, setting{"builder", w, 0, 0})
		for _, bs := range []int{1, 7, 100000} {
			for _, par := range []int{0, 1, 4} {
				g = append(g, setting{"batches", w, bs, par})
			}
		}
	}
	return g
}

// pickSettings takes k runs of the grid: one builder run if withBuilder, at most one
// batch run with BatchNumParallel 0 (made in a child process) and only if withPar0.
func pickSettings(r *hlib.Rng, cfg complib.Cfg, k int, withBuilder, withPar0 bool) []setting {
	g := settingsGrid(cfg)
	if cfg.CDB || k >= len(g) {
		return g
	}
	var bl, ba, b0 []setting
	for _, s := range g {
		switch {
		case s.mode == "builder":
			bl = append(bl, s)
		case s.par == 0:
			b0 = append(b0, s)
		default:
			ba = append(ba, s)
		}
	}
	var res []setting
	if withBuilder {
		res = append(res, bl[r.Intn(len(bl))])
	}
	if withPar0 {
		res = append(res, b0[r.Intn(len(b0))])
	}
	r.Shuffle(len(ba), func(i, j int) { ba[i], ba[j] = ba[j], ba[i] })
	return append(res, ba[:k-len(res)]...)
}

// runCompileCase compiles file under every setting (in parallel, separate directories).
func runCompileCase(scratch string, class, cfgName string, file []byte, sets []setting, small bool, ncpu int) (*compileCase, error) {
	cfg := cfgOf(cfgName)
	in := freshDir(scratch) + ".data"
	if err := complib.WriteFile(in, file, serial); err != nil {
		return nil, err
	}
	defer os.Remove(in)
	eff := complib.EffectiveLines(file)
	ref, err := complib.Refer(cfg, eff)
	if err != nil {
		return nil, err
	}
	c := &compileCase{Kind: "compile", Class: class, Cfg: cfgName, File: hlib.Ints(file), Small: small,
		NLines: len(eff), AllOk: ref.AllOk, BadLine: ref.FirstBad, NCPU: ncpu}
	if ref.AnyPanic {
		// the codec panics on a line of this file: a parser worker would take the whole
		// process down, so no compiler is run
		c.Class = class + "+codec-panic"
		return c, nil
	}
	recs := ref.Records()
	c.NRec = len(recs)
	want := complib.FromRecords(recs)
	if small {
		c.Table = lineTable(cfg, file)
		c.Acc = complib.ToJKV(ref.Acc)
		c.Feat = complib.ToJKV(ref.Feat)
	}
	if !cfg.CDB && ref.AllOk {
		keys := make([][]byte, len(recs))
		for i, x := range recs {
			keys[i] = x.K
		}
		_, c.Buckets = rdb.BucketsForVerif(keys, minBucketSize, ncpu)
		size := len(recs) / ncpu
		if size < minBucketSize {
			size = minBucketSize
		}
		for i, b := range c.Buckets {
			if i+1 < len(c.Buckets) && b[1] != b[0]+size {
				c.Straddle = true
			}
		}
	}
	c.Runs = make([]runJ, len(sets))
	if class == "race-cdb" {
		// a data race in the parser can also crash the process: all these compilations are made
		// by child processes, a run whose child died counts as failed
		if err := runCDBChildren(scratch, in, sets, want, c.Runs); err != nil {
			return nil, err
		}
		return c, nil
	}
	var wg sync.WaitGroup
	sem := make(chan struct{}, 4)
	var firstErr error
	var mu sync.Mutex
	for i, s := range sets {
		wg.Add(1)
		go func(i int, s setting) {
			defer wg.Done()
			if s.mode == "builder" {
				heavy.Lock()
				defer heavy.Unlock()
			} else {
				heavy.RLock()
				defer heavy.RUnlock()
			}
			sem <- struct{}{}
			defer func() { <-sem }()
			r := runJ{Mode: s.mode, Workers: s.workers, BS: s.bs, Par: s.par}
			t0 := time.Now()
			cerr, d, derr := compileOne(scratch, in, cfg, s)
			r.Ms = int(time.Since(t0) / time.Millisecond)
			if derr != nil {
				mu.Lock()
				firstErr = fmt.Errorf("reading back %+v: %w", s, derr)
				mu.Unlock()
				return
			}
			if cerr != nil {
				r.Err = cerr.Error()
				if len(r.Err) > 160 {
					r.Err = r.Err[:160]
				}
			} else {
				r.Ok = true
				r.NRec = d.Records()
				var k []byte
				r.GoSame, k = complib.SameMultiset(d, want)
				if !r.GoSame {
					r.DiffKey = hlib.Ints(k)
				}
				if small {
					r.Dump = d.JSON()
				}
			}
			c.Runs[i] = r
		}(i, s)
	}
	wg.Wait()
	if firstErr != nil {
		return nil, firstErr
	}
	return c, nil
}

// ---------------------------------------------------------------- generation

func genSmallFile(r *hlib.Rng, class string, wsTail bool) []byte {
	g := complib.NewGen(r, 1+r.Intn(4), 1+r.Intn(6))
	n := 1 + r.Intn(18)
	nets := 0
	if r.Chance(2, 3) {
		nets = r.Intn(5)
	}
	lines := g.File(n, nets, class == "dupnet", r.Chance(1, 2))
	// a key that certainly holds several values, two of them equal
	hot := "+hot." + g.Zones[0] + ","
	for _, ip := range []string{"192.0.2.1", "192.0.2.2", "192.0.2.1", "2001:db8::7"}[:2+r.Intn(3)] {
		pos := r.Intn(len(lines) + 1)
		lines = append(lines[:pos], append([]string{hot + ip}, lines[pos:]...)...)
	}
	if class == "dupnet" {
		used := map[string]string{}
		for i := 0; i < 3; i++ {
			lines = append(lines, g.NetLine(used, true))
		}
		// the same subnet of the same map twice, with different locations
		lines = append(lines, "%ab,10.9.0.0/16,ec", "%zz,10.9.0.0/16,ec")
		r.Shuffle(len(lines), func(i, j int) { lines[i], lines[j] = lines[j], lines[i] })
	}
	insert := func(l string) {
		pos := r.Intn(len(lines) + 1)
		lines = append(lines[:pos], append([]string{l}, lines[pos:]...)...)
	}
	if wsTail {
		// lines ending in white space: the reader hands them to the codec as they are
		for k := 1 + r.Intn(3); k > 0; k-- {
			insert(g.WsTailLine())
		}
	}
	if r.Chance(1, 2) {
		insert(g.WsSkipLine())
	}
	if class == "reject" {
		insert(g.BadLine())
	}
	if class == "reject-ws" {
		// the only bad line of the file: white space other than blanks in front
		insert(g.WsLeadLine())
	}
	if class == "empty" {
		lines = []string{"# nothing", ""}
	}
	return complib.Join(lines, r.Chance(3, 4))
}

// genBigFile: n record lines, a few hot keys holding most of the values, so that
// runs of equal keys cover the nominal bucket boundaries and many batch boundaries.
func genBigFile(r *hlib.Rng, n int) []byte {
	var sb strings.Builder
	hot := []string{"hot.example.com", "a.hot.ex.org", "m.example.com", "zz.example.com", "example.com"}
	for i := 0; i < n; i++ {
		switch r.Pick([]int{70, 20, 5, 5}) {
		case 0:
			fmt.Fprintf(&sb, "+%s,10.%d.%d.%d,%d\n", hot[r.Intn(len(hot))], r.Intn(256), r.Intn(256), r.Intn(256), 60+r.Intn(4))
		case 1:
			fmt.Fprintf(&sb, "+h%d.example.com,192.0.2.%d\n", r.Intn(n), r.Intn(256))
		case 2:
			fmt.Fprintf(&sb, "'%s,text %d\n", hot[r.Intn(len(hot))], r.Intn(50))
		default:
			fmt.Fprintf(&sb, "=p%d.ex.org,198.51.%d.%d\n", r.Intn(n), r.Intn(256), r.Intn(256))
		}
	}
	sb.WriteString("%ab,10.0.0.0/8,ec\n%zz,10.1.0.0/16,ec\nMexample.com,ec\n")
	return []byte(sb.String())
}

// genRaceBatchFile: one hot key holding several hundred distinct values spread over the
// whole file, so that with small batches almost every pair of concurrent ExecuteBatch calls
// reads and rewrites the same stored value (a read-modify-write that is not serialised loses
// values).
func genRaceBatchFile(r *hlib.Rng) []byte {
	var sb strings.Builder
	for i := 0; i < 240; i++ {
		if i%4 == 3 {
			fmt.Fprintf(&sb, "+h%d.example.com,192.0.2.%d\n", i, r.Intn(256))
		} else {
			fmt.Fprintf(&sb, "+hot.example.com,10.%d.%d.%d\n", i/256, i%256, r.Intn(256))
		}
	}
	return []byte(sb.String())
}

// genRacePrefixFile: about 2000 subnet lines, a dense run of IPv4 /24 and IPv6 /48 subnets with
// one subnet of every other prefix length spread through it: the prefix set records of the CDB
// ("\000/", "\0004", "\0006") must hold every length, also those that occur once.
func genRacePrefixFile(r *hlib.Rng) []byte {
	var lines []string
	for i := 0; i < 1850; i++ {
		if i%3 == 2 {
			lines = append(lines, fmt.Sprintf("%%ab,2001:db8:%x::/48,ec", i))
		} else {
			lines = append(lines, fmt.Sprintf("%%ab,10.%d.%d.0/24,ec", i/256, i%256))
		}
	}
	var once []string
	for n := 1; n <= 32; n++ {
		if n != 24 {
			once = append(once, fmt.Sprintf("%%zz,129.129.129.129/%d,m1", n))
		}
	}
	for n := 1; n <= 95; n++ {
		if n != 48 {
			once = append(once, fmt.Sprintf("%%zz,2a01:4f8:ffff:ffff:ffff:ffff::/%d,m2", n))
		}
	}
	// spread the single ones through the dense block
	for _, l := range once {
		pos := 20 + r.Intn(len(lines)-40)
		lines = append(lines[:pos], append([]string{l}, lines[pos:]...)...)
	}
	lines = append([]string{"Zexample.com,ns1.example.com,adm.example.com,1", "&example.com,192.0.2.1,ns1.example.com", "+www.example.com,192.0.2.2"}, lines...)
	return complib.Join(lines, true)
}

func genBuckets(r *hlib.Rng) *bucketCase {
	n := r.Intn(41)
	if r.Chance(1, 20) {
		n = 0
	}
	alpha := 1 + r.Intn(6)
	keys := make([][]byte, n)
	for i := range keys {
		k := []byte{byte('a' + r.Intn(alpha))}
		if r.Chance(1, 4) {
			k = append(k, byte('a'+r.Intn(2)))
		}
		if r.Chance(1, 15) {
			k = []byte{}
		}
		keys[i] = k
	}
	c := &bucketCase{Kind: "buckets", Class: "buckets", Keys: [][]int{}, MinSize: 1 + r.Intn(12), MaxNum: 1 + r.Intn(8)}
	if r.Chance(1, 12) {
		c.MinSize = 0
		c.Class = "buckets-min0"
	}
	for _, k := range keys {
		c.Keys = append(c.Keys, hlib.Ints(k))
	}
	return c
}

func runBuckets(c *bucketCase) {
	keys := make([][]byte, len(c.Keys))
	for i, k := range c.Keys {
		keys[i] = hlib.Unints(k)
	}
	c.Sorted, c.Buckets, c.Panic = [][]int{}, [][2]int{}, false
	func() {
		defer func() {
			if e := recover(); e != nil {
				c.Panic = true
			}
		}()
		s, b := rdb.BucketsForVerif(keys, c.MinSize, c.MaxNum)
		for _, k := range s {
			c.Sorted = append(c.Sorted, hlib.Ints(k))
		}
		if b != nil {
			c.Buckets = b
		}
	}()
	if c.Panic {
		// the sort happens before the panic; the model needs the sorted array it ran on
		s, _ := rdb.BucketsForVerif(keys, 1, 1)
		c.Sorted = [][]int{}
		for _, k := range s {
			c.Sorted = append(c.Sorted, hlib.Ints(k))
		}
		c.Buckets = [][2]int{}
	}
}

// ---------------------------------------------------------------- child process for BatchNumParallel <= 0

// generous, because the machine may be busy; after the first hang the later ones get little time
var childTimeout = 90 * time.Second

// hangTimeout bounds one in-process compilation (see compileOne)
var hangTimeout = 240 * time.Second
var hangSeen int32

// cdbChildMain: childcdb:<in>:<outprefix>:<w1,w2,...> compiles in to <outprefix>.<i> with wi workers.
func cdbChildMain(spec string) {
	f := strings.Split(spec, ":")
	for i, ws := range strings.Split(f[3], ",") {
		var w int
		fmt.Sscan(ws, &w)
		if _, err := cdb.CreateCDB(f[1], fmt.Sprintf("%s.%d", f[2], i), &cdb.CreatorOptions{NumCPU: w}); err != nil {
			fmt.Printf("CDB-ERR %d %v\n", i, err)
		} else {
			fmt.Printf("CDB-DONE %d\n", i)
		}
	}
}

// runCDBChildren makes the CDB compilations of sets in child processes (20 per child, 4 children
// at a time) and compares every file they wrote with the reference.
func runCDBChildren(scratch, in string, sets []setting, want complib.Dump, runs []runJ) error {
	exe, err := os.Executable()
	if err != nil {
		return err
	}
	const per = 30
	var wg sync.WaitGroup
	sem := make(chan struct{}, 4)
	var mu sync.Mutex
	var firstErr error
	for lo := 0; lo < len(sets); lo += per {
		hi := lo + per
		if hi > len(sets) {
			hi = len(sets)
		}
		wg.Add(1)
		go func(lo, hi int) {
			defer wg.Done()
			sem <- struct{}{}
			defer func() { <-sem }()
			prefix := freshDir(scratch)
			var ws []string
			for _, s := range sets[lo:hi] {
				ws = append(ws, fmt.Sprint(s.workers))
			}
			ctx, cancel := context.WithTimeout(context.Background(), childTimeout)
			defer cancel()
			t0 := time.Now()
			out, rerr := exec.CommandContext(ctx, exe, "-extra", fmt.Sprintf("childcdb:%s:%s:%s", in, prefix, strings.Join(ws, ","))).CombinedOutput()
			ms := int(time.Since(t0)/time.Millisecond) / (hi - lo)
			for i := lo; i < hi; i++ {
				s := sets[i]
				r := runJ{Mode: s.mode, Workers: s.workers, Ms: ms}
				path := fmt.Sprintf("%s.%d", prefix, i-lo)
				if strings.Contains(string(out), fmt.Sprintf("CDB-DONE %d\n", i-lo)) {
					d, derr := complib.DumpCDB(path)
					if derr != nil {
						mu.Lock()
						firstErr = derr
						mu.Unlock()
					} else {
						r.Ok = true
						r.NRec = d.Records()
						var k []byte
						r.GoSame, k = complib.SameMultiset(d, want)
						if !r.GoSame {
							r.DiffKey = hlib.Ints(k)
						}
					}
				} else {
					tail := string(out)
					if len(tail) > 160 {
						tail = tail[:160]
					}
					r.Err = fmt.Sprintf("CRASH or error in child: %v %s", rerr, tail)
				}
				os.Remove(path)
				runs[i] = r
			}
		}(lo, hi)
	}
	wg.Wait()
	return firstErr
}

func childMain(spec string) {
	// child:<in>:<dir>:<workers>:<bs>:<par>:<v2>
	f := strings.Split(spec, ":")
	var w, bs, par, v2 int
	fmt.Sscan(f[3], &w)
	fmt.Sscan(f[4], &bs)
	fmt.Sscan(f[5], &par)
	fmt.Sscan(f[6], &v2)
	log.SetOutput(io.Discard)
	_, err := rdb.CompileToSpecificRDBVersion(f[1], f[2], rdb.CompilationOptions{NumCPU: w, BatchSize: bs, BatchNumParallel: par, UseV2KeySyntax: v2 == 1})
	if err != nil {
		fmt.Println("CHILD-ERR", err)
		return
	}
	fmt.Println("CHILD-DONE")
}

func compileInChild(in, out string, cfg complib.Cfg, s setting) error {
	exe, err := os.Executable()
	if err != nil {
		return err
	}
	to := childTimeout
	if atomic.LoadInt32(&hangSeen) != 0 {
		to = 5 * time.Second
	}
	ctx, cancel := context.WithTimeout(context.Background(), to)
	defer cancel()
	v2 := 0
	if cfg.V2 {
		v2 = 1
	}
	cmd := exec.CommandContext(ctx, exe, "-extra", fmt.Sprintf("child:%s:%s:%d:%d:%d:%d", in, out, s.workers, s.bs, s.par, v2))
	o, rerr := cmd.CombinedOutput()
	switch {
	case ctx.Err() != nil:
		atomic.StoreInt32(&hangSeen, 1)
		return fmt.Errorf("HANG: no result within %v", to)
	case strings.Contains(string(o), "CHILD-DONE"):
		return nil
	case strings.Contains(string(o), "CHILD-ERR"):
		return fmt.Errorf("%s", strings.TrimSpace(string(o)))
	}
	tail := string(o)
	if len(tail) > 300 {
		tail = tail[:300]
	}
	return fmt.Errorf("CRASH: %v %s", rerr, tail)
}

// ---------------------------------------------------------------- reader errors

func maxLineLen(file []byte) int {
	m := 0
	for _, l := range bytes.Split(file, []byte("\n")) {
		if len(l) > m {
			m = len(l)
		}
	}
	return m
}

func runLong(scratch string, c *longCase, ncpu int) error {
	c.Limit = bufio.MaxScanTokenSize
	file := append(append(hlib.Unints(c.Pre), bytes.Repeat([]byte{byte(c.Fill)}, c.Count)...), hlib.Unints(c.Post)...)
	c.LineLen = maxLineLen(file)
	c.ExpectFail = c.LineLen >= c.Limit
	cc, err := runCompileCase(scratch, "long", c.Cfg, file, settingsOf(c.Runs), false, ncpu)
	if err != nil {
		return err
	}
	c.NRec = cc.NRec
	c.Runs = cc.Runs
	return nil
}

type failingReader struct {
	data []byte
	k    int
	pos  int
}

var errInjected = errors.New("injected read error")

func (f *failingReader) Read(p []byte) (int, error) {
	if f.pos >= f.k {
		return 0, errInjected
	}
	n := copy(p, f.data[f.pos:f.k])
	f.pos += n
	return n, nil
}

func runReadErr(scratch string, c *readErrCase) error {
	file := hlib.Unints(c.File)
	cfg := cfgOf(c.Cfg)
	for i := range c.Runs {
		r := &c.Runs[i]
		out := freshDir(scratch)
		rd := &failingReader{data: file, k: c.FailAfter}
		var err error
		t0 := time.Now()
		if cfg.CDB {
			w, werr := gocdb.NewWriter(out)
			if werr != nil {
				return werr
			}
			_, err = cdb.CreateCDBFromReader(rd, w, serial, r.Workers)
			w.Close()
		} else {
			if e := os.MkdirAll(out, 0o755); e != nil {
				return e
			}
			func() {
				if r.Mode == "builder" {
					heavy.Lock()
					defer heavy.Unlock()
				}
				_, err = rdb.Compile(rd, serial, out, rdb.CompilationOptions{NumCPU: r.Workers, UseV2KeySyntax: cfg.V2,
					UseBuilder: r.Mode == "builder", BatchNumParallel: r.Par, BatchSize: r.BS})
			}()
		}
		r.Ms = int(time.Since(t0) / time.Millisecond)
		os.RemoveAll(out)
		r.Ok, r.Err, r.GoSame, r.NRec = err == nil, "", false, 0
		if err != nil {
			r.Err = err.Error()
			if len(r.Err) > 160 {
				r.Err = r.Err[:160]
			}
		}
	}
	return nil
}

func runsOf(sets []setting) []runJ {
	var rs []runJ
	for _, s := range sets {
		rs = append(rs, runJ{Mode: s.mode, Workers: s.workers, BS: s.bs, Par: s.par})
	}
	return rs
}

// genLong: variant v of the over-long line cases.
func genLong(r *hlib.Rng, v int, thorough bool) *longCase {
	limit := bufio.MaxScanTokenSize
	g := complib.NewGen(r, 2, 3)
	kinds := []struct{ name, prefix string }{{"txt", "'long.example.com,"}, {"comment", "# "}, {"generic", ":long.example.com,99,"}}
	lens := []struct {
		name string
		l    int
	}{{"limit-1", limit - 1}, {"limit", limit}, {"limit+1", limit + 1}, {"2limit", 2 * limit}}
	poss := []string{"first", "middle", "last", "last-nonl"}
	k, l, pos, cr := kinds[v%3], lens[v%4], poss[(v/2)%4], v%7 == 4
	if !thorough {
		// the quick tier: eight chosen combinations
		q := [][4]int{{0, 0, 1, 0}, {0, 1, 0, 0}, {1, 2, 1, 0}, {2, 3, 3, 0}, {0, 0, 1, 1}, {1, 0, 3, 0}, {0, 1, 3, 0}, {2, 0, 0, 0}}[v%8]
		k, l, pos, cr = kinds[q[0]], lens[q[1]], poss[q[2]], q[3] == 1
	}
	var before, after []string
	if pos != "first" {
		before = g.File(2+r.Intn(4), 0, false, false)
	}
	if pos == "first" || pos == "middle" {
		after = g.File(2+r.Intn(4), 0, false, false)
	}
	pre := ""
	if len(before) > 0 {
		pre = strings.Join(before, "\n") + "\n"
	}
	pre += k.prefix
	suffix := ""
	if cr {
		suffix = "\r" // the CR is part of the token the scanner must hold
	}
	count := l.l - len(k.prefix)
	post := suffix
	if pos != "last-nonl" {
		post += "\n"
	}
	if len(after) > 0 {
		post += strings.Join(after, "\n") + "\n"
	}
	cfgName := []string{"v1", "cdb", "v2"}[v%3]
	sets := []setting{{"batches", 2, 7, 4}, {"batches", 16, 100000, 1}}
	if cfgName == "cdb" {
		sets = []setting{{"cdb", 1, 0, 0}, {"cdb", 16, 0, 0}}
	} else if v%4 == 3 || thorough {
		sets = append(sets, setting{"builder", 2, 0, 0})
	}
	crs := ""
	if cr {
		crs = "+cr"
	}
	return &longCase{Kind: "long", Class: fmt.Sprintf("long-line:%s:%s%s:%s", k.name, l.name, crs, pos), Cfg: cfgName,
		Pre: hlib.Ints([]byte(pre)), Fill: 'x', Count: count, Post: hlib.Ints([]byte(post)), Runs: runsOf(sets)}
}

// ---------------------------------------------------------------- main

func settingsOf(runs []runJ) []setting {
	var s []setting
	for _, r := range runs {
		s = append(s, setting{r.Mode, r.Workers, r.BS, r.Par})
	}
	return s
}

func replay(a *hlib.Args, e *hlib.Emitter, ncpu int) error {
	cases, err := hlib.ReadReplay(a.Replay)
	if err != nil {
		return err
	}
	for _, m := range cases {
		var kind string
		json.Unmarshal(m["kind"], &kind)
		raw, _ := json.Marshal(m)
		switch kind {
		case "compile":
			var c compileCase
			if err := json.Unmarshal(raw, &c); err != nil {
				return err
			}
			nc, err := runCompileCase(a.Scratch, strings.TrimSuffix(c.Class, "+codec-panic"), c.Cfg, hlib.Unints(c.File), settingsOf(c.Runs), c.Small, ncpu)
			if err != nil {
				return err
			}
			e.Emit(nc)
		case "buckets":
			var c bucketCase
			if err := json.Unmarshal(raw, &c); err != nil {
				return err
			}
			runBuckets(&c)
			e.Emit(&c)
		case "long":
			var c longCase
			if err := json.Unmarshal(raw, &c); err != nil {
				return err
			}
			if err := runLong(a.Scratch, &c, ncpu); err != nil {
				return err
			}
			e.Emit(&c)
		case "readerr":
			var c readErrCase
			if err := json.Unmarshal(raw, &c); err != nil {
				return err
			}
			if err := runReadErr(a.Scratch, &c); err != nil {
				return err
			}
			e.Emit(&c)
		default:
			return fmt.Errorf("unknown case kind %q", kind)
		}
	}
	return nil
}

func run(a *hlib.Args, e *hlib.Emitter) error {
	if strings.HasPrefix(a.Extra, "childcdb:") {
		log.SetOutput(io.Discard)
		cdbChildMain(a.Extra)
		return nil
	}
	if strings.HasPrefix(a.Extra, "child:") {
		childMain(a.Extra)
		return nil
	}
	log.SetOutput(io.Discard)
	if a.Scratch == "" {
		d, err := os.MkdirTemp("/var/tmp", "c07-")
		if err != nil {
			return err
		}
		defer os.RemoveAll(d)
		a.Scratch = d
	}
	ncpu := numCPU()
	if a.Replay != "" {
		hangTimeout = 40 * time.Second
		childTimeout = 20 * time.Second // replays (shrinking) must not wait long for a child that hangs
		return replay(a, e, ncpu)
	}
	thorough := a.Tier == "thorough"

	// bucket arithmetic
	rb := hlib.NewRng(a.Seed, 2)
	nb := 250
	if thorough {
		nb = 5000
	}
	if a.N == 0 {
		nb = 0
	}
	for i := 0; i < nb; i++ {
		c := genBuckets(rb)
		runBuckets(c)
		e.Emit(c)
	}

	// small files, evaluated by the Coq model as well
	r := hlib.NewRng(a.Seed, 1)
	perCase := 6
	if thorough {
		perCase = 100
	}
	for i := 0; i < a.N; i++ {
		class := "wf"
		switch {
		case i%8 == 7:
			class = "reject-ws"
		case i%4 == 3:
			class = "reject"
		case i%11 == 5:
			class = "dupnet"
		case i == 6:
			class = "empty"
		}
		file := genSmallFile(r, class, i%2 == 0 || i%8 == 7)
		cfgName := []string{"v1", "v2"}[i%2]
		// a Builder costs about 1 GB of zeroed memory and a child process a second: few of them in the quick tier
		sets := pickSettings(r, cfgOf(cfgName), perCase, thorough || i%4 == 0, thorough || i%3 == 1)
		c, err := runCompileCase(a.Scratch, class, cfgName, file, sets, true, ncpu)
		if err != nil {
			return err
		}
		e.Emit(c)
		if i%2 == 0 || thorough {
			c, err = runCompileCase(a.Scratch, class, "cdb", file, pickSettings(r, cfgOf("cdb"), 3, false, false), true, ncpu)
			if err != nil {
				return err
			}
			e.Emit(c)
		}
	}

	// larger files: compared here only, verdict per setting in the case
	rl := hlib.NewRng(a.Seed, 3)
	type big struct {
		n    int
		sets []setting
	}
	var bigs []big
	if a.N > 0 {
		bigs = append(bigs, big{2500, []setting{{"builder", 16, 0, 0}, {"batches", 2, 64, 4}, {"batches", 16, 64, 8}, {"batches", 16, 1000, 0}, {"batches", 1, 100000, 1}}})
	}
	if thorough {
		bigs = append(bigs,
			big{31000, []setting{{"builder", 1, 0, 0}, {"builder", 16, 0, 0}, {"batches", 16, 7, 4}, {"batches", 2, 9973, 4}, {"batches", 1, 100000, 1}, {"batches", 16, 30000, 4}}},
			big{64000, []setting{{"builder", 2, 0, 0}, {"builder", 16, 0, 0}, {"batches", 16, 1000, 4}, {"batches", 16, 100000, 4}}},
			big{4000, []setting{{"builder", 1, 0, 0}, {"batches", 1, 1, 1}, {"batches", 16, 1, 4}}},
		)
	}
	for bi, b := range bigs {
		file := genBigFile(rl, b.n)
		for _, cfgName := range []string{"v1", "v2", "cdb"} {
			sets := b.sets
			if cfgName == "cdb" {
				sets = []setting{{"cdb", 1, 0, 0}, {"cdb", 16, 0, 0}}
			}
			if !thorough && cfgName == "v2" && bi == 0 {
				sets = sets[1:2]
			}
			c, err := runCompileCase(a.Scratch, "big", cfgName, file, sets, false, ncpu)
			if err != nil {
				return err
			}
			if len(c.File) > 4000 {
				c.File = c.File[:0] // regenerated from the seed; too large for a replay file
			}
			e.Emit(c)
		}
		if thorough {
			// a rejected line at a random position of the large file
			lines := strings.Split(string(file), "\n")
			pos := rl.Intn(len(lines))
			lines = append(lines[:pos], append([]string{"Qbad.example.com,1"}, lines[pos:]...)...)
			for _, cfgName := range []string{"v1", "cdb"} {
				sets := b.sets
				if cfgName == "cdb" {
					sets = []setting{{"cdb", 1, 0, 0}, {"cdb", 16, 0, 0}}
				}
				c, err := runCompileCase(a.Scratch, "big-reject", cfgName, []byte(strings.Join(lines, "\n")), sets, false, ncpu)
				if err != nil {
					return err
				}
				c.File = c.File[:0]
				e.Emit(c)
			}
		}
	}

	// the reader gives up: an over-long line, an error of the io.Reader
	if a.N > 0 {
		rk := hlib.NewRng(a.Seed, 5)
		nl := 8
		if thorough {
			nl = 48
		}
		for v := 0; v < nl; v++ {
			c := genLong(rk, v, thorough)
			if err := runLong(a.Scratch, c, ncpu); err != nil {
				return err
			}
			e.Emit(c)
		}
		for v := 0; v < 3; v++ {
			g := complib.NewGen(rk, 2, 3)
			file := complib.Join(g.File(12+rk.Intn(10), 2, false, false), true)
			c := &readErrCase{Kind: "readerr", Class: "read-error", Cfg: []string{"v1", "cdb", "v2"}[v], File: hlib.Ints(file),
				FailAfter: []int{len(file) / 2, len(file), 1 + rk.Intn(len(file)-1)}[v]}
			switch c.Cfg {
			case "cdb":
				c.Runs = runsOf([]setting{{"cdb", 1, 0, 0}, {"cdb", 16, 0, 0}})
			case "v1":
				c.Runs = runsOf([]setting{{"batches", 2, 7, 4}, {"builder", 16, 0, 0}})
			default:
				c.Runs = runsOf([]setting{{"batches", 16, 100000, 1}, {"batches", 1, 1, 1}})
			}
			if err := runReadErr(a.Scratch, c); err != nil {
				return err
			}
			e.Emit(c)
		}
	}

	// schedule dependent defects: the same settings several times, compared here only
	if a.N > 0 {
		rr := hlib.NewRng(a.Seed, 4)
		var bsets []setting
		for _, x := range [][2]int{{2, 16}, {2, 8}, {1, 16}, {2, 16}, {4, 16}, {3, 8}} {
			bsets = append(bsets, setting{"batches", 16, x[0], x[1]})
		}
		reps := 1
		if thorough {
			reps = 5
		}
		for k := 0; k < reps; k++ {
			c, err := runCompileCase(a.Scratch, "race-batch", []string{"v1", "v2"}[k%2], genRaceBatchFile(rr), bsets, false, ncpu)
			if err != nil {
				return err
			}
			e.Emit(c)
		}
		var csets []setting
		n := 120
		if thorough {
			n = 600
		}
		for i := 0; i < n; i++ {
			csets = append(csets, setting{"cdb", []int{8, 16, 4, 16}[i%4], 0, 0})
		}
		c, err := runCompileCase(a.Scratch, "race-cdb", "cdb", genRacePrefixFile(rr), csets, false, ncpu)
		if err != nil {
			return err
		}
		e.Emit(c)
	}
	return nil
}

// Every rdb.CreateBatch allocates about 10 MB and every Builder about 1 GB, almost all of it never
// touched.  With the proportional collector each of them starts a collection and the freed spans
// are zeroed again on reuse; the collector is therefore driven by a memory limit alone.
func main() {
	debug.SetGCPercent(-1)
	debug.SetMemoryLimit(4 << 30)
	hlib.Main(run)
}
